(* LexPrint.v — the lexer reads back what the printer writes:

     Theorem lex_print : forall L, Laws L -> forall p,
       wf_path L p -> excl_C02 p = false -> lex L (print_path L p) = tok_path L p.

   Part A: token lemmas at the rune level (what one Lex call returns on a
           spelling followed by a boundary rune): "$", ".", "0", ASCII words /
           keywords, NUMERIC texts (float_text).
   Part B: [Lx X toks F]: the bytes X, followed by anything whose first byte
           satisfies F (or by nothing), lex to toks and leave the rest;
           sequential composition of such facts.
   Part C: the Lx fact of every piece the printer writes.
   Part D: induction over the tree. *)
From Coq Require Import Floats.SpecFloat.
From SJ Require Import lib.Base lib.Utf8 lib.GoLib model.Json model.Ast model.Lexer model.Parser
  model.Printer proofs.LexProofs proofs.QuoteProofs proofs.RoundTrip proofs.Tokens proofs.LexFuel.
Local Open Scope string_scope.
Local Open Scope Z_scope.
Local Open Scope list_scope.
Notation length := List.length (only parsing).

(* ================================================================== *)
(* Part A *)

(* boundary conditions: the continuation is empty or starts with a readable
   rune satisfying G *)
Definition hdr (G : Z -> bool) (rest : list Z) : bool :=
  match rest with [] => true | c :: _ => (0 <? c) && G c end.

Lemma hdr_readable G rest : hdr G rest = true -> readable_head rest = true.
Proof. destruct rest as [|c r]; cbn; [reflexivity|]. intros H. apply andb_prop in H as [H _]. exact H. Qed.

Lemma hdr_weaken (G G' : Z -> bool) rest :
  (forall c, 0 < c -> G c = true -> G' c = true) -> hdr G rest = true -> hdr G' rest = true.
Proof.
  intros W. destruct rest as [|c r]; cbn; [reflexivity|]. intros H. apply andb_prop in H as [H1 H2].
  rewrite H1. cbn. apply W; [lia|exact H2].
Qed.

(* ASCII letters, digits, '_' *)
Definition is_letter (c : Z) : bool := ((65 <=? c) && (c <=? 90)) || ((97 <=? c) && (c <=? 122)).
Definition is_word_rune (c : Z) : bool := is_letter c || is_decimal c || (c =? 95).
Definition is_word_start (c : Z) : bool := is_letter c || (c =? 95).

Section TokenLemmas.
Variable L : GoLib.
Hypothesis HL : Laws L.

Lemma lex_one_cons c rest : 0 < c -> lex_one L (c :: rest) = lex_tok L (S (length rest)) c rest.
Proof. intros H. unfold lex_one. rewrite next_cons by exact H. reflexivity. Qed.

(* ---- "$" not followed by a quote or a variable-name rune ---- *)
Theorem dollar_independent rest :
  hdr (fun c => negb (c =? 34) && negb (is_variable_rune L c)) rest = true ->
  lex_one L (36 :: rest) = LOk (Some (ctok 36), fst (view rest), snd (view rest)).
Proof.
  intros Hb. rewrite lex_one_cons by lia.
  cbn [lex_tok]. rewrite skip_ws_not by reflexivity. cbn [lbind].
  rewrite (ident_start_false L HL) by (cbn; first [lia|reflexivity]).
  change (is_decimal 36) with false. change (36 <? 0) with false. change (36 =? 34) with false.
  change (36 =? 36) with true. cbn iota.
  unfold scan_variable. rewrite next_view by (eapply hdr_readable; exact Hb). cbn [lbind].
  destruct rest as [|c r]; cbn [view fst snd].
  - reflexivity.
  - cbn [hdr] in Hb. apply andb_prop in Hb as [_ Hb]. apply andb_prop in Hb as [H1 H2].
    apply negb_true_iff in H1, H2. rewrite H1, H2. reflexivity.
Qed.

(* ---- "." not followed by a digit ---- *)
Theorem dot_independent rest :
  hdr (fun c => negb (is_decimal c)) rest = true ->
  lex_one L (46 :: rest) = LOk (Some (ctok 46), fst (view rest), snd (view rest)).
Proof.
  intros Hb. rewrite lex_one_cons by lia.
  cbn [lex_tok]. rewrite skip_ws_not by reflexivity. cbn [lbind].
  rewrite (ident_start_false L HL) by (cbn; first [lia|reflexivity]).
  change (is_decimal 46) with false. change (46 <? 0) with false. change (46 =? 34) with false.
  change (46 =? 36) with false. change (46 =? 47) with false. change (46 =? 46) with true. cbn iota.
  rewrite next_view by (eapply hdr_readable; exact Hb). cbn [lbind].
  destruct rest as [|c r]; cbn [view fst snd].
  - reflexivity.
  - cbn [hdr] in Hb. apply andb_prop in Hb as [_ Hb].
    apply negb_true_iff in Hb. rewrite Hb. reflexivity.
Qed.

(* ---- ASCII words ---- *)
Lemma word_rune_ident c : is_word_rune c = true -> is_ident_rune L c false = true /\ c <> 92 /\ 0 < c.
Proof.
  unfold is_word_rune, is_letter, is_decimal. intros H.
  assert (R: 0 <= c < 128) by lia.
  unfold is_ident_rune. rewrite (xid_continue_ascii L HL) by exact R.
  split; [|lia]. replace (0 <=? c) with true by lia. cbn [andb].
  destruct (c =? 95) eqn:E; [reflexivity|]. cbn [orb].
  destruct (c =? 92) eqn:E2; [lia|]. cbn [orb]. rewrite orb_false_r. lia.
Qed.

Lemma word_start_ident c : is_word_start c = true -> is_ident_rune L c true = true /\ c <> 92 /\ 0 < c.
Proof.
  unfold is_word_start, is_letter. intros H.
  assert (R: 0 <= c < 128) by lia.
  unfold is_ident_rune. rewrite (xid_start_ascii L HL) by exact R.
  split; [|lia]. replace (0 <=? c) with true by lia. cbn [andb].
  destruct (c =? 95) eqn:E; [reflexivity|]. cbn [orb].
  destruct (c =? 92) eqn:E2; [lia|]. cbn [orb]. lia.
Qed.

Definition not_ident_cont (c : Z) : bool := negb (is_ident_rune L c false).

Lemma view_readable_app cs rest :
  forallb is_word_rune cs = true -> readable_head rest = true -> readable_head (cs ++ rest) = true.
Proof.
  destruct cs as [|c cs]; intros H Hr; [exact Hr|]. cbn [forallb] in H. apply andb_prop in H as [H _].
  cbn. apply word_rune_ident in H. lia.
Qed.

Lemma ident_loop_word cs : forall f buf rest,
  forallb is_word_rune cs = true -> hdr not_ident_cont rest = true -> (length cs < f)%nat ->
  ident_loop L f (fst (view (cs ++ rest))) (snd (view (cs ++ rest))) buf =
    LOk (fst (view rest), snd (view rest), buf ++ cs).
Proof.
  induction cs as [|c cs IH]; intros f buf rest Hw Hb Hf.
  - cbn [app]. destruct f as [|f]; [cbn in Hf; lia|]. cbn [ident_loop].
    assert (E: is_ident_rune L (fst (view rest)) false = false).
    { destruct rest as [|c r]; cbn [view fst].
      - unfold is_ident_rune. reflexivity.
      - cbn [hdr] in Hb. apply andb_prop in Hb as [_ Hb]. apply negb_true_iff in Hb. exact Hb. }
    rewrite E. rewrite app_nil_r. reflexivity.
  - cbn [forallb] in Hw. apply andb_prop in Hw as [Hc Hw].
    destruct (word_rune_ident c Hc) as [I1 [I2 I3]].
    cbn [app view fst snd]. destruct f as [|f]; [cbn in Hf; lia|]. cbn [ident_loop].
    rewrite I1. replace (c =? 92) with false by lia.
    rewrite next_view by (apply view_readable_app; [exact Hw|eapply hdr_readable; exact Hb]).
    cbn [lbind]. destruct (view (cs ++ rest)) as [c' r'] eqn:Ev.
    specialize (IH f (buf ++ [c]) rest Hw Hb ltac:(cbn [length] in Hf; lia)).
    rewrite Ev in IH. cbn [fst snd] in IH. rewrite IH. rewrite <- app_assoc. reflexivity.
Qed.

(* C03 for identifiers/keywords spelled with ASCII letters, digits and '_':
   the word, followed by a rune that cannot continue an identifier, is one
   token, classified by ident_token *)
Theorem word_independent c cs rest :
  is_word_start c = true -> forallb is_word_rune cs = true -> hdr not_ident_cont rest = true ->
  lex_one L ((c :: cs) ++ rest) =
    LOk (Some (mktok (ident_token L (string_of_runes (c :: cs))) (string_of_runes (c :: cs))),
         fst (view rest), snd (view rest)).
Proof.
  intros Hc Hw Hb. destruct (word_start_ident c Hc) as [I1 [I2 I3]].
  cbn [app]. rewrite lex_one_cons by exact I3.
  cbn [lex_tok]. rewrite skip_ws_not by (unfold is_word_start, is_letter, is_ws in *; lia). cbn [lbind].
  rewrite I1. unfold scan_ident. replace (c =? 92) with false by lia.
  rewrite next_view by (apply view_readable_app; [exact Hw|eapply hdr_readable; exact Hb]).
  cbn [lbind]. destruct (view (cs ++ rest)) as [c' r'] eqn:Ev.
  cbn [lbind]. pose proof (ident_loop_word cs (S (S (length r'))) [c] rest Hw Hb) as E.
  rewrite Ev in E. cbn [fst snd] in E. rewrite E.
  - reflexivity.
  - assert (length (cs ++ rest) <= S (length r'))%nat.
    { destruct (cs ++ rest) as [|x y]; cbn in Ev; inversion Ev; subst; cbn; lia. }
    rewrite app_length in H. lia.
Qed.
End TokenLemmas.

(* ------------------------------------------------------------------ *)
(* numbers *)
Section Numbers.
Variable L : GoLib.
Hypothesis HL : Laws L.

(* scanNumber after the fractional part: exponent and final checks *)
Definition exp_phase (tok : tkind) (prefix ch : Z) (rest acc : list Z) (digSep inv : Z)
  : lres (tkind * list Z * Z * list Z) :=
  let e := lower ch in
  let* (tok, ch, rest, acc, digSep) :=
     (if e =? 101 then
        if negb (prefix =? 0) && negb (prefix =? 48) then LErr ENumExpMantissa
        else
          let* (ch1, rest1) := next rest in
          let acc1 := acc ++ [ch] in
          let* (ch2, rest2, acc2) :=
             (if (ch1 =? 43) || (ch1 =? 45)
              then let* (c, r) := next rest1 in LOk (c, r, acc1 ++ [ch1])
              else LOk (ch1, rest1, acc1)) in
          let* (ch3, rest3, acc3, ds, _) := digits 10 ch2 rest2 acc2 0 0 in
          if Z.land ds 1 =? 0 then LErr ENumExpDigits
          else LOk (TNumeric, ch3, rest3, acc3, Z.lor digSep ds)
      else if is_ident_rune L e true then LErr ENumJunk
      else LOk (tok, ch, rest, acc, digSep)) in
  if (match tok with TInt => true | _ => false end) && negb (inv =? 0) then LErr ENumInvalidDigit
  else if negb (Z.land digSep 2 =? 0) && invalid_sep acc then LErr ENumSep
  else if is_ident_rune L ch true then LErr ENumJunk
  else LOk (tok, acc, ch, rest).

Lemma scan_number_tail_eq tok base prefix ch rest acc digSep inv sd :
  scan_number_tail L tok base prefix ch rest acc digSep inv sd =
  (let* (tok, ch, rest, acc, digSep, inv) :=
     (if sd then
        let* (ch, rest, acc, ds, inv) := digits base ch rest acc 0 inv in
        LOk (TNumeric, ch, rest, acc, Z.lor digSep ds, inv)
      else LOk (tok, ch, rest, acc, digSep, inv)) in
   exp_phase tok prefix ch rest acc digSep inv).
Proof. reflexivity. Qed.

Definition digit_stop (c : Z) : bool := negb (is_decimal c) && negb (c =? 95).

Lemma int_boundary_facts rest :
  int_boundary L rest = true ->
  let c := fst (view rest) in
  is_decimal c = false /\ (c =? 95) = false /\ (c =? 46) = false /\ (lower c =? 101) = false /\
  is_ident_rune L (lower c) true = false /\ is_ident_rune L c true = false /\
  readable_head rest = true /\ hdr digit_stop rest = true.
Proof.
  destruct rest as [|c r]; cbn [int_boundary view fst readable_head hdr].
  - intros _. repeat split; reflexivity.
  - intros Hb. repeat (apply andb_prop in Hb as [Hb ?]).
    repeat match goal with H : negb _ = true |- _ => apply negb_true_iff in H end.
    unfold digit_stop. rewrite Hb. cbn [andb].
    repeat split; try assumption.
    match goal with H1 : is_decimal c = false, H2 : (c =? 95) = false |- _ => rewrite H1, H2 end. reflexivity.
Qed.

Lemma digits_step base c r ch acc ds inv :
  (base <=? 10) = true -> is_decimal ch = true -> 0 < c ->
  exists inv', digits base ch (c :: r) acc ds inv = digits base c r (acc ++ [ch]) (Z.lor ds 1) inv'.
Proof.
  intros Hb Hd Hc. cbn [digits]. rewrite Hb. cbn iota. rewrite Hd. cbn [orb].
  assert (E95: (ch =? 95) = false) by (unfold is_decimal in Hd; lia). rewrite E95.
  rewrite check_pos_ok by exact Hc. cbn [lbind]. eexists. reflexivity.
Qed.

Lemma digits_last base ch acc ds inv :
  (base <=? 10) = true -> is_decimal ch = true ->
  exists inv', digits base ch [] acc ds inv = LOk (-1, [], acc ++ [ch], Z.lor ds 1, inv').
Proof.
  intros Hb Hd. cbn [digits]. rewrite Hb. cbn iota. rewrite Hd. cbn [orb].
  assert (E95: (ch =? 95) = false) by (unfold is_decimal in Hd; lia). rewrite E95.
  eexists. reflexivity.
Qed.

Lemma lor_1_1 a : Z.lor (Z.lor a 1) 1 = Z.lor a 1.
Proof. rewrite <- Z.lor_assoc. reflexivity. Qed.

Lemma digits_run base ds : (base <=? 10) = true -> forall ch tail acc dsb inv,
  is_decimal ch = true -> forallb is_decimal ds = true -> hdr digit_stop tail = true ->
  exists inv', digits base ch (ds ++ tail) acc dsb inv =
    LOk (fst (view tail), snd (view tail), acc ++ ch :: ds, Z.lor dsb 1, inv').
Proof.
  intros Hb. induction ds as [|d ds IH]; intros ch tail acc dsb inv Hch Hds Ht.
  - cbn [app]. destruct tail as [|c r].
    + apply digits_last; assumption.
    + cbn [hdr] in Ht. apply andb_prop in Ht as [Hc Ht].
      destruct (digits_step base c r ch acc dsb inv Hb Hch ltac:(lia)) as [inv' E]. rewrite E.
      exists inv'. rewrite digits_stop; [reflexivity|].
      rewrite Hb. unfold digit_stop in Ht. apply andb_prop in Ht as [H1 H2].
      apply negb_true_iff in H1, H2. rewrite H1, H2. reflexivity.
  - cbn [app forallb] in *. apply andb_prop in Hds as [Hd Hds].
    assert (0 < d) by (unfold is_decimal in Hd; lia).
    destruct (digits_step base d (ds ++ tail) ch acc dsb inv Hb Hch H) as [inv1 E]. rewrite E.
    destruct (IH d tail (acc ++ [ch]) (Z.lor dsb 1) inv1 Hd Hds Ht) as [inv' E'].
    exists inv'. rewrite E'. rewrite <- app_assoc. rewrite lor_1_1. reflexivity.
Qed.

Lemma land_lor_2 a b : Z.land a 2 = 0 -> Z.land b 2 = 0 -> Z.land (Z.lor a b) 2 = 0.
Proof. intros Ha Hb. rewrite Z.land_lor_distr_l, Ha, Hb. reflexivity. Qed.

Lemma exp_phase_none tok prefix rest acc digSep inv :
  int_boundary L rest = true -> Z.land digSep 2 = 0 ->
  (match tok with TInt => true | _ => false end) && negb (inv =? 0) = false ->
  exp_phase tok prefix (fst (view rest)) (snd (view rest)) acc digSep inv =
    LOk (tok, acc, fst (view rest), snd (view rest)).
Proof.
  intros Hb Hs Hi. destruct (int_boundary_facts rest Hb) as [B1 [B2 [B3 [B4 [B5 [B6 [B7 B8]]]]]]].
  cbn zeta in *. unfold exp_phase. cbn zeta. rewrite B4, B5. cbn [lbind].
  rewrite Hi, Hs. cbn [Z.eqb negb andb]. rewrite B6. reflexivity.
Qed.

Lemma exp_phase_exp tok prefix s x xs rest acc digSep inv :
  negb (prefix =? 0) && negb (prefix =? 48) = false ->
  (s =? 43) || (s =? 45) = true -> forallb is_decimal (x :: xs) = true ->
  int_boundary L rest = true -> Z.land digSep 2 = 0 ->
  exp_phase tok prefix 101 (s :: x :: xs ++ rest) acc digSep inv =
    LOk (TNumeric, acc ++ 101 :: s :: x :: xs, fst (view rest), snd (view rest)).
Proof.
  intros Hp Hs Hx Hb Hd. destruct (int_boundary_facts rest Hb) as [B1 [B2 [B3 [B4 [B5 [B6 [B7 B8]]]]]]].
  cbn zeta in *. cbn [forallb] in Hx. apply andb_prop in Hx as [Hx Hxs].
  unfold exp_phase. cbn zeta. change (lower 101 =? 101) with true. cbn iota. rewrite Hp.
  rewrite next_cons by lia. cbn [lbind]. rewrite Hs.
  rewrite next_cons by (unfold is_decimal in Hx; lia). cbn [lbind].
  destruct (digits_run 10 xs eq_refl x rest ((acc ++ [101]) ++ [s]) 0 0 Hx Hxs B8) as [inv' E].
  rewrite E. cbn [lbind]. change (Z.land (Z.lor 0 1) 1 =? 0) with false. cbn iota. cbn [lbind andb].
  rewrite (land_lor_2 digSep (Z.lor 0 1) Hd eq_refl). cbn [Z.eqb negb andb]. rewrite B6.
  rewrite <- !app_assoc. reflexivity.
Qed.

(* the shapes of the part after the integer digits *)
Definition exp_text (ex : list Z) : Prop :=
  exists s x xs, ex = 101 :: s :: x :: xs /\ (s =? 43) || (s =? 45) = true /\
                 forallb is_decimal (x :: xs) = true.

Definition mid_text (mid : list Z) : Prop :=
  (exists f fp ex, mid = 46 :: f :: fp ++ ex /\ forallb is_decimal (f :: fp) = true /\
                   (ex = [] \/ exp_text ex))
  \/ exp_text mid.

(* what scanNumber does after the integer part [ip], at the '.' or 'e' *)
Lemma after_int base prefix ip mid rest inv0 :
  (base <=? 10) = true -> negb (prefix =? 0) && negb (prefix =? 48) = false ->
  mid_text mid -> int_boundary L rest = true ->
  (let ch := fst (view (mid ++ rest)) in let r := snd (view (mid ++ rest)) in
   if ch =? 46 then
     let* (ch1, rest1) := next r in
     scan_number_tail L TInt base prefix ch1 rest1 (ip ++ [46]) 1 inv0 true
   else scan_number_tail L TInt base prefix ch r ip 1 inv0 false) =
  LOk (TNumeric, ip ++ mid, fst (view rest), snd (view rest)).
Proof.
  intros Hb Hp Hm Hr.
  destruct (int_boundary_facts rest Hr) as [B1 [B2 [B3 [B4 [B5 [B6 [B7 B8]]]]]]]. cbn zeta in *.
  destruct Hm as [[f [fp [ex [-> [Hf Hex]]]]]|[s [x [xs [-> [Hs Hx]]]]]].
  - cbn [app view fst snd]. change (46 =? 46) with true. cbn iota. cbn [forallb] in Hf.
    apply andb_prop in Hf as [Hf Hfp].
    rewrite next_cons by (unfold is_decimal in Hf; lia). cbn [lbind].
    rewrite scan_number_tail_eq. rewrite <- app_assoc.
    assert (Hstop: hdr digit_stop (ex ++ rest) = true).
    { destruct Hex as [->|[s [x [xs [-> _]]]]]; [exact B8|reflexivity]. }
    destruct (digits_run base fp Hb f (ex ++ rest) (ip ++ [46]) 0 inv0 Hf Hfp Hstop) as [inv' E].
    rewrite E. cbn [lbind].
    destruct Hex as [->|[s [x [xs [-> [Hs Hx]]]]]].
    + cbn [app]. rewrite exp_phase_none; [|exact Hr|reflexivity|reflexivity].
      rewrite <- !app_assoc. rewrite app_nil_r. reflexivity.
    + cbn [app view fst snd]. rewrite exp_phase_exp; [|exact Hp|exact Hs|exact Hx|exact Hr|reflexivity].
      rewrite <- !app_assoc. reflexivity.
  - cbn [app view fst snd]. change (101 =? 46) with false. cbn iota.
    rewrite scan_number_tail_eq. cbn [lbind].
    rewrite exp_phase_exp; [|exact Hp|exact Hs|exact Hx|exact Hr|reflexivity]. reflexivity.
Qed.

Lemma mid_text_stop mid rest : mid_text mid -> hdr digit_stop (mid ++ rest) = true.
Proof.
  intros [[f [fp [ex [-> _]]]]|[s [x [xs [-> _]]]]]; reflexivity.
Qed.

Lemma mid_text_head mid rest : mid_text mid ->
  exists c r, mid ++ rest = c :: r /\ ((c = 46) \/ (c = 101)).
Proof.
  intros [[f [fp [ex [-> _]]]]|[s [x [xs [-> _]]]]]; cbn [app]; eexists; eexists; split;
    try reflexivity; auto.
Qed.

(* integer part without leading zero *)
Lemma scan_number_nz d ds mid rest :
  is_decimal d = true -> d <> 48 -> forallb is_decimal ds = true ->
  mid_text mid -> int_boundary L rest = true ->
  scan_number L d (ds ++ mid ++ rest) false =
    LOk (TNumeric, (d :: ds) ++ mid, fst (view rest), snd (view rest)).
Proof.
  intros Hd H0 Hds Hm Hr. unfold scan_number. replace (d =? 48) with false by lia. cbn [lbind].
  replace (d =? 95) with false by (unfold is_decimal in Hd; lia).
  destruct (digits_run 10 ds eq_refl d (mid ++ rest) [] 0 0 Hd Hds (mid_text_stop mid rest Hm)) as [inv' E].
  rewrite E. cbn [lbind app].
  change (Z.land (Z.lor 0 (Z.lor 0 1)) 1 =? 0) with false. cbn iota.
  change (negb (0 =? 0) && negb (0 =? 48)) with false. cbn iota.
  change (Z.lor 0 (Z.lor 0 1)) with 1.
  apply (after_int 10 0 (d :: ds) mid rest inv' eq_refl eq_refl Hm Hr).
Qed.

(* integer part "0" *)
Lemma scan_number_z mid rest :
  mid_text mid -> int_boundary L rest = true ->
  scan_number L 48 (mid ++ rest) false =
    LOk (TNumeric, 48 :: mid, fst (view rest), snd (view rest)).
Proof.
  intros Hm Hr. unfold scan_number. change (48 =? 48) with true. cbn iota.
  pose proof (after_int 8 48 [48] mid rest 0 eq_refl eq_refl Hm Hr) as A. cbn zeta in A.
  destruct (mid_text_head mid rest Hm) as [c [r [E Hc]]]. rewrite E in *. cbn [view fst snd] in A.
  rewrite next_cons by lia. cbn [lbind].
  destruct Hc as [-> | ->].
  - change (lower 46 =? 120) with false. change (lower 46 =? 111) with false.
    change (lower 46 =? 98) with false. change (lower 46 =? 46) with true. cbn iota. cbn [lbind].
    change (46 =? 95) with false. cbn iota.
    rewrite digits_stop by reflexivity. cbn [lbind].
    change (Z.land (Z.lor 1 0) 1 =? 0) with false. cbn iota.
    change (46 =? 46) with true in *. cbn iota in *.
    change (negb (48 =? 0) && negb (48 =? 48)) with false. cbn iota.
    change (Z.lor 1 0) with 1. exact A.
  - change (lower 101 =? 120) with false. change (lower 101 =? 111) with false.
    change (lower 101 =? 98) with false. change (lower 101 =? 46) with false. cbn iota.
    change (101 =? 95) with false. change (is_decimal 101) with false. cbn iota. cbn [lbind].
    change (101 =? 95) with false. cbn iota.
    rewrite digits_stop by reflexivity. cbn [lbind].
    change (Z.land (Z.lor 1 0) 1 =? 0) with false. cbn iota.
    change (101 =? 46) with false in *. cbn iota in *.
    change (Z.lor 1 0) with 1. exact A.
Qed.

(* ---- the shape of float_text ---- *)
Lemma split_spec p : forall l a b,
  split_at_pred p l = (a, b) -> l = a ++ b /\ forallb p a = true.
Proof.
  induction l as [|c l IH]; intros a b H; cbn in H.
  - inversion H. split; reflexivity.
  - destruct (p c) eqn:E.
    + destruct (split_at_pred p l) as [a1 b1] eqn:E1. inversion H; subst.
      destruct (IH a1 b eq_refl) as [-> Hp]. split; [reflexivity|]. cbn. rewrite E. exact Hp.
    + inversion H. split; reflexivity.
Qed.

Lemma exp_match_inv (r3 : list Z) :
  match r3 with
  | 101 :: s :: r4 =>
      ((s =? 43) || (s =? 45)) && all_digits r4 && negb (match r4 with [] => true | _ => false end)
  | _ => false
  end = true -> exp_text r3.
Proof.
  destruct r3 as [|c t]; [discriminate|].
  destruct c as [|p|p]; try discriminate.
  repeat (destruct p as [p|p|]; try discriminate).
  destruct t as [|s r4]; [discriminate|]. intros H.
  apply andb_prop in H as [H H3]. apply andb_prop in H as [H1 H2].
  destruct r4 as [|x xs]; [discriminate|].
  exists s, x, xs. repeat split; assumption.
Qed.

Lemma float_text_inv l :
  float_text l = true -> exists ip mid, l = ip ++ mid /\ canon_nat_text ip = true /\ mid_text mid.
Proof.
  unfold float_text. destruct (split_at_pred is_digit l) as [ip r1] eqn:E1. intros H.
  apply andb_prop in H as [Hc H]. destruct (split_spec _ _ _ _ E1) as [-> Hip].
  exists ip, r1. split; [reflexivity|]. split; [exact Hc|].
  destruct r1 as [|c t]; [discriminate|].
  destruct c as [|p|p]; try discriminate.
  repeat (destruct p as [p|p|]; try discriminate).
  - (* 'e' *) right. apply exp_match_inv. exact H.
  - (* '.' *) left. destruct (split_at_pred is_digit t) as [fp r3] eqn:E2.
    destruct (split_spec _ _ _ _ E2) as [-> Hfp].
    apply andb_prop in H as [Hne H]. destruct fp as [|f fp]; [discriminate|].
    exists f, fp, r3. split; [reflexivity|]. split; [exact Hfp|].
    destruct r3 as [|c3 t3]; [left; reflexivity|right]. apply exp_match_inv. exact H.
Qed.

(* C03, NUMERIC literals: a text of the shape json.Marshal gives a
   non-integral float64 is one NUMERIC token with exactly that text *)
Theorem numeric_independent l rest :
  float_text l = true -> int_boundary L rest = true ->
  lex_one L (l ++ rest) =
    LOk (Some (mktok TNumeric (str_of_bytes l)), fst (view rest), snd (view rest)).
Proof.
  intros Hf Hr. destruct (float_text_inv l Hf) as [ip [mid [-> [Hc Hm]]]].
  destruct ip as [|d ds]; [discriminate|].
  assert (Hd: is_decimal d = true /\ forallb is_decimal ds = true /\ (d = 48 -> ds = [])).
  { cbn [canon_nat_text] in Hc. destruct ds as [|d2 ds].
    - split; [exact Hc|]. split; [reflexivity|]. reflexivity.
    - apply andb_prop in Hc as [Hc1 Hc2]. unfold is_decimal. split; [lia|]. split; [exact Hc2|]. lia. }
  destruct Hd as [Hd [Hds Hz]].
  rewrite <- !app_assoc. cbn [app]. rewrite lex_one_cons by (unfold is_decimal in Hd; lia).
  cbn [lex_tok]. rewrite skip_ws_not by (unfold is_ws, is_decimal in *; lia). cbn [lbind].
  rewrite (digit_not_ident L HL) by exact Hd. rewrite Hd.
  destruct (Z.eq_dec d 48) as [->|N].
  - rewrite (Hz eq_refl). cbn [app]. rewrite scan_number_z by assumption. reflexivity.
  - rewrite scan_number_nz by assumption. reflexivity.
Qed.

(* the literal 0 *)
Theorem zero_independent rest :
  int_boundary L rest = true ->
  lex_one L (48 :: rest) = LOk (Some (mktok TInt "0"), fst (view rest), snd (view rest)).
Proof.
  intros Hr. destruct (int_boundary_facts rest Hr) as [B1 [B2 [B3 [B4 [B5 [B6 [B7 B8]]]]]]].
  cbn zeta in *. rewrite lex_one_cons by lia.
  cbn [lex_tok]. rewrite skip_ws_not by reflexivity. cbn [lbind].
  rewrite (digit_not_ident L HL) by reflexivity. change (is_decimal 48) with true. cbn iota.
  unfold scan_number. change (48 =? 48) with true. cbn iota.
  rewrite next_view by exact B7. rewrite (surjective_pairing (view rest)). cbn [lbind].
  set (c := fst (view rest)) in *. set (r := snd (view rest)) in *.
  assert (Hx: forall k, is_word_start k = true -> (lower c =? k) = false).
  { intros k Hk. destruct (lower c =? k) eqn:E; [|reflexivity]. apply Z.eqb_eq in E. subst k.
    destruct (word_start_ident L HL _ Hk) as [I _]. congruence. }
  rewrite (Hx 120 eq_refl), (Hx 111 eq_refl), (Hx 98 eq_refl).
  assert (E: (if lower c =? 46 then LOk (8, 48, 1, c, r, [48])
              else if c =? 95 then LErr ENumUnderscoreStart
              else if is_decimal c then LErr ENumJunk else LOk (8, 48, 1, c, r, [48]))
             = @LOk (Z * Z * Z * Z * list Z * list Z) (8, 48, 1, c, r, [48])).
  { destruct (lower c =? 46); [reflexivity|]. rewrite B2, B1. reflexivity. }
  rewrite E. cbn [lbind]. rewrite B2.
  rewrite digits_stop by (change (8 <=? 10) with true; cbn iota; rewrite B1, B2; reflexivity).
  cbn [lbind]. change (Z.land (Z.lor 1 0) 1 =? 0) with false. cbn iota. rewrite B3.
  rewrite scan_number_tail_eq. cbn [lbind].
  unfold c, r. rewrite (exp_phase_none TInt 48 rest [48] (Z.lor 1 0) 0 Hr eq_refl eq_refl).
  reflexivity.
Qed.

(* C03 for every canonical decimal text (FormatInt of a non-negative value) *)
Theorem canon_int_independent l rest :
  canon_nat_text l = true -> int_boundary L rest = true ->
  lex_one L (l ++ rest) = LOk (Some (mktok TInt (str_of_bytes l)), fst (view rest), snd (view rest)).
Proof.
  intros Hc Hr. destruct l as [|d ds]; [discriminate|]. cbn [canon_nat_text] in Hc.
  destruct ds as [|d2 ds].
  - destruct (Z.eq_dec d 48) as [->|N].
    + apply zero_independent. exact Hr.
    + apply (decimal_int_independent L HL); [exact Hc|exact N|reflexivity|exact Hr].
  - apply andb_prop in Hc as [Hc1 Hc2].
    apply (decimal_int_independent L HL); [unfold is_decimal; lia|lia|exact Hc2|exact Hr].
Qed.
End Numbers.

Print Assumptions numeric_independent.
Print Assumptions canon_int_independent.

(* ================================================================== *)
(* Part B: sequential composition *)

(* heads of byte lists: an ASCII non-NUL byte satisfying F; [hda] accepts the
   empty list (end of input), [hdn] does not *)
Definition asc (c : Z) : bool := (0 <? c) && (c <? 128).
Definition hda (F : Z -> bool) (t : list Z) : bool :=
  match t with [] => true | c :: _ => asc c && F c end.
Definition hdn (F : Z -> bool) (t : list Z) : bool :=
  match t with [] => false | c :: _ => asc c && F c end.
Definition any (c : Z) : bool := true.

Lemma hdn_app F X t : hdn F X = true -> hda F (X ++ t) = true.
Proof. destruct X as [|c X]; cbn; [discriminate|]. intros H; exact H. Qed.

Lemma hdn_app_l F X Y : hdn F X = true -> hdn F (X ++ Y) = true.
Proof. destruct X as [|c X]; cbn; [discriminate|]. intros H; exact H. Qed.

Lemma hdn_weaken (F G : Z -> bool) X :
  (forall c, asc c = true -> F c = true -> G c = true) -> hdn F X = true -> hdn G X = true.
Proof.
  intros W. destruct X as [|c X]; cbn; [discriminate|]. intros H. apply andb_prop in H as [H1 H2].
  rewrite H1. cbn. apply W; assumption.
Qed.

Lemma hda_weaken (F G : Z -> bool) X :
  (forall c, asc c = true -> F c = true -> G c = true) -> hda F X = true -> hda G X = true.
Proof.
  intros W. destruct X as [|c X]; cbn; [reflexivity|]. intros H. apply andb_prop in H as [H1 H2].
  rewrite H1. cbn. apply W; assumption.
Qed.

Lemma hda_hdr F t : hda F t = true -> hdr F (lex_runes_of_bytes t) = true.
Proof.
  destruct t as [|c t]; [reflexivity|]. cbn [hda]. unfold asc. intros H.
  apply andb_prop in H as [H1 H2].
  rewrite lex_runes_ascii by lia. replace (c =? 0) with false by lia. cbn [hdr].
  rewrite H2. replace (0 <? c) with true by lia. reflexivity.
Qed.

Lemma append_nil_r (s : string) : (s ++ "")%string = s.
Proof. induction s as [|c s IH]; cbn; [reflexivity|]. rewrite IH. reflexivity. Qed.

Lemma append_assoc (a b c : string) : ((a ++ b) ++ c)%string = (a ++ (b ++ c))%string.
Proof. induction a as [|x a IH]; cbn; [reflexivity|]. rewrite IH. reflexivity. Qed.

Section Compose.
Variable L : GoLib.
Hypothesis HL : Laws L.

(* the token list of a byte string *)
Definition LB (t : list Z) : list token := lex_runes L (lex_runes_of_bytes t).

(* [Lx X toks F]: X is not empty, starts with an ASCII byte, and whatever
   follows it — nothing, or bytes starting with an ASCII byte satisfying F —
   X lexes to toks and the rest is lexed on its own *)
Definition Lx (X : list Z) (toks : list token) (F : Z -> bool) : Prop :=
  hdn any X = true /\ forall t, hda F t = true -> LB (X ++ t) = toks ++ LB t.

Definition LxS (s : string) (toks : list token) (F : Z -> bool) : Prop := Lx (bytes_of s) toks F.

Lemma Lx_eq X t t' F : Lx X t F -> t = t' -> Lx X t' F.
Proof. intros H <-. exact H. Qed.

Lemma Lx_weaken X toks (F G : Z -> bool) :
  Lx X toks F -> (forall c, asc c = true -> G c = true -> F c = true) -> Lx X toks G.
Proof.
  intros [H1 H2] W. split; [exact H1|]. intros t Ht. apply H2.
  eapply hda_weaken; [|exact Ht]. exact W.
Qed.

Lemma Lx_app X Y tx ty FX FY :
  Lx X tx FX -> Lx Y ty FY -> hdn FX Y = true -> Lx (X ++ Y) (tx ++ ty) FY.
Proof.
  intros [HX1 HX2] [HY1 HY2] Hh. split; [apply hdn_app_l; exact HX1|].
  intros t Ht. rewrite <- !app_assoc. rewrite HX2 by (apply hdn_app; exact Hh).
  rewrite HY2 by exact Ht. reflexivity.
Qed.

Lemma Lx_app_any X Y tx ty FY : Lx X tx any -> Lx Y ty FY -> Lx (X ++ Y) (tx ++ ty) FY.
Proof. intros HX HY. apply (Lx_app X Y tx ty any FY HX HY). exact (proj1 HY). Qed.

Lemma LB_ws t : LB (32 :: t) = LB t.
Proof.
  unfold LB. rewrite lex_runes_ascii by lia. change (32 =? 0) with false. cbn iota.
  apply ws_one. reflexivity.
Qed.

Lemma Lx_ws Y ty F : Lx Y ty F -> Lx (32 :: Y) ty F.
Proof.
  intros [H1 H2]. split; [reflexivity|]. intros t Ht. cbn [app]. rewrite LB_ws. apply H2. exact Ht.
Qed.

(* one token from a rune-level independence fact *)
Lemma Lx_one w tok (G F : Z -> bool) :
  Forall (fun b => 0 < b < 128) w -> w <> [] ->
  (forall rest, hdr G rest = true ->
     lex_one L (w ++ rest) = LOk (Some tok, fst (view rest), snd (view rest))) ->
  (forall c, asc c = true -> F c = true -> G c = true) ->
  Lx w [tok] F.
Proof.
  intros Hw Hne H1 W. split.
  - destruct w as [|b w]; [congruence|]. inversion Hw; subst. cbn. unfold asc.
    replace (0 <? b) with true by lia. replace (b <? 128) with true by lia. reflexivity.
  - intros t Ht. unfold LB. rewrite lex_runes_ascii_list by exact Hw.
    assert (Hr: hdr G (lex_runes_of_bytes t) = true).
    { apply hda_hdr. eapply hda_weaken; [|exact Ht]. exact W. }
    apply lex_runes_step; [apply H1; exact Hr|eapply hdr_readable; exact Hr].
Qed.

(* strings *)
Lemma LxS_app a b ta tb Fa Fb :
  LxS a ta Fa -> LxS b tb Fb -> hdn Fa (bytes_of b) = true -> LxS (a ++ b) (ta ++ tb) Fb.
Proof. unfold LxS. intros. rewrite bytes_of_app. eapply Lx_app; eassumption. Qed.

Lemma LxS_app_any a b ta tb Fb : LxS a ta any -> LxS b tb Fb -> LxS (a ++ b) (ta ++ tb) Fb.
Proof. unfold LxS. intros. rewrite bytes_of_app. eapply Lx_app_any; eassumption. Qed.

Lemma LxS_ws b tb F : LxS b tb F -> LxS (" " ++ b) tb F.
Proof. unfold LxS. intros H. exact (Lx_ws _ _ _ H). Qed.

Lemma LxS_head s toks F : LxS s toks F -> hdn any (bytes_of s) = true.
Proof. intros [H _]. exact H. Qed.

Lemma LxS_head_app s r toks F : LxS s toks F -> hdn any (bytes_of (s ++ r)) = true.
Proof. intros [H _]. rewrite bytes_of_app. apply hdn_app_l. exact H. Qed.

End Compose.

(* ================================================================== *)
(* Part C: the pieces the printer writes *)

(* what may follow a complete operand: ' ' ')' ']' ',' '}' ... *)
Definition dstrict (c : Z) : bool := (c =? 32) || (c =? 41) || (c =? 93) || (c =? 44) || (c =? 125).
(* ... and, except after a bare number, the start of an accessor: '.' '[' '?' *)
Definition accst (c : Z) : bool := (c =? 46) || (c =? 91) || (c =? 63).
Definition dacc (c : Z) : bool := dstrict c || accst c.
Definition notalnum (c : Z) : bool := negb (is_word_rune c) && negb (c =? 92).
Definition notin (bad : list Z) (c : Z) : bool := negb (existsb (Z.eqb c) bad).
Definition fdollar (c : Z) : bool := negb (c =? 34) && negb (is_word_rune c).
Definition fdot (c : Z) : bool := negb (is_decimal c).
Definition is32 (c : Z) : bool := c =? 32.

Lemma dstrict_cases c : dstrict c = true -> c = 32 \/ c = 41 \/ c = 93 \/ c = 44 \/ c = 125.
Proof. unfold dstrict. lia. Qed.
Lemma accst_cases c : accst c = true -> c = 46 \/ c = 91 \/ c = 63.
Proof. unfold accst. lia. Qed.
Lemma dacc_cases c : dacc c = true ->
  c = 32 \/ c = 41 \/ c = 93 \/ c = 44 \/ c = 125 \/ c = 46 \/ c = 91 \/ c = 63.
Proof. unfold dacc, dstrict, accst. lia. Qed.

Ltac by_cases H lem :=
  apply lem in H;
  repeat (destruct H as [H|H]; [subst; reflexivity|]); subst; reflexivity.

Lemma dstrict_dacc c : asc c = true -> dstrict c = true -> dacc c = true.
Proof. intros _ H. unfold dacc. rewrite H. reflexivity. Qed.
Lemma dacc_notalnum c : asc c = true -> dacc c = true -> notalnum c = true.
Proof. intros _ H. by_cases H dacc_cases. Qed.
Lemma dacc_fdollar c : asc c = true -> dacc c = true -> fdollar c = true.
Proof. intros _ H. by_cases H dacc_cases. Qed.
Lemma dacc_not42 c : asc c = true -> dacc c = true -> notin [42] c = true.
Proof. intros _ H. by_cases H dacc_cases. Qed.
Lemma dstrict_notalnum c : asc c = true -> dstrict c = true -> notalnum c = true.
Proof. intros A H. apply dacc_notalnum; [exact A|]. apply dstrict_dacc; assumption. Qed.
Lemma any_true (F : Z -> bool) c : asc c = true -> F c = true -> any c = true.
Proof. reflexivity. Qed.

Lemma string_of_runes_ascii s : all_ascii s = true -> string_of_runes (bytes_of s) = s.
Proof.
  intros A. unfold string_of_runes, encode_runes.
  replace (flat_map encode_rune (bytes_of s)) with (bytes_of s); [apply str_of_bytes_of|].
  unfold all_ascii in A. induction s as [|c s IH]; [reflexivity|].
  rewrite bytes_of_String in *. cbn [forallb flat_map] in *. apply andb_prop in A as [A1 A2].
  pose proof (Z_of_ascii_range c). rewrite encode_rune_ascii by lia. cbn [app]. f_equal. apply IH. exact A2.
Qed.

Section Pieces.
Variable L : GoLib.
Hypothesis HL : Laws L.

Notation Lx := (Lx L).
Notation LxS := (LxS L).

(* ---- operators and punctuation ---- *)
Lemma op_table_ascii :
  forallb (fun e => forallb asc (fst (fst e)) && negb (match fst (fst e) with [] => true | _ => false end))
          op_table = true.
Proof. reflexivity. Qed.

Lemma Lx_op w k bad : In (w, k, bad) op_table -> Lx w [mktok k (string_of_runes w)] (notin bad).
Proof.
  intros Hin. pose proof (operators_independent L HL) as O. rewrite Forall_forall in O.
  specialize (O _ Hin). cbn in O.
  pose proof op_table_ascii as A. rewrite forallb_forall in A. specialize (A _ Hin). cbn [fst] in A.
  apply andb_prop in A as [A1 A2].
  apply Lx_one with (G := notin bad).
  - rewrite forallb_forall in A1. apply Forall_forall. intros b Hb. specialize (A1 b Hb).
    unfold asc in A1. lia.
  - destruct w; [discriminate|congruence].
  - intros rest Hr. apply O; [eapply hdr_readable; exact Hr|].
    destruct rest as [|c r]; [reflexivity|]. cbn [hdr head_not] in *. apply andb_prop in Hr as [_ Hr]. exact Hr.
  - intros c _ H. exact H.
Qed.

Ltac in_table := cbn [In]; repeat (first [left; reflexivity | right]).

Lemma Lx_c c : existsb (Z.eqb c) [40; 41; 91; 93; 123; 125; 44; 63; 64; 43; 45; 37] = true ->
  Lx [c] [ctok c] any.
Proof.
  intros H. cbn [existsb] in H.
  assert (Hin: In ([c], TChar c, @nil Z) op_table).
  { repeat (apply orb_prop in H as [H|H]; [apply Z.eqb_eq in H; subst c; in_table|]). discriminate. }
  exact (Lx_op _ _ _ Hin).
Qed.

Lemma Lx_star : Lx [42] [ctok 42] (notin [42]).
Proof. apply (Lx_op [42] (TChar 42) [42]). in_table. Qed.
Lemma Lx_slash : Lx [47] [ctok 47] (notin [42]).
Proof. apply (Lx_op [47] (TChar 47) [42]). in_table. Qed.
Lemma Lx_less : Lx [60] [mktok TLess "<"] (notin [61; 62]).
Proof. apply (Lx_op [60] TLess [61; 62]). in_table. Qed.
Lemma Lx_greater : Lx [62] [mktok TGreater ">"] (notin [61]).
Proof. apply (Lx_op [62] TGreater [61]). in_table. Qed.
Lemma Lx_not : Lx [33] [mktok TNot "!"] (notin [61]).
Proof. apply (Lx_op [33] TNot [61]). in_table. Qed.
Lemma Lx_eqeq : Lx [61; 61] [mktok TEqual "=="] any.
Proof. apply (Lx_op [61; 61] TEqual []). in_table. Qed.
Lemma Lx_ne : Lx [33; 61] [mktok TNotEqual "!="] any.
Proof. apply (Lx_op [33; 61] TNotEqual []). in_table. Qed.
Lemma Lx_le : Lx [60; 61] [mktok TLessEq "<="] any.
Proof. apply (Lx_op [60; 61] TLessEq []). in_table. Qed.
Lemma Lx_ge : Lx [62; 61] [mktok TGreaterEq ">="] any.
Proof. apply (Lx_op [62; 61] TGreaterEq []). in_table. Qed.
Lemma Lx_andand : Lx [38; 38] [mktok TAnd "&&"] any.
Proof. apply (Lx_op [38; 38] TAnd []). in_table. Qed.
Lemma Lx_oror : Lx [124; 124] [mktok TOr "||"] any.
Proof. apply (Lx_op [124; 124] TOr []). in_table. Qed.
Lemma Lx_starstar : Lx [42; 42] [mktok TAny "**"] any.
Proof. apply (Lx_op [42; 42] TAny []). in_table. Qed.

Lemma asc_one c : asc c = true -> Forall (fun b => 0 < b < 128) [c].
Proof. unfold asc. intros H. constructor; [lia|constructor]. Qed.

Lemma Lx_dollar : Lx [36] [ctok 36] fdollar.
Proof.
  apply Lx_one with (G := fun c => negb (c =? 34) && negb (is_variable_rune L c)).
  - apply asc_one. reflexivity.
  - discriminate.
  - intros rest Hr. apply (dollar_independent L HL). exact Hr.
  - intros c A H. unfold fdollar in H. apply andb_prop in H as [H1 H2]. rewrite H1. cbn [andb].
    unfold is_variable_rune. unfold asc in A. rewrite (xid_continue_ascii L HL) by lia.
    unfold is_word_rune, is_letter, is_decimal in H2. rewrite <- H2.
    replace (0 <=? c) with true by lia. reflexivity.
Qed.

Lemma Lx_dot : Lx [46] [ctok 46] fdot.
Proof.
  apply Lx_one with (G := fun c => negb (is_decimal c)).
  - apply asc_one. reflexivity.
  - discriminate.
  - intros rest Hr. apply (dot_independent L HL). exact Hr.
  - intros c _ H. exact H.
Qed.

(* ---- words ---- *)
Definition kw_word (w : string) : bool :=
  all_ascii w &&
  match bytes_of w with c :: cs => is_word_start c && forallb is_word_rune cs | [] => false end.

Lemma word_rune_asc c : is_word_rune c = true -> 0 < c < 128.
Proof. unfold is_word_rune, is_letter, is_decimal. lia. Qed.

Lemma notalnum_cont c : asc c = true -> notalnum c = true -> not_ident_cont L c = true.
Proof.
  unfold asc, notalnum, not_ident_cont, is_ident_rune. intros A H.
  rewrite (xid_continue_ascii L HL) by lia.
  apply andb_prop in H as [H1 H2]. unfold is_word_rune, is_letter, is_decimal in H1.
  destruct (c =? 92); [discriminate|]. destruct (c =? 95) eqn:E; [lia|]. cbn [orb].
  replace (0 <=? c) with true by lia. cbn [andb]. rewrite orb_false_r. rewrite <- H1.
  rewrite orb_false_r. reflexivity.
Qed.

Lemma LxS_word w kd : kw_word w = true -> ident_token L w = kd -> LxS w [mktok kd w] notalnum.
Proof.
  unfold kw_word. intros H Hk. apply andb_prop in H as [Ha Hw]. unfold LxS.
  pose proof (string_of_runes_ascii w Ha) as Es.
  destruct (bytes_of w) as [|c cs] eqn:Eb; [discriminate|]. apply andb_prop in Hw as [Hc Hcs].
  apply Lx_one with (G := not_ident_cont L).
  - constructor.
    + unfold is_word_start, is_letter in Hc. lia.
    + apply Forall_forall. intros b Hb. rewrite forallb_forall in Hcs. apply word_rune_asc. apply Hcs. exact Hb.
  - discriminate.
  - intros rest Hr. rewrite (word_independent L HL c cs rest Hc Hcs Hr). rewrite Es, Hk. reflexivity.
  - apply notalnum_cont.
Qed.

Lemma LxS_kw w k :
  In (w, k) kw_table -> kw_word w = true -> str_lower w = w -> LxS w [kwt k w] notalnum.
Proof.
  intros Hin Hw Hl. apply LxS_word; [exact Hw|].
  apply (kw_case_insensitive L HL w w k Hin); [|exact Hl].
  unfold kw_word in Hw. apply andb_prop in Hw as [Hw _]. exact Hw.
Qed.

Ltac kw_tac := apply LxS_kw; [in_table | reflexivity | reflexivity].

Lemma Lk_last : LxS "last" [kwt KLast "last"] notalnum. Proof. kw_tac. Qed.
Lemma Lk_to : LxS "to" [kwt KTo "to"] notalnum. Proof. kw_tac. Qed.
Lemma Lk_is : LxS "is" [kwt KIs "is"] notalnum. Proof. kw_tac. Qed.
Lemma Lk_unknown : LxS "unknown" [kwt KUnknown "unknown"] notalnum. Proof. kw_tac. Qed.
Lemma Lk_exists : LxS "exists" [kwt KExists "exists"] notalnum. Proof. kw_tac. Qed.
Lemma Lk_strict : LxS "strict" [kwt KStrict "strict"] notalnum. Proof. kw_tac. Qed.
Lemma Lk_starts : LxS "starts" [kwt KStarts "starts"] notalnum. Proof. kw_tac. Qed.
Lemma Lk_with : LxS "with" [kwt KWith "with"] notalnum. Proof. kw_tac. Qed.
Lemma Lk_like_regex : LxS "like_regex" [kwt KLikeRegex "like_regex"] notalnum. Proof. kw_tac. Qed.
Lemma Lk_flag : LxS "flag" [kwt KFlag "flag"] notalnum. Proof. kw_tac. Qed.
Lemma Lk_decimal : LxS "decimal" [kwt KDecimal "decimal"] notalnum. Proof. kw_tac. Qed.
Lemma Lk_true : LxS "true" [kwt KTrue "true"] notalnum.
Proof. apply LxS_word; reflexivity. Qed.
Lemma Lk_false : LxS "false" [kwt KFalse "false"] notalnum.
Proof. apply LxS_word; reflexivity. Qed.
Lemma Lk_null : LxS "null" [kwt KNull "null"] notalnum.
Proof. apply LxS_word; reflexivity. Qed.

Lemma Lk_meth m : LxS (snd (meth_kw m)) [kwt (fst (meth_kw m)) (snd (meth_kw m))] notalnum.
Proof. destruct m; cbn [meth_kw fst snd]; kw_tac. Qed.
Lemma Lk_dtop op : LxS (snd (dtop_kw op)) [kwt (fst (dtop_kw op)) (snd (dtop_kw op))] notalnum.
Proof. destruct op; cbn [dtop_kw fst snd]; kw_tac. Qed.

(* ---- quoted text ---- *)
Lemma hex_digit_byte d : 0 <= d < 16 -> 0 <= hex_digit d < 256.
Proof. intros H. pose proof (hex_digit_ascii d H). lia. Qed.

Lemma quote_rune_bytes r : good_rune r = true -> Forall (fun b => 0 <= b < 256) (quote_rune L r).
Proof.
  unfold good_rune, valid_rune, is_surrogate, max_rune. intros G.
  unfold quote_rune, hex_min56.
  repeat match goal with
         | |- context [if ?c then _ else _] => destruct c eqn:?
         end; cbn [app];
  try apply encode_rune_bytes;
  repeat (constructor; [first [lia | apply hex_digit_byte; Z.div_mod_to_equations; lia]|]); constructor.
Qed.

Lemma quote_bytes_ok s : wf_text s = true -> bytes_of (quote L s) = quote_bytes L s.
Proof.
  intros W. unfold quote. apply bytes_of_str_of. unfold quote_bytes.
  constructor; [lia|]. apply Forall_app. split; [|repeat constructor; lia].
  destruct (wf_text_runes s W) as [G _].
  induction (runes_of s) as [|r rs IH]; cbn [flat_map]; [constructor|].
  cbn [forallb] in G. apply andb_prop in G as [G1 G2].
  apply Forall_app. split; [apply quote_rune_bytes; exact G1|apply IH; exact G2].
Qed.

Lemma hda_readable F t : hda F t = true -> readable_head (lex_runes_of_bytes t) = true.
Proof. intros H. eapply hdr_readable. apply hda_hdr. exact H. Qed.

Lemma Lx_quote s : wf_text s = true -> LxS (quote L s) [mktok TString s] any.
Proof.
  intros W. unfold LexPrint.LxS. rewrite quote_bytes_ok by exact W. split; [reflexivity|].
  intros t Ht. unfold LB. apply lex_runes_step.
  - apply (quote_roundtrip L HL); [exact W|eapply hda_readable; exact Ht].
  - eapply hda_readable; exact Ht.
Qed.

Lemma Lx_var s : wf_text s = true -> LxS ("$" ++ quote L s) [mktok TVariable s] any.
Proof.
  intros W. unfold LexPrint.LxS. rewrite bytes_of_app. rewrite quote_bytes_ok by exact W.
  change (bytes_of "$") with [36]. cbn [app]. split; [reflexivity|].
  intros t Ht. unfold LB. apply lex_runes_step.
  - cbn [app]. apply (quote_var_roundtrip L HL); [exact W|eapply hda_readable; exact Ht].
  - eapply hda_readable; exact Ht.
Qed.

(* text made of ASCII letters is printed verbatim between the quotes *)
Lemma letters_runes s : forallb is_letter (bytes_of s) = true -> runes_of s = bytes_of s.
Proof.
  induction s as [|c s IH]; intros H; [reflexivity|].
  rewrite bytes_of_String in H. cbn [forallb] in H. apply andb_prop in H as [H1 H2].
  rewrite runes_of_ascii_cons by (unfold is_letter in H1; lia).
  rewrite bytes_of_String. f_equal. apply IH. exact H2.
Qed.

Lemma letters_quote l : forallb is_letter l = true -> flat_map (quote_rune L) l = l.
Proof.
  induction l as [|r rs IH]; intros H; [reflexivity|].
  cbn [forallb] in H. apply andb_prop in H as [H1 H2]. cbn [flat_map]. rewrite IH by exact H2.
  unfold quote_rune. unfold is_letter in H1.
  replace (r =? 7) with false by lia. replace (65535 <? r) with false by lia. cbn [andb].
  replace ((r =? 34) || (r =? 92)) with false by lia.
  rewrite (is_print_ascii L HL) by lia. replace ((32 <=? r) && (r <=? 126)) with true by lia.
  rewrite encode_rune_ascii by lia. reflexivity.
Qed.

Lemma plain_quote s :
  forallb is_letter (bytes_of s) = true ->
  wf_text s = true /\ quote_bytes L s = 34 :: bytes_of s ++ [34].
Proof.
  intros H. pose proof (letters_runes s H) as Er. split.
  - unfold wf_text. rewrite Er. apply andb_true_intro. split.
    + apply forallb_forall. intros r Hr. rewrite forallb_forall in H. specialize (H r Hr).
      unfold is_letter in H. unfold valid_rune, is_surrogate, max_rune. lia.
    + rewrite string_of_runes_ascii; [apply String.eqb_refl|].
      unfold all_ascii. apply forallb_forall. intros r Hr. rewrite forallb_forall in H. specialize (H r Hr).
      unfold is_letter in H. lia.
  - unfold quote_bytes. rewrite Er. f_equal. f_equal. apply letters_quote. exact H.
Qed.

Lemma flag_text_letters fl : forallb is_letter (bytes_of (regex_flag_text fl)) = true.
Proof. unfold regex_flag_text. repeat destruct (0 <? _); reflexivity. Qed.

Lemma Lx_flags fl :
  LxS ("""" ++ regex_flag_text fl ++ """") [mktok TString (regex_flag_text fl)] any.
Proof.
  destruct (plain_quote _ (flag_text_letters fl)) as [W Q].
  unfold LexPrint.LxS. rewrite !bytes_of_app. change (bytes_of """") with [34]. cbn [app].
  rewrite <- Q. rewrite <- quote_bytes_ok by exact W. apply Lx_quote. exact W.
Qed.

(* ---- numbers ---- *)
(* the boundary after a number, per rune *)
Definition ibc (c : Z) : bool :=
  negb (is_decimal c) && negb (c =? 95) && negb (c =? 46) && negb (lower c =? 101) &&
  negb (is_ident_rune L (lower c) true) && negb (is_ident_rune L c true).

Lemma hdr_ibc rest : hdr ibc rest = true -> int_boundary L rest = true.
Proof.
  destruct rest as [|c r]; [reflexivity|]. cbn [hdr int_boundary]. unfold ibc.
  destruct (0 <? c), (is_decimal c), (c =? 95), (c =? 46), (lower c =? 101),
    (is_ident_rune L (lower c) true), (is_ident_rune L c true); cbn; congruence.
Qed.

Lemma dstrict_ibc c : asc c = true -> dstrict c = true -> ibc c = true.
Proof.
  intros _ H. apply dstrict_cases in H. unfold ibc.
  repeat (destruct H as [H|H]; [subst c|]); try subst c;
    repeat match goal with
           | |- context [lower ?k] => let v := eval vm_compute in (lower k) in change (lower k) with v
           end;
    rewrite !(ident_start_false L HL) by (cbn; first [lia|reflexivity]); reflexivity.
Qed.

Lemma canon_digits l : canon_nat_text l = true -> forallb is_decimal l = true /\ l <> [].
Proof.
  destruct l as [|c [|c2 r]]; cbn [canon_nat_text]; intros H; [discriminate| |].
  - split; [|discriminate]. cbn [forallb]. change (is_decimal c = true) in H. rewrite H. reflexivity.
  - apply andb_prop in H as [H1 H2]. split; [|discriminate].
    change (is_decimal c && forallb is_decimal (c2 :: r) = true).
    unfold is_decimal at 1. replace ((48 <=? c) && (c <=? 57)) with true by lia. exact H2.
Qed.

Lemma digits_ascii l : forallb is_decimal l = true -> Forall (fun b => 0 < b < 128) l.
Proof.
  intros H. apply Forall_forall. intros b Hb. rewrite forallb_forall in H. specialize (H b Hb).
  unfold is_decimal in H. lia.
Qed.

Lemma LxS_nat z : 0 <= z -> LxS (format_int L z) [mktok TInt (format_int L z)] dstrict.
Proof.
  intros Hz. destruct (format_int_nonneg L HL z Hz) as [Hc _].
  destruct (canon_digits _ Hc) as [Hd Hne]. unfold LexPrint.LxS.
  apply Lx_one with (G := ibc).
  - apply digits_ascii. exact Hd.
  - exact Hne.
  - intros rest Hr. rewrite (canon_int_independent L HL _ rest Hc (hdr_ibc rest Hr)).
    rewrite str_of_bytes_of. reflexivity.
  - apply dstrict_ibc.
Qed.

Lemma LxS_minus : LxS "-" [ctok 45] any.
Proof. apply (Lx_c 45). reflexivity. Qed.

Lemma LxS_int z : LxS (format_int L z) (int_toks L z) dstrict.
Proof.
  unfold int_toks. destruct (z <? 0) eqn:E.
  - rewrite (format_int_neg L HL z) by lia.
    change (String "-" (format_int L (- z))) with ("-" ++ format_int L (- z))%string.
    apply (LxS_app_any L "-" (format_int L (- z)) [ctok 45] [mktok TInt (format_int L (- z))]).
    + exact LxS_minus.
    + apply LxS_nat. lia.
  - apply LxS_nat. lia.
Qed.

Lemma exp_text_ascii ex : exp_text ex -> Forall (fun b => 0 < b < 128) ex.
Proof.
  intros [s [x [xs [-> [Hs Hx]]]]]. constructor; [lia|]. constructor; [lia|].
  apply digits_ascii. exact Hx.
Qed.

Lemma float_text_ascii l : float_text l = true -> Forall (fun b => 0 < b < 128) l /\ l <> [].
Proof.
  intros H. destruct (float_text_inv l H) as [ip [mid [-> [Hc Hm]]]].
  destruct (canon_digits _ Hc) as [Hd Hne]. split.
  - apply Forall_app. split; [apply digits_ascii; exact Hd|].
    destruct Hm as [[f [fp [ex [-> [Hf Hex]]]]]|Hm]; [|apply exp_text_ascii; exact Hm].
    constructor; [lia|]. change (f :: fp ++ ex) with ((f :: fp) ++ ex). apply Forall_app. split.
    + apply digits_ascii. exact Hf.
    + destruct Hex as [->|Hex]; [constructor|apply exp_text_ascii; exact Hex].
  - destruct ip; [congruence|discriminate].
Qed.

Lemma LxS_pos_float f :
  f64_finite f = true -> f64_sign f = false -> f64_integral f = false ->
  LxS (format_float_json L f) [mktok TNumeric (format_float_json L f)] dstrict.
Proof.
  intros H1 H2 H3. pose proof (format_float_shape L HL f H1 H2 H3) as Hs.
  destruct (float_text_ascii _ Hs) as [Ha Hne]. unfold LexPrint.LxS.
  apply Lx_one with (G := ibc).
  - exact Ha.
  - exact Hne.
  - intros rest Hr. rewrite (numeric_independent L HL _ rest Hs (hdr_ibc rest Hr)).
    rewrite str_of_bytes_of. reflexivity.
  - apply dstrict_ibc.
Qed.

Lemma LxS_float f :
  f64_finite f = true -> f64_integral f = false ->
  LxS (format_float_json L f) (num_toks L f) dstrict.
Proof.
  intros H1 H3. unfold num_toks. destruct (f64_sign f) eqn:E.
  - rewrite (format_float_neg L HL f H1 E H3).
    change (String "-" (format_float_json L (f64_neg L f)))
      with ("-" ++ format_float_json L (f64_neg L f))%string.
    apply (LxS_app_any L "-" _ [ctok 45] [mktok TNumeric (format_float_json L (f64_neg L f))]).
    + exact LxS_minus.
    + rewrite (f64_neg_spec L HL). destruct f as [s|s| |s m e]; try discriminate.
      cbn in E. subst s. apply LxS_pos_float; [reflexivity|reflexivity|exact H3].
  - apply LxS_pos_float; assumption.
Qed.

End Pieces.

(* ================================================================== *)
(* Part D: the tree *)

(* the excluded classes of RoundTrip.excl_C02, as the two predicates of ch_all *)
Definition exA (s : step) : bool := negb (integral_numeric s).
Definition exB (c : chain) : bool := negb (op_with_tail c).

Lemma excl_chain_eq c : excl_chain c = negb (ch_all exA exB c) || op_with_tail c.
Proof. reflexivity. Qed.

(* the head may be anything, the others are accessors; an operator head has no tail *)
Definition linked (c : chain) : bool :=
  match c with
  | [] => true
  | x :: r => forallb is_accessor_step r && match r with [] => true | _ => negb (is_operator_step x) end
  end.

Lemma accessor_not_operator y : is_accessor_step y = true -> is_operator_step y = false.
Proof. destruct y as [k| | | | | |op l r|op a|a p f| | | | |]; try reflexivity; try discriminate.
  destruct op; try reflexivity; discriminate. Qed.

Lemma linked_of_shape c : chain_shape c = true -> exB c = true -> linked c = true /\ c <> [].
Proof.
  destruct c as [|x r]; [discriminate|]. cbn [chain_shape linked]. intros H E.
  apply andb_prop in H as [_ H]. split; [|discriminate]. rewrite H. cbn [andb].
  destruct r as [|y r']; [reflexivity|]. unfold exB, op_with_tail in E. exact E.
Qed.

Lemma linked_tail x y r : linked (x :: y :: r) = true -> linked (y :: r) = true /\ is_accessor_step y = true.
Proof.
  cbn [linked forallb]. intros H. apply andb_prop in H as [H _]. apply andb_prop in H as [H1 H2].
  split; [|exact H1]. rewrite H2. cbn [andb]. destruct r; [reflexivity|].
  rewrite (accessor_not_operator y H1). reflexivity.
Qed.

Section Main.
Variable L : GoLib.
Hypothesis HL : Laws L.

Notation Lx := (Lx L).
Notation LxS := (LxS L).

(* ---- top-level versions of the local fixpoints, unfolding equations ---- *)
Fixpoint print_subs (l : list (list step * option (list step))) (first : bool) : string :=
  match l with
  | [] => ""
  | (a, b) :: r =>
      (if first then "" else ",") ++ print_chain L a false false ++
      (match b with Some c => " to " ++ print_chain L c false false | None => "" end) ++ print_subs r false
  end%string.

Fixpoint tok_subs (l : list (list step * option (list step))) (first : bool) : list token :=
  match l with
  | [] => []
  | (a, b) :: r =>
      (if first then [] else [ctok 44]) ++ tok_chain L a false false ++
      (match b with Some c => kwt KTo "to" :: tok_chain L c false false | None => [] end) ++ tok_subs r false
  end.

Fixpoint subs_all (P : step -> bool) (Q : list step -> bool)
         (l : list (list step * option (list step))) : bool :=
  match l with
  | [] => true
  | (a, b) :: r =>
      Q a && ch_all P Q a && match b with Some c => Q c && ch_all P Q c | None => true end && subs_all P Q r
  end.

Lemma print_step_bin op l r hn ik wp :
  print_step L (SBin op l r) hn ik wp =
    paren wp (print_chain L l false (Nat.leb (chain_prio l) (binop_prio op)) ++ " " ++ binop_name op ++ " " ++
              print_chain L r false (Nat.leb (chain_prio r) (binop_prio op)))%string.
Proof. reflexivity. Qed.
Lemma tok_step_bin op l r hn ik wp :
  tok_step L (SBin op l r) hn ik wp =
    tparen wp (tok_chain L l false (Nat.leb (chain_prio l) (binop_prio op)) ++ binop_toks op ++
               tok_chain L r false (Nat.leb (chain_prio r) (binop_prio op))).
Proof. reflexivity. Qed.
Lemma print_step_un op a hn ik wp :
  print_step L (SUn op a) hn ik wp =
    match op with
    | UExists => "exists (" ++ print_chain L a false false ++ ")"
    | UNot => "!(" ++ print_chain L a false false ++ ")"
    | UFilter => "?(" ++ print_chain L a false false ++ ")"
    | UIsUnknown => "(" ++ print_chain L a false false ++ ") is unknown"
    | UPlus => paren wp ("+" ++ print_chain L a false (Nat.leb (chain_prio a) 5%nat))
    | UMinus => paren wp ("-" ++ print_chain L a false (Nat.leb (chain_prio a) 5%nat))
    end%string.
Proof. destruct op; reflexivity. Qed.
Lemma tok_step_un op a hn ik wp :
  tok_step L (SUn op a) hn ik wp =
    match op with
    | UExists => [kwt KExists "exists"; ctok 40] ++ tok_chain L a false false ++ [ctok 41]
    | UNot => [mktok TNot "!"; ctok 40] ++ tok_chain L a false false ++ [ctok 41]
    | UFilter => [ctok 63; ctok 40] ++ tok_chain L a false false ++ [ctok 41]
    | UIsUnknown => [ctok 40] ++ tok_chain L a false false ++ [ctok 41; kwt KIs "is"; kwt KUnknown "unknown"]
    | UPlus => tparen wp (ctok 43 :: tok_chain L a false (Nat.leb (chain_prio a) 5%nat))
    | UMinus => tparen wp (ctok 45 :: tok_chain L a false (Nat.leb (chain_prio a) 5%nat))
    end.
Proof. destruct op; reflexivity. Qed.
Lemma print_step_regex a pat fl hn ik wp :
  print_step L (SRegex a pat fl) hn ik wp =
    paren wp (print_chain L a false (Nat.leb (chain_prio a) 6%nat) ++ " like_regex " ++ quote L pat ++
              regex_flags_string fl)%string.
Proof. reflexivity. Qed.
Lemma tok_step_regex a pat fl hn ik wp :
  tok_step L (SRegex a pat fl) hn ik wp =
    tparen wp (tok_chain L a false true ++ [kwt KLikeRegex "like_regex"; mktok TString pat] ++
               (if fl =? 0 then [] else [kwt KFlag "flag"; mktok TString (regex_flag_text fl)])).
Proof. reflexivity. Qed.
Lemma print_step_index subs hn ik wp :
  print_step L (SIndex subs) hn ik wp = ("[" ++ print_subs subs true ++ "]")%string.
Proof. reflexivity. Qed.
Lemma tok_step_index subs hn ik wp :
  tok_step L (SIndex subs) hn ik wp = [ctok 91] ++ tok_subs subs true ++ [ctok 93].
Proof. reflexivity. Qed.

Lemma ca_eq P Q l :
  (fix ca (c : list step) : bool :=
     match c with [] => true | x :: r => st_all P Q x && ca r end) l = ch_all P Q l.
Proof. induction l as [|x l IH]; [reflexivity|]. cbn [ch_all]. rewrite <- IH. reflexivity. Qed.

Lemma st_all_bin P Q op l r :
  st_all P Q (SBin op l r) = P (SBin op l r) && (Q l && ch_all P Q l && (Q r && ch_all P Q r)).
Proof. rewrite <- !ca_eq. reflexivity. Qed.
Lemma st_all_un P Q op a : st_all P Q (SUn op a) = P (SUn op a) && (Q a && ch_all P Q a).
Proof. rewrite <- !ca_eq. reflexivity. Qed.
Lemma st_all_regex P Q a p f : st_all P Q (SRegex a p f) = P (SRegex a p f) && (Q a && ch_all P Q a).
Proof. rewrite <- !ca_eq. reflexivity. Qed.
Lemma st_all_index P Q subs : st_all P Q (SIndex subs) = P (SIndex subs) && subs_all P Q subs.
Proof.
  transitivity (P (SIndex subs) &&
    (fix ss (l : list (list step * option (list step))) : bool :=
       match l with
       | [] => true
       | (a, b) :: r =>
           Q a && (fix ca (c : list step) : bool :=
                     match c with [] => true | x :: r => st_all P Q x && ca r end) a &&
           match b with
           | Some c => Q c && (fix ca (c : list step) : bool :=
                                 match c with [] => true | x :: r => st_all P Q x && ca r end) c
           | None => true
           end && ss r
       end) subs); [reflexivity|].
  f_equal. induction subs as [|[a b] r IH]; [reflexivity|].
  cbn [subs_all]. rewrite <- IH. rewrite !ca_eq. destruct b; [rewrite ca_eq|]; reflexivity.
Qed.
(* ---- constructs ---- *)
Definition follow (hn : bool) : Z -> bool := if hn then dacc else dstrict.

Lemma follow_dacc hn c : asc c = true -> follow hn c = true -> dacc c = true.
Proof. destruct hn; cbn [follow]; intros A H; [exact H|apply dstrict_dacc; assumption]. Qed.

(* a piece that tolerates every accessor start and delimiter after it *)
Lemma Lx_fw X toks (F : Z -> bool) hn :
  Lx X toks F -> (forall c, asc c = true -> dacc c = true -> F c = true) -> Lx X toks (follow hn).
Proof.
  intros H W. eapply Lx_weaken; [exact H|]. intros c A Hc. apply W; [exact A|].
  eapply follow_dacc; eassumption.
Qed.

Lemma Lx_fw_any X toks hn : Lx X toks any -> Lx X toks (follow hn).
Proof. intros H. eapply Lx_fw; [exact H|]. reflexivity. Qed.

Lemma L_lp : LxS "(" [ctok 40] any. Proof. apply (Lx_c L HL 40). reflexivity. Qed.
Lemma L_rp : LxS ")" [ctok 41] any. Proof. apply (Lx_c L HL 41). reflexivity. Qed.
Lemma L_lb : LxS "[" [ctok 91] any. Proof. apply (Lx_c L HL 91). reflexivity. Qed.
Lemma L_rb : LxS "]" [ctok 93] any. Proof. apply (Lx_c L HL 93). reflexivity. Qed.
Lemma L_lc : LxS "{" [ctok 123] any. Proof. apply (Lx_c L HL 123). reflexivity. Qed.
Lemma L_rc : LxS "}" [ctok 125] any. Proof. apply (Lx_c L HL 125). reflexivity. Qed.
Lemma L_comma : LxS "," [ctok 44] any. Proof. apply (Lx_c L HL 44). reflexivity. Qed.
Lemma L_q : LxS "?" [ctok 63] any. Proof. apply (Lx_c L HL 63). reflexivity. Qed.
Lemma L_at : LxS "@" [ctok 64] any. Proof. apply (Lx_c L HL 64). reflexivity. Qed.
Lemma L_plus : LxS "+" [ctok 43] any. Proof. apply (Lx_c L HL 43). reflexivity. Qed.
Lemma L_minus : LxS "-" [ctok 45] any. Proof. apply (Lx_c L HL 45). reflexivity. Qed.
Lemma L_pct : LxS "%" [ctok 37] any. Proof. apply (Lx_c L HL 37). reflexivity. Qed.
Lemma L_dot : LxS "." [ctok 46] fdot. Proof. exact (Lx_dot L HL). Qed.
Lemma L_dollar : LxS "$" [ctok 36] fdollar. Proof. exact (Lx_dollar L HL). Qed.
Lemma L_star : LxS "*" [ctok 42] (notin [42]). Proof. exact (Lx_star L HL). Qed.
Lemma L_starstar : LxS "**" [mktok TAny "**"] any. Proof. exact (Lx_starstar L HL). Qed.

Lemma LxS_paren s ts wp (F : Z -> bool) :
  LxS s ts dstrict ->
  (wp = false -> forall c, asc c = true -> F c = true -> dstrict c = true) ->
  LxS (paren wp s) (tparen wp ts) F.
Proof.
  intros H W. destruct wp; cbn [paren tparen].
  - apply Lx_weaken with (F := any); [|reflexivity].
    change (ctok 40 :: ts ++ [ctok 41]) with ([ctok 40] ++ ts ++ [ctok 41]).
    apply LxS_app_any; [exact L_lp|].
    apply LxS_app with (Fa := dstrict); [exact H|exact L_rp|reflexivity].
  - eapply Lx_weaken; [exact H|]. apply W. reflexivity.
Qed.

(* constants *)
Lemma L_const k hn ik wp :
  LxS (print_step L (SConst k) hn ik wp) (tok_step L (SConst k) hn ik wp) (follow hn).
Proof.
  destruct k; cbn [print_step tok_step const_toks const_name].
  - apply Lx_fw with (F := fdollar); [exact L_dollar|apply dacc_fdollar].
  - apply Lx_fw_any. exact L_at.
  - apply Lx_fw with (F := notalnum); [exact (Lk_last L HL)|apply dacc_notalnum].
  - apply Lx_fw_any.
    apply (LxS_app_any L "[" "*]" [ctok 91] [ctok 42; ctok 93]); [exact L_lb|].
    apply (LxS_app L "*" "]" [ctok 42] [ctok 93] (notin [42]) any); [exact L_star|exact L_rb|reflexivity].
  - apply Lx_fw with (F := notin [42]); [|apply dacc_not42]. destruct ik; cbn [app].
    + apply (LxS_app L "." "*" [ctok 46] [ctok 42] fdot); [exact L_dot|exact L_star|reflexivity].
    + exact L_star.
  - apply Lx_fw with (F := notalnum); [exact (Lk_true L HL)|apply dacc_notalnum].
  - apply Lx_fw with (F := notalnum); [exact (Lk_false L HL)|apply dacc_notalnum].
  - apply Lx_fw with (F := notalnum); [exact (Lk_null L HL)|apply dacc_notalnum].
Qed.

Lemma quote_head s r : wf_text s = true -> hdn (fun c => c =? 34) (bytes_of (quote L s ++ r)) = true.
Proof. intros W. rewrite bytes_of_app, (quote_bytes_ok L s W). reflexivity. Qed.

Lemma L_key t hn ik wp : wf_text t = true ->
  LxS (print_step L (SKey t) hn ik wp) (tok_step L (SKey t) hn ik wp) (follow hn).
Proof.
  intros W. cbn [print_step tok_step]. apply Lx_fw_any. destruct ik.
  - apply LxS_app with (Fa := fdot); [exact L_dot|apply (Lx_quote L HL); exact W|].
    rewrite (quote_bytes_ok L t W). reflexivity.
  - apply (Lx_quote L HL). exact W.
Qed.

(* methods *)
Lemma meth_name_eq m : meth_name m = ("." ++ snd (meth_kw m) ++ "(" ++ ")")%string.
Proof. destruct m; reflexivity. Qed.
Lemma dtop_name_eq op : dtop_name op = ("." ++ snd (dtop_kw op))%string.
Proof. destruct op; reflexivity. Qed.

Lemma L_dotkw k w r tr F :
  LxS w [kwt k w] notalnum -> hdn fdot (bytes_of w) = true ->
  LxS ("(" ++ r) tr F ->
  LxS ("." ++ w ++ "(" ++ r) ([ctok 46; kwt k w] ++ tr) F.
Proof.
  intros Hw Hh Hr.
  apply (LxS_app L "." _ [ctok 46] (kwt k w :: tr) fdot); [exact L_dot| |].
  - apply (LxS_app L w _ [kwt k w] tr notalnum); [exact Hw|exact Hr|reflexivity].
  - rewrite bytes_of_app. apply hdn_app_l. exact Hh.
Qed.

Lemma L_meth m hn ik wp :
  LxS (print_step L (SMeth m) hn ik wp) (tok_step L (SMeth m) hn ik wp) (follow hn).
Proof.
  cbn [print_step tok_step]. rewrite meth_name_eq. apply Lx_fw_any.
  apply (L_dotkw (fst (meth_kw m)) (snd (meth_kw m)) ")" [ctok 40; ctok 41] any).
  - apply (Lk_meth L HL).
  - destruct m; reflexivity.
  - apply (LxS_app_any L "(" ")" [ctok 40] [ctok 41]); [exact L_lp|exact L_rp].
Qed.

Lemma L_int_rp z : LxS (format_int L z ++ ")") (int_toks L z ++ [ctok 41]) any.
Proof. apply LxS_app with (Fa := dstrict); [apply (LxS_int L HL)|exact L_rp|reflexivity]. Qed.

Lemma L_decimal p sc hn ik wp :
  step_ok L (SDecimal p sc) = true ->
  LxS (print_step L (SDecimal p sc) hn ik wp) (tok_step L (SDecimal p sc) hn ik wp) (follow hn).
Proof.
  intros Hok. apply Lx_fw_any. cbn [print_step tok_step].
  assert (Hk: hdn fdot (bytes_of "decimal") = true) by reflexivity.
  destruct p as [z|]; destruct sc as [z2|]; cbn [opt_int]; try discriminate.
  - apply (L_dotkw KDecimal "decimal" (format_int L z ++ "," ++ format_int L z2 ++ ")")
             ([ctok 40] ++ int_toks L z ++ ctok 44 :: int_toks L z2 ++ [ctok 41]) any
             (Lk_decimal L HL) Hk).
    apply LxS_app_any; [exact L_lp|].
    apply LxS_app with (Fa := dstrict); [apply (LxS_int L HL)| |reflexivity].
    apply (LxS_app_any L "," _ [ctok 44]); [exact L_comma|apply L_int_rp].
  - apply (L_dotkw KDecimal "decimal" (format_int L z ++ ")")
             ([ctok 40] ++ int_toks L z ++ [ctok 41]) any (Lk_decimal L HL) Hk).
    apply LxS_app_any; [exact L_lp|apply L_int_rp].
  - apply (L_dotkw KDecimal "decimal" ")" [ctok 40; ctok 41] any (Lk_decimal L HL) Hk).
    apply (LxS_app_any L "(" ")" [ctok 40] [ctok 41]); [exact L_lp|exact L_rp].
Qed.

Lemma L_dt op tmpl prec hn ik wp :
  step_ok L (SDt op tmpl prec) = true ->
  LxS (print_step L (SDt op tmpl prec) hn ik wp) (tok_step L (SDt op tmpl prec) hn ik wp) (follow hn).
Proof.
  intros Hok. apply Lx_fw_any. cbn [print_step tok_step].
  assert (Hk: hdn fdot (bytes_of (snd (dtop_kw op))) = true) by (destruct op; reflexivity).
  destruct tmpl as [t|].
  - assert (W: wf_text t = true).
    { destruct op; cbn [step_ok] in Hok; try discriminate. destruct prec; [discriminate|exact Hok]. }
    rewrite dtop_name_eq.
    apply (L_dotkw (fst (dtop_kw op)) (snd (dtop_kw op)) (quote L t ++ ")")
             ([ctok 40] ++ [mktok TString t] ++ [ctok 41]) any (Lk_dtop L HL op) Hk).
    apply LxS_app_any; [exact L_lp|].
    apply LxS_app_any; [apply (Lx_quote L HL); exact W|exact L_rp].
  - destruct prec as [z|]; rewrite dtop_name_eq.
    + apply (L_dotkw (fst (dtop_kw op)) (snd (dtop_kw op)) (format_int L z ++ ")")
               ([ctok 40] ++ int_toks L z ++ [ctok 41]) any (Lk_dtop L HL op) Hk).
      apply LxS_app_any; [exact L_lp|apply L_int_rp].
    + apply (L_dotkw (fst (dtop_kw op)) (snd (dtop_kw op)) ")" [ctok 40; ctok 41] any (Lk_dtop L HL op) Hk).
      apply (LxS_app_any L "(" ")" [ctok 40] [ctok 41]); [exact L_lp|exact L_rp].
Qed.

(* .** with its depth range *)
Lemma L_nat_then z r tr F :
  0 <= z -> LxS r tr F -> hdn dstrict (bytes_of r) = true ->
  LxS (format_int L z ++ r) (mktok TInt (format_int L z) :: tr) F.
Proof.
  intros Hz Hr Hh.
  apply (LxS_app L _ r [mktok TInt (format_int L z)] tr dstrict); [apply (LxS_nat L HL); exact Hz|exact Hr|exact Hh].
Qed.

Lemma L_last_then r tr F :
  LxS r tr F -> hdn notalnum (bytes_of r) = true -> LxS ("last" ++ r) (kwt KLast "last" :: tr) F.
Proof.
  intros Hr Hh. apply (LxS_app L "last" r [kwt KLast "last"] tr notalnum); [exact (Lk_last L HL)|exact Hr|exact Hh].
Qed.

Lemma L_to_then r tr F :
  LxS r tr F -> LxS (" to " ++ r) (kwt KTo "to" :: tr) F.
Proof.
  intros Hr. apply (LxS_ws L ("to " ++ r)).
  apply (LxS_app L "to" (" " ++ r) [kwt KTo "to"] tr notalnum); [exact (Lk_to L HL)| |reflexivity].
  apply LxS_ws. exact Hr.
Qed.

Lemma L_open_any r tr F :
  LxS r tr F -> LxS ("**{" ++ r) ([mktok TAny "**"; ctok 123] ++ tr) F.
Proof.
  intros Hr. apply (LxS_app_any L "**" ("{" ++ r) [mktok TAny "**"] (ctok 123 :: tr)); [exact L_starstar|].
  apply (LxS_app_any L "{" r [ctok 123] tr); [exact L_lc|exact Hr].
Qed.

Lemma L_any_body a b :
  0 <= a -> 0 <= b -> LxS (print_any L a b) (any_toks L a b) any.
Proof.
  intros Ha Hb. unfold print_any, any_toks, level_toks.
  destruct ((a =? 0) && (b =? max_uint32)) eqn:E0; [exact L_starstar|].
  destruct (a =? b) eqn:E1.
  - destruct (a =? max_uint32) eqn:E2.
    + apply (L_open_any "last}" [kwt KLast "last"; ctok 125] any).
      apply (L_last_then "}" [ctok 125] any); [exact L_rc|reflexivity].
    + apply (L_open_any (format_int L a ++ "}") [mktok TInt (format_int L a); ctok 125] any).
      apply (L_nat_then a "}" [ctok 125] any Ha); [exact L_rc|reflexivity].
  - destruct (a =? max_uint32) eqn:E2.
    + replace (b =? max_uint32) with false by lia.
      apply (L_open_any ("last" ++ " to " ++ format_int L b ++ "}")
               ([kwt KLast "last"] ++ [kwt KTo "to"] ++ [mktok TInt (format_int L b)] ++ [ctok 125]) any).
      apply L_last_then; [|reflexivity]. apply L_to_then.
      apply (L_nat_then b "}" [ctok 125] any Hb); [exact L_rc|reflexivity].
    + destruct (b =? max_uint32) eqn:E3.
      * apply (L_open_any (format_int L a ++ " to " ++ "last" ++ "}")
                 ([mktok TInt (format_int L a)] ++ [kwt KTo "to"] ++ [kwt KLast "last"] ++ [ctok 125]) any).
        apply (L_nat_then a _ _ any Ha); [|reflexivity]. apply L_to_then.
        apply (L_last_then "}" [ctok 125] any); [exact L_rc|reflexivity].
      * apply (L_open_any (format_int L a ++ " to " ++ format_int L b ++ "}")
                 ([mktok TInt (format_int L a)] ++ [kwt KTo "to"] ++ [mktok TInt (format_int L b)] ++ [ctok 125]) any).
        apply (L_nat_then a _ _ any Ha); [|reflexivity]. apply L_to_then.
        apply (L_nat_then b "}" [ctok 125] any Hb); [exact L_rc|reflexivity].
Qed.

Lemma print_any_head a b : hdn fdot (bytes_of (print_any L a b)) = true.
Proof.
  unfold print_any.
  repeat match goal with |- context [if ?c then _ else _] => destruct c end; reflexivity.
Qed.

Lemma L_any a b hn ik wp :
  step_ok L (SAny a b) = true ->
  LxS (print_step L (SAny a b) hn ik wp) (tok_step L (SAny a b) hn ik wp) (follow hn).
Proof.
  intros Hok. cbn [step_ok] in Hok. apply Lx_fw_any. cbn [print_step tok_step].
  assert (H: LxS (print_any L a b) (any_toks L a b) any) by (apply L_any_body; lia).
  destruct ik; cbn [app].
  - apply (LxS_app L "." _ [ctok 46] (any_toks L a b) fdot); [exact L_dot|exact H|apply print_any_head].
  - exact H.
Qed.

(* binary operators, always printed between two spaces *)
Lemma is32_c (F : Z -> bool) : F 32 = true -> forall c, asc c = true -> is32 c = true -> F c = true.
Proof. intros H c _ E. apply Z.eqb_eq in E. subst c. exact H. Qed.

Lemma L_binop op : LxS (binop_name op) (binop_toks op) is32.
Proof.
  destruct op; cbn [binop_name binop_toks].
  - eapply Lx_weaken; [exact (Lx_andand L HL)|apply is32_c; reflexivity].
  - eapply Lx_weaken; [exact (Lx_oror L HL)|apply is32_c; reflexivity].
  - eapply Lx_weaken; [exact (Lx_eqeq L HL)|apply is32_c; reflexivity].
  - eapply Lx_weaken; [exact (Lx_ne L HL)|apply is32_c; reflexivity].
  - eapply Lx_weaken; [exact (Lx_less L HL)|apply is32_c; reflexivity].
  - eapply Lx_weaken; [exact (Lx_greater L HL)|apply is32_c; reflexivity].
  - eapply Lx_weaken; [exact (Lx_le L HL)|apply is32_c; reflexivity].
  - eapply Lx_weaken; [exact (Lx_ge L HL)|apply is32_c; reflexivity].
  - eapply Lx_weaken; [|apply (is32_c notalnum); reflexivity].
    apply (LxS_app L "starts" " with" [kwt KStarts "starts"] [kwt KWith "with"] notalnum);
      [exact (Lk_starts L HL)|apply (LxS_ws L "with"); exact (Lk_with L HL)|reflexivity].
  - eapply Lx_weaken; [exact L_plus|apply is32_c; reflexivity].
  - eapply Lx_weaken; [exact L_minus|apply is32_c; reflexivity].
  - eapply Lx_weaken; [exact L_star|apply is32_c; reflexivity].
  - eapply Lx_weaken; [exact (Lx_slash L HL)|apply is32_c; reflexivity].
  - eapply Lx_weaken; [exact L_pct|apply is32_c; reflexivity].
Qed.

Lemma L_bin_inner op pl tl pr tr :
  LxS pl tl dstrict -> LxS pr tr dstrict ->
  LxS (pl ++ " " ++ binop_name op ++ " " ++ pr) (tl ++ binop_toks op ++ tr) dstrict.
Proof.
  intros Hl Hr.
  apply LxS_app with (Fa := dstrict); [exact Hl| |reflexivity].
  apply LxS_ws. apply LxS_app with (Fa := is32); [apply L_binop| |reflexivity].
  apply LxS_ws. exact Hr.
Qed.

(* an operator node has no next *)
Lemma follow_op (hn : bool) s :
  (hn = true -> is_operator_step s = false) -> is_operator_step s = true ->
  forall c, asc c = true -> follow hn c = true -> dstrict c = true.
Proof.
  intros H Ho. destruct hn; [rewrite (H eq_refl) in Ho; discriminate|]. intros c _ Hc. exact Hc.
Qed.

Lemma chain_prio_le6 a : Nat.leb (chain_prio a) 6 = true.
Proof.
  destruct a as [|x r]; [reflexivity|]. cbn [chain_prio].
  destruct x as [k| | | | | |op l r0|op a0|a0 p f| | | | |]; try reflexivity; destruct op; reflexivity.
Qed.

Lemma regex_flags_eq fl :
  regex_flags_string fl =
    if fl =? 0 then ""%string else (" flag " ++ ("""" ++ regex_flag_text fl ++ """"))%string.
Proof.
  unfold regex_flags_string, regex_flag_text. destruct (fl =? 0); [reflexivity|].
  repeat destruct (0 <? _); reflexivity.
Qed.

Lemma L_regex_inner pa ta pat fl :
  LxS pa ta dstrict -> wf_text pat = true ->
  LxS (pa ++ " like_regex " ++ quote L pat ++ regex_flags_string fl)
      (ta ++ [kwt KLikeRegex "like_regex"; mktok TString pat] ++
       (if fl =? 0 then [] else [kwt KFlag "flag"; mktok TString (regex_flag_text fl)])) dstrict.
Proof.
  intros Ha W. rewrite regex_flags_eq.
  apply LxS_app with (Fa := dstrict); [exact Ha| |reflexivity].
  apply (LxS_ws L ("like_regex " ++ quote L pat ++ _)).
  apply (LxS_app L "like_regex" (" " ++ quote L pat ++ _) [kwt KLikeRegex "like_regex"] _ notalnum);
    [exact (Lk_like_regex L HL)| |reflexivity].
  apply LxS_ws. apply Lx_weaken with (F := any); [|reflexivity].
  destruct (fl =? 0).
  - rewrite append_nil_r. apply (Lx_quote L HL). exact W.
  - apply (LxS_app_any L (quote L pat) _ [mktok TString pat]); [apply (Lx_quote L HL); exact W|].
    apply (LxS_ws L ("flag " ++ _)).
    apply (LxS_app L "flag" (" " ++ _) [kwt KFlag "flag"] [mktok TString (regex_flag_text fl)] notalnum);
      [exact (Lk_flag L HL)| |reflexivity].
    apply LxS_ws. apply (Lx_flags L HL).
Qed.

(* ---- well-formedness + exclusion, bundled ---- *)
Definition okc (c : chain) : bool :=
  (chain_shape c && ch_all (step_ok L) chain_shape c) && (exB c && ch_all exA exB c).
Definition oks (s : step) : bool := st_all (step_ok L) chain_shape s && st_all exA exB s.
Definition okch (c : chain) : bool := ch_all (step_ok L) chain_shape c && ch_all exA exB c.
Definition subs_ok (subs : list (chain * option chain)) : bool :=
  forallb (fun ab => okc (fst ab) && match snd ab with Some c => okc c | None => true end) subs.

Ltac bsplit :=
  repeat match goal with H : _ && _ = true |- _ => apply andb_prop in H; destruct H end.
Ltac bjoin := repeat (apply andb_true_intro; split); try assumption; try reflexivity.

Lemma oks_bin op l r : oks (SBin op l r) = true ->
  step_ok L (SBin op l r) = true /\ okc l = true /\ okc r = true.
Proof. unfold oks, okc. rewrite !st_all_bin. intros H. bsplit. repeat split; try assumption; bjoin. Qed.
Lemma oks_un op a : oks (SUn op a) = true -> step_ok L (SUn op a) = true /\ okc a = true.
Proof. unfold oks, okc. rewrite !st_all_un. intros H. bsplit. repeat split; try assumption; bjoin. Qed.
Lemma oks_regex a p f : oks (SRegex a p f) = true -> step_ok L (SRegex a p f) = true /\ okc a = true.
Proof. unfold oks, okc. rewrite !st_all_regex. intros H. bsplit. repeat split; try assumption; bjoin. Qed.

Lemma subs_all_ok subs :
  subs_all (step_ok L) chain_shape subs = true -> subs_all exA exB subs = true -> subs_ok subs = true.
Proof.
  induction subs as [|[a b] r IH]; [reflexivity|]. cbn [subs_all subs_ok forallb fst snd].
  intros H1 H2. bsplit. unfold subs_ok in IH. rewrite IH by assumption. unfold okc.
  destruct b as [c|]; bsplit; bjoin.
Qed.
Lemma oks_index subs : oks (SIndex subs) = true -> subs_ok subs = true.
Proof. unfold oks. rewrite !st_all_index. intros H. bsplit. apply subs_all_ok; assumption. Qed.

Definition Pst (s : step) : Prop :=
  oks s = true -> forall hn ik wp, (hn = true -> is_operator_step s = false) ->
  LxS (print_step L s hn ik wp) (tok_step L s hn ik wp) (follow hn).
Definition Qch (c : chain) : Prop :=
  okch c = true -> linked c = true -> c <> [] ->
  forall ik wp, LxS (print_chain L c ik wp) (tok_chain L c ik wp) dstrict.

Lemma Q_ok c : Qch c -> okc c = true ->
  forall ik wp, LxS (print_chain L c ik wp) (tok_chain L c ik wp) dstrict.
Proof.
  unfold okc. intros Q H. bsplit.
  destruct (linked_of_shape c) as [Hl Hne]; [assumption|assumption|].
  apply Q; [unfold okch; bjoin|exact Hl|exact Hne].
Qed.

(* every accessor printed after another node starts with '.', '[' or '?' *)
Lemma acc_start y hn wp : is_accessor_step y = true ->
  hdn accst (bytes_of (print_step L y hn true wp)) = true.
Proof.
  destruct y as [k| | | | |t|op l r|op a|a p f|m|p sc|op tmpl prec|a b|subs]; try discriminate.
  - destruct k; try discriminate; reflexivity.
  - intros _. reflexivity.
  - destruct op; try discriminate. intros _. reflexivity.
  - intros _. destruct m; reflexivity.
  - intros _. reflexivity.
  - intros _. destruct op, tmpl, prec; reflexivity.
  - intros _. reflexivity.
  - intros _. reflexivity.
Qed.

Lemma H_nil : Qch [].
Proof. intros _ _ H. congruence. Qed.

Lemma H_cons s c : Pst s -> Qch c -> Qch (s :: c).
Proof.
  intros Ps Qc Hok Hl _ ik wp. unfold okch in Hok. cbn [ch_all] in Hok. bsplit.
  assert (Hs: oks s = true) by (unfold oks; bjoin).
  assert (Hc: okch c = true) by (unfold okch; bjoin).
  cbn [print_chain tok_chain]. destruct c as [|y c'].
  - cbn [print_chain tok_chain]. rewrite append_nil_r, app_nil_r.
    apply (Ps Hs false ik wp). discriminate.
  - destruct (linked_tail _ _ _ Hl) as [Hl' Hy].
    assert (Hop: is_operator_step s = false).
    { cbn [linked] in Hl. apply andb_prop in Hl as [_ Hl]. apply negb_true_iff in Hl. exact Hl. }
    apply LxS_app with (Fa := follow true).
    + apply (Ps Hs true ik wp). intros _. exact Hop.
    + apply (Qc Hc Hl'). discriminate.
    + cbn [print_chain]. rewrite bytes_of_app. apply hdn_app_l.
      eapply hdn_weaken; [|apply acc_start; exact Hy].
      intros c0 _ Hc0. unfold follow, dacc. rewrite Hc0. apply orb_true_r.
Qed.

Lemma H_const k : Pst (SConst k).
Proof. intros _ hn ik wp _. apply L_const. Qed.

Lemma H_str t : Pst (SStr t).
Proof.
  intros Hok hn ik wp _. unfold oks in Hok. cbn [st_all step_ok] in Hok. bsplit.
  cbn [print_step tok_step]. apply Lx_fw_any. apply (Lx_quote L HL). assumption.
Qed.

Lemma H_var t : Pst (SVar t).
Proof.
  intros Hok hn ik wp _. unfold oks in Hok. cbn [st_all step_ok] in Hok. bsplit.
  cbn [print_step tok_step]. apply Lx_fw_any. apply (Lx_var L HL). assumption.
Qed.

Lemma H_key t : Pst (SKey t).
Proof.
  intros Hok hn ik wp _. unfold oks in Hok. cbn [st_all step_ok] in Hok. bsplit.
  apply L_key. assumption.
Qed.

Lemma follow_false c : asc c = true -> follow false c = true -> dstrict c = true.
Proof. intros _ H. exact H. Qed.

Lemma H_int z : Pst (SInteger z).
Proof.
  intros _ hn ik wp _. cbn [print_step tok_step].
  apply LxS_paren; [apply (LxS_int L HL)|]. intros ->. apply follow_false.
Qed.

Lemma H_num f : Pst (SNumeric f).
Proof.
  intros Hok hn ik wp _. unfold oks in Hok. cbn [st_all step_ok] in Hok. bsplit.
  cbn [print_step tok_step].
  apply LxS_paren; [|intros ->; apply follow_false].
  apply (LxS_float L HL); [assumption|].
  match goal with H : exA (SNumeric f) = true |- _ => unfold exA, integral_numeric in H;
    apply negb_true_iff in H; exact H end.
Qed.

Lemma H_meth m : Pst (SMeth m).
Proof. intros _ hn ik wp _. apply L_meth. Qed.

Lemma H_dec p sc : Pst (SDecimal p sc).
Proof.
  intros Hok hn ik wp _. unfold oks in Hok. cbn [st_all] in Hok. bsplit. apply L_decimal. assumption.
Qed.

Lemma H_dt op t p : Pst (SDt op t p).
Proof.
  intros Hok hn ik wp _. unfold oks in Hok. cbn [st_all] in Hok. bsplit. apply L_dt. assumption.
Qed.

Lemma H_any a b : Pst (SAny a b).
Proof.
  intros Hok hn ik wp _. unfold oks in Hok. cbn [st_all] in Hok. bsplit. apply L_any. assumption.
Qed.

Lemma H_bin op l r : Qch l -> Qch r -> Pst (SBin op l r).
Proof.
  intros Ql Qr Hok hn ik wp Hop. destruct (oks_bin _ _ _ Hok) as [_ [Hl Hr]].
  rewrite print_step_bin, tok_step_bin.
  apply LxS_paren; [|intros _; apply (follow_op hn (SBin op l r) Hop); reflexivity].
  apply L_bin_inner; apply Q_ok; assumption.
Qed.

Lemma H_un op a : Qch a -> Pst (SUn op a).
Proof.
  intros Qa Hok hn ik wp Hop. destruct (oks_un _ _ Hok) as [_ Ha].
  rewrite print_step_un, tok_step_un.
  pose proof (fun ik wp => Q_ok a Qa Ha ik wp) as A.
  destruct op.
  - (* exists *) apply Lx_fw_any.
    apply (LxS_app L "exists" (" (" ++ _) [kwt KExists "exists"] _ notalnum);
      [exact (Lk_exists L HL)| |reflexivity].
    apply (LxS_ws L ("(" ++ _)). apply (LxS_app_any L "(" _ [ctok 40]); [exact L_lp|].
    apply LxS_app with (Fa := dstrict); [apply A|exact L_rp|reflexivity].
  - (* ! *) apply Lx_fw_any.
    apply (LxS_app L "!" ("(" ++ _) [mktok TNot "!"] _ (notin [61]));
      [exact (Lx_not L HL)| |reflexivity].
    apply (LxS_app_any L "(" _ [ctok 40]); [exact L_lp|].
    apply LxS_app with (Fa := dstrict); [apply A|exact L_rp|reflexivity].
  - (* is unknown *) apply Lx_fw with (F := notalnum); [|apply dacc_notalnum].
    apply (LxS_app_any L "(" _ [ctok 40]); [exact L_lp|].
    apply (LxS_app L _ (") is unknown") _ [ctok 41; kwt KIs "is"; kwt KUnknown "unknown"] dstrict);
      [apply A| |reflexivity].
    apply (LxS_app_any L ")" (" is unknown") [ctok 41]); [exact L_rp|].
    apply (LxS_ws L "is unknown").
    apply (LxS_app L "is" " unknown" [kwt KIs "is"] [kwt KUnknown "unknown"] notalnum);
      [exact (Lk_is L HL)| |reflexivity].
    apply (LxS_ws L "unknown"). exact (Lk_unknown L HL).
  - (* + *) apply LxS_paren; [|intros _; apply (follow_op hn (SUn UPlus a) Hop); reflexivity].
    apply (LxS_app_any L "+" _ [ctok 43]); [exact L_plus|apply A].
  - (* - *) apply LxS_paren; [|intros _; apply (follow_op hn (SUn UMinus a) Hop); reflexivity].
    apply (LxS_app_any L "-" _ [ctok 45]); [exact L_minus|apply A].
  - (* ? *) apply Lx_fw_any.
    apply (LxS_app_any L "?" ("(" ++ _) [ctok 63]); [exact L_q|].
    apply (LxS_app_any L "(" _ [ctok 40]); [exact L_lp|].
    apply LxS_app with (Fa := dstrict); [apply A|exact L_rp|reflexivity].
Qed.

Lemma H_regex a pat fl : Qch a -> Pst (SRegex a pat fl).
Proof.
  intros Qa Hok hn ik wp Hop. destruct (oks_regex _ _ _ Hok) as [Hs Ha].
  rewrite print_step_regex, tok_step_regex. rewrite chain_prio_le6.
  apply LxS_paren; [|intros _; apply (follow_op hn (SRegex a pat fl) Hop); reflexivity].
  apply L_regex_inner; [apply Q_ok; assumption|].
  cbn [step_ok] in Hs. bsplit. assumption.
Qed.

Lemma subs_head r :
  hdn dstrict (bytes_of (print_subs r false ++ "]")) = true.
Proof. destruct r as [|[a b] r']; reflexivity. Qed.

Lemma L_subs subs :
  Forall (fun ab => Qch (fst ab) /\ match snd ab with Some c => Qch c | None => True end) subs ->
  subs_ok subs = true ->
  forall first, LxS (print_subs subs first ++ "]") (tok_subs subs first ++ [ctok 93]) any.
Proof.
  induction 1 as [|[a b] r [Qa Qb] _ IH]; intros Hok first.
  - exact L_rb.
  - cbn [subs_ok forallb fst snd] in *. bsplit. specialize (IH ltac:(assumption) false).
    pose proof (subs_head r) as Hh.
    assert (A: LxS (print_chain L a false false) (tok_chain L a false false) dstrict)
      by (apply Q_ok; assumption).
    cbn [print_subs tok_subs]. destruct b as [c|].
    + assert (C: LxS (print_chain L c false false) (tok_chain L c false false) dstrict)
        by (apply Q_ok; assumption).
      rewrite !append_assoc. rewrite <- !app_assoc.
      assert (R: LxS (print_chain L a false false ++ " to " ++ print_chain L c false false ++
                      print_subs r false ++ "]")
                     (tok_chain L a false false ++ (kwt KTo "to" :: tok_chain L c false false) ++
                      tok_subs r false ++ [ctok 93]) any).
      { apply LxS_app with (Fa := dstrict); [exact A| |reflexivity].
        apply (L_to_then (print_chain L c false false ++ print_subs r false ++ "]")).
        apply LxS_app with (Fa := dstrict); [exact C|exact IH|exact Hh]. }
      destruct first; [exact R|].
      apply (LxS_app_any L "," _ [ctok 44]); [exact L_comma|exact R].
    + rewrite !append_assoc. rewrite <- !app_assoc.
      assert (R: LxS (print_chain L a false false ++ "" ++ print_subs r false ++ "]")
                     (tok_chain L a false false ++ [] ++ tok_subs r false ++ [ctok 93]) any).
      { apply LxS_app with (Fa := dstrict); [exact A|exact IH|exact Hh]. }
      destruct first; [exact R|].
      apply (LxS_app_any L "," _ [ctok 44]); [exact L_comma|exact R].
Qed.

Lemma H_index subs :
  Forall (fun ab => Qch (fst ab) /\ match snd ab with Some c => Qch c | None => True end) subs ->
  Pst (SIndex subs).
Proof.
  intros HF Hok hn ik wp _. rewrite print_step_index, tok_step_index. apply Lx_fw_any.
  apply (LxS_app_any L "[" _ [ctok 91]); [exact L_lb|].
  apply L_subs; [exact HF|apply oks_index; exact Hok].
Qed.

Lemma all_chains c : Qch c.
Proof.
  apply (chain_ind' Pst Qch H_nil H_cons H_const H_str H_int H_num H_var H_key H_bin H_un H_regex
           H_meth H_dec H_dt H_any H_index).
Qed.

End Main.

(* ================================================================== *)
Theorem lex_print : forall L, Laws L -> forall p,
  wf_path L p -> excl_C02 p = false -> lex L (print_path L p) = tok_path L p.
Proof.
  intros L HL p [Hwf _] Hex.
  unfold excl_C02 in Hex. rewrite excl_chain_eq in Hex. apply orb_false_elim in Hex as [E1 E2].
  apply negb_false_iff in E1. unfold wf_chain in Hwf. apply andb_prop in Hwf as [W1 W2].
  assert (Hok: okc L (p_root p) = true).
  { unfold okc. rewrite W1, W2, E1. unfold exB. rewrite E2. reflexivity. }
  pose proof (Q_ok L _ (all_chains L HL (p_root p)) Hok false true) as [_ C].
  unfold lex, print_path, tok_path, lex_runes_of.
  assert (E: LB L (bytes_of (print_chain L (p_root p) false true)) = tok_chain L (p_root p) false true).
  { specialize (C [] eq_refl). rewrite app_nil_r in C. rewrite C. unfold LB.
    change (lex_runes_of_bytes []) with (@nil Z). rewrite lex_runes_nil. apply app_nil_r. }
  destruct (p_lax p).
  - exact E.
  - change ("strict " ++ print_chain L (p_root p) false true)%string
      with ("strict" ++ " " ++ print_chain L (p_root p) false true)%string.
    rewrite !bytes_of_app. change (bytes_of " ") with [32].
    destruct (Lk_strict L HL) as [_ S].
    change (lex_runes L (lex_runes_of_bytes (bytes_of "strict" ++ [32] ++ bytes_of (print_chain L (p_root p) false true))))
      with (LB L (bytes_of "strict" ++ 32 :: bytes_of (print_chain L (p_root p) false true))).
    rewrite S by reflexivity. rewrite LB_ws. rewrite E. reflexivity.
Qed.

Print Assumptions lex_print.
