(* ParseProofs.v — facts about model/Parser.v and model/PathAPI.v (C04).
   Part 1: parse_total — the parser's fuel always suffices. *)
From SJ Require Import lib.Base lib.Utf8 lib.GoLib model.Json model.Ast model.Lexer model.Parser
  model.Printer model.PathAPI proofs.LexProofs.
Local Open Scope list_scope.
Notation length := List.length (only parsing).

(* [pgood proj n x]: x is not the out-of-fuel error and, on success, strictly
   fewer than n tokens are left *)
Definition pgood {A} (proj : A -> list token) (n : nat) (x : pres A) : Prop :=
  match x with
  | ROk a => (length (proj a) < n)%nat
  | RErr e => e <> EFuel
  end.

Lemma pgood_weaken {A} (proj : A -> list token) n n' x :
  pgood proj n x -> (n <= n')%nat -> pgood proj n' x.
Proof. destruct x; cbn; intros; [lia|assumption]. Qed.

Lemma pgood_bind {A B} (pa : A -> list token) (pb : B -> list token) na nb
      (x : pres A) (f : A -> pres B) :
  pgood pa na x ->
  (forall a, (length (pa a) < na)%nat -> pgood pb nb (f a)) ->
  pgood pb nb (rbind x f).
Proof. destruct x as [a|e]; cbn; intros H1 H2; [apply H2; exact H1|exact H1]. Qed.

Lemma pgood_syn {A} (proj : A -> list token) n ts : pgood proj n (@syn A ts).
Proof.
  unfold syn. destruct ts as [|[k txt] r]; cbn; try discriminate.
  destruct k; cbn; discriminate.
Qed.

Lemma pgood_syn_bind {A B} (proj : B -> list token) n ts (f : A -> pres B) :
  pgood proj n (rbind (@syn A ts) f).
Proof.
  unfold syn. destruct ts as [|[k txt] r]; cbn; try discriminate.
  destruct k; cbn; discriminate.
Qed.

Lemma rbind_assoc {A B C} (x : pres A) (g : A -> pres B) (f : B -> pres C) :
  rbind (rbind x g) f = rbind x (fun a => rbind (g a) f).
Proof. destruct x; reflexivity. Qed.

Definition q2 {A} (a : A * list token) : list token := snd a.
Definition q3 {A B} (a : A * B * list token) : list token := snd a.

Ltac pstep :=
  match goal with
  | |- pgood _ _ (syn _) => apply pgood_syn
  | |- pgood _ _ (rbind (syn _) _) => apply pgood_syn_bind
  | |- pgood _ _ (RErr _) => cbn [pgood]; discriminate
  | |- pgood _ _ (ROk _) => cbn [pgood q2 q3 fst snd length] in *; lia
  | |- pgood _ _ (rbind (ROk _) _) => cbn [rbind]
  | |- pgood _ _ (rbind (RErr _) _) => cbn [rbind pgood]; discriminate
  | |- pgood _ _ (rbind (rbind _ _) _) => rewrite rbind_assoc
  | |- pgood _ _ (rbind (if ?c then _ else _) _) => destruct c
  | |- pgood _ _ (rbind (match ?x with _ => _ end) _) => destruct x
  | |- pgood _ _ (if ?c then _ else _) => destruct c
  | |- pgood _ _ (match ?x with _ => _ end) => destruct x
  end.

Section L.
Variable L : GoLib.

Lemma new_integer_good {B} (proj : B -> list token) n txt (f : Z -> pres B) :
  (forall z, pgood proj n (f z)) -> pgood proj n (rbind (new_integer L txt) f).
Proof. intros H. unfold new_integer. destruct (parse_int0 L txt); cbn; [apply H|discriminate]. Qed.

Lemma new_numeric_good {B} (proj : B -> list token) n txt (f : f64 -> pres B) :
  (forall z, pgood proj n (f z)) -> pgood proj n (rbind (new_numeric L txt) f).
Proof.
  intros H. unfold new_numeric. destruct (parse_float L txt) as [[v [|]]|]; cbn; try discriminate. apply H.
Qed.

Lemma new_regex_good {B} (proj : B -> list token) n a pat fl (f : step -> pres B) :
  (forall z, pgood proj n (f z)) -> pgood proj n (rbind (new_regex L a pat fl) f).
Proof.
  intros H. unfold new_regex. destruct (regex_flags_loop _ _); cbn; [|discriminate].
  repeat match goal with |- context [if ?c then _ else _] => destruct c end; cbn; try discriminate. apply H.
Qed.

Ltac pstep2 :=
  first
    [ pstep
    | match goal with
      | |- pgood _ _ (rbind (new_integer _ _) _) => apply new_integer_good; intros ?
      | |- pgood _ _ (rbind (new_numeric _ _) _) => apply new_numeric_good; intros ?
      | |- pgood _ _ (rbind (new_regex _ _ _ _) _) => apply new_regex_good; intros ?
      end ].

Lemma p_any_level_good ts : pgood q2 (length ts) (p_any_level L ts).
Proof. unfold p_any_level. repeat pstep2. Qed.


Ltac pstep3 :=
  first
    [ pstep2
    | match goal with
      | |- pgood _ _ (rbind (p_any_level _ ?r) _) =>
          eapply pgood_bind; [apply p_any_level_good|]; intros [? ?] ?
      end ].

Lemma p_any_good ts : pgood q2 (S (length ts)) (p_any L ts).
Proof. unfold p_any. repeat pstep3. Qed.

Lemma p_csv_elem_good ts : pgood q2 (length ts) (p_csv_elem L ts).
Proof. unfold p_csv_elem. repeat pstep3. Qed.

Lemma p_csv_rest_good_n n : forall acc ts, (length ts <= n)%nat -> pgood q2 (length ts) (p_csv_rest L acc ts).
Proof.
  induction n as [|n IH]; intros acc ts Hn.
  - destruct ts; [cbn; discriminate|cbn in Hn; lia].
  - destruct ts as [|t r]; [cbn; discriminate|].
    cbn [p_csv_rest]. cbn [length] in Hn.
    repeat first
      [ match goal with
        | |- pgood _ _ (p_csv_rest _ _ ?r1) =>
            eapply pgood_weaken; [apply IH; cbn [length] in *; lia|cbn [length]; lia]
        end
      | pstep3 ].
Qed.

Lemma p_csv_rest_good acc ts : pgood q2 (length ts) (p_csv_rest L acc ts).
Proof. apply (p_csv_rest_good_n (length ts)). lia. Qed.

Lemma p_decimal_args_good ts : pgood q2 (length ts) (p_decimal_args L ts).
Proof.
  unfold p_decimal_args.
  eapply pgood_bind with (pa := @q2 (list Z)) (na := length ts).
  - destruct ts as [|t r]; [apply pgood_bind with (pa := @q2 Z) (na := 0%nat); [apply (p_csv_elem_good [])|intros; lia]|].
    assert (D: pgood q2 (length (t :: r))
                 (let+ (z, r1) := p_csv_elem L (t :: r) in p_csv_rest L [z] r1)).
    { eapply pgood_bind; [apply p_csv_elem_good|]. intros [z r1] H. cbn [q2 snd] in H.
      eapply pgood_weaken; [apply p_csv_rest_good|lia]. }
    destruct t as [k txt]. destruct k; try exact D.
    destruct c; try exact D.
    repeat (match goal with |- context [match ?p with _ => _ end] =>
              match type of p with positive => destruct p; try exact D end end).
    cbn. lia.
  - intros [args r] H. cbn [q2 snd] in H.
    destruct args as [|a [|b [|c l]]]; cbn; try lia. discriminate.
Qed.

Lemma p_dot_good ts : pgood q2 (length ts) (p_dot L ts).
Proof.
  unfold p_dot.
  repeat first
    [ match goal with
      | |- pgood _ _ (p_any _ ?r) => eapply pgood_weaken; [apply p_any_good|cbn [length]; lia]
      | |- pgood _ _ (p_decimal_args _ ?r) => eapply pgood_weaken; [apply p_decimal_args_good|cbn [length]; lia]
      end
    | pstep3 ].
Qed.

Lemma p_primary_good ts res : p_primary L ts = Some res -> pgood q2 (length ts) res.
Proof.
  unfold p_primary. intros H.
  repeat match type of H with
         | match ?x with _ => _ end = _ => destruct x; try discriminate
         end.
  all: inversion H; subst; clear H; repeat pstep3.
Qed.

(* one-step unfoldings of the mutual fixpoint, with the calls folded *)
Local Open Scope parse_scope.
Lemma p_eop_S f (minp : nat) (po : bool) (ts : list token) :
  p_eop L (S f) minp po ts =

      let+ (s, c, r) := p_unary L f po ts in p_loop L f minp s c r.
Proof. reflexivity. Qed.

Lemma p_unary_S f (po : bool) (ts : list token) :
  p_unary L (S f) po ts =

      match p_primary L ts with
      | Some res =>
          let+ (st, r) := res in
          let+ (accs, r1) := p_accs L f r in
          ROk (SE, st :: accs, r1)
      | None =>
          match ts with
          | mktok (TChar 43) _ :: r =>
              let+ (_, c, r1) := p_unary L f false r in
              ROk (SE, new_unary_or_number L UPlus c, r1)
          | mktok (TChar 45) _ :: r =>
              let+ (_, c, r1) := p_unary L f false r in
              ROk (SE, new_unary_or_number L UMinus c, r1)
          | mktok (TChar 40) _ :: r =>
              let+ (s, c, r1) := p_eop L f 0 true r in
              match r1 with
              | mktok (TChar 41) _ :: r2 =>
                  if starts_accessor r2 then
                    let+ (accs, r3) := p_accs L f r2 in ROk (SE, c ++ accs, r3)
                  else
                    match s with
                    | SE => ROk (SE, c, r2)
                    | SP =>
                        match r2 with
                        | mktok (TKw KIs) _ :: r3 =>
                            if po then
                              match r3 with
                              | mktok (TKw KUnknown) _ :: r4 => ROk (SP, [SUn UIsUnknown c], r4)
                              | _ => syn r3
                              end
                            else syn r2
                        | _ => if po then ROk (SP, c, r2) else syn r2
                        end
                    end
              | _ => syn r1
              end
          | mktok TNot _ :: r =>
              if po then
                match r with
                | mktok (TChar 40) _ :: r1 =>
                    let+ (s, c, r2) := p_eop L f 0 true r1 in
                    match s, r2 with
                    | SP, mktok (TChar 41) _ :: r3 => ROk (SP, [SUn UNot c], r3)
                    | _, _ => syn r2
                    end
                | mktok (TKw KExists) _ :: mktok (TChar 40) _ :: r1 =>
                    let+ (_, c, r2) := p_eop L f 4 false r1 in
                    match r2 with
                    | mktok (TChar 41) _ :: r3 => ROk (SP, [SUn UNot [SUn UExists c]], r3)
                    | _ => syn r2
                    end
                | mktok (TKw KExists) _ :: r1 => syn r1
                | _ => syn r
                end
              else syn ts
          | mktok (TKw KExists) _ :: r =>
              if po then
                match r with
                | mktok (TChar 40) _ :: r1 =>
                    let+ (_, c, r2) := p_eop L f 4 false r1 in
                    match r2 with
                    | mktok (TChar 41) _ :: r3 => ROk (SP, [SUn UExists c], r3)
                    | _ => syn r2
                    end
                | _ => syn r
                end
              else syn ts
          | _ => syn ts
          end
      end.
Proof. reflexivity. Qed.

Lemma p_loop_S f (minp : nat) (s : sort) (lhs : chain) (ts : list token) :
  p_loop L (S f) minp s lhs ts =

      match ts with
      | [] => ROk (s, lhs, ts)
      | t :: r =>
          match arith_of_tok (tk t) with
          | Some (op, q) =>
              match s with
              | SP => ROk (s, lhs, ts)      (* no shift: default reductions, the caller rejects the token *)
              | SE =>
                  if (minp <=? q)%nat then
                    let+ (_, rhs, r1) := p_eop L f (S q) false r in
                    p_loop L f minp SE [SBin op lhs rhs] r1
                  else ROk (s, lhs, ts)
              end
          | None =>
          match cmp_of_tok (tk t) with
          | Some op =>
              if (minp <=? 3)%nat then
                match s with
                | SP => ROk (s, lhs, ts)
                | SE =>
                    let+ (_, rhs, r1) := p_eop L f 4 false r in
                    p_loop L f minp SP [SBin op lhs rhs] r1
                end
              else ROk (s, lhs, ts)
          | None =>
          match tk t with
          | TKw KStarts =>
              if (minp <=? 3)%nat then
                match s with
                | SP => ROk (s, lhs, ts)
                | SE =>
                    match r with
                    | mktok (TKw KWith) _ :: mktok TString txt :: r1 =>
                        p_loop L f minp SP [SBin BStartsWith lhs [SStr txt]] r1
                    | mktok (TKw KWith) _ :: mktok TVariable txt :: r1 =>
                        p_loop L f minp SP [SBin BStartsWith lhs [SVar txt]] r1
                    | mktok (TKw KWith) _ :: r1 => syn r1
                    | _ => syn r
                    end
                end
              else ROk (s, lhs, ts)
          | TKw KLikeRegex =>
              if (minp <=? 3)%nat then
                match s with
                | SP => ROk (s, lhs, ts)
                | SE =>
                    match r with
                    | mktok TString pat :: mktok (TKw KFlag) _ :: mktok TString fl :: r1 =>
                        let+ st := new_regex L lhs pat fl in p_loop L f minp SP [st] r1
                    | mktok TString pat :: mktok (TKw KFlag) _ :: r1 => syn r1
                    | mktok TString pat :: mktok (TErr e) _ :: _ => RErr (ELex e)
                    | mktok TString pat :: r1 =>
                        let+ st := new_regex L lhs pat "" in p_loop L f minp SP [st] r1
                    | _ => syn r
                    end
                end
              else ROk (s, lhs, ts)
          | TAnd =>
              if (minp <=? 2)%nat then
                match s with
                | SE => ROk (s, lhs, ts)
                | SP =>
                    let+ (s2, rhs, r1) := p_eop L f 3 true r in
                    match s2 with
                    | SP => p_loop L f minp SP [SBin BAnd lhs rhs] r1
                    | SE => syn r1
                    end
                end
              else ROk (s, lhs, ts)
          | TOr =>
              if (minp <=? 1)%nat then
                match s with
                | SE => ROk (s, lhs, ts)
                | SP =>
                    let+ (s2, rhs, r1) := p_eop L f 2 true r in
                    match s2 with
                    | SP => p_loop L f minp SP [SBin BOr lhs rhs] r1
                    | SE => syn r1
                    end
                end
              else ROk (s, lhs, ts)
          | _ => ROk (s, lhs, ts)
          end end end
      end.
Proof. reflexivity. Qed.

Lemma p_accs_S f (ts : list token) :
  p_accs L (S f) ts =

      match ts with
      | mktok (TChar 46) _ :: r =>
          let+ (st, r1) := p_dot L r in
          let+ (more, r2) := p_accs L f r1 in ROk (st :: more, r2)
      | mktok (TChar 91) _ :: r =>
          let+ (st, r1) :=
             (match r with
              | mktok (TChar 42) _ :: r0 =>
                  match r0 with
                  | mktok (TChar 93) _ :: r1 => ROk (SConst CAnyArray, r1)
                  | _ => syn r0
                  end
              | _ => let+ (subs, r1) := p_index L f r in ROk (SIndex subs, r1)
              end) in
          let+ (more, r2) := p_accs L f r1 in ROk (st :: more, r2)
      | mktok (TChar 63) _ :: r =>
          match r with
          | mktok (TChar 40) _ :: r0 =>
              let+ (s, c, r1) := p_eop L f 0 true r0 in
              match s, r1 with
              | SP, mktok (TChar 41) _ :: r2 =>
                  let+ (more, r3) := p_accs L f r2 in ROk (SUn UFilter c :: more, r3)
              | _, _ => syn r1
              end
          | _ => syn r
          end
      | _ => ROk ([], ts)
      end.
Proof. reflexivity. Qed.

Lemma p_index_S f (ts : list token) :
  p_index L (S f) ts =

      let+ (_, a, r) := p_eop L f 4 false ts in
      let+ (b, r1) :=
         (match r with
          | mktok (TKw KTo) _ :: r0 =>
              let+ (_, b, r1) := p_eop L f 4 false r0 in ROk (Some b, r1)
          | _ => ROk (None, r)
          end) in
      match r1 with
      | mktok (TChar 93) _ :: r2 => ROk ([(a, b)], r2)
      | mktok (TChar 44) _ :: r2 =>
          let+ (more, r3) := p_index L f r2 in ROk ((a, b) :: more, r3)
      | _ => syn r1
      end.
Proof. reflexivity. Qed.

Definition core_spec (f : nat) : Prop :=
  (forall po ts, (3 * length ts + 1 <= f)%nat -> pgood q3 (length ts) (p_unary L f po ts)) /\
  (forall minp po ts, (3 * length ts + 2 <= f)%nat -> pgood q3 (length ts) (p_eop L f minp po ts)) /\
  (forall minp s lhs ts, (3 * length ts + 1 <= f)%nat -> pgood q3 (S (length ts)) (p_loop L f minp s lhs ts)) /\
  (forall ts, (3 * length ts + 1 <= f)%nat -> pgood q2 (S (length ts)) (p_accs L f ts)) /\
  (forall ts, (3 * length ts + 3 <= f)%nat -> pgood q2 (length ts) (p_index L f ts)).

Lemma core_good : forall f, core_spec f.
Proof.
  induction f as [|f [IHu [IHe [IHl [IHa IHi]]]]].
  { unfold core_spec. repeat split; intros; cbn in *; lia. }
  assert (Tl: forall minp s lhs r n, (3 * length r + 1 <= f)%nat -> (length r < n)%nat ->
              pgood q3 n (p_loop L f minp s lhs r)).
  { intros. eapply pgood_weaken; [apply IHl; assumption|lia]. }
  assert (Ta: forall r n, (3 * length r + 1 <= f)%nat -> (length r < n)%nat ->
              pgood q2 n (p_accs L f r)).
  { intros. eapply pgood_weaken; [apply IHa; assumption|lia]. }
  assert (Ti: forall r n, (3 * length r + 3 <= f)%nat -> (length r <= n)%nat ->
              pgood q2 n (p_index L f r)).
  { intros. eapply pgood_weaken; [apply IHi; assumption|lia]. }
  clear IHl.
  Ltac ar := cbn [length q2 q3 fst snd] in *; lia.
  Ltac cstep IHu IHe IHa IHi Tl Ta Ti :=
    first
      [ match goal with
        | |- pgood _ _ (rbind (p_unary _ _ _ _) _) =>
            eapply pgood_bind; [apply IHu; ar|]; intros [[? ?] ?] ?
        | |- pgood _ _ (rbind (p_eop _ _ _ _ _) _) =>
            eapply pgood_bind; [apply IHe; ar|]; intros [[? ?] ?] ?
        | |- pgood _ _ (rbind (p_accs _ _ _) _) =>
            eapply pgood_bind; [apply IHa; ar|]; intros [? ?] ?
        | |- pgood _ _ (rbind (p_index _ _ _) _) =>
            eapply pgood_bind; [apply IHi; ar|]; intros [? ?] ?
        | |- pgood _ _ (rbind (p_dot _ _) _) =>
            eapply pgood_bind; [apply p_dot_good|]; intros [? ?] ?
        | |- pgood _ _ (p_loop _ _ _ _ _ _) => eapply Tl; ar
        | |- pgood _ _ (p_accs _ _ _) => eapply Ta; ar
        | |- pgood _ _ (p_index _ _ _) => eapply Ti; ar
        end
      | pstep3 ].
  unfold core_spec. repeat split.
  - (* p_unary *)
    intros po ts Hf. rewrite p_unary_S.
    destruct (p_primary L ts) as [res|] eqn:Ep.
    + pose proof (p_primary_good ts res Ep) as Hp.
      eapply pgood_bind; [exact Hp|]. intros [st r] H.
      repeat cstep IHu IHe IHa IHi Tl Ta Ti.
    + clear Ep. repeat cstep IHu IHe IHa IHi Tl Ta Ti.
  - (* p_eop *)
    intros minp po ts Hf. rewrite p_eop_S. repeat cstep IHu IHe IHa IHi Tl Ta Ti.
  - (* p_loop *)
    intros minp s lhs ts Hf. rewrite p_loop_S. repeat cstep IHu IHe IHa IHi Tl Ta Ti.
  - (* p_accs *)
    intros ts Hf. rewrite p_accs_S. repeat cstep IHu IHe IHa IHi Tl Ta Ti.
  - (* p_index *)
    intros ts Hf. rewrite p_index_S. repeat cstep IHu IHe IHa IHi Tl Ta Ti.
Qed.

Lemma validate_step_kinds st d b e :
  validate_step st d b = Some e -> e = ECurrentRoot \/ e = ELastSubscript.
Proof.
  revert d b e.
  pose (VC := (fix vc (c : list step) (depth : nat) (insub : bool) {struct c} : option err_kind :=
               match c with
               | [] => None
               | x :: r0 => match validate_step x depth insub with Some e => Some e | None => vc r0 depth insub end
               end)).
  assert (VCE: forall c d b, VC c d b = validate_chain c d b).
  { induction c as [|x r IHc]; intros; cbn; [reflexivity|]. destruct (validate_step x d b); [reflexivity|apply IHc]. }
  induction st using step_ind' with
    (Q := fun c => forall d b e, validate_chain c d b = Some e -> e = ECurrentRoot \/ e = ELastSubscript);
    intros d b e Hv; try discriminate Hv.
  - cbn in Hv. destruct (validate_step st d b) eqn:E; [inversion Hv; subst; eauto|eauto].
  - destruct k; cbn in Hv; try discriminate.
    + destruct d; inversion Hv; auto.
    + destruct b; inversion Hv; auto.
  - cbn [validate_step] in Hv. fold VC in Hv. rewrite !VCE in Hv.
    destruct (validate_chain l d b) eqn:E; [inversion Hv; subst; eauto|eauto].
  - cbn [validate_step] in Hv. fold VC in Hv. rewrite !VCE in Hv. eauto.
  - cbn [validate_step] in Hv. fold VC in Hv. rewrite !VCE in Hv. eauto.
  - cbn [validate_step] in Hv. fold VC in Hv.
    match goal with HF : Forall _ subs |- _ => induction HF as [|[a0 b0] subs0 [Ha Hb] _ IHs] end;
      [discriminate|].
    cbn [fst snd] in *. rewrite !VCE in Hv.
    destruct (validate_chain a0 d true) eqn:E1; [inversion Hv; subst; eauto|].
    destruct b0 as [c0|].
    + rewrite VCE in Hv. destruct (validate_chain c0 d true) eqn:E2; [inversion Hv; subst; eauto|]. apply IHs. exact Hv.
    + apply IHs. exact Hv.
Qed.

Lemma validate_chain_kinds c d b e :
  validate_chain c d b = Some e -> e = ECurrentRoot \/ e = ELastSubscript.
Proof.
  revert d b e. induction c as [|x r IH]; intros d b e H; [discriminate|].
  cbn in H. destruct (validate_step x d b) eqn:E; [inversion H; subst; eapply validate_step_kinds; eauto|eauto].
Qed.

(* C04: the parser's fuel (6 * tokens + 8) is never exhausted *)
Theorem parse_tokens_total ts : parse_tokens L ts <> PErr EFuel.
Proof.
  unfold parse_tokens.
  set (p := match ts with
            | mktok (TKw KStrict) _ :: r => (false, r)
            | mktok (TKw KLax) _ :: r => (true, r)
            | _ => (true, ts)
            end).
  destruct p as [lax ts1].
  destruct (core_good (parser_fuel ts1)) as [_ [He _]].
  specialize (He 0%nat true ts1 ltac:(unfold parser_fuel; lia)).
  destruct (p_eop L (parser_fuel ts1) 0 true ts1) as [[[s c] r]|e]; cbn in He.
  - destruct r as [|[k txt] r'].
    + destruct (validate_chain c 0 false) eqn:V; [|discriminate].
      destruct (validate_chain_kinds _ _ _ _ V); subst; discriminate.
    + destruct k; try (destruct (validate_chain c 0 false) eqn:V;
                        [destruct (validate_chain_kinds _ _ _ _ V); subst; discriminate|discriminate]).
  - congruence.
Qed.

(* ---- provenance of lexer errors: an ELex e result comes from a TErr e token ---- *)
Definition in_err (l : lex_err) (ts : list token) : Prop := exists txt, In (mktok (TErr l) txt) ts.

Definition pinc {A} (proj : A -> list token) (ts : list token) (x : pres A) : Prop :=
  match x with
  | ROk a => incl (proj a) ts
  | RErr (ELex l) => in_err l ts
  | RErr _ => True
  end.

Lemma in_err_incl l r ts : in_err l r -> incl r ts -> in_err l ts.
Proof. intros [txt H] I. exists txt. apply I. exact H. Qed.

Lemma pinc_weaken {A} (proj : A -> list token) r ts x :
  pinc proj r x -> incl r ts -> pinc proj ts x.
Proof.
  destruct x as [a|e]; cbn; intros H I; [eapply incl_tran; eassumption|].
  destruct e; auto. eapply in_err_incl; eassumption.
Qed.

Lemma pinc_bind {A B} (pa : A -> list token) (pb : B -> list token) ts
      (x : pres A) (f : A -> pres B) :
  pinc pa ts x -> (forall a, incl (pa a) ts -> pinc pb ts (f a)) -> pinc pb ts (rbind x f).
Proof. destruct x as [a|e]; cbn; intros H1 H2; [apply H2; exact H1|exact H1]. Qed.

Lemma pinc_syn {A} (proj : A -> list token) r ts : incl r ts -> pinc proj ts (@syn A r).
Proof.
  intros I. unfold syn. destruct r as [|[k txt] r']; cbn; auto.
  destruct k; cbn; auto. exists txt. apply I. left. reflexivity.
Qed.

Lemma pinc_syn_bind {A B} (proj : B -> list token) r ts (f : A -> pres B) :
  incl r ts -> pinc proj ts (rbind (@syn A r) f).
Proof.
  intros I. unfold syn. destruct r as [|[k txt] r']; cbn; auto.
  destruct k; cbn; auto. exists txt. apply I. left. reflexivity.
Qed.

Ltac incl_sat :=
  repeat match goal with
         | H : incl (_ :: ?r) ?T |- _ =>
             lazymatch goal with
             | _ : incl r T |- _ => fail
             | _ => pose proof (proj2 (incl_cons_inv H))
             end
         end.

Ltac incl_solve :=
  cbn [q2 q3 fst snd] in *;
  try assumption;
  incl_sat;
  solve [ assumption
        | auto 12 using incl_refl, incl_tl
        | eapply incl_tran; [eassumption|]; solve [assumption | auto 12 using incl_refl, incl_tl]
        | eapply incl_tran; [eassumption|]; eapply incl_tran; [eassumption|];
          solve [assumption | auto 12 using incl_refl, incl_tl]
        | eapply incl_tran; [eassumption|]; eapply incl_tran; [eassumption|];
          eapply incl_tran; [eassumption|]; solve [assumption | auto 12 using incl_refl, incl_tl] ].

Lemma new_integer_inc {B} (proj : B -> list token) ts txt (f : Z -> pres B) :
  (forall z, pinc proj ts (f z)) -> pinc proj ts (rbind (new_integer L txt) f).
Proof. intros H. unfold new_integer. destruct (parse_int0 L txt); cbn; [apply H|exact I]. Qed.

Lemma new_numeric_inc {B} (proj : B -> list token) ts txt (f : f64 -> pres B) :
  (forall z, pinc proj ts (f z)) -> pinc proj ts (rbind (new_numeric L txt) f).
Proof.
  intros H. unfold new_numeric. destruct (parse_float L txt) as [[v [|]]|]; cbn; try exact I. apply H.
Qed.

Lemma new_regex_inc {B} (proj : B -> list token) ts a pat fl (f : step -> pres B) :
  (forall z, pinc proj ts (f z)) -> pinc proj ts (rbind (new_regex L a pat fl) f).
Proof.
  intros H. unfold new_regex. destruct (regex_flags_loop _ _); cbn; [|exact I].
  repeat match goal with |- context [if ?c then _ else _] => destruct c end; cbn; try exact I. apply H.
Qed.

Ltac istep :=
  match goal with
  | |- pinc _ _ (syn _) => apply pinc_syn; incl_solve
  | |- pinc _ _ (rbind (syn _) _) => apply pinc_syn_bind; incl_solve
  | |- pinc _ _ (RErr (ELex _)) => cbn [pinc]; eexists; first [left; reflexivity|right; left; reflexivity|right; right; left; reflexivity]
  | |- pinc _ _ (RErr _) => exact I
  | |- pinc _ _ (ROk _) => cbn [pinc]; incl_solve
  | |- pinc _ _ (rbind (ROk _) _) => cbn [rbind]
  | |- pinc _ _ (rbind (RErr (ELex _)) _) => cbn [rbind]
  | |- pinc _ _ (rbind (RErr _) _) => exact I
  | |- pinc _ _ (rbind (rbind _ _) _) => rewrite rbind_assoc
  | |- pinc _ _ (rbind (new_integer _ _) _) => apply new_integer_inc; intros ?
  | |- pinc _ _ (rbind (new_numeric _ _) _) => apply new_numeric_inc; intros ?
  | |- pinc _ _ (rbind (new_regex _ _ _ _) _) => apply new_regex_inc; intros ?
  | |- pinc _ _ (rbind (if ?c then _ else _) _) => destruct c
  | |- pinc _ _ (rbind (match ?x with _ => _ end) _) => destruct x
  | |- pinc _ _ (if ?c then _ else _) => destruct c
  | |- pinc _ _ (match ?x with _ => _ end) => destruct x
  end.

Lemma p_any_level_inc ts : pinc q2 ts (p_any_level L ts).
Proof. unfold p_any_level. repeat istep. Qed.

Ltac istep2 :=
  first
    [ match goal with
      | |- pinc _ _ (rbind (p_any_level _ ?r) _) =>
          eapply pinc_bind; [eapply pinc_weaken; [apply p_any_level_inc|incl_solve]|]; intros [? ?] ?
      end
    | istep ].

Lemma p_any_inc ts : pinc q2 ts (p_any L ts).
Proof. unfold p_any. repeat istep2. Qed.

Lemma p_csv_elem_inc ts : pinc q2 ts (p_csv_elem L ts).
Proof. unfold p_csv_elem. repeat istep2. Qed.

Lemma p_csv_rest_inc_n n : forall acc ts, (length ts <= n)%nat -> pinc q2 ts (p_csv_rest L acc ts).
Proof.
  induction n as [|n IH]; intros acc ts Hn.
  - destruct ts; [cbn; exact I|cbn in Hn; lia].
  - destruct ts as [|t r]; [cbn; exact I|].
    cbn [p_csv_rest]. cbn [length] in Hn.
    repeat first
      [ match goal with
        | |- pinc _ _ (p_csv_rest _ _ ?r1) =>
            eapply pinc_weaken; [apply IH; cbn [length] in *; lia|incl_solve]
        end
      | istep2 ].
Qed.

Lemma p_csv_rest_inc acc ts : pinc q2 ts (p_csv_rest L acc ts).
Proof. apply (p_csv_rest_inc_n (length ts)). lia. Qed.

Lemma p_decimal_args_inc ts : pinc q2 ts (p_decimal_args L ts).
Proof.
  unfold p_decimal_args.
  eapply pinc_bind with (pa := @q2 (list Z)).
  - assert (D: pinc q2 ts (let+ (z, r1) := p_csv_elem L ts in p_csv_rest L [z] r1)).
    { eapply pinc_bind; [apply p_csv_elem_inc|]. intros [z r1] H. cbn [q2 snd] in H.
      eapply pinc_weaken; [apply p_csv_rest_inc|exact H]. }
    destruct ts as [|t r]; [exact D|].
    destruct t as [k txt]. destruct k; try exact D.
    destruct c; try exact D.
    repeat (match goal with |- context [match ?p with _ => _ end] =>
              match type of p with positive => destruct p; try exact D end end).
    cbn. incl_solve.
  - intros [args r] H. cbn [q2 snd] in H.
    destruct args as [|a [|b [|c l]]]; cbn; auto.
Qed.

Lemma p_dot_inc ts : pinc q2 ts (p_dot L ts).
Proof.
  unfold p_dot.
  repeat first
    [ match goal with
      | |- pinc _ _ (p_any _ ?r) => eapply pinc_weaken; [apply p_any_inc|incl_solve]
      | |- pinc _ _ (p_decimal_args _ ?r) => eapply pinc_weaken; [apply p_decimal_args_inc|incl_solve]
      end
    | istep2 ].
Qed.

Lemma p_primary_inc ts res : p_primary L ts = Some res -> pinc q2 ts res.
Proof.
  unfold p_primary. intros H.
  repeat match type of H with
         | match ?x with _ => _ end = _ => destruct x; try discriminate
         end.
  all: inversion H; subst; clear H; repeat istep2.
Qed.

Definition core_inc (f : nat) : Prop :=
  (forall po ts, pinc q3 ts (p_unary L f po ts)) /\
  (forall minp po ts, pinc q3 ts (p_eop L f minp po ts)) /\
  (forall minp s lhs ts, pinc q3 ts (p_loop L f minp s lhs ts)) /\
  (forall ts, pinc q2 ts (p_accs L f ts)) /\
  (forall ts, pinc q2 ts (p_index L f ts)).

Lemma core_inc_all : forall f, core_inc f.
Proof.
  induction f as [|f [IHu [IHe [IHl [IHa IHi]]]]].
  { unfold core_inc. repeat split; intros; cbn; exact I. }
  Ltac kstep IHu IHe IHl IHa IHi :=
    first
      [ match goal with
        | |- pinc _ _ (rbind (p_unary _ _ _ _) _) =>
            eapply pinc_bind; [eapply pinc_weaken; [apply IHu|incl_solve]|]; intros [[? ?] ?] ?
        | |- pinc _ _ (rbind (p_eop _ _ _ _ _) _) =>
            eapply pinc_bind; [eapply pinc_weaken; [apply IHe|incl_solve]|]; intros [[? ?] ?] ?
        | |- pinc _ _ (rbind (p_accs _ _ _) _) =>
            eapply pinc_bind; [eapply pinc_weaken; [apply IHa|incl_solve]|]; intros [? ?] ?
        | |- pinc _ _ (rbind (p_index _ _ _) _) =>
            eapply pinc_bind; [eapply pinc_weaken; [apply IHi|incl_solve]|]; intros [? ?] ?
        | |- pinc _ _ (rbind (p_dot _ _) _) =>
            eapply pinc_bind; [eapply pinc_weaken; [apply p_dot_inc|incl_solve]|]; intros [? ?] ?
        | |- pinc _ _ (p_loop _ _ _ _ _ _) => eapply pinc_weaken; [apply IHl|incl_solve]
        | |- pinc _ _ (p_accs _ _ _) => eapply pinc_weaken; [apply IHa|incl_solve]
        | |- pinc _ _ (p_index _ _ _) => eapply pinc_weaken; [apply IHi|incl_solve]
        end
      | istep2 ].
  unfold core_inc. repeat split.
  - intros po ts. rewrite p_unary_S.
    destruct (p_primary L ts) as [res|] eqn:Ep.
    + pose proof (p_primary_inc ts res Ep) as Hp.
      eapply pinc_bind; [exact Hp|]. intros [st r] H.
      repeat kstep IHu IHe IHl IHa IHi.
    + clear Ep. repeat kstep IHu IHe IHl IHa IHi.
  - intros minp po ts. rewrite p_eop_S. repeat kstep IHu IHe IHl IHa IHi.
  - intros minp s lhs ts. rewrite p_loop_S. repeat kstep IHu IHe IHl IHa IHi.
  - intros ts. rewrite p_accs_S. repeat kstep IHu IHe IHl IHa IHi.
  - intros ts. rewrite p_index_S. repeat kstep IHu IHe IHl IHa IHi.
Qed.

Lemma parse_tokens_lex_err ts l : parse_tokens L ts = PErr (ELex l) -> in_err l ts.
Proof.
  unfold parse_tokens.
  set (p := match ts with
            | mktok (TKw KStrict) _ :: r => (false, r)
            | mktok (TKw KLax) _ :: r => (true, r)
            | _ => (true, ts)
            end).
  assert (Hp: incl (snd p) ts).
  { subst p. destruct ts as [|[k txt] r]; [apply incl_refl|].
    destruct k; try apply incl_refl. destruct k; try apply incl_refl; cbn; apply incl_tl, incl_refl. }
  destruct p as [lax ts1]. cbn [snd] in Hp.
  destruct (core_inc_all (parser_fuel ts1)) as [_ [He _]].
  specialize (He 0%nat true ts1).
  destruct (p_eop L (parser_fuel ts1) 0 true ts1) as [[[s c] r]|e]; cbn in He.
  - destruct r as [|[k txt] r'].
    + destruct (validate_chain c 0 false) eqn:V; [|discriminate].
      destruct (validate_chain_kinds _ _ _ _ V); subst; discriminate.
    + destruct k; try (destruct (validate_chain c 0 false) eqn:V;
                        [destruct (validate_chain_kinds _ _ _ _ V); subst; discriminate|discriminate]).
      intros H. inversion H; subst. exists txt. apply Hp, He. left. reflexivity.
  - intros H. inversion H; subst. eapply in_err_incl; eassumption.
Qed.

(* C04: Parse is total.  [parse L s] is a path or an error, and neither the
   lexer's nor the parser's fuel is ever exhausted, for every oracle record L
   (no Laws needed) and every byte string s. *)
Theorem parse_never_out_of_fuel s :
  parse L s <> PErr EFuel /\ parse L s <> PErr (ELex EOutOfFuel).
Proof.
  unfold parse. split; [apply parse_tokens_total|].
  intros H. apply parse_tokens_lex_err in H. destruct H as [txt H].
  apply (lex_total L s). exists txt. exact H.
Qed.

Theorem parse_total s :
  (exists p, parse L s = POk p) \/
  (exists k, parse L s = PErr k /\ k <> EFuel /\ k <> ELex EOutOfFuel).
Proof.
  destruct (parse_never_out_of_fuel s) as [A B].
  destruct (parse L s) as [p|k] eqn:E; [left; eauto|right].
  exists k. repeat split; congruence.
Qed.
End L.

Print Assumptions parse_total.

(* ---- the wrappers of path.go (C04: "returns a path xor an error") ---- *)
Section API.
Variable L : GoLib.

Theorem must_parse_panics_iff s :
  (exists w, must_parse L s = Panic w) <-> (exists k, parse L s = PErr k).
Proof.
  unfold must_parse. destruct (parse L s) as [p|k]; split; intros [x H]; try discriminate; eauto.
Qed.

Theorem must_parse_ret_iff s p : must_parse L s = Ret p <-> parse L s = POk p.
Proof.
  unfold must_parse. destruct (parse L s) as [q|k]; split; intros H; inversion H; subst; auto; discriminate.
Qed.

Theorem must_parse_never_out_of_fuel s : must_parse L s <> OutOfFuel.
Proof. unfold must_parse. destruct (parse L s); discriminate. Qed.

(* path.Parse: ErrPath wrapping the parser's error, and only that *)
Theorem parse_api_err s e :
  parse_api L s = inr e <-> exists k, parse L s = PErr k /\ e = ApiPathParse k.
Proof.
  unfold parse_api. destruct (parse L s) as [p|k]; split.
  - discriminate.
  - intros [k [H _]]. discriminate.
  - intros H. inversion H. eauto.
  - intros [k' [H ->]]. inversion H. reflexivity.
Qed.

Theorem parse_api_ok s p : parse_api L s = inl p <-> parse L s = POk p.
Proof.
  unfold parse_api. destruct (parse L s) as [q|k]; split; intros H; inversion H; subst; auto; discriminate.
Qed.

(* Scan: nil and the empty string / empty []byte leave the receiver alone;
   anything else is parsed, a failure is ErrScan wrapping the parser error;
   other source types are ErrScan without a parser error. *)
Theorem scan_nil cur : scan L cur SrcNil = inl cur.
Proof. reflexivity. Qed.
Theorem scan_empty cur : scan L cur (SrcString "") = inl cur /\ scan L cur (SrcBytes "") = inl cur.
Proof. split; reflexivity. Qed.
Theorem scan_bytes_as_string cur s : scan L cur (SrcBytes s) = scan L cur (SrcString s).
Proof. reflexivity. Qed.
Theorem scan_nonempty cur s :
  s <> EmptyString ->
  scan L cur (SrcString s) =
    match parse L s with POk p => inl (Some p) | PErr k => inr (ApiScanParse k) end.
Proof. intros H. destruct s; [congruence|reflexivity]. Qed.
Theorem scan_err_class cur src e :
  scan L cur src = inr e -> is_err_scan e = true /\ is_err_path e = false /\
    (forall k, wraps_parse e = Some k -> exists s, (src = SrcString s \/ src = SrcBytes s) /\ parse L s = PErr k).
Proof.
  destruct src as [|s|s|]; cbn; intros H; try discriminate.
  - destruct s; [discriminate|]. destruct (parse L (String a s)) eqn:E; inversion H; subst.
    repeat split; auto. intros k0 K. inversion K; subst. eauto.
  - destruct s; [discriminate|]. destruct (parse L (String a s)) eqn:E; inversion H; subst.
    repeat split; auto. intros k0 K. inversion K; subst. eauto.
  - inversion H; subst. repeat split; auto. intros k K. discriminate.
Qed.

Theorem unmarshal_mirror data :
  unmarshal_text L data = unmarshal_binary L data /\
  unmarshal_binary L data =
    match parse L data with POk p => inl p | PErr k => inr (ApiScanParse k) end.
Proof. split; reflexivity. Qed.

Theorem marshal_is_string p :
  marshal_text L p = print_path L p /\ marshal_binary L p = print_path L p /\ value L p = print_path L p.
Proof. repeat split; reflexivity. Qed.

Theorem pg_index_operator_spec p :
  pg_index_operator p = (if p_pred p then "@@" else "@?")%string.
Proof. reflexivity. Qed.
End API.
