(* Mono.v — monotonicity of the fuelled executor in its fuel.

   [body] is monotone in [self] for the order "agrees wherever the smaller one
   is not OutOfFuel"; hence more fuel never changes a result that was already
   obtained (a returned value or a panic).  Stdlib only, no axioms. *)
From SJ Require Import lib.Base model.Json model.Ast model.ExecLib model.Leaf model.Exec proofs.RunBasics.

Definition ole {A} (x y : outcome A) : Prop := x = OutOfFuel \/ x = y.

Lemma ole_refl {A} (x : outcome A) : ole x x.
Proof. right; reflexivity. Qed.

Lemma ole_bind {A B} (x y : outcome A) (f g : A -> outcome B) :
  ole x y -> (forall a, ole (f a) (g a)) -> ole (bindo x f) (bindo y g).
Proof.
  intros [->| ->] H; [left; reflexivity|].
  destruct y; cbn [bindo]; auto using ole_refl.
Qed.

Section Mono.
Variable L : ExecLib.
Variable E : env.
Variables f g : req -> st -> outcome (ans * st).
Hypothesis Hfg : forall q s, ole (f q s) (g q s).

Create HintDb mono discriminated.

Ltac mono1 :=
  first
    [ apply ole_refl
    | apply Hfg
    | match goal with H : context [ole] |- _ => apply H end
    | solve [auto 1 with mono nocore]
    | apply ole_bind; [|intros ?; cbv beta iota]
    | match goal with
      | |- ole (match ?x with _ => _ end) (match ?x with _ => _ end) => destruct x
      | |- ole (if ?x then _ else _) (if ?x then _ else _) => destruct x
      | |- ole (match ?x with _ => _ end _) (match ?x with _ => _ end _) => destruct x
      | |- ole (if ?x then _ else _) _ => destruct x
      | |- ole (match ?x with _ => _ end) _ => destruct x
      | |- ole (match ?x with _ => _ end _) _ => destruct x
      end
    | progress cbv beta iota ].
Ltac mono := repeat mono1.

Lemma callItem_mono n v found u s : ole (callItem f n v found u s) (callItem g n v found u s).
Proof. unfold callItem. mono. Qed.
Lemma callAny_mono n vs found lv fi la ig un s :
  ole (callAny f n vs found lv fi la ig un s) (callAny g n vs found lv fi la ig un s).
Proof. unfold callAny. mono. Qed.
Lemma callBool_mono n v c s : ole (callBool f n v c s) (callBool g n v c s).
Proof. unfold callBool. mono. Qed.
Hint Resolve callItem_mono callAny_mono callBool_mono : mono.

Lemma executeItem_mono n v found s : ole (executeItem E f n v found s) (executeItem E g n v found s).
Proof. unfold executeItem. mono. Qed.
Hint Resolve executeItem_mono : mono.

Lemma executeNextItem_mono next v found s :
  ole (executeNextItem E f next v found s) (executeNextItem E g next v found s).
Proof. unfold executeNextItem. mono. Qed.
Hint Resolve executeNextItem_mono : mono.

Lemma executeItemOptUnwrapResult_mono n v u found s :
  ole (executeItemOptUnwrapResult E f n v u found s) (executeItemOptUnwrapResult E g n v u found s).
Proof. unfold executeItemOptUnwrapResult. mono. Qed.
Hint Resolve executeItemOptUnwrapResult_mono : mono.

Lemma executeItemOptUnwrapResultSilent_mono n v u found s :
  ole (executeItemOptUnwrapResultSilent E f n v u found s) (executeItemOptUnwrapResultSilent E g n v u found s).
Proof. unfold executeItemOptUnwrapResultSilent. mono. Qed.
Hint Resolve executeItemOptUnwrapResultSilent_mono : mono.

Lemma executePredicate_mono l r v u cb s :
  ole (executePredicate E f l r v u cb s) (executePredicate E g l r v u cb s).
Proof. unfold executePredicate. mono. Qed.
Hint Resolve executePredicate_mono : mono.

Lemma executeBinaryBoolItem_mono op l r v s :
  ole (executeBinaryBoolItem L E f op l r v s) (executeBinaryBoolItem L E g op l r v s).
Proof. unfold executeBinaryBoolItem. destruct op; mono. Qed.
Hint Resolve executeBinaryBoolItem_mono : mono.

Lemma executeUnaryBoolItem_mono op a v s :
  ole (executeUnaryBoolItem E f op a v s) (executeUnaryBoolItem E g op a v s).
Proof. unfold executeUnaryBoolItem. destruct op; mono. Qed.
Hint Resolve executeUnaryBoolItem_mono : mono.

Lemma executeBoolItem_mono n v c s :
  ole (executeBoolItem L E f n v c s) (executeBoolItem L E g n v c s).
Proof. unfold executeBoolItem. mono. Qed.
Hint Resolve executeBoolItem_mono : mono.

Lemma appendBoolResult_mono next found p s :
  ole (appendBoolResult E f next found p s) (appendBoolResult E g next found p s).
Proof. unfold appendBoolResult. mono. Qed.
Hint Resolve appendBoolResult_mono : mono.

Lemma executeNestedBoolItem_mono n v s :
  ole (executeNestedBoolItem f n v s) (executeNestedBoolItem g n v s).
Proof. unfold executeNestedBoolItem. mono. Qed.
Hint Resolve executeNestedBoolItem_mono : mono.

Lemma anyLoop_mono n lv fi la ig un vs : forall res dirty s,
  ole (anyLoop L f n vs lv fi la ig un res dirty s) (anyLoop L g n vs lv fi la ig un res dirty s).
Proof. induction vs as [|v rest IH]; intros res dirty s; cbn [anyLoop]; mono. Qed.
Hint Resolve anyLoop_mono : mono.

Lemma executeAnyItem_mono n vs found lv fi la ig un s :
  ole (executeAnyItem L f n vs found lv fi la ig un s) (executeAnyItem L g n vs found lv fi la ig un s).
Proof. unfold executeAnyItem. mono. Qed.
Hint Resolve executeAnyItem_mono : mono.

Lemma executeItemUnwrapTargetArray_mono n v found s :
  ole (executeItemUnwrapTargetArray f n v found s) (executeItemUnwrapTargetArray g n v found s).
Proof. unfold executeItemUnwrapTargetArray. mono. Qed.
Hint Resolve executeItemUnwrapTargetArray_mono : mono.

Lemma execLiteral_mono next v found s : ole (execLiteral E f next v found s) (execLiteral E g next v found s).
Proof. unfold execLiteral. mono. Qed.
Hint Resolve execLiteral_mono : mono.

Lemma execVariable_mono name next found s :
  ole (execVariable E f name next found s) (execVariable E g name next found s).
Proof. unfold execVariable. mono. Qed.
Hint Resolve execVariable_mono : mono.

Lemma execKeyNode_mono key n next v found u s :
  ole (execKeyNode E f key n next v found u s) (execKeyNode E g key n next v found u s).
Proof. unfold execKeyNode. mono. Qed.
Hint Resolve execKeyNode_mono : mono.

Lemma execAnyKey_mono n next v found u s :
  ole (execAnyKey L E f n next v found u s) (execAnyKey L E g n next v found u s).
Proof. unfold execAnyKey. mono. Qed.
Hint Resolve execAnyKey_mono : mono.

Lemma execAnyArray_mono next v found s :
  ole (execAnyArray E f next v found s) (execAnyArray E g next v found s).
Proof. unfold execAnyArray. mono. Qed.
Hint Resolve execAnyArray_mono : mono.

Lemma execLastConst_mono next found s :
  ole (execLastConst E f next found s) (execLastConst E g next found s).
Proof. unfold execLastConst. mono. Qed.
Hint Resolve execLastConst_mono : mono.

Lemma execConstNode_mono k n next v found u s :
  ole (execConstNode L E f k n next v found u s) (execConstNode L E g k n next v found u s).
Proof. unfold execConstNode. destruct k; mono. Qed.
Hint Resolve execConstNode_mono : mono.

Lemma execAnyNode_mono fi la next v found s :
  ole (execAnyNode L E f fi la next v found s) (execAnyNode L E g fi la next v found s).
Proof. unfold execAnyNode. mono. Qed.
Hint Resolve execAnyNode_mono : mono.

Lemma getArrayIndex_mono n v s : ole (getArrayIndex L E f n v s) (getArrayIndex L E g n v s).
Proof. unfold getArrayIndex. mono. Qed.
Hint Resolve getArrayIndex_mono : mono.

Lemma execSubscript_mono sub v size s :
  ole (execSubscript L E f sub v size s) (execSubscript L E g sub v size s).
Proof. unfold execSubscript. mono. Qed.
Hint Resolve execSubscript_mono : mono.

Lemma indexLoop_mono next els : forall res s,
  ole (indexLoop E f next els res s) (indexLoop E g next els res s).
Proof. induction els as [|v rest IH]; intros res s; cbn [indexLoop]; mono. Qed.
Hint Resolve indexLoop_mono : mono.

Lemma subsLoop_mono next v arr size subs : forall res s,
  ole (subsLoop L E f subs next v arr size res s) (subsLoop L E g subs next v arr size res s).
Proof. induction subs as [|sub rest IH]; intros res s; cbn [subsLoop]; mono. Qed.
Hint Resolve subsLoop_mono : mono.

Lemma execArrayIndex_mono subs next v found s :
  ole (execArrayIndex L E f subs next v found s) (execArrayIndex L E g subs next v found s).
Proof. unfold execArrayIndex. mono. Qed.
Hint Resolve execArrayIndex_mono : mono.

Lemma unaryLoop_mono minus next seq : forall found res s,
  ole (unaryLoop L E f minus next seq found res s) (unaryLoop L E g minus next seq found res s).
Proof. induction seq as [|v rest IH]; intros found res s; cbn [unaryLoop]; mono. Qed.
Hint Resolve unaryLoop_mono : mono.

Lemma execUnaryMathExpr_mono minus a next v found s :
  ole (execUnaryMathExpr L E f minus a next v found s) (execUnaryMathExpr L E g minus a next v found s).
Proof. unfold execUnaryMathExpr. mono. Qed.
Hint Resolve execUnaryMathExpr_mono : mono.

Lemma execBinaryMathExpr_mono op l r next v found s :
  ole (execBinaryMathExpr L E f op l r next v found s) (execBinaryMathExpr L E g op l r next v found s).
Proof. unfold execBinaryMathExpr. mono. Qed.
Hint Resolve execBinaryMathExpr_mono : mono.

Lemma execLeaf_mono uw lf n next v found u s :
  ole (execLeaf E f uw lf n next v found u s) (execLeaf E g uw lf n next v found u s).
Proof. unfold execLeaf. mono. Qed.
Hint Resolve execLeaf_mono : mono.

Lemma kvLoop_mono members id next keys : forall res s,
  ole (kvLoop E f keys members id next res s) (kvLoop E g keys members id next res s).
Proof. induction keys as [|k rest IH]; intros res s; cbn [kvLoop]; mono. Qed.
Hint Resolve kvLoop_mono : mono.

Lemma executeKeyValueMethod_mono n next v found u s :
  ole (executeKeyValueMethod E f n next v found u s) (executeKeyValueMethod E g n next v found u s).
Proof. unfold executeKeyValueMethod. mono. Qed.
Hint Resolve executeKeyValueMethod_mono : mono.

Lemma execMethodNode_mono m n next v found u s :
  ole (execMethodNode L E f m n next v found u s) (execMethodNode L E g m n next v found u s).
Proof. unfold execMethodNode. mono. Qed.
Hint Resolve execMethodNode_mono : mono.

Lemma execBoolNode_mono n next v found s :
  ole (execBoolNode E f n next v found s) (execBoolNode E g n next v found s).
Proof. unfold execBoolNode. mono. Qed.
Hint Resolve execBoolNode_mono : mono.

Lemma execBinaryNode_mono op l r n next v found s :
  ole (execBinaryNode L E f op l r n next v found s) (execBinaryNode L E g op l r n next v found s).
Proof. unfold execBinaryNode. mono. Qed.
Hint Resolve execBinaryNode_mono : mono.

Lemma execUnaryNode_mono op a n next v found u s :
  ole (execUnaryNode L E f op a n next v found u s) (execUnaryNode L E g op a n next v found u s).
Proof. unfold execUnaryNode. destruct op; mono. Qed.
Hint Resolve execUnaryNode_mono : mono.

Lemma executeItemOptUnwrapTarget_mono n v found u s :
  ole (executeItemOptUnwrapTarget L E f n v found u s) (executeItemOptUnwrapTarget L E g n v found u s).
Proof. unfold executeItemOptUnwrapTarget. mono. Qed.
Hint Resolve executeItemOptUnwrapTarget_mono : mono.

Lemma body_mono q s : ole (body L E f q s) (body L E g q s).
Proof. unfold body. destruct q; mono. Qed.

End Mono.

Lemma run_ole L E : forall k k', (k <= k')%nat -> forall q s, ole (run L E k q s) (run L E k' q s).
Proof.
  induction k as [|k IH]; intros k' Hk q s.
  - left; reflexivity.
  - destruct k' as [|k']; [lia|].
    rewrite !run_S. apply body_mono. intros q' s'. apply IH. lia.
Qed.

(* Deliverable 1 *)
Theorem run_mono L E k k' r s x :
  (k <= k')%nat -> run L E k r s = Ret x -> run L E k' r s = Ret x.
Proof.
  intros Hk H. destruct (run_ole L E k k' Hk r s) as [H0|H0]; congruence.
Qed.

Theorem run_mono_panic L E k k' r s w :
  (k <= k')%nat -> run L E k r s = Panic w -> run L E k' r s = Panic w.
Proof.
  intros Hk H. destruct (run_ole L E k k' Hk r s) as [H0|H0]; congruence.
Qed.

(* the same for [query] and the entry points *)
Lemma query_ole L k k' p doc o vals :
  (k <= k')%nat -> ole (query L k p doc o vals) (query L k' p doc o vals).
Proof.
  intros Hk. unfold query.
  assert (H: forall n v found s,
             ole (executeItem (mkEnv p doc o) (run L (mkEnv p doc o) k) n v found s)
                 (executeItem (mkEnv p doc o) (run L (mkEnv p doc o) k') n v found s)).
  { intros. apply executeItem_mono. intros q s'. apply run_ole. exact Hk. }
  destruct (negb (p_lax p) && fnil vals).
  - apply ole_bind; [apply H|]. intros a. apply ole_refl.
  - apply H.
Qed.

Lemma Query_ole L k k' p doc o : (k <= k')%nat -> ole (Query L k p doc o) (Query L k' p doc o).
Proof. intros Hk. unfold Query. apply ole_bind; [apply query_ole; exact Hk|]. intros a; apply ole_refl. Qed.
Lemma First_ole L k k' p doc o : (k <= k')%nat -> ole (First L k p doc o) (First L k' p doc o).
Proof. intros Hk. unfold First. apply ole_bind; [apply query_ole; exact Hk|]. intros a; apply ole_refl. Qed.
Lemma Exists_ole L k k' p doc o : (k <= k')%nat -> ole (Exists L k p doc o) (Exists L k' p doc o).
Proof. intros Hk. unfold Exists. apply ole_bind; [apply query_ole; exact Hk|]. intros a; apply ole_refl. Qed.
Lemma Match_ole L k k' p doc o : (k <= k')%nat -> ole (Match L k p doc o) (Match L k' p doc o).
Proof. intros Hk. unfold Match. apply ole_bind; [apply query_ole; exact Hk|]. intros a; apply ole_refl. Qed.
Lemma ExistsOrMatch_ole L k k' p doc o :
  (k <= k')%nat -> ole (ExistsOrMatch L k p doc o) (ExistsOrMatch L k' p doc o).
Proof. intros Hk. unfold ExistsOrMatch. destruct (p_pred p); [apply Match_ole|apply Exists_ole]; exact Hk. Qed.

Print Assumptions run_mono.
Print Assumptions run_mono_panic.
Print Assumptions ExistsOrMatch_ole.
