(* LeafLaws.v — what the leaf theorems (C12, C13, C16) assume about the oracle
   fields of an [ExecLib], collected in the records [NumLaws] and [DtLaws], and
   the proof that the concrete instance of extract/Instance.v satisfies them
   ([numlaws_concrete]).

   Part 1: the order [fcmp] = [SFcompare] on non-NaN floats is a total
           preorder — proved from SFcompare's definition through an explicit
           lexicographic key; no reals, no axioms.
   Part 2: the law records.
   Part 3: the concrete instance: seven of the eight NumLaws fields are proved
           of lib/F64.v + lib/Strconv.v (using proofs/F64Laws.v); the eighth,
           Go's float formatting round trip, is the explicit hypothesis
           [StrconvTrusted] (trusted about lib/Strconv.v, validated by 104,865
           vectors against Go, and tested by a sweep here).  [numlaws_satisfiable]
           shows that NumLaws has a model without any hypothesis. *)
From Coq Require Import ZArith Bool List Lia ZifyBool String Ascii.
From Coq Require Import Floats.SpecFloat.
From SJ Require Import lib.Base lib.F64 lib.Strconv model.Json model.Ast model.ExecLib model.Leaf
  model.GoTime model.DateTime extract.Instance proofs.F64Laws.

Local Open Scope Z_scope.

(* ================================================================== *)
(* Part 1.  fcmp is a total preorder on the non-NaN floats              *)
(* ================================================================== *)

Definition notnan (f : f64) : Prop := f_is_nan f = false.

(* lexicographic comparison of integer triples *)
Definition lexc (a b : Z * Z * Z) : comparison :=
  let '(a1, a2, a3) := a in
  let '(b1, b2, b3) := b in
  match a1 ?= b1 with
  | Eq => match a2 ?= b2 with Eq => a3 ?= b3 | c => c end
  | c => c
  end.

Definition lexlt (a b : Z * Z * Z) : Prop :=
  let '(a1, a2, a3) := a in
  let '(b1, b2, b3) := b in
  a1 < b1 \/ (a1 = b1 /\ (a2 < b2 \/ (a2 = b2 /\ a3 < b3))).

Lemma lexc_lt a b : lexc a b = Lt <-> lexlt a b.
Proof.
  destruct a as [[a1 a2] a3], b as [[b1 b2] b3]; cbn.
  destruct (Z.compare_spec a1 b1), (Z.compare_spec a2 b2), (Z.compare_spec a3 b3);
    split; intros Hyp; try discriminate Hyp; try reflexivity; lia.
Qed.
Lemma lexc_gt a b : lexc a b = Gt <-> lexlt b a.
Proof.
  destruct a as [[a1 a2] a3], b as [[b1 b2] b3]; cbn.
  destruct (Z.compare_spec a1 b1), (Z.compare_spec a2 b2), (Z.compare_spec a3 b3);
    split; intros Hyp; try discriminate Hyp; try reflexivity; lia.
Qed.
Lemma lexc_eq a b : lexc a b = Eq <-> a = b.
Proof.
  destruct a as [[a1 a2] a3], b as [[b1 b2] b3]; cbn.
  destruct (Z.compare_spec a1 b1), (Z.compare_spec a2 b2), (Z.compare_spec a3 b3);
    split; intros Hyp; try discriminate Hyp; try reflexivity;
    try (injection Hyp; intros; lia); subst; reflexivity.
Qed.
Lemma lexc_antisym a b : lexc b a = CompOpp (lexc a b).
Proof.
  destruct a as [[a1 a2] a3], b as [[b1 b2] b3]; cbn.
  rewrite (Z.compare_antisym a1 b1), (Z.compare_antisym a2 b2), (Z.compare_antisym a3 b3).
  destruct (a1 ?= b1), (a2 ?= b2), (a3 ?= b3); reflexivity.
Qed.
Lemma lexlt_trans a b c : lexlt a b -> lexlt b c -> lexlt a c.
Proof.
  destruct a as [[a1 a2] a3], b as [[b1 b2] b3], c as [[c1 c2] c3]; cbn; lia.
Qed.
Lemma lexlt_irrefl a : ~ lexlt a a.
Proof. destruct a as [[a1 a2] a3]; cbn; lia. Qed.

(* The key: class (−inf, negative, zero, positive, +inf), then exponent, then
   mantissa — both negated for negative numbers. *)
Definition fkey (f : f64) : Z * Z * Z :=
  match f with
  | S754_infinity true => (-2, 0, 0)
  | S754_finite true m e => (-1, - e, Zneg m)
  | S754_zero _ => (0, 0, 0)
  | S754_nan => (0, 0, 0)
  | S754_finite false m e => (1, e, Zpos m)
  | S754_infinity false => (2, 0, 0)
  end.

Lemma fcmp_key a b : notnan a -> notnan b -> fcmp a b = Some (lexc (fkey a) (fkey b)).
Proof.
  unfold notnan, fcmp.
  destruct a as [sa|sa| |sa ma ea], b as [sb|sb| |sb mb eb]; cbn [f_is_nan]; intros Ha Hb;
    try discriminate; try (destruct sa; try destruct sb; reflexivity);
    try (destruct sb; reflexivity).
  destruct sa, sb; try reflexivity; cbn [SFcompare fkey lexc]; f_equal.
  (* both negative (the other three sign combinations compute) *)
  change (-1 ?= -1) with Eq. cbv iota.
  rewrite Z.compare_opp, (Z.compare_antisym ea eb).
  destruct (ea ?= eb); reflexivity.
Qed.

Lemma fcmp_notnan a b c : fcmp a b = Some c -> notnan a /\ notnan b.
Proof.
  unfold fcmp, notnan. destruct a as [sa|sa| |sa ma ea], b as [sb|sb| |sb mb eb]; cbn;
    intros H; try discriminate H; split; reflexivity.
Qed.

Lemma fcmp_nan_l b : fcmp S754_nan b = None.
Proof. reflexivity. Qed.
Lemma fcmp_nan_r a : fcmp a S754_nan = None.
Proof. destruct a; reflexivity. Qed.

Lemma fcmp_total a b : notnan a -> notnan b -> exists c, fcmp a b = Some c.
Proof. intros Ha Hb. rewrite fcmp_key by assumption. eauto. Qed.

Lemma fcmp_refl a : notnan a -> fcmp a a = Some Eq.
Proof. intros Ha. rewrite fcmp_key by assumption. f_equal. apply lexc_eq. reflexivity. Qed.

Lemma fcmp_antisym a b c : fcmp a b = Some c -> fcmp b a = Some (CompOpp c).
Proof.
  intros H. destruct (fcmp_notnan _ _ _ H) as [Ha Hb].
  rewrite (fcmp_key a b) in H by assumption. rewrite (fcmp_key b a) by assumption.
  injection H as <-. f_equal. apply lexc_antisym.
Qed.

Lemma fcmp_lt_trans a b c : fcmp a b = Some Lt -> fcmp b c = Some Lt -> fcmp a c = Some Lt.
Proof.
  intros H1 H2. destruct (fcmp_notnan _ _ _ H1) as [Ha Hb]. destruct (fcmp_notnan _ _ _ H2) as [_ Hc].
  rewrite (fcmp_key a b) in H1 by assumption. rewrite (fcmp_key b c) in H2 by assumption.
  rewrite (fcmp_key a c) by assumption. injection H1 as H1. injection H2 as H2. f_equal.
  apply lexc_lt. apply lexc_lt in H1, H2. eapply lexlt_trans; eassumption.
Qed.

Lemma fcmp_eq_l a b c : fcmp a b = Some Eq -> notnan c -> fcmp a c = fcmp b c.
Proof.
  intros H Hc. destruct (fcmp_notnan _ _ _ H) as [Ha Hb].
  rewrite (fcmp_key a b) in H by assumption. rewrite (fcmp_key a c), (fcmp_key b c) by assumption.
  injection H as H. apply lexc_eq in H. rewrite H. reflexivity.
Qed.

Lemma fcmp_eq_r a b c : fcmp a b = Some Eq -> notnan c -> fcmp c a = fcmp c b.
Proof.
  intros H Hc. destruct (fcmp_notnan _ _ _ H) as [Ha Hb].
  rewrite (fcmp_key a b) in H by assumption. rewrite (fcmp_key c a), (fcmp_key c b) by assumption.
  injection H as H. apply lexc_eq in H. rewrite H. reflexivity.
Qed.

Lemma fcmp_eq_trans a b c : fcmp a b = Some Eq -> fcmp b c = Some Eq -> fcmp a c = Some Eq.
Proof.
  intros H1 H2. destruct (fcmp_notnan _ _ _ H2) as [_ Hc].
  rewrite (fcmp_eq_l _ _ _ H1 Hc). exact H2.
Qed.

(* The general transitivity statement: x <= y <= z, strict if one step is. *)
Definition cle (c : comparison) : Prop := c <> Gt.
Lemma fcmp_le_trans a b c x y :
  fcmp a b = Some x -> fcmp b c = Some y -> cle x -> cle y ->
  exists z, fcmp a c = Some z /\ cle z /\ (x = Lt \/ y = Lt -> z = Lt).
Proof.
  intros H1 H2 Hx Hy.
  destruct (fcmp_notnan _ _ _ H1) as [Ha Hb]. destruct (fcmp_notnan _ _ _ H2) as [_ Hc].
  destruct x; [| |exfalso; apply Hx; reflexivity]; (destruct y; [| |exfalso; apply Hy; reflexivity]).
  - exists Eq. rewrite (fcmp_eq_trans _ _ _ H1 H2). repeat split; [discriminate|intros [E|E]; discriminate E].
  - exists Lt. rewrite (fcmp_eq_l _ _ _ H1 Hc), H2. repeat split; discriminate.
  - exists Lt. rewrite <- (fcmp_eq_r _ _ _ H2 Ha), H1. repeat split; discriminate.
  - exists Lt. rewrite (fcmp_lt_trans _ _ _ H1 H2). repeat split; discriminate.
Qed.

(* the three Go-level tests are mutually exclusive and exhaustive on non-NaN values *)
Lemma f_tests_trichotomy a b : notnan a -> notnan b ->
  (f_ltb a b = true /\ f_eqb a b = false /\ f_gtb a b = false) \/
  (f_ltb a b = false /\ f_eqb a b = true /\ f_gtb a b = false) \/
  (f_ltb a b = false /\ f_eqb a b = false /\ f_gtb a b = true).
Proof.
  intros Ha Hb. unfold f_ltb, f_eqb, f_gtb.
  destruct (fcmp_total a b Ha Hb) as [[| |] ->]; auto.
Qed.

(* ±0 are the only distinct floats that compare equal (on canonical values the
   key is injective up to the sign of zero) *)
Lemma fcmp_eq_zero a : fcmp a (S754_zero false) = Some Eq -> exists s, a = S754_zero s.
Proof.
  destruct a as [s|s| |s m e]; cbn; intros H; try discriminate H; eauto; destruct s; discriminate H.
Qed.

(* ================================================================== *)
(* Part 2.  The law records                                             *)
(* ================================================================== *)

Definition two53 : Z := 9007199254740992.

Record NumLaws (L : ExecLib) : Prop := mkNumLaws {
  (* float64(int64(0)) = +0 *)
  nl_ofZ_0 : xl_of_Z L 0 = S754_zero false;
  (* float64(int64) is exact, hence order-preserving, on [-2^53, 2^53] *)
  nl_ofZ_exact : forall a b, Z.abs a <= two53 -> Z.abs b <= two53 ->
      fcmp (xl_of_Z L a) (xl_of_Z L b) = Some (a ?= b);
  (* a text that ParseInt accepts is accepted by ParseFloat with the correctly
     rounded value of the same integer — except that "-0" is the float -0 *)
  nl_js_int_float : forall s z, js_int64 L s = Some z ->
      js_float64 L s = Some (xl_of_Z L z, false) \/
      (z = 0 /\ js_float64 L s = Some (S754_zero true, false));
  (* ParseInt(s, 10, 64) returns an int64 *)
  nl_js_int64_range : forall s z, xl_parse_int L 10 64 s = Some z -> in_int64 z = true;
  (* int64(float64) returns an int64 *)
  nl_to_int64_range : forall f, in_int64 (xl_to_int64 L f) = true;
  (* FormatInt / ParseInt round trip *)
  nl_parse_format_int64 : forall z, in_int64 z = true ->
      xl_parse_int L 10 64 (xl_format_int L z) = Some z;
  nl_parse_format_int32 : forall z, in_int32 z = true ->
      xl_parse_int L 10 32 (xl_format_int L z) = Some z;
  (* FormatFloat(f,'f',-1,64) is the shortest text that ParseFloat maps back to f *)
  nl_parse_format_float : forall f, valid_binary 53 1024 f = true -> f_finite f = true ->
      xl_parse_float L (xl_format_float L f) = Some (f, false)
}.

(* Laws of the datetime comparison oracle on a domain D of datetime values. *)
Record DtLaws (L : ExecLib) (D : datetime -> Prop) : Prop := mkDtLaws {
  dl_antisym : forall u a b c,
      xl_dt_compare L u a b = ExecLib.CmpOk c -> xl_dt_compare L u b a = ExecLib.CmpOk (- c);
  dl_trans : forall u a b c x y, D a -> D b -> D c ->
      xl_dt_compare L u a b = ExecLib.CmpOk x -> xl_dt_compare L u b c = ExecLib.CmpOk y ->
      x <= 0 -> y <= 0 ->
      exists z, xl_dt_compare L u a c = ExecLib.CmpOk z /\ z <= 0 /\ (x < 0 \/ y < 0 -> z < 0)
}.

(* ================================================================== *)
(* Part 3.  The concrete instance                                       *)
(* ================================================================== *)

(* the instance used for witnesses: UTC context, no regexp, members in order *)
Definition lib0 : ExecLib := mk_lib (ctx_fixed 0 0) (fun _ _ _ => false) members_in_order.

(* ---- float64(int64) is exact on [-2^53, 2^53]: closed form of binary_round ---- *)
(* value representation of a positive integer p by a canonical (m, e) *)
Definition posrep (p m : positive) (e : Z) : Prop :=
  4503599627370496 <= Zpos m < 9007199254740992 /\ -52 <= e <= 1 /\
  Zpos m * 2 ^ (e + 52) = Zpos p * 4503599627370496.

Lemma binary_round_small s p :
  Zpos p < 9007199254740992 ->
  exists m e, binary_round 53 1024 s p 0 = S754_finite s m e /\ posrep p m e.
Proof.
  intros Hp. pose proof (digits2_bounds p) as Hd.
  set (d := Zpos (digits2_pos p)) in *.
  assert (Hd1 : 1 <= d) by (subst d; lia).
  assert (Hd53 : d <= 53).
  { destruct (Z_le_gt_dec d 53) as [H|H]; [exact H|exfalso].
    assert (2 ^ 53 <= 2 ^ (d - 1)) by (apply Z.pow_le_mono_r; lia).
    change (2 ^ 53) with 9007199254740992 in H0. lia. }
  unfold binary_round. fold d. rewrite Z.add_0_r.
  assert (Ef : fexp 53 1024 d = d - 53) by (unfold fexp, emin; lia).
  rewrite Ef. unfold shl_align.
  destruct (d - 53 - 0) as [|k|k] eqn:Ek; try lia.
  - (* d = 53 *)
    assert (d = 53) by lia.
    exists p, 0. rewrite binary_round_aux_canonical by (fold d; lia).
    split; [reflexivity|]. unfold posrep. rewrite H in Hd.
    change (2 ^ (53 - 1)) with 4503599627370496 in Hd. change (2 ^ 53) with 9007199254740992 in Hd.
    change (2 ^ (0 + 52)) with 4503599627370496. lia.
  - (* d < 53 *)
    assert (Hk : Zpos k = 53 - d) by lia.
    exists (shift_pos k p), (d - 53).
    rewrite binary_round_aux_canonical.
    + split; [reflexivity|]. unfold posrep. rewrite shift_pos_pow, Hk.
      assert (E1 : 2 ^ (53 - d) * 2 ^ (d - 1) = 4503599627370496).
      { rewrite <- Z.pow_add_r by lia. replace (53 - d + (d - 1)) with 52 by lia. reflexivity. }
      assert (E2 : 2 ^ (53 - d) * 2 ^ d = 9007199254740992).
      { rewrite <- Z.pow_add_r by lia. replace (53 - d + d) with 53 by lia. reflexivity. }
      assert (0 < 2 ^ (53 - d)) by (apply Z.pow_pos_nonneg; lia).
      replace (d - 53 + 52) with (d - 1) by lia.
      repeat split; try lia; try nia.
    + rewrite digits2_shift_pos. fold d. lia.
    + lia.
Qed.

Lemma posrep_2p53 : posrep 9007199254740992 4503599627370496 1.
Proof. unfold posrep. cbn. lia. Qed.

Lemma posrep_compare p1 m1 e1 p2 m2 e2 :
  posrep p1 m1 e1 -> posrep p2 m2 e2 ->
  match e1 ?= e2 with Eq => (Zpos m1 ?= Zpos m2) | c => c end = (Zpos p1 ?= Zpos p2).
Proof.
  intros (Hm1 & He1 & Hv1) (Hm2 & He2 & Hv2).
  assert (Hstrict : forall pa ma ea pb mb eb,
             4503599627370496 <= Zpos ma < 9007199254740992 -> 4503599627370496 <= Zpos mb < 9007199254740992 ->
             -52 <= ea -> ea < eb ->
             Zpos ma * 2 ^ (ea + 52) = Zpos pa * 4503599627370496 ->
             Zpos mb * 2 ^ (eb + 52) = Zpos pb * 4503599627370496 -> Zpos pa < Zpos pb).
  { intros pa ma ea pb mb eb Ha Hb Hea Hlt Va Vb.
    assert (Hsplit : 2 ^ (eb + 52) = 2 ^ (ea + 52) * 2 ^ (eb - ea)).
    { rewrite <- Z.pow_add_r by lia. f_equal. lia. }
    assert (Hge2 : 2 <= 2 ^ (eb - ea)).
    { change 2 with (2 ^ 1) at 1. apply Z.pow_le_mono_r; lia. }
    assert (Hpos : 0 < 2 ^ (ea + 52)) by (apply Z.pow_pos_nonneg; lia).
    rewrite Hsplit in Vb. nia. }
  destruct (Z.compare_spec e1 e2) as [E|E|E].
  - subst e2. assert (Hpos : 0 < 2 ^ (e1 + 52)) by (apply Z.pow_pos_nonneg; lia).
    rewrite (Zmult_compare_compat_r (Zpos m1) (Zpos m2) (2 ^ (e1 + 52))) by lia. rewrite Hv1, Hv2.
    symmetry. apply Zmult_compare_compat_r. lia.
  - symmetry. apply Z.compare_lt_iff. apply (Hstrict p1 m1 e1 p2 m2 e2 Hm1 Hm2 ltac:(lia) E Hv1 Hv2).
  - symmetry. apply Z.compare_gt_iff. assert (Zpos p2 < Zpos p1) by apply (Hstrict p2 m2 e2 p1 m1 e1 Hm2 Hm1 ltac:(lia) E Hv2 Hv1). lia.
Qed.

(* every integer of magnitude <= 2^53 has its exact canonical representation *)
Lemma f64_of_Z_pos p :
  Zpos p <= 9007199254740992 -> exists m e, f64_of_Z (Zpos p) = S754_finite false m e /\ posrep p m e.
Proof.
  intros Hp. destruct (Z.eq_dec (Zpos p) 9007199254740992) as [E|E].
  - injection E as ->. exists 4503599627370496%positive, 1. split; [vm_compute; reflexivity|apply posrep_2p53].
  - apply (binary_round_small false p). lia.
Qed.
Lemma f64_of_Z_neg p :
  Zpos p <= 9007199254740992 -> exists m e, f64_of_Z (Zneg p) = S754_finite true m e /\ posrep p m e.
Proof.
  intros Hp. destruct (Z.eq_dec (Zpos p) 9007199254740992) as [E|E].
  - injection E as ->. exists 4503599627370496%positive, 1. split; [vm_compute; reflexivity|apply posrep_2p53].
  - apply (binary_round_small true p). lia.
Qed.

Theorem f64_of_Z_exact a b :
  Z.abs a <= two53 -> Z.abs b <= two53 -> fcmp (f64_of_Z a) (f64_of_Z b) = Some (a ?= b).
Proof.
  unfold two53. intros Ha Hb.
  destruct a as [|pa|pa], b as [|pb|pb]; try reflexivity.
  - destruct (f64_of_Z_pos pb ltac:(lia)) as (m & e & -> & _). reflexivity.
  - destruct (f64_of_Z_neg pb ltac:(lia)) as (m & e & -> & _). reflexivity.
  - destruct (f64_of_Z_pos pa ltac:(lia)) as (m & e & -> & _). reflexivity.
  - destruct (f64_of_Z_pos pa ltac:(lia)) as (m1 & e1 & -> & R1).
    destruct (f64_of_Z_pos pb ltac:(lia)) as (m2 & e2 & -> & R2).
    rewrite fcmp_key by reflexivity. cbn [fkey lexc]. change (1 ?= 1) with Eq. cbv iota.
    rewrite (posrep_compare _ _ _ _ _ _ R1 R2). reflexivity.
  - destruct (f64_of_Z_pos pa ltac:(lia)) as (m1 & e1 & -> & R1).
    destruct (f64_of_Z_neg pb ltac:(lia)) as (m2 & e2 & -> & R2). reflexivity.
  - destruct (f64_of_Z_neg pa ltac:(lia)) as (m & e & -> & _). reflexivity.
  - destruct (f64_of_Z_neg pa ltac:(lia)) as (m1 & e1 & -> & R1).
    destruct (f64_of_Z_pos pb ltac:(lia)) as (m2 & e2 & -> & R2). reflexivity.
  - destruct (f64_of_Z_neg pa ltac:(lia)) as (m1 & e1 & -> & R1).
    destruct (f64_of_Z_neg pb ltac:(lia)) as (m2 & e2 & -> & R2).
    rewrite fcmp_key by reflexivity. cbn [fkey lexc]. change (-1 ?= -1) with Eq. cbv iota.
    rewrite Z.compare_opp.
    pose proof (posrep_compare _ _ _ _ _ _ R2 R1) as H.
    change (Z.neg pa ?= Z.neg pb) with (CompOpp (Zpos pa ?= Zpos pb)).
    change (Z.neg m1 ?= Z.neg m2) with (CompOpp (Zpos m1 ?= Zpos m2)).
    rewrite <- (Z.compare_antisym (Zpos pa) (Zpos pb)), <- (Z.compare_antisym (Zpos m1) (Zpos m2)).
    rewrite H. reflexivity.
Qed.

(* ---- int64(float64) ---- *)
Lemma f64_to_int64_range f : in_int64 (f64_to_int64 f) = true.
Proof.
  destruct f as [s|s| |s m e]; try reflexivity. cbn [f64_to_int64].
  match goal with |- context [if in_int64 ?v then _ else _] => destruct (in_int64 v) eqn:E end;
    [exact E|reflexivity].
Qed.

(* ---- ParseInt returns a value of the requested size ---- *)
Lemma pu_loop_nonneg base base0 s : 0 < base ->
  forall n us n' us', 0 <= n -> pu_loop base base0 s n us = Some (n', us') -> 0 <= n'.
Proof.
  intros Hb. induction s as [|c r IH]; intros n us n' us' Hn H; cbn [pu_loop] in H.
  - injection H as <- _. exact Hn.
  - destruct ((cz c =? 95) && base0); [eapply IH; eassumption|].
    match type of H with (if ?d <? base then _ else _) = _ => set (dd := d) in * end.
    assert (Hd : 0 <= dd).
    { subst dd. destruct (Strconv.is_digit c) eqn:E1; [unfold Strconv.is_digit in E1; lia|].
      destruct ((97 <=? lowerz c) && (lowerz c <=? 122)) eqn:E2; lia. }
    destruct (dd <? base); [|discriminate H].
    eapply IH; [|exact H]. nia.
Qed.

Lemma parse_uint_raw_nonneg s n : parse_uint_raw 10 s = Some n -> 0 <= n.
Proof.
  unfold parse_uint_raw. destruct s as [|c0 r0]; [discriminate|].
  change (10 =? 0) with false. cbv iota beta. change ((2 <=? 10) && (10 <=? 36)) with true. cbv iota.
  destruct (pu_loop 10 false (String c0 r0) 0 false) as [[n' us]|] eqn:E; [|discriminate].
  intros H. assert (0 <= n') by (eapply pu_loop_nonneg; [| |exact E]; lia).
  destruct (us && negb (underscore_ok (String c0 r0))); [discriminate H|]. injection H as <-. assumption.
Qed.

Lemma parse_int64_range s z : parse_int 10 64 s = Some z -> in_int64 z = true.
Proof.
  unfold parse_int. destruct s as [|c r]; [discriminate|].
  destruct (parse_uint_raw 10 (if is_sign c then r else String c r)) as [un|] eqn:E; [|discriminate].
  apply parse_uint_raw_nonneg in E.
  change (2 ^ (64 - 1)) with 9223372036854775808.
  unfold in_int64, min_int64, max_int64.
  destruct (cz c =? 45).
  - destruct (un <=? 9223372036854775808) eqn:E1; intros H; [|discriminate H]. injection H as <-. lia.
  - destruct (un <? 9223372036854775808) eqn:E1; intros H; [|discriminate H]. injection H as <-. lia.
Qed.

(* ---- FormatInt / ParseInt(.,10,32) ---- *)
Lemma parse_int32_neg_shape body :
  parse_int 10 32 (String "-" body) =
  match parse_uint_raw 10 body with
  | None => None
  | Some un => if un <=? 2147483648 then Some (- un) else None
  end.
Proof. reflexivity. Qed.

Lemma parse_int32_pos_shape c r : is_sign c = false ->
  parse_int 10 32 (String c r) =
  match parse_uint_raw 10 (String c r) with
  | None => None
  | Some un => if un <? 2147483648 then Some un else None
  end.
Proof.
  intros Hs. unfold parse_int. rewrite Hs.
  unfold is_sign in Hs. apply orb_false_iff in Hs. destruct Hs as [_ Hs].
  rewrite Hs. reflexivity.
Qed.

Theorem parse_int32_format_int z : in_int32 z = true -> parse_int 10 32 (format_int z) = Some z.
Proof.
  intros Hz. unfold in_int32, min_int32, max_int32 in Hz.
  apply andb_true_iff in Hz. destruct Hz as [Hlo Hhi].
  apply Z.leb_le in Hlo. apply Z.leb_le in Hhi.
  unfold format_int. destruct (z <? 0) eqn:Hneg.
  - apply Z.ltb_lt in Hneg.
    destruct (dec_digits_list_spec (- z) ltac:(lia)) as (Hne & Hf & Hv).
    rewrite parse_int32_neg_shape. unfold format_nat.
    rewrite (parse_uint_digits _ Hne Hf), Hv.
    replace (- z <=? 2147483648) with true by (symmetry; apply Z.leb_le; lia).
    rewrite Z.opp_involutive. reflexivity.
  - apply Z.ltb_ge in Hneg.
    destruct (dec_digits_list_spec z Hneg) as (Hne & Hf & Hv).
    unfold format_nat.
    pose proof (parse_uint_digits _ Hne Hf) as Hp.
    destruct (dec_digits_list z) as [|d l] eqn:Hl; [congruence|].
    assert (Hd : is_dig d) by (inversion Hf; assumption).
    unfold str_of_digits in *. cbn [map str_of_list] in *.
    rewrite (parse_int32_pos_shape _ _ (Strconv.digit_char_not_sign d Hd)), Hp, Hv.
    replace (z <? 2147483648) with true by (symmetry; apply Z.ltb_lt; lia).
    reflexivity.
Qed.

(* ---- what remains trusted about lib/Strconv.v ----
   ONE fact about the executable strconv model is not proved: Go's shortest
   float formatting round-trips,
       ParseFloat(FormatFloat(f,'f',-1,64), 64) = f   for finite f.
   It is an explicit hypothesis of [numlaws_concrete] (a Prop, not an axiom),
   validated by the 104,865 test vectors that compare lib/Strconv.v with Go and
   by the sweep [st_roundtrip_sweep] below.  Everything else is proved; in
   particular the agreement of ParseInt and ParseFloat on integer texts is
   [F64Laws.parse_int_parse_float]. *)
Record StrconvTrusted : Prop := mkStrconvTrusted {
  st_parse_format_float : forall f, valid_binary 53 1024 f = true -> f_finite f = true ->
      parse_float (format_float_f f) = Some (f, false)
}.

Theorem numlaws_concrete ctx re members :
  StrconvTrusted -> NumLaws (mk_lib ctx re members).
Proof.
  intros ST. split; cbn [mk_lib xl_of_Z xl_to_int64 xl_parse_int xl_parse_float xl_format_int xl_format_float].
  - reflexivity.
  - exact f64_of_Z_exact.
  - unfold js_int64, js_float64. cbn [mk_lib xl_parse_int xl_parse_float xl_of_Z]. exact parse_int_parse_float.
  - exact parse_int64_range.
  - exact f64_to_int64_range.
  - exact parse_int_format_int.
  - exact parse_int32_format_int.
  - exact (st_parse_format_float ST).
Qed.

(* the seven proved fields, individually (no hypothesis) *)
Theorem numlaws_concrete_proved ctx re members :
  let L := mk_lib ctx re members in
  xl_of_Z L 0 = S754_zero false /\
  (forall a b, Z.abs a <= two53 -> Z.abs b <= two53 -> fcmp (xl_of_Z L a) (xl_of_Z L b) = Some (a ?= b)) /\
  (forall s z, js_int64 L s = Some z ->
       js_float64 L s = Some (xl_of_Z L z, false) \/ (z = 0 /\ js_float64 L s = Some (S754_zero true, false))) /\
  (forall s z, xl_parse_int L 10 64 s = Some z -> in_int64 z = true) /\
  (forall f, in_int64 (xl_to_int64 L f) = true) /\
  (forall z, in_int64 z = true -> xl_parse_int L 10 64 (xl_format_int L z) = Some z) /\
  (forall z, in_int32 z = true -> xl_parse_int L 10 32 (xl_format_int L z) = Some z).
Proof.
  cbv zeta. unfold js_int64, js_float64. cbn [mk_lib xl_of_Z xl_to_int64 xl_parse_int xl_parse_float xl_format_int].
  split; [reflexivity|]. split; [exact f64_of_Z_exact|]. split; [exact parse_int_parse_float|].
  repeat split.
  - exact parse_int64_range.
  - exact f64_to_int64_range.
  - exact parse_int_format_int.
  - exact parse_int32_format_int.
Qed.

(* ---- tests (vm_compute sweeps; these are TESTS): the proved integer/float
   agreement re-checked on boundary texts, and the trusted round trip ---- *)
Definition sf_eqb (a b : f64) : bool :=
  match a, b with
  | S754_zero s, S754_zero t => Bool.eqb s t
  | S754_infinity s, S754_infinity t => Bool.eqb s t
  | S754_nan, S754_nan => true
  | S754_finite s m e, S754_finite t n g => Bool.eqb s t && Pos.eqb m n && Z.eqb e g
  | _, _ => false
  end.

Definition pf_is (s : string) (f : f64) : bool :=
  match parse_float s with Some (g, false) => sf_eqb g f | _ => false end.

Definition st_int_float_ok (s : string) : bool :=
  match parse_int 10 64 s with
  | Some z => pf_is s (f64_of_Z z) || ((z =? 0) && pf_is s (S754_zero true))
  | None => true
  end.

Definition sweep_ints : list Z :=
  flat_map (fun z => [z; - z; z + 1; z - 1; - z - 1; 1 - z])
    [0; 1; 7; 10; 99; 1000; 123456789; 4294967296; 4503599627370496; 9007199254740992;
     9007199254740994; 18014398509481984; 18014398509481985; 18014398509481987;
     36028797018963968; 36028797018963972; 36028797018963974; 72057594037927936;
     1152921504606846976; 1152921504606847105; 4611686018427387904; 4611686018427388417;
     9223372036854775296; 9223372036854775807; 9223372036854775806; 9223372036854774784;
     1000000000000000000; 999999999999999999; 123456789012345678; 9007199254740993].

Definition sweep_int_texts : list string :=
  map format_int sweep_ints ++
  ["-0"; "+0"; "00"; "-000"; "+5"; "007"; "-007"; "+9223372036854775807"; "-9223372036854775808";
   "9223372036854775808"; "1_0"; ""; "-"; "1e3"; "0x10"; "12a"]%string.

Example st_int_float_sweep : forallb st_int_float_ok sweep_int_texts = true.
Proof. vm_compute. reflexivity. Qed.

Definition rt_ok (f : f64) : bool :=
  valid_f64 f && match f with S754_zero _ | S754_finite _ _ _ => pf_is (format_float_f f) f | _ => true end.

Definition sweep_floats : list f64 :=
  flat_map (fun be =>
    flat_map (fun frac =>
      let bits := be * 4503599627370496 + frac in
      [f64_of_bits bits; f64_of_bits (bits + 9223372036854775808)])
      [0; 1; 2; 4503599627370495; 4503599627370494; 2251799813685248; 1234567890123; 3002399751580331])
    [0; 1; 2; 3; 52; 53; 54; 100; 500; 900; 1000; 1022; 1023; 1024; 1025; 1075; 1076; 1077;
     1100; 1200; 1500; 1800; 2000; 2044; 2045; 2046].

Example st_roundtrip_sweep : List.length sweep_floats = 416%nat /\ forallb rt_ok sweep_floats = true.
Proof. vm_compute. split; reflexivity. Qed.

(* ---- NumLaws is satisfiable outright (no trusted hypothesis): an artificial
   library whose ParseFloat/FormatFloat are made consistent by construction.
   It shows that the theorems stated under NumLaws are not vacuous. ---- *)
Definition ff1 (f : f64) : string := String "b" (format_nat (f64_to_bits f)).
Definition pf1 (s : string) : option (f64 * bool) :=
  match parse_int 10 64 s with
  | Some z => Some (f64_of_Z z, false)
  | None => match s with
            | String "b" r => match parse_uint_raw 10 r with
                              | Some n => Some (f64_of_bits n, false)
                              | None => None
                              end
            | _ => Strconv.parse_float s
            end
  end.

Definition lib1 : ExecLib :=
  mkExecLib pf1 parse_int ff1 format_int f64_of_Z f64_to_int64 f64_mod f64_floor f64_ceil
            f64_trunc f64_round f64_pow10 (fun _ _ _ => false) (fun _ _ => None)
            (fun _ _ _ => ExecLib.CastInvalid) (fun _ _ _ => ExecLib.CmpIncomparable) (fun _ => EmptyString)
            (map snd).

Lemma f64_to_bits_nonneg f : valid_binary 53 1024 f = true -> 0 <= f64_to_bits f.
Proof.
  destruct f as [s|s| |s m e]; cbn [f64_to_bits]; intros Hv;
    try (destruct s; lia); try (unfold f64_nan_bits; lia).
  unfold valid_binary, bounded, canonical_mantissa, fexp, emin in Hv.
  apply andb_true_iff in Hv. destruct Hv as [Hc _]. apply Zeq_bool_eq in Hc.
  destruct (4503599627370496 <=? Zpos m) eqn:E; destruct s; lia.
Qed.

Lemma parse_uint_format_nat n : 0 <= n -> parse_uint_raw 10 (format_nat n) = Some n.
Proof.
  intros Hn. destruct (dec_digits_list_spec n Hn) as (Hne & Hf & Hv).
  unfold format_nat. rewrite (parse_uint_digits _ Hne Hf), Hv. reflexivity.
Qed.

Lemma parse_int_b r : parse_int 10 64 (String "b" r) = None.
Proof. reflexivity. Qed.

Theorem numlaws_satisfiable : exists L, NumLaws L.
Proof.
  exists lib1. split; cbn [lib1 xl_of_Z xl_to_int64 xl_parse_int xl_parse_float xl_format_int xl_format_float].
  - reflexivity.
  - exact f64_of_Z_exact.
  - intros s z H. unfold js_int64, js_float64 in *. cbn [lib1 xl_parse_int xl_parse_float xl_of_Z] in *.
    left. unfold pf1. rewrite H. reflexivity.
  - exact parse_int64_range.
  - exact f64_to_int64_range.
  - exact parse_int_format_int.
  - exact parse_int32_format_int.
  - intros f Hv Hf. unfold pf1, ff1. rewrite parse_int_b.
    rewrite parse_uint_format_nat by (apply f64_to_bits_nonneg; exact Hv).
    rewrite f64_of_bits_to_bits by exact Hv. reflexivity.
Qed.

Print Assumptions fcmp_key.
Print Assumptions fcmp_le_trans.
Print Assumptions f64_of_Z_exact.
Print Assumptions f64_to_int64_range.
Print Assumptions parse_int64_range.
Print Assumptions parse_int32_format_int.
Print Assumptions numlaws_concrete.
Print Assumptions numlaws_concrete_proved.
Print Assumptions numlaws_satisfiable.
