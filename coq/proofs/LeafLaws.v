(* LeafLaws.v — what the leaf theorems (C12, C13, C16) assume about the oracle
   fields of an [ExecLib], collected in the records [NumLaws] and [DtLaws], and
   the proof that the concrete instance of extract/Instance.v satisfies them
   ([numlaws_concrete]).

   Part 1: the order [fcmp] = [SFcompare] on non-NaN floats is a total
           preorder — proved from SFcompare's definition through an explicit
           lexicographic key; no reals, no axioms.
   Part 2: the law records.
   Part 3: the concrete instance. *)
From Coq Require Import ZArith Bool List Lia ZifyBool String Ascii.
From Coq Require Import Floats.SpecFloat.
From SJ Require Import lib.Base lib.F64 lib.Strconv model.Json model.Ast model.ExecLib model.Leaf.

Local Open Scope Z_scope.

(* ================================================================== *)
(* Part 1.  fcmp is a total preorder on the non-NaN floats              *)
(* ================================================================== *)

Definition notnan (f : f64) : Prop := f_is_nan f = false.

(* lexicographic comparison of integer triples *)
Definition lexc (a b : Z * Z * Z) : comparison :=
  let '(a1, a2, a3) := a in
  let '(b1, b2, b3) := b in
  match a1 ?= b1 with
  | Eq => match a2 ?= b2 with Eq => a3 ?= b3 | c => c end
  | c => c
  end.

Definition lexlt (a b : Z * Z * Z) : Prop :=
  let '(a1, a2, a3) := a in
  let '(b1, b2, b3) := b in
  a1 < b1 \/ (a1 = b1 /\ (a2 < b2 \/ (a2 = b2 /\ a3 < b3))).

Lemma lexc_lt a b : lexc a b = Lt <-> lexlt a b.
Proof.
  destruct a as [[a1 a2] a3], b as [[b1 b2] b3]; cbn.
  destruct (Z.compare_spec a1 b1), (Z.compare_spec a2 b2), (Z.compare_spec a3 b3);
    split; intros Hyp; try discriminate Hyp; try reflexivity; lia.
Qed.
Lemma lexc_gt a b : lexc a b = Gt <-> lexlt b a.
Proof.
  destruct a as [[a1 a2] a3], b as [[b1 b2] b3]; cbn.
  destruct (Z.compare_spec a1 b1), (Z.compare_spec a2 b2), (Z.compare_spec a3 b3);
    split; intros Hyp; try discriminate Hyp; try reflexivity; lia.
Qed.
Lemma lexc_eq a b : lexc a b = Eq <-> a = b.
Proof.
  destruct a as [[a1 a2] a3], b as [[b1 b2] b3]; cbn.
  destruct (Z.compare_spec a1 b1), (Z.compare_spec a2 b2), (Z.compare_spec a3 b3);
    split; intros Hyp; try discriminate Hyp; try reflexivity;
    try (injection Hyp; intros; lia); subst; reflexivity.
Qed.
Lemma lexc_antisym a b : lexc b a = CompOpp (lexc a b).
Proof.
  destruct a as [[a1 a2] a3], b as [[b1 b2] b3]; cbn.
  rewrite (Z.compare_antisym a1 b1), (Z.compare_antisym a2 b2), (Z.compare_antisym a3 b3).
  destruct (a1 ?= b1), (a2 ?= b2), (a3 ?= b3); reflexivity.
Qed.
Lemma lexlt_trans a b c : lexlt a b -> lexlt b c -> lexlt a c.
Proof.
  destruct a as [[a1 a2] a3], b as [[b1 b2] b3], c as [[c1 c2] c3]; cbn; lia.
Qed.
Lemma lexlt_irrefl a : ~ lexlt a a.
Proof. destruct a as [[a1 a2] a3]; cbn; lia. Qed.

(* The key: class (−inf, negative, zero, positive, +inf), then exponent, then
   mantissa — both negated for negative numbers. *)
Definition fkey (f : f64) : Z * Z * Z :=
  match f with
  | S754_infinity true => (-2, 0, 0)
  | S754_finite true m e => (-1, - e, Zneg m)
  | S754_zero _ => (0, 0, 0)
  | S754_nan => (0, 0, 0)
  | S754_finite false m e => (1, e, Zpos m)
  | S754_infinity false => (2, 0, 0)
  end.

Lemma fcmp_key a b : notnan a -> notnan b -> fcmp a b = Some (lexc (fkey a) (fkey b)).
Proof.
  unfold notnan, fcmp.
  destruct a as [sa|sa| |sa ma ea], b as [sb|sb| |sb mb eb]; cbn [f_is_nan]; intros Ha Hb;
    try discriminate; try (destruct sa; try destruct sb; reflexivity);
    try (destruct sb; reflexivity).
  destruct sa, sb; try reflexivity; cbn [SFcompare fkey lexc]; f_equal.
  (* both negative (the other three sign combinations compute) *)
  change (-1 ?= -1) with Eq. cbv iota.
  rewrite Z.compare_opp, (Z.compare_antisym ea eb).
  destruct (ea ?= eb); reflexivity.
Qed.

Lemma fcmp_notnan a b c : fcmp a b = Some c -> notnan a /\ notnan b.
Proof.
  unfold fcmp, notnan. destruct a as [sa|sa| |sa ma ea], b as [sb|sb| |sb mb eb]; cbn;
    intros H; try discriminate H; split; reflexivity.
Qed.

Lemma fcmp_nan_l b : fcmp S754_nan b = None.
Proof. reflexivity. Qed.
Lemma fcmp_nan_r a : fcmp a S754_nan = None.
Proof. destruct a; reflexivity. Qed.

Lemma fcmp_total a b : notnan a -> notnan b -> exists c, fcmp a b = Some c.
Proof. intros Ha Hb. rewrite fcmp_key by assumption. eauto. Qed.

Lemma fcmp_refl a : notnan a -> fcmp a a = Some Eq.
Proof. intros Ha. rewrite fcmp_key by assumption. f_equal. apply lexc_eq. reflexivity. Qed.

Lemma fcmp_antisym a b c : fcmp a b = Some c -> fcmp b a = Some (CompOpp c).
Proof.
  intros H. destruct (fcmp_notnan _ _ _ H) as [Ha Hb].
  rewrite (fcmp_key a b) in H by assumption. rewrite (fcmp_key b a) by assumption.
  injection H as <-. f_equal. apply lexc_antisym.
Qed.

Lemma fcmp_lt_trans a b c : fcmp a b = Some Lt -> fcmp b c = Some Lt -> fcmp a c = Some Lt.
Proof.
  intros H1 H2. destruct (fcmp_notnan _ _ _ H1) as [Ha Hb]. destruct (fcmp_notnan _ _ _ H2) as [_ Hc].
  rewrite (fcmp_key a b) in H1 by assumption. rewrite (fcmp_key b c) in H2 by assumption.
  rewrite (fcmp_key a c) by assumption. injection H1 as H1. injection H2 as H2. f_equal.
  apply lexc_lt. apply lexc_lt in H1, H2. eapply lexlt_trans; eassumption.
Qed.

Lemma fcmp_eq_l a b c : fcmp a b = Some Eq -> notnan c -> fcmp a c = fcmp b c.
Proof.
  intros H Hc. destruct (fcmp_notnan _ _ _ H) as [Ha Hb].
  rewrite (fcmp_key a b) in H by assumption. rewrite (fcmp_key a c), (fcmp_key b c) by assumption.
  injection H as H. apply lexc_eq in H. rewrite H. reflexivity.
Qed.

Lemma fcmp_eq_r a b c : fcmp a b = Some Eq -> notnan c -> fcmp c a = fcmp c b.
Proof.
  intros H Hc. destruct (fcmp_notnan _ _ _ H) as [Ha Hb].
  rewrite (fcmp_key a b) in H by assumption. rewrite (fcmp_key c a), (fcmp_key c b) by assumption.
  injection H as H. apply lexc_eq in H. rewrite H. reflexivity.
Qed.

Lemma fcmp_eq_trans a b c : fcmp a b = Some Eq -> fcmp b c = Some Eq -> fcmp a c = Some Eq.
Proof.
  intros H1 H2. destruct (fcmp_notnan _ _ _ H2) as [_ Hc].
  rewrite (fcmp_eq_l _ _ _ H1 Hc). exact H2.
Qed.

(* The general transitivity statement: x <= y <= z, strict if one step is. *)
Definition cle (c : comparison) : Prop := c <> Gt.
Lemma fcmp_le_trans a b c x y :
  fcmp a b = Some x -> fcmp b c = Some y -> cle x -> cle y ->
  exists z, fcmp a c = Some z /\ cle z /\ (x = Lt \/ y = Lt -> z = Lt).
Proof.
  intros H1 H2 Hx Hy.
  destruct (fcmp_notnan _ _ _ H1) as [Ha Hb]. destruct (fcmp_notnan _ _ _ H2) as [_ Hc].
  destruct x; [| |exfalso; apply Hx; reflexivity]; (destruct y; [| |exfalso; apply Hy; reflexivity]).
  - exists Eq. rewrite (fcmp_eq_trans _ _ _ H1 H2). repeat split; [discriminate|intros [E|E]; discriminate E].
  - exists Lt. rewrite (fcmp_eq_l _ _ _ H1 Hc), H2. repeat split; discriminate.
  - exists Lt. rewrite <- (fcmp_eq_r _ _ _ H2 Ha), H1. repeat split; discriminate.
  - exists Lt. rewrite (fcmp_lt_trans _ _ _ H1 H2). repeat split; discriminate.
Qed.

(* the three Go-level tests are mutually exclusive and exhaustive on non-NaN values *)
Lemma f_tests_trichotomy a b : notnan a -> notnan b ->
  (f_ltb a b = true /\ f_eqb a b = false /\ f_gtb a b = false) \/
  (f_ltb a b = false /\ f_eqb a b = true /\ f_gtb a b = false) \/
  (f_ltb a b = false /\ f_eqb a b = false /\ f_gtb a b = true).
Proof.
  intros Ha Hb. unfold f_ltb, f_eqb, f_gtb.
  destruct (fcmp_total a b Ha Hb) as [[| |] ->]; auto.
Qed.

(* ±0 are the only distinct floats that compare equal (on canonical values the
   key is injective up to the sign of zero) *)
Lemma fcmp_eq_zero a : fcmp a (S754_zero false) = Some Eq -> exists s, a = S754_zero s.
Proof.
  destruct a as [s|s| |s m e]; cbn; intros H; try discriminate H; eauto; destruct s; discriminate H.
Qed.

(* ================================================================== *)
(* Part 2.  The law records                                             *)
(* ================================================================== *)

Definition two53 : Z := 9007199254740992.

Record NumLaws (L : ExecLib) : Prop := mkNumLaws {
  (* float64(int64(0)) = +0 *)
  nl_ofZ_0 : xl_of_Z L 0 = S754_zero false;
  (* float64(int64) is exact, hence order-preserving, on [-2^53, 2^53] *)
  nl_ofZ_exact : forall a b, Z.abs a <= two53 -> Z.abs b <= two53 ->
      fcmp (xl_of_Z L a) (xl_of_Z L b) = Some (a ?= b);
  (* float64(int64) never yields NaN *)
  nl_ofZ_notnan : forall z, f_is_nan (xl_of_Z L z) = false;
  (* a text that ParseInt accepts is accepted by ParseFloat with the correctly
     rounded value of the same integer — except that "-0" is the float -0 *)
  nl_js_int_float : forall s z, js_int64 L s = Some z ->
      js_float64 L s = Some (xl_of_Z L z, false) \/
      (z = 0 /\ js_float64 L s = Some (S754_zero true, false));
  (* ParseInt(s, 10, 64) returns an int64 *)
  nl_js_int64_range : forall s z, xl_parse_int L 10 64 s = Some z -> in_int64 z = true;
  (* int64(float64) returns an int64 *)
  nl_to_int64_range : forall f, in_int64 (xl_to_int64 L f) = true;
  (* FormatInt / ParseInt round trip *)
  nl_parse_format_int64 : forall z, in_int64 z = true ->
      xl_parse_int L 10 64 (xl_format_int L z) = Some z;
  nl_parse_format_int32 : forall z, in_int32 z = true ->
      xl_parse_int L 10 32 (xl_format_int L z) = Some z;
  (* FormatFloat(f,'f',-1,64) is the shortest text that ParseFloat maps back to f *)
  nl_parse_format_float : forall f, valid_binary 53 1024 f = true -> f_finite f = true ->
      xl_parse_float L (xl_format_float L f) = Some (f, false)
}.

(* Laws of the datetime comparison oracle on a domain D of datetime values. *)
Record DtLaws (L : ExecLib) (D : datetime -> Prop) : Prop := mkDtLaws {
  dl_antisym : forall u a b c,
      xl_dt_compare L u a b = CmpOk c -> xl_dt_compare L u b a = CmpOk (- c);
  dl_trans : forall u a b c x y, D a -> D b -> D c ->
      xl_dt_compare L u a b = CmpOk x -> xl_dt_compare L u b c = CmpOk y ->
      x <= 0 -> y <= 0 ->
      exists z, xl_dt_compare L u a c = CmpOk z /\ z <= 0 /\ (x < 0 \/ y < 0 -> z < 0)
}.
