(* SubscriptProofs.v — C14: array subscripts.

   "For an array a of length n, a[e1, e2 to e3, ...] returns, for each subscript
    in order, the elements at position trunc(e) or at positions
    trunc(from)..trunc(to), JSON null elements included, where last denotes n-1
    of the innermost enclosing subscripted array.  In lax mode positions outside
    0..n-1 are clipped away and a non-array behaves as a one-element array; in
    strict mode they raise the out-of-bounds error, and a subscript that is not
    a single number within int32 range is an error in both modes."

   The independent specification is [select_trace] / [select_spec]: plain
   [firstn]/[skipn] over the element list.  The main theorem
   ([subscript_general]) holds for ARBITRARY bound expressions whose value is
   known; [subscript_forms] instantiates it for integer literals, fractional
   literals, last, last - k, last + k.
   Stdlib only, no axioms. *)
From Coq Require Import Floats.SpecFloat.
From SJ Require Import lib.Base lib.F64 model.Json model.Ast model.ExecLib model.Leaf spec.Sem proofs.SemBasics.

(* ------------------------------------------------------------------ *)
(* the specification *)

(* the elements at positions f..t (0-based, inclusive) *)
Definition range_elems (es : list json) (f t : Z) : list json :=
  firstn (Z.to_nat (t - f + 1)) (skipn (Z.to_nat f) es).

Definition oob (n from to : Z) : bool := (from <? 0) || (from >? to) || (to >=? n).

Lemma oob_iff n from to : oob n from to = true <-> from < 0 \/ from > to \/ to >= n.
Proof.
  unfold oob. rewrite !orb_true_iff, Z.ltb_lt, Z.gtb_lt, Z.geb_le. lia.
Qed.

Definition oob_err : err := EVerbose "jsonpath array subscript is out of bounds".

(* one subscript from..to on the elements es: [ig] = positions outside 0..n-1 are clipped away *)
Definition select_one (ig skip_null : bool) (es : list json) (from to : Z) : list json + err :=
  let n := Z.of_nat (List.length es) in
  if negb ig && oob n from to then inr oob_err
  else
    let sel := range_elems es (Z.max 0 from) (Z.min (n - 1) to) in
    inl (if skip_null then filter (fun x => negb (is_null x)) sel else sel).

(* all subscripts, in order: the items selected before the first out-of-bounds
   subscript, and that error *)
Fixpoint select_trace (ig skip_null : bool) (es : list json) (bounds : list (Z * Z)) : trace :=
  match bounds with
  | [] => tnil
  | (from, to) :: rest =>
      match select_one ig skip_null es from to with
      | inr e => tfail e
      | inl sel => tapp (sel, None) (select_trace ig skip_null es rest)
      end
  end.

Definition select_spec (ig skip_null : bool) (es : list json) (bounds : list (Z * Z)) : list json + err :=
  match select_trace ig skip_null es bounds with
  | (l, None) => inl l
  | (_, Some e) => inr e
  end.

(* --- the specification says what it should --- *)

Lemma nth_error_skipn' {A} (l : list A) : forall n i, nth_error (skipn n l) i = nth_error l (n + i).
Proof.
  induction l as [|x r IH]; intros n i.
  - rewrite skipn_nil. destruct i, n; reflexivity.
  - destruct n; [reflexivity|]. simpl. apply IH.
Qed.

Lemma nth_error_firstn' {A} (l : list A) : forall n i,
  nth_error (firstn n l) i = if (i <? n)%nat then nth_error l i else None.
Proof.
  induction l as [|x r IH]; intros n i.
  - rewrite firstn_nil. destruct i; destruct (_ <? _)%nat; reflexivity.
  - destruct n; [destruct i; reflexivity|]. destruct i; [reflexivity|]. simpl. rewrite IH.
    reflexivity.
Qed.

(* the i-th selected element is the element at position f + i, for i = 0 .. t - f *)
Theorem range_elems_nth es f t i :
  0 <= f ->
  nth_error (range_elems es f t) i =
  if Z.of_nat i <=? t - f then nth_error es (Z.to_nat f + i) else None.
Proof.
  intros Hf. unfold range_elems. rewrite nth_error_firstn', nth_error_skipn'.
  destruct (Z.leb_spec (Z.of_nat i) (t - f)) as [H|H].
  - replace (i <? Z.to_nat (t - f + 1))%nat with true; [reflexivity|].
    symmetry. apply Nat.ltb_lt. lia.
  - replace (i <? Z.to_nat (t - f + 1))%nat with false; [reflexivity|].
    symmetry. apply Nat.ltb_ge. lia.
Qed.

Theorem range_elems_length es f t :
  0 <= f -> t < Z.of_nat (List.length es) ->
  List.length (range_elems es f t) = Z.to_nat (t - f + 1).
Proof.
  intros Hf Ht. unfold range_elems. rewrite firstn_length, skipn_length. lia.
Qed.

Lemma slice_range es f t : slice es f t = range_elems es f t.
Proof.
  unfold slice, range_elems. destruct (Z.ltb_spec t f) as [H|H]; [|reflexivity].
  replace (Z.to_nat (t - f + 1)) with O by lia. reflexivity.
Qed.

(* without clipping need: a subscript within bounds selects exactly from..to *)
Lemma select_one_inbounds ig skip es from to :
  oob (Z.of_nat (List.length es)) from to = false ->
  select_one ig skip es from to =
  inl (if skip then filter (fun x => negb (is_null x)) (range_elems es from to) else range_elems es from to).
Proof.
  intros H. unfold select_one. rewrite H, andb_false_r.
  assert (Hn : ~ (from < 0 \/ from > to \/ to >= Z.of_nat (List.length es))).
  { rewrite <- oob_iff. congruence. }
  replace (Z.max 0 from) with from by lia.
  replace (Z.min (Z.of_nat (List.length es) - 1) to) with to by lia. reflexivity.
Qed.

(* strict mode: out-of-bounds error exactly when from < 0 \/ from > to \/ to >= n *)
Theorem select_one_strict_err skip es from to :
  (exists e, select_one false skip es from to = inr e) <->
  from < 0 \/ from > to \/ to >= Z.of_nat (List.length es).
Proof.
  rewrite <- oob_iff. unfold select_one. cbn [negb andb].
  destruct (oob _ from to); split; intros H; try reflexivity; try discriminate; eauto.
  destruct H; discriminate.
Qed.

(* lax / ig mode: never an error *)
Theorem select_one_ig skip es from to : exists l, select_one true skip es from to = inl l.
Proof. unfold select_one. cbn [negb andb]. eauto. Qed.

Theorem select_trace_ig skip es bounds : snd (select_trace true skip es bounds) = None.
Proof.
  induction bounds as [|[from to] rest IH]; [reflexivity|].
  cbn [select_trace]. destruct (select_one_ig skip es from to) as [l ->].
  rewrite snd_tapp. exact IH.
Qed.

Lemma range_last es :
  es <> [] ->
  range_elems es (Z.of_nat (List.length es) - 1) (Z.of_nat (List.length es) - 1) = [List.last es JNull].
Proof.
  intros Hne. destruct (exists_last Hne) as [pre [x ->]]. rewrite last_last.
  unfold range_elems. rewrite app_length. cbn [List.length].
  replace (Z.to_nat (Z.of_nat (List.length pre + 1) - 1 - (Z.of_nat (List.length pre + 1) - 1) + 1)) with 1%nat by lia.
  replace (Z.to_nat (Z.of_nat (List.length pre + 1) - 1)) with (List.length pre) by lia.
  rewrite skipn_app, skipn_all, Nat.sub_diag. reflexivity.
Qed.

(* ------------------------------------------------------------------ *)
(* index_of: the value of one subscript bound *)

Definition not_single_err : err := EVerbose "jsonpath array subscript is not a single numeric value".

Section Sub.
Variable L : ExecLib.
Variable C : cenv.
Variable Q : quirks.
Notation sem_step := (sem_step L C Q).
Notation sem_chain := (sem_chain L C Q).
Notation laxm := (laxm C).

Lemma index_of_fail l e : index_of L (l, Some e) = inr e.
Proof. reflexivity. Qed.

Lemma index_of_one x : index_of L (tone x) = getJSONInt32 L x.
Proof. reflexivity. Qed.

(* a bound that yields no item or several: error, whatever the mode *)
Lemma index_of_not_single l :
  (forall x, l <> [x]) -> index_of L (l, None) = inr not_single_err.
Proof.
  intros H. unfold index_of; cbn [fst snd]. destruct l as [|x [|y r]]; try reflexivity.
  now elim (H x).
Qed.

Definition is_num (v : json) : bool := match v with JNum _ => true | _ => false end.

Lemma index_of_non_number x :
  is_num x = false -> index_of L (tone x) = inr (EVerbose "array subscript is not a single numeric value").
Proof. destruct x; intros H; try discriminate H; reflexivity. Qed.

Lemma index_of_nan_inf f :
  f_is_inf f || f_is_nan f = true ->
  index_of L (tone (JNum (NFlt f))) = inr (EVerbose "NaN or Infinity is not allowed for array subscript").
Proof. intros H. rewrite index_of_one. cbn [getJSONInt32]. now rewrite H. Qed.

Lemma index_of_int z :
  index_of L (tone (JNum (NInt z))) =
  if in_int32 z then inl z else inr (EVerbose "array subscript is out of integer range").
Proof. reflexivity. Qed.

(* int64(float64) truncates toward zero (the law the instance extract/Instance.v satisfies) *)
Definition to_int64_law : Prop :=
  forall f z, f64_trunc_Z f = Some z -> in_int64 z = true -> xl_to_int64 L f = z.

Lemma trunc_finite f z : f64_trunc_Z f = Some z -> f_is_inf f || f_is_nan f = false.
Proof. destruct f; simpl; intros H; try discriminate H; reflexivity. Qed.

Lemma in_int32_int64 z : in_int32 z = true -> in_int64 z = true.
Proof.
  unfold in_int32, in_int64, min_int32, max_int32, min_int64, max_int64.
  rewrite !andb_true_iff, !Z.leb_le. lia.
Qed.

Lemma index_of_frac f z :
  to_int64_law -> f64_trunc_Z f = Some z -> in_int32 z = true ->
  index_of L (tone (JNum (NFlt f))) = inl z.
Proof.
  intros Hlaw Ht Hz. rewrite index_of_one. cbn [getJSONInt32].
  rewrite (trunc_finite f z Ht), (Hlaw f z Ht (in_int32_int64 z Hz)), Hz. reflexivity.
Qed.

Lemma index_of_frac_oor f z :
  to_int64_law -> f64_trunc_Z f = Some z -> in_int64 z = true -> in_int32 z = false ->
  index_of L (tone (JNum (NFlt f))) = inr (EVerbose "array subscript is out of integer range").
Proof.
  intros Hlaw Ht Hz Hz'. rewrite index_of_one. cbn [getJSONInt32].
  rewrite (trunc_finite f z Ht), (Hlaw f z Ht Hz), Hz'. reflexivity.
Qed.

(* ------------------------------------------------------------------ *)
(* the general theorem: bounds whose values are known *)

(* sub evaluates to the pair (from, to) on the array of size n *)
Definition sub_evals (cur : json) (n : Z) (ig : bool) (v : json) (sub : chain * option chain) (ft : Z * Z) : Prop :=
  index_of L (sem_chain (fst sub) cur n ig laxm v) = inl (fst ft) /\
  match snd sub with
  | Some bn => index_of L (sem_chain bn cur n ig laxm v) = inl (snd ft)
  | None => snd ft = fst ft
  end.

Lemma index_go_app es k cur ig v s1 s2 :
  index_go L C Q es k cur ig v (s1 ++ s2) =
  tapp (index_go L C Q es k cur ig v s1) (index_go L C Q es k cur ig v s2).
Proof.
  induction s1 as [|[a b] r IH]; [now rewrite tapp_nil_l|].
  cbn [app index_go]. destruct (index_of L _) as [from|e]; [|reflexivity].
  destruct (match b with Some _ => _ | None => _ end) as [to|e]; [|reflexivity].
  destruct (negb ig && _); [reflexivity|]. now rewrite IH, tapp_assoc.
Qed.

Lemma index_go_general es k cur ig v subs bounds :
  Forall2 (sub_evals cur (Z.of_nat (List.length es)) ig v) subs bounds ->
  index_go L C Q es k cur ig v subs = tbind_trace (select_trace ig (q_skip_null Q) es bounds) k.
Proof.
  induction 1 as [|[a b] [from to] subs bounds [Ha Hb] _ IH]; [reflexivity|].
  cbn [index_go select_trace fst snd] in *. rewrite Ha.
  assert (Hto : match b with
                | Some bn => index_of L (sem_chain bn cur (Z.of_nat (List.length es)) ig laxm v)
                | None => inl from
                end = inl to).
  { destruct b; [exact Hb | now rewrite Hb]. }
  rewrite Hto. unfold select_one. fold (oob (Z.of_nat (List.length es)) from to).
  destruct (negb ig && oob _ from to); [reflexivity|].
  rewrite tbind_trace_tapp, IH, tbind_trace_ok. f_equal. rewrite slice_range.
  replace (if from <? 0 then 0 else from) with (Z.max 0 from) by (destruct (Z.ltb_spec from 0); lia).
  replace (if to >=? Z.of_nat (List.length es) then Z.of_nat (List.length es) - 1 else to)
    with (Z.min (Z.of_nat (List.length es) - 1) to)
    by (rewrite Z.geb_leb; destruct (Z.leb_spec (Z.of_nat (List.length es)) to); lia).
  reflexivity.
Qed.

(* C14, general form.  [k n ig] is the rest of the path: it sees n as the
   innermost array size.  The selected elements are handed to it in subscript
   order, within a subscript in position order, repeated when subscripts overlap. *)
Theorem subscript_general subs bounds es k cur l ig u v :
  index_target C v = Some es ->
  Forall2 (sub_evals cur (Z.of_nat (List.length es)) ig v) subs bounds ->
  sem_step (SIndex subs) k cur l ig u v =
  tbind_trace (select_trace ig (q_skip_null Q) es bounds) (k (Z.of_nat (List.length es)) ig).
Proof.
  intros Ht Hb. rewrite sem_step_index, Ht. now apply index_go_general.
Qed.

(* what the target is *)
Lemma index_target_array t es : index_target C (JArr t es) = Some es.
Proof. reflexivity. Qed.

(* lax: a non-array behaves as a one-element array *)
Lemma index_target_lax v : c_lax C = true -> is_array v = false -> index_target C v = Some [v].
Proof. intros Hl. unfold index_target, Sem.laxm. rewrite Hl. destruct v; intros H; try discriminate H; reflexivity. Qed.

(* strict: a non-array is an error — even when structural errors are being ignored (ig = true) *)
Theorem subscript_strict_non_array subs k cur l ig u v :
  c_lax C = false -> is_array v = false ->
  sem_step (SIndex subs) k cur l ig u v =
  tfail (EVerbose "jsonpath array accessor can only be applied to an array").
Proof.
  intros Hl Hv. rewrite sem_step_index. unfold index_target, Sem.laxm. rewrite Hl.
  destruct v; try discriminate Hv; reflexivity.
Qed.

(* a bound that is not a single int32 number: error in BOTH modes (the statement
   does not mention c_lax or ig), after the items of the subscripts before it *)
Theorem subscript_bad_from pre bounds a b rest e es k cur l ig u v :
  index_target C v = Some es ->
  Forall2 (sub_evals cur (Z.of_nat (List.length es)) ig v) pre bounds ->
  index_of L (sem_chain a cur (Z.of_nat (List.length es)) ig laxm v) = inr e ->
  sem_step (SIndex (pre ++ (a, b) :: rest)) k cur l ig u v =
  tapp (tbind_trace (select_trace ig (q_skip_null Q) es bounds) (k (Z.of_nat (List.length es)) ig)) (tfail e).
Proof.
  intros Ht Hpre Ha. rewrite sem_step_index, Ht, index_go_app.
  rewrite (index_go_general _ _ _ _ _ _ _ Hpre). f_equal.
  cbn [index_go]. now rewrite Ha.
Qed.

Theorem subscript_bad_to pre bounds a bn from rest e es k cur l ig u v :
  index_target C v = Some es ->
  Forall2 (sub_evals cur (Z.of_nat (List.length es)) ig v) pre bounds ->
  index_of L (sem_chain a cur (Z.of_nat (List.length es)) ig laxm v) = inl from ->
  index_of L (sem_chain bn cur (Z.of_nat (List.length es)) ig laxm v) = inr e ->
  sem_step (SIndex (pre ++ (a, Some bn) :: rest)) k cur l ig u v =
  tapp (tbind_trace (select_trace ig (q_skip_null Q) es bounds) (k (Z.of_nat (List.length es)) ig)) (tfail e).
Proof.
  intros Ht Hpre Ha Hb. rewrite sem_step_index, Ht, index_go_app.
  rewrite (index_go_general _ _ _ _ _ _ _ Hpre). f_equal.
  cbn [index_go]. now rewrite Ha, Hb.
Qed.

(* the errors index_of can produce for a failure-free bound chain are all suppressible-class
   EVerbose errors, except the "should not happen" invalid json.Number *)
Lemma index_of_err_cases (t : trace) e :
  snd t = None -> index_of L t = inr e ->
  is_verbose e = true \/ exists s, fst t = [JNum (NJs s)] /\ js_int64 L s = None /\ js_float64 L s = None.
Proof.
  intros Hs. unfold index_of. rewrite Hs. destruct (fst t) as [|x [|y r]]; try (intros H; injection H as <-; now left).
  destruct x as [| |[z|f|s]| | | |]; cbn [getJSONInt32]; try (intros H; injection H as <-; now left).
  - destruct (in_int32 z); intros H; [discriminate | injection H as <-; now left].
  - destruct (f_is_inf f || f_is_nan f); [intros H; injection H as <-; now left|].
    destruct (in_int32 _); intros H; [discriminate | injection H as <-; now left].
  - destruct (js_int64 L s) as [z|] eqn:E1.
    + destruct (in_int32 z); intros H; [discriminate | injection H as <-; now left].
    + destruct (js_float64 L s) as [[f r]|] eqn:E2.
      * destruct (f_is_inf f || f_is_nan f); [intros H; injection H as <-; now left|].
        destruct (in_int32 _); intros H; [discriminate | injection H as <-; now left].
      * intros _. right. exists s. auto.
Qed.

(* ------------------------------------------------------------------ *)
(* the literal and last-relative bound forms *)

Inductive bform :=
| BInt (z : Z)                 (* 3 *)
| BFrac (f : f64)              (* 1.9 *)
| BLast                        (* last *)
| BLastMinus (k : Z)           (* last - k *)
| BLastPlus (k : Z).           (* last + k *)

Definition bform_chain (b : bform) : chain :=
  match b with
  | BInt z => [SInteger z]
  | BFrac f => [SNumeric f]
  | BLast => [SConst CLast]
  | BLastMinus k => [SBin BSub [SConst CLast] [SInteger k]]
  | BLastPlus k => [SBin BAdd [SConst CLast] [SInteger k]]
  end.

(* the position a bound denotes on an array of n elements: trunc(e), last = n - 1 *)
Definition bform_pos (n : Z) (b : bform) : option Z :=
  match b with
  | BInt z => Some z
  | BFrac f => f64_trunc_Z f
  | BLast => Some (n - 1)
  | BLastMinus k => Some (n - 1 - k)
  | BLastPlus k => Some (n - 1 + k)
  end.

(* ... which must be within int32 *)
Definition bform_val (n : Z) (b : bform) : option Z :=
  match bform_pos n b with
  | Some z => if in_int32 z then Some z else None
  | None => None
  end.

Lemma unwrap_single_num (lx : bool) n : (if lx then unwrapSeq [JNum n] else [JNum n]) = [JNum n].
Proof. destruct lx; reflexivity. Qed.

Lemma sem_chain_last cur n ig u v :
  0 <= n -> sem_chain [SConst CLast] cur n ig u v = tone (JNum (NInt (n - 1))).
Proof.
  intros Hn. rewrite sem_chain_cons, sem_step_last.
  replace (n <? 0) with false by (symmetry; apply Z.ltb_ge; lia). reflexivity.
Qed.

Lemma sem_chain_integer z cur n ig u v : sem_chain [SInteger z] cur n ig u v = tone (JNum (NInt z)).
Proof. now rewrite sem_chain_cons, sem_step_integer. Qed.

Lemma sem_chain_numeric f cur n ig u v : sem_chain [SNumeric f] cur n ig u v = tone (JNum (NFlt f)).
Proof. now rewrite sem_chain_cons, sem_step_numeric. Qed.

Lemma bform_index b n z cur ig u v :
  to_int64_law -> 0 <= n -> bform_val n b = Some z ->
  index_of L (sem_chain (bform_chain b) cur n ig u v) = inl z.
Proof.
  intros Hlaw Hn. unfold bform_val.
  destruct (bform_pos n b) as [p|] eqn:Ep; [|discriminate].
  destruct (in_int32 p) eqn:Ei; [|discriminate]. intros H; injection H as <-.
  destruct b as [z|f| |k|k]; cbn [bform_chain bform_pos] in *.
  - injection Ep as ->. rewrite sem_chain_integer, index_of_int, Ei. reflexivity.
  - rewrite sem_chain_numeric. now apply index_of_frac.
  - injection Ep as <-. rewrite sem_chain_last by exact Hn. rewrite index_of_int, Ei. reflexivity.
  - injection Ep as <-. rewrite sem_chain_cons, sem_step_arith by reflexivity.
    unfold arith_step. rewrite sem_chain_last by exact Hn. cbn [snd fst tone].
    rewrite unwrap_single_num, sem_chain_integer. cbn [snd fst tone]. rewrite unwrap_single_num.
    cbn [execMathOp executeIntegerMath]. rewrite wrap64_id by (now apply in_int32_int64).
    rewrite sem_chain_nil, index_of_int, Ei. reflexivity.
  - injection Ep as <-. rewrite sem_chain_cons, sem_step_arith by reflexivity.
    unfold arith_step. rewrite sem_chain_last by exact Hn. cbn [snd fst tone].
    rewrite unwrap_single_num, sem_chain_integer. cbn [snd fst tone]. rewrite unwrap_single_num.
    cbn [execMathOp executeIntegerMath]. rewrite wrap64_id by (now apply in_int32_int64).
    rewrite sem_chain_nil, index_of_int, Ei. reflexivity.
Qed.

Definition sub_chain (s : bform * option bform) : chain * option chain :=
  (bform_chain (fst s), option_map bform_chain (snd s)).

Definition sub_val (n : Z) (s : bform * option bform) : option (Z * Z) :=
  match bform_val n (fst s) with
  | Some from =>
      match snd s with
      | None => Some (from, from)
      | Some b => match bform_val n b with Some to => Some (from, to) | None => None end
      end
  | None => None
  end.

Fixpoint subs_val (n : Z) (ss : list (bform * option bform)) : option (list (Z * Z)) :=
  match ss with
  | [] => Some []
  | s :: r => match sub_val n s, subs_val n r with
              | Some ft, Some rest => Some (ft :: rest)
              | _, _ => None
              end
  end.

Lemma subs_val_evals n ss : forall bounds cur ig v,
  to_int64_law -> 0 <= n -> subs_val n ss = Some bounds ->
  Forall2 (sub_evals cur n ig v) (map sub_chain ss) bounds.
Proof.
  induction ss as [|[a b] r IH]; intros bounds cur ig v Hlaw Hn H; cbn [subs_val] in H.
  - injection H as <-. constructor.
  - destruct (sub_val n (a, b)) as [[from to]|] eqn:E1; [|discriminate].
    destruct (subs_val n r) as [rest|] eqn:E2; [|discriminate]. injection H as <-.
    cbn [map]. constructor; [|now apply IH].
    unfold sub_val in E1. cbn [fst snd] in E1.
    destruct (bform_val n a) as [fa|] eqn:Ea; [|discriminate].
    unfold sub_evals, sub_chain. cbn [fst snd option_map].
    destruct b as [b|].
    + destruct (bform_val n b) as [tb|] eqn:Eb; [|discriminate]. injection E1 as <- <-.
      split; now apply bform_index.
    + injection E1 as <- <-. split; [now apply bform_index | reflexivity].
Qed.

(* C14 for literal, fractional and last-relative subscripts *)
Theorem subscript_forms ss bounds es k cur l ig u v :
  to_int64_law ->
  index_target C v = Some es ->
  subs_val (Z.of_nat (List.length es)) ss = Some bounds ->
  sem_step (SIndex (map sub_chain ss)) k cur l ig u v =
  tbind_trace (select_trace ig (q_skip_null Q) es bounds) (k (Z.of_nat (List.length es)) ig).
Proof.
  intros Hlaw Ht Hv. apply subscript_general; [exact Ht|].
  apply subs_val_evals; [exact Hlaw | lia | exact Hv].
Qed.

(* the items alone (identity continuation) *)
Corollary subscript_forms_items ss bounds es cur l ig u v :
  to_int64_law ->
  index_target C v = Some es ->
  subs_val (Z.of_nat (List.length es)) ss = Some bounds ->
  sem_step (SIndex (map sub_chain ss)) (fun _ _ x => tone x) cur l ig u v =
  select_trace ig (q_skip_null Q) es bounds.
Proof. intros. erewrite subscript_forms by eassumption. apply tbind_trace_tone_r. Qed.

(* a bound form outside int32: error in both modes *)
Theorem subscript_form_oor b p rest es k cur l ig u v :
  to_int64_law -> index_target C v = Some es ->
  bform_pos (Z.of_nat (List.length es)) b = Some p -> in_int64 p = true -> in_int32 p = false ->
  sem_step (SIndex ((bform_chain b, None) :: rest)) k cur l ig u v =
  tfail (EVerbose "array subscript is out of integer range").
Proof.
  intros Hlaw Ht Hp H64 H32.
  assert (Hn : 0 <= Z.of_nat (List.length es)) by lia.
  rewrite (subscript_bad_from [] [] (bform_chain b) None rest
             (EVerbose "array subscript is out of integer range") es); [reflexivity | exact Ht | constructor |].
  destruct b as [z|f| |kk|kk]; cbn [bform_chain bform_pos] in *.
  - injection Hp as ->. rewrite sem_chain_integer, index_of_int, H32. reflexivity.
  - rewrite sem_chain_numeric. now apply (index_of_frac_oor f p).
  - injection Hp as <-. rewrite sem_chain_last by exact Hn. rewrite index_of_int, H32. reflexivity.
  - injection Hp as <-. rewrite sem_chain_cons, sem_step_arith by reflexivity.
    unfold arith_step. rewrite sem_chain_last by exact Hn. cbn [snd fst tone].
    rewrite unwrap_single_num, sem_chain_integer. cbn [snd fst tone]. rewrite unwrap_single_num.
    cbn [execMathOp executeIntegerMath]. rewrite wrap64_id by exact H64.
    rewrite sem_chain_nil, index_of_int, H32. reflexivity.
  - injection Hp as <-. rewrite sem_chain_cons, sem_step_arith by reflexivity.
    unfold arith_step. rewrite sem_chain_last by exact Hn. cbn [snd fst tone].
    rewrite unwrap_single_num, sem_chain_integer. cbn [snd fst tone]. rewrite unwrap_single_num.
    cbn [execMathOp executeIntegerMath]. rewrite wrap64_id by exact H64.
    rewrite sem_chain_nil, index_of_int, H32. reflexivity.
Qed.

(* NaN / Infinity *)
Theorem subscript_nan_inf f rest es k cur l ig u v :
  index_target C v = Some es -> f_is_inf f || f_is_nan f = true ->
  sem_step (SIndex (([SNumeric f], None) :: rest)) k cur l ig u v =
  tfail (EVerbose "NaN or Infinity is not allowed for array subscript").
Proof.
  intros Ht Hf.
  rewrite (subscript_bad_from [] [] [SNumeric f] None rest
             (EVerbose "NaN or Infinity is not allowed for array subscript") es); [reflexivity | exact Ht | constructor |].
  rewrite sem_chain_numeric. now apply index_of_nan_inf.
Qed.

(* a bound chain yielding no item or more than one: error in both modes *)
Theorem subscript_not_single a b rest es k cur l ig u v :
  index_target C v = Some es ->
  snd (sem_chain a cur (Z.of_nat (List.length es)) ig laxm v) = None ->
  (forall x, fst (sem_chain a cur (Z.of_nat (List.length es)) ig laxm v) <> [x]) ->
  sem_step (SIndex ((a, b) :: rest)) k cur l ig u v = tfail not_single_err.
Proof.
  intros Ht Hs Hf.
  rewrite (subscript_bad_from [] [] a b rest not_single_err es); [reflexivity | exact Ht | constructor |].
  rewrite (trace_eta (sem_chain a _ _ _ _ _)), Hs. now apply index_of_not_single.
Qed.

(* a non-numeric bound *)
Theorem subscript_non_number a b x rest es k cur l ig u v :
  index_target C v = Some es ->
  sem_chain a cur (Z.of_nat (List.length es)) ig laxm v = tone x -> is_num x = false ->
  sem_step (SIndex ((a, b) :: rest)) k cur l ig u v =
  tfail (EVerbose "array subscript is not a single numeric value").
Proof.
  intros Ht Ha Hx.
  rewrite (subscript_bad_from [] [] a b rest (EVerbose "array subscript is not a single numeric value") es);
    [reflexivity | exact Ht | constructor |].
  rewrite Ha. now apply index_of_non_number.
Qed.

(* ------------------------------------------------------------------ *)
(* last *)

(* inside the brackets [last] is n - 1 of THIS array: the value does not depend
   on the size [l] of any enclosing subscripted array, nor on cur *)
Theorem last_is_innermost t es k cur l ig u :
  es <> [] -> Z.of_nat (List.length es) <= max_int32 ->
  sem_step (SIndex [([SConst CLast], None)]) k cur l ig u (JArr t es) =
  tbind_list (if q_skip_null Q then filter (fun x => negb (is_null x)) [List.last es JNull] else [List.last es JNull])
             (k (Z.of_nat (List.length es)) ig).
Proof.
  intros Hne Hsz. set (n := Z.of_nat (List.length es)).
  assert (Hn : 0 < n) by (destruct es; [congruence | unfold n; simpl; lia]).
  rewrite sem_step_index, index_target_array. cbn [index_go]. fold n.
  rewrite sem_chain_last by lia. rewrite index_of_int.
  replace (in_int32 (n - 1)) with true
    by (symmetry; unfold in_int32, min_int32; unfold max_int32 in *; apply andb_true_iff; rewrite !Z.leb_le; lia).
  replace (negb ig && ((n - 1 <? 0) || (n - 1 >? n - 1) || (n - 1 >=? n))) with false.
  2:{ symmetry. apply andb_false_iff; right.
      rewrite !orb_false_iff, Z.ltb_ge, Z.gtb_ltb, Z.ltb_ge, Z.geb_leb, Z.leb_gt. lia. }
  replace (n - 1 <? 0) with false by (symmetry; apply Z.ltb_ge; lia).
  replace (n - 1 >=? n) with false by (symmetry; rewrite Z.geb_leb; apply Z.leb_gt; lia).
  rewrite tapp_nil_r. f_equal.
  assert (Hs : slice es (n - 1) (n - 1) = [List.last es JNull])
    by (rewrite slice_range; unfold n; now apply range_last).
  now rewrite Hs.
Qed.

End Sub.

(* ------------------------------------------------------------------ *)
(* JSON null elements: the documented rule and today's code *)

Theorem C14_null_ideal L C ss bounds es cur l ig u v :
  to_int64_law L -> index_target C v = Some es ->
  subs_val (Z.of_nat (List.length es)) ss = Some bounds ->
  sem_step L C quirks_ideal (SIndex (map sub_chain ss)) (fun _ _ x => tone x) cur l ig u v =
  select_trace ig false es bounds.
Proof. intros. now apply subscript_forms_items. Qed.

Theorem C14_null_code L C ss bounds es cur l ig u v :
  to_int64_law L -> index_target C v = Some es ->
  subs_val (Z.of_nat (List.length es)) ss = Some bounds ->
  sem_step L C quirks_code (SIndex (map sub_chain ss)) (fun _ _ x => tone x) cur l ig u v =
  select_trace ig true es bounds.
Proof. intros. now apply subscript_forms_items. Qed.

(* ------------------------------------------------------------------ *)
(* the law is satisfiable: the function of the extracted instance obeys it *)

Lemma f64_to_int64_law f z : f64_trunc_Z f = Some z -> in_int64 z = true -> f64_to_int64 f = z.
Proof.
  destruct f as [s|s| |s m e]; simpl; intros H Hz; try discriminate H.
  - now injection H as <-.
  - injection H as H. cbv zeta. rewrite H, Hz. reflexivity.
Qed.

Definition exL : ExecLib :=
  mkExecLib (fun _ => None) (fun _ _ _ => None) (fun _ => ""%string) (fun _ => ""%string)
            f64_of_Z f64_to_int64 (fun a _ => a) (fun a => a) (fun a => a) (fun a => a)
            (fun a => a) (fun _ => S754_zero false) (fun _ _ _ => false) (fun _ _ => None)
            (fun _ _ _ => CastInvalid) (fun _ _ _ => CmpInvalid) (fun _ => ""%string) (fun l => map snd l).

Example exL_law : to_int64_law exL.
Proof. exact f64_to_int64_law. Qed.

(* ------------------------------------------------------------------ *)
(* examples *)

Definition num (z : Z) : json := JNum (NInt z).
Definition arr5 : json := JArr 0 [num 10; num 11; num 12; num 13; num 14].
Definition envS (doc : json) : cenv := mkcenv false doc [] false.
Definition envL (doc : json) : cenv := mkcenv true doc [] false.

(* [1, 3 to last, 0 to 1]: subscript order, position order, overlaps repeated *)
Example ex_subs_val :
  subs_val 5 [(BInt 1, None); (BInt 3, Some BLast); (BInt 0, Some (BInt 1))] = Some [(1, 1); (3, 4); (0, 1)].
Proof. reflexivity. Qed.

Example ex_select :
  select_spec false false [num 10; num 11; num 12; num 13; num 14] [(1, 1); (3, 4); (0, 1)]
  = inl [num 11; num 13; num 14; num 10; num 11].
Proof. reflexivity. Qed.

Example ex_sem_select :
  sem_path exL (envS arr5) quirks_ideal
    [SConst CRoot; SIndex (map sub_chain [(BInt 1, None); (BInt 3, Some BLast); (BInt 0, Some (BInt 1))])]
  = ([num 11; num 13; num 14; num 10; num 11], None).
Proof. vm_compute. reflexivity. Qed.

(* 1.9 truncates to 1; -0.5 truncates to 0 *)
Definition f_1_9 : f64 := f64_of_dec false 19 (-1).
Definition f_m0_5 : f64 := f64_of_dec true 5 (-1).
Example ex_trunc : f64_trunc_Z f_1_9 = Some 1 /\ f64_trunc_Z f_m0_5 = Some 0.
Proof. vm_compute. split; reflexivity. Qed.

Example ex_sem_frac :
  sem_path exL (envS arr5) quirks_ideal [SConst CRoot; SIndex (map sub_chain [(BFrac f_1_9, None); (BFrac f_m0_5, None)])]
  = ([num 11; num 10], None).
Proof. vm_compute. reflexivity. Qed.

(* strict: out of bounds is an error, after the items of the earlier subscripts; lax: clipped *)
Example ex_oob_strict :
  sem_path exL (envS arr5) quirks_ideal [SConst CRoot; SIndex (map sub_chain [(BInt 0, None); (BInt 3, Some (BInt 7))])]
  = ([num 10], Some oob_err).
Proof. vm_compute. reflexivity. Qed.

Example ex_oob_lax :
  sem_path exL (envL arr5) quirks_ideal [SConst CRoot; SIndex (map sub_chain [(BInt 0, None); (BInt 3, Some (BInt 7))])]
  = ([num 10; num 13; num 14], None).
Proof. vm_compute. reflexivity. Qed.

(* lax: a non-array is a one-element array; strict: error *)
Example ex_scalar_lax :
  sem_path exL (envL (num 7)) quirks_ideal [SConst CRoot; SIndex (map sub_chain [(BInt 0, None); (BLast, None)])]
  = ([num 7; num 7], None).
Proof. vm_compute. reflexivity. Qed.

Example ex_scalar_strict :
  sem_path exL (envS (num 7)) quirks_ideal [SConst CRoot; SIndex (map sub_chain [(BInt 0, None)])]
  = ([], Some (EVerbose "jsonpath array accessor can only be applied to an array")).
Proof. vm_compute. reflexivity. Qed.

(* out of int32: an error in lax mode too *)
Example ex_oor_lax :
  sem_path exL (envL arr5) quirks_ideal [SConst CRoot; SIndex [([SInteger 3000000000], None)]]
  = ([], Some (EVerbose "array subscript is out of integer range")).
Proof. vm_compute. reflexivity. Qed.

(* nested: in $[0][$[last], last] the inner last is about $ (3 elements), the
   outer one about $[0] (4 elements) *)
Definition nested_doc : json := JArr 0 [JArr 1 [num 100; num 101; num 102; num 103]; num 5; num 2].
Example ex_nested_last :
  sem_path exL (envS nested_doc) quirks_ideal
    [SConst CRoot; SIndex [([SInteger 0], None)];
     SIndex [([SConst CRoot; SIndex [([SConst CLast], None)]], None); ([SConst CLast], None)]]
  = ([num 102; num 103], None).
Proof. vm_compute. reflexivity. Qed.

(* last in a filter inside a subscript still denotes the subscripted array *)
Example ex_last_in_filter :
  sem_path exL (envS arr5) quirks_ideal
    [SConst CRoot; SIndex [([SConst CLast; SUn UFilter [SBin BEq [SConst CCurrent] [SConst CLast]]], None)]]
  = ([num 14], None).
Proof. vm_compute. reflexivity. Qed.

(* JSON null elements: the property (quirks_ideal) includes them, the code (quirks_code) skips them *)
Definition null_doc : json := JArr 0 [JNull; num 1].
Definition null_path : chain := [SConst CRoot; SIndex [([SInteger 0], None)]].

Theorem C14_refuted_null :
  sem_path exL (envS null_doc) quirks_ideal null_path = ([JNull], None) /\
  sem_path exL (envS null_doc) quirks_code null_path = ([], None) /\
  sem_path exL (envS null_doc) quirks_ideal null_path <> sem_path exL (envS null_doc) quirks_code null_path.
Proof. vm_compute. repeat split; discriminate. Qed.
