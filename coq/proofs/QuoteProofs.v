(* QuoteProofs.v — C02/C03, lexical half for quoted text: what ast.quote
   prints, scanString reads back, whatever follows the closing quote.
   (Port of design-notes/prototype/Q.v to model/Lexer.v + model/Printer.v;
   with the \x07 and \u{...} cases of quote there is no excluded class.) *)
From SJ Require Import lib.Base lib.Utf8 lib.GoLib model.Json model.Ast model.Lexer model.Parser model.Printer proofs.LexProofs.
Local Open Scope list_scope.
Notation length := List.length (only parsing).

(* one-step equations of scanEscape on concrete escape letters *)
Lemma check_pos_ok c : 0 < c -> check c = LOk tt.
Proof. intros H. unfold check. replace (c =? 0) with false by lia. replace (c <? 0) with false by lia. reflexivity. Qed.

Lemma next_cons c r : 0 < c -> next (c :: r) = LOk (c, r).
Proof. intros H. cbn [next]. rewrite check_pos_ok by exact H. reflexivity. Qed.

Lemma scan_escape_x t buf : scan_escape (120 :: t) buf = scan_hex t buf.
Proof. reflexivity. Qed.
Lemma scan_escape_u t buf : scan_escape (117 :: t) buf = scan_unicode t buf.
Proof. reflexivity. Qed.
Lemma scan_escape_letter e v t buf :
  In (e, v) [(98, 8); (102, 12); (110, 10); (114, 13); (116, 9); (118, 11)] ->
  scan_escape (e :: t) buf = (let* (c, r') := next t in LOk (c, r', buf ++ [v])).
Proof.
  intros H. cbn [In] in H.
  repeat (destruct H as [H|H]; [inversion H; subst; reflexivity|]). destruct H.
Qed.
Lemma scan_escape_lit c t buf :
  0 < c -> c <> 98 -> c <> 102 -> c <> 110 -> c <> 114 -> c <> 116 -> c <> 118 -> c <> 120 -> c <> 117 ->
  scan_escape (c :: t) buf = (let* (c', r') := next t in LOk (c', r', buf ++ [c])).
Proof.
  intros. unfold scan_escape. rewrite next_cons by assumption. cbn [lbind].
  replace (c =? 98) with false by lia. replace (c =? 102) with false by lia.
  replace (c =? 110) with false by lia. replace (c =? 114) with false by lia.
  replace (c =? 116) with false by lia. replace (c =? 118) with false by lia.
  replace (c =? 120) with false by lia. replace (c =? 117) with false by lia.
  replace (c <? 0) with false by lia. reflexivity.
Qed.

Lemma hex_char_digit d : 0 <= d < 16 -> hex_char (hex_digit d) = d.
Proof.
  intros H. unfold hex_char, hex_digit. destruct (d <? 10) eqn:C.
  - replace ((48 <=? 48 + d) && (48 + d <=? 57)) with true by lia. lia.
  - replace ((48 <=? 87 + d) && (87 + d <=? 57)) with false by lia.
    replace ((97 <=? 87 + d) && (87 + d <=? 102)) with true by lia. lia.
Qed.

Lemma hex_digit_pos d : 0 <= d < 16 -> 0 < hex_digit d /\ hex_digit d <> 123 /\ hex_digit d <> 125.
Proof. intros H. unfold hex_digit. destruct (d <? 10); lia. Qed.

Section Q.
Variable L : GoLib.
Hypothesis HL : Laws L.

(* what the lexer sees of quote_rune r: the rune itself when printed
   literally, the ASCII escape characters otherwise *)
Definition qr_runes (r : Z) : list Z :=
  if r =? 7 then [92; 120; 48; 55]
  else if (65535 <? r) && negb (is_print L r) then [92; 117; 123] ++ hex_min56 r ++ [125]
  else if (r =? 34) || (r =? 92) then [92; r]
  else if is_print L r then [r]
  else quote_rune L r.

Definition good_rune (r : Z) : bool := valid_rune r && negb (r =? 0).

Lemma lex_runes_ascii b t : 0 <= b < 128 ->
  lex_runes_of_bytes (b :: t) = (if b =? 0 then 0 else b) :: lex_runes_of_bytes t.
Proof.
  intros H. unfold lex_runes_of_bytes. cbn [decode_events]. unfold decode_rune.
  replace (b <? 128) with true by lia. cbn [snd Nat.pred map]. f_equal.
  unfold lex_event. cbn [fst snd]. destruct (b =? rune_error) eqn:E; [unfold rune_error in E; lia|].
  cbn. destruct (b =? 0) eqn:Z0; lia.
Qed.

Lemma lex_runes_ascii_list l t :
  Forall (fun b => 0 < b < 128) l -> lex_runes_of_bytes (l ++ t) = l ++ lex_runes_of_bytes t.
Proof.
  induction 1 as [|b l Hb _ IH]; [reflexivity|]. cbn [app].
  rewrite lex_runes_ascii by lia. replace (b =? 0) with false by lia. rewrite IH. reflexivity.
Qed.

Lemma hex_digit_ascii d : 0 <= d < 16 -> 0 < hex_digit d < 128.
Proof. intros H. unfold hex_digit. destruct (d <? 10); lia. Qed.

Ltac hexr := apply hex_digit_ascii; Z.div_mod_to_equations; lia.

(* bytes -> runes for one quoted rune *)
Lemma lex_runes_quote_rune r t :
  good_rune r = true ->
  lex_runes_of_bytes (quote_rune L r ++ t) = qr_runes r ++ lex_runes_of_bytes t.
Proof.
  unfold good_rune. intros G. apply andb_prop in G as [V NZ].
  pose proof V as V'. unfold valid_rune, is_surrogate, max_rune in V'.
  unfold qr_runes, quote_rune.
  destruct (r =? 7); [apply lex_runes_ascii_list; repeat constructor; lia|].
  destruct ((65535 <? r) && negb (is_print L r)) eqn:E1.
  { apply lex_runes_ascii_list. unfold hex_min56.
    destruct (r <? 1048576); cbn [app]; repeat (constructor; [first [lia|hexr]|]); constructor. }
  destruct ((r =? 34) || (r =? 92)) eqn:E2.
  { apply lex_runes_ascii_list. repeat constructor; lia. }
  destruct (is_print L r) eqn:E3.
  { rewrite lex_runes_encode by exact V. reflexivity. }
  repeat match goal with
         | |- context [if ?c then _ else _] => destruct c eqn:?
         end;
    apply lex_runes_ascii_list; repeat (constructor; [first [lia|hexr]|]); constructor.
Qed.

Lemma lex_runes_quote_body rs t :
  forallb good_rune rs = true ->
  lex_runes_of_bytes (flat_map (quote_rune L) rs ++ t) = flat_map qr_runes rs ++ lex_runes_of_bytes t.
Proof.
  induction rs as [|r rs IH]; intros G; [reflexivity|].
  cbn [forallb] in G. apply andb_prop in G as [Gr Grs].
  cbn [flat_map]. rewrite <- !app_assoc. rewrite lex_runes_quote_rune by exact Gr.
  rewrite IH by exact Grs. reflexivity.
Qed.

(* first element of qr_runes is a readable rune *)
Lemma qr_runes_head r : good_rune r = true -> exists c t, qr_runes r = c :: t /\ 0 < c.
Proof.
  unfold good_rune, valid_rune. intros G. unfold qr_runes, quote_rune, hex_min56.
  repeat match goal with
         | |- context [if ?c then _ else _] => destruct c eqn:?
         end; cbn [app]; try (eexists; eexists; split; [reflexivity|lia]).
Qed.

(* ---- one rune: one iteration of the string loop ---- *)
Lemma string_loop_rune f r c' t' buf :
  good_rune r = true -> 0 < c' ->
  match qr_runes r ++ c' :: t' with
  | c :: t => string_loop (S f) c t buf = string_loop f c' t' (buf ++ [r])
  | [] => False
  end.
Proof.
  unfold good_rune, valid_rune, is_surrogate, max_rune. intros G Hc'.
  apply andb_prop in G as [V NZ].
  assert (Hn: next (c' :: t') = LOk (c', t')) by (apply next_cons; exact Hc').
  unfold qr_runes.
  destruct (r =? 7) eqn:E7.
  { assert (r = 7) by lia. subst r. cbn [app]. cbn [string_loop]. cbn [Z.eqb Pos.eqb orb Z.ltb Z.compare].
    rewrite scan_escape_x. unfold scan_hex. cbn [next check lbind Z.eqb Z.ltb Z.compare].
    cbn [hex_char Z.leb Z.compare Pos.compare Pos.compare_cont andb Z.sub Z.add Z.mul Z.ltb Z.pos_sub Z.opp Z.succ_double Z.pred_double Z.double Pos.add Pos.succ Pos.mul Pos.pred_double].
    change (next (c' :: t')) with (lbind (check c') (fun _ => LOk (c', t'))).
    rewrite check_pos_ok by exact Hc'. reflexivity. }
  destruct ((65535 <? r) && negb (is_print L r)) eqn:E1.
  { apply andb_prop in E1 as [Hbig Hnp].
    assert (D: forall d, 0 <= d < 16 -> hex_char (hex_digit d) <? 0 = false)
      by (intros d Hd; rewrite hex_char_digit by exact Hd; lia).
    cbn [app]. cbn [string_loop]. cbn [Z.eqb Pos.eqb orb Z.ltb Z.compare].
    rewrite scan_escape_u. unfold scan_unicode, decode_unicode.
    cbn [next check lbind Z.eqb Z.ltb Z.compare Pos.eqb].
    unfold hex_min56.
    destruct (r <? 1048576) eqn:E5; cbn [app].
    - (* five digits *)
      repeat (rewrite next_cons by (apply hex_digit_pos; Z.div_mod_to_equations; lia); cbn [lbind]).
      cbn [braces].
      repeat (match goal with
              | |- context [hex_digit ?d =? 125] =>
                  replace (hex_digit d =? 125) with false
                    by (symmetry; apply Z.eqb_neq, hex_digit_pos; Z.div_mod_to_equations; lia)
              end;
              rewrite D by (Z.div_mod_to_equations; lia);
              first [ rewrite next_cons by (apply hex_digit_pos; Z.div_mod_to_equations; lia)
                    | rewrite next_cons by lia ];
              cbn [lbind braces]).
      cbn [Z.eqb Pos.eqb]. cbn [lbind].
      rewrite !hex_char_digit by (Z.div_mod_to_equations; lia).
      match goal with |- context [max_rune <? ?e] => replace e with r by (Z.div_mod_to_equations; lia) end.
      unfold max_rune. replace (1114111 <? r) with false by lia. cbn [lbind].
      replace (r =? 0) with false by lia. cbn [lbind].
      unfold is_surrogate. replace ((55296 <=? r) && (r <=? 57343)) with false by lia.
      rewrite Hn. reflexivity.
    - (* six digits *)
      repeat (rewrite next_cons by (apply hex_digit_pos; Z.div_mod_to_equations; lia); cbn [lbind]).
      cbn [braces].
      repeat (match goal with
              | |- context [hex_digit ?d =? 125] =>
                  replace (hex_digit d =? 125) with false
                    by (symmetry; apply Z.eqb_neq, hex_digit_pos; Z.div_mod_to_equations; lia)
              end;
              rewrite D by (Z.div_mod_to_equations; lia);
              first [ rewrite next_cons by (apply hex_digit_pos; Z.div_mod_to_equations; lia)
                    | rewrite next_cons by lia ];
              cbn [lbind braces]).
      cbn [Z.eqb Pos.eqb]. cbn [lbind].
      rewrite !hex_char_digit by (Z.div_mod_to_equations; lia).
      match goal with |- context [max_rune <? ?e] => replace e with r by (Z.div_mod_to_equations; lia) end.
      unfold max_rune. replace (1114111 <? r) with false by lia. cbn [lbind].
      replace (r =? 0) with false by lia. cbn [lbind].
      unfold is_surrogate. replace ((55296 <=? r) && (r <=? 57343)) with false by lia.
      rewrite Hn. reflexivity. }
  destruct ((r =? 34) || (r =? 92)) eqn:E2.
  { cbn [app]. cbn [string_loop]. cbn [Z.eqb Pos.eqb orb Z.ltb Z.compare].
    rewrite scan_escape_lit by lia. rewrite Hn. reflexivity. }
  destruct (is_print L r) eqn:E3.
  { cbn [app]. cbn [string_loop].
    assert (r <> 10).
    { intro; subst r. rewrite (is_print_ascii L HL) in E3 by lia. discriminate. }
    replace (r =? 34) with false by lia. replace ((r =? 10) || (r <? 0)) with false by lia.
    replace (r =? 92) with false by lia. rewrite Hn. reflexivity. }
  unfold quote_rune. rewrite E7, E3, E1, E2.
  assert (R16: r < 65536).
  { destruct (65535 <? r) eqn:B; [|lia]. cbn in E1. discriminate. }
  destruct (r =? 8) eqn:E8; [cbn [app string_loop]; cbn [Z.eqb Pos.eqb orb Z.ltb Z.compare];
    rewrite (scan_escape_letter 98 8) by (cbn; auto); rewrite Hn; assert (r = 8) by lia; subst; reflexivity|].
  destruct (r =? 12) eqn:E12; [cbn [app string_loop]; cbn [Z.eqb Pos.eqb orb Z.ltb Z.compare];
    rewrite (scan_escape_letter 102 12) by (cbn; auto 10); rewrite Hn; assert (r = 12) by lia; subst; reflexivity|].
  destruct (r =? 10) eqn:E10; [cbn [app string_loop]; cbn [Z.eqb Pos.eqb orb Z.ltb Z.compare];
    rewrite (scan_escape_letter 110 10) by (cbn; auto 10); rewrite Hn; assert (r = 10) by lia; subst; reflexivity|].
  destruct (r =? 13) eqn:E13; [cbn [app string_loop]; cbn [Z.eqb Pos.eqb orb Z.ltb Z.compare];
    rewrite (scan_escape_letter 114 13) by (cbn; auto 10); rewrite Hn; assert (r = 13) by lia; subst; reflexivity|].
  destruct (r =? 9) eqn:E9; [cbn [app string_loop]; cbn [Z.eqb Pos.eqb orb Z.ltb Z.compare];
    rewrite (scan_escape_letter 116 9) by (cbn; auto 10); rewrite Hn; assert (r = 9) by lia; subst; reflexivity|].
  destruct (r =? 11) eqn:E11; [cbn [app string_loop]; cbn [Z.eqb Pos.eqb orb Z.ltb Z.compare];
    rewrite (scan_escape_letter 118 11) by (cbn; auto 10); rewrite Hn; assert (r = 11) by lia; subst; reflexivity|].
  destruct ((r <? 32) || (r =? 127)) eqn:EX.
  { cbn [app string_loop]. cbn [Z.eqb Pos.eqb orb Z.ltb Z.compare].
    rewrite scan_escape_x. unfold scan_hex.
    assert (r < 256) by lia.
    rewrite next_cons by (apply hex_digit_pos; Z.div_mod_to_equations; lia). cbn [lbind].
    rewrite hex_char_digit by (Z.div_mod_to_equations; lia).
    replace (r / 16 <? 0) with false by (Z.div_mod_to_equations; lia).
    rewrite next_cons by (apply hex_digit_pos; Z.div_mod_to_equations; lia). cbn [lbind].
    rewrite hex_char_digit by (Z.div_mod_to_equations; lia).
    replace (r mod 16 <? 0) with false by (Z.div_mod_to_equations; lia).
    replace (r / 16 * 16 + r mod 16) with r by (Z.div_mod_to_equations; lia).
    replace (0 <? r) with true by lia. rewrite Hn. reflexivity. }
  cbn [app string_loop]. cbn [Z.eqb Pos.eqb orb Z.ltb Z.compare].
  rewrite scan_escape_u. unfold scan_unicode, decode_unicode.
  rewrite next_cons by (apply hex_digit_pos; Z.div_mod_to_equations; lia). cbn [lbind].
  replace (hex_digit (r / 4096 mod 16) =? 123) with false
    by (symmetry; apply Z.eqb_neq, hex_digit_pos; Z.div_mod_to_equations; lia).
  rewrite !hex_char_digit by (Z.div_mod_to_equations; lia).
  replace (r / 4096 mod 16 <? 0) with false by (Z.div_mod_to_equations; lia).
  rewrite next_cons by (apply hex_digit_pos; Z.div_mod_to_equations; lia). cbn [lbind].
  rewrite !hex_char_digit by (Z.div_mod_to_equations; lia).
  replace (r / 256 mod 16 <? 0) with false by (Z.div_mod_to_equations; lia).
  rewrite next_cons by (apply hex_digit_pos; Z.div_mod_to_equations; lia). cbn [lbind].
  rewrite !hex_char_digit by (Z.div_mod_to_equations; lia).
  replace (r / 16 mod 16 <? 0) with false by (Z.div_mod_to_equations; lia).
  rewrite next_cons by (apply hex_digit_pos; Z.div_mod_to_equations; lia). cbn [lbind].
  rewrite !hex_char_digit by (Z.div_mod_to_equations; lia).
  replace (r mod 16 <? 0) with false by (Z.div_mod_to_equations; lia).
  replace (((r / 4096 mod 16 * 16 + r / 256 mod 16) * 16 + r / 16 mod 16) * 16 + r mod 16) with r
    by (Z.div_mod_to_equations; lia).
  cbn [lbind]. replace (r =? 0) with false by lia. cbn [lbind].
  unfold is_surrogate. replace ((55296 <=? r) && (r <=? 57343)) with false by lia.
  rewrite Hn. reflexivity.
Qed.

Lemma qr_runes_len r : good_rune r = true -> (1 <= length (qr_runes r))%nat.
Proof. intros G. destruct (qr_runes_head r G) as [c [t [E _]]]. rewrite E. cbn. lia. Qed.

Lemma flat_qr_len rs : forallb good_rune rs = true -> (length rs <= length (flat_map qr_runes rs))%nat.
Proof.
  induction rs as [|r rs IH]; intros G; [cbn; lia|].
  cbn [forallb] in G. apply andb_prop in G as [Gr Grs].
  cbn [flat_map length]. rewrite app_length. pose proof (qr_runes_len r Gr). specialize (IH Grs). lia.
Qed.

(* head of the quoted remainder is readable *)
Lemma quoted_tail_head rs rest :
  forallb good_rune rs = true ->
  exists c t, flat_map qr_runes rs ++ 34 :: rest = c :: t /\ 0 < c.
Proof.
  destruct rs as [|r rs]; intros G.
  - exists 34, rest. split; [reflexivity|lia].
  - cbn [forallb] in G. apply andb_prop in G as [Gr _].
    destruct (qr_runes_head r Gr) as [c [t [E P]]].
    cbn [flat_map]. rewrite E. cbn [app]. eexists; eexists; split; [reflexivity|exact P].
Qed.

(* the string loop reads back the quoted body, whatever follows the quote *)
Lemma string_loop_quote rs : forall f buf rest,
  forallb good_rune rs = true -> readable_head rest = true -> (length rs < f)%nat ->
  match flat_map qr_runes rs ++ 34 :: rest with
  | c :: t => string_loop f c t buf = LOk (fst (view rest), snd (view rest), buf ++ rs)
  | [] => False
  end.
Proof.
  induction rs as [|r rs IH]; intros f buf rest G Hr Hf.
  - cbn [flat_map app]. destruct f as [|f]; [cbn in Hf; lia|].
    cbn [string_loop]. cbn [Z.eqb Pos.eqb]. rewrite next_view by exact Hr. cbn [lbind].
    rewrite app_nil_r. destruct (view rest); reflexivity.
  - cbn [forallb] in G. apply andb_prop in G as [Gr Grs].
    destruct f as [|f]; [cbn in Hf; lia|].
    destruct (quoted_tail_head rs rest Grs) as [c' [t' [E P]]].
    cbn [flat_map]. rewrite <- app_assoc. rewrite E.
    pose proof (string_loop_rune f r c' t' buf Gr P) as S1.
    destruct (qr_runes r ++ c' :: t') as [|c t] eqn:EE; [destruct S1|].
    rewrite S1.
    specialize (IH f (buf ++ [r]) rest Grs Hr ltac:(cbn [length] in Hf; lia)).
    rewrite E in IH. rewrite IH. rewrite <- app_assoc. reflexivity.
Qed.

Lemma scan_string_quote rs rest :
  forallb good_rune rs = true -> readable_head rest = true ->
  scan_string (flat_map qr_runes rs ++ 34 :: rest) =
    LOk (fst (view rest), snd (view rest), rs).
Proof.
  intros G Hr. unfold scan_string.
  destruct (quoted_tail_head rs rest G) as [c [t [E P]]].
  pose proof (string_loop_quote rs (S (length (flat_map qr_runes rs ++ 34 :: rest))) [] rest G Hr) as S1.
  rewrite E in *. rewrite next_cons by exact P. cbn [lbind].
  apply S1. pose proof (flat_qr_len rs G).
  assert (length (c :: t) = length (flat_map qr_runes rs ++ 34 :: rest)) by (rewrite E; reflexivity).
  rewrite app_length in H0. cbn [length] in *. lia.
Qed.

(* ---- C03: token independence for quoted strings and quoted variables ---- *)
Theorem string_token_independent rs rest :
  forallb good_rune rs = true -> readable_head rest = true ->
  lex_one L (34 :: flat_map qr_runes rs ++ 34 :: rest) =
    LOk (Some (mktok TString (string_of_runes rs)), fst (view rest), snd (view rest)).
Proof.
  intros G Hr. unfold lex_one. rewrite next_cons by lia. cbn [lbind].
  cbn [lex_tok]. rewrite skip_ws_not by reflexivity. cbn [lbind].
  rewrite (ident_start_false L HL) by (cbn; first [lia|reflexivity]).
  change (is_decimal 34) with false. change (34 <? 0) with false. change (34 =? 34) with true.
  cbn iota. rewrite scan_string_quote by assumption. reflexivity.
Qed.

Theorem variable_token_independent rs rest :
  forallb good_rune rs = true -> readable_head rest = true ->
  lex_one L (36 :: 34 :: flat_map qr_runes rs ++ 34 :: rest) =
    LOk (Some (mktok TVariable (string_of_runes rs)), fst (view rest), snd (view rest)).
Proof.
  intros G Hr. unfold lex_one. rewrite next_cons by lia. cbn [lbind].
  cbn [lex_tok]. rewrite skip_ws_not by reflexivity. cbn [lbind].
  rewrite (ident_start_false L HL) by (cbn; first [lia|reflexivity]).
  change (is_decimal 36) with false. change (36 <? 0) with false. change (36 =? 34) with false.
  change (36 =? 36) with true. cbn iota.
  unfold scan_variable. rewrite next_cons by lia. cbn [lbind].
  change (34 =? 34) with true. cbn iota.
  rewrite scan_string_quote by assumption. reflexivity.
Qed.

(* ---- the printer's side: ast.quote of a lexer text ---- *)
Lemma wf_text_runes s :
  wf_text s = true -> forallb good_rune (runes_of s) = true /\ string_of_runes (runes_of s) = s.
Proof.
  unfold wf_text. intros H. apply andb_prop in H as [A B]. split; [exact A|].
  apply String.eqb_eq. exact B.
Qed.

Lemma quote_lex s t :
  wf_text s = true ->
  lex_runes_of_bytes (quote_bytes L s ++ t) =
    34 :: flat_map qr_runes (runes_of s) ++ 34 :: lex_runes_of_bytes t.
Proof.
  intros W. destruct (wf_text_runes s W) as [G _]. unfold quote_bytes.
  cbn [app]. rewrite lex_runes_ascii by lia. cbn [Z.eqb]. f_equal.
  rewrite <- app_assoc. rewrite lex_runes_quote_body by exact G.
  cbn [app]. rewrite lex_runes_ascii by lia. reflexivity.
Qed.

(* C02, lexical half for every quoted text (string literals, keys, variable
   names, regex patterns, datetime templates): quote s followed by anything
   readable lexes to the STRING token with value s and leaves the rest. *)
Theorem quote_roundtrip s t :
  wf_text s = true -> readable_head (lex_runes_of_bytes t) = true ->
  lex_one L (lex_runes_of_bytes (quote_bytes L s ++ t)) =
    LOk (Some (mktok TString s), fst (view (lex_runes_of_bytes t)), snd (view (lex_runes_of_bytes t))).
Proof.
  intros W Hr. rewrite quote_lex by exact W.
  destruct (wf_text_runes s W) as [G E].
  rewrite string_token_independent by assumption. rewrite E. reflexivity.
Qed.

Theorem quote_var_roundtrip s t :
  wf_text s = true -> readable_head (lex_runes_of_bytes t) = true ->
  lex_one L (lex_runes_of_bytes (36 :: quote_bytes L s ++ t)) =
    LOk (Some (mktok TVariable s), fst (view (lex_runes_of_bytes t)), snd (view (lex_runes_of_bytes t))).
Proof.
  intros W Hr. rewrite lex_runes_ascii by lia. cbn [Z.eqb]. rewrite quote_lex by exact W.
  destruct (wf_text_runes s W) as [G E].
  rewrite variable_token_independent by assumption. rewrite E. reflexivity.
Qed.
End Q.

Print Assumptions quote_roundtrip.
Print Assumptions quote_var_roundtrip.
