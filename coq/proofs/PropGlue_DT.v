(* PropGlue_DT.v — glue for props/C17.v and props/C18.v: short corollaries of
   proofs/DateTimeProofs.v, the link of the datetime leaf functions to the
   method leaves of the model (model/Leaf.v with the concrete library
   extract/Instance.mk_lib), finite matrices and concrete witnesses by
   computation, and the tie of the layouts of model/GoTime.v to the table
   gen/Layouts.v (regenerated from the Go sources on every run).
   Stdlib + lia only.  Every statement is followed by Print Assumptions. *)
From SJ Require Import lib.Base model.Json model.Ast model.ExecLib model.Leaf
     proofs.KleeneProofs proofs.CompareProofs
     model.Civil model.GoTime model.DateTime extract.Instance proofs.DateTimeProofs gen.Layouts.
Open Scope Z_scope.

(* ================================================================== *)
(* 1. The matrices, explicitly                                         *)
(* ================================================================== *)

Example convertible_pairs :
  filter (fun p => convertible (fst p) (snd p)) (list_prod all_targets all_kinds)
  = [(TDate, KDate); (TDate, KTimestamp); (TDate, KTimestampTZ);
     (TTime, KTime); (TTime, KTimeTZ); (TTime, KTimestamp); (TTime, KTimestampTZ);
     (TTimeTZ, KTime); (TTimeTZ, KTimeTZ); (TTimeTZ, KTimestampTZ);
     (TTimestamp, KDate); (TTimestamp, KTimestamp); (TTimestamp, KTimestampTZ);
     (TTimestampTZ, KDate); (TTimestampTZ, KTimestamp); (TTimestampTZ, KTimestampTZ)].
Proof. reflexivity. Qed.
Print Assumptions convertible_pairs.

Example incomparable_pairs :
  filter (fun p => negb (comparable (fst p) (snd p))) (list_prod all_kinds all_kinds)
  = [(KDate, KTime); (KDate, KTimeTZ);
     (KTime, KDate); (KTime, KTimestamp); (KTime, KTimestampTZ);
     (KTimeTZ, KDate); (KTimeTZ, KTimestamp); (KTimeTZ, KTimestampTZ);
     (KTimestamp, KTime); (KTimestamp, KTimeTZ);
     (KTimestampTZ, KTime); (KTimestampTZ, KTimeTZ)].
Proof. reflexivity. Qed.
Print Assumptions incomparable_pairs.

Example compare_tz_pairs :
  filter (fun p => comparable (fst p) (snd p) && mixes (fst p) (snd p)) (list_prod all_kinds all_kinds)
  = [(KDate, KTimestampTZ); (KTime, KTimeTZ); (KTimeTZ, KTime);
     (KTimestamp, KTimestampTZ); (KTimestampTZ, KDate); (KTimestampTZ, KTimestamp)].
Proof. reflexivity. Qed.
Print Assumptions compare_tz_pairs.

(* a successful cast returns a value of the requested type *)
Lemma exec_cast_kind t u ctx d d' : exec_cast t u ctx d = CastOk d' -> dt_kind d' = target_kind t.
Proof.
  destruct d as [k s n o]; destruct t, k, u; cbn; intros H; try discriminate H;
    injection H as <-; reflexivity.
Qed.
Print Assumptions exec_cast_kind.

(* ================================================================== *)
(* 2. The method leaves of the model over the concrete library          *)
(* ================================================================== *)

(* .m() for a cast method m without a precision argument, WithTZ off: a
   string that parses to a value whose cast to m's type mixes zone-less and
   zone-aware is answered with an EExec error (the class that is never
   suppressed: model/Leaf.v). *)
Lemma leaf_datetime_tz_required ctx re members op src d :
  op <> DDateTime -> parse_time ctx src (-1) = Some d ->
  convertible (target_of op) (dt_kind d) = true ->
  mixes (target_kind (target_of op)) (dt_kind d) = true ->
  leaf_datetime (mk_lib ctx re members) false op None None (JStr src)
  = LErr (EExec "cannot convert value without time zone usage").
Proof.
  intros Hop Hp Hc Hm.
  pose proof (proj1 cast_tz_guard (target_of op) ctx d Hc Hm) as Hg.
  destruct op; try congruence; cbn; rewrite Hp; cbn in Hg |- *; rewrite Hg; reflexivity.
Qed.
Print Assumptions leaf_datetime_tz_required.

(* ... and with WithTZ the same call returns the cast value *)
Lemma leaf_datetime_with_tz ctx re members op src d :
  op <> DDateTime -> parse_time ctx src (-1) = Some d ->
  convertible (target_of op) (dt_kind d) = true ->
  exists d', exec_cast (target_of op) true ctx d = CastOk d' /\
    leaf_datetime (mk_lib ctx re members) true op None None (JStr src) = LItem (JDt d').
Proof.
  intros Hop Hp Hc.
  destruct d as [k s n o]; destruct op; try congruence; destruct k; try discriminate Hc;
    eexists; (split; [reflexivity|]); cbn; rewrite Hp; reflexivity.
Qed.
Print Assumptions leaf_datetime_with_tz.

(* .datetime() keeps the parsed (most specific) type, whatever WithTZ *)
Lemma leaf_datetime_keeps_type ctx re members u src :
  leaf_datetime (mk_lib ctx re members) u DDateTime None None (JStr src)
  = match parse_time ctx src (-1) with
    | Some d => LItem (JDt d)
    | None => LErr (EVerbose "datetime format is not recognized")
    end.
Proof. cbn. destruct (parse_time ctx src (-1)); reflexivity. Qed.
Print Assumptions leaf_datetime_keeps_type.

(* .string() on a datetime item prints String() *)
Lemma leaf_string_datetime ctx re members d :
  leaf_string (mk_lib ctx re members) (JDt d) = LItem (JStr (dt_string d)).
Proof. reflexivity. Qed.
Print Assumptions leaf_string_datetime.

(* hence .string() followed by .datetime() gives the value back *)
Lemma leaf_string_datetime_roundtrip ctx re members u d :
  printable d ->
  leaf_datetime (mk_lib ctx re members) u DDateTime None None (JStr (dt_string d)) = LItem (JDt d).
Proof. intros Hp. rewrite leaf_datetime_keeps_type, string_parse_roundtrip by exact Hp. reflexivity. Qed.
Print Assumptions leaf_string_datetime_roundtrip.

(* the comparison operators of the model on two datetime items: the four
   answers of compare_datetime (CompareProofs.C12_dt_results at mk_lib) *)
Lemma compare_items_datetimes ctx re members u op a b :
  is_cmp op = true ->
  compareItems (mk_lib ctx re members) u op (JDt a) (JDt b) =
  match compare_datetime u ctx a b with
  | CmpOk c => Ret (predFrom (truth op c), None)
  | CmpIncomparable => Ret (PUnknown, None)
  | CmpTZRequired => Ret (PUnknown, Some (EExec "tzRequiredCast"))
  end.
Proof.
  intros H. rewrite C12_dt_results by exact H. cbn [xl_dt_compare mk_lib].
  destruct (compare_datetime u ctx a b); reflexivity.
Qed.
Print Assumptions compare_items_datetimes.

(* ================================================================== *)
(* 3. What ParseTime returns is well formed                            *)
(* ================================================================== *)

Lemma adjust_precision_ok v p : parsed_ok v -> parsed_ok (adjust_precision v p).
Proof.
  intros [Hn [o Hl]]. unfold adjust_precision.
  destruct (Z.ltb_spec (-1) p) as [Hp|Hp]; [|split; [exact Hn|eauto]].
  destruct (Z.leb_spec p 9) as [H9|H9].
  - destruct (prec_duration_unit p ltac:(lia)) as [-> Hin].
    destruct (go_round_unit v _ Hin Hn) as (Hn' & Hl' & _). split; [exact Hn'|]. rewrite Hl'. eauto.
  - unfold prec_duration, go_round.
    replace (p <? 0) with false by (symmetry; apply Z.ltb_ge; lia).
    replace (p <=? 9) with false by (symmetry; apply Z.leb_gt; lia).
    split; [exact Hn|eauto].
Qed.

(* for every source string and every precision: the invariants of the
   constructors (the hypothesis wf_dt of the theorems of C17/C18) *)
Theorem parse_time_wf ctx src p d : parse_time ctx src p = Some d -> wf_dt d.
Proof.
  unfold parse_time. destruct (parse_raw src) as [[k v]|] eqn:E; [|discriminate].
  intros H; injection H as <-.
  pose proof (adjust_precision_ok v p (parse_raw_ok _ _ _ E)) as [Hn _].
  destruct (parse_raw_ok _ _ _ E) as [Hn0 _].
  set (v' := adjust_precision v p) in *.
  destruct k; cbn [build_parsed]; fold v';
    [ rewrite new_date_nf
    | rewrite new_time_nf by exact Hn
    | rewrite new_timetz_nf by exact Hn
    | rewrite new_timestamp_nf by exact Hn
    | rewrite new_timestamptz_nf by exact Hn ];
    pose proof (g_sod_range v'); unfold nsec_ok in Hn;
    unfold wf_dt, wf_nsec; cbn [dt_kind dt_sec dt_nsec dt_off]; rewrite ?day0_val; lia.
Qed.
Print Assumptions parse_time_wf.

(* ================================================================== *)
(* 4. Concrete witnesses                                               *)
(* ================================================================== *)

Definition ctx_utc : dctx := mkctx (ZFixed 0) 0 0.

(* the documented input forms and the type each is given (the most
   specific one); 1438516800 = 2015-08-02T12:00:00Z, day0*86400 = -62167219200 *)
Example parse_forms :
  parse_time ctx_utc "2015-08-02" (-1) = Some (mkdt KDate 1438473600 0 0) /\
  parse_time ctx_utc "12:00:00" (-1) = Some (mkdt KTime (-62167176000) 0 0) /\
  parse_time ctx_utc "12:00:00.25" (-1) = Some (mkdt KTime (-62167176000) 250000000 0) /\
  parse_time ctx_utc "12:00:00+05" (-1) = Some (mkdt KTimeTZ (-62167194000) 0 18000) /\
  parse_time ctx_utc "12:00:00-05:30" (-1) = Some (mkdt KTimeTZ (-62167156200) 0 (-19800)) /\
  parse_time ctx_utc "12:00:00Z" (-1) = Some (mkdt KTimeTZ (-62167176000) 0 0) /\
  parse_time ctx_utc "2015-08-02T12:00:00" (-1) = Some (mkdt KTimestamp 1438516800 0 0) /\
  parse_time ctx_utc "2015-08-02 12:00:00" (-1) = Some (mkdt KTimestamp 1438516800 0 0) /\
  parse_time ctx_utc "2015-08-02T12:00:00Z" (-1) = Some (mkdt KTimestampTZ 1438516800 0 0) /\
  parse_time ctx_utc "2015-08-02 12:00:00+05" (-1) = Some (mkdt KTimestampTZ 1438498800 0 18000) /\
  parse_time ctx_utc "2015-08-02T12:00:00.5-04:00" (-1) = Some (mkdt KTimestampTZ 1438531200 500000000 (-14400)) /\
  parse_time ctx_utc "2015-08-02T12" (-1) = None /\
  parse_time ctx_utc "2015-13-02" (-1) = None /\
  parse_time ctx_utc "2015-02-30" (-1) = None /\
  parse_time ctx_utc "" (-1) = None.
Proof. vm_compute. repeat split. Qed.
Print Assumptions parse_forms.

(* rounding to the precision, halfway cases up, carrying into the next day *)
Example precision_witness :
  parse_time ctx_utc "2015-12-31T23:59:59.9999995" 6 = Some (mkdt KTimestamp 1451606400 0 0) /\
  parse_time ctx_utc "2015-12-31T23:59:59.9999994" 6 = Some (mkdt KTimestamp 1451606399 999999000 0) /\
  parse_time ctx_utc "12:00:00.125" 2 = Some (mkdt KTime (-62167176000) 130000000 0) /\
  parse_time ctx_utc "23:59:59.5" 0 = Some (mkdt KTime (-62167219200) 0 0) /\
  exec_parse_datetime ctx_utc true "12:00:00.1234567" (Some 7) = PDOk (mkdt KTime (-62167176000) 123457000 0) /\
  exec_parse_datetime ctx_utc true "12:00:00" (Some (-1)) = PDBadPrecision.
Proof. vm_compute. repeat split. Qed.
Print Assumptions precision_witness.

(* the unit test of the fixed finding (commit 7b56af4): under a context
   zone of -04:00 a date equals its midnight in that zone, and after the
   explicit casts to timestamptz as well; without WithTZ both are refused. *)
Example context_zone_witness :
  let ctx := mkctx (ZFixed (-14400)) 0 0 in
  let a := mkdt KDate 1438473600 0 0 in                  (* 2015-08-02 *)
  let b := mkdt KTimestampTZ 1438488000 0 (-14400) in    (* 2015-08-02T00:00:00-04:00 *)
  parse_time ctx "2015-08-02" (-1) = Some a /\
  parse_time ctx "2015-08-02T00:00:00-04:00" (-1) = Some b /\
  compare_datetime true ctx a b = CmpOk 0 /\
  exec_cast TTimestampTZ true ctx a = CastOk b /\
  compare_datetime false ctx a b = CmpTZRequired /\
  exec_cast TTimestampTZ false ctx a = CastTZRequired.
Proof. vm_compute. repeat split. Qed.
Print Assumptions context_zone_witness.

(* one printable value of each type, its String() and its JSON encoding *)
Example printable_witnesses :
  let d1 := mkdt KDate 1438473600 0 0 in
  let d2 := mkdt KTime (-62167176000) 250000000 0 in
  let d3 := mkdt KTimeTZ (-62167156200) 0 (-19800) in
  let d4 := mkdt KTimestamp 1438516800 120000000 0 in
  let d5 := mkdt KTimestampTZ 1438531200 500000000 (-14400) in
  (printable d1 /\ printable d2 /\ printable d3 /\ printable d4 /\ printable d5) /\
  dt_string d1 = "2015-08-02"%string /\
  dt_string d2 = "12:00:00.25"%string /\
  dt_string d3 = "12:00:00-05:30"%string /\
  dt_string d4 = "2015-08-02T12:00:00.12"%string /\
  dt_string d5 = "2015-08-02T12:00:00.5-04:00"%string /\
  dt_marshal_json d5 = String ch_quote ("2015-08-02T12:00:00.5-04:00" ++ String ch_quote "")%string.
Proof.
  cbv zeta. split; [|vm_compute; repeat split].
  unfold printable, wf_dt, wf_nsec, year_ok, off_ok. cbn [dt_kind dt_sec dt_nsec dt_off].
  repeat split; try (vm_compute; congruence); try exact I.
Qed.
Print Assumptions printable_witnesses.

(* the side conditions of the round trips are needed *)
Example roundtrip_year_counterexample :
  let d := mkdt KDate 253402300800 0 0 in       (* 10000-01-01 *)
  wf_dt d /\ dt_string d = "10000-01-01"%string /\ parse_time ctx_utc (dt_string d) (-1) = None.
Proof.
  cbv zeta. split; [|vm_compute; split; reflexivity].
  unfold wf_dt, wf_nsec. cbn. repeat split; try (vm_compute; congruence).
Qed.
Print Assumptions roundtrip_year_counterexample.

Example roundtrip_offset_counterexample :
  let d := mkdt KTimestampTZ 0 0 30 in          (* an offset of thirty seconds *)
  wf_dt d /\ dt_string d = "1970-01-01T00:00:30+00:00"%string /\
  parse_time ctx_utc (dt_string d) (-1) = Some (mkdt KTimestampTZ 30 0 0) /\
  dt_unmarshal_json KTimestampTZ (dt_marshal_json d) = Ret (Some (mkdt KTimestampTZ 30 0 0)).
Proof.
  cbv zeta. split; [|vm_compute; repeat split].
  unfold wf_dt, wf_nsec. cbn. repeat split; try (vm_compute; congruence).
Qed.
Print Assumptions roundtrip_offset_counterexample.

(* UnmarshalJSON on the inputs of the fixed finding (commit edf72c0): errors,
   not panics (None is the error return) *)
Example unmarshal_hostile_witness :
  dt_unmarshal_json KTimeTZ "1" = Ret None /\
  dt_unmarshal_json KTimeTZ "null" = Ret None /\
  dt_unmarshal_json KTimeTZ (String ch_quote (String ch_quote "")) = Ret None /\
  dt_unmarshal_json KTimeTZ (String ch_quote "") = Ret None /\
  dt_unmarshal_json KTimeTZ "" = Ret None /\
  dt_unmarshal_json KTimestampTZ "12" = Ret None /\
  dt_unmarshal_json KDate "20" = Ret None /\
  dt_unmarshal_json KTime "true" = Ret None /\
  dt_unmarshal_json KTimestamp "[]" = Ret None.
Proof. vm_compute. repeat split. Qed.
Print Assumptions unmarshal_hostile_witness.

(* ================================================================== *)
(* 5. The layouts of the model are those of the Go sources              *)
(* ================================================================== *)

(* gen/Layouts.time_layouts is regenerated from path/types/*.go on every run
   (the named constants, then the literals of the ParseTime cascade in source
   order).  layout_items (model/GoTime.v) is nextStdChunk restricted to the
   chunks the model implements; it answers None on anything else.  So a
   change of a layout constant in the Go sources breaks these Examples. *)

(* every entry of the table is one of the item lists of the model *)
Example layouts_table_items :
  map (fun p => (fst p, layout_items (snd p))) time_layouts =
  [("dateFormat", Some lay_date);
   ("timeFormat", Some lay_time);
   ("timestampFormat", Some (lay_ts ch_T));
   ("timestampTZSecondFormat", Some (lay_tstz ch_T TZColonSec));
   ("timestampTZMinuteFormat", Some (lay_tstz ch_T TZColon));
   ("timestampTZHourFormat", Some (lay_tstz ch_T TZShort));
   ("timestampTZOutputFormat", Some lay_tstz_out);
   ("timeTZSecondFormat", Some (lay_timetz TZColonSec));
   ("timeTZMinuteFormat", Some (lay_timetz TZColon));
   ("timeTZHourFormat", Some (lay_timetz TZShort));
   ("timeTZOutputFormat", Some lay_timetz_out);
   ("ParseTime_00", Some lay_date);
   ("ParseTime_01", Some (lay_timetz TZShort));
   ("ParseTime_02", Some (lay_timetz TZColon));
   ("ParseTime_03", Some lay_time);
   ("ParseTime_04", Some (lay_tstz ch_T TZShort));
   ("ParseTime_05", Some (lay_tstz ch_space TZShort));
   ("ParseTime_06", Some (lay_tstz ch_T TZColon));
   ("ParseTime_07", Some (lay_tstz ch_space TZColon));
   ("ParseTime_08", Some (lay_ts ch_T));
   ("ParseTime_09", Some (lay_ts ch_space))]%string.
Proof. vm_compute. reflexivity. Qed.
Print Assumptions layouts_table_items.

(* the cascade of ParseTime, in source order, is the cascade of parse_raw *)
Example layouts_cascade :
  map (fun p => layout_items (snd p))
      (filter (fun p => str_prefix "ParseTime_" (fst p)) time_layouts) =
  map Some ([lay_date] ++ timetz_layouts ++ [lay_time] ++ tstz_layouts ++ ts_layouts).
Proof. vm_compute. reflexivity. Qed.
Print Assumptions layouts_cascade.

(* String()/MarshalJSON: the constant each type formats with is the layout
   dt_string uses, and it is literally the ISO-8601 form with a nine-digit
   optional fraction *)
Example layouts_output :
  let lookup n := match find (fun p => String.eqb (fst p) n) time_layouts with
                  | Some p => Some (snd p) | None => None end in
  let names := ["dateFormat"; "timeFormat"; "timeTZOutputFormat"; "timestampFormat";
                "timestampTZOutputFormat"]%string in
  map lookup names =
    [Some "2006-01-02"; Some "15:04:05.999999999"; Some "15:04:05.999999999-07:00";
     Some "2006-01-02T15:04:05.999999999"; Some "2006-01-02T15:04:05.999999999-07:00"]%string /\
  map (fun n => match lookup n with Some s => layout_items s | None => None end) names =
    map (fun k => Some (out_layout k)) [KDate; KTime; KTimeTZ; KTimestamp; KTimestampTZ].
Proof. vm_compute. split; reflexivity. Qed.
Print Assumptions layouts_output.

(* UnmarshalJSON: the constant each type (and each detected zone form)
   parses with is the layout dt_unmarshal_json uses *)
Example layouts_unmarshal :
  let lookup n := match find (fun p => String.eqb (fst p) n) time_layouts with
                  | Some p => layout_items (snd p) | None => None end in
  map lookup ["dateFormat"; "timeFormat"; "timestampFormat";
              "timeTZSecondFormat"; "timeTZMinuteFormat"; "timeTZHourFormat";
              "timestampTZSecondFormat"; "timestampTZMinuteFormat"; "timestampTZHourFormat"]%string =
  map Some ([lay_date; lay_time; lay_ts ch_T] ++
            map lay_timetz [TZColonSec; TZColon; TZShort] ++
            map (lay_tstz ch_T) [TZColonSec; TZColon; TZShort]).
Proof. vm_compute. reflexivity. Qed.
Print Assumptions layouts_unmarshal.
