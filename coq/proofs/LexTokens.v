(* LexTokens.v — C03 for identifiers and for the number forms other than
   plain decimal integers: "the value of a token never depends on what
   follows it, end of input included".

   Part A: identifiers (scanIdent / scanEscape), every spelling of every
           identifier character, an escape as the last thing in the input
           included.
   Part B: numbers (scanNumber): 0, prefixed integers, '_' separators,
           all NUMERIC forms; then the value statements. *)
From SJ Require Import lib.Base lib.Utf8 lib.GoLib model.Json model.Ast model.Lexer model.Parser
  proofs.LexProofs proofs.QuoteProofs.
Local Open Scope list_scope.
Notation length := List.length (only parsing).

(* ================================================================== *)
(* small facts *)

Lemma next_view' l : readable_head l = true -> next l = LOk (fst (view l), snd (view l)).
Proof. intros H. rewrite next_view by exact H. destruct (view l); reflexivity. Qed.

Lemma view_cons c t : view (c :: t) = (c, t).
Proof. reflexivity. Qed.

Lemma readable_app_cons c t r : 0 < c -> readable_head ((c :: t) ++ r) = true.
Proof. intros H. cbn. lia. Qed.

Lemma hex_char_ge0 c : 0 <= hex_char c -> 48 <= c <= 102.
Proof.
  unfold hex_char.
  destruct ((48 <=? c) && (c <=? 57)) eqn:A; [lia|].
  destruct ((97 <=? c) && (c <=? 102)) eqn:B; [lia|].
  destruct ((65 <=? c) && (c <=? 70)) eqn:C; lia.
Qed.

Lemma hex_char_lt16 c : hex_char c < 16.
Proof.
  unfold hex_char.
  destruct ((48 <=? c) && (c <=? 57)) eqn:A; [lia|].
  destruct ((97 <=? c) && (c <=? 102)) eqn:B; [lia|].
  destruct ((65 <=? c) && (c <=? 70)) eqn:C; lia.
Qed.

(* ================================================================== *)
(* Part A: identifiers *)

(* what follows "\u": four hex digits, or a braced group of 1..6 hex digits *)
Inductive uform :=
| U4 (a b c d : Z)
| UB (ds : list Z).

Definition hexval (l : list Z) (acc : Z) : Z := fold_left (fun a c => a * 16 + hex_char c) l acc.

Definition uspell (u : uform) : list Z :=
  match u with
  | U4 a b c d => [a; b; c; d]
  | UB ds => 123 :: ds ++ [125]
  end.

Definition uval (u : uform) : Z :=
  match u with
  | U4 a b c d => ((hex_char a * 16 + hex_char b) * 16 + hex_char c) * 16 + hex_char d
  | UB ds => hexval ds 0
  end.

Definition is_hexc (c : Z) : bool := 0 <=? hex_char c.

Definition uform_ok (u : uform) : bool :=
  match u with
  | U4 a b c d => is_hexc a && is_hexc b && is_hexc c && is_hexc d
  | UB ds => forallb is_hexc ds && (1 <=? Z.of_nat (length ds)) && (Z.of_nat (length ds) <=? 6)
             && (hexval ds 0 <=? max_rune)
  end.

(* the spellings of one identifier character *)
Inductive item :=
| IRaw (r : Z)              (* the rune itself *)
| ILetter (e v : Z)         (* \b \f \n \r \t \v *)
| IHex (a b : Z)            (* \xHH *)
| IUni (u : uform)          (* \uHHHH or \u{H...}, not a surrogate *)
| IPair (h l : uform)       (* high surrogate, low surrogate; each \uHHHH or \u{H...} *)
| ILit (c : Z).             (* \c, any other rune *)

Definition spell (it : item) : list Z :=
  match it with
  | IRaw r => [r]
  | ILetter e _ => [92; e]
  | IHex a b => [92; 120; a; b]
  | IUni u => 92 :: 117 :: uspell u
  | IPair h l => 92 :: 117 :: uspell h ++ 92 :: 117 :: uspell l
  | ILit c => [92; c]
  end.

Definition value (it : item) : Z :=
  match it with
  | IRaw r => r
  | ILetter _ v => v
  | IHex a b => hex_char a * 16 + hex_char b
  | IUni u => uval u
  | IPair h l => (uval h - 55296) * 1024 + (uval l - 56320) + 65536
  | ILit c => c
  end.

Definition letter_table : list (Z * Z) := [(98, 8); (102, 12); (110, 10); (114, 13); (116, 9); (118, 11)].

Section Ident.
Variable L : GoLib.
Hypothesis HL : Laws L.

(* [item_ok first it]: the spelling is one the lexer accepts for an identifier
   character ([first]: in first position; only matters for raw runes) *)
Definition item_ok (first : bool) (it : item) : Prop :=
  match it with
  | IRaw r => is_ident_rune L r first = true /\ r <> 92
  | ILetter e v => In (e, v) letter_table
  | IHex a b => is_hexc a = true /\ is_hexc b = true /\ 0 < hex_char a * 16 + hex_char b
  | IUni u => uform_ok u = true /\ uval u <> 0 /\ is_surrogate (uval u) = false
  | IPair h l => uform_ok h = true /\ uform_ok l = true /\
                 55296 <= uval h < 56320 /\ 56320 <= uval l < 57344
  | ILit c => 0 < c /\ c <> 98 /\ c <> 102 /\ c <> 110 /\ c <> 114 /\ c <> 116 /\ c <> 118
              /\ c <> 120 /\ c <> 117
  end.

(* what may follow an identifier: end of input, or a readable rune that does
   not continue an identifier *)
Definition ident_boundary (rest : list Z) : bool :=
  match rest with
  | [] => true
  | c :: _ => (0 <? c) && negb (is_ident_rune L c false)
  end.

Lemma ident_boundary_readable rest : ident_boundary rest = true -> readable_head rest = true.
Proof. destruct rest as [|c r]; cbn; [reflexivity|]. intros H. apply andb_prop in H as [H _]. exact H. Qed.

Lemma ident_rune_pos r b : is_ident_rune L r b = true -> 0 < r.
Proof.
  intros H. pose proof (is_ident_rune_nonneg L _ _ H) as N.
  destruct (Z.eq_dec r 0) as [E|E]; [|lia]. subst r. exfalso.
  unfold is_ident_rune in H. cbn [Z.eqb orb Z.leb Z.compare andb] in H.
  rewrite (xid_start_ascii L HL), (xid_continue_ascii L HL) in H by lia.
  destruct b; discriminate.
Qed.

(* ---- \u forms ---- *)
Lemma braces_run : forall ds n rr t,
  forallb is_hexc ds = true -> (length ds <= n)%nat ->
  braces n rr (fst (view (ds ++ 125 :: t))) (snd (view (ds ++ 125 :: t))) = LOk (hexval ds rr, t).
Proof.
  induction ds as [|c ds IH]; intros n rr t Hh Hn.
  - cbn [app view fst snd hexval fold_left]. destruct n; reflexivity.
  - cbn [forallb] in Hh. apply andb_prop in Hh as [Hc Hds].
    destruct n as [|n]; [cbn in Hn; lia|].
    unfold is_hexc in Hc. pose proof (hex_char_ge0 c ltac:(lia)) as Rc.
    cbn [app view fst snd braces].
    replace (c =? 125) with false by lia.
    replace (hex_char c <? 0) with false by lia.
    rewrite next_view'.
    + cbn [lbind]. rewrite IH; [reflexivity|exact Hds|cbn in Hn; lia].
    + destruct ds as [|d ds']; [reflexivity|]. cbn [forallb] in Hds. apply andb_prop in Hds as [Hd _].
      unfold is_hexc in Hd. pose proof (hex_char_ge0 d ltac:(lia)). cbn. lia.
Qed.

Lemma hexval_bound : forall ds acc, forallb is_hexc ds = true -> 0 <= acc -> 0 <= hexval ds acc.
Proof.
  induction ds as [|c ds IH]; intros acc Hh Ha; [exact Ha|].
  cbn [forallb] in Hh. apply andb_prop in Hh as [Hc Hds]. unfold is_hexc in Hc.
  cbn [hexval fold_left]. apply IH; [exact Hds|lia].
Qed.

Lemma decode_unicode_uform u t :
  uform_ok u = true -> uval u <> 0 -> decode_unicode (uspell u ++ t) = LOk (uval u, t).
Proof.
  intros Ho Hv. destruct u as [a b c d|ds]; cbn [uform_ok uspell uval] in *.
  - repeat (apply andb_prop in Ho as [Ho ?]). unfold is_hexc in *.
    pose proof (hex_char_ge0 a ltac:(lia)). pose proof (hex_char_ge0 b ltac:(lia)).
    pose proof (hex_char_ge0 c ltac:(lia)). pose proof (hex_char_ge0 d ltac:(lia)).
    unfold decode_unicode. cbn [app].
    rewrite next_cons by lia. cbn [lbind]. replace (a =? 123) with false by lia.
    replace (hex_char a <? 0) with false by lia.
    rewrite next_cons by lia. cbn [lbind]. replace (hex_char b <? 0) with false by lia.
    rewrite next_cons by lia. cbn [lbind]. replace (hex_char c <? 0) with false by lia.
    rewrite next_cons by lia. cbn [lbind]. replace (hex_char d <? 0) with false by lia.
    cbn [lbind].
    match goal with |- context [?v =? 0] => replace (v =? 0) with false by lia end. reflexivity.
  - repeat (apply andb_prop in Ho as [Ho ?]).
    unfold decode_unicode. cbn [app]. rewrite <- app_assoc. cbn [app].
    rewrite next_cons by lia. cbn [lbind]. change (123 =? 123) with true. cbn iota.
    rewrite next_view'.
    + cbn [lbind]. rewrite braces_run; [|exact Ho|lia]. cbn [lbind].
      replace (max_rune <? hexval ds 0) with false by lia. cbn [lbind].
      replace (hexval ds 0 =? 0) with false by lia. reflexivity.
    + destruct ds as [|d ds']; [reflexivity|]. cbn [forallb] in Ho. apply andb_prop in Ho as [Hd _].
      unfold is_hexc in Hd. pose proof (hex_char_ge0 d ltac:(lia)). cbn. lia.
Qed.

(* ---- one escape: scanEscape after the backslash ---- *)
Definition is_escape (it : item) : bool := match it with IRaw _ => false | _ => true end.

Lemma spell_escape it : is_escape it = true -> spell it = 92 :: tl (spell it).
Proof. destruct it; cbn; intros; try discriminate; reflexivity. Qed.

Lemma scan_escape_item it first tail buf :
  is_escape it = true -> item_ok first it -> readable_head tail = true ->
  scan_escape (tl (spell it) ++ tail) buf =
    LOk (fst (view tail), snd (view tail), buf ++ [value it]).
Proof.
  intros He Ho Hr. destruct it as [r|e v|a b|u|h l|c]; cbn [is_escape] in He; [discriminate| | | | |];
    cbn [item_ok] in Ho; cbn [spell tl value].
  - (* \b \f \n \r \t \v *)
    cbn [app]. rewrite (scan_escape_letter e v) by exact Ho. rewrite next_view' by exact Hr. reflexivity.
  - (* \xHH *)
    destruct Ho as [Ha [Hb Hv]]. unfold is_hexc in *.
    pose proof (hex_char_ge0 a ltac:(lia)). pose proof (hex_char_ge0 b ltac:(lia)).
    cbn [app]. rewrite scan_escape_x. unfold scan_hex.
    rewrite next_cons by lia. cbn [lbind]. replace (hex_char a <? 0) with false by lia.
    rewrite next_cons by lia. cbn [lbind]. replace (hex_char b <? 0) with false by lia.
    replace (0 <? hex_char a * 16 + hex_char b) with true by lia.
    rewrite next_view' by exact Hr. reflexivity.
  - (* \u, not a surrogate *)
    destruct Ho as [Hu [Hv Hs]].
    cbn [app]. rewrite scan_escape_u. unfold scan_unicode.
    rewrite decode_unicode_uform by assumption. cbn [lbind]. rewrite Hs.
    rewrite next_view' by exact Hr. reflexivity.
  - (* surrogate pair *)
    destruct Ho as [Hh [Hl [Rh Rl]]].
    cbn [app]. rewrite scan_escape_u. unfold scan_unicode.
    rewrite <- app_assoc. rewrite decode_unicode_uform by (assumption || lia). cbn [lbind].
    unfold is_surrogate. replace ((55296 <=? uval h) && (uval h <=? 57343)) with true by lia.
    cbn [app]. rewrite next_cons by lia. cbn [lbind]. change (negb (92 =? 92)) with false. cbn iota.
    rewrite next_cons by lia. cbn [lbind]. change (negb (117 =? 117)) with false. cbn iota.
    rewrite decode_unicode_uform by (assumption || lia). cbn [lbind].
    unfold utf16_pair.
    replace ((55296 <=? uval h) && (uval h <? 56320) && (56320 <=? uval l) && (uval l <? 57344))
      with true by lia.
    rewrite next_view' by exact Hr. reflexivity.
  - (* \c *)
    cbn [app]. rewrite scan_escape_lit by lia. rewrite next_view' by exact Hr. reflexivity.
Qed.

(* ---- the first rune of a spelling ---- *)
Lemma spell_head it first : item_ok first it -> exists c t, spell it = c :: t /\ 0 < c.
Proof.
  destruct it as [r|e v|a b|u|h l|c]; cbn [item_ok spell]; intros Ho;
    try (eexists; eexists; split; [reflexivity|lia]).
  destruct Ho as [Hi _]. eexists; eexists; split; [reflexivity|]. eapply ident_rune_pos; exact Hi.
Qed.

Lemma spells_readable items rest :
  Forall (item_ok false) items -> readable_head rest = true ->
  readable_head (flat_map spell items ++ rest) = true.
Proof.
  intros Hi Hr. destruct Hi as [|it items Ho _]; [exact Hr|].
  destruct (spell_head it false Ho) as [c [t [E P]]].
  cbn [flat_map]. rewrite E. cbn. lia.
Qed.

Lemma spell_length it first : item_ok first it -> (1 <= length (spell it))%nat.
Proof. intros Ho. destruct (spell_head it first Ho) as [c [t [E _]]]. rewrite E. cbn. lia. Qed.

Lemma spells_length items :
  Forall (item_ok false) items -> (length items <= length (flat_map spell items))%nat.
Proof.
  induction 1 as [|it items Ho _ IH]; [cbn; lia|].
  cbn [flat_map length]. rewrite app_length. pose proof (spell_length it false Ho). lia.
Qed.

(* ---- one iteration of the identifier loop ---- *)
Lemma ident_loop_item f it tail buf :
  item_ok false it -> readable_head tail = true ->
  ident_loop L (S f) (fst (view (spell it ++ tail))) (snd (view (spell it ++ tail))) buf =
  ident_loop L f (fst (view tail)) (snd (view tail)) (buf ++ [value it]).
Proof.
  intros Ho Hr. destruct (is_escape it) eqn:He.
  - rewrite (spell_escape it He). cbn [app view fst snd ident_loop].
    change (is_ident_rune L 92 false) with true. cbn iota. change (92 =? 92) with true. cbn iota.
    rewrite (scan_escape_item it false tail buf He Ho Hr). reflexivity.
  - destruct it as [r| | | | | ]; try discriminate. cbn [item_ok] in Ho. destruct Ho as [Hi N].
    cbn [spell app view fst snd ident_loop value]. rewrite Hi.
    replace (r =? 92) with false by lia. rewrite next_view' by exact Hr. reflexivity.
Qed.

(* ---- the loop over the remaining characters; any fuel above their number ---- *)
Lemma ident_loop_items : forall items f buf rest,
  Forall (item_ok false) items -> ident_boundary rest = true -> (length items < f)%nat ->
  ident_loop L f (fst (view (flat_map spell items ++ rest))) (snd (view (flat_map spell items ++ rest))) buf =
    LOk (fst (view rest), snd (view rest), buf ++ map value items).
Proof.
  induction items as [|it items IH]; intros f buf rest Hi Hb Hf.
  - cbn [flat_map app map]. rewrite app_nil_r.
    destruct f as [|f]; [cbn in Hf; lia|]. cbn [ident_loop].
    destruct rest as [|c r]; cbn [view fst snd].
    + reflexivity.
    + cbn [ident_boundary] in Hb. apply andb_prop in Hb as [_ Hb]. apply negb_true_iff in Hb.
      rewrite Hb. reflexivity.
  - inversion Hi as [|? ? Ho Hi']; subst.
    destruct f as [|f]; [cbn in Hf; lia|].
    cbn [flat_map]. rewrite <- app_assoc.
    rewrite ident_loop_item; [|exact Ho|].
    + rewrite IH; [|exact Hi'|exact Hb|cbn [length] in Hf; lia].
      cbn [map]. rewrite <- app_assoc. reflexivity.
    + apply spells_readable; [exact Hi'|apply ident_boundary_readable; exact Hb].
Qed.

Lemma view_length l : (length l <= S (length (snd (view l))))%nat.
Proof. destruct l; cbn; lia. Qed.

(* ---- scanIdent ---- *)
Lemma scan_ident_items it items rest :
  item_ok true it -> Forall (item_ok false) items -> ident_boundary rest = true ->
  let l := flat_map spell (it :: items) ++ rest in
  let txt := string_of_runes (map value (it :: items)) in
  scan_ident L (fst (view l)) (snd (view l)) =
    LOk (mktok (ident_token L txt) txt, fst (view rest), snd (view rest)).
Proof.
  intros Ho Hi Hb l txt. subst l txt.
  assert (Hr: readable_head (flat_map spell items ++ rest) = true)
    by (apply spells_readable; [exact Hi|apply ident_boundary_readable; exact Hb]).
  assert (Hlen: (length items < S (S (length (snd (view (flat_map spell items ++ rest))))))%nat).
  { pose proof (spells_length items Hi). pose proof (view_length (flat_map spell items ++ rest)).
    rewrite app_length in *. lia. }
  cbn [flat_map]. rewrite <- app_assoc. unfold scan_ident.
  destruct (is_escape it) eqn:He.
  - rewrite (spell_escape it He). cbn [app view fst snd]. change (92 =? 92) with true. cbn iota.
    rewrite (scan_escape_item it true _ [] He Ho Hr). cbn [lbind app].
    rewrite ident_loop_items by assumption. reflexivity.
  - destruct it as [r| | | | | ]; try discriminate. cbn [item_ok] in Ho. destruct Ho as [Hid N].
    cbn [spell app view fst snd value]. replace (r =? 92) with false by lia.
    rewrite next_view' by exact Hr. cbn [lbind].
    rewrite ident_loop_items by assumption. reflexivity.
Qed.

Lemma ident_start_not_ws r : is_ident_rune L r true = true -> is_ws r = false.
Proof.
  intros H. unfold is_ws.
  destruct ((r =? 9) || (r =? 10) || (r =? 13) || (r =? 32)) eqn:W; [|reflexivity]. exfalso.
  unfold is_ident_rune in H. rewrite (xid_start_ascii L HL) in H by lia.
  replace (r =? 95) with false in H by lia. replace (r =? 92) with false in H by lia.
  cbn [orb] in H. apply andb_prop in H as [_ H]. lia.
Qed.

(* C03, identifiers: an identifier spelled character by character in any mix
   of raw runes and escapes is the IDENT (or keyword) token whose text is the
   string of the denoted runes, whatever follows it within the boundary — end
   of input included, also when the last character is an escape. *)
Theorem ident_token_independent1 it items rest :
  item_ok true it -> Forall (item_ok false) items -> ident_boundary rest = true ->
  let txt := string_of_runes (map value (it :: items)) in
  lex_one L (flat_map spell (it :: items) ++ rest) =
    LOk (Some (mktok (ident_token L txt) txt), fst (view rest), snd (view rest)).
Proof.
  intros Ho Hi Hb txt.
  pose proof (scan_ident_items it items rest Ho Hi Hb) as S1. cbn zeta in S1. fold txt in S1.
  destruct (spell_head it true Ho) as [c [t [E P]]].
  assert (Hc: is_ident_rune L c true = true).
  { destruct it as [r|e v|a b|u|h l|c0]; cbn [spell] in E; inversion E; subst; try reflexivity.
    cbn [item_ok] in Ho. apply Ho. }
  revert S1. cbn [flat_map]. rewrite E. cbn [app view fst snd]. intros S1.
  unfold lex_one. rewrite next_cons by exact P. cbn [lbind lex_tok].
  rewrite skip_ws_not by (apply ident_start_not_ws; exact Hc). cbn [lbind].
  rewrite Hc. rewrite S1. reflexivity.
Qed.

Theorem ident_token_independent items rest :
  items <> [] ->
  (forall it, hd_error items = Some it -> item_ok true it) ->
  Forall (item_ok false) (tl items) ->
  ident_boundary rest = true ->
  let txt := string_of_runes (map value items) in
  lex_one L (flat_map spell items ++ rest) =
    LOk (Some (mktok (ident_token L txt) txt), fst (view rest), snd (view rest)).
Proof.
  intros Hne H1 Ht Hb. destruct items as [|it items]; [congruence|].
  apply ident_token_independent1; [apply H1; reflexivity|exact Ht|exact Hb].
Qed.

(* the case that was wrong in Go before the scanEscape fix: an escape is the
   last thing in the input *)
Corollary ident_escape_at_eof it items :
  item_ok true it -> Forall (item_ok false) items ->
  let txt := string_of_runes (map value (it :: items)) in
  lex_one L (flat_map spell (it :: items)) = LOk (Some (mktok (ident_token L txt) txt), -1, []).
Proof.
  intros Ho Hi txt. pose proof (ident_token_independent1 it items [] Ho Hi eq_refl) as H.
  cbn zeta in H. rewrite app_nil_r in H. exact H.
Qed.

End Ident.

Print Assumptions ident_token_independent.
Print Assumptions ident_escape_at_eof.

(* ================================================================== *)
(* Part B: numbers *)

(* ---- the digit/separator bit set of lex.go's digits() ---- *)
Definition mk (d u : bool) : Z :=
  match d, u with false, false => 0 | true, false => 1 | false, true => 2 | true, true => 3 end.

Lemma mk_lor_ch d u c :
  Z.lor (mk d u) (if c =? 95 then 2 else 1) = mk (d || negb (c =? 95)) (u || (c =? 95)).
Proof. destruct d, u, (c =? 95); reflexivity. Qed.

Lemma mk_bit0 u : (Z.land (mk true u) 1 =? 0) = false.
Proof. destruct u; reflexivity. Qed.

(* the class of runes digits() accepts for a base, and the valid digits *)
Definition cls (base c : Z) : bool := if base <=? 10 then is_decimal c else is_hex c.
Definition bdigit (base c : Z) : bool :=
  if base <=? 10 then (48 <=? c) && (c <? 48 + base) else is_hex c.
Definition runch (base c : Z) : bool := cls base c || (c =? 95).
Definition has_dig (l : list Z) : bool := existsb (fun c => negb (c =? 95)) l.
Definition has_us (l : list Z) : bool := existsb (fun c => c =? 95) l.

(* the "invalid digit" register *)
Fixpoint run_inv (base : Z) (l : list Z) (inv : Z) : Z :=
  match l with
  | [] => inv
  | c :: r => run_inv base r
                (if (base <=? 10) && negb (c =? 95) && (48 + base <=? c) && (inv =? 0) then c else inv)
  end.

Definition run_stop (base : Z) (rest : list Z) : bool :=
  match rest with [] => true | c :: _ => (0 <? c) && negb (runch base c) end.

Lemma is_hex_pos c : is_hex c = true -> 0 < c.
Proof.
  unfold is_hex, lower. intros H. destruct (0 <? c) eqn:P; [lia|]. exfalso.
  destruct (Z.eq_dec c 0) as [E|E]; [subst c; cbn in H; discriminate|].
  assert (Z.lor 32 c < 0) by (apply Z.lor_neg; lia). lia.
Qed.

Lemma runch_pos base c : runch base c = true -> 0 < c.
Proof.
  unfold runch, cls. intros H. apply orb_prop in H as [H|H]; [|lia].
  destruct (base <=? 10); [unfold is_decimal in H; lia|apply is_hex_pos; exact H].
Qed.

Lemma run_stop_readable base rest : run_stop base rest = true -> readable_head rest = true.
Proof. destruct rest as [|c r]; cbn; [reflexivity|]. intros H. apply andb_prop in H as [H _]. exact H. Qed.

Lemma digits_step base ch c r acc d u inv :
  runch base ch = true -> 0 < c ->
  digits base ch (c :: r) acc (mk d u) inv =
    digits base c r (acc ++ [ch]) (mk (d || negb (ch =? 95)) (u || (ch =? 95))) (run_inv base [ch] inv).
Proof.
  intros Hc Pc. unfold runch, cls in Hc. cbn [digits]. rewrite Hc.
  rewrite check_pos_ok by exact Pc. cbn [lbind]. rewrite mk_lor_ch. reflexivity.
Qed.

Lemma digits_last base ch acc d u inv :
  runch base ch = true ->
  digits base ch [] acc (mk d u) inv =
    LOk (-1, [], acc ++ [ch], mk (d || negb (ch =? 95)) (u || (ch =? 95)), run_inv base [ch] inv).
Proof. intros Hc. unfold runch, cls in Hc. cbn [digits]. rewrite Hc. rewrite mk_lor_ch. reflexivity. Qed.

Lemma digits_run base : forall ds ch rest acc d u inv,
  runch base ch = true -> forallb (runch base) ds = true -> run_stop base rest = true ->
  digits base ch (ds ++ rest) acc (mk d u) inv =
    LOk (fst (view rest), snd (view rest), acc ++ ch :: ds,
         mk (d || has_dig (ch :: ds)) (u || has_us (ch :: ds)), run_inv base (ch :: ds) inv).
Proof.
  induction ds as [|c ds IH]; intros ch rest acc d u inv Hch Hds Hs.
  - cbn [app]. unfold has_dig, has_us. cbn [existsb]. rewrite !orb_false_r.
    destruct rest as [|c r].
    + rewrite digits_last by exact Hch. reflexivity.
    + cbn [run_stop] in Hs. apply andb_prop in Hs as [Pc Nc]. apply negb_true_iff in Nc.
      rewrite digits_step by (assumption || lia).
      rewrite digits_stop by (unfold runch, cls in Nc; exact Nc). reflexivity.
  - cbn [forallb] in Hds. apply andb_prop in Hds as [Hc Hds]. cbn [app].
    rewrite digits_step by (try assumption; eapply runch_pos; exact Hc).
    rewrite IH by assumption. rewrite <- app_assoc. cbn [app].
    unfold has_dig, has_us. cbn [existsb run_inv]. rewrite !orb_assoc. reflexivity.
Qed.

Lemma digits_run0 base ds ch rest acc inv :
  runch base ch = true -> forallb (runch base) ds = true -> run_stop base rest = true ->
  digits base ch (ds ++ rest) acc 0 inv =
    LOk (fst (view rest), snd (view rest), acc ++ ch :: ds,
         mk (has_dig (ch :: ds)) (has_us (ch :: ds)), run_inv base (ch :: ds) inv).
Proof. intros. change 0 with (mk false false) at 1. rewrite digits_run by assumption. reflexivity. Qed.

(* ---- well-separated digit runs:  digit ( '_'? digit )*  ---- *)
Fixpoint sep_ok (dig : Z -> bool) (pd : bool) (l : list Z) : bool :=
  match l with
  | [] => pd
  | c :: r => if c =? 95 then pd && sep_ok dig false r else dig c && sep_ok dig true r
  end.

Lemma sep_ok_weaken dig l pd : sep_ok dig false l = true -> sep_ok dig pd l = true.
Proof.
  destruct l as [|c r]; cbn [sep_ok]; [discriminate|]. destruct (c =? 95); [discriminate|]. auto.
Qed.

Lemma sep_ok_head dig l :
  sep_ok dig false l = true -> exists c t, l = c :: t /\ dig c = true /\ (c =? 95) = false.
Proof.
  destruct l as [|c r]; cbn [sep_ok]; [discriminate|]. destruct (c =? 95) eqn:E; [discriminate|].
  intros H. apply andb_prop in H as [H _]. eauto.
Qed.

Lemma sep_ok_forall dig l pd :
  sep_ok dig pd l = true -> forallb (fun c => dig c || (c =? 95)) l = true.
Proof.
  revert pd. induction l as [|c r IH]; intros pd H; [reflexivity|]. cbn [sep_ok forallb] in *.
  destruct (c =? 95) eqn:E; apply andb_prop in H as [H1 H2].
  - rewrite orb_true_r. cbn [andb]. eapply IH; exact H2.
  - rewrite H1. cbn [orb andb]. eapply IH; exact H2.
Qed.

Lemma bdigit_cls base c : bdigit base c = true -> cls base c = true.
Proof. unfold bdigit, cls, is_decimal. destruct (base <=? 10) eqn:B; [lia|auto]. Qed.

Lemma sep_ok_runch base l pd : sep_ok (bdigit base) pd l = true -> forallb (runch base) l = true.
Proof.
  intros H. apply sep_ok_forall in H. rewrite forallb_forall in *. intros c Hc. specialize (H c Hc).
  unfold runch. apply orb_prop in H as [H|H]; [rewrite (bdigit_cls _ _ H); reflexivity|].
  rewrite H. apply orb_true_r.
Qed.

Lemma sep_ok_inv base l pd inv : sep_ok (bdigit base) pd l = true -> run_inv base l inv = inv.
Proof.
  revert pd inv. induction l as [|c r IH]; intros pd inv H; [reflexivity|]. cbn [sep_ok run_inv] in *.
  destruct (c =? 95) eqn:E; apply andb_prop in H as [H1 H2].
  - cbn [negb]. rewrite andb_false_r. cbn [andb]. eapply IH; exact H2.
  - unfold bdigit in H1. destruct (base <=? 10); cbn [andb negb].
    + replace (48 + base <=? c) with false by lia. cbn [andb]. eapply IH; exact H2.
    + eapply IH; exact H2.
Qed.

Lemma sep_ok_has_dig dig l : sep_ok dig false l = true -> has_dig l = true.
Proof.
  intros H. destruct (sep_ok_head dig l H) as [c [t [E [_ N]]]]. subst l.
  unfold has_dig. cbn [existsb]. rewrite N. reflexivity.
Qed.

(* ---- invalidSep ---- *)
Lemma invalid_sep_eq x :
  invalid_sep x =
    match x with
    | c0 :: c1 :: r =>
        if (c0 =? 48) && ((lower c1 =? 120) || (lower c1 =? 111) || (lower c1 =? 98))
        then invalid_sep_loop (lower c1 =? 120) 48 r
        else invalid_sep_loop false 46 x
    | _ => invalid_sep_loop false 46 x
    end.
Proof.
  destruct x as [|c0 [|c1 r]]; [reflexivity| |].
  - destruct c0 as [|p|p]; try reflexivity. do 6 (destruct p as [p|p|]; try reflexivity).
  - destruct c0 as [|p|p]; try reflexivity. do 6 (destruct p as [p|p|]; try reflexivity).
Qed.

Lemma sep_loop_run x dig tail :
  (forall c, dig c = true -> is_decimal c || (x && is_hex c) = true) ->
  forall run d, sep_ok dig (d =? 48) run = true ->
  invalid_sep_loop x d (run ++ tail) = invalid_sep_loop x 48 tail.
Proof.
  intros Hdig. induction run as [|c r IH]; intros d H.
  - cbn [sep_ok] in H. cbn [app]. replace d with 48 by lia. reflexivity.
  - cbn [sep_ok app invalid_sep_loop] in *. destruct (c =? 95) eqn:E.
    + apply andb_prop in H as [H1 H2]. rewrite H1. apply IH. exact H2.
    + apply andb_prop in H as [H1 H2]. rewrite (Hdig c H1). apply IH. exact H2.
Qed.

Lemma sep_loop_other d c tail :
  d <> 95 -> (c =? 95) = false -> is_decimal c = false ->
  invalid_sep_loop false d (c :: tail) = invalid_sep_loop false 46 tail.
Proof.
  intros Hd E1 E2. cbn [invalid_sep_loop]. rewrite E1, E2. cbn [andb orb].
  replace (d =? 95) with false by lia. reflexivity.
Qed.

Lemma lower_46 : lower 46 = 46. Proof. reflexivity. Qed.
Lemma lower_m1 : lower (-1) = -1. Proof. reflexivity. Qed.

Section Num.
Variable L : GoLib.
Hypothesis HL : Laws L.

(* ---- scanNumber cut in pieces (unfolding lemmas by reflexivity) ---- *)
Definition num_final (tok : tkind) (ch : Z) (rest acc : list Z) (digSep inv : Z)
  : lres (tkind * list Z * Z * list Z) :=
  if (match tok with TInt => true | _ => false end) && negb (inv =? 0) then LErr ENumInvalidDigit
  else if negb (Z.land digSep 2 =? 0) && invalid_sep acc then LErr ENumSep
  else if is_ident_rune L ch true then LErr ENumJunk
  else LOk (tok, acc, ch, rest).

Definition num_exp (tok : tkind) (prefix ch : Z) (rest acc : list Z) (digSep : Z)
  : lres (tkind * Z * list Z * list Z * Z) :=
  if lower ch =? 101 then
    if negb (prefix =? 0) && negb (prefix =? 48) then LErr ENumExpMantissa
    else
      let* (ch1, rest1) := next rest in
      let acc1 := acc ++ [ch] in
      let* (ch2, rest2, acc2) :=
         (if (ch1 =? 43) || (ch1 =? 45)
          then let* (c, r) := next rest1 in LOk (c, r, acc1 ++ [ch1])
          else LOk (ch1, rest1, acc1)) in
      let* (ch3, rest3, acc3, ds, _) := digits 10 ch2 rest2 acc2 0 0 in
      if Z.land ds 1 =? 0 then LErr ENumExpDigits
      else LOk (TNumeric, ch3, rest3, acc3, Z.lor digSep ds)
  else if is_ident_rune L (lower ch) true then LErr ENumJunk
  else LOk (tok, ch, rest, acc, digSep).

Lemma tail_nodot tok base prefix ch rest acc digSep inv :
  scan_number_tail L tok base prefix ch rest acc digSep inv false =
    (let* (tok', ch', rest', acc', digSep') := num_exp tok prefix ch rest acc digSep in
     num_final tok' ch' rest' acc' digSep' inv).
Proof. reflexivity. Qed.

Lemma tail_dot tok base prefix ch rest acc digSep inv :
  scan_number_tail L tok base prefix ch rest acc digSep inv true =
    (let* (ch1, rest1, acc1, ds, inv1) := digits base ch rest acc 0 inv in
     let* (tok', ch', rest', acc', digSep') := num_exp TNumeric prefix ch1 rest1 acc1 (Z.lor digSep ds) in
     num_final tok' ch' rest' acc' digSep' inv1).
Proof.
  unfold scan_number_tail. destruct (digits base ch rest acc 0 inv) as [[[[[? ?] ?] ?] ?]|]; reflexivity.
Qed.

(* ---- what may follow a number ---- *)
(* end of input, or a readable rune that is not a digit, '_', 'e'/'E', and
   does not start an identifier (neither itself nor its lower-cased form).
   [int_boundary] (LexProofs) is this plus "not '.'". *)
Definition num_boundary (rest : list Z) : bool :=
  match rest with
  | [] => true
  | c :: _ =>
      (0 <? c) && negb (is_decimal c) && negb (c =? 95) &&
      negb (lower c =? 101) && negb (is_ident_rune L (lower c) true) && negb (is_ident_rune L c true)
  end.

Lemma int_boundary_num rest :
  int_boundary L rest = true -> num_boundary rest = true /\ (fst (view rest) =? 46) = false.
Proof.
  destruct rest as [|c r]; cbn [int_boundary num_boundary view fst]; [split; reflexivity|].
  intros H. repeat (apply andb_prop in H as [H ?]).
  repeat match goal with H : negb _ = true |- _ => apply negb_true_iff in H end.
  split; [|assumption].
  repeat (apply andb_true_intro; split); try apply negb_true_iff; assumption.
Qed.

Lemma num_boundary_view rest :
  num_boundary rest = true ->
  let c := fst (view rest) in
  (lower c =? 101) = false /\ is_ident_rune L (lower c) true = false /\ is_ident_rune L c true = false.
Proof.
  destruct rest as [|c r]; cbn [num_boundary view fst].
  - intros _. repeat split; reflexivity.
  - intros H. repeat (apply andb_prop in H as [H ?]).
    repeat match goal with H : negb _ = true |- _ => apply negb_true_iff in H end.
    repeat split; assumption.
Qed.

Lemma lower_letter_ident c : 97 <= lower c <= 122 -> is_ident_rune L (lower c) true = true.
Proof.
  intros H. unfold is_ident_rune. rewrite (xid_start_ascii L HL) by lia.
  replace (0 <=? lower c) with true by lia.
  replace ((97 <=? lower c) && (lower c <=? 122)) with true by lia.
  rewrite !orb_true_r. reflexivity.
Qed.

Lemma num_boundary_stop base rest : num_boundary rest = true -> run_stop base rest = true.
Proof.
  destruct rest as [|c r]; cbn [num_boundary run_stop]; [reflexivity|].
  intros H. repeat (apply andb_prop in H as [H ?]).
  repeat match goal with H : negb _ = true |- _ => apply negb_true_iff in H end.
  rewrite H. cbn [andb]. apply negb_true_iff. unfold runch, cls.
  match goal with H : (c =? 95) = false |- _ => rewrite H end. rewrite orb_false_r.
  destruct (base <=? 10); [assumption|].
  unfold is_hex. destruct ((97 <=? lower c) && (lower c <=? 102)) eqn:E.
  - rewrite lower_letter_ident in * by lia. discriminate.
  - unfold is_decimal in *. rewrite orb_false_r. assumption.
Qed.

Lemma num_boundary_readable rest : num_boundary rest = true -> readable_head rest = true.
Proof. intros H. eapply run_stop_readable. apply (num_boundary_stop 10). exact H. Qed.

(* ---- exponent part ---- *)
Lemma num_exp_none tok prefix rest acc digSep :
  num_boundary rest = true ->
  num_exp tok prefix (fst (view rest)) (snd (view rest)) acc digSep =
    LOk (tok, fst (view rest), snd (view rest), acc, digSep).
Proof.
  intros Hb. destruct (num_boundary_view rest Hb) as [B1 [B2 B3]]. cbn zeta in *.
  unfold num_exp. rewrite B1, B2. reflexivity.
Qed.

(* a decimal digit run, '_' allowed between digits *)
Definition drun (l : list Z) : bool := sep_ok is_decimal false l.

Lemma bdigit10 c : bdigit 10 c = is_decimal c.
Proof. unfold bdigit, is_decimal. change (10 <=? 10) with true. cbn iota. lia. Qed.

Lemma drun_sep10 l pd : sep_ok is_decimal pd l = sep_ok (bdigit 10) pd l.
Proof.
  revert pd. induction l as [|c r IH]; intros pd; [reflexivity|]. cbn [sep_ok].
  rewrite bdigit10, !IH. reflexivity.
Qed.

(* an exponent: e/E, optional sign, digit run *)
Inductive expo := NoExp | Exp (e : Z) (sign : list Z) (run : list Z).
Definition exp_text (x : expo) : list Z :=
  match x with NoExp => [] | Exp e s run => e :: s ++ run end.
Definition sign_ok (s : list Z) : bool :=
  match s with [] => true | [c] => (c =? 43) || (c =? 45) | _ => false end.
Definition exp_ok (x : expo) : bool :=
  match x with
  | NoExp => true
  | Exp e s run => ((e =? 101) || (e =? 69)) && sign_ok s && drun run
  end.

Lemma lower_e e : (e =? 101) || (e =? 69) = true -> lower e = 101 /\ 0 < e /\ is_decimal e = false /\ (e =? 95) = false.
Proof.
  intros H. apply orb_prop in H as [H|H]; apply Z.eqb_eq in H; subst e; repeat split; reflexivity.
Qed.

Lemma drun_digits run rest acc base :
  base <=? 10 = true -> drun run = true -> run_stop base rest = true ->
  exists inv',
  digits base (fst (view (run ++ rest))) (snd (view (run ++ rest))) acc 0 0 =
    LOk (fst (view rest), snd (view rest), acc ++ run, mk true (has_us run), inv').
Proof.
  intros Hbase Hr Hs. unfold drun in Hr.
  pose proof (sep_ok_has_dig _ _ Hr) as Hd.
  assert (Hf: forallb (runch base) run = true).
  { apply sep_ok_forall in Hr. rewrite forallb_forall in *. intros c Hc. specialize (Hr c Hc).
    unfold runch, cls. rewrite Hbase. exact Hr. }
  destruct run as [|c t]; [discriminate|]. cbn [forallb] in Hf. apply andb_prop in Hf as [Hc Ht].
  cbn [app view fst snd]. rewrite digits_run0 by assumption. rewrite Hd. eexists. reflexivity.
Qed.

Lemma num_exp_some tok prefix e s run rest acc digSep :
  (prefix = 0 \/ prefix = 48) -> exp_ok (Exp e s run) = true -> run_stop 10 rest = true ->
  num_exp tok prefix e (s ++ run ++ rest) acc digSep =
    LOk (TNumeric, fst (view rest), snd (view rest), acc ++ e :: s ++ run,
         Z.lor digSep (mk true (has_us run))).
Proof.
  intros Hp Ho Hs. cbn [exp_ok] in Ho. apply andb_prop in Ho as [Ho Hrun]. apply andb_prop in Ho as [He Hsg].
  destruct (lower_e e He) as [Le [Pe _]].
  unfold num_exp. rewrite Le. change (101 =? 101) with true. cbn iota.
  replace (negb (prefix =? 0) && negb (prefix =? 48)) with false by (destruct Hp; subst; reflexivity).
  destruct (sep_ok_head _ _ Hrun) as [d [t [Er [Hd Nd]]]].
  assert (Pd: 0 < d) by (unfold is_decimal in Hd; lia).
  destruct (drun_digits run rest (acc ++ e :: s) 10 eq_refl Hrun Hs) as [inv' Ed].
  destruct s as [|c [|c' s']]; cbn [sign_ok] in Hsg; try discriminate.
  - cbn [app]. rewrite next_view' by (rewrite Er; cbn; lia). cbn [lbind].
    assert (Hv: fst (view (run ++ rest)) = d) by (rewrite Er; reflexivity).
    replace ((fst (view (run ++ rest)) =? 43) || (fst (view (run ++ rest)) =? 45)) with false
      by (rewrite Hv; unfold is_decimal in Hd; lia).
    cbn [lbind].
    replace (acc ++ [e]) with (acc ++ e :: []) by reflexivity.
    rewrite Ed. cbn [lbind]. rewrite mk_bit0. rewrite <- app_assoc. reflexivity.
  - assert (Pc: 0 < c) by lia. cbn [app]. rewrite next_cons by exact Pc. cbn [lbind].
    rewrite Hsg. rewrite next_view' by (rewrite Er; cbn; lia). cbn [lbind].
    replace ((acc ++ [e]) ++ [c]) with (acc ++ [e; c]) by (rewrite <- app_assoc; reflexivity).
    rewrite Ed. cbn [lbind]. rewrite mk_bit0. rewrite <- app_assoc. reflexivity.
Qed.

(* ---- final checks ---- *)
Lemma num_final_ok tok ch rest acc digSep inv :
  (tok = TNumeric \/ (tok = TInt /\ inv = 0)) -> invalid_sep acc = false -> is_ident_rune L ch true = false ->
  num_final tok ch rest acc digSep inv = LOk (tok, acc, ch, rest).
Proof.
  intros Ht Hs Hi. unfold num_final. rewrite Hs, Hi. rewrite andb_false_r.
  destruct Ht as [Ht|[Ht Hv]]; subst; reflexivity.
Qed.

(* ---- Lex dispatch to scanNumber ---- *)
Lemma lex_tok_number f d rest :
  is_decimal d = true ->
  lex_tok L (S f) d rest =
    (let* (k, txt, c, r) := scan_number L d rest false in LOk (Some (mktok k (str_of_bytes txt)), c, r)).
Proof.
  intros Hd. cbn [lex_tok]. rewrite skip_ws_not by (unfold is_ws, is_decimal in *; lia). cbn [lbind].
  rewrite (digit_not_ident L HL) by exact Hd. rewrite Hd. reflexivity.
Qed.

Lemma lex_tok_dot f d r :
  is_decimal d = true ->
  lex_tok L (S f) 46 (d :: r) =
    (let* (k, txt, c', r') := scan_number L d r true in LOk (Some (mktok k (str_of_bytes txt)), c', r')).
Proof.
  intros Hd. cbn [lex_tok]. rewrite skip_ws_not by reflexivity. cbn [lbind].
  rewrite (ident_start_false L HL) by (cbn; first [lia|reflexivity]).
  change (is_decimal 46) with false. change (46 <? 0) with false. change (46 =? 34) with false.
  change (46 =? 36) with false. change (46 =? 47) with false. change (46 =? 46) with true. cbn iota.
  rewrite next_cons by (unfold is_decimal in Hd; lia). cbn [lbind]. rewrite Hd. reflexivity.
Qed.

Lemma lex_tok_dot' f l :
  is_decimal (fst (view l)) = true ->
  lex_tok L (S f) 46 l =
    (let* (k, txt, c', r') := scan_number L (fst (view l)) (snd (view l)) true in
     LOk (Some (mktok k (str_of_bytes txt)), c', r')).
Proof. destruct l as [|d r]; cbn [view fst snd]; [discriminate|]. apply lex_tok_dot. Qed.

Lemma lex_one_number d t :
  is_decimal d = true ->
  lex_one L (d :: t) =
    (let* (k, txt, c, r) := scan_number L d t false in LOk (Some (mktok k (str_of_bytes txt)), c, r)).
Proof.
  intros Hd. unfold lex_one. rewrite next_cons by (unfold is_decimal in Hd; lia). cbn [lbind].
  apply lex_tok_number. exact Hd.
Qed.

(* ---- the integer part of an unprefixed number: "0", or a digit run not
   starting with 0 ---- *)
Definition ipart_ok (ip : list Z) : bool :=
  match ip with
  | [] => false
  | c :: r => if c =? 48 then match r with [] => true | _ => false end else drun ip
  end.

Definition ip_stop (more : list Z) : bool :=
  match more with
  | [] => true
  | c :: _ => (0 <? c) && negb (is_decimal c) && negb (c =? 95) &&
              negb (lower c =? 120) && negb (lower c =? 111) && negb (lower c =? 98)
  end.

Definition ip_base (ip : list Z) : Z := if hd 0 ip =? 48 then 8 else 10.
Definition ip_prefix (ip : list Z) : Z := if hd 0 ip =? 48 then 48 else 0.

Lemma ip_base_le ip : ip_base ip <=? 10 = true.
Proof. unfold ip_base. destruct (hd 0 ip =? 48); reflexivity. Qed.
Lemma ip_prefix_cases ip : ip_prefix ip = 0 \/ ip_prefix ip = 48.
Proof. unfold ip_prefix. destruct (hd 0 ip =? 48); auto. Qed.

Lemma ipart_drun ip : ipart_ok ip = true -> drun ip = true.
Proof.
  destruct ip as [|c r]; cbn [ipart_ok]; [discriminate|]. destruct (c =? 48) eqn:E; [|auto].
  destruct r; [|discriminate]. intros _. replace c with 48 by lia. reflexivity.
Qed.

Lemma ipart_head ip : ipart_ok ip = true -> exists d t, ip = d :: t /\ is_decimal d = true.
Proof.
  intros H. apply ipart_drun in H. destruct (sep_ok_head _ _ H) as [d [t [E [Hd _]]]]. eauto.
Qed.

Lemma lex_one_ipart ip more :
  ipart_ok ip = true ->
  lex_one L (ip ++ more) =
    (let* (k, txt, c, r) := scan_number L (fst (view (ip ++ more))) (snd (view (ip ++ more))) false in
     LOk (Some (mktok k (str_of_bytes txt)), c, r)).
Proof.
  intros Hip. destruct (ipart_head ip Hip) as [d [t [E Hd]]]. subst ip. cbn [app view fst snd].
  apply lex_one_number. exact Hd.
Qed.

Lemma ip_stop_view more :
  ip_stop more = true ->
  let c := fst (view more) in
  is_decimal c = false /\ (c =? 95) = false /\
  (lower c =? 120) = false /\ (lower c =? 111) = false /\ (lower c =? 98) = false.
Proof.
  destruct more as [|c r]; cbn [ip_stop view fst].
  - intros _. repeat split; reflexivity.
  - intros H. repeat (apply andb_prop in H as [H ?]).
    repeat match goal with H : negb _ = true |- _ => apply negb_true_iff in H end.
    repeat split; assumption.
Qed.

Lemma ip_stop_run more : ip_stop more = true -> run_stop 10 more = true.
Proof.
  destruct more as [|c r]; cbn [ip_stop run_stop]; [reflexivity|].
  intros H. repeat (apply andb_prop in H as [H ?]).
  repeat match goal with H : negb _ = true |- _ => apply negb_true_iff in H end.
  rewrite H. cbn [andb]. apply negb_true_iff. unfold runch, cls. change (10 <=? 10) with true. cbn iota.
  apply orb_false_intro; assumption.
Qed.

Lemma scan_number_ipart ip more :
  ipart_ok ip = true -> ip_stop more = true ->
  scan_number L (fst (view (ip ++ more))) (snd (view (ip ++ more))) false =
    if fst (view more) =? 46 then
      let* (ch1, rest1) := next (snd (view more)) in
      scan_number_tail L TInt (ip_base ip) (ip_prefix ip) ch1 rest1 (ip ++ [46]) (mk true (has_us ip)) 0 true
    else scan_number_tail L TInt (ip_base ip) (ip_prefix ip) (fst (view more)) (snd (view more)) ip
           (mk true (has_us ip)) 0 false.
Proof.
  intros Hip Hs. pose proof (ipart_drun ip Hip) as Hrun.
  destruct (ip_stop_view more Hs) as [S1 [S2 [S3 [S4 S5]]]]. cbn zeta in *.
  pose proof (run_stop_readable _ _ (ip_stop_run more Hs)) as Hr.
  destruct ip as [|c r]; [discriminate|]. cbn [ipart_ok] in Hip.
  unfold ip_base, ip_prefix. cbn [hd app view fst snd].
  destruct (c =? 48) eqn:E.
  - destruct r; [|discriminate]. assert (c = 48) by lia. subst c. cbn [app].
    unfold scan_number. change (48 =? 48) with true. cbn iota.
    rewrite next_view' by exact Hr. cbn [lbind]. rewrite S3, S4, S5, S2, S1.
    assert (Hd: digits 8 (fst (view more)) (snd (view more)) [48] 0 0 =
                LOk (fst (view more), snd (view more), [48], 0, 0)).
    { apply digits_stop. change (8 <=? 10) with true. cbn iota. rewrite S1, S2. reflexivity. }
    destruct (lower (fst (view more)) =? 46); cbn [lbind]; rewrite S2, Hd; cbn [lbind];
      change (Z.land (Z.lor 1 0) 1 =? 0) with false; cbn iota;
      destruct (fst (view more) =? 46); reflexivity.
  - unfold scan_number. rewrite E. cbn [lbind].
    destruct (sep_ok_head _ _ Hrun) as [c' [t' [Ec [Hc Nc]]]]. inversion Ec; subst c' t'.
    rewrite Nc.
    unfold drun in Hrun. rewrite drun_sep10 in Hrun.
    pose proof (sep_ok_runch 10 _ _ Hrun) as Hf. cbn [forallb] in Hf. apply andb_prop in Hf as [Hf1 Hf2].
    rewrite digits_run0 by (try assumption; apply ip_stop_run; exact Hs). cbn [lbind app].
    rewrite (sep_ok_inv 10 _ _ 0 Hrun).
    rewrite Z.lor_0_l. rewrite <- drun_sep10 in Hrun. rewrite (sep_ok_has_dig _ _ Hrun).
    rewrite mk_bit0. cbn [negb andb]. reflexivity.
Qed.

(* ---- invalidSep on well-separated texts ---- *)
Definition np_head (tail : list Z) : bool :=
  match tail with
  | [] => true
  | c :: _ => negb ((lower c =? 120) || (lower c =? 111) || (lower c =? 98))
  end.

Lemma invalid_sep_unprefixed ip tail :
  ipart_ok ip = true -> np_head tail = true ->
  invalid_sep (ip ++ tail) = invalid_sep_loop false 46 (ip ++ tail).
Proof.
  intros Hip Hn. rewrite invalid_sep_eq. destruct ip as [|d t]; [discriminate|]. cbn [ipart_ok] in Hip.
  destruct (d =? 48) eqn:E.
  - destruct t; [|discriminate]. cbn [app]. destruct tail as [|c r]; [reflexivity|].
    cbn [np_head] in Hn. apply negb_true_iff in Hn. rewrite Hn. rewrite andb_false_r. reflexivity.
  - cbn [app]. destruct (t ++ tail); [reflexivity|]. rewrite E. reflexivity.
Qed.

Lemma invalid_sep_46 tl : invalid_sep (46 :: tl) = invalid_sep_loop false 46 (46 :: tl).
Proof. rewrite invalid_sep_eq. destruct tl; reflexivity. Qed.

Lemma isl_drun run d tail :
  drun run = true -> invalid_sep_loop false d (run ++ tail) = invalid_sep_loop false 48 tail.
Proof.
  intros H. apply sep_loop_run with (dig := is_decimal).
  - intros c Hc. rewrite Hc. reflexivity.
  - apply sep_ok_weaken. exact H.
Qed.

Definition frac_ok (frac : list Z) : bool := match frac with [] => true | _ => drun frac end.

Lemma isl_frac frac tail :
  frac_ok frac = true ->
  exists d, (d = 46 \/ d = 48) /\ invalid_sep_loop false 46 (frac ++ tail) = invalid_sep_loop false d tail.
Proof.
  destruct frac as [|c r]; intros H.
  - exists 46. split; [auto|reflexivity].
  - exists 48. split; [auto|]. apply isl_drun. exact H.
Qed.

Lemma isl_exp x d : exp_ok x = true -> (d = 46 \/ d = 48) -> invalid_sep_loop false d (exp_text x) = false.
Proof.
  intros Ho Hd. destruct x as [|e s run]; cbn [exp_text].
  - cbn [invalid_sep_loop]. destruct Hd; subst; reflexivity.
  - cbn [exp_ok] in Ho. apply andb_prop in Ho as [Ho Hrun]. apply andb_prop in Ho as [He Hs].
    destruct (lower_e e He) as [_ [_ [De Ue]]].
    rewrite sep_loop_other by (try assumption; destruct Hd; lia).
    destruct s as [|c [|c' s']]; cbn [sign_ok] in Hs; try discriminate; cbn [app].
    + rewrite <- (app_nil_r run). rewrite isl_drun by exact Hrun. reflexivity.
    + rewrite sep_loop_other by (unfold is_decimal; lia).
      rewrite <- (app_nil_r run). rewrite isl_drun by exact Hrun. reflexivity.
Qed.

Lemma exp_np_head x tail : exp_ok x = true -> x <> NoExp -> np_head (exp_text x ++ tail) = true.
Proof.
  destruct x as [|e s run]; [congruence|]. intros Ho _. cbn [exp_ok] in Ho.
  apply andb_prop in Ho as [Ho _]. apply andb_prop in Ho as [He _].
  cbn [exp_text app np_head]. apply orb_prop in He as [He|He]; apply Z.eqb_eq in He; subst e; reflexivity.
Qed.

(* ---- after the fraction digits / the exponent ---- *)
Lemma exp_rest_stop base x rest :
  base <=? 10 = true -> exp_ok x = true -> num_boundary rest = true ->
  run_stop base (exp_text x ++ rest) = true.
Proof.
  intros Hb Ho Hn. destruct x as [|e s run]; cbn [exp_text app].
  - apply num_boundary_stop. exact Hn.
  - cbn [exp_ok] in Ho. apply andb_prop in Ho as [Ho _]. apply andb_prop in Ho as [He _].
    destruct (lower_e e He) as [_ [Pe [De Ue]]]. cbn [run_stop].
    unfold runch, cls. rewrite Hb, De, Ue. cbn [orb negb]. rewrite andb_true_r. lia.
Qed.

Lemma frac_digits base frac more acc :
  base <=? 10 = true -> frac_ok frac = true -> run_stop base more = true ->
  exists m inv',
  digits base (fst (view (frac ++ more))) (snd (view (frac ++ more))) acc 0 0 =
    LOk (fst (view more), snd (view more), acc ++ frac, m, inv').
Proof.
  intros Hb Hf Hs. destruct frac as [|c r].
  - cbn [app]. exists 0, 0. rewrite app_nil_r. apply digits_stop.
    destruct more as [|c r]; [cbn [view fst]; unfold is_decimal; rewrite Hb; reflexivity|].
    cbn [run_stop] in Hs. apply andb_prop in Hs as [_ Hs]. apply negb_true_iff in Hs.
    exact Hs.
  - cbn [frac_ok] in Hf. destruct (drun_digits (c :: r) more acc base Hb Hf Hs) as [inv' E].
    eexists. eexists. exact E.
Qed.

Definition exp_tok (tok : tkind) (x : expo) : tkind := match x with NoExp => tok | _ => TNumeric end.

Lemma num_exp_any tok prefix x rest acc digSep :
  (prefix = 0 \/ prefix = 48) -> exp_ok x = true -> num_boundary rest = true ->
  exists ds',
  num_exp tok prefix (fst (view (exp_text x ++ rest))) (snd (view (exp_text x ++ rest))) acc digSep =
    LOk (exp_tok tok x, fst (view rest), snd (view rest), acc ++ exp_text x, ds').
Proof.
  intros Hp Ho Hn. destruct x as [|e s run]; cbn [exp_text exp_tok app].
  - exists digSep. rewrite app_nil_r. apply num_exp_none. exact Hn.
  - eexists. cbn [view fst snd]. rewrite <- app_assoc.
    apply num_exp_some; [exact Hp|exact Ho|apply num_boundary_stop; exact Hn].
Qed.

(* ================================================================== *)
(* C03, integers without prefix: "0", or a digit run (single '_' between
   digits allowed) that does not start with 0. *)
Theorem int_independent ip rest :
  ipart_ok ip = true -> int_boundary L rest = true ->
  lex_one L (ip ++ rest) =
    LOk (Some (mktok TInt (str_of_bytes ip)), fst (view rest), snd (view rest)).
Proof.
  intros Hip Hb. destruct (int_boundary_num rest Hb) as [Hn H46].
  destruct (num_boundary_view rest Hn) as [B1 [B2 B3]]. cbn zeta in *.
  assert (Hs: ip_stop rest = true).
  { destruct rest as [|c r]; [reflexivity|]. cbn [num_boundary ip_stop view fst] in *.
    repeat (apply andb_prop in Hn as [Hn ?]).
    repeat match goal with H : negb _ = true |- _ => apply negb_true_iff in H end.
    rewrite Hn. cbn [andb].
    repeat (apply andb_true_intro; split); apply negb_true_iff; try assumption.
    all: match goal with |- (lower ?x =? ?n) = false =>
           destruct (lower x =? n) eqn:EE; [|reflexivity];
           rewrite lower_letter_ident in * by lia; discriminate end. }
  pose proof (scan_number_ipart ip rest Hip Hs) as S1. rewrite H46 in S1.
  rewrite lex_one_ipart by exact Hip. rewrite S1. rewrite tail_nodot.
  rewrite num_exp_none by exact Hn. cbn [lbind].
  rewrite num_final_ok; [reflexivity|right; split; reflexivity| |exact B3].
  rewrite <- (app_nil_r ip). rewrite invalid_sep_unprefixed by (assumption || reflexivity).
  rewrite isl_drun by (apply ipart_drun; exact Hip). reflexivity.
Qed.

Lemma num_boundary_ident rest : num_boundary rest = true -> is_ident_rune L (fst (view rest)) true = false.
Proof. intros H. apply (num_boundary_view rest H). Qed.

Lemma exp_rest_readable x rest :
  exp_ok x = true -> num_boundary rest = true -> readable_head (exp_text x ++ rest) = true.
Proof. intros Ho Hn. eapply run_stop_readable. apply (exp_rest_stop 10); [reflexivity|exact Ho|exact Hn]. Qed.

Lemma frac_rest_readable frac more :
  frac_ok frac = true -> readable_head more = true -> readable_head (frac ++ more) = true.
Proof.
  destruct frac as [|c r]; intros Hf Hm; [exact Hm|]. cbn [frac_ok] in Hf.
  destruct (sep_ok_head _ _ Hf) as [c' [t' [E [Hc _]]]]. inversion E; subst.
  cbn. unfold is_decimal in Hc. lia.
Qed.

(* C03, NUMERIC with a '.' after an integer part:  D.  D.D  D.eD  D.DeD
   (D. and D.D when x = NoExp; exponent sign optional; '_' allowed between
   the digits of every D; integer part "0" or not starting with 0) *)
Theorem numeric_dot_independent ip frac x rest :
  ipart_ok ip = true -> frac_ok frac = true -> exp_ok x = true -> num_boundary rest = true ->
  let text := ip ++ 46 :: frac ++ exp_text x in
  lex_one L (text ++ rest) =
    LOk (Some (mktok TNumeric (str_of_bytes text)), fst (view rest), snd (view rest)).
Proof.
  intros Hip Hf Ho Hn text. subst text.
  replace ((ip ++ 46 :: frac ++ exp_text x) ++ rest) with (ip ++ 46 :: frac ++ exp_text x ++ rest)
    by (rewrite <- !app_assoc; cbn [app]; rewrite <- !app_assoc; reflexivity).
  pose proof (scan_number_ipart ip (46 :: frac ++ exp_text x ++ rest) Hip eq_refl) as S1.
  cbn [view fst snd] in S1. change (46 =? 46) with true in S1. cbn iota in S1.
  pose proof (exp_rest_readable x rest Ho Hn) as Hr1.
  rewrite next_view' in S1 by (apply frac_rest_readable; assumption). cbn [lbind] in S1.
  rewrite tail_dot in S1.
  destruct (frac_digits (ip_base ip) frac (exp_text x ++ rest) (ip ++ [46]) (ip_base_le ip) Hf
              (exp_rest_stop _ x rest (ip_base_le ip) Ho Hn)) as [m [inv' Ed]].
  rewrite Ed in S1. cbn [lbind] in S1.
  destruct (num_exp_any TNumeric (ip_prefix ip) x rest ((ip ++ [46]) ++ frac)
              (Z.lor (mk true (has_us ip)) m) (ip_prefix_cases ip) Ho Hn) as [ds' Ee].
  rewrite Ee in S1. cbn [lbind] in S1.
  assert (Et: ((ip ++ [46]) ++ frac) ++ exp_text x = ip ++ 46 :: frac ++ exp_text x)
    by (rewrite <- !app_assoc; reflexivity).
  rewrite Et in S1.
  rewrite num_final_ok in S1;
    [ | left; destruct x; reflexivity | | apply num_boundary_ident; exact Hn ].
  - rewrite lex_one_ipart by exact Hip. rewrite S1. cbn [lbind]. destruct x; reflexivity.
  - rewrite invalid_sep_unprefixed by (assumption || reflexivity).
    rewrite isl_drun by (apply ipart_drun; exact Hip).
    rewrite sep_loop_other by (reflexivity || lia).
    destruct (isl_frac frac (exp_text x) Hf) as [d [Hd Ei]]. rewrite Ei.
    apply isl_exp; assumption.
Qed.

(* C03, NUMERIC starting with '.':  .D  .DeD *)
Theorem numeric_leading_dot_independent frac x rest :
  drun frac = true -> exp_ok x = true -> num_boundary rest = true ->
  let text := 46 :: frac ++ exp_text x in
  lex_one L (text ++ rest) =
    LOk (Some (mktok TNumeric (str_of_bytes text)), fst (view rest), snd (view rest)).
Proof.
  intros Hf Ho Hn text. subst text.
  destruct (sep_ok_head _ _ Hf) as [d [t [E [Hd _]]]].
  destruct (drun_digits frac (exp_text x ++ rest) [46] 10 eq_refl Hf
              (exp_rest_stop 10 x rest eq_refl Ho Hn)) as [inv' Ed].
  destruct (num_exp_any TNumeric 0 x rest ([46] ++ frac) (Z.lor 0 (mk true (has_us frac)))
              (or_introl eq_refl) Ho Hn) as [ds' Ee].
  assert (Hsep: invalid_sep (([46] ++ frac) ++ exp_text x) = false).
  { cbn [app]. rewrite invalid_sep_46. rewrite sep_loop_other by (reflexivity || lia).
    rewrite isl_drun by exact Hf. apply isl_exp; auto. }
  unfold lex_one. cbn [app]. rewrite next_cons by lia. cbn [lbind].
  rewrite <- app_assoc.
  rewrite lex_tok_dot' by (rewrite E; exact Hd).
  unfold scan_number. rewrite tail_dot. rewrite Ed. cbn [lbind]. rewrite Ee. cbn [lbind].
  rewrite num_final_ok;
    [ | left; destruct x; reflexivity | exact Hsep | apply num_boundary_ident; exact Hn ].
  cbn [lbind]. destruct x; reflexivity.
Qed.

(* C03, NUMERIC without '.':  DeD  De+D  De-D *)
Theorem numeric_exp_independent ip e s run rest :
  ipart_ok ip = true -> exp_ok (Exp e s run) = true -> num_boundary rest = true ->
  let text := ip ++ e :: s ++ run in
  lex_one L (text ++ rest) =
    LOk (Some (mktok TNumeric (str_of_bytes text)), fst (view rest), snd (view rest)).
Proof.
  intros Hip Ho Hn text. subst text.
  set (x := Exp e s run) in *.
  set (more := exp_text x ++ rest).
  replace ((ip ++ e :: s ++ run) ++ rest) with (ip ++ more)
    by (unfold more, x; cbn [exp_text]; rewrite <- !app_assoc; cbn [app]; rewrite <- !app_assoc; reflexivity).
  assert (He: (e =? 101) || (e =? 69) = true).
  { unfold x in Ho. cbn [exp_ok] in Ho. apply andb_prop in Ho as [Ho _]. apply andb_prop in Ho as [Ho _]. exact Ho. }
  assert (Hs: ip_stop more = true /\ (fst (view more) =? 46) = false).
  { unfold more, x. cbn [exp_text app ip_stop view fst].
    apply orb_prop in He as [He|He]; apply Z.eqb_eq in He; subst e; split; reflexivity. }
  destruct Hs as [Hs H46].
  pose proof (scan_number_ipart ip more Hip Hs) as S1. rewrite H46 in S1.
  rewrite tail_nodot in S1.
  destruct (num_exp_any TInt (ip_prefix ip) x rest ip (mk true (has_us ip)) (ip_prefix_cases ip) Ho Hn)
    as [ds' Ee].
  fold more in Ee. rewrite Ee in S1. cbn [lbind] in S1.
  rewrite num_final_ok in S1;
    [ | left; reflexivity | | apply num_boundary_ident; exact Hn ].
  - rewrite lex_one_ipart by exact Hip. rewrite S1. cbn [lbind]. reflexivity.
  - rewrite invalid_sep_unprefixed; [|exact Hip|apply (exp_np_head x []); [exact Ho|discriminate]].
    rewrite isl_drun by (apply ipart_drun; exact Hip).
    apply isl_exp; auto.
Qed.

(* ---- prefixed integers: 0x 0X 0o 0O 0b 0B ---- *)
Definition prefix_base (p : Z) : option Z :=
  if (p =? 120) || (p =? 88) then Some 16
  else if (p =? 111) || (p =? 79) then Some 8
  else if (p =? 98) || (p =? 66) then Some 2
  else None.

Lemma prefix_base_facts p base :
  prefix_base p = Some base ->
  0 < p /\ ((lower p = 120 /\ base = 16) \/ (lower p = 111 /\ base = 8) \/ (lower p = 98 /\ base = 2)).
Proof.
  unfold prefix_base. intros H.
  destruct ((p =? 120) || (p =? 88)) eqn:A.
  { inversion H; subst. apply orb_prop in A as [A|A]; apply Z.eqb_eq in A; subst p;
      (split; [lia|left; split; reflexivity]). }
  destruct ((p =? 111) || (p =? 79)) eqn:B.
  { inversion H; subst. apply orb_prop in B as [B|B]; apply Z.eqb_eq in B; subst p;
      (split; [lia|right; left; split; reflexivity]). }
  destruct ((p =? 98) || (p =? 66)) eqn:C; [|discriminate].
  inversion H; subst. apply orb_prop in C as [C|C]; apply Z.eqb_eq in C; subst p;
    (split; [lia|right; right; split; reflexivity]).
Qed.

Lemma scan_number_prefixed p base run more :
  prefix_base p = Some base -> sep_ok (bdigit base) false run = true -> run_stop base more = true ->
  scan_number L 48 (p :: run ++ more) false =
    if fst (view more) =? 46 then LOk (TInt, 48 :: p :: run, 46, snd (view more))
    else scan_number_tail L TInt base (lower p) (fst (view more)) (snd (view more))
           (48 :: p :: run) (mk true (has_us run)) 0 false.
Proof.
  intros Hp Hrun Hs. destruct (prefix_base_facts p base Hp) as [Pp Hc].
  pose proof (sep_ok_has_dig _ _ Hrun) as Hd.
  pose proof (sep_ok_inv base _ _ 0 Hrun) as Hinv.
  pose proof (sep_ok_runch base _ _ Hrun) as Hf.
  destruct (sep_ok_head _ _ Hrun) as [c [t [E [Hc1 Nc]]]].
  rewrite E in Hf. cbn [forallb] in Hf. apply andb_prop in Hf as [Hf1 Hf2].
  pose proof (runch_pos base c Hf1) as Pc.
  unfold scan_number. change (48 =? 48) with true. cbn iota.
  rewrite next_cons by exact Pp. cbn [lbind].
  destruct Hc as [[Hl Hb]|[[Hl Hb]|[Hl Hb]]]; rewrite Hl; subst base.
  all: cbn [Z.eqb Pos.eqb]; cbn iota.
  all: rewrite E at 1; cbn [app]; rewrite next_cons by exact Pc; cbn [lbind].
  all: rewrite Nc.
  all: rewrite digits_run0 by assumption; cbn [lbind app].
  all: rewrite <- E, Hinv, Hd, Z.lor_0_l, mk_bit0; cbn [negb andb].
  all: destruct (fst (view more) =? 46); reflexivity.
Qed.

Lemma bdigit_sep base x c :
  (base <=? 10 = true \/ x = true) -> bdigit base c = true -> is_decimal c || (x && is_hex c) = true.
Proof.
  unfold bdigit, is_decimal. intros Hx H. destruct (base <=? 10) eqn:B.
  - replace ((48 <=? c) && (c <=? 57)) with true by lia. reflexivity.
  - destruct Hx as [Hx|Hx]; [discriminate|]. subst x. rewrite H. apply orb_true_r.
Qed.

Lemma invalid_sep_prefixed p base run :
  prefix_base p = Some base -> sep_ok (bdigit base) false run = true ->
  invalid_sep (48 :: p :: run) = false.
Proof.
  intros Hp Hrun. destruct (prefix_base_facts p base Hp) as [_ Hc].
  rewrite invalid_sep_eq. change (48 =? 48) with true. cbn [andb].
  assert (Hx: (lower p =? 120) || (lower p =? 111) || (lower p =? 98) = true /\
              (base <=? 10 = true \/ (lower p =? 120) = true)).
  { destruct Hc as [[Hl Hb]|[[Hl Hb]|[Hl Hb]]]; rewrite Hl; subst base; split; auto. }
  destruct Hx as [Hx1 Hx2]. rewrite Hx1.
  rewrite <- (app_nil_r run).
  rewrite (sep_loop_run (lower p =? 120) (bdigit base) []).
  - reflexivity.
  - intros c Hcd. apply (bdigit_sep base); assumption.
  - change (48 =? 48) with true. apply sep_ok_weaken. exact Hrun.
Qed.

(* C03, prefixed integers: 0x / 0X + hex digits, 0o / 0O + octal digits,
   0b / 0B + binary digits, single '_' allowed between digits.  A '.' may
   follow (lex.go stops the prefixed integer there). *)
Theorem prefixed_int_independent p base run rest :
  prefix_base p = Some base -> sep_ok (bdigit base) false run = true -> num_boundary rest = true ->
  lex_one L (48 :: p :: run ++ rest) =
    LOk (Some (mktok TInt (str_of_bytes (48 :: p :: run))), fst (view rest), snd (view rest)).
Proof.
  intros Hp Hrun Hn.
  rewrite lex_one_number by reflexivity.
  rewrite (scan_number_prefixed p base run rest Hp Hrun (num_boundary_stop base rest Hn)).
  destruct (fst (view rest) =? 46) eqn:E46.
  - apply Z.eqb_eq in E46. cbn [lbind]. rewrite E46. reflexivity.
  - rewrite tail_nodot. rewrite num_exp_none by exact Hn. cbn [lbind].
    rewrite num_final_ok; [reflexivity|right; split; reflexivity| |apply num_boundary_ident; exact Hn].
    apply (invalid_sep_prefixed p base); assumption.
Qed.

End Num.

Print Assumptions int_independent.
Print Assumptions prefixed_int_independent.
Print Assumptions numeric_dot_independent.
Print Assumptions numeric_leading_dot_independent.
Print Assumptions numeric_exp_independent.

(* ================================================================== *)
(* "... and it denotes its mathematical value".

   The parser's value of an INT token is by definition
   [new_integer L text] = strconv.ParseInt(text, 0, 64), of a NUMERIC token
   [new_numeric L text] = strconv.ParseFloat(text, 64).  [Laws] only
   describes ParseInt on canonical decimal texts ([parse_int0_dec]); the
   library facts about the other texts the lexer lets through are stated
   here as Section Hypotheses, in the shape in which they can be added to
   [Laws].  They are exactly what lib/Strconv.v's executable model computes
   (ParseInt base 0 with prefixes and underscoreOK; readFloat with
   underscores and Go's exponent saturation at 10000; correctly rounded
   conversion F64.f64_of_dec). *)
From Coq Require Import Floats.SpecFloat.
From SJ Require lib.F64.

(* value of a digit run in a base, separators skipped *)
Definition run_value_acc (base : Z) (l : list Z) (acc : Z) : Z :=
  fold_left (fun a c => if c =? 95 then a else a * base + hex_char c) l acc.
Definition run_value (base : Z) (l : list Z) : Z := run_value_acc base l 0.

(* number of digits of a run *)
Definition digit_count (l : list Z) : Z := Z.of_nat (length (filter (fun c => negb (c =? 95)) l)).

(* exponent digits, with readFloat's saturation (e stops growing at 10000) *)
Fixpoint exp_digits_value (l : list Z) (e : Z) : Z :=
  match l with
  | [] => e
  | c :: r => if c =? 95 then exp_digits_value r e
              else exp_digits_value r (if e <? 10000 then e * 10 + (c - 48) else e)
  end.
Definition exp_value (x : expo) : Z :=
  match x with
  | NoExp => 0
  | Exp _ s run => (match s with [c] => if c =? 45 then -1 else 1 | _ => 1 end) * exp_digits_value run 0
  end.

(* the float64 nearest to  (digits of ip and frac) * 10^(exponent - #frac digits) *)
Definition numeric_value (ip frac : list Z) (x : expo) : f64 :=
  SJ.lib.F64.f64_of_dec false (run_value 10 (ip ++ frac)) (exp_value x - digit_count frac).

Definition f64_inf (v : f64) : bool := match v with S754_infinity _ => true | _ => false end.

Lemma dec_value_run_value : forall l acc,
  forallb is_decimal l = true -> dec_value_acc acc l = run_value_acc 10 l acc.
Proof.
  induction l as [|c r IH]; intros acc H; [reflexivity|]. cbn [forallb] in H. apply andb_prop in H as [Hc Hr].
  unfold run_value_acc. cbn [dec_value_acc fold_left]. fold (run_value_acc 10 r).
  unfold is_decimal in Hc. replace (c =? 95) with false by lia.
  unfold hex_char. replace ((48 <=? c) && (c <=? 57)) with true by lia. apply IH. exact Hr.
Qed.

Lemma sep_ok_no_us dig l pd :
  sep_ok dig pd l = true -> has_us l = false -> forallb dig l = true.
Proof.
  revert pd. induction l as [|c r IH]; intros pd H U; [reflexivity|].
  unfold has_us in U. cbn [existsb] in U. apply orb_false_elim in U as [U1 U2].
  cbn [sep_ok forallb] in *. rewrite U1 in H. apply andb_prop in H as [H1 H2]. rewrite H1.
  cbn [andb]. eapply IH; [exact H2|exact U2].
Qed.

Section Values.
Variable L : GoLib.
Hypothesis HL : Laws L.

(* without separators the integer-part texts are the canonical decimal texts
   of [Laws.parse_int0_dec]: no new library fact is needed *)
Lemma ipart_canon ip :
  ipart_ok ip = true -> has_us ip = false ->
  canon_nat_text ip = true /\ dec_value ip = run_value 10 ip.
Proof.
  intros Hip U. pose proof (ipart_drun ip Hip) as Hd. unfold drun in Hd.
  pose proof (sep_ok_no_us _ _ _ Hd U) as Hall.
  split; [|apply dec_value_run_value; exact Hall].
  destruct ip as [|c r]; [discriminate|]. cbn [ipart_ok] in Hip. cbn [forallb] in Hall.
  apply andb_prop in Hall as [Hc Hr].
  destruct r as [|c' r']; [exact Hc|].
  destruct (c =? 48) eqn:E; [discriminate|].
  unfold canon_nat_text. unfold is_decimal in Hc.
  replace ((49 <=? c) && (c <=? 57)) with true by lia. exact Hr.
Qed.

Theorem int_value_nosep ip :
  ipart_ok ip = true -> has_us ip = false ->
  parse_int0 L (str_of_bytes ip) =
    if run_value 10 ip <=? max_int64 then Some (run_value 10 ip) else None.
Proof.
  intros Hip U. destruct (ipart_canon ip Hip U) as [C V].
  rewrite (parse_int0_dec L HL) by exact C. rewrite V. reflexivity.
Qed.

(* ---- library facts to be added to Laws ---- *)

(* ParseInt(s, 0, 64) on "0x"/"0o"/"0b" + digits (either case of the prefix
   letter and of hex digits, '_' between digits): the value in that base, or
   a range error iff it exceeds MaxInt64 *)
Hypothesis parse_int0_prefixed : forall p base run,
  prefix_base p = Some base -> sep_ok (bdigit base) false run = true ->
  parse_int0 L (str_of_bytes (48 :: p :: run)) =
    if run_value base run <=? max_int64 then Some (run_value base run) else None.

(* ParseInt(s, 0, 64) on decimal digits with '_' separators, no leading 0 *)
Hypothesis parse_int0_sep : forall ip,
  ipart_ok ip = true ->
  parse_int0 L (str_of_bytes ip) =
    if run_value 10 ip <=? max_int64 then Some (run_value 10 ip) else None.

(* ParseFloat(s, 64) on the three NUMERIC shapes: the correctly rounded
   value; the flag is the range error *)
Hypothesis parse_float_dot : forall ip frac x,
  ipart_ok ip = true -> frac_ok frac = true -> exp_ok x = true ->
  parse_float L (str_of_bytes (ip ++ 46 :: frac ++ exp_text x)) =
    Some (numeric_value ip frac x, f64_inf (numeric_value ip frac x)).
Hypothesis parse_float_leading_dot : forall frac x,
  drun frac = true -> exp_ok x = true ->
  parse_float L (str_of_bytes (46 :: frac ++ exp_text x)) =
    Some (numeric_value [] frac x, f64_inf (numeric_value [] frac x)).
Hypothesis parse_float_exp : forall ip e s run,
  ipart_ok ip = true -> exp_ok (Exp e s run) = true ->
  parse_float L (str_of_bytes (ip ++ e :: s ++ run)) =
    Some (numeric_value ip [] (Exp e s run), f64_inf (numeric_value ip [] (Exp e s run))).

Definition int_result (v : Z) : pres Z := if v <=? max_int64 then ROk v else RErr EIntParse.
Definition num_result (v : f64) : pres f64 := if f64_inf v then RErr EFloatParse else ROk v.

(* ---- token + value, per form ---- *)
Theorem prefixed_int_token_value p base run rest :
  prefix_base p = Some base -> sep_ok (bdigit base) false run = true -> num_boundary L rest = true ->
  exists t, lex_one L (48 :: p :: run ++ rest) = LOk (Some (mktok TInt t), fst (view rest), snd (view rest)) /\
            new_integer L t = int_result (run_value base run).
Proof.
  intros Hp Hr Hn. eexists. split; [apply (prefixed_int_independent L HL p base); assumption|].
  unfold new_integer, int_result. rewrite (parse_int0_prefixed p base run Hp Hr).
  destruct (run_value base run <=? max_int64); reflexivity.
Qed.

Theorem int_token_value ip rest :
  ipart_ok ip = true -> int_boundary L rest = true ->
  exists t, lex_one L (ip ++ rest) = LOk (Some (mktok TInt t), fst (view rest), snd (view rest)) /\
            new_integer L t = int_result (run_value 10 ip).
Proof.
  intros Hip Hb. eexists. split; [apply (int_independent L HL); assumption|].
  unfold new_integer, int_result. rewrite (parse_int0_sep ip Hip).
  destruct (run_value 10 ip <=? max_int64); reflexivity.
Qed.

Lemma num_result_eq t v :
  parse_float L t = Some (v, f64_inf v) -> new_numeric L t = num_result v.
Proof. intros H. unfold new_numeric, num_result. rewrite H. destruct (f64_inf v); reflexivity. Qed.

Theorem numeric_dot_token_value ip frac x rest :
  ipart_ok ip = true -> frac_ok frac = true -> exp_ok x = true -> num_boundary L rest = true ->
  exists t, lex_one L ((ip ++ 46 :: frac ++ exp_text x) ++ rest) =
              LOk (Some (mktok TNumeric t), fst (view rest), snd (view rest)) /\
            new_numeric L t = num_result (numeric_value ip frac x).
Proof.
  intros Hip Hf Ho Hn. eexists. split; [apply (numeric_dot_independent L HL); assumption|].
  apply num_result_eq. apply parse_float_dot; assumption.
Qed.

Theorem numeric_leading_dot_token_value frac x rest :
  drun frac = true -> exp_ok x = true -> num_boundary L rest = true ->
  exists t, lex_one L ((46 :: frac ++ exp_text x) ++ rest) =
              LOk (Some (mktok TNumeric t), fst (view rest), snd (view rest)) /\
            new_numeric L t = num_result (numeric_value [] frac x).
Proof.
  intros Hf Ho Hn. eexists. split; [apply (numeric_leading_dot_independent L HL); assumption|].
  apply num_result_eq. apply parse_float_leading_dot; assumption.
Qed.

Theorem numeric_exp_token_value ip e s run rest :
  ipart_ok ip = true -> exp_ok (Exp e s run) = true -> num_boundary L rest = true ->
  exists t, lex_one L ((ip ++ e :: s ++ run) ++ rest) =
              LOk (Some (mktok TNumeric t), fst (view rest), snd (view rest)) /\
            new_numeric L t = num_result (numeric_value ip [] (Exp e s run)).
Proof.
  intros Hip Ho Hn. eexists. split; [apply (numeric_exp_independent L HL); assumption|].
  apply num_result_eq. apply parse_float_exp; assumption.
Qed.

End Values.

(* ================================================================== *)
(* sanity: concrete instances of every form named in C03 *)
Section Examples.
Variable L : GoLib.
Hypothesis HL : Laws L.

Let bytes (s : string) : list Z := bytes_of s.

Ltac int_ex := apply (int_independent L HL); reflexivity.

(* "0" at end of input, "1_000" at end of input *)
Example ex_zero : lex_one L (bytes "0") = LOk (Some (mktok TInt "0"), -1, []).
Proof. exact (int_independent L HL [48] [] eq_refl eq_refl). Qed.
Example ex_sep : lex_one L (bytes "1_000") = LOk (Some (mktok TInt "1_000"), -1, []).
Proof. exact (int_independent L HL (bytes "1_000") [] eq_refl eq_refl). Qed.
Example ex_hex : lex_one L (bytes "0x1EEE_FFFF") = LOk (Some (mktok TInt "0x1EEE_FFFF"), -1, []).
Proof. exact (prefixed_int_independent L HL 120 16 (bytes "1EEE_FFFF") [] eq_refl eq_refl eq_refl). Qed.
Example ex_oct : lex_one L (bytes "0O17") = LOk (Some (mktok TInt "0O17"), -1, []).
Proof. exact (prefixed_int_independent L HL 79 8 (bytes "17") [] eq_refl eq_refl eq_refl). Qed.
Example ex_bin : lex_one L (bytes "0b1_01") = LOk (Some (mktok TInt "0b1_01"), -1, []).
Proof. exact (prefixed_int_independent L HL 98 2 (bytes "1_01") [] eq_refl eq_refl eq_refl). Qed.
(* D.D  D.  D.eD  D.DeD *)
Example ex_dd : lex_one L (bytes "1_0.2_5") = LOk (Some (mktok TNumeric "1_0.2_5"), -1, []).
Proof. exact (numeric_dot_independent L HL (bytes "1_0") (bytes "2_5") NoExp [] eq_refl eq_refl eq_refl eq_refl). Qed.
Example ex_d_ : lex_one L (bytes "0.") = LOk (Some (mktok TNumeric "0."), -1, []).
Proof. exact (numeric_dot_independent L HL [48] [] NoExp [] eq_refl eq_refl eq_refl eq_refl). Qed.
Example ex_d_e : lex_one L (bytes "12.e3") = LOk (Some (mktok TNumeric "12.e3"), -1, []).
Proof. exact (numeric_dot_independent L HL (bytes "12") [] (Exp 101 [] [51]) [] eq_refl eq_refl eq_refl eq_refl). Qed.
Example ex_dde : lex_one L (bytes "0.9E-1_0") = LOk (Some (mktok TNumeric "0.9E-1_0"), -1, []).
Proof. exact (numeric_dot_independent L HL [48] [57] (Exp 69 [45] (bytes "1_0")) [] eq_refl eq_refl eq_refl eq_refl). Qed.
(* .D  .DeD *)
Example ex_ld : lex_one L (bytes ".5") = LOk (Some (mktok TNumeric ".5"), -1, []).
Proof. exact (numeric_leading_dot_independent L HL [53] NoExp [] eq_refl eq_refl eq_refl). Qed.
Example ex_lde : lex_one L (bytes ".5e+7") = LOk (Some (mktok TNumeric ".5e+7"), -1, []).
Proof. exact (numeric_leading_dot_independent L HL [53] (Exp 101 [43] [55]) [] eq_refl eq_refl eq_refl). Qed.
(* DeD De+D De-D *)
Example ex_ed : lex_one L (bytes "1e5") = LOk (Some (mktok TNumeric "1e5"), -1, []).
Proof. exact (numeric_exp_independent L HL [49] 101 [] [53] [] eq_refl eq_refl eq_refl). Qed.
Example ex_edm : lex_one L (bytes "0e-5") = LOk (Some (mktok TNumeric "0e-5"), -1, []).
Proof. exact (numeric_exp_independent L HL [48] 101 [45] [53] [] eq_refl eq_refl eq_refl). Qed.
(* identifiers: xé at end of input; \u{1F600} alone; surrogate pair *)
Example ex_id1 : lex_one L (bytes "a\t") =
  LOk (Some (mktok (ident_token L (string_of_runes [97; 9])) (string_of_runes [97; 9])), -1, []).
Proof.
  refine (ident_escape_at_eof L HL (IRaw 97) [ILetter 116 9] _ _).
  - split; [|lia]. unfold is_ident_rune. rewrite (xid_start_ascii L HL) by lia. reflexivity.
  - constructor; [cbn; auto 10|constructor].
Qed.
Example ex_id2 : lex_one L (bytes "\uD83D\u{DE00}") =
  LOk (Some (mktok (ident_token L (string_of_runes [128512])) (string_of_runes [128512])), -1, []).
Proof.
  refine (ident_escape_at_eof L HL (IPair (U4 68 56 51 68) (UB [68; 69; 48; 48])) [] _ _).
  - cbn. repeat split; reflexivity || lia.
  - constructor.
Qed.
End Examples.

Print Assumptions int_value_nosep.
Print Assumptions prefixed_int_token_value.
