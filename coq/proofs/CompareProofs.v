(* CompareProofs.v — C12: the six comparison operators agree with one total
   order per type; starts with; like_regex; the lax/strict pair loops.

   Structure
   1. [applyCompare]: the six operators are functions of one integer sign.
   2. [item_cmp]: the partial comparison underlying [compareItems];
      [compareItems_cmp] and its inversion [holds_inv].
   3. Generic consequences of the order laws of a class ([OrdClass]):
      trichotomy, duality, unions, negation, transitivity.
   4. The classes: null, bool, strings (byte order), integers (int64 and
      integral json.Number, any magnitude), numbers across representations
      (under NumLaws, integers within ±2^53, no NaN), datetimes (under DtLaws).
   5. Null rules, incomparable items, the ErrInvalid case.
   6. The sequence level: [spairs] in lax and strict mode.
   7. starts with / like_regex.
   8. The concrete instance: datetime laws, refuted witnesses.

   No reals.  Theorems are closed under the global context. *)
From Coq Require Import ZArith Bool List Lia ZifyBool String Ascii.
From Coq Require Import Floats.SpecFloat.
From SJ Require Import lib.Base lib.F64 lib.Strconv model.Json model.Ast model.ExecLib model.Leaf
  model.GoTime model.DateTime spec.Sem extract.Instance proofs.LeafLaws proofs.KleeneProofs
  proofs.DateTimeProofs.

Local Open Scope Z_scope.

(* ================================================================== *)
(* 1. applyCompare                                                      *)
(* ================================================================== *)

Definition truth (op : binop) (c : Z) : bool :=
  match op with
  | BEq => c =? 0
  | BNe => negb (c =? 0)
  | BLt => c <? 0
  | BGt => c >? 0
  | BLe => c <=? 0
  | BGe => c >=? 0
  | _ => false
  end.

Lemma applyCompare_truth op c : is_cmp op = true -> applyCompare op c = (predFrom (truth op c), None).
Proof. destruct op; intros H; try discriminate H; reflexivity. Qed.

(* the mirrored operator *)
Definition flip (op : binop) : binop :=
  match op with BLt => BGt | BGt => BLt | BLe => BGe | BGe => BLe | o => o end.

Lemma is_cmp_flip op : is_cmp (flip op) = is_cmp op.
Proof. destruct op; reflexivity. Qed.

Lemma truth_flip op c : truth (flip op) (- c) = truth op c.
Proof. destruct op; cbn; lia. Qed.

(* exactly one of <, ==, > ; <= and >= are the unions with ==; != negates == *)
Lemma truth_trichotomy c :
  (truth BLt c = true /\ truth BEq c = false /\ truth BGt c = false) \/
  (truth BLt c = false /\ truth BEq c = true /\ truth BGt c = false) \/
  (truth BLt c = false /\ truth BEq c = false /\ truth BGt c = true).
Proof. cbn. lia. Qed.
Lemma truth_le c : truth BLe c = truth BLt c || truth BEq c.
Proof. cbn. lia. Qed.
Lemma truth_ge c : truth BGe c = truth BGt c || truth BEq c.
Proof. cbn. lia. Qed.
Lemma truth_ne c : truth BNe c = negb (truth BEq c).
Proof. reflexivity. Qed.

Lemma predFrom_inj a b : predFrom a = predFrom b -> a = b.
Proof. destruct a, b; cbn; intros H; try discriminate H; reflexivity. Qed.

Lemma cmp_of_comparison_opp c : cmp_of_comparison (CompOpp c) = - cmp_of_comparison c.
Proof. destruct c; reflexivity. Qed.
Lemma cmp_of_comparison_le c : cmp_of_comparison c <= 0 <-> c <> Gt.
Proof. destruct c; cbn; split; intros H; try lia; try discriminate; exfalso; apply H; reflexivity. Qed.
Lemma cmp_of_comparison_lt c : cmp_of_comparison c < 0 <-> c = Lt.
Proof. destruct c; cbn; split; intros H; try lia; try discriminate; reflexivity. Qed.
Lemma cmp_of_comparison_eq c : cmp_of_comparison c = 0 <-> c = Eq.
Proof. destruct c; cbn; split; intros H; try lia; try discriminate; reflexivity. Qed.

(* ================================================================== *)
(* A comparison function that is antisymmetric, Lt-transitive and whose *)
(* Eq is a congruence gives the three order laws on its integer sign.   *)
(* ================================================================== *)
Section TotalPre.
  Context {T : Type} (cmpT : T -> T -> comparison).
  Hypothesis cmpT_antisym : forall a b, cmpT b a = CompOpp (cmpT a b).
  Hypothesis cmpT_lt_trans : forall a b c, cmpT a b = Lt -> cmpT b c = Lt -> cmpT a c = Lt.
  Hypothesis cmpT_eq_l : forall a b c, cmpT a b = Eq -> cmpT a c = cmpT b c.

  Lemma cmpT_eq_r a b c : cmpT a b = Eq -> cmpT c a = cmpT c b.
  Proof.
    intros H. rewrite (cmpT_antisym a c), (cmpT_antisym b c). f_equal. apply cmpT_eq_l; exact H.
  Qed.

  Lemma cmpT_le_trans a b c :
    cmp_of_comparison (cmpT a b) <= 0 -> cmp_of_comparison (cmpT b c) <= 0 ->
    cmp_of_comparison (cmpT a c) <= 0 /\
    (cmp_of_comparison (cmpT a b) < 0 \/ cmp_of_comparison (cmpT b c) < 0 -> cmp_of_comparison (cmpT a c) < 0).
  Proof.
    intros H1 H2.
    destruct (cmpT a b) eqn:E1; [| |cbn in H1; lia]; (destruct (cmpT b c) eqn:E2; [| |cbn in H2; lia]).
    - rewrite (cmpT_eq_l _ _ _ E1), E2. cbn; lia.
    - rewrite (cmpT_eq_l _ _ _ E1), E2. cbn; lia.
    - rewrite <- (cmpT_eq_r _ _ a E2), E1. cbn; lia.
    - rewrite (cmpT_lt_trans _ _ _ E1 E2). cbn; lia.
  Qed.
End TotalPre.

(* ================================================================== *)
(* strings: str_compare is the byte-wise lexicographic total order      *)
(* ================================================================== *)
Lemma N_of_ascii_inj x y : N_of_ascii x = N_of_ascii y -> x = y.
Proof. intros H. rewrite <- (ascii_N_embedding x), <- (ascii_N_embedding y), H. reflexivity. Qed.

Theorem str_compare_eq a b : str_compare a b = Eq <-> a = b.
Proof.
  revert b. induction a as [|x a IH]; destruct b as [|y b]; cbn; split; intros H;
    try discriminate H; try reflexivity.
  - destruct (N.compare_spec (N_of_ascii x) (N_of_ascii y)) as [E|E|E]; try discriminate H.
    apply N_of_ascii_inj in E. apply IH in H. congruence.
  - injection H as -> ->. rewrite N.compare_refl. apply IH. reflexivity.
Qed.

Theorem str_compare_antisym a b : str_compare b a = CompOpp (str_compare a b).
Proof.
  revert b. induction a as [|x a IH]; destruct b as [|y b]; cbn; try reflexivity.
  rewrite (N.compare_antisym (N_of_ascii x) (N_of_ascii y)).
  destruct (N_of_ascii x ?= N_of_ascii y)%N; cbn; try reflexivity. apply IH.
Qed.

Theorem str_compare_lt_trans a b c :
  str_compare a b = Lt -> str_compare b c = Lt -> str_compare a c = Lt.
Proof.
  revert b c. induction a as [|x a IH]; intros [|y b] [|z c]; cbn; intros H1 H2;
    try discriminate; try reflexivity.
  destruct (N.compare_spec (N_of_ascii x) (N_of_ascii y)) as [E1|E1|E1]; try discriminate H1;
    destruct (N.compare_spec (N_of_ascii y) (N_of_ascii z)) as [E2|E2|E2]; try discriminate H2.
  - rewrite E1, E2, N.compare_refl. eapply IH; eassumption.
  - rewrite E1. apply N.compare_lt_iff in E2. rewrite E2. reflexivity.
  - rewrite <- E2. apply N.compare_lt_iff in E1. rewrite E1. reflexivity.
  - assert (E : (N_of_ascii x < N_of_ascii z)%N) by lia.
    apply N.compare_lt_iff in E. rewrite E. reflexivity.
Qed.

Lemma str_compare_eq_l a b c : str_compare a b = Eq -> str_compare a c = str_compare b c.
Proof. intros H. apply str_compare_eq in H. subst. reflexivity. Qed.

Lemma str_compare_refl a : str_compare a a = Eq.
Proof. apply str_compare_eq. reflexivity. Qed.

(* "byte order": a < b iff a is a proper prefix of b, or at the first
   difference the byte of a is the smaller one *)
Theorem str_compare_lt_iff a b :
  str_compare a b = Lt <->
  (exists y t, b = (a ++ String y t)%string) \/
  (exists p x ta y tb, a = (p ++ String x ta)%string /\ b = (p ++ String y tb)%string /\
                       (N_of_ascii x < N_of_ascii y)%N).
Proof.
  revert b. induction a as [|x a IH]; intros [|y b]; cbn.
  - split; [discriminate|]. intros [(y & t & H)|(p & x & ta & y & tb & H & _)].
    + discriminate H.
    + destruct p; discriminate H.
  - split; [|reflexivity]. intros _. left. exists y, b. reflexivity.
  - split; [discriminate|]. intros [(y & t & H)|(p & x' & ta & y & tb & _ & H & _)].
    + discriminate H.
    + destruct p; discriminate H.
  - destruct (N.compare_spec (N_of_ascii x) (N_of_ascii y)) as [E|E|E].
    + apply N_of_ascii_inj in E. subst y. rewrite IH. split.
      * intros [(y & t & ->)|(p & x' & ta & y & tb & -> & -> & Hlt)].
        -- left. exists y, t. reflexivity.
        -- right. exists (String x p), x', ta, y, tb. repeat split. exact Hlt.
      * intros [(y & t & H)|(p & x' & ta & y & tb & Ha & Hb & Hlt)].
        -- injection H as ->. left. eauto.
        -- destruct p as [|c p]; cbn in Ha, Hb.
           ++ injection Ha as -> ->. injection Hb as <- ->. lia.
           ++ injection Ha as -> ->. injection Hb as ->. right. exists p, x', ta, y, tb. auto.
    + split; [|reflexivity]. intros _. right. exists EmptyString, x, a, y, b. auto.
    + split; [discriminate|].
      intros [(y' & t & H)|(p & x' & ta & y' & tb & Ha & Hb & Hlt)].
      * injection H as -> _. lia.
      * destruct p as [|c p]; cbn in Ha, Hb.
        -- injection Ha as -> ->. injection Hb as -> ->. lia.
        -- injection Ha as -> ->. injection Hb as -> ->. lia.
Qed.

(* ================================================================== *)
(* 2. item_cmp: the partial comparison behind compareItems              *)
(* ================================================================== *)
Section Cmp.
Variable L : ExecLib.
Variable useTZ : bool.

Notation CI := (compareItems L useTZ).

Definition item_cmp (a b : json) : option Z :=
  match a, b with
  | JNull, JNull => Some 0
  | JBool x, JBool y => Some (compareBool x y)
  | JStr x, JStr y => Some (cmp_of_comparison (str_compare x y))
  | JNum x, JNum y => match compareNumeric L x y with Ret c => Some c | _ => None end
  | JDt x, JDt y => match xl_dt_compare L useTZ x y with ExecLib.CmpOk c => Some c | _ => None end
  | _, _ => None
  end.

(* "op holds of (a, b)" *)
Definition holds (op : binop) (a b : json) : Prop := CI op a b = Ret (PTrue, None).
Definition fails (op : binop) (a b : json) : Prop := CI op a b = Ret (PFalse, None).

Theorem compareItems_cmp op a b c :
  is_cmp op = true -> item_cmp a b = Some c -> CI op a b = Ret (predFrom (truth op c), None).
Proof.
  intros Hop H. rewrite <- applyCompare_truth by exact Hop.
  destruct a, b; cbn in H; try discriminate H; cbn.
  - injection H as <-. reflexivity.
  - injection H as <-. reflexivity.
  - destruct (compareNumeric L n n0) as [c'| |]; try discriminate H. injection H as <-. reflexivity.
  - injection H as <-. reflexivity.
  - destruct (xl_dt_compare L useTZ d d0); try discriminate H. injection H as <-. reflexivity.
Qed.

(* exactly one of the two items is null *)
Definition one_null (a b : json) : bool := xorb (is_null a) (is_null b).

Theorem compareItems_one_null op a b :
  one_null a b = true -> CI op a b = Ret (predFrom (binop_eqb op BNe), None).
Proof.
  unfold one_null, compareItems. destruct (is_null a), (is_null b); cbn; intros H; try discriminate H; reflexivity.
Qed.

(* A decided answer (true or false, no error) comes from the sign of item_cmp
   or from the null rule. *)
Theorem decided_inv op a b p :
  is_cmp op = true -> (p = PTrue \/ p = PFalse) -> CI op a b = Ret (p, None) ->
  (exists c, item_cmp a b = Some c /\ p = predFrom (truth op c)) \/
  (one_null a b = true /\ p = predFrom (binop_eqb op BNe)).
Proof.
  intros Hop Hp H.
  destruct (one_null a b) eqn:Hn.
  - right. split; [reflexivity|]. rewrite compareItems_one_null in H by exact Hn. congruence.
  - left.
    assert (Hu : forall e, Ret (PUnknown, e) = Ret (p, @None err) -> False)
      by (intros e E; destruct Hp; subst p; discriminate E).
    destruct a, b; try discriminate Hn; cbn in H; try (exfalso; eapply Hu; exact H).
    + rewrite applyCompare_truth in H by exact Hop. exists 0. split; [reflexivity|congruence].
    + rewrite applyCompare_truth in H by exact Hop. eexists. split; [reflexivity|congruence].
    + cbn [item_cmp]. destruct (compareNumeric L n n0) as [c| |]; try discriminate H. cbn in H.
      rewrite applyCompare_truth in H by exact Hop. exists c. split; [reflexivity|congruence].
    + rewrite applyCompare_truth in H by exact Hop. eexists. split; [reflexivity|congruence].
    + cbn [item_cmp]. destruct (xl_dt_compare L useTZ d d0); try (exfalso; eapply Hu; exact H);
        try discriminate H.
      rewrite applyCompare_truth in H by exact Hop. exists c. split; [reflexivity|congruence].
Qed.

Lemma item_cmp_not_one_null a b c : item_cmp a b = Some c -> one_null a b = false.
Proof. destruct a, b; cbn; intros H; try discriminate H; reflexivity. Qed.

Corollary holds_inv op a b :
  is_cmp op = true -> op <> BNe -> holds op a b -> exists c, item_cmp a b = Some c /\ truth op c = true.
Proof.
  intros Hop Hne H. destruct (decided_inv op a b PTrue Hop (or_introl eq_refl) H) as [(c & Hc & Hp)|[_ Hp]].
  - exists c. split; [exact Hc|]. apply predFrom_inj. symmetry. exact Hp.
  - destruct op; cbn in Hp; try discriminate Hp. exfalso; apply Hne; reflexivity.
Qed.

(* ================================================================== *)
(* 3. What the order laws of a class give                               *)
(* ================================================================== *)
Record OrdClass (D : json -> Prop) : Prop := mkOrdClass {
  oc_antisym : forall a b c, D a -> D b -> item_cmp a b = Some c -> item_cmp b a = Some (- c);
  oc_trans : forall a b c x y, D a -> D b -> D c ->
      item_cmp a b = Some x -> item_cmp b c = Some y -> x <= 0 -> y <= 0 ->
      exists z, item_cmp a c = Some z /\ z <= 0 /\ (x < 0 \/ y < 0 -> z < 0)
}.

(* ---- facts that need no law: the six answers are functions of one sign ---- *)

(* for comparable items exactly one of <, ==, > holds (and the other two fail) *)
Theorem C12_trichotomy a b c :
  item_cmp a b = Some c ->
  (holds BLt a b /\ fails BEq a b /\ fails BGt a b) \/
  (fails BLt a b /\ holds BEq a b /\ fails BGt a b) \/
  (fails BLt a b /\ fails BEq a b /\ holds BGt a b).
Proof.
  intros H. unfold holds, fails.
  rewrite !(compareItems_cmp _ a b c) by (reflexivity || exact H).
  destruct (truth_trichotomy c) as [(->&->&->)|[(->&->&->)|(->&->&->)]]; auto.
Qed.

(* <= and >= are the unions with ==, != is the negation of == *)
Theorem C12_unions a b c :
  item_cmp a b = Some c ->
  (holds BLe a b <-> holds BLt a b \/ holds BEq a b) /\
  (holds BGe a b <-> holds BGt a b \/ holds BEq a b) /\
  (holds BNe a b <-> fails BEq a b) /\
  (fails BNe a b <-> holds BEq a b).
Proof.
  intros H. unfold holds, fails.
  rewrite !(compareItems_cmp _ a b c) by (reflexivity || exact H).
  rewrite truth_le, truth_ge, truth_ne.
  destruct (truth BLt c), (truth BGt c), (truth BEq c); cbn;
    repeat split; intros; try discriminate; try reflexivity; auto;
    match goal with H : _ \/ _ |- _ => destruct H; discriminate end.
Qed.

(* every comparison of comparable items is decided: true or false, no error *)
Theorem C12_comparable_decided op a b c :
  is_cmp op = true -> item_cmp a b = Some c -> holds op a b \/ fails op a b.
Proof.
  intros Hop H. unfold holds, fails. rewrite (compareItems_cmp op a b c Hop H).
  destruct (truth op c); auto.
Qed.

Section Class.
Variable D : json -> Prop.
Hypothesis HD : OrdClass D.

Lemma oc_refl a c : D a -> item_cmp a a = Some c -> c = 0.
Proof.
  intros Da H. pose proof (oc_antisym D HD a a c Da Da H) as H'. rewrite H in H'. injection H' as E. lia.
Qed.

(* a < b iff b > a, a <= b iff b >= a, == and != are symmetric:
   the whole answer of the mirrored operator on the swapped items is the same *)
Theorem C12_duality_eq op a b c :
  D a -> D b -> is_cmp op = true -> item_cmp a b = Some c -> CI op a b = CI (flip op) b a.
Proof.
  intros Da Db Hop H.
  rewrite (compareItems_cmp op a b c Hop H).
  rewrite (compareItems_cmp (flip op) b a (- c)) by (rewrite ?is_cmp_flip; auto; apply (oc_antisym D HD); auto).
  rewrite truth_flip. reflexivity.
Qed.

Theorem C12_duality op a b :
  D a -> D b -> is_cmp op = true -> (holds op a b <-> holds (flip op) b a).
Proof.
  assert (Hgen : forall op a b, D a -> D b -> is_cmp op = true -> holds op a b -> holds (flip op) b a).
  { clear op a b. intros op a b Da Db Hop H. unfold holds in *.
    destruct (decided_inv op a b PTrue Hop (or_introl eq_refl) H) as [(c & Hc & _)|[Hn Hp]].
    - rewrite <- (C12_duality_eq op a b c) by assumption. exact H.
    - assert (Hn' : one_null b a = true) by (unfold one_null in *; rewrite xorb_comm; exact Hn).
      rewrite compareItems_one_null by exact Hn'.
      destruct op; cbn in Hp; try discriminate Hp. reflexivity. }
  intros Da Db Hop. split; [apply Hgen; assumption|].
  intros H. apply Hgen in H; try assumption; [|rewrite is_cmp_flip; exact Hop].
  destruct op; exact H.
Qed.

Corollary C12_lt_gt a b : D a -> D b -> (holds BLt a b <-> holds BGt b a).
Proof. intros; apply (C12_duality BLt); auto. Qed.
Corollary C12_le_ge a b : D a -> D b -> (holds BLe a b <-> holds BGe b a).
Proof. intros; apply (C12_duality BLe); auto. Qed.
Corollary C12_eq_sym a b : D a -> D b -> (holds BEq a b <-> holds BEq b a).
Proof. intros; apply (C12_duality BEq); auto. Qed.

Theorem C12_refl a c : D a -> item_cmp a a = Some c -> holds BEq a a /\ holds BLe a a /\ holds BGe a a.
Proof.
  intros Da H. pose proof (oc_refl a c Da H) as ->. unfold holds.
  rewrite !(compareItems_cmp _ a a 0) by (reflexivity || exact H). auto.
Qed.

(* transitivity of <=, with the strict versions *)
Theorem C12_le_trans a b c :
  D a -> D b -> D c -> holds BLe a b -> holds BLe b c ->
  holds BLe a c /\ (holds BLt a b \/ holds BLt b c -> holds BLt a c).
Proof.
  intros Da Db Dc H1 H2.
  destruct (holds_inv BLe a b eq_refl ltac:(discriminate) H1) as (x & Hx & Tx).
  destruct (holds_inv BLe b c eq_refl ltac:(discriminate) H2) as (y & Hy & Ty).
  cbn in Tx, Ty.
  destruct (oc_trans D HD a b c x y Da Db Dc Hx Hy ltac:(lia) ltac:(lia)) as (z & Hz & Zle & Zlt).
  unfold holds. split.
  - rewrite (compareItems_cmp BLe a c z eq_refl Hz). cbn. replace (z <=? 0) with true by lia. reflexivity.
  - intros Hs.
    assert (x < 0 \/ y < 0).
    { destruct Hs as [Hs|Hs]; unfold holds in Hs.
      - rewrite (compareItems_cmp BLt a b x eq_refl Hx) in Hs. cbn in Hs.
        destruct (x <? 0) eqn:E; [left; lia | discriminate Hs].
      - rewrite (compareItems_cmp BLt b c y eq_refl Hy) in Hs. cbn in Hs.
        destruct (y <? 0) eqn:E; [right; lia | discriminate Hs]. }
    rewrite (compareItems_cmp BLt a c z eq_refl Hz). cbn.
    replace (z <? 0) with true by lia. reflexivity.
Qed.

Lemma holds_lt_le a b : holds BLt a b -> holds BLe a b.
Proof.
  intros H. destruct (holds_inv BLt a b eq_refl ltac:(discriminate) H) as (x & Hx & Tx).
  unfold holds. rewrite (compareItems_cmp BLe a b x eq_refl Hx). cbn in *.
  replace (x <=? 0) with true by lia. reflexivity.
Qed.
Lemma holds_eq_le a b : holds BEq a b -> holds BLe a b.
Proof.
  intros H. destruct (holds_inv BEq a b eq_refl ltac:(discriminate) H) as (x & Hx & Tx).
  unfold holds. rewrite (compareItems_cmp BLe a b x eq_refl Hx). cbn in *.
  replace (x <=? 0) with true by lia. reflexivity.
Qed.

Theorem C12_lt_trans a b c :
  D a -> D b -> D c -> holds BLt a b -> holds BLt b c -> holds BLt a c.
Proof.
  intros Da Db Dc H1 H2.
  apply (C12_le_trans a b c Da Db Dc (holds_lt_le _ _ H1) (holds_lt_le _ _ H2)). left; exact H1.
Qed.

Theorem C12_eq_trans a b c :
  D a -> D b -> D c -> holds BEq a b -> holds BEq b c -> holds BEq a c.
Proof.
  intros Da Db Dc H1 H2.
  destruct (holds_inv BEq a b eq_refl ltac:(discriminate) H1) as (x & Hx & Tx).
  destruct (holds_inv BEq b c eq_refl ltac:(discriminate) H2) as (y & Hy & Ty).
  cbn in Tx, Ty.
  destruct (oc_trans D HD a b c x y Da Db Dc Hx Hy ltac:(lia) ltac:(lia)) as (z & Hz & Zle & _).
  pose proof (oc_antisym D HD _ _ _ Da Db Hx) as Hx'.
  pose proof (oc_antisym D HD _ _ _ Db Dc Hy) as Hy'.
  destruct (oc_trans D HD c b a (- y) (- x) Dc Db Da Hy' Hx' ltac:(lia) ltac:(lia)) as (z' & Hz' & Zle' & _).
  pose proof (oc_antisym D HD _ _ _ Da Dc Hz) as Hz''. rewrite Hz' in Hz''. injection Hz'' as E.
  unfold holds. rewrite (compareItems_cmp BEq a c z eq_refl Hz). cbn.
  replace (z =? 0) with true by lia. reflexivity.
Qed.

Theorem C12_gt_trans a b c :
  D a -> D b -> D c -> holds BGt a b -> holds BGt b c -> holds BGt a c.
Proof.
  intros Da Db Dc H1 H2.
  apply (C12_lt_gt c a Dc Da). apply (C12_lt_trans c b a Dc Db Da).
  - apply (C12_lt_gt c b Dc Db). exact H2.
  - apply (C12_lt_gt b a Db Da). exact H1.
Qed.

End Class.

(* ================================================================== *)
(* 4. The classes                                                       *)
(* ================================================================== *)

(* ---- null ---- *)
Definition D_null (v : json) : Prop := v = JNull.
Theorem class_null : OrdClass D_null.
Proof.
  split.
  - intros a b c -> -> H. cbn in *. injection H as <-. reflexivity.
  - intros a b c x y -> -> -> H1 H2 _ _. cbn in *. injection H1 as <-. injection H2 as <-. exists 0. split; [reflexivity|lia].
Qed.

(* ---- booleans: false < true ---- *)
Definition D_bool (v : json) : Prop := exists b, v = JBool b.
Theorem class_bool : OrdClass D_bool.
Proof.
  split.
  - intros a b c [x ->] [y ->] H. cbn in *. injection H as <-. f_equal. destruct x, y; reflexivity.
  - intros a b c x y [p ->] [q ->] [r ->] H1 H2 Hx Hy. cbn in *. injection H1 as <-. injection H2 as <-.
    eexists. split; [reflexivity|]. destruct p, q, r; cbn in *; lia.
Qed.
Theorem bool_comparable x y : exists c, item_cmp (JBool x) (JBool y) = Some c.
Proof. eexists; reflexivity. Qed.
Theorem C12_false_lt_true : holds BLt (JBool false) (JBool true) /\ fails BLt (JBool true) (JBool false).
Proof. split; reflexivity. Qed.

(* ---- strings: byte order ---- *)
Definition D_str (v : json) : Prop := exists s, v = JStr s.
Theorem class_str : OrdClass D_str.
Proof.
  split.
  - intros a b c [x ->] [y ->] H. cbn in *. injection H as <-.
    rewrite str_compare_antisym, cmp_of_comparison_opp. reflexivity.
  - intros a b c x y [p ->] [q ->] [r ->] H1 H2 Hx Hy. cbn in *. injection H1 as <-. injection H2 as <-.
    eexists. split; [reflexivity|].
    apply (cmpT_le_trans str_compare str_compare_antisym str_compare_lt_trans str_compare_eq_l); assumption.
Qed.
Theorem str_comparable x y : item_cmp (JStr x) (JStr y) = Some (cmp_of_comparison (str_compare x y)).
Proof. reflexivity. Qed.
Theorem C12_str_eq_iff x y : holds BEq (JStr x) (JStr y) <-> x = y.
Proof.
  unfold holds. rewrite (compareItems_cmp BEq _ _ _ eq_refl (str_comparable x y)). cbn.
  rewrite <- str_compare_eq. destruct (str_compare x y); cbn; split; intros H; try discriminate H; reflexivity.
Qed.
Theorem C12_str_lt_iff x y : holds BLt (JStr x) (JStr y) <-> str_compare x y = Lt.
Proof.
  unfold holds. rewrite (compareItems_cmp BLt _ _ _ eq_refl (str_comparable x y)). cbn.
  destruct (str_compare x y); cbn; split; intros H; try discriminate H; reflexivity.
Qed.

(* ---- numbers ---- *)
Lemma compareNumbersZ_spec a b : compareNumbersZ a b = cmp_of_comparison (a ?= b).
Proof. unfold compareNumbersZ, Z.ltb, Z.gtb. destruct (a ?= b); reflexivity. Qed.

Lemma compareNumbersF_spec a b c : fcmp a b = Some c -> compareNumbersF a b = cmp_of_comparison c.
Proof. intros H. unfold compareNumbersF, f_ltb, f_gtb. rewrite H. destruct c; reflexivity. Qed.

(* how compareNumeric sees an operand *)
Inductive nview := NVI (z : Z) | NVF (f : f64) | NVBad.
Definition nview_of (n : num) : nview :=
  match n with
  | NInt z => NVI z
  | NFlt f => NVF f
  | NJs s => match js_int64 L s with
             | Some z => NVI z
             | None => match js_float64 L s with
                       | Some (f, _) => NVF f      (* a range error (±Inf) is accepted *)
                       | None => NVBad
                       end
             end
  end.

(* (a) integers: int64 and integral json.Number, ANY magnitude: compared in Z *)
Definition int_like (n : num) (z : Z) : Prop := nview_of n = NVI z.

Lemma compareNumeric_int a b za zb :
  int_like a za -> int_like b zb -> compareNumeric L a b = Ret (cmp_of_comparison (za ?= zb)).
Proof.
  unfold int_like, nview_of, compareNumeric, resolve_cmp. rewrite <- compareNumbersZ_spec.
  destruct a as [a|a|a], b as [b|b|b]; intros Ha Hb; try discriminate Ha; try discriminate Hb; cbn.
  - congruence.
  - destruct (js_int64 L b); [|destruct (js_float64 L b) as [[? ?]|]; discriminate Hb]. cbn. congruence.
  - destruct (js_int64 L a); [|destruct (js_float64 L a) as [[? ?]|]; discriminate Ha]. cbn. congruence.
  - destruct (js_int64 L a); [|destruct (js_float64 L a) as [[? ?]|]; discriminate Ha].
    destruct (js_int64 L b); [|destruct (js_float64 L b) as [[? ?]|]; discriminate Hb]. cbn. congruence.
Qed.

Definition D_int (v : json) : Prop := exists n z, v = JNum n /\ int_like n z.

Theorem class_int : OrdClass D_int.
Proof.
  split.
  - intros a b c (na & za & -> & Ha) (nb & zb & -> & Hb) H. cbn in *.
    rewrite (compareNumeric_int _ _ _ _ Ha Hb) in H. rewrite (compareNumeric_int _ _ _ _ Hb Ha).
    injection H as <-. rewrite (Z.compare_antisym za zb), cmp_of_comparison_opp. reflexivity.
  - intros a b c x y (na & za & -> & Ha) (nb & zb & -> & Hb) (nc & zc & -> & Hc) H1 H2 Hx Hy. cbn in *.
    rewrite (compareNumeric_int _ _ _ _ Ha Hb) in H1. rewrite (compareNumeric_int _ _ _ _ Hb Hc) in H2.
    rewrite (compareNumeric_int _ _ _ _ Ha Hc). injection H1 as <-. injection H2 as <-.
    eexists. split; [reflexivity|].
    destruct (Z.compare_spec za zb), (Z.compare_spec zb zc), (Z.compare_spec za zc); cbn in *; lia.
Qed.

Theorem int_comparable a b za zb :
  int_like a za -> int_like b zb -> item_cmp (JNum a) (JNum b) = Some (cmp_of_comparison (za ?= zb)).
Proof. intros Ha Hb. cbn. rewrite (compareNumeric_int _ _ _ _ Ha Hb). reflexivity. Qed.

(* integers are compared by value, exactly *)
Theorem C12_int_by_value a b za zb :
  int_like a za -> int_like b zb ->
  (holds BLt (JNum a) (JNum b) <-> za < zb) /\
  (holds BEq (JNum a) (JNum b) <-> za = zb) /\
  (holds BGt (JNum a) (JNum b) <-> za > zb).
Proof.
  intros Ha Hb. pose proof (int_comparable a b za zb Ha Hb) as H. unfold holds.
  rewrite (compareItems_cmp BLt _ _ _ eq_refl H), (compareItems_cmp BEq _ _ _ eq_refl H), (compareItems_cmp BGt _ _ _ eq_refl H).
  destruct (Z.compare_spec za zb); cbn; repeat split; intros; try discriminate; try lia; reflexivity.
Qed.

(* (a') float64 values that are not NaN: ordered by fcmp (= SFcompare); no law needed *)
Definition D_flt (v : json) : Prop := exists f, v = JNum (NFlt f) /\ notnan f.

Lemma flt_comparable a b c :
  fcmp a b = Some c -> item_cmp (JNum (NFlt a)) (JNum (NFlt b)) = Some (cmp_of_comparison c).
Proof. intros H. cbn. rewrite (compareNumbersF_spec _ _ _ H). reflexivity. Qed.

Theorem class_flt : OrdClass D_flt.
Proof.
  split.
  - intros a b c (fa & -> & Na) (fb & -> & Nb) H.
    destruct (fcmp_total fa fb Na Nb) as [k Hk]. rewrite (flt_comparable _ _ _ Hk) in H. injection H as <-.
    rewrite (flt_comparable _ _ _ (fcmp_antisym _ _ _ Hk)), cmp_of_comparison_opp. reflexivity.
  - intros a b c x y (fa & -> & Na) (fb & -> & Nb) (fc & -> & Nc) H1 H2 Hx Hy.
    destruct (fcmp_total fa fb Na Nb) as [k1 Hk1]. rewrite (flt_comparable _ _ _ Hk1) in H1. injection H1 as <-.
    destruct (fcmp_total fb fc Nb Nc) as [k2 Hk2]. rewrite (flt_comparable _ _ _ Hk2) in H2. injection H2 as <-.
    apply (proj1 (cmp_of_comparison_le k1)) in Hx. apply (proj1 (cmp_of_comparison_le k2)) in Hy.
    destruct (fcmp_le_trans _ _ _ _ _ Hk1 Hk2 Hx Hy) as (z & Hz & Zle & Zlt).
    rewrite (flt_comparable _ _ _ Hz). eexists. split; [reflexivity|].
    split; [apply (proj2 (cmp_of_comparison_le z)); exact Zle|].
    rewrite !cmp_of_comparison_lt. exact Zlt.
Qed.

(* (b) across representations.  Exclusions (recorded findings, refuted below):
       integers beyond ±2^53 (the comparison goes through float64(int64)),
       NaN (Go's compareNumbers answers "equal"). *)
Definition good_num (n : num) : Prop :=
  match nview_of n with
  | NVI z => Z.abs z <= two53
  | NVF f => notnan f
  | NVBad => False
  end.

Definition nkey (n : num) : f64 :=
  match nview_of n with
  | NVI z => xl_of_Z L z
  | NVF f => f
  | NVBad => S754_nan
  end.

Hypothesis NL : NumLaws L.

Lemma ofZ_small_notnan z : Z.abs z <= two53 -> notnan (xl_of_Z L z).
Proof.
  intros Hz. pose proof (nl_ofZ_exact L NL z z Hz Hz) as H. exact (proj1 (fcmp_notnan _ _ _ H)).
Qed.

Lemma nkey_notnan n : good_num n -> notnan (nkey n).
Proof.
  unfold good_num, nkey. destruct (nview_of n); intros H; [|exact H|contradiction].
  apply ofZ_small_notnan; exact H.
Qed.

Lemma ofZ_small_cmp a b : Z.abs a <= two53 -> Z.abs b <= two53 ->
  compareNumbersZ a b = compareNumbersF (xl_of_Z L a) (xl_of_Z L b).
Proof.
  intros Ha Hb. rewrite compareNumbersZ_spec.
  symmetry. apply compareNumbersF_spec. apply (nl_ofZ_exact L NL); assumption.
Qed.

Lemma compareNumbersF_congr_r a f g :
  notnan a -> fcmp f g = Some Eq -> compareNumbersF a f = compareNumbersF a g.
Proof.
  intros Ha H. unfold compareNumbersF, f_ltb, f_gtb. rewrite (fcmp_eq_r _ _ _ H Ha). reflexivity.
Qed.

(* the float the code reads from an integral json.Number is fcmp-equal to float64(int64) *)
Lemma js_int_float_eq s z :
  js_int64 L s = Some z -> Z.abs z <= two53 ->
  exists f fl, js_float64 L s = Some (f, fl) /\ fcmp f (xl_of_Z L z) = Some Eq.
Proof.
  intros H Hz. destruct (nl_js_int_float L NL s z H) as [E|[-> E]]; rewrite E; do 2 eexists; split; try reflexivity.
  - apply fcmp_refl. apply ofZ_small_notnan; exact Hz.
  - rewrite (nl_ofZ_0 L NL). reflexivity.
Qed.

Theorem compareNumeric_good a b :
  good_num a -> good_num b -> compareNumeric L a b = Ret (compareNumbersF (nkey a) (nkey b)).
Proof.
  intros Ga Gb. pose proof (nkey_notnan a Ga) as Na. pose proof (nkey_notnan b Gb) as Nb.
  revert Ga Gb Na Nb. unfold good_num, nkey, nview_of, compareNumeric, resolve_cmp.
  destruct a as [a|a|a], b as [b|b|b]; cbn.
  - intros; f_equal; apply ofZ_small_cmp; assumption.
  - reflexivity.
  - destruct (js_int64 L b) as [zb|]; cbn.
    + intros; f_equal; apply ofZ_small_cmp; assumption.
    + destruct (js_float64 L b) as [[fb ?]|]; cbn; [reflexivity|contradiction].
  - reflexivity.
  - reflexivity.
  - destruct (js_int64 L b) as [zb|] eqn:Eb; cbn.
    + intros Ga Gb Na Nb. destruct (js_int_float_eq b zb Eb Gb) as (f & fl & -> & Hf).
      f_equal. apply compareNumbersF_congr_r; assumption.
    + destruct (js_float64 L b) as [[fb ?]|]; cbn; [reflexivity|contradiction].
  - destruct (js_int64 L a) as [za|]; cbn.
    + intros; f_equal; apply ofZ_small_cmp; assumption.
    + destruct (js_float64 L a) as [[fa ?]|]; cbn; [reflexivity|contradiction].
  - destruct (js_int64 L a) as [za|]; cbn.
    + reflexivity.
    + destruct (js_float64 L a) as [[fa ?]|]; cbn; [reflexivity|contradiction].
  - destruct (js_int64 L a) as [za|]; cbn.
    + destruct (js_int64 L b) as [zb|]; cbn.
      * intros; f_equal; apply ofZ_small_cmp; assumption.
      * destruct (js_float64 L b) as [[fb ?]|]; cbn; [reflexivity|contradiction].
    + destruct (js_float64 L a) as [[fa ?]|]; cbn; [|contradiction].
      destruct (js_int64 L b) as [zb|] eqn:Eb; cbn.
      * intros Ga Gb Na Nb. destruct (js_int_float_eq b zb Eb Gb) as (f & fl & -> & Hf).
        f_equal. apply compareNumbersF_congr_r; assumption.
      * destruct (js_float64 L b) as [[fb ?]|]; cbn; [reflexivity|contradiction].
Qed.

Definition D_num (v : json) : Prop := exists n, v = JNum n /\ good_num n.

Theorem num_comparable a b :
  good_num a -> good_num b ->
  exists c, fcmp (nkey a) (nkey b) = Some c /\ item_cmp (JNum a) (JNum b) = Some (cmp_of_comparison c).
Proof.
  intros Ga Gb. destruct (fcmp_total _ _ (nkey_notnan a Ga) (nkey_notnan b Gb)) as [c Hc].
  exists c. split; [exact Hc|]. cbn. rewrite (compareNumeric_good a b Ga Gb).
  rewrite (compareNumbersF_spec _ _ _ Hc). reflexivity.
Qed.

Theorem class_num : OrdClass D_num.
Proof.
  split.
  - intros a b c (na & -> & Ga) (nb & -> & Gb) H.
    destruct (num_comparable na nb Ga Gb) as (k & Hk & Hi). rewrite Hi in H. injection H as <-.
    destruct (num_comparable nb na Gb Ga) as (k' & Hk' & Hi'). rewrite Hi'.
    rewrite (fcmp_antisym _ _ _ Hk) in Hk'. injection Hk' as <-.
    rewrite cmp_of_comparison_opp. reflexivity.
  - intros a b c x y (na & -> & Ga) (nb & -> & Gb) (nc & -> & Gc) H1 H2 Hx Hy.
    destruct (num_comparable na nb Ga Gb) as (k1 & Hk1 & Hi1). rewrite Hi1 in H1. injection H1 as <-.
    destruct (num_comparable nb nc Gb Gc) as (k2 & Hk2 & Hi2). rewrite Hi2 in H2. injection H2 as <-.
    destruct (num_comparable na nc Ga Gc) as (k3 & Hk3 & Hi3). rewrite Hi3.
    eexists. split; [reflexivity|].
    apply (proj1 (cmp_of_comparison_le k1)) in Hx. apply (proj1 (cmp_of_comparison_le k2)) in Hy.
    destruct (fcmp_le_trans _ _ _ _ _ Hk1 Hk2 Hx Hy) as (z & Hz & Zle & Zlt).
    rewrite Hk3 in Hz. injection Hz as <-.
    split; [apply (proj2 (cmp_of_comparison_le k3)); exact Zle|].
    rewrite !cmp_of_comparison_lt. exact Zlt.
Qed.

(* numbers are compared by the value order of their float64 keys *)
Theorem C12_num_by_key a b :
  good_num a -> good_num b ->
  (holds BLt (JNum a) (JNum b) <-> fcmp (nkey a) (nkey b) = Some Lt) /\
  (holds BEq (JNum a) (JNum b) <-> fcmp (nkey a) (nkey b) = Some Eq) /\
  (holds BGt (JNum a) (JNum b) <-> fcmp (nkey a) (nkey b) = Some Gt).
Proof.
  intros Ga Gb. destruct (num_comparable a b Ga Gb) as (c & Hc & Hi). unfold holds.
  rewrite (compareItems_cmp BLt _ _ _ eq_refl Hi), (compareItems_cmp BEq _ _ _ eq_refl Hi), (compareItems_cmp BGt _ _ _ eq_refl Hi), Hc.
  destruct c; cbn; repeat split; intros H; try discriminate H; reflexivity.
Qed.

(* ... and an int64 within ±2^53 is compared with another one by its value *)
Theorem C12_num_small_ints za zb :
  Z.abs za <= two53 -> Z.abs zb <= two53 ->
  fcmp (nkey (NInt za)) (nkey (NInt zb)) = Some (za ?= zb).
Proof. intros Ha Hb. apply (nl_ofZ_exact L NL); assumption. Qed.

(* ---- datetimes ---- *)
Section Dt.
Variable Dd : datetime -> Prop.
Hypothesis DL : DtLaws L Dd.

Definition D_dt (v : json) : Prop := exists d, v = JDt d /\ Dd d.

Theorem class_dt : OrdClass D_dt.
Proof.
  split.
  - intros a b c (da & -> & Ha) (db & -> & Hb) H. cbn in *.
    destruct (xl_dt_compare L useTZ da db) eqn:E; try discriminate H. injection H as <-.
    rewrite (dl_antisym L Dd DL _ _ _ _ E). reflexivity.
  - intros a b c x y (da & -> & Ha) (db & -> & Hb) (dc & -> & Hc) H1 H2 Hx Hy. cbn in *.
    destruct (xl_dt_compare L useTZ da db) eqn:E1; try discriminate H1. injection H1 as <-.
    destruct (xl_dt_compare L useTZ db dc) eqn:E2; try discriminate H2. injection H2 as <-.
    destruct (dl_trans L Dd DL _ _ _ _ _ _ Ha Hb Hc E1 E2 Hx Hy) as (z & -> & Hz).
    exists z. split; [reflexivity|exact Hz].
Qed.
End Dt.

(* the answers for the other three results of the datetime comparison *)
Theorem C12_dt_results op a b :
  is_cmp op = true ->
  CI op (JDt a) (JDt b) =
  match xl_dt_compare L useTZ a b with
  | ExecLib.CmpOk c => Ret (predFrom (truth op c), None)
  | ExecLib.CmpIncomparable => Ret (PUnknown, None)
  | ExecLib.CmpTZRequired => Ret (PUnknown, Some (EExec "tzRequiredCast"))
  | ExecLib.CmpInvalid => Ret (PUnknown, Some (EInvalid "unknownDateTime"))
  end.
Proof.
  intros Hop. cbn. destruct (xl_dt_compare L useTZ a b); try reflexivity.
  rewrite applyCompare_truth by exact Hop. reflexivity.
Qed.

End Cmp.

(* ================================================================== *)
(* 5. Null rules, incomparable items, the ErrInvalid case               *)
(* (no law needed: any L)                                               *)
(* ================================================================== *)
Section Shape.
Variable L : ExecLib.
Variable useTZ : bool.
Notation CI := (compareItems L useTZ).

(* null equals only null *)
Theorem C12_null_null op :
  is_cmp op = true -> CI op JNull JNull = Ret (predFrom (truth op 0), None).
Proof. intros H. cbn. rewrite applyCompare_truth by exact H. reflexivity. Qed.

Theorem C12_null_eq_iff v : CI BEq JNull v = Ret (PTrue, None) <-> v = JNull.
Proof.
  destruct v; cbn; split; intros H; try discriminate H; reflexivity.
Qed.

Theorem C12_null_vs_other op v :
  is_cmp op = true -> is_null v = false ->
  CI op JNull v = Ret (predFrom (binop_eqb op BNe), None) /\
  CI op v JNull = Ret (predFrom (binop_eqb op BNe), None).
Proof.
  intros _ Hv. split; apply compareItems_one_null; unfold one_null; rewrite Hv; reflexivity.
Qed.

(* so against a non-null item: == < <= > >= are false and != is true *)
Corollary C12_null_vs_other_table v :
  is_null v = false ->
  CI BEq JNull v = Ret (PFalse, None) /\ CI BNe JNull v = Ret (PTrue, None) /\
  CI BLt JNull v = Ret (PFalse, None) /\ CI BLe JNull v = Ret (PFalse, None) /\
  CI BGt JNull v = Ret (PFalse, None) /\ CI BGe JNull v = Ret (PFalse, None).
Proof.
  intros Hv.
  pose proof (fun op H => proj1 (C12_null_vs_other op v H Hv)) as G.
  repeat split; apply G; reflexivity.
Qed.

Inductive jkind := KdNull | KdBool | KdNum | KdStr | KdArr | KdObj | KdDt.
Definition kind_of (v : json) : jkind :=
  match v with
  | JNull => KdNull | JBool _ => KdBool | JNum _ => KdNum | JStr _ => KdStr
  | JArr _ _ => KdArr | JObj _ _ => KdObj | JDt _ => KdDt
  end.
Definition is_container (v : json) : bool :=
  match v with JArr _ _ | JObj _ _ => true | _ => false end.

(* items of different types, and all arrays and objects, compare as unknown
   for all six operators (null has its own rule; a datetime on the LEFT of a
   non-datetime is the ErrInvalid finding below) *)
Theorem C12_incomparable op a b :
  is_null a = false -> is_null b = false ->
  kind_of a <> kind_of b \/ is_container a = true ->
  kind_of a <> KdDt ->
  CI op a b = Ret (PUnknown, None).
Proof.
  intros Ha Hb Hk Hd.
  destruct a, b; try discriminate Ha; try discriminate Hb; try reflexivity;
    try (exfalso; apply Hd; reflexivity);
    destruct Hk as [Hk|Hk]; try discriminate Hk; exfalso; apply Hk; reflexivity.
Qed.

Corollary C12_containers_unknown op a b :
  is_container a = true -> is_null b = false -> CI op a b = Ret (PUnknown, None).
Proof.
  intros Ha Hb. apply C12_incomparable; auto; destruct a; try discriminate Ha; try reflexivity; discriminate.
Qed.
Corollary C12_containers_unknown_r op a b :
  is_container b = true -> is_null a = false -> kind_of a <> KdDt -> CI op a b = Ret (PUnknown, None).
Proof.
  intros Hb Ha Hd. destruct a, b; try discriminate Ha; try discriminate Hb; try reflexivity;
    exfalso; apply Hd; reflexivity.
Qed.

(* Known finding (pinned by compare_test.go): a datetime on the left of a
   non-null non-datetime item is ErrInvalid, not "unknown". *)
Theorem C12_dt_vs_other_invalid op d b :
  is_null b = false -> kind_of b <> KdDt ->
  CI op (JDt d) b = Ret (PUnknown, Some (EInvalid "unknownDateTime")).
Proof.
  intros Hb Hk. destruct b; try discriminate Hb; try reflexivity. exfalso; apply Hk; reflexivity.
Qed.
(* ... while on the right it is "unknown" *)
Theorem C12_other_vs_dt op a d :
  is_null a = false -> kind_of a <> KdDt -> CI op a (JDt d) = Ret (PUnknown, None).
Proof.
  intros Ha Hk. destruct a; try discriminate Ha; try reflexivity. exfalso; apply Hk; reflexivity.
Qed.

End Shape.

(* ================================================================== *)
(* 6. Sequences: the double loop [spairs]                               *)
(* ================================================================== *)
Section Pairs.
Variable cb : json -> json -> pout * option err.

(* all pairs in row-major order *)
Definition allpairs (ls rs : list json) : list (json * json) :=
  flat_map (fun l => map (pair l) rs) ls.
Definition cbp (p : json * json) : pout * option err := cb (fst p) (snd p).

(* the loop as one fold over the pair list *)
Fixpoint sfold (strictm : bool) (ps : list (json * json)) (hasErr fnd : bool) : pout * option err :=
  match ps with
  | [] => if fnd then (PTrue, None) else if hasErr then (PUnknown, None) else (PFalse, None)
  | p :: ps' =>
      match cbp p with
      | (_, Some e) => (PUnknown, Some e)
      | (PUnknown, None) => if strictm then (PUnknown, None) else sfold strictm ps' true fnd
      | (PTrue, None) => if negb strictm then (PTrue, None) else sfold strictm ps' hasErr true
      | (PFalse, None) => sfold strictm ps' hasErr fnd
      end
  end.

Lemma spairs_inner_sfold strictm l rs rest h f :
  match spairs_inner strictm cb l rs h f with
  | (Some p, _, _) => p
  | (None, h', f') => sfold strictm rest h' f'
  end = sfold strictm (map (pair l) rs ++ rest) h f.
Proof.
  revert h f. induction rs as [|r rs IH]; intros h f; cbn [spairs_inner map app sfold].
  - reflexivity.
  - unfold cbp at 1. cbn [fst snd].
    destruct (cb l r) as [[| |] [e|]]; try reflexivity.
    + destruct (negb strictm); [reflexivity|apply IH].
    + apply IH.
    + destruct strictm; [reflexivity|apply IH].
Qed.

Theorem spairs_sfold strictm ls rs h f :
  spairs strictm cb ls rs h f = sfold strictm (allpairs ls rs) h f.
Proof.
  revert h f. induction ls as [|l ls IH]; intros h f.
  - reflexivity.
  - cbn [spairs allpairs flat_map]. rewrite <- spairs_inner_sfold.
    destruct (spairs_inner strictm cb l rs h f) as [[[p|] h'] f']; [reflexivity|apply IH].
Qed.

Definition noerr (p : json * json) : Prop := snd (cbp p) = None.
Definition is_res (r : pout * option err) (p : json * json) : Prop := cbp p = r.
Definition tf (p : json * json) : Prop := cbp p = (PTrue, None) \/ cbp p = (PFalse, None).
Definition fu (p : json * json) : Prop := cbp p = (PFalse, None) \/ cbp p = (PUnknown, None).

(* ---- lax ---- *)
Lemma sfold_lax_true ps h :
  sfold false ps h false = (PTrue, None) <->
  exists pre p post, ps = pre ++ p :: post /\ cbp p = (PTrue, None) /\ Forall noerr pre.
Proof.
  revert h. induction ps as [|q ps IH]; intros h; cbn [sfold].
  - split.
    + destruct h; discriminate.
    + intros (pre & p & post & E & _). destruct pre; discriminate E.
  - destruct (cbp q) as [[| |] [e|]] eqn:Eq; cbn [negb].
    1,3,5: split; [discriminate|];
      intros (pre & p & post & E & Hp & Hpre); destruct pre as [|q' pre]; cbn in E; injection E as <- ->;
        [rewrite Hp in Eq; discriminate Eq
        |inversion Hpre as [|? ? Hq _]; unfold noerr in Hq; rewrite Eq in Hq; discriminate Hq].
    + split; [|reflexivity]. intros _. exists [], q, ps. repeat split; [exact Eq|constructor].
    + rewrite IH. split.
      * intros (pre & p & post & -> & Hp & Hpre). exists (q :: pre), p, post. repeat split; [exact Hp|].
        constructor; [unfold noerr; rewrite Eq; reflexivity|exact Hpre].
      * intros (pre & p & post & E & Hp & Hpre). destruct pre as [|q' pre]; cbn in E; injection E as <- ->.
        -- rewrite Hp in Eq; discriminate Eq.
        -- exists pre, p, post. repeat split; [exact Hp|]. inversion Hpre; assumption.
    + rewrite IH. split.
      * intros (pre & p & post & -> & Hp & Hpre). exists (q :: pre), p, post. repeat split; [exact Hp|].
        constructor; [unfold noerr; rewrite Eq; reflexivity|exact Hpre].
      * intros (pre & p & post & E & Hp & Hpre). destruct pre as [|q' pre]; cbn in E; injection E as <- ->.
        -- rewrite Hp in Eq; discriminate Eq.
        -- exists pre, p, post. repeat split; [exact Hp|]. inversion Hpre; assumption.
Qed.

(* lax mode is existential: true iff some pair is true before any callback error
   (pairs visited in row-major order) *)
Theorem spairs_lax_true_iff ls rs :
  spairs false cb ls rs false false = (PTrue, None) <->
  exists pre p post, allpairs ls rs = pre ++ p :: post /\ cbp p = (PTrue, None) /\ Forall noerr pre.
Proof. rewrite spairs_sfold. apply sfold_lax_true. Qed.

Lemma sfold_lax_error ps h e :
  sfold false ps h false = (PUnknown, Some e) <->
  exists pre p post, ps = pre ++ p :: post /\ snd (cbp p) = Some e /\ Forall fu pre.
Proof.
  revert h. induction ps as [|q ps IH]; intros h; cbn [sfold].
  - split.
    + destruct h; discriminate.
    + intros (pre & p & post & E & _). destruct pre; discriminate E.
  - destruct (cbp q) as [[| |] [e'|]] eqn:Eq; cbn [negb].
    1,3,5: split;
      [intros H; injection H as ->; exists [], q, ps; repeat split; [rewrite Eq; reflexivity|constructor]
      |intros (pre & p & post & E & Hp & Hpre); destruct pre as [|q' pre]; cbn in E; injection E as <- ->;
        [rewrite Eq in Hp; cbn in Hp; congruence
        |inversion Hpre as [|? ? Hq _]; destruct Hq as [Hq|Hq]; rewrite Eq in Hq; discriminate Hq]].
    + split; [discriminate|].
      intros (pre & p & post & E & Hp & Hpre); destruct pre as [|q' pre]; cbn in E; injection E as <- ->.
      * rewrite Eq in Hp; discriminate Hp.
      * inversion Hpre as [|? ? Hq _]; destruct Hq as [Hq|Hq]; rewrite Eq in Hq; discriminate Hq.
    + rewrite IH. split.
      * intros (pre & p & post & -> & Hp & Hpre). exists (q :: pre), p, post. repeat split; [exact Hp|].
        constructor; [left; exact Eq|exact Hpre].
      * intros (pre & p & post & E & Hp & Hpre). destruct pre as [|q' pre]; cbn in E; injection E as <- ->.
        -- rewrite Eq in Hp; discriminate Hp.
        -- exists pre, p, post. repeat split; [exact Hp|]. inversion Hpre; assumption.
    + rewrite IH. split.
      * intros (pre & p & post & -> & Hp & Hpre). exists (q :: pre), p, post. repeat split; [exact Hp|].
        constructor; [right; exact Eq|exact Hpre].
      * intros (pre & p & post & E & Hp & Hpre). destruct pre as [|q' pre]; cbn in E; injection E as <- ->.
        -- rewrite Eq in Hp; discriminate Hp.
        -- exists pre, p, post. repeat split; [exact Hp|]. inversion Hpre; assumption.
Qed.

Theorem spairs_lax_error_iff ls rs e :
  spairs false cb ls rs false false = (PUnknown, Some e) <->
  exists pre p post, allpairs ls rs = pre ++ p :: post /\ snd (cbp p) = Some e /\ Forall fu pre.
Proof. rewrite spairs_sfold. apply sfold_lax_error. Qed.

Lemma sfold_lax_rest ps h :
  Forall fu ps ->
  sfold false ps h false =
  if h || existsb (fun p => match cbp p with (PUnknown, None) => true | _ => false end) ps
  then (PUnknown, None) else (PFalse, None).
Proof.
  revert h. induction ps as [|q ps IH]; intros h Hall; cbn [sfold existsb].
  - rewrite orb_false_r. reflexivity.
  - inversion Hall as [|? ? Hq Hps]; subst. destruct Hq as [Hq|Hq]; rewrite Hq.
    + rewrite IH by exact Hps. reflexivity.
    + rewrite IH by exact Hps. cbn. rewrite orb_true_r. reflexivity.
Qed.

(* without a true pair and without a callback error: unknown iff some pair is unknown *)
Theorem spairs_lax_false_iff ls rs :
  spairs false cb ls rs false false = (PFalse, None) <-> Forall (is_res (PFalse, None)) (allpairs ls rs).
Proof.
  rewrite spairs_sfold. generalize (allpairs ls rs) as ps. intros ps.
  assert (G : forall h, sfold false ps h false = (PFalse, None) <-> h = false /\ Forall (is_res (PFalse, None)) ps).
  { induction ps as [|q ps IH]; intros h; cbn [sfold].
    - destruct h; split; intros H; try discriminate H; try (destruct H; discriminate); auto.
    - destruct (cbp q) as [[| |] [e|]] eqn:Eq; cbn [negb];
        try (split; [discriminate|intros [_ H]; inversion H as [|? ? Hq _]; unfold is_res in Hq; congruence]).
      + rewrite IH. split.
        * intros [E H]. split; [exact E|]. constructor; [exact Eq|exact H].
        * intros [E H]. split; [exact E|]. inversion H; assumption.
      + rewrite IH. split; [intros [E _]; discriminate E|].
        intros [_ H]; inversion H as [|? ? Hq _]; unfold is_res in Hq; congruence. }
  rewrite G. split; [intros [_ H]; exact H|auto].
Qed.

(* ---- strict ---- *)
Lemma sfold_strict_unknown ps f :
  sfold true ps false f = (PUnknown, None) <->
  exists pre p post, ps = pre ++ p :: post /\ cbp p = (PUnknown, None) /\ Forall tf pre.
Proof.
  revert f. induction ps as [|q ps IH]; intros f; cbn [sfold].
  - split.
    + destruct f; discriminate.
    + intros (pre & p & post & E & _). destruct pre; discriminate E.
  - destruct (cbp q) as [[| |] [e|]] eqn:Eq; cbn [negb].
    1,3,5: split; [discriminate|];
      intros (pre & p & post & E & Hp & Hpre); destruct pre as [|q' pre]; cbn in E; injection E as <- ->;
        [rewrite Hp in Eq; discriminate Eq
        |inversion Hpre as [|? ? Hq _]; destruct Hq as [Hq|Hq]; rewrite Eq in Hq; discriminate Hq].
    + rewrite IH. split.
      * intros (pre & p & post & -> & Hp & Hpre). exists (q :: pre), p, post. repeat split; [exact Hp|].
        constructor; [left; exact Eq|exact Hpre].
      * intros (pre & p & post & E & Hp & Hpre). destruct pre as [|q' pre]; cbn in E; injection E as <- ->.
        -- rewrite Hp in Eq; discriminate Eq.
        -- exists pre, p, post. repeat split; [exact Hp|]. inversion Hpre; assumption.
    + rewrite IH. split.
      * intros (pre & p & post & -> & Hp & Hpre). exists (q :: pre), p, post. repeat split; [exact Hp|].
        constructor; [right; exact Eq|exact Hpre].
      * intros (pre & p & post & E & Hp & Hpre). destruct pre as [|q' pre]; cbn in E; injection E as <- ->.
        -- rewrite Hp in Eq; discriminate Eq.
        -- exists pre, p, post. repeat split; [exact Hp|]. inversion Hpre; assumption.
    + split; [|reflexivity]. intros _. exists [], q, ps. repeat split; [exact Eq|constructor].
Qed.

(* strict mode: unknown iff the first pair (row-major) that is not plainly
   true/false is an unknown one — one incomparable pair spoils the result
   even if an earlier pair was true *)
Theorem spairs_strict_unknown_iff ls rs :
  spairs true cb ls rs false false = (PUnknown, None) <->
  exists pre p post, allpairs ls rs = pre ++ p :: post /\ cbp p = (PUnknown, None) /\ Forall tf pre.
Proof. rewrite spairs_sfold. apply sfold_strict_unknown. Qed.

Lemma sfold_strict_rest ps f :
  Forall tf ps ->
  sfold true ps false f =
  if f || existsb (fun p => match cbp p with (PTrue, None) => true | _ => false end) ps
  then (PTrue, None) else (PFalse, None).
Proof.
  revert f. induction ps as [|q ps IH]; intros f Hall; cbn [sfold existsb].
  - rewrite orb_false_r. destruct f; reflexivity.
  - inversion Hall as [|? ? Hq Hps]; subst. destruct Hq as [Hq|Hq]; rewrite Hq; cbn [negb].
    + rewrite IH by exact Hps. cbn. rewrite orb_true_r. reflexivity.
    + rewrite IH by exact Hps. reflexivity.
Qed.

(* strict, every pair comparable: true iff some pair is true *)
Theorem spairs_strict_all_comparable ls rs :
  Forall tf (allpairs ls rs) ->
  spairs true cb ls rs false false =
  if existsb (fun p => match cbp p with (PTrue, None) => true | _ => false end) (allpairs ls rs)
  then (PTrue, None) else (PFalse, None).
Proof. intros H. rewrite spairs_sfold, sfold_strict_rest by exact H. reflexivity. Qed.

Lemma sfold_strict_error ps f e :
  sfold true ps false f = (PUnknown, Some e) <->
  exists pre p post, ps = pre ++ p :: post /\ snd (cbp p) = Some e /\ Forall tf pre.
Proof.
  revert f. induction ps as [|q ps IH]; intros f; cbn [sfold].
  - split.
    + destruct f; discriminate.
    + intros (pre & p & post & E & _). destruct pre; discriminate E.
  - destruct (cbp q) as [[| |] [e'|]] eqn:Eq; cbn [negb].
    1,3,5: split;
      [intros H; injection H as ->; exists [], q, ps; repeat split; [rewrite Eq; reflexivity|constructor]
      |intros (pre & p & post & E & Hp & Hpre); destruct pre as [|q' pre]; cbn in E; injection E as <- ->;
        [rewrite Eq in Hp; cbn in Hp; congruence
        |inversion Hpre as [|? ? Hq _]; destruct Hq as [Hq|Hq]; rewrite Eq in Hq; discriminate Hq]].
    + rewrite IH. split.
      * intros (pre & p & post & -> & Hp & Hpre). exists (q :: pre), p, post. repeat split; [exact Hp|].
        constructor; [left; exact Eq|exact Hpre].
      * intros (pre & p & post & E & Hp & Hpre). destruct pre as [|q' pre]; cbn in E; injection E as <- ->.
        -- rewrite Eq in Hp; discriminate Hp.
        -- exists pre, p, post. repeat split; [exact Hp|]. inversion Hpre; assumption.
    + rewrite IH. split.
      * intros (pre & p & post & -> & Hp & Hpre). exists (q :: pre), p, post. repeat split; [exact Hp|].
        constructor; [right; exact Eq|exact Hpre].
      * intros (pre & p & post & E & Hp & Hpre). destruct pre as [|q' pre]; cbn in E; injection E as <- ->.
        -- rewrite Eq in Hp; discriminate Hp.
        -- exists pre, p, post. repeat split; [exact Hp|]. inversion Hpre; assumption.
    + split; [discriminate|].
      intros (pre & p & post & E & Hp & Hpre); destruct pre as [|q' pre]; cbn in E; injection E as <- ->.
      * rewrite Eq in Hp; discriminate Hp.
      * inversion Hpre as [|? ? Hq _]; destruct Hq as [Hq|Hq]; rewrite Eq in Hq; discriminate Hq.
Qed.

Theorem spairs_strict_error_iff ls rs e :
  spairs true cb ls rs false false = (PUnknown, Some e) <->
  exists pre p post, allpairs ls rs = pre ++ p :: post /\ snd (cbp p) = Some e /\ Forall tf pre.
Proof. rewrite spairs_sfold. apply sfold_strict_error. Qed.

End Pairs.

(* non-vacuity / the difference between the modes: [1,"a"] == 1 *)
Example spairs_modes_differ L :
  let cb := fun a b => total_cb (compareItems L false BEq a b) in
  let ls := [JNum (NInt 1); JStr "a"] in
  let rs := [JNum (NInt 1)] in
  spairs false cb ls rs false false = (PTrue, None) /\
  spairs true cb ls rs false false = (PUnknown, None).
Proof. split; reflexivity. Qed.

(* the predicate of the specification is this loop on the operand sequences *)
Theorem C12_sem_cmp L C Q op l r c z ig v ls rs :
  is_cmp op = true ->
  operand L C Q l true c z ig v = inl ls -> operand L C Q r true c z ig v = inl rs ->
  sem_pred L C Q (SBin op l r) c z ig v =
  spairs (negb (laxm C)) (fun a b => total_cb (compareItems L (c_useTZ C) op a b)) ls rs false false.
Proof.
  intros Hop Hl Hr. rewrite sp_cmp by exact Hop. unfold predicate. rewrite Hl, Hr. reflexivity.
Qed.

(* ================================================================== *)
(* 7. starts with, like_regex                                           *)
(* ================================================================== *)
Theorem str_prefix_iff p s : str_prefix p s = true <-> exists r, s = (p ++ r)%string.
Proof.
  revert s. induction p as [|x p IH]; intros s; cbn.
  - split; [intros _; exists s; reflexivity|reflexivity].
  - destruct s as [|y s].
    + split; [discriminate|intros [r H]; discriminate H].
    + rewrite andb_true_iff, IH. split.
      * intros [E [r ->]]. apply Ascii.eqb_eq in E. subst y. exists r. reflexivity.
      * intros [r H]. injection H as -> ->. split; [apply Ascii.eqb_refl|eauto].
Qed.

Theorem C12_starts_with whole initial :
  executeStartsWith whole initial =
  match whole, initial with
  | JStr s, JStr p => (predFrom (str_prefix p s), None)
  | _, _ => (PUnknown, None)
  end.
Proof. reflexivity. Qed.

Theorem C12_starts_with_true_iff whole initial :
  executeStartsWith whole initial = (PTrue, None) <->
  exists p r, initial = JStr p /\ whole = JStr (p ++ r).
Proof.
  destruct whole, initial; cbn; try (split; [discriminate|intros (p & r & H1 & H2); discriminate]).
  split.
  - intros H. destruct (str_prefix s0 s) eqn:E; [|discriminate H].
    apply str_prefix_iff in E. destruct E as [r ->]. eauto.
  - intros (p & r & H1 & H2). injection H1 as ->. injection H2 as ->.
    replace (str_prefix p (p ++ r)) with true; [reflexivity|].
    symmetry. apply str_prefix_iff. eauto.
Qed.

Theorem C12_starts_with_never_errors whole initial : snd (executeStartsWith whole initial) = None.
Proof. destruct whole, initial; reflexivity. Qed.

(* like_regex: the regexp oracle on strings, unknown on everything else *)
Theorem C12_like_regex L pat flags v :
  executeLikeRegex L pat flags v =
  match v with
  | JStr s => (predFrom (xl_re_match L pat flags s), None)
  | _ => (PUnknown, None)
  end.
Proof. reflexivity. Qed.

Theorem C12_like_regex_true_iff L pat flags v :
  executeLikeRegex L pat flags v = (PTrue, None) <-> exists s, v = JStr s /\ xl_re_match L pat flags s = true.
Proof.
  destruct v; cbn; try (split; [discriminate|intros (s' & H & _); discriminate H]).
  split.
  - intros H. exists s. split; [reflexivity|]. destruct (xl_re_match L pat flags s); [reflexivity|discriminate H].
  - intros (s' & H & E). injection H as <-. rewrite E. reflexivity.
Qed.

(* ================================================================== *)
(* 8. The concrete instance                                             *)
(* ================================================================== *)

(* the datetime laws hold of the concrete library when the context zone is a
   fixed offset, on well-formed datetime values *)
Theorem dtlaws_concrete ctx re members o :
  tz ctx = ZFixed o -> DtLaws (mk_lib ctx re members) wf_dt.
Proof.
  intros Hz. split; cbn [xl_dt_compare mk_lib].
  - intros u a b c H. destruct (compare_datetime u ctx a b) eqn:E; cbn in H; try discriminate H.
    injection H as <-. rewrite (compare_antisym _ _ _ _ _ E). reflexivity.
  - intros u a b c x y Wa Wb Wc H1 H2 Hx Hy.
    destruct (compare_datetime u ctx a b) eqn:E1; cbn in H1; try discriminate H1. injection H1 as <-.
    destruct (compare_datetime u ctx b c) eqn:E2; cbn in H2; try discriminate H2. injection H2 as <-.
    destruct (compare_trans u ctx o a b c _ _ Hz Wa Wb Wc E1 E2 Hx Hy) as (z & -> & Hzz).
    exists z. split; [reflexivity|exact Hzz].
Qed.


(* non-vacuity: the hypotheses of the class theorems are satisfiable *)
Example class_examples :
  D_int lib0 (JNum (NInt 9223372036854775807)) /\ D_int lib0 (JNum (NJs "-12")) /\
  D_str (JStr "a") /\ D_bool (JBool true) /\ D_null JNull /\
  wf_dt (mkdt KTimestampTZ 0 0 3600).
Proof.
  repeat split; try (eexists; reflexivity); try (do 2 eexists; split; reflexivity); cbn; lia.
Qed.

Definition f_2p53_ex : f64 := S754_finite false 4503599627370496 1.
Example good_num_examples :
  good_num lib0 (NInt (-9007199254740992)) /\ good_num lib0 (NFlt f_2p53_ex) /\
  good_num lib0 (NJs "12") /\ good_num lib0 (NJs "1.5") /\ good_num lib0 (NJs "1e400") /\
  ~ good_num lib0 (NInt 9007199254740993) /\ ~ good_num lib0 (NFlt S754_nan) /\ ~ good_num lib0 (NJs "abc").
Proof.
  unfold good_num, f_2p53_ex, two53. repeat split; try (vm_compute; congruence); vm_compute; intros H; try (apply H; reflexivity); try contradiction.
Qed.

(* ---- refuted: the full statement is false beyond ±2^53 ---- *)
Definition f_2p53 : f64 := S754_finite false 4503599627370496 1.   (* 9007199254740992.0 *)

Theorem C12_refuted_trans_2p53 :
  let a := JNum (NInt 9007199254740993) in
  let b := JNum (NFlt f_2p53) in
  let c := JNum (NInt 9007199254740992) in
  compareItems lib0 false BEq a b = Ret (PTrue, None) /\
  compareItems lib0 false BEq b c = Ret (PTrue, None) /\
  compareItems lib0 false BEq a c = Ret (PFalse, None) /\
  compareItems lib0 false BGt a c = Ret (PTrue, None).
Proof. vm_compute. repeat split. Qed.

(* two json.Numbers beyond the float64 range both compare as +Inf *)
Theorem C12_refuted_js_out_of_range :
  compareItems lib0 false BEq (JNum (NJs "1e400")) (JNum (NJs "1e401")) = Ret (PTrue, None).
Proof. vm_compute. reflexivity. Qed.

(* NaN (reachable through Inf - Inf) compares "equal" to everything *)
Theorem C12_refuted_nan :
  compareItems lib0 false BEq (JNum (NFlt S754_nan)) (JNum (NInt 1)) = Ret (PTrue, None) /\
  compareItems lib0 false BEq (JNum (NFlt S754_nan)) (JNum (NInt 2)) = Ret (PTrue, None) /\
  compareItems lib0 false BLt (JNum (NInt 1)) (JNum (NInt 2)) = Ret (PTrue, None).
Proof. vm_compute. repeat split. Qed.

(* an invalid json.Number text makes compareNumeric panic *)
Theorem C12_invalid_js_panics :
  compareItems lib0 false BEq (JNum (NJs "abc")) (JNum (NInt 1)) = Panic "compareNumeric: invalid json.Number".
Proof. vm_compute. reflexivity. Qed.

Print Assumptions str_compare_eq.
Print Assumptions str_compare_antisym.
Print Assumptions str_compare_lt_trans.
Print Assumptions str_compare_lt_iff.
Print Assumptions compareItems_cmp.
Print Assumptions decided_inv.
Print Assumptions C12_trichotomy.
Print Assumptions C12_unions.
Print Assumptions C12_duality.
Print Assumptions C12_le_trans.
Print Assumptions C12_lt_trans.
Print Assumptions C12_eq_trans.
Print Assumptions C12_gt_trans.
Print Assumptions class_null.
Print Assumptions class_bool.
Print Assumptions class_str.
Print Assumptions class_int.
Print Assumptions class_flt.
Print Assumptions C12_int_by_value.
Print Assumptions compareNumeric_good.
Print Assumptions class_num.
Print Assumptions C12_num_by_key.
Print Assumptions class_dt.
Print Assumptions C12_dt_results.
Print Assumptions C12_null_eq_iff.
Print Assumptions C12_null_vs_other.
Print Assumptions C12_incomparable.
Print Assumptions C12_dt_vs_other_invalid.
Print Assumptions spairs_sfold.
Print Assumptions spairs_lax_true_iff.
Print Assumptions spairs_lax_error_iff.
Print Assumptions spairs_lax_false_iff.
Print Assumptions spairs_strict_unknown_iff.
Print Assumptions spairs_strict_error_iff.
Print Assumptions spairs_strict_all_comparable.
Print Assumptions C12_sem_cmp.
Print Assumptions str_prefix_iff.
Print Assumptions C12_starts_with_true_iff.
Print Assumptions C12_like_regex_true_iff.
Print Assumptions dtlaws_concrete.
Print Assumptions C12_refuted_trans_2p53.
Print Assumptions C12_refuted_js_out_of_range.
Print Assumptions C12_refuted_nan.
