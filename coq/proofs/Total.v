(* Total.v — totality of the executable model of path/exec (model/Exec.v):

   1. fuel monotonicity                          (Mono.v: run_mono, run_mono_panic)
   2. no OutOfFuel above an explicit bound       (run_total, X_total)
   3. no Panic when every json.Number parses     (run_no_panic, X_no_panic)
   4. classification of errors (C05)             (X_no_invalid, X_not_null,
                                                  C05_refuted_datetime_invalid)
   where X ranges over Query, First, Exists, Match, ExistsOrMatch.

   All statements are for every oracle record L that satisfies the one law
   [members_ok] (the values handed out for a Go map are values of that map);
   [members_law_needed] at the end shows that the fuel bound is false without it.
   Stdlib only, no axioms. *)
From Coq Require Import Floats.SpecFloat.
From SJ Require Import lib.Base model.Json model.Ast model.ExecLib model.Leaf model.Exec
  proofs.RunBasics proofs.Mono proofs.TotalBase proofs.TotalWalk.
Local Open Scope nat_scope.

(* ---------- all the values a run starts from ---------- *)
Definition found_vals (f : found_t) : list json := match f with Some l => l | None => [] end.
Definition req_vals (q : req) : list json :=
  match q with
  | RItem _ v f _ => v :: found_vals f
  | RAny _ vs f _ _ _ _ _ => vs ++ found_vals f
  | RBool _ v _ => [v]
  end.
Definition all_vals (q : req) (s : st) (E : env) : list json :=
  req_vals q ++ cur s :: e_root E :: map snd (e_vars E).

(* every JSON value in the request (incl. the accumulated found list), in the
   state (cur) and in the env (root, variables) has depth <= D *)
Definition depth_ok (D : nat) (q : req) (s : st) (E : env) : Prop :=
  Forall (fun v => json_depth v <= D) (all_vals q s E).
Definition nums_ok (L : ExecLib) (q : req) (s : st) (E : env) : Prop :=
  Forall (num_ok L) (all_vals q s E).
Definition no_dts (q : req) (s : st) (E : env) : Prop :=
  Forall no_dt (all_vals q s E).

(* the chain of a request is well-formed for the executor *)
Definition req_wf (q : req) : Prop :=
  match q with
  | RItem n _ _ _ => nonempty n = true /\ wf_chainb n = true
  | RAny n _ _ _ _ _ _ _ => wf_chainb n = true
  | RBool n _ c => wfb n c = true
  end.

(* ---------- instances of the value invariant ---------- *)
Lemma jall_triv (P : json -> Prop) : (forall v, P v) -> forall v, jall P v.
Proof.
  intros HP. induction v using json_ind'; try (cbn [jall]; apply HP).
  - apply jall_arr. exact H.
  - apply jall_obj. rewrite Forall_forall in *. intros x Hx.
    apply in_map_iff in Hx as [[k y] [<- Hy]]. apply (H (k, y) Hy).
Qed.

Lemma jall_and (P Q : json -> Prop) : forall v, jall P v -> jall Q v -> jall (fun x => P x /\ Q x) v.
Proof.
  induction v using json_ind'; try (cbn [jall]; tauto).
  - rewrite !jall_arr. intros H1 H2. rewrite Forall_forall in *. auto.
  - rewrite !jall_obj. intros H1 H2. rewrite Forall_forall in *. intros x Hx.
    pose proof Hx as Hx'. apply in_map_iff in Hx' as [[k y] [<- Hy]]. apply (H (k, y) Hy); auto.
Qed.

Lemma VI_FF L D v : json_depth v <= D -> VI L false false D v.
Proof.
  intros H. split; [exact H|]. apply jall_triv. intros x. destruct x as [| |[| |]| | | |]; cbn; auto; discriminate.
Qed.

Lemma VI_TF L D v : json_depth v <= D -> num_ok L v -> VI L true false D v.
Proof.
  intros H Hn. split; [exact H|]. eapply jall_impl; [|exact Hn].
  intros x. destruct x as [| |[| |]| | | |]; cbn; auto.
Qed.

Lemma VI_TT L D v : json_depth v <= D -> num_ok L v -> no_dt v -> VI L true true D v.
Proof.
  intros H Hn Hd. split; [exact H|]. eapply jall_impl; [|apply jall_and; [exact Hn|exact Hd]].
  intros x. destruct x as [| |[| |]| | | |]; cbn; try tauto.
Qed.

(* the three modes *)
Inductive mode := MFuel | MSafe | MClass.
Definition mN (md : mode) : bool := match md with MFuel => false | _ => true end.
Definition mT (md : mode) : bool := match md with MClass => true | _ => false end.
Lemma mNT md : mT md = true -> mN md = true.
Proof. destruct md; cbn; auto. Qed.

Definition val_ok (L : ExecLib) (md : mode) (D : nat) (v : json) : Prop :=
  json_depth v <= D /\
  match md with
  | MFuel => True
  | MSafe => num_ok L v
  | MClass => num_ok L v /\ no_dt v
  end.

Lemma VI_mode L md D v : val_ok L md D v -> VI L (mN md) (mT md) D v.
Proof.
  intros [H1 H2]. destruct md; cbn [mN mT].
  - apply VI_FF; assumption.
  - apply VI_TF; assumption.
  - destruct H2. apply VI_TT; assumption.
Qed.

Lemma Forall_VI_mode L md D l : Forall (val_ok L md D) l -> Forall (VI L (mN md) (mT md) D) l.
Proof. intros H. eapply Forall_impl; [|exact H]. apply VI_mode. Qed.

(* ---------- run: the generic statement ---------- *)
Lemma all_vals_split {P : json -> Prop} q s E :
  Forall P (all_vals q s E) ->
  Forall P (req_vals q) /\ P (cur s) /\ P (e_root E) /\ Forall P (map snd (e_vars E)).
Proof.
  unfold all_vals. intros H. apply Forall_app in H as [H1 H2].
  inversion H2 as [|? ? H3 H4]; subst. inversion H4; subst. auto.
Qed.

Lemma run_mode L (HL : members_ok L) md D E q s fuel :
  Forall (val_ok L md D) (all_vals q s E) ->
  (md = MClass -> req_wf q) ->
  m D q < fuel ->
  W (mN md) (run L E fuel q s) (POST L (mN md) (mT md) D q).
Proof.
  intros Hall Hwf Hm. apply all_vals_split in Hall as (Hq & Hc & Hr & Hv).
  apply run_w; auto using mNT, VI_mode, Forall_VI_mode.
  - split; [exact Hm|].
    assert (HT: mT md = true -> md = MClass) by (destruct md; cbn; congruence).
    destruct q as [n v f u|n vs f lv fi la ig un|n v c]; cbn [req_vals found_vals] in Hq.
    + inversion Hq; subst. split; [apply VI_mode; assumption|].
      split; [destruct f; cbn [FO found_vals] in *; auto using Forall_VI_mode|].
      intros H. apply (Hwf (HT H)).
    + apply Forall_app in Hq as [H1 H2]. split; [apply Forall_VI_mode; assumption|].
      split; [destruct f; cbn [FO found_vals] in *; auto using Forall_VI_mode|].
      intros H. apply (Hwf (HT H)).
    + inversion Hq; subst. split; [apply VI_mode; assumption|].
      intros H. apply (Hwf (HT H)).
  - apply VI_mode. exact Hc.
Qed.

(* ---------- 2. no OutOfFuel ---------- *)
Theorem run_total L (HL : members_ok L) E D r s :
  depth_ok D r s E -> forall fuel, m D r < fuel -> run L E fuel r s <> OutOfFuel.
Proof.
  intros Hd fuel Hm Heq.
  assert (H: W false (run L E fuel r s) (POST L false false D r)).
  { apply (run_mode L HL MFuel); [|discriminate|exact Hm].
    eapply Forall_impl; [|exact Hd]. intros v Hv. split; [exact Hv|exact I]. }
  rewrite Heq in H. exact H.
Qed.

(* a bound that works for every request on values of depth <= D *)
Lemma m_bound D q : Forall (fun v => json_depth v <= D) (req_vals q) ->
  m D q <= (match q with RItem n _ _ _ | RAny n _ _ _ _ _ _ _ | RBool n _ _ => chain_size n end) * K D + 2 * D + 5.
Proof.
  intros H. destruct q as [n v f u|n vs f lv fi la ig un|n v c]; cbn [m req_vals] in *.
  - destruct u; lia.
  - apply Forall_app in H as [H _].
    assert (ld vs <= S D).
    { destruct vs; cbn [ld]; [lia|]. apply le_n_S. apply maxd_le. rewrite Forall_forall in H. exact H. }
    destruct un; lia.
  - lia.
Qed.

(* ---------- 3. no Panic ---------- *)
Definition depth_all (q : req) (s : st) (E : env) : nat := maxd (all_vals q s E).

Lemma depth_all_ok q s E : depth_ok (depth_all q s E) q s E.
Proof. unfold depth_ok, depth_all. apply Forall_forall. intros x Hx. apply maxd_in. exact Hx. Qed.

Theorem run_no_panic L (HL : members_ok L) E r s :
  nums_ok L r s E -> forall fuel w, run L E fuel r s <> Panic w.
Proof.
  intros Hn fuel w Heq.
  set (D := depth_all r s E).
  set (k := Nat.max fuel (S (m D r))).
  assert (Hk: run L E k r s = Panic w) by (eapply run_mono_panic; [|exact Heq]; unfold k; lia).
  assert (H: W true (run L E k r s) (POST L true false D r)).
  { apply (run_mode L HL MSafe); [|discriminate|unfold k; lia].
    pose proof (depth_all_ok r s E) as Hd. fold D in Hd. unfold depth_ok, nums_ok in *.
    rewrite Forall_forall in *. intros v Hv. split; auto. }
  rewrite Hk in H. discriminate H.
Qed.

(* ---------- 4. classification at the level of run ---------- *)
Definition ans_no_invalid (a : ans) : Prop :=
  forall x, match a with AItem r => r_err r | ABool p => p_err p end <> Some (EInvalid x).

Theorem run_no_invalid L (HL : members_ok L) E r s :
  nums_ok L r s E -> no_dts r s E -> req_wf r ->
  forall fuel a s', run L E fuel r s = Ret (a, s') -> ans_no_invalid a.
Proof.
  intros Hn Hdt Hwf fuel a s' Heq.
  set (D := depth_all r s E).
  set (k := Nat.max fuel (S (m D r))).
  assert (Hk: run L E k r s = Ret (a, s')) by (eapply run_mono; [|exact Heq]; unfold k; lia).
  assert (H: W true (run L E k r s) (POST L true true D r)).
  { apply (run_mode L HL MClass); [|intros _; exact Hwf|unfold k; lia].
    pose proof (depth_all_ok r s E) as Hd. fold D in Hd. unfold depth_ok, nums_ok, no_dts in *.
    rewrite Forall_forall in *. intros v Hv. split; auto. }
  rewrite Hk in H. cbn [W] in H. destruct H as [_ H]. cbn [fst] in H.
  intros x Hx.
  destruct r, a; try contradiction; destruct H as [? He] || rename H into He;
    cbn in Hx; rewrite Hx in He; exact (He eq_refl x eq_refl).
Qed.

(* ====================================================================== *)
(* Entry points                                                            *)

Definition depth_of (doc : json) (o : opts) : nat :=
  Nat.max (json_depth doc) (maxd (map snd (o_vars o))).

Definition fuel_for (p : path) (doc : json) (o : opts) : nat :=
  let D := depth_of doc o in S (chain_size (p_root p) * K D + D + 3).

Definition inputs_ok (P : json -> Prop) (doc : json) (o : opts) : Prop :=
  P doc /\ Forall P (map snd (o_vars o)).

Lemma inputs_depth doc o : inputs_ok (fun v => json_depth v <= depth_of doc o) doc o.
Proof.
  unfold inputs_ok, depth_of. split; [lia|]. apply Forall_forall. intros x Hx.
  pose proof (maxd_in _ _ Hx). lia.
Qed.

Lemma inputs_and (P Q : json -> Prop) doc o :
  inputs_ok P doc o -> inputs_ok Q doc o -> inputs_ok (fun v => P v /\ Q v) doc o.
Proof.
  intros [H1 H2] [H3 H4]. split; [auto|]. rewrite Forall_forall in *. auto.
Qed.

(* the result of query(): the found list and the error *)
Definition QPOST L md D (x : resp * st) : Prop :=
  FO L (mN md) (mT md) D (r_found (fst x)) /\ EOo (mT md) (r_err (fst x)).

Lemma query_mode L (HL : members_ok L) md p doc o vals fuel :
  let D := depth_of doc o in
  inputs_ok (val_ok L md D) doc o ->
  (md = MClass -> wf_exec_path p) ->
  vals = None \/ vals = Some [] ->
  fuel_for p doc o <= fuel ->
  W (mN md) (query L fuel p doc o vals) (QPOST L md D).
Proof.
  intros D [Hdoc Hvars] Hwf Hvals Hfuel. unfold query.
  set (E := mkEnv p doc o). set (s0 := newExec p doc o).
  assert (Hself: forall q s, RQ L (mN md) (mT md) D fuel q -> SO L (mN md) (mT md) D s ->
                        W (mN md) (run L E fuel q s) (POST L (mN md) (mT md) D q)).
  { intros q s Hq Hs. apply run_w; auto using mNT.
    - apply VI_mode. exact Hdoc.
    - apply Forall_VI_mode. exact Hvars. }
  assert (Hs0: SO L (mN md) (mT md) D s0) by (apply VI_mode; exact Hdoc).
  assert (Hrq: forall f, FO L (mN md) (mT md) D f ->
                  RQ L (mN md) (mT md) D fuel (RItem (p_root p) doc f (lax E))).
  { intros f Hf. split.
    - cbn [m]. unfold fuel_for in Hfuel. fold D in Hfuel. destruct (lax E); lia.
    - split; [apply VI_mode; exact Hdoc|]. split; [exact Hf|].
      intros HT. apply Hwf. destruct md; cbn in HT; congruence. }
  assert (Hitem: forall f, FO L (mN md) (mT md) D f ->
            W (mN md) (executeItem E (run L E fuel) (p_root p) doc f s0) (POSTI L (mN md) (mT md) D)).
  { intros f Hf. eapply executeItem_w; [exact Hself|apply Hrq; exact Hf|exact Hs0]. }
  destruct (negb (p_lax p) && fnil vals).
  - eapply W_bind; [apply Hitem; constructor|]. intros [r s1] (H1 & H2 & H3). cbv beta iota.
    destruct (st_failed (r_st r)); [apply W_ret; split; [exact I|exact H3]|].
    destruct (r_found r) as [[|x l]|]; apply W_ret; split; exact I.
  - eapply W_conseq; [apply Hitem; destruct Hvals as [-> | ->]; [exact I|constructor]|].
    intros [r s1] (H1 & H2 & H3). split; assumption.
Qed.

(* --- 2. no OutOfFuel for the five entry points --- *)
Section EntryTotal.
Variable L : ExecLib.
Hypothesis HL : members_ok L.
Variables (p : path) (doc : json) (o : opts).
Variable fuel : nat.
Hypothesis Hfuel : fuel_for p doc o <= fuel.

Lemma query_total_ge vals : vals = None \/ vals = Some [] ->
  query L fuel p doc o vals <> OutOfFuel.
Proof.
  intros Hv Heq.
  assert (H: W false (query L fuel p doc o vals) (QPOST L MFuel (depth_of doc o))).
  { apply (query_mode L HL MFuel); auto; [|discriminate].
    destruct (inputs_depth doc o) as [H1 H2]. split; [split; auto|].
    eapply Forall_impl; [|exact H2]. intros v Hv'. split; auto. }
  rewrite Heq in H. exact H.
Qed.

Ltac entry_total :=
  let Heq := fresh in
  intros Heq;
  match type of Heq with
  | bindo ?q _ = _ =>
      let Hq := fresh in
      assert (Hq: q <> OutOfFuel) by (apply query_total_ge; auto);
      destruct q as [[r s]| |]; [|discriminate Heq|congruence];
      cbn [bindo] in Heq
  end.

Theorem Query_total_ge : Query L fuel p doc o <> OutOfFuel.
Proof. unfold Query. entry_total. destruct (r_err r); discriminate. Qed.

Theorem First_total_ge : First L fuel p doc o <> OutOfFuel.
Proof. unfold First. entry_total. destruct (r_err r); discriminate. Qed.

Theorem Exists_total_ge : Exists L fuel p doc o <> OutOfFuel.
Proof.
  unfold Exists. entry_total. destruct (r_err r); [discriminate|].
  destruct (st_failed (r_st r)); discriminate.
Qed.

Theorem Match_total_ge : Match L fuel p doc o <> OutOfFuel.
Proof.
  unfold Match. entry_total. destruct (r_err r); [discriminate|].
  destruct (r_found r) as [[|[| | | | | |] [|]]|]; try discriminate;
    destruct (negb (o_silent o)); discriminate.
Qed.

Theorem ExistsOrMatch_total_ge : ExistsOrMatch L fuel p doc o <> OutOfFuel.
Proof. unfold ExistsOrMatch. destruct (p_pred p); [apply Match_total_ge|apply Exists_total_ge]. Qed.
End EntryTotal.

(* the statements at exactly [fuel_for]: every opts (silent or not, any
   cancellation point, any variables), every L obeying the law *)
Section EntryTotalExact.
Variable L : ExecLib.
Hypothesis HL : members_ok L.
Variables (p : path) (doc : json) (o : opts).

Theorem Query_total : Query L (fuel_for p doc o) p doc o <> OutOfFuel.
Proof. apply Query_total_ge; auto. Qed.
Theorem First_total : First L (fuel_for p doc o) p doc o <> OutOfFuel.
Proof. apply First_total_ge; auto. Qed.
Theorem Exists_total : Exists L (fuel_for p doc o) p doc o <> OutOfFuel.
Proof. apply Exists_total_ge; auto. Qed.
Theorem Match_total : Match L (fuel_for p doc o) p doc o <> OutOfFuel.
Proof. apply Match_total_ge; auto. Qed.
Theorem ExistsOrMatch_total : ExistsOrMatch L (fuel_for p doc o) p doc o <> OutOfFuel.
Proof. apply ExistsOrMatch_total_ge; auto. Qed.
End EntryTotalExact.

(* --- 3. no Panic, 4. no ErrInvalid: for any fuel --- *)
Section EntrySafe.
Variable L : ExecLib.
Hypothesis HL : members_ok L.
Variables (p : path) (doc : json) (o : opts).
Hypothesis Hnum : inputs_ok (num_ok L) doc o.

Lemma query_big md fuel vals :
  (md = MSafe \/ (md = MClass /\ inputs_ok no_dt doc o /\ wf_exec_path p)) ->
  vals = None \/ vals = Some [] ->
  W true (query L (Nat.max fuel (fuel_for p doc o)) p doc o vals) (QPOST L md (depth_of doc o)).
Proof.
  intros Hmd Hv.
  assert (HN: mN md = true) by (destruct Hmd as [->|[-> _]]; reflexivity).
  rewrite <- HN. apply (query_mode L HL md); auto; [| |lia].
  - pose proof (inputs_depth doc o) as Hd.
    destruct Hmd as [->|(-> & Hdt & _)].
    + pose proof (inputs_and _ _ _ _ Hd Hnum) as [H1 H2]. split; [exact H1|exact H2].
    + pose proof (inputs_and _ _ _ _ Hd (inputs_and _ _ _ _ Hnum Hdt)) as [H1 H2]. split; [exact H1|exact H2].
  - intros ->. destruct Hmd as [H|(_ & _ & H)]; [discriminate|exact H].
Qed.

Lemma query_no_panic fuel vals w : vals = None \/ vals = Some [] ->
  query L fuel p doc o vals <> Panic w.
Proof.
  intros Hv Heq.
  pose proof (query_big MSafe fuel vals (or_introl eq_refl) Hv) as H.
  destruct (query_ole L fuel (Nat.max fuel (fuel_for p doc o)) p doc o vals ltac:(lia)) as [H0|H0];
    [congruence|]. rewrite <- H0, Heq in H. discriminate H.
Qed.

Ltac entry_np :=
  let Heq := fresh in
  intros Heq;
  match type of Heq with
  | bindo ?q _ = Panic ?w =>
      let Hq := fresh in
      assert (Hq: q <> Panic w) by (apply query_no_panic; auto);
      destruct q as [[r s]| |]; cbn [bindo] in Heq; [|congruence|discriminate Heq]
  end.

Theorem Query_no_panic fuel w : Query L fuel p doc o <> Panic w.
Proof. unfold Query. entry_np. destruct (r_err r); discriminate. Qed.

Theorem First_no_panic fuel w : First L fuel p doc o <> Panic w.
Proof. unfold First. entry_np. destruct (r_err r); discriminate. Qed.

Theorem Exists_no_panic fuel w : Exists L fuel p doc o <> Panic w.
Proof.
  unfold Exists. entry_np. destruct (r_err r); [discriminate|].
  destruct (st_failed (r_st r)); discriminate.
Qed.

Theorem Match_no_panic fuel w : Match L fuel p doc o <> Panic w.
Proof.
  unfold Match. entry_np. destruct (r_err r); [discriminate|].
  destruct (r_found r) as [[|[| | | | | |] [|]]|]; try discriminate;
    destruct (negb (o_silent o)); discriminate.
Qed.

Theorem ExistsOrMatch_no_panic fuel w : ExistsOrMatch L fuel p doc o <> Panic w.
Proof. unfold ExistsOrMatch. destruct (p_pred p); [apply Match_no_panic|apply Exists_no_panic]. Qed.

(* classification *)
Hypothesis Hdt : inputs_ok no_dt doc o.
Hypothesis Hwf : wf_exec_path p.

Lemma query_no_invalid fuel vals r s x : vals = None \/ vals = Some [] ->
  query L fuel p doc o vals = Ret (r, s) -> r_err r <> Some (EInvalid x).
Proof.
  intros Hv Heq Hx.
  pose proof (query_big MClass fuel vals (or_intror (conj eq_refl (conj Hdt Hwf))) Hv) as H.
  destruct (query_ole L fuel (Nat.max fuel (fuel_for p doc o)) p doc o vals ltac:(lia)) as [H0|H0];
    [congruence|]. rewrite <- H0, Heq in H. destruct H as [_ H]. cbn [fst] in H.
  rewrite Hx in H. exact (H eq_refl x eq_refl).
Qed.

Ltac entry_ni Heq :=
  match type of Heq with
  | bindo ?q _ = _ =>
      let Hq := fresh "Hq" in
      destruct q as [[r s]| |] eqn:Hq; [|discriminate Heq|discriminate Heq];
      cbn [bindo] in Heq
  end.

Theorem Query_no_invalid fuel q x :
  Query L fuel p doc o = Ret q -> q <> QErr (AErr (EInvalid x)).
Proof.
  unfold Query. intros Heq ->. entry_ni Heq.
  destruct (r_err r) eqn:Ee; [|discriminate]. injection Heq as ->.
  eapply query_no_invalid; [|exact Hq|exact Ee]. auto.
Qed.

Theorem First_no_invalid fuel q x :
  First L fuel p doc o = Ret q -> q <> FErr (AErr (EInvalid x)).
Proof.
  unfold First. intros Heq ->. entry_ni Heq.
  destruct (r_err r) eqn:Ee; [|discriminate]. injection Heq as ->.
  eapply query_no_invalid; [|exact Hq|exact Ee]. auto.
Qed.

Theorem Exists_no_invalid fuel q x :
  Exists L fuel p doc o = Ret q -> q <> BErr (AErr (EInvalid x)).
Proof.
  unfold Exists. intros Heq ->. entry_ni Heq.
  destruct (r_err r) eqn:Ee.
  - injection Heq as ->. eapply query_no_invalid; [|exact Hq|exact Ee]. auto.
  - destruct (st_failed (r_st r)); discriminate.
Qed.

Theorem Match_no_invalid fuel q x :
  Match L fuel p doc o = Ret q -> q <> BErr (AErr (EInvalid x)).
Proof.
  unfold Match. intros Heq ->. entry_ni Heq.
  destruct (r_err r) eqn:Ee.
  - injection Heq as ->. eapply query_no_invalid; [|exact Hq|exact Ee]. auto.
  - destruct (r_found r) as [[|[| | | | | |] [|]]|]; try discriminate;
      destruct (negb (o_silent o)); discriminate.
Qed.

Theorem ExistsOrMatch_no_invalid fuel q x :
  ExistsOrMatch L fuel p doc o = Ret q -> q <> BErr (AErr (EInvalid x)).
Proof.
  unfold ExistsOrMatch. destruct (p_pred p); [apply Match_no_invalid|apply Exists_no_invalid].
Qed.
End EntrySafe.

(* totality proper: with enough fuel and parseable numbers an entry point returns *)
Lemma outcome_ret {A} (x : outcome A) :
  x <> OutOfFuel -> (forall w, x <> Panic w) -> exists a, x = Ret a.
Proof. destruct x as [a|w|]; intros H1 H2; [eauto|contradiction (H2 w eq_refl)|contradiction]. Qed.

Section EntryReturns.
Variable L : ExecLib.
Hypothesis HL : members_ok L.
Variables (p : path) (doc : json) (o : opts).
Hypothesis Hnum : inputs_ok (num_ok L) doc o.
Variable fuel : nat.
Hypothesis Hfuel : fuel_for p doc o <= fuel.

Theorem Query_returns : exists q, Query L fuel p doc o = Ret q.
Proof. apply outcome_ret; [apply Query_total_ge|intros w; apply Query_no_panic]; auto. Qed.
Theorem First_returns : exists q, First L fuel p doc o = Ret q.
Proof. apply outcome_ret; [apply First_total_ge|intros w; apply First_no_panic]; auto. Qed.
Theorem Exists_returns : exists q, Exists L fuel p doc o = Ret q.
Proof. apply outcome_ret; [apply Exists_total_ge|intros w; apply Exists_no_panic]; auto. Qed.
Theorem Match_returns : exists q, Match L fuel p doc o = Ret q.
Proof. apply outcome_ret; [apply Match_total_ge|intros w; apply Match_no_panic]; auto. Qed.
Theorem ExistsOrMatch_returns : exists q, ExistsOrMatch L fuel p doc o = Ret q.
Proof. apply outcome_ret; [apply ExistsOrMatch_total_ge|intros w; apply ExistsOrMatch_no_panic]; auto. Qed.
End EntryReturns.

(* NULL comes from Exists / Match / ExistsOrMatch only *)
Theorem Query_not_null L fuel p doc o : Query L fuel p doc o <> Ret (QErr ANull).
Proof.
  unfold Query. destruct (query L fuel p doc o (Some [])) as [[r s]| |]; cbn [bindo]; try discriminate.
  destruct (r_err r); discriminate.
Qed.

Theorem First_not_null L fuel p doc o : First L fuel p doc o <> Ret (FErr ANull).
Proof.
  unfold First. destruct (query L fuel p doc o (Some [])) as [[r s]| |]; cbn [bindo]; try discriminate.
  destruct (r_err r); discriminate.
Qed.

(* ====================================================================== *)
(* Witnesses on a small concrete oracle record                             *)

Definition dummy_dt : datetime := mkdt KTimestamp 0 0 0.

Definition dummyL (members : list (string * json) -> list json) : ExecLib :=
  mkExecLib
    (fun _ => None) (fun _ _ _ => None) (fun _ => EmptyString) (fun _ => EmptyString)
    (fun _ => S754_zero false) (fun _ => 0%Z) (fun a _ => a)
    (fun a => a) (fun a => a) (fun a => a) (fun a => a) (fun _ => S754_zero false)
    (fun _ _ _ => false)
    (fun s _ => if String.eqb s "2020-01-01" then Some dummy_dt else None)
    (fun _ _ d => CastOk d)
    (fun _ _ _ => CmpOk 0%Z)
    (fun _ => EmptyString)
    members.

Definition dummy_opts : opts := mkopts [] 0 false false None 1.

Lemma dummy_members_ok : members_ok (dummyL (map snd)).
Proof. intros l x H. exact H. Qed.

(* Known finding (pinned by compare_test.go, datetime_unknown_err): comparing a
   datetime with a non-datetime answers ErrInvalid.  This is why [wf_exec_path]
   excludes the datetime methods: "$.datetime() == 1" on the document
   "2020-01-01" — every chain non-empty, operands well-formed, every number
   parseable, no datetime in the inputs. *)
Definition dt_path : path :=
  mkpath true true [SBin BEq [SConst CRoot; SDt DDateTime None None] [SInteger 1%Z]].

Theorem C05_refuted_datetime_invalid :
  exists L p doc o fuel x,
    members_ok L /\ inputs_ok (num_ok L) doc o /\ inputs_ok no_dt doc o /\
    Query L fuel p doc o = Ret (QErr (AErr (EInvalid x))).
Proof.
  exists (dummyL (map snd)), dt_path, (JStr "2020-01-01"), dummy_opts, 10, "unknownDateTime"%string.
  split; [exact dummy_members_ok|].
  split; [split; [exact I|constructor]|].
  split; [split; [exact I|constructor]|].
  vm_compute. reflexivity.
Qed.

(* The law [members_ok] is needed for the fuel bound: an oracle that answers
   every map with the same object makes ".**" descend one level per unit of
   fuel, whatever the depth of the document. *)
Definition loop_obj : json := JObj 0 [("a"%string, JNull)].
Definition loop_path : path := mkpath true false [SConst CRoot; SAny 0 4294967295].

Theorem members_law_needed :
  exists L p doc o, Query L (fuel_for p doc o) p doc o = OutOfFuel.
Proof.
  exists (dummyL (fun _ => [loop_obj])), loop_path, loop_obj, dummy_opts.
  vm_compute. reflexivity.
Qed.

Print Assumptions run_total.
Print Assumptions run_no_panic.
Print Assumptions run_no_invalid.
Print Assumptions ExistsOrMatch_total.
Print Assumptions ExistsOrMatch_no_panic.
Print Assumptions ExistsOrMatch_no_invalid.
Print Assumptions Query_total.
Print Assumptions ExistsOrMatch_returns.
Print Assumptions Query_no_invalid.
Print Assumptions C05_refuted_datetime_invalid.
Print Assumptions members_law_needed.
