(* CancelPrefix.v — second half of CancelMore.v (C20): prefix determinism.
   A run depends on the cancellation point only at the polls it reaches.  The
   uncancelled run (environment E0, e_cancel_at = None) and the run cancelled at
   poll k (environment with_cancel E0 k), started in the same state with the
   same fuel, are related by [sim]:
     - if the uncancelled run ends with at most k polls, the cancelled run is
       identical (same answer, same final state);
     - if it ends with more than k polls (and started with at most k), the
       cancelled run returns the cancellation after exactly k+1 polls.
   Proved goal-directed, function by function in the order of Exec.v, with a
   bind rule whose third premise says "the continuation hands a cancellation
   on without polling".  Stdlib only, no axioms. *)
From SJ Require Import lib.Base model.Json model.Ast model.ExecLib model.Leaf model.Exec
     proofs.RunBasics proofs.InvTac proofs.Invariants.

Definition with_cancel (E : env) (k : nat) : env :=
  mkenv (e_lax E) (e_root E) (e_vars E) (e_vars_tag E) (e_useTZ E) (Some k).

Definition canc_req (r : req) (a : ans) : Prop :=
  match r, a with
  | RItem _ _ _ _, AItem x | RAny _ _ _ _ _ _ _ _, AItem x => canc_i x
  | RBool _ _ _, ABool p => canc_b p
  | _, _ => False
  end.

Definition sim {A} (k : nat) (C : A -> Prop) (n : nat) (o0 ok : outcome (A * st)) : Prop :=
  forall a s', o0 = Ret (a, s') ->
    (n <= polls s')%nat /\
    ((polls s' <= k)%nat -> ok = Ret (a, s')) /\
    ((n <= k)%nat -> (k < polls s')%nat ->
     exists ak sk', ok = Ret (ak, sk') /\ polls sk' = S k /\ C ak).

Lemma sim_ret {A} k (C : A -> Prop) n (x : A) (s : st) : polls s = n -> sim k C n (Ret (x, s)) (Ret (x, s)).
Proof.
  intros Hn a s' H. injection H as <- <-. repeat split; [lia|]. intros; exfalso; lia.
Qed.

Lemma sim_panic {A} k (C : A -> Prop) n w ok : sim k C n (Panic w) ok.
Proof. intros a s' H; discriminate H. Qed.
Lemma sim_oof {A} k (C : A -> Prop) n ok : sim k C n OutOfFuel ok.
Proof. intros a s' H; discriminate H. Qed.

Lemma sim_idx {A} k (C : A -> Prop) n m o0 ok : sim k C m o0 ok -> n = m -> sim k C n o0 ok.
Proof. intros H ->; exact H. Qed.

Lemma sim_bind {A B} k (C1 : A -> Prop) (C2 : B -> Prop) n
      (m0 mk : outcome (A * st)) (f0 fk : A * st -> outcome (B * st)) :
  sim k C1 n m0 mk ->
  (forall a s1, (n <= polls s1)%nat -> sim k C2 (polls s1) (f0 (a, s1)) (fk (a, s1))) ->
  (forall ak sk1, C1 ak -> polls sk1 = S k ->
     exists b sk', fk (ak, sk1) = Ret (b, sk') /\ polls sk' = S k /\ C2 b) ->
  sim k C2 n (bindo m0 f0) (bindo mk fk).
Proof.
  intros H1 H2 H3 b s' H. apply bindo_Ret in H. destruct H as [[a1 s1] [Hm Hf]].
  destruct (H1 _ _ Hm) as (M1 & M2 & M3).
  destruct (H2 a1 s1 M1 _ _ Hf) as (F1 & F2 & F3).
  split; [lia|]. split.
  - intros Hle. rewrite M2 by lia. cbn [bindo]. apply F2. exact Hle.
  - intros Hn Hlt. destruct (le_lt_dec (polls s1) k) as [Hs1|Hs1].
    + rewrite M2 by exact Hs1. cbn [bindo]. apply F3; assumption.
    + destruct (M3 Hn Hs1) as (ak & sk1 & -> & Hp & HC). cbn [bindo]. apply H3; assumption.
Qed.

(* a pure (state-free) computation that is the same on both sides *)
Lemma sim_bind_pure {A B} k (C : B -> Prop) n (x : outcome A) (f0 fk : A -> outcome (B * st)) :
  (forall a, sim k C n (f0 a) (fk a)) -> sim k C n (bindo x f0) (bindo x fk).
Proof. intros H. destruct x; cbn [bindo]; [apply H|apply sim_panic|apply sim_oof]. Qed.

Lemma ctx_err_none E s : e_cancel_at E = None -> ctx_err E s = false.
Proof. unfold ctx_err; intros ->; reflexivity. Qed.
Lemma done_now_none E s : e_cancel_at E = None -> done_now E s = false.
Proof. unfold done_now; intros ->; reflexivity. Qed.
Lemma ctx_err_hit E k s : polls s = S k -> ctx_err (with_cancel E k) s = true.
Proof. unfold ctx_err; cbn [with_cancel e_cancel_at]; intros ->. apply Nat.ltb_lt; lia. Qed.

(* the propagation premise of [sim_bind]: the continuation, given a cancelled
   result in a state with k+1 polls, returns a cancelled result without polling *)
Ltac prop_simpl Hp :=
  cbv beta iota zeta delta [ret exit_now returnError returnVerboseError];
  cbn [fst snd r_st r_err r_found p_out p_err st_failed st_ok negb andb orb is_some is_verbose bindo];
  rewrite ?(ctx_err_hit _ _ _ Hp), ?orb_true_r, ?andb_false_r;
  cbn [fst snd r_st r_err r_found p_out p_err st_failed st_ok negb andb orb is_some is_verbose bindo].

Ltac sim_prop_fin Hp :=
  do 2 eexists; split; [reflexivity|];
  split; [cbn [polls set_cur set_last_size set_ign set_verbose set_base set_last_id set_next_tag]; exact Hp|];
  unfold canc_i, canc_b, canc_req, exit_now;
  cbn [fst snd r_st r_err r_found p_out p_err st_failed st_ok negb andb orb];
  repeat match goal with H : _ = SFailed |- _ => rewrite H end;
  cbn [fst snd r_st r_err r_found p_out p_err st_failed st_ok negb andb orb];
  repeat split; auto.

Ltac sim_prop :=
  let ak := fresh "ak" in let sk1 := fresh "sk" in let HC := fresh "HC" in let Hp := fresh "Hp" in
  intros ak sk1 HC Hp;
  repeat match goal with x : (_ * _)%type |- _ => destruct x end;
  unfold canc_i, canc_b, canc_req in HC; cbv beta in HC; cbn [fst snd] in HC;
  repeat match goal with H : _ /\ _ |- _ => destruct H end;
  repeat match goal with H : ?v = _ |- _ => is_var v; subst v end;
  prop_simpl Hp;
  repeat match goal with H : _ = SFailed |- _ => rewrite H end;
  repeat match goal with H : _ = PUnknown |- _ => rewrite H end;
  repeat match goal with H : _ = Some ECancel |- _ => rewrite H end;
  prop_simpl Hp;
  repeat (match goal with
          | |- context[if ?c then _ else _] => destruct c
          | |- context[match ?x with _ => _ end] => destruct x
          end; prop_simpl Hp);
  try contradiction;
  sim_prop_fin Hp.

Section Prefix.
Variable L : ExecLib.
Variable E0 : env.
Variable k : nat.
Hypothesis H0 : e_cancel_at E0 = None.
Local Notation Ek := (with_cancel E0 k).
Variables self0 selfk : req -> st -> outcome (ans * st).
Hypothesis Hself : forall r s, sim k (canc_req r) (polls s) (self0 r s) (selfk r s).

Create HintDb simdb discriminated.

Ltac sim_norm :=
  cbv beta iota zeta delta [ret lax strict];
  cbn [with_cancel e_lax e_root e_vars e_vars_tag e_useTZ bindo fst snd].

Ltac sim_call :=
  first [ eapply sim_idx; [solve [auto 1 with simdb nocore] | reflexivity]
        | match goal with H : context [sim] |- _ => eapply sim_idx; [apply H | reflexivity] end ].

Ltac sim1 :=
  first
    [ apply sim_ret; reflexivity
    | apply sim_panic
    | apply sim_oof
    | sim_call
    | eapply sim_bind; [ sim_call | intros ? ? ? | solve [sim_prop] ]
    | apply sim_bind_pure; intros ?
    | match goal with
      | |- sim _ _ _ (match ?x with _ => _ end) (match ?x with _ => _ end) => destruct x
      | |- sim _ _ _ (if ?x then _ else _) (if ?x then _ else _) => destruct x
      | |- sim _ _ _ (match ?x with _ => _ end _) (match ?x with _ => _ end _) => destruct x
      | |- sim _ _ _ (if ?x then _ else _) _ => destruct x
      | |- sim _ _ _ (match ?x with _ => _ end) _ => destruct x
      | |- sim _ _ _ (match ?x with _ => _ end _) _ => destruct x
      end
    | progress sim_norm
    | match goal with |- context[if ?b then _ else _] => destruct b end ].
Ltac sim_auto := sim_norm; repeat sim1.

Lemma sim_callItem n v found u s :
  sim k canc_i (polls s) (callItem self0 n v found u s) (callItem selfk n v found u s).
Proof using Hself.
  unfold callItem. eapply sim_bind; [apply Hself| |].
  - intros [x|p] s1 Hle; [apply sim_ret; reflexivity|apply sim_panic].
  - intros [x|p] sk1 HC Hp; cbn [canc_req] in HC; [|contradiction]. eauto.
Qed.
Lemma sim_callAny n vs found lv f l ig un s :
  sim k canc_i (polls s) (callAny self0 n vs found lv f l ig un s) (callAny selfk n vs found lv f l ig un s).
Proof using Hself.
  unfold callAny. eapply sim_bind; [apply Hself| |].
  - intros [x|p] s1 Hle; [apply sim_ret; reflexivity|apply sim_panic].
  - intros [x|p] sk1 HC Hp; cbn [canc_req] in HC; [|contradiction]. eauto.
Qed.
Lemma sim_callBool n v c s :
  sim k canc_b (polls s) (callBool self0 n v c s) (callBool selfk n v c s).
Proof using Hself.
  unfold callBool. eapply sim_bind; [apply Hself| |].
  - intros [x|p] s1 Hle; [apply sim_panic|apply sim_ret; reflexivity].
  - intros [x|p] sk1 HC Hp; cbn [canc_req] in HC; [contradiction|]. eauto.
Qed.
Hint Resolve sim_callItem sim_callAny sim_callBool : simdb.

Lemma sim_returnVerboseError e found s :
  sim k canc_i (polls s) (returnVerboseError e found s) (returnVerboseError e found s).
Proof. unfold returnVerboseError. sim_auto. Qed.
Lemma sim_returnError e found s :
  sim k canc_i (polls s) (returnError e found s) (returnError e found s).
Proof. unfold returnError. sim_auto. Qed.
Hint Resolve sim_returnVerboseError sim_returnError : simdb.

Lemma sim_executeItem n v found s :
  sim k canc_i (polls s) (executeItem E0 self0 n v found s) (executeItem Ek selfk n v found s).
Proof using Hself. unfold executeItem. sim_auto. Qed.
Hint Resolve sim_executeItem : simdb.

Lemma sim_executeNextItem next v found s :
  sim k canc_i (polls s) (executeNextItem E0 self0 next v found s) (executeNextItem Ek selfk next v found s).
Proof using Hself. unfold executeNextItem. sim_auto. Qed.
Hint Resolve sim_executeNextItem : simdb.

Lemma sim_executeItemOptUnwrapResult n v u found s :
  sim k canc_i (polls s) (executeItemOptUnwrapResult E0 self0 n v u found s)
      (executeItemOptUnwrapResult Ek selfk n v u found s).
Proof using Hself. unfold executeItemOptUnwrapResult. sim_auto. Qed.
Hint Resolve sim_executeItemOptUnwrapResult : simdb.

Lemma sim_executeItemOptUnwrapResultSilent n v u found s :
  sim k canc_i (polls s) (executeItemOptUnwrapResultSilent E0 self0 n v u found s)
      (executeItemOptUnwrapResultSilent Ek selfk n v u found s).
Proof using Hself. unfold executeItemOptUnwrapResultSilent. sim_auto. Qed.
Hint Resolve sim_executeItemOptUnwrapResultSilent : simdb.


Lemma sim_weaken {A} (C : A -> Prop) n m o0 ok :
  (n <= m)%nat -> ((n <= k)%nat -> (m <= k)%nat) -> sim k C m o0 ok -> sim k C n o0 ok.
Proof.
  intros Hnm Hk H a s' Ho. destruct (H a s' Ho) as (P1 & P2 & P3).
  split; [lia|]. split; [exact P2|]. intros Hn Hlt. apply P3; auto.
Qed.

Lemma sim_executePredicate l r v u cb s :
  sim k canc_b (polls s) (executePredicate E0 self0 l r v u cb s) (executePredicate Ek selfk l r v u cb s).
Proof using Hself. unfold executePredicate. destruct r; sim_auto. Qed.
Hint Resolve sim_executePredicate : simdb.

Lemma sim_executeBinaryBoolItem op l r v s :
  sim k canc_b (polls s) (executeBinaryBoolItem L E0 self0 op l r v s) (executeBinaryBoolItem L Ek selfk op l r v s).
Proof using Hself. unfold executeBinaryBoolItem. destruct op; sim_auto. Qed.

(* the one place besides the poll where the context is consulted *)
Lemma sim_isunknown_tail (p : presp) (y : presp) s1 :
  sim k canc_b (polls s1)
      (if is_some (p_err p) && ctx_err E0 s1 then Ret (mkp PUnknown (p_err p), s1) else Ret (y, s1))
      (if is_some (p_err p) && ctx_err Ek s1 then Ret (mkp PUnknown (p_err p), s1) else Ret (y, s1)).
Proof using H0.
  rewrite (ctx_err_none E0 s1 H0), andb_false_r. intros a s' H. injection H as <- <-.
  split; [lia|]. split; [|intros; exfalso; lia].
  intros Hle. unfold ctx_err; cbn [with_cancel e_cancel_at].
  replace (k <? polls s1)%nat with false by (symmetry; apply Nat.ltb_ge; exact Hle).
  rewrite andb_false_r. reflexivity.
Qed.

Lemma sim_executeUnaryBoolItem op a v s :
  sim k canc_b (polls s) (executeUnaryBoolItem E0 self0 op a v s) (executeUnaryBoolItem Ek selfk op a v s).
Proof using Hself H0.
  unfold executeUnaryBoolItem. destruct op; try solve [sim_auto].
  eapply sim_bind; [sim_call| |solve [sim_prop]].
  intros p s1 Hle. apply sim_isunknown_tail.
Qed.
Hint Resolve sim_executeBinaryBoolItem sim_executeUnaryBoolItem : simdb.

Lemma sim_executeBoolItem n v c s :
  sim k canc_b (polls s) (executeBoolItem L E0 self0 n v c s) (executeBoolItem L Ek selfk n v c s).
Proof using Hself H0. unfold executeBoolItem. sim_auto. Qed.

Lemma sim_appendBoolResult next found p s :
  sim k canc_i (polls s) (appendBoolResult E0 self0 next found p s) (appendBoolResult Ek selfk next found p s).
Proof using Hself. unfold appendBoolResult. sim_auto. Qed.

Lemma sim_executeNestedBoolItem n v s :
  sim k canc_b (polls s) (executeNestedBoolItem self0 n v s) (executeNestedBoolItem selfk n v s).
Proof using Hself. unfold executeNestedBoolItem. sim_auto. Qed.
Hint Resolve sim_executeBoolItem sim_appendBoolResult sim_executeNestedBoolItem : simdb.

Lemma sim_anyLoop n level first last ignFlag un : forall vs res dirty s,
  sim k (fun x => canc_i (fst x)) (polls s)
      (anyLoop L self0 n vs level first last ignFlag un res dirty s)
      (anyLoop L selfk n vs level first last ignFlag un res dirty s).
Proof using Hself.
  induction vs as [|v rest IH]; intros res dirty s; cbn [anyLoop].
  - sim_auto.
  - eapply (sim_bind k (fun x => canc_i (fst (fst x)) /\ snd x = true)).
    + destruct ignFlag; sim_auto.
    + intros [[r1 d1] st1] s1 Hle. sim_norm. destruct st1; [solve [sim_auto]|].
      eapply (sim_bind k (fun x => canc_i (fst x) /\ snd x = true)).
      * sim_auto.
      * intros [r2 st2] s2 Hle2. sim_auto.
      * sim_prop.
    + sim_prop.
Qed.
Hint Resolve sim_anyLoop : simdb.

Lemma sim_executeAnyItem n vs found level first last ignFlag un s :
  sim k canc_i (polls s) (executeAnyItem L self0 n vs found level first last ignFlag un s)
      (executeAnyItem L selfk n vs found level first last ignFlag un s).
Proof using Hself. unfold executeAnyItem. sim_auto. Qed.

Lemma sim_executeItemUnwrapTargetArray n v found s :
  sim k canc_i (polls s) (executeItemUnwrapTargetArray self0 n v found s) (executeItemUnwrapTargetArray selfk n v found s).
Proof using Hself. unfold executeItemUnwrapTargetArray. sim_auto. Qed.
Hint Resolve sim_executeAnyItem sim_executeItemUnwrapTargetArray : simdb.


Lemma sim_execLiteral next v found s :
  sim k canc_i (polls s) (execLiteral E0 self0 next v found s) (execLiteral Ek selfk next v found s).
Proof using Hself. unfold execLiteral. sim_auto. Qed.

Lemma sim_execVariable name next found s :
  sim k canc_i (polls s) (execVariable E0 self0 name next found s) (execVariable Ek selfk name next found s).
Proof using Hself. unfold execVariable. sim_auto. Qed.

Lemma sim_execKeyNode key n next v found u s :
  sim k canc_i (polls s) (execKeyNode E0 self0 key n next v found u s) (execKeyNode Ek selfk key n next v found u s).
Proof using Hself. unfold execKeyNode. sim_auto. Qed.

Lemma sim_execAnyKey n next v found u s :
  sim k canc_i (polls s) (execAnyKey L E0 self0 n next v found u s) (execAnyKey L Ek selfk n next v found u s).
Proof using Hself. unfold execAnyKey. sim_auto. Qed.

Lemma sim_execAnyArray next v found s :
  sim k canc_i (polls s) (execAnyArray E0 self0 next v found s) (execAnyArray Ek selfk next v found s).
Proof using Hself. unfold execAnyArray. sim_auto. Qed.

Lemma sim_execLastConst next found s :
  sim k canc_i (polls s) (execLastConst E0 self0 next found s) (execLastConst Ek selfk next found s).
Proof using Hself. unfold execLastConst. sim_auto. Qed.
Hint Resolve sim_execLiteral sim_execVariable sim_execKeyNode sim_execAnyKey sim_execAnyArray sim_execLastConst : simdb.

Lemma sim_execConstNode ck n next v found u s :
  sim k canc_i (polls s) (execConstNode L E0 self0 ck n next v found u s) (execConstNode L Ek selfk ck n next v found u s).
Proof using Hself. unfold execConstNode. destruct ck; sim_auto. Qed.

Lemma sim_execAnyNode first last next v found s :
  sim k canc_i (polls s) (execAnyNode L E0 self0 first last next v found s) (execAnyNode L Ek selfk first last next v found s).
Proof using Hself.
  unfold execAnyNode. sim_norm.
  eapply (sim_bind k (fun x => canc_i (fst x) /\ snd x = true)); [sim_auto| |sim_prop].
  intros [r0 stop] s1 Hle. sim_auto.
Qed.

Lemma sim_getArrayIndex n v s :
  sim k (fun x => x = inr ECancel) (polls s) (getArrayIndex L E0 self0 n v s) (getArrayIndex L Ek selfk n v s).
Proof using Hself. unfold getArrayIndex. sim_auto. Qed.
Hint Resolve sim_execConstNode sim_execAnyNode sim_getArrayIndex : simdb.

Lemma sim_execSubscript sub v size s :
  sim k (fun x => x = inr ECancel) (polls s) (execSubscript L E0 self0 sub v size s) (execSubscript L Ek selfk sub v size s).
Proof using Hself. unfold execSubscript. destruct sub as [a [b|]]; sim_auto. Qed.
Hint Resolve sim_execSubscript : simdb.

Lemma sim_indexLoop next : forall els res s,
  sim k (fun x => canc_i (fst x) /\ snd x = true) (polls s)
      (indexLoop E0 self0 next els res s) (indexLoop Ek selfk next els res s).
Proof using Hself. induction els as [|v rest IH]; intros res s; cbn [indexLoop]; sim_auto. Qed.
Hint Resolve sim_indexLoop : simdb.

Lemma sim_subsLoop next v arr size : forall subs res s,
  sim k canc_i (polls s) (subsLoop L E0 self0 subs next v arr size res s) (subsLoop L Ek selfk subs next v arr size res s).
Proof using Hself. induction subs as [|sub rest IH]; intros res s; cbn [subsLoop]; sim_auto. Qed.
Hint Resolve sim_subsLoop : simdb.

Lemma sim_execArrayIndex subs next v found s :
  sim k canc_i (polls s) (execArrayIndex L E0 self0 subs next v found s) (execArrayIndex L Ek selfk subs next v found s).
Proof using Hself. unfold execArrayIndex. sim_auto. Qed.

Lemma sim_unaryLoop minus next : forall seq found res s,
  sim k canc_i (polls s) (unaryLoop L E0 self0 minus next seq found res s) (unaryLoop L Ek selfk minus next seq found res s).
Proof using Hself. induction seq as [|v rest IH]; intros found res s; cbn [unaryLoop]; sim_auto. Qed.
Hint Resolve sim_execArrayIndex sim_unaryLoop : simdb.

Lemma sim_execUnaryMathExpr minus a next v found s :
  sim k canc_i (polls s) (execUnaryMathExpr L E0 self0 minus a next v found s) (execUnaryMathExpr L Ek selfk minus a next v found s).
Proof using Hself. unfold execUnaryMathExpr. sim_auto. Qed.

Lemma sim_execBinaryMathExpr op l r next v found s :
  sim k canc_i (polls s) (execBinaryMathExpr L E0 self0 op l r next v found s) (execBinaryMathExpr L Ek selfk op l r next v found s).
Proof using Hself. unfold execBinaryMathExpr. sim_auto. Qed.

Lemma sim_execLeaf unwraps lf n next v found u s :
  sim k canc_i (polls s) (execLeaf E0 self0 unwraps lf n next v found u s) (execLeaf Ek selfk unwraps lf n next v found u s).
Proof using Hself. unfold execLeaf. sim_auto. Qed.

Lemma sim_kvLoop members id next : forall keys res s,
  sim k canc_i (polls s) (kvLoop E0 self0 keys members id next res s) (kvLoop Ek selfk keys members id next res s).
Proof using Hself. induction keys as [|key rest IH]; intros res s; cbn [kvLoop]; sim_auto. Qed.
Hint Resolve sim_execUnaryMathExpr sim_execBinaryMathExpr sim_execLeaf sim_kvLoop : simdb.

Lemma sim_executeKeyValueMethod n next v found u s :
  sim k canc_i (polls s) (executeKeyValueMethod E0 self0 n next v found u s) (executeKeyValueMethod Ek selfk n next v found u s).
Proof using Hself. unfold executeKeyValueMethod. sim_auto. Qed.
Hint Resolve sim_executeKeyValueMethod : simdb.

Lemma sim_execMethodNode m n next v found u s :
  sim k canc_i (polls s) (execMethodNode L E0 self0 m n next v found u s) (execMethodNode L Ek selfk m n next v found u s).
Proof using Hself. unfold execMethodNode. sim_auto. Qed.

Lemma sim_execBoolNode n next v found s :
  sim k canc_i (polls s) (execBoolNode E0 self0 n next v found s) (execBoolNode Ek selfk n next v found s).
Proof using Hself H0. unfold execBoolNode, appendBoolResult. sim_auto. Qed.
Hint Resolve sim_execMethodNode sim_execBoolNode : simdb.

Lemma sim_execBinaryNode op l r n next v found s :
  sim k canc_i (polls s) (execBinaryNode L E0 self0 op l r n next v found s) (execBinaryNode L Ek selfk op l r n next v found s).
Proof using Hself H0. unfold execBinaryNode. sim_auto. Qed.

Lemma sim_execUnaryNode op a n next v found u s :
  sim k canc_i (polls s) (execUnaryNode L E0 self0 op a n next v found u s) (execUnaryNode L Ek selfk op a n next v found u s).
Proof using Hself H0. unfold execUnaryNode. destruct op; sim_auto. Qed.
Hint Resolve sim_execBinaryNode sim_execUnaryNode : simdb.


(* the poll: the only place where the two runs can part *)
Lemma sim_executeItemOptUnwrapTarget n v found u s :
  sim k canc_i (polls s) (executeItemOptUnwrapTarget L E0 self0 n v found u s)
      (executeItemOptUnwrapTarget L Ek selfk n v found u s).
Proof using Hself H0.
  unfold executeItemOptUnwrapTarget. cbv zeta.
  rewrite (done_now_none E0 s H0). cbv beta iota.
  match goal with |- sim _ _ _ ?o0 (if _ then _ else ?ok) =>
    assert (Hin : sim k canc_i (polls (tick s)) o0 ok) by sim_auto end.
  unfold done_now; cbn [with_cancel e_cancel_at].
  destruct (k <=? polls s)%nat eqn:D.
  - apply Nat.leb_le in D. intros a s' H. destruct (Hin a s' H) as (P1 & _ & _). cbn [polls tick] in P1.
    split; [lia|]. split; [intros; exfalso; lia|]. intros Hn _.
    do 2 eexists. split; [reflexivity|]. cbn [polls tick]. split; [lia|]. split; reflexivity.
  - apply Nat.leb_gt in D. eapply sim_weaken; [| |exact Hin]; cbn [polls tick]; lia.
Qed.
Hint Resolve sim_executeItemOptUnwrapTarget : simdb.

Lemma sim_body r s : sim k (canc_req r) (polls s) (body L E0 self0 r s) (body L Ek selfk r s).
Proof using Hself H0.
  destruct r; cbn [body];
    (eapply sim_bind;
     [ sim_call
     | intros x s1 Hle; apply sim_ret; reflexivity
     | intros ak sk1 HC Hp; do 2 eexists; split; [reflexivity|split; [exact Hp|exact HC]] ]).
Qed.

End Prefix.

Theorem sim_run L E0 k : e_cancel_at E0 = None ->
  forall fuel r s, sim k (canc_req r) (polls s) (run L E0 fuel r s) (run L (with_cancel E0 k) fuel r s).
Proof.
  intros H0. induction fuel as [|f IH]; intros r s.
  - apply sim_oof.
  - rewrite !run_S. apply sim_body; assumption.
Qed.
Print Assumptions sim_run.
