(* DescendProofs.v — C15: the wildcard accessors and the recursive descent.

   ".* returns every member value of an object exactly once, [*] every element
    of an array in order, and .**{a to b} every node whose depth below the
    current item lies in a..b (depth 0 is the item itself; last as upper bound
    means unbounded, and .**{last} selects the scalar leaves below the item) in
    document pre-order, each exactly once; .** equals .**{0 to last} and .**{k}
    equals k applications of 'any child'.  In strict mode, member accessors
    following .** skip the nodes they do not apply to instead of failing."

   The independent specification is [nodes_at_depth]: all nodes of the value in
   document pre-order paired with their depth ([all_nodes], plain structural
   recursion, no continuation), filtered by the depth range.  Positions (paths
   of child indices) make "each exactly once" and "pre-order" precise.
   Stdlib only, no axioms. *)
From Coq Require Import Floats.SpecFloat Sorting.Sorted.
From SJ Require Import lib.Base model.Json model.Ast model.ExecLib model.Leaf spec.Sem proofs.SemBasics.
From SJ Require model.Parser.

(* ------------------------------------------------------------------ *)
(* list helpers *)

Lemma flat_map_nil_all {A B} (f : A -> list B) l : (forall x, In x l -> f x = []) -> flat_map f l = [].
Proof.
  induction l as [|x r IH]; intros H; [reflexivity|]. simpl.
  rewrite H by now left. apply IH. intros; apply H; now right.
Qed.

Lemma flat_map_ext_in' {A B} (f g : A -> list B) l : (forall x, In x l -> f x = g x) -> flat_map f l = flat_map g l.
Proof.
  induction l as [|x r IH]; intros H; [reflexivity|]. simpl.
  rewrite H by now left. f_equal. apply IH. intros; apply H; now right.
Qed.

Lemma flat_map_single {A} (l : list A) : flat_map (fun c => [c]) l = l.
Proof. induction l as [|x r IH]; [reflexivity|]. simpl. now rewrite IH. Qed.

Lemma flat_map_flat_map {A B D} (f : A -> list B) (g : B -> list D) l :
  flat_map g (flat_map f l) = flat_map (fun x => flat_map g (f x)) l.
Proof.
  induction l as [|x r IH]; [reflexivity|]. simpl. now rewrite flat_map_app, IH.
Qed.

Lemma map_filter_flat_map {A B D} (g : B -> D) (p : B -> bool) (f : A -> list B) l :
  map g (filter p (flat_map f l)) = flat_map (fun x => map g (filter p (f x))) l.
Proof.
  induction l as [|x r IH]; [reflexivity|]. simpl. now rewrite filter_app, map_app, IH.
Qed.

Lemma flat_map_map_l {A B D} (f : A -> B) (g : B -> list D) l :
  flat_map g (map f l) = flat_map (fun x => g (f x)) l.
Proof. induction l as [|x r IH]; [reflexivity|]. simpl. now rewrite IH. Qed.

Lemma tbind_flat_map {A} (f : A -> list json) l k :
  tbind_list (flat_map f l) k =
  (fix go (l : list A) : trace := match l with [] => tnil | x :: r => tapp (tbind_list (f x) k) (go r) end) l.
Proof. induction l as [|x r IH]; [reflexivity|]. simpl. now rewrite tbind_app, IH. Qed.

Lemma tbind_flat_map_json (f : json -> list json) l k :
  tbind_list (flat_map f l) k = tbind_list l (fun x => tbind_list (f x) k).
Proof. induction l as [|x r IH]; [reflexivity|]. simpl. now rewrite tbind_app, IH. Qed.

(* ------------------------------------------------------------------ *)
(* the specification *)

(* every node of v, in document pre-order (a node before its children; the
   children in the order of [children]: elements of an array, member values of
   an object in member order), paired with its depth, the root being at depth d *)
Fixpoint all_nodes (d : Z) (v : json) : list (Z * json) :=
  (d, v) :: match v with
            | JArr _ l => flat_map (all_nodes (d + 1)) l
            | JObj _ l => flat_map (fun kv => all_nodes (d + 1) (snd kv)) l
            | _ => []
            end.

Lemma all_nodes_eq d v : all_nodes d v = (d, v) :: flat_map (all_nodes (d + 1)) (children v).
Proof.
  destruct v; try reflexivity. simpl. f_equal. now rewrite flat_map_map_l.
Qed.

Definition in_range (a b d : Z) : bool := (a <=? d) && (d <=? b).

Definition sel_gen (p : Z -> json -> bool) (d : Z) (v : json) : list json :=
  map snd (filter (fun x => p (fst x) (snd x)) (all_nodes d v)).

Definition nodes_from (a b d : Z) (v : json) : list json := sel_gen (fun d' _ => in_range a b d') d v.

(* THE SPEC of .**{a to b} *)
Definition nodes_at_depth (a b : Z) (v : json) : list json := nodes_from a b 0 v.

(* THE SPEC of .**{last}: the non-collection nodes strictly below the item *)
Definition leaves_below (v : json) : list json :=
  filter (fun x => negb (isCollection x)) (nodes_at_depth 1 max_uint32 v).

(* k applications of "any child" *)
Fixpoint kfold (n : nat) (v : json) : list json :=
  match n with O => [v] | S m => flat_map (kfold m) (children v) end.

(* induction over [children] *)
Lemma json_children_ind (P : json -> Prop) :
  (forall v, Forall P (children v) -> P v) -> forall v, P v.
Proof.
  intros H. induction v using json_ind'; apply H; simpl; try constructor; try assumption.
  apply Forall_map. assumption.
Qed.

Lemma sel_gen_eq p d v :
  sel_gen p d v = (if p d v then [v] else []) ++ flat_map (sel_gen p (d + 1)) (children v).
Proof.
  unfold sel_gen. rewrite all_nodes_eq. cbn [filter fst snd].
  destruct (p d v); cbn [map snd app]; rewrite map_filter_flat_map; reflexivity.
Qed.

Lemma nodes_from_eq a b d v :
  nodes_from a b d v = (if in_range a b d then [v] else []) ++ flat_map (nodes_from a b (d + 1)) (children v).
Proof. apply (sel_gen_eq (fun d' _ => in_range a b d')). Qed.

Lemma sel_gen_ext p q d v :
  (forall d' x, In (d', x) (all_nodes d v) -> p d' x = q d' x) -> sel_gen p d v = sel_gen q d v.
Proof.
  intros H. unfold sel_gen. f_equal. apply filter_ext_in. intros [d' x] Hin. simpl. now apply H.
Qed.

Lemma json_depth_child v c : In c (children v) -> (json_depth c < json_depth v)%nat.
Proof.
  destruct v; simpl; try contradiction.
  - induction l as [|x r IH]; simpl; [contradiction|]. intros [->|H]; [lia|]. specialize (IH H). lia.
  - induction l as [|x r IH]; simpl; [contradiction|]. intros [<-|H]; [lia|]. specialize (IH H). lia.
Qed.

Lemma all_nodes_depth v : forall d d' x,
  In (d', x) (all_nodes d v) -> d <= d' <= d + Z.of_nat (json_depth v).
Proof.
  induction v as [v IH] using json_children_ind. intros d d' x. rewrite all_nodes_eq.
  intros [H|H].
  - injection H as <- <-. lia.
  - apply in_flat_map in H. destruct H as [c [Hc Hin]].
    rewrite Forall_forall in IH. specialize (IH c Hc _ _ _ Hin).
    pose proof (json_depth_child v c Hc). lia.
Qed.

Lemma sel_gen_none p d v :
  (forall d' x, In (d', x) (all_nodes d v) -> p d' x = false) -> sel_gen p d v = [].
Proof.
  intros H. unfold sel_gen.
  replace (filter (fun x => p (fst x) (snd x)) (all_nodes d v)) with (@nil (Z * json)); [reflexivity|].
  symmetry. induction (all_nodes d v) as [|[d' x] r IH]; [reflexivity|].
  simpl. rewrite H by now left. apply IH. intros; apply H; now right.
Qed.

Lemma nodes_from_above a b d v : b < d -> nodes_from a b d v = [].
Proof.
  intros Hd. apply sel_gen_none. intros d' x Hin.
  apply all_nodes_depth in Hin. unfold in_range.
  apply andb_false_iff; right. apply Z.leb_gt. lia.
Qed.

(* ------------------------------------------------------------------ *)
(* desc_v against the specification *)

Definition keep (a b d : Z) (v : json) : bool :=
  (d >=? a) || ((a =? max_uint32) && (b =? max_uint32) && negb (isCollection v)).

(* what desc_v selects, as a list (the recursion of desc_v with the
   continuation removed; only an intermediate of the proof) *)
Fixpoint desc_sel (a b d : Z) (v : json) : list json :=
  (if keep a b d v then [v] else []) ++
  (if d <? b then
     match v with
     | JArr _ l => flat_map (desc_sel a b (d + 1)) l
     | JObj _ l => flat_map (fun kv => desc_sel a b (d + 1) (snd kv)) l
     | _ => []
     end
   else []).

Lemma desc_v_sel k a b v : forall d, desc_v k a b d v = tbind_list (desc_sel a b d v) k.
Proof.
  induction v as [| | | |t l IH|t l IH|dt] using json_ind'; intros lv; cbn [desc_v desc_sel];
    rewrite tbind_app; (f_equal;
      [unfold keep; match goal with |- (if ?c then _ else _) = _ => destruct c end;
       [now rewrite tbind_single | reflexivity] |]);
    try (destruct (lv <? b); reflexivity).
  - destruct (lv <? b); [|reflexivity].
    induction IH as [|x r Hx _ IHr]; [reflexivity|].
    cbn [flat_map]. rewrite tbind_app, <- IHr, Hx. reflexivity.
  - destruct (lv <? b); [|reflexivity].
    induction IH as [|x r Hx _ IHr]; [reflexivity|].
    cbn [flat_map]. rewrite tbind_app, <- IHr, Hx. reflexivity.
Qed.

Lemma desc_sel_eq a b d v :
  desc_sel a b d v = (if keep a b d v then [v] else []) ++
                     (if d <? b then flat_map (desc_sel a b (d + 1)) (children v) else []).
Proof.
  destruct v; cbn [desc_sel children]; try reflexivity.
  destruct (d <? b); [|reflexivity]. rewrite flat_map_map_l. reflexivity.
Qed.

Lemma desc_sel_gen a b v : forall d,
  d <= b -> desc_sel a b d v = sel_gen (fun d' x => keep a b d' x && (d' <=? b)) d v.
Proof.
  induction v as [v IH] using json_children_ind. intros d Hd.
  rewrite desc_sel_eq, sel_gen_eq. rewrite Forall_forall in IH.
  replace (d <=? b) with true by (symmetry; apply Z.leb_le; lia). rewrite andb_true_r. f_equal.
  destruct (d <? b) eqn:E.
  - apply Z.ltb_lt in E. apply flat_map_ext_in'. intros c Hc. apply IH; [exact Hc | lia].
  - apply Z.ltb_ge in E. symmetry. apply flat_map_nil_all. intros c Hc.
    apply sel_gen_none. intros d' x Hin. apply all_nodes_depth in Hin.
    apply andb_false_iff; right. apply Z.leb_gt. lia.
Qed.

Lemma descend_sel k a b cs :
  descend k cs 1 a b = tbind_list (flat_map (sel_gen (fun d' x => keep a b d' x && (d' <=? b)) 1) cs) k.
Proof.
  unfold descend. destruct (1 >? b) eqn:E.
  - rewrite flat_map_nil_all; [reflexivity|]. intros c _.
    apply sel_gen_none. intros d' x Hin. apply all_nodes_depth in Hin.
    apply andb_false_iff; right. apply Z.leb_gt. apply Z.gtb_lt in E. lia.
  - rewrite tbind_flat_map_json. apply tbind_ext_all. intros c.
    rewrite desc_v_sel, desc_sel_gen; [reflexivity|].
    rewrite Z.gtb_ltb in E. apply Z.ltb_ge in E. exact E.
Qed.

Lemma last_filter (r : list (Z * json)) :
  (forall d x, In (d, x) r -> 1 <= d < max_uint32) ->
  map snd (filter (fun x => keep max_uint32 max_uint32 (fst x) (snd x) && (fst x <=? max_uint32)) r) =
  filter (fun x => negb (isCollection x)) (map snd (filter (fun x => in_range 1 max_uint32 (fst x)) r)).
Proof.
  induction r as [|[d' x] r IH]; intros Hall; [reflexivity|].
  assert (Hd : 1 <= d' < max_uint32) by (apply (Hall d' x); now left).
  specialize (IH (fun d'' y H => Hall d'' y (or_intror H))).
  cbn [filter map fst snd]. unfold keep at 1, in_range at 1.
  replace (d' >=? max_uint32) with false by (symmetry; rewrite Z.geb_leb; apply Z.leb_gt; lia).
  replace (d' <=? max_uint32) with true by (symmetry; apply Z.leb_le; lia).
  replace (1 <=? d') with true by (symmetry; apply Z.leb_le; lia).
  rewrite !Z.eqb_refl. cbn [andb orb]. rewrite andb_true_r.
  cbn [map filter snd].
  destruct (isCollection x); cbn [negb map filter snd]; rewrite IH; reflexivity.
Qed.

Section Any.
Variable L : ExecLib.
Variable C : cenv.
Variable Q : quirks.
Notation sem_step := (sem_step L C Q).
Notation sem_chain := (sem_chain L C Q).

Lemma children_noncoll v : isCollection v = false -> children v = [].
Proof. destruct v; simpl; intros H; try reflexivity; discriminate. Qed.

(* the general form: whatever the bounds, .** hands the selected nodes to the
   continuation in order, with structural errors ignored from then on *)
Lemma any_bind_gen a b k cur l ig u v :
  sem_step (SAny a b) k cur l ig u v =
  tbind_list ((if a =? 0 then [v] else []) ++
              flat_map (sel_gen (fun d' x => keep a b d' x && (d' <=? b)) 1) (children v))
             (k l true).
Proof.
  rewrite sem_step_any, tbind_app. f_equal.
  - destruct (a =? 0); [now rewrite tbind_single | reflexivity].
  - destruct (isCollection v) eqn:E.
    + apply descend_sel.
    + rewrite (children_noncoll v E). reflexivity.
Qed.

(* .**{a to b}, with an arbitrary continuation *)
Theorem any_bind a b k cur l ig u v :
  0 <= a -> 0 <= b -> ~ (a = max_uint32 /\ b = max_uint32) ->
  sem_step (SAny a b) k cur l ig u v = tbind_list (nodes_at_depth a b v) (k l true).
Proof.
  intros Ha Hb Hnl. rewrite any_bind_gen. f_equal.
  unfold nodes_at_depth. rewrite nodes_from_eq. f_equal.
  - unfold in_range. replace (0 <=? b) with true by (symmetry; apply Z.leb_le; lia).
    rewrite andb_true_r. destruct (Z.eqb_spec a 0) as [->|Hn]; [reflexivity|].
    replace (a <=? 0) with false by (symmetry; apply Z.leb_gt; lia). reflexivity.
  - apply flat_map_ext. intros c. apply sel_gen_ext. intros d' x _. unfold keep, in_range.
    replace ((a =? max_uint32) && (b =? max_uint32)) with false.
    + cbn [andb]. rewrite orb_false_r. now rewrite Z.geb_leb.
    + symmetry. apply andb_false_iff.
      destruct (Z.eqb_spec a max_uint32), (Z.eqb_spec b max_uint32); tauto.
Qed.

(* with the identity continuation: the items are exactly the specified nodes, and no failure *)
Theorem any_is_nodes a b cur l ig u v :
  0 <= a -> 0 <= b -> ~ (a = max_uint32 /\ b = max_uint32) ->
  sem_step (SAny a b) (fun _ _ x => tone x) cur l ig u v = (nodes_at_depth a b v, None).
Proof. intros. rewrite any_bind by assumption. apply tbind_tone. Qed.

Corollary any_is_nodes_fst a b cur l ig u v :
  0 <= a -> 0 <= b -> ~ (a = max_uint32 /\ b = max_uint32) ->
  fst (sem_step (SAny a b) (fun _ _ x => tone x) cur l ig u v) = nodes_at_depth a b v /\
  snd (sem_step (SAny a b) (fun _ _ x => tone x) cur l ig u v) = None.
Proof. intros. now rewrite any_is_nodes. Qed.

(* .**{last}: the scalar leaves strictly below the item.  The level counter of
   the implementation is a uint32; the statement needs documents less than 2^32-1 deep. *)
Theorem any_last_bind k cur l ig u v :
  Z.of_nat (json_depth v) < max_uint32 ->
  sem_step (SAny max_uint32 max_uint32) k cur l ig u v = tbind_list (leaves_below v) (k l true).
Proof.
  intros Hdepth. rewrite any_bind_gen. f_equal. cbn [Z.eqb max_uint32 app].
  unfold leaves_below, nodes_at_depth. rewrite nodes_from_eq. cbn [in_range Z.leb Z.compare andb app].
  unfold nodes_from, sel_gen.
  rewrite <- (map_filter_flat_map snd (fun x => in_range 1 max_uint32 (fst x)) (all_nodes (0 + 1)) (children v)).
  rewrite <- (map_filter_flat_map snd (fun x => keep max_uint32 max_uint32 (fst x) (snd x) && (fst x <=? max_uint32))
                (all_nodes 1) (children v)).
  change (0 + 1) with 1. apply last_filter.
  intros d' x Hin. apply in_flat_map in Hin. destruct Hin as [c [Hc Hin]].
  apply all_nodes_depth in Hin. pose proof (json_depth_child v c Hc). lia.
Qed.

Theorem any_last_is_leaves cur l ig u v :
  Z.of_nat (json_depth v) < max_uint32 ->
  sem_step (SAny max_uint32 max_uint32) (fun _ _ x => tone x) cur l ig u v = (leaves_below v, None).
Proof. intros. rewrite any_last_bind by assumption. apply tbind_tone. Qed.

(* chains: the steps after .** run on each selected node with ig = true *)
Theorem any_chain a b rest cur l ig u v :
  0 <= a -> 0 <= b -> ~ (a = max_uint32 /\ b = max_uint32) ->
  sem_chain (SAny a b :: rest) cur l ig u v =
  tbind_list (nodes_at_depth a b v) (fun x => sem_chain rest cur l true (laxm C) x).
Proof. intros. rewrite sem_chain_cons. now apply any_bind. Qed.

(* ---------- .* and [*] ---------- *)

Theorem anykey_object k cur l ig u t m :
  sem_step (SConst CAnyKey) k cur l ig u (JObj t m) = tbind_list (map snd m) (k l ig).
Proof. rewrite sem_step_anykey. reflexivity. Qed.

Theorem anykey_object_items cur l ig u t m :
  sem_step (SConst CAnyKey) (fun _ _ x => tone x) cur l ig u (JObj t m) = (map snd m, None).
Proof. rewrite anykey_object. apply tbind_tone. Qed.

Theorem anyarray_array k cur l ig u t es :
  sem_step (SConst CAnyArray) k cur l ig u (JArr t es) = tbind_list es (k l ig).
Proof. rewrite sem_step_anyarray. reflexivity. Qed.

Theorem anyarray_array_items cur l ig u t es :
  sem_step (SConst CAnyArray) (fun _ _ x => tone x) cur l ig u (JArr t es) = (es, None).
Proof. rewrite anyarray_array. apply tbind_tone. Qed.

(* both are "any child" on the matching kind of collection *)
Corollary anykey_children cur l ig u t m :
  fst (sem_step (SConst CAnyKey) (fun _ _ x => tone x) cur l ig u (JObj t m)) = kfold 1 (JObj t m).
Proof. rewrite anykey_object_items. cbn [fst kfold children]. now rewrite flat_map_single. Qed.

Corollary anyarray_children cur l ig u t es :
  fst (sem_step (SConst CAnyArray) (fun _ _ x => tone x) cur l ig u (JArr t es)) = kfold 1 (JArr t es).
Proof.
  rewrite anyarray_array_items. cbn [fst kfold children]. now rewrite flat_map_single.
Qed.

(* ---------- strict mode: member accessors after .** skip ---------- *)

Definition is_object (v : json) : bool := match v with JObj _ _ => true | _ => false end.

(* with ig = true a member accessor contributes nothing on a node it does not apply to *)
Lemma key_skips key k cur l x :
  is_object x = false -> sem_step (SKey key) k cur l true false x = tnil.
Proof. rewrite sem_step_key. destruct x; simpl; intros H; try reflexivity; discriminate. Qed.

Lemma key_skips_missing key k cur l t m :
  lookup key m = None -> sem_step (SKey key) k cur l true false (JObj t m) = tnil.
Proof. rewrite sem_step_key. simpl. intros ->. reflexivity. Qed.

Lemma anykey_skips k cur l x :
  is_object x = false -> sem_step (SConst CAnyKey) k cur l true false x = tnil.
Proof. rewrite sem_step_anykey. destruct x; simpl; intros H; try reflexivity; discriminate. Qed.

Lemma anyarray_skips k cur l x :
  c_lax C = false -> is_array x = false -> sem_step (SConst CAnyArray) k cur l true false x = tnil.
Proof.
  intros Hs. rewrite sem_step_anyarray. unfold laxm. rewrite Hs.
  destruct x; simpl; intros H; try reflexivity; discriminate.
Qed.

(* ... whereas without .** in front (ig = false) the same accessor fails *)
Lemma key_fails_strict key k cur l x :
  is_object x = false -> is_array x = false ->
  sem_step (SKey key) k cur l false false x =
  tfail (EVerbose "jsonpath member accessor can only be applied to an object").
Proof. rewrite sem_step_key. destruct x; simpl; intros H H'; try reflexivity; discriminate. Qed.

(* the values of member [key] among a list of nodes *)
Definition members_named (key : string) (xs : list json) : list json :=
  flat_map (fun x => match x with
                     | JObj _ m => match lookup key m with Some y => [y] | None => [] end
                     | _ => []
                     end) xs.

Theorem any_then_key_strict a b key cur l ig u v :
  c_lax C = false ->
  0 <= a -> 0 <= b -> ~ (a = max_uint32 /\ b = max_uint32) ->
  sem_chain [SAny a b; SKey key] cur l ig u v = (members_named key (nodes_at_depth a b v), None).
Proof.
  intros Hs Ha Hb Hn. rewrite any_chain by assumption. unfold laxm. rewrite Hs.
  unfold members_named. induction (nodes_at_depth a b v) as [|x r IH]; [reflexivity|].
  cbn [tbind_list flat_map]. rewrite IH, sem_chain_cons, sem_step_key.
  destruct x; cbn [unwrap_over key_one structural]; try reflexivity.
  destruct (lookup key l0); reflexivity.
Qed.

Theorem any_then_anykey_strict a b cur l ig u v :
  c_lax C = false ->
  0 <= a -> 0 <= b -> ~ (a = max_uint32 /\ b = max_uint32) ->
  sem_chain [SAny a b; SConst CAnyKey] cur l ig u v =
  (flat_map (fun x => match x with JObj _ m => map snd m | _ => [] end) (nodes_at_depth a b v), None).
Proof.
  intros Hs Ha Hb Hn. rewrite any_chain by assumption. unfold laxm. rewrite Hs.
  induction (nodes_at_depth a b v) as [|x r IH]; [reflexivity|].
  cbn [tbind_list flat_map]. rewrite IH, sem_chain_cons, sem_step_anykey.
  destruct x; cbn [unwrap_over anykey_one structural]; try reflexivity.
  match goal with |- context [tbind_list (map snd l0) ?f] =>
    change (tbind_list (map snd l0) f) with (tbind_list (map snd l0) tone) end.
  rewrite tbind_tone. reflexivity.
Qed.

Theorem any_then_anyarray_strict a b cur l ig u v :
  c_lax C = false ->
  0 <= a -> 0 <= b -> ~ (a = max_uint32 /\ b = max_uint32) ->
  sem_chain [SAny a b; SConst CAnyArray] cur l ig u v =
  (flat_map (fun x => match x with JArr _ es => es | _ => [] end) (nodes_at_depth a b v), None).
Proof.
  intros Hs Ha Hb Hn. rewrite any_chain by assumption. unfold laxm. rewrite Hs.
  induction (nodes_at_depth a b v) as [|x r IH]; [reflexivity|].
  cbn [tbind_list flat_map]. rewrite IH, sem_chain_cons, sem_step_anyarray. unfold laxm. rewrite Hs.
  destruct x; cbn [structural]; try reflexivity.
  match goal with |- context [tbind_list l0 ?f] =>
    change (tbind_list l0 f) with (tbind_list l0 tone) end.
  rewrite tbind_tone. reflexivity.
Qed.

End Any.

(* ------------------------------------------------------------------ *)
(* .** is .**{0 to last}; what the parser produces *)

Lemma parser_any_plain (G : GoLib.GoLib) ts :
  match ts with Lexer.mktok (Lexer.TChar 123) _ :: _ => False | _ => True end ->
  Parser.p_any G ts = Parser.ROk (SAny 0 max_uint32, ts).
Proof.
  destruct ts as [|[[] txt] r]; intros H; try reflexivity.
  unfold Parser.p_any. destruct (c =? 123)%Z eqn:E.
  - apply Z.eqb_eq in E. subst c. now elim H.
  - destruct c as [|p|p]; try reflexivity.
    do 7 (destruct p as [p|p|]; try reflexivity). now elim H.
Qed.

Lemma parser_any_bounds a b :
  Parser.new_any a b = SAny (Parser.any_bound a) (Parser.any_bound b) /\
  Parser.new_any 0 (-1) = SAny 0 max_uint32 /\
  Parser.new_any (-1) (-1) = SAny max_uint32 max_uint32 /\
  (0 <= a < max_uint32 -> Parser.new_any a a = SAny a a).
Proof.
  repeat split. intros H. unfold Parser.new_any, Parser.any_bound.
  replace (0 <=? a) with true by (symmetry; apply Z.leb_le; lia).
  replace (a <? max_uint32) with true by (symmetry; apply Z.ltb_lt; lia). reflexivity.
Qed.

(* "last as upper bound means unbounded" *)
Theorem nodes_unbounded a v :
  Z.of_nat (json_depth v) <= max_uint32 ->
  nodes_at_depth a max_uint32 v = sel_gen (fun d _ => a <=? d) 0 v.
Proof.
  intros H. apply sel_gen_ext. intros d' x Hin. apply all_nodes_depth in Hin.
  unfold in_range. replace (d' <=? max_uint32) with true by (symmetry; apply Z.leb_le; lia).
  apply andb_true_r.
Qed.

(* .** returns every node, the item itself first *)
Theorem nodes_all v :
  Z.of_nat (json_depth v) <= max_uint32 ->
  nodes_at_depth 0 max_uint32 v = map snd (all_nodes 0 v).
Proof.
  intros H. rewrite nodes_unbounded by exact H. unfold sel_gen. f_equal.
  assert (Hall : forall x, In x (all_nodes 0 v) -> 0 <= fst x).
  { intros [d' x] Hin. apply all_nodes_depth in Hin. simpl. lia. }
  induction (all_nodes 0 v) as [|x r IH]; [reflexivity|].
  simpl. replace (0 <=? fst x) with true by (symmetry; apply Z.leb_le; apply Hall; now left).
  f_equal. apply IH. intros; apply Hall; now right.
Qed.

(* .**{k} is k applications of "any child" *)
Lemma nodes_from_exact n : forall d v, nodes_from (d + Z.of_nat n) (d + Z.of_nat n) d v = kfold n v.
Proof.
  induction n as [|n IH]; intros d v; rewrite nodes_from_eq.
  - rewrite Z.add_0_r. unfold in_range. rewrite Z.leb_refl. cbn [andb kfold app]. f_equal.
    apply flat_map_nil_all. intros c _. apply nodes_from_above. lia.
  - unfold in_range. replace (d + Z.of_nat (S n) <=? d) with false by (symmetry; apply Z.leb_gt; lia).
    cbn [andb app kfold]. apply flat_map_ext. intros c.
    replace (d + Z.of_nat (S n)) with (d + 1 + Z.of_nat n) by lia. apply IH.
Qed.

Theorem any_exact_kfold n v : nodes_at_depth (Z.of_nat n) (Z.of_nat n) v = kfold n v.
Proof. exact (nodes_from_exact n 0 v). Qed.

Lemma kfold_snoc n : forall v, kfold (S n) v = flat_map children (kfold n v).
Proof.
  induction n as [|n IH]; intros v.
  - simpl. rewrite app_nil_r. induction (children v) as [|c r IHr]; [reflexivity|]. simpl. now rewrite IHr.
  - change (kfold (S (S n)) v) with (flat_map (kfold (S n)) (children v)).
    change (kfold (S n) v) with (flat_map (kfold n) (children v)).
    rewrite flat_map_flat_map. apply flat_map_ext. intros c. apply IH.
Qed.

(* ------------------------------------------------------------------ *)
(* positions: each node exactly once, in document pre-order *)

Definition pos := list nat.

Fixpoint node_at (p : pos) (v : json) : option json :=
  match p with
  | [] => Some v
  | i :: r => match nth_error (children v) i with Some c => node_at r c | None => None end
  end.

Definition get (p : pos) (v : json) : json :=
  match node_at p v with Some x => x | None => JNull end.

(* the position lists of consecutive children, numbered from i *)
Fixpoint number_from (i : nat) (pss : list (list pos)) : list pos :=
  match pss with [] => [] | ps :: r => map (cons i) ps ++ number_from (S i) r end.

Fixpoint all_pos (v : json) : list pos :=
  [] :: match v with
        | JArr _ l => (fix go (i : nat) (l : list json) : list pos :=
                         match l with [] => [] | x :: r => map (cons i) (all_pos x) ++ go (S i) r end) O l
        | JObj _ l => (fix go (i : nat) (l : list (string * json)) : list pos :=
                         match l with [] => [] | x :: r => map (cons i) (all_pos (snd x)) ++ go (S i) r end) O l
        | _ => []
        end.

Lemma all_pos_eq v : all_pos v = [] :: number_from 0 (map all_pos (children v)).
Proof.
  destruct v; try reflexivity; cbn [all_pos children]; f_equal.
  - generalize O. induction l as [|x r IH]; intros i; [reflexivity|]. cbn [map number_from]. now rewrite IH.
  - generalize O. induction l as [|x r IH]; intros i; [reflexivity|]. cbn [map number_from]. now rewrite IH.
Qed.

Lemma in_number_from pss : forall i p,
  In p (number_from i pss) <->
  exists j q ps, p = (i + j)%nat :: q /\ nth_error pss j = Some ps /\ In q ps.
Proof.
  induction pss as [|ps r IH]; intros i p; cbn [number_from].
  - split; [intros [] | intros [j [q [ps [_ [H _]]]]]; destruct j; discriminate].
  - rewrite in_app_iff, in_map_iff, IH. split.
    + intros [[q [<- Hq]] | [j [q [ps' [-> [Hn Hq]]]]]].
      * exists O, q, ps. rewrite Nat.add_0_r. auto.
      * exists (S j), q, ps'. rewrite Nat.add_succ_r. auto.
    + intros [[|j] [q [ps' [-> [Hn Hq]]]]].
      * left. injection Hn as <-. exists q. rewrite Nat.add_0_r. auto.
      * right. exists j, q, ps'. rewrite Nat.add_succ_r. auto.
Qed.

(* completeness and soundness: the enumerated positions are exactly the valid ones *)
Theorem all_pos_complete p : forall v, In p (all_pos v) <-> node_at p v <> None.
Proof.
  induction p as [|i q IH]; intros v; rewrite all_pos_eq.
  - split; [intros _; discriminate | intros _; now left].
  - cbn [node_at In]. rewrite in_number_from. split.
    + intros [H|[j [q' [ps [E [Hn Hq]]]]]]; [discriminate|].
      injection E as -> ->. rewrite nth_error_map in Hn.
      destruct (nth_error (children v) j) as [c|]; [|discriminate].
      injection Hn as <-. now apply IH.
    + intros H. right. destruct (nth_error (children v) i) as [c|] eqn:E; [|now elim H].
      exists i, q, (all_pos c). split; [reflexivity|]. split; [|now apply IH].
      rewrite nth_error_map, E. reflexivity.
Qed.

(* document pre-order: a node before its descendants, earlier siblings first *)
Inductive lex_lt : pos -> pos -> Prop :=
| lex_nil i q : lex_lt [] (i :: q)
| lex_head i j p q : (i < j)%nat -> lex_lt (i :: p) (j :: q)
| lex_tail i p q : lex_lt p q -> lex_lt (i :: p) (i :: q).

Lemma lex_lt_irrefl p : ~ lex_lt p p.
Proof. induction p as [|i p IH]; intros H; inversion H; subst; [lia | auto]. Qed.

Lemma ssorted_app {A} (R : A -> A -> Prop) l1 l2 :
  StronglySorted R l1 -> StronglySorted R l2 ->
  (forall x y, In x l1 -> In y l2 -> R x y) -> StronglySorted R (l1 ++ l2).
Proof.
  induction 1 as [|x r Hr IH Hx]; intros H2 H; [exact H2|].
  simpl. constructor.
  - apply IH; [exact H2 | intros; apply H; [now right | assumption]].
  - apply Forall_app. split; [exact Hx|]. apply Forall_forall. intros y Hy. apply H; [now left | exact Hy].
Qed.

Lemma ssorted_map_cons i ps : StronglySorted lex_lt ps -> StronglySorted lex_lt (map (cons i) ps).
Proof.
  induction 1 as [|p r Hr IH Hp]; simpl; constructor; [exact IH|].
  apply Forall_map. eapply Forall_impl; [|exact Hp]. intros q Hq. now constructor.
Qed.

Lemma number_from_sorted pss : forall i,
  Forall (StronglySorted lex_lt) pss -> StronglySorted lex_lt (number_from i pss).
Proof.
  induction pss as [|ps r IH]; intros i H; cbn [number_from]; [constructor|].
  inversion H as [|? ? Hps Hr]; subst. apply ssorted_app.
  - now apply ssorted_map_cons.
  - now apply IH.
  - intros x y Hx Hy. apply in_map_iff in Hx. destruct Hx as [q [<- _]].
    apply in_number_from in Hy. destruct Hy as [j [q' [ps' [-> _]]]]. apply lex_head. lia.
Qed.

Theorem all_pos_sorted v : StronglySorted lex_lt (all_pos v).
Proof.
  induction v as [v IH] using json_children_ind. rewrite all_pos_eq. constructor.
  - apply number_from_sorted. apply Forall_map. exact IH.
  - apply Forall_forall. intros p Hp. apply in_number_from in Hp.
    destruct Hp as [j [q [ps [-> _]]]]. constructor.
Qed.

Lemma ssorted_nodup {A} (R : A -> A -> Prop) l :
  (forall x, ~ R x x) -> StronglySorted R l -> NoDup l.
Proof.
  intros Hir. induction 1 as [|x r Hr IH Hx]; constructor; [|exact IH].
  intros Hin. rewrite Forall_forall in Hx. exact (Hir x (Hx x Hin)).
Qed.

Theorem all_pos_nodup v : NoDup (all_pos v).
Proof. apply (ssorted_nodup lex_lt); [exact lex_lt_irrefl | apply all_pos_sorted]. Qed.

(* the node list is the image of the position list *)
Lemma nth_error_app_len {A} (pre : list A) c r : nth_error (pre ++ c :: r) (List.length pre) = Some c.
Proof. rewrite nth_error_app2 by lia. now rewrite Nat.sub_diag. Qed.

Theorem all_nodes_pos v : forall d,
  all_nodes d v = map (fun p => (d + Z.of_nat (List.length p), get p v)) (all_pos v).
Proof.
  induction v as [v IH] using json_children_ind. intros d.
  rewrite all_nodes_eq, all_pos_eq. cbn [map List.length]. f_equal.
  - unfold get; simpl. now rewrite Z.add_0_r.
  - assert (G : forall cs pre, children v = pre ++ cs ->
               flat_map (all_nodes (d + 1)) cs =
               map (fun p => (d + Z.of_nat (List.length p), get p v))
                   (number_from (List.length pre) (map all_pos cs))).
    { induction cs as [|c r IHr]; intros pre E; [reflexivity|].
      cbn [flat_map map number_from]. rewrite map_app. f_equal.
      - rewrite Forall_forall in IH. rewrite IH by (rewrite E; apply in_or_app; right; now left).
        rewrite map_map. apply map_ext. intros p. cbn [List.length]. f_equal; [lia|].
        unfold get. cbn [node_at]. rewrite E, nth_error_app_len. reflexivity.
      - specialize (IHr (pre ++ [c])). rewrite app_length, Nat.add_1_r in IHr. apply IHr.
        rewrite <- app_assoc. exact E. }
    exact (G (children v) [] eq_refl).
Qed.

(* .**{a to b} enumerates the positions whose length lies in a..b *)
Definition pos_in_range (a b : Z) (v : json) : list pos :=
  filter (fun p => in_range a b (Z.of_nat (List.length p))) (all_pos v).

Theorem nodes_at_depth_pos a b v :
  nodes_at_depth a b v = map (fun p => get p v) (pos_in_range a b v).
Proof.
  unfold nodes_at_depth, nodes_from, sel_gen, pos_in_range. rewrite all_nodes_pos.
  induction (all_pos v) as [|p r IH]; [reflexivity|].
  cbn [map filter fst snd]. rewrite Z.add_0_l.
  destruct (in_range a b (Z.of_nat (List.length p))); cbn [map snd]; now rewrite IH.
Qed.

(* each valid position with depth in range is enumerated exactly once, nothing else is *)
Theorem pos_in_range_spec a b v p :
  In p (pos_in_range a b v) <->
  node_at p v <> None /\ a <= Z.of_nat (List.length p) <= b.
Proof.
  unfold pos_in_range. rewrite filter_In, all_pos_complete. unfold in_range.
  rewrite andb_true_iff, !Z.leb_le. tauto.
Qed.

Theorem pos_in_range_nodup a b v : NoDup (pos_in_range a b v).
Proof. apply NoDup_filter. apply all_pos_nodup. Qed.

Theorem pos_in_range_once a b v p :
  node_at p v <> None -> a <= Z.of_nat (List.length p) <= b ->
  count_occ (list_eq_dec Nat.eq_dec) (pos_in_range a b v) p = 1%nat.
Proof.
  intros H1 H2. apply NoDup_count_occ'; [apply pos_in_range_nodup|].
  apply pos_in_range_spec. now split.
Qed.

Lemma ssorted_filter {A} (R : A -> A -> Prop) f l : StronglySorted R l -> StronglySorted R (filter f l).
Proof.
  induction 1 as [|x r Hr IH Hx]; simpl; [constructor|].
  destruct (f x); [|exact IH]. constructor; [exact IH|].
  rewrite Forall_forall in *. intros y Hy. apply Hx. apply filter_In in Hy. tauto.
Qed.

Theorem pos_in_range_sorted a b v : StronglySorted lex_lt (pos_in_range a b v).
Proof. apply ssorted_filter. apply all_pos_sorted. Qed.

(* the number of items .**{a to b} returns is the number of in-range positions *)
Corollary nodes_at_depth_length a b v :
  List.length (nodes_at_depth a b v) = List.length (pos_in_range a b v).
Proof. rewrite nodes_at_depth_pos. apply map_length. Qed.

(* ------------------------------------------------------------------ *)
(* C15, assembled *)

Theorem C15_descend L C Q a b k cur l ig u v :
  0 <= a -> 0 <= b -> ~ (a = max_uint32 /\ b = max_uint32) ->
  sem_step L C Q (SAny a b) k cur l ig u v =
    tbind_list (map (fun p => get p v) (pos_in_range a b v)) (k l true)
  /\ StronglySorted lex_lt (pos_in_range a b v)
  /\ NoDup (pos_in_range a b v)
  /\ (forall p, In p (pos_in_range a b v) <-> node_at p v <> None /\ a <= Z.of_nat (List.length p) <= b).
Proof.
  intros Ha Hb Hn. split; [|split; [|split]].
  - rewrite any_bind by assumption. now rewrite nodes_at_depth_pos.
  - apply pos_in_range_sorted.
  - apply pos_in_range_nodup.
  - intros p. apply pos_in_range_spec.
Qed.

(* ------------------------------------------------------------------ *)
(* the hypotheses are satisfiable; concrete instances *)

Definition dummyL : ExecLib :=
  mkExecLib (fun _ => None) (fun _ _ _ => None) (fun _ => ""%string) (fun _ => ""%string)
            (fun _ => S754_zero false) (fun _ => 0) (fun a _ => a) (fun a => a) (fun a => a) (fun a => a)
            (fun a => a) (fun _ => S754_zero false) (fun _ _ _ => false) (fun _ _ => None)
            (fun _ _ _ => CastInvalid) (fun _ _ _ => CmpInvalid) (fun _ => ""%string) (fun l => map snd l).

Definition exdoc : json :=
  JObj 0 [("a", JArr 1 [JNum (NInt 1); JObj 2 [("b", JNull)]]); ("c", JStr "x")]%string.

Example ex_nodes_all :
  nodes_at_depth 0 max_uint32 exdoc =
  [exdoc; JArr 1 [JNum (NInt 1); JObj 2 [("b", JNull)]%string]; JNum (NInt 1);
   JObj 2 [("b", JNull)]%string; JNull; JStr "x"].
Proof. reflexivity. Qed.

Example ex_nodes_1_2 :
  nodes_at_depth 1 2 exdoc =
  [JArr 1 [JNum (NInt 1); JObj 2 [("b", JNull)]%string]; JNum (NInt 1); JObj 2 [("b", JNull)]%string; JStr "x"].
Proof. reflexivity. Qed.

Example ex_leaves : leaves_below exdoc = [JNum (NInt 1); JNull; JStr "x"].
Proof. reflexivity. Qed.

Example ex_any_sem :
  sem_step dummyL (mkcenv false exdoc [] false) quirks_ideal (SAny 1 2) (fun _ _ x => tone x) exdoc (-1) false false exdoc
  = (nodes_at_depth 1 2 exdoc, None).
Proof. vm_compute. reflexivity. Qed.

Example ex_any_last_sem :
  sem_step dummyL (mkcenv false exdoc [] false) quirks_ideal (SAny max_uint32 max_uint32) (fun _ _ x => tone x)
           exdoc (-1) false false exdoc
  = (leaves_below exdoc, None).
Proof. vm_compute. reflexivity. Qed.

(* strict mode: $.**.b skips the nodes that are not objects or lack the key; $.a.b fails *)
Example ex_strict_skip :
  sem_chain dummyL (mkcenv false exdoc [] false) quirks_ideal [SAny 0 max_uint32; SKey "b"] exdoc (-1) false false exdoc
  = ([JNull], None).
Proof. vm_compute. reflexivity. Qed.

Example ex_strict_fail :
  snd (sem_chain dummyL (mkcenv false exdoc [] false) quirks_ideal [SKey "a"; SKey "b"] exdoc (-1) false false exdoc)
  = Some (EVerbose "jsonpath member accessor can only be applied to an object").
Proof. vm_compute. reflexivity. Qed.

Example ex_positions : pos_in_range 1 2 exdoc = [[0]; [0; 0]; [0; 1]; [1]]%nat.
Proof. reflexivity. Qed.

(* the depth hypothesis of any_last_bind / nodes_unbounded is satisfiable (any real document) *)
Example ex_depth_hyp : Z.of_nat (json_depth exdoc) < max_uint32.
Proof. reflexivity. Qed.

(* the two headline corollaries, on the semantics itself *)
Corollary any_exact_sem L C Q (n : nat) cur l ig u v :
  Z.of_nat n < max_uint32 ->
  sem_step L C Q (SAny (Z.of_nat n) (Z.of_nat n)) (fun _ _ x => tone x) cur l ig u v = (kfold n v, None).
Proof.
  intros Hn. rewrite any_is_nodes by lia. now rewrite any_exact_kfold.
Qed.

Corollary any_plain_sem L C Q cur l ig u v :
  Z.of_nat (json_depth v) <= max_uint32 ->
  sem_step L C Q (SAny 0 max_uint32) (fun _ _ x => tone x) cur l ig u v = (map snd (all_nodes 0 v), None).
Proof.
  intros Hd. rewrite any_is_nodes; [now rewrite nodes_all | lia | unfold max_uint32; lia |].
  intros [H _]. discriminate H.
Qed.
