(* StructProofs.v — C07: structural errors.

   "In lax mode a path built from accessors (.key, .*, [*], .**, and [i],
    [i to j] with literal or last-relative bounds) and filters over them never
    returns an error: a step applied to a value of the wrong shape yields no
    items, arrays are unwrapped exactly one level for member access and filters,
    and subscripts treat a non-array as a one-element array.  In strict mode the
    same path returns a suppressible structural error exactly when some step
    meets a missing key, a value of the wrong kind or an out-of-range subscript
    - whatever the position of the offending element or subscript - except that
    member accessors below .** skip the nodes they do not apply to."

   The class of paths is [tight B]: the class [accessor_chain] of spec/Proj.v
   with the side conditions the statement needs (see the counterexamples at the
   end): integer / fractional bounds within int32, last - k with 0 <= k <=
   max_int32, last + k with k + B - 1 <= max_int32, where B <= 2^31 bounds the
   length of every array in play.
   Stdlib only, no axioms. *)
From Coq Require Import Floats.SpecFloat.
From SJ Require Import lib.Base lib.F64 model.Json model.Ast model.ExecLib model.Leaf model.Exec spec.Sem spec.Proj
     proofs.SemBasics proofs.DescendProofs proofs.SubscriptProofs proofs.FilterProofs proofs.ComposeProofs.

(* ------------------------------------------------------------------ *)
(* predicates that hold of a value and all the values inside it *)

Fixpoint allj (p : json -> bool) (v : json) : bool :=
  p v && match v with
         | JArr _ l => forallb (allj p) l
         | JObj _ l => forallb (fun kv => allj p (snd kv)) l
         | _ => true
         end.

Lemma allj_here p v : allj p v = true -> p v = true.
Proof. destruct v; simpl; intros H; apply andb_true_iff in H; tauto. Qed.

Lemma allj_child p v c : allj p v = true -> In c (children v) -> allj p c = true.
Proof.
  destruct v; simpl; try contradiction; intros H Hc; apply andb_true_iff in H; destruct H as [_ H];
    rewrite forallb_forall in H.
  - now apply H.
  - apply in_map_iff in Hc. destruct Hc as [kv [<- Hkv]]. now apply H.
Qed.

Lemma allj_lookup p t m key y : allj p (JObj t m) = true -> lookup key m = Some y -> allj p y = true.
Proof.
  intros H Hl. apply (allj_child p (JObj t m)); [exact H|]. simpl. clear H. revert Hl.
  induction m as [|[k' x] r IH]; simpl; intros Hl; [discriminate Hl|].
  destruct (String.eqb key k'); [injection Hl as <-; now left | right; now apply IH].
Qed.

Lemma allj_nodes p v : forall d d' x, allj p v = true -> In (d', x) (all_nodes d v) -> allj p x = true.
Proof.
  induction v as [v IH] using json_children_ind. intros d d' x Hv. rewrite all_nodes_eq. intros [H|H].
  - now injection H as _ <-.
  - apply in_flat_map in H. destruct H as [c [Hc Hin]]. rewrite Forall_forall in IH.
    apply (IH c Hc _ _ _ (allj_child p v c Hv Hc) Hin).
Qed.

Lemma allj_sel_gen p q d v x : allj p v = true -> In x (sel_gen q d v) -> allj p x = true.
Proof.
  intros Hv Hx. unfold sel_gen in Hx. apply in_map_iff in Hx. destruct Hx as [[d' y] [<- Hy]].
  apply filter_In in Hy. destruct Hy as [Hy _]. now apply (allj_nodes p v d d' y).
Qed.

Lemma allj_candidates p u v x : allj p v = true -> In x (candidates u v) -> allj p x = true.
Proof.
  intros Hv Hx. destruct v; simpl in Hx; try (destruct Hx as [<-|[]]; exact Hv).
  destruct u; [|destruct Hx as [<-|[]]; exact Hv].
  now apply (allj_child p (JArr tag l)).
Qed.

Section Struct.
Variable L : ExecLib.
Variable C : cenv.
Variable Q : quirks.
Variable B : Z.                         (* a bound on the length of the arrays in play *)
Hypothesis B_pos : 1 <= B.
Hypothesis B_le : B <= max_int32 + 1.
Hypothesis Hlaw : to_int64_law L.

Notation sem_step := (sem_step L C Q).
Notation sem_pred := (sem_pred L C Q).
Notation sem_chain := (sem_chain L C Q).
Notation laxm := (laxm C).

(* wf_vals: no datetime values, every json.Number text parses, arrays shorter than B *)
Definition wf_here (v : json) : bool :=
  match v with
  | JDt _ => false
  | JNum (NJs s) => is_some (xl_parse_float L s)
  | JArr _ l => Z.of_nat (List.length l) <=? B
  | _ => true
  end.
Definition wf (v : json) : bool := allj wf_here v.

Definition wf_vals : Prop := wf (c_root C) = true.

(* ------------------------------------------------------------------ *)
(* the class of paths *)

Definition bform_ok (b : bform) : bool :=
  match b with
  | BInt z => in_int32 z
  | BFrac f => match f64_trunc_Z f with Some z => in_int32 z | None => false end
  | BLast => true
  | BLastMinus k => (0 <=? k) && (k <=? max_int32)
  | BLastPlus k => (0 <=? k) && (k + B - 1 <=? max_int32)
  end.

(* the bound expressions of the property, recognised syntactically *)
Definition is_last_chain (c : chain) : bool :=
  match c with [SConst CLast] => true | _ => false end.
Definition int_lit_chain (c : chain) : option Z :=
  match c with [SInteger k] => Some k | _ => None end.

Definition bound_form (c : chain) : option bform :=
  match c with
  | [s] =>
      match s with
      | SInteger z => Some (BInt z)
      | SNumeric f => Some (BFrac f)
      | SConst CLast => Some BLast
      | SBin BSub l r => if is_last_chain l then option_map BLastMinus (int_lit_chain r) else None
      | SBin BAdd l r => if is_last_chain l then option_map BLastPlus (int_lit_chain r) else None
      | _ => None
      end
  | _ => None
  end.

Definition bound_ok (c : chain) : bool :=
  match bound_form c with Some b => bform_ok b | None => false end.

Definition lit_operand (c : chain) : bool :=
  match c with
  | [SInteger _] | [SNumeric _] | [SStr _] | [SConst CNull] | [SConst CTrue] | [SConst CFalse] => true
  | _ => false
  end.

Definition any_ok (a b : Z) : bool :=
  (0 <=? a) && (0 <=? b) && negb ((a =? max_uint32) && (b =? max_uint32)).

Fixpoint tight (s : step) : bool :=
  let tch := fix tch (c : list step) : bool :=
    match c with [] => true | x :: r => tight x && tch r end in
  let cond := fun (c : step) =>
    match c with
    | SBin op l r =>
        match op with
        | BEq | BNe | BLt | BGt | BLe | BGe => (lit_operand l || tch l) && (lit_operand r || tch r)
        | _ => false
        end
    | SUn UExists a => tch a
    | _ => false
    end in
  match s with
  | SConst CRoot | SConst CCurrent | SConst CAnyKey | SConst CAnyArray => true
  | SKey _ => true
  | SAny _ _ => true
  | SIndex subs =>
      forallb (fun ab => bound_ok (fst ab) && match snd ab with Some c => bound_ok c | None => true end) subs
  | SUn UFilter [c] => cond c
  | _ => false
  end.

Definition tight_chain (c : chain) : bool :=
  (fix tch (c : list step) : bool := match c with [] => true | x :: r => tight x && tch r end) c.

Definition operand_ok (c : chain) : bool := lit_operand c || tight_chain c.

Definition cond_ok (c : step) : bool :=
  match c with
  | SBin op l r => is_cmp op && operand_ok l && operand_ok r
  | SUn UExists a => tight_chain a
  | _ => false
  end.

Lemma tight_chain_cons x r : tight_chain (x :: r) = tight x && tight_chain r.
Proof. reflexivity. Qed.

Lemma tight_filter c : tight (SUn UFilter [c]) = cond_ok c.
Proof. destruct c as [| | | | | |op l r|op a| | | | | |]; try reflexivity; destruct op; reflexivity. Qed.

Lemma tight_filter_inv a : tight (SUn UFilter a) = true -> exists c, a = [c] /\ cond_ok c = true.
Proof.
  destruct a as [|c [|c' a']]; try discriminate.
  intros H. exists c. split; [reflexivity|]. now rewrite <- tight_filter.
Qed.

Lemma tight_index subs :
  tight (SIndex subs) =
  forallb (fun ab => bound_ok (fst ab) && match snd ab with Some c => bound_ok c | None => true end) subs.
Proof. reflexivity. Qed.

(* the tightened class is inside the class of spec/Proj.v *)
Lemma is_last_chain_inv c : is_last_chain c = true -> c = [SConst CLast].
Proof.
  destruct c as [|s [|s' c']]; try discriminate.
  - destruct s as [[]| | | | | | | | | | | | |]; try discriminate. reflexivity.
  - destruct s as [[]| | | | | | | | | | | | |]; discriminate.
Qed.

Lemma int_lit_chain_inv c k : int_lit_chain c = Some k -> c = [SInteger k].
Proof.
  destruct c as [|s [|s' c']]; try discriminate.
  - destruct s; try discriminate. intros H; injection H as <-. reflexivity.
  - destruct s; discriminate.
Qed.

Lemma bound_form_inv c b : bound_form c = Some b -> c = bform_chain b.
Proof.
  destruct c as [|s [|s' c']]; try discriminate. cbn [bound_form].
  destruct s as [k| |z|f| | |op l r| | | | | | |]; try discriminate.
  - destruct k; try discriminate. intros H; injection H as <-. reflexivity.
  - intros H; injection H as <-. reflexivity.
  - intros H; injection H as <-. reflexivity.
  - destruct op; try discriminate.
    + destruct (is_last_chain l) eqn:El; [|discriminate]. apply is_last_chain_inv in El. subst l.
      destruct (int_lit_chain r) as [k|] eqn:Er; [|discriminate]. apply int_lit_chain_inv in Er. subst r.
      intros H; injection H as <-. reflexivity.
    + destruct (is_last_chain l) eqn:El; [|discriminate]. apply is_last_chain_inv in El. subst l.
      destruct (int_lit_chain r) as [k|] eqn:Er; [|discriminate]. apply int_lit_chain_inv in Er. subst r.
      intros H; injection H as <-. reflexivity.
Qed.

(* every bound form of the property is recognised *)
Lemma bound_form_complete b : bound_form (bform_chain b) = Some b.
Proof. destruct b; reflexivity. Qed.

Lemma In_firstn' {A} (x : A) n : forall l, In x (firstn n l) -> In x l.
Proof. induction n as [|n IH]; intros [|y l]; simpl; try tauto. intros [H|H]; [now left | right; now apply IH]. Qed.
Lemma In_skipn' {A} (x : A) n : forall l, In x (skipn n l) -> In x l.
Proof. induction n as [|n IH]; intros [|y l]; simpl; try tauto. intros H. right. now apply IH. Qed.

(* ------------------------------------------------------------------ *)
(* good traces *)

(* [good b t]: every item is wf; a failure is suppressible and cannot happen when b *)
Definition good (b : bool) (t : trace) : Prop :=
  Forall (fun x => wf x = true) (fst t) /\
  match snd t with None => True | Some e => b = false /\ is_verbose e = true end.

Lemma good_tnil b : good b tnil.
Proof. split; [constructor | exact I]. Qed.

Lemma good_tone b x : wf x = true -> good b (tone x).
Proof. intros H. split; [repeat constructor; exact H | exact I]. Qed.

Lemma good_tfail w : good false (tfail (EVerbose w)).
Proof. split; [constructor | split; reflexivity]. Qed.

Lemma good_mono b b' t : (b' = true -> b = true) -> good b t -> good b' t.
Proof.
  intros Hb [H1 H2]. split; [exact H1|]. destruct (snd t); [|exact I].
  destruct H2 as [-> Hv]. split; [|exact Hv]. destruct b'; [now discriminate Hb | reflexivity].
Qed.

Lemma good_tapp b t1 t2 : good b t1 -> good b t2 -> good b (tapp t1 t2).
Proof.
  intros [H1 H2] [H3 H4]. unfold tapp. destruct (snd t1) eqn:E.
  - split; [exact H1 | now rewrite E].
  - split; [apply Forall_app; now split | exact H4].
Qed.

Lemma good_tbind b l f : (forall x, In x l -> good b (f x)) -> good b (tbind_list l f).
Proof.
  induction l as [|x r IH]; intros H; [apply good_tnil|].
  cbn [tbind_list]. apply good_tapp; [apply H; now left | apply IH; intros; apply H; now right].
Qed.

Lemma good_items b l : Forall (fun x => wf x = true) l -> good b (l, None).
Proof. intros H. split; [exact H | exact I]. Qed.

Lemma good_tbind_trace b t f :
  good b t -> (forall x, wf x = true -> good b (f x)) -> good b (tbind_trace t f).
Proof.
  intros [H1 H2] Hf. unfold tbind_trace. apply good_tapp.
  - apply good_tbind. intros x Hx. apply Hf. rewrite Forall_forall in H1. now apply H1.
  - split; [constructor | exact H2].
Qed.

Lemma good_structural ig w : good (laxm && ig) (structural ig w).
Proof.
  destruct ig; [apply good_tnil|]. rewrite andb_false_r. apply good_tfail.
Qed.

Lemma good_snd_lax t : good true t -> snd t = None.
Proof. intros [_ H]. destruct (snd t); [destruct H; discriminate | reflexivity]. Qed.

Lemma good_snd_verbose b t e : good b t -> snd t = Some e -> is_verbose e = true.
Proof. intros [_ H] E. rewrite E in H. tauto. Qed.

(* ------------------------------------------------------------------ *)
(* comparisons of wf scalars raise no error *)

Lemma applyCompare_cmp op c : is_cmp op = true -> snd (applyCompare op c) = None.
Proof. destruct op; intros H; try discriminate H; reflexivity. Qed.

Lemma resolve_cmp_ok n : wf_here (JNum n) = true -> exists r, resolve_cmp L n = Ret r.
Proof.
  destruct n as [z|f|s]; simpl; eauto. intros H. unfold js_int64, js_float64.
  destruct (xl_parse_int L 10 64 s); eauto.
  destruct (xl_parse_float L s) as [[f r]|]; [eauto | discriminate].
Qed.

Lemma compareNumeric_ok a b :
  wf_here (JNum a) = true -> wf_here (JNum b) = true -> exists z, compareNumeric L a b = Ret z.
Proof.
  intros Ha Hb. unfold compareNumeric.
  destruct (resolve_cmp_ok a Ha) as [[za|fa] ->]; cbn [bindo].
  - destruct (resolve_cmp_ok b Hb) as [[zb|fb] ->]; cbn [bindo]; eauto.
  - destruct b as [zb|fb|s]; eauto. simpl in Hb. unfold js_float64.
    destruct (xl_parse_float L s) as [[f r]|]; [eauto | discriminate].
Qed.

Lemma cmp_cb_clean op a b :
  is_cmp op = true -> wf_here a = true -> wf_here b = true -> snd (cmp_cb L C op a b) = None.
Proof.
  intros Hop Ha Hb. unfold cmp_cb, compareItems.
  destruct (is_null a && negb (is_null b) || is_null b && negb (is_null a)); [reflexivity|].
  destruct a as [| | na | | | |]; try discriminate Ha;
    destruct b as [| | nb | | | |]; try discriminate Hb; cbn [total_cb]; try reflexivity;
    try (apply applyCompare_cmp; exact Hop).
  destruct (compareNumeric_ok na nb Ha Hb) as [z ->]. cbn [bindo total_cb].
  apply applyCompare_cmp; exact Hop.
Qed.

Lemma spairs_inner_clean strictm cb l rs : forall h f,
  (forall r, In r rs -> snd (cb l r) = None) ->
  match spairs_inner strictm cb l rs h f with
  | (Some p, _, _) => snd p = None
  | (None, _, _) => True
  end.
Proof.
  induction rs as [|r rs IH]; intros h f H; [exact I|].
  cbn [spairs_inner]. pose proof (H r (or_introl eq_refl)) as Hr.
  destruct (cb l r) as [p e]. cbn [snd] in Hr. subst e.
  assert (IH' : forall h f, match spairs_inner strictm cb l rs h f with
                            | (Some p, _, _) => snd p = None | (None, _, _) => True end)
    by (intros; apply IH; intros; apply H; now right).
  destruct p.
  - destruct (negb strictm); [reflexivity | apply IH'].
  - apply IH'.
  - destruct strictm; [reflexivity | apply IH'].
Qed.

Lemma spairs_clean strictm cb ls rs : forall h f,
  (forall l r, In l ls -> In r rs -> snd (cb l r) = None) ->
  snd (spairs strictm cb ls rs h f) = None.
Proof.
  induction ls as [|l ls IH]; intros h f H.
  - cbn [spairs]. destruct f; [reflexivity|]. destruct h; reflexivity.
  - cbn [spairs]. pose proof (spairs_inner_clean strictm cb l rs h f (fun r Hr => H l r (or_introl eq_refl) Hr)) as Hi.
    destruct (spairs_inner strictm cb l rs h f) as [[[p|] h'] f']; [exact Hi|].
    apply IH. intros; apply H; [now right | assumption].
Qed.

Lemma wf_unwrapSeq l :
  Forall (fun x => wf x = true) l -> Forall (fun x => wf x = true) (unwrapSeq l).
Proof.
  intros H. apply Forall_forall. intros x Hx. unfold unwrapSeq in Hx. apply in_flat_map in Hx.
  destruct Hx as [y [Hy Hx]]. rewrite Forall_forall in H. specialize (H y Hy).
  destruct y; try (destruct Hx as [<-|[]]; exact H).
  now apply (allj_child wf_here (JArr tag l0)).
Qed.

(* ------------------------------------------------------------------ *)
(* subscripts with tight bounds *)

Lemma in_int32_range z : min_int32 <= z <= max_int32 -> in_int32 z = true.
Proof. intros H. unfold in_int32. apply andb_true_iff. rewrite !Z.leb_le. exact H. Qed.

Lemma bform_ok_val b n : bform_ok b = true -> 0 <= n <= B -> exists z, bform_val n b = Some z.
Proof.
  intros H Hn. unfold bform_val. unfold max_int32, min_int32 in *.
  destruct b as [z|f| |k|k]; cbn [bform_ok bform_pos] in *.
  - rewrite H. eauto.
  - destruct (f64_trunc_Z f) as [z|]; [|discriminate]. rewrite H. eauto.
  - rewrite in_int32_range by (unfold min_int32, max_int32; lia). eauto.
  - apply andb_true_iff in H. rewrite !Z.leb_le in H.
    rewrite in_int32_range by (unfold min_int32, max_int32 in *; lia). eauto.
  - apply andb_true_iff in H. rewrite !Z.leb_le in H.
    rewrite in_int32_range by (unfold min_int32, max_int32 in *; lia). eauto.
Qed.

Lemma bound_ok_index c n cur ig u v :
  bound_ok c = true -> 0 <= n <= B ->
  exists z, index_of L (sem_chain c cur n ig u v) = inl z.
Proof.
  unfold bound_ok. destruct (bound_form c) as [b|] eqn:E; [|discriminate].
  intros Hb Hn. apply bound_form_inv in E. subst c.
  destruct (bform_ok_val b n Hb Hn) as [z Hz]. exists z.
  apply (bform_index L C Q b n z); [exact Hlaw | lia | exact Hz].
Qed.

Lemma subs_evaluate subs n cur ig v :
  tight (SIndex subs) = true -> 0 <= n <= B ->
  exists bounds, Forall2 (sub_evals L C Q cur n ig v) subs bounds.
Proof.
  rewrite tight_index. intros H Hn. induction subs as [|[a b] r IH]; [exists []; constructor|].
  cbn [forallb fst snd] in H. apply andb_true_iff in H. destruct H as [H Hr].
  apply andb_true_iff in H. destruct H as [Ha Hb].
  destruct (IH Hr) as [bounds Hbounds].
  destruct (bound_ok_index a n cur ig laxm v Ha Hn) as [from Hfrom].
  destruct b as [bn|].
  - destruct (bound_ok_index bn n cur ig laxm v Hb Hn) as [to Hto].
    exists ((from, to) :: bounds). constructor; [split; assumption | exact Hbounds].
  - exists ((from, from) :: bounds). constructor; [split; [assumption | reflexivity] | exact Hbounds].
Qed.

Lemma wf_range_elems es f t :
  Forall (fun x => wf x = true) es -> Forall (fun x => wf x = true) (range_elems es f t).
Proof.
  intros H. apply Forall_forall. intros x Hx. unfold range_elems in Hx.
  apply In_firstn', In_skipn' in Hx. rewrite Forall_forall in H. now apply H.
Qed.

Lemma good_select ig skip es bounds :
  Forall (fun x => wf x = true) es -> good (laxm && ig) (select_trace ig skip es bounds).
Proof.
  intros Hes. induction bounds as [|[from to] r IH]; [apply good_tnil|].
  cbn [select_trace]. unfold select_one.
  destruct (negb ig && SubscriptProofs.oob _ from to) eqn:E.
  - destruct ig; [discriminate E|]. rewrite andb_false_r. apply good_tfail.
  - apply good_tapp; [|exact IH]. apply good_items.
    destruct skip; [|now apply wf_range_elems].
    apply Forall_forall. intros x Hx. apply filter_In in Hx. destruct Hx as [Hx _].
    pose proof (wf_range_elems es (Z.max 0 from) (Z.min (Z.of_nat (List.length es) - 1) to) Hes) as Hr.
    rewrite Forall_forall in Hr. now apply Hr.
Qed.

Lemma wf_array_elems t es : wf (JArr t es) = true -> Forall (fun x => wf x = true) es.
Proof. intros H. apply Forall_forall. intros x Hx. now apply (allj_child wf_here (JArr t es)). Qed.

Lemma wf_array_len t es : wf (JArr t es) = true -> Z.of_nat (List.length es) <= B.
Proof. intros H. apply allj_here in H. simpl in H. now apply Z.leb_le. Qed.

Lemma good_index subs cur l ig u v :
  tight (SIndex subs) = true -> wf v = true ->
  good (laxm && ig) (sem_step (SIndex subs) tone_k cur l ig u v).
Proof.
  intros Ht Hv. destruct (index_target C v) as [es|] eqn:Et.
  - assert (Hes : Forall (fun x => wf x = true) es /\ 0 <= Z.of_nat (List.length es) <= B).
    { unfold index_target in Et. destruct v; try (destruct laxm; [|discriminate]; injection Et as <-;
        split; [repeat constructor; exact Hv | simpl; lia]).
      injection Et as <-. split; [now apply (wf_array_elems tag) | split; [lia | now apply (wf_array_len tag)]]. }
    destruct Hes as [Hes Hn].
    destruct (subs_evaluate subs _ cur ig v Ht Hn) as [bounds Hb].
    rewrite (subscript_general L C Q subs bounds es tone_k cur l ig u v Et Hb).
    unfold tone_k. rewrite tbind_trace_tone_r. now apply good_select.
  - rewrite sem_step_index, Et. unfold index_target in Et.
    destruct v; try discriminate Et; destruct laxm; try discriminate Et; apply good_tfail.
Qed.

(* ------------------------------------------------------------------ *)
(* the main induction *)

Definition StepGood (s : step) : Prop := forall cur l ig u v,
  wf_vals -> wf cur = true -> wf v = true ->
  good (laxm && ig) (sem_step s tone_k cur l ig u v).

Definition ChainGood (c : chain) : Prop := forall cur l ig u v,
  wf_vals -> wf cur = true -> wf v = true ->
  good (laxm && ig) (sem_chain c cur l ig u v).

Definition PredGood (q : step) : Prop := forall cur l ig v,
  wf_vals -> wf cur = true -> wf v = true ->
  snd (sem_pred q cur l ig v) = None.

Definition Pt (s : step) : Prop :=
  (tight s = true -> StepGood s) /\ (cond_ok s = true -> PredGood s).

Definition Qt (c : chain) : Prop :=
  (tight_chain c = true -> ChainGood c) /\
  match c with [q] => cond_ok q = true -> PredGood q | _ => True end.

Lemma step_ig_mono s ig : laxm && ig = true -> laxm && step_ig s ig = true.
Proof. destruct s; cbn [step_ig]; try tauto. intros H. apply andb_true_iff in H. now rewrite (proj1 H). Qed.

Lemma chain_good_cons s c : StepGood s -> ChainGood c -> ChainGood (s :: c).
Proof.
  intros Hs Hc cur l ig u v Hr Hcur Hv.
  rewrite sem_chain_cons, (sem_step_param L C Q s).
  apply good_tbind_trace; [now apply Hs|].
  intros x Hx. eapply good_mono; [apply step_ig_mono | now apply Hc].
Qed.

Lemma lit_operand_good c : lit_operand c = true -> ChainGood c.
Proof.
  intros H cur l ig u v _ _ _.
  destruct c as [|s [|s' c']]; try discriminate H.
  2:{ destruct s as [[]| | | | | | | | | | | | |]; discriminate H. }
  destruct s as [[]| | | | | | | | | | | | |]; try discriminate H; rewrite sem_chain_cons.
  - rewrite sem_step_true. now apply good_tone.
  - rewrite sem_step_false. now apply good_tone.
  - rewrite sem_step_null. now apply good_tone.
  - rewrite sem_step_str. now apply good_tone.
  - rewrite sem_step_integer. now apply good_tone.
  - rewrite sem_step_numeric. now apply good_tone.
Qed.

Lemma operand_good c : Qt c -> operand_ok c = true -> ChainGood c.
Proof.
  intros [Hq _] H. unfold operand_ok in H. apply orb_true_iff in H.
  destruct H as [H|H]; [now apply lit_operand_good | now apply Hq].
Qed.

(* an operand sequence of a good chain: no hard error, wf items *)
Lemma operand_of_good c un cur l ig v :
  good (laxm && ig) (sem_chain c cur l ig laxm v) ->
  match operand L C Q c un cur l ig v with
  | inr e => e = None
  | inl seq => Forall (fun x => wf x = true) seq
  end.
Proof.
  intros [H1 H2]. unfold operand. cbv zeta. destruct (snd (sem_chain c cur l ig laxm v)) as [e|].
  - destruct H2 as [_ Hv]. unfold hard. now rewrite Hv.
  - destruct (un && laxm); [now apply wf_unwrapSeq | exact H1].
Qed.

Lemma wf_here_of x : wf x = true -> wf_here x = true.
Proof. apply allj_here. Qed.

Lemma pred_cmp_good op lc rc :
  is_cmp op = true -> ChainGood lc -> ChainGood rc -> PredGood (SBin op lc rc).
Proof.
  intros Hop Hl Hr cur l ig v Hroot Hcur Hv. rewrite sem_pred_cmp by exact Hop. unfold predicate.
  pose proof (operand_of_good lc true cur l ig v (Hl cur l ig laxm v Hroot Hcur Hv)) as Ol.
  destruct (operand L C Q lc true cur l ig v) as [lseq|e]; [|now subst e].
  pose proof (operand_of_good rc true cur l ig v (Hr cur l ig laxm v Hroot Hcur Hv)) as Or.
  destruct (operand L C Q rc true cur l ig v) as [rseq|e]; [|now subst e].
  apply spairs_clean. intros a b Ha Hb. rewrite Forall_forall in Ol, Or.
  apply cmp_cb_clean; [exact Hop | apply wf_here_of; now apply Ol | apply wf_here_of; now apply Or].
Qed.

Lemma pred_exists_good a : ChainGood a -> PredGood (SUn UExists a).
Proof.
  intros Ha cur l ig v Hroot Hcur Hv. rewrite sem_pred_exists. cbv zeta.
  destruct (Ha cur l ig laxm v Hroot Hcur Hv) as [_ H2].
  destruct (snd (sem_chain a cur l ig laxm v)) as [e|].
  - destruct H2 as [_ Hve]. unfold hard. rewrite Hve.
    destruct laxm; [destruct (fst _); reflexivity | reflexivity].
  - destruct laxm; destruct (fst _); reflexivity.
Qed.

Lemma step_filter_good c : PredGood c -> StepGood (SUn UFilter [c]).
Proof.
  intros Hc cur l ig u v Hroot Hcur Hv. rewrite filter_spec. apply good_tbind. intros x Hx.
  assert (Hwx : wf x = true) by now apply (allj_candidates wf_here u v).
  unfold filter_item. pose proof (Hc x l ig x Hroot Hwx Hwx) as Hn.
  destruct (sem_pred c x l ig x) as [p e]. cbn [snd] in Hn. subst e.
  destruct p; [now apply good_tone | apply good_tnil | apply good_tnil].
Qed.

Lemma step_const_good k : tight (SConst k) = true -> StepGood (SConst k).
Proof.
  intros Ht cur l ig u v Hroot Hcur Hv. destruct k; try discriminate Ht.
  - rewrite sem_step_root. now apply good_tone.
  - rewrite sem_step_current. now apply good_tone.
  - rewrite sem_step_anyarray. destruct v; try (destruct laxm eqn:E; [now apply good_tone | rewrite <- E; apply good_structural]).
    unfold tone_k. rewrite tbind_tone. apply good_items. now apply (wf_array_elems tag).
  - rewrite sem_step_anykey, unwrap_over_bind. apply good_tbind. intros x Hx.
    assert (Hwx : wf x = true) by now apply (allj_candidates wf_here u v).
    destruct x; cbn [anykey_one]; try apply good_structural.
    rewrite tbind_tone. apply good_items. apply Forall_forall. intros y Hy.
    now apply (allj_child wf_here (JObj tag l0)).
Qed.

Lemma step_key_good key : StepGood (SKey key).
Proof.
  intros cur l ig u v Hroot Hcur Hv. rewrite sem_step_key, unwrap_over_bind. apply good_tbind. intros x Hx.
  assert (Hwx : wf x = true) by now apply (allj_candidates wf_here u v).
  destruct x; cbn [key_one]; try apply good_structural.
  destruct (lookup key l0) as [y|] eqn:E; [|apply good_structural].
  apply good_tone. now apply (allj_lookup wf_here tag l0 key).
Qed.

Lemma step_any_good a b : StepGood (SAny a b).
Proof.
  intros cur l ig u v Hroot Hcur Hv. rewrite (any_bind_gen L C Q). unfold tone_k. rewrite tbind_tone.
  apply good_items. apply Forall_app. split.
  - destruct (a =? 0); repeat constructor. exact Hv.
  - apply Forall_forall. intros x Hx. apply in_flat_map in Hx. destruct Hx as [c [Hc Hx]].
    eapply (allj_sel_gen wf_here); [apply (allj_child wf_here v); eassumption | exact Hx].
Qed.

Theorem tight_good s : Pt s.
Proof.
  induction s as [| s c IHs IHc | k | | | | | key | op lc rc IHl IHr | op a IHa | a p f IHa | | | | a b | subs Hsubs]
    using step_ind' with (Q := Qt); try (split; intros H; discriminate H).
  - split; [intros _ cur l ig u v _ _ Hv; rewrite sem_chain_nil; now apply good_tone | exact I].
  - split.
    + rewrite tight_chain_cons. intros H. apply andb_true_iff in H. destruct H as [H1 H2].
      apply chain_good_cons; [now apply (proj1 IHs) | now apply (proj1 IHc)].
    + destruct c; [exact (proj2 IHs) | exact I].
  - split; [apply step_const_good | intros H; discriminate H].
  - split; [intros _; apply step_key_good | intros H; discriminate H].
  - split; [intros H; discriminate H|].
    cbn [cond_ok]. intros H. apply andb_true_iff in H. destruct H as [H H3].
    apply andb_true_iff in H. destruct H as [H1 H2].
    apply pred_cmp_good; [exact H1 | now apply operand_good | now apply operand_good].
  - split.
    + intros H. destruct op; try discriminate H.
      destruct (tight_filter_inv a H) as [c [-> Hc]]. apply step_filter_good.
      exact (proj2 IHa Hc).
    + destruct op; try (intros H; discriminate H). cbn [cond_ok]. intros H.
      apply pred_exists_good. now apply (proj1 IHa).
  - split; [intros _; apply step_any_good | intros H; discriminate H].
  - split; [|intros H; discriminate H].
    intros H cur l ig u v _ _ Hv. now apply good_index.
Qed.

Theorem tight_chain_good c : tight_chain c = true -> ChainGood c.
Proof.
  induction c as [|s r IH]; intros H.
  - intros cur l ig u v _ _ Hv. rewrite sem_chain_nil. now apply good_tone.
  - rewrite tight_chain_cons in H. apply andb_true_iff in H. destruct H as [H1 H2].
    apply chain_good_cons; [now apply (proj1 (tight_good s)) | now apply IH].
Qed.

(* ---------- C07, lax: never an error ---------- *)
Theorem C07_lax_chain c cur l u v :
  c_lax C = true -> tight_chain c = true ->
  wf_vals -> wf cur = true -> wf v = true ->
  snd (sem_chain c cur l true u v) = None.
Proof.
  intros Hlax Ht Hroot Hcur Hv. apply good_snd_lax.
  pose proof (tight_chain_good c Ht cur l true u v Hroot Hcur Hv) as G.
  unfold Sem.laxm in G. now rewrite Hlax in G.
Qed.

Theorem C07_lax c :
  c_lax C = true -> tight_chain c = true -> wf_vals ->
  snd (sem_path L C Q c) = None.
Proof.
  intros Hlax Ht Hroot. rewrite sem_path_eq. unfold Sem.laxm. rewrite Hlax.
  now apply C07_lax_chain.
Qed.

(* ---------- C07, strict (in fact any mode): a failure is suppressible ---------- *)
Theorem C07_suppressible_chain c cur l ig u v e :
  tight_chain c = true -> wf_vals -> wf cur = true -> wf v = true ->
  snd (sem_chain c cur l ig u v) = Some e -> is_verbose e = true.
Proof.
  intros Ht Hroot Hcur Hv. apply (good_snd_verbose (laxm && ig)).
  now apply tight_chain_good.
Qed.

Theorem C07_strict_suppressible c e :
  tight_chain c = true -> wf_vals ->
  snd (sem_path L C Q c) = Some e -> is_verbose e = true.
Proof.
  intros Ht Hroot. rewrite sem_path_eq. now apply C07_suppressible_chain.
Qed.

(* the items are values found inside the document *)
Theorem C07_items_wf c :
  tight_chain c = true -> wf_vals -> Forall (fun x => wf x = true) (fst (sem_path L C Q c)).
Proof.
  intros Ht Hroot. rewrite sem_path_eq. now apply (tight_chain_good c Ht).
Qed.

(* ---------- one level of unwrapping ---------- *)

(* member access on an array (lax): applied to the elements; an element that is
   itself an array is NOT looked into *)
Theorem key_unwraps_one_level key k cur l ig t es :
  sem_step (SKey key) k cur l ig true (JArr t es) = tbind_list es (key_one key ig (k l ig)).
Proof. now rewrite sem_step_key. Qed.

Theorem key_inner_array_skipped key k t es : key_one key true k (JArr t es) = tnil.
Proof. reflexivity. Qed.

Theorem key_array_of_arrays key k cur l t ess :
  Forall (fun x => is_array x = true) ess ->
  sem_step (SKey key) k cur l true true (JArr t ess) = tnil.
Proof.
  intros H. rewrite key_unwraps_one_level.
  rewrite (tbind_ext _ _ (fun _ => tnil)); [apply tbind_tnil|].
  intros x Hx. rewrite Forall_forall in H. specialize (H x Hx). destruct x; try discriminate H. reflexivity.
Qed.

Theorem filter_unwraps_one_level c k cur l ig t es :
  sem_step (SUn UFilter [c]) k cur l ig true (JArr t es) =
  tbind_list es (filter_item L C Q c l ig (k l ig)).
Proof. now rewrite filter_spec. Qed.

(* subscripts: a non-array is a one-element array (lax) *)
Theorem subscript_non_array_singleton subs k cur l ig u v :
  c_lax C = true -> is_array v = false ->
  sem_step (SIndex subs) k cur l ig u v = index_go L C Q [v] (k 1 ig) cur ig v subs.
Proof.
  intros Hlax Hv. rewrite sem_step_index, (index_target_lax C v Hlax Hv). reflexivity.
Qed.

End Struct.

(* ------------------------------------------------------------------ *)
(* strict mode: a structural error EXACTLY WHEN some step meets a mismatch *)

(* the filter-free accessor fragment, as its own syntax *)
Inductive astep :=
| ARoot | ACurrent
| AKey (key : string)
| AAnyKey                     (* .*  *)
| AAnyArray                   (* [*] *)
| AAny (a b : Z)              (* .**{a to b} *)
| AIndex (ss : list (bform * option bform)).

Definition astep_step (a : astep) : step :=
  match a with
  | ARoot => SConst CRoot
  | ACurrent => SConst CCurrent
  | AKey key => SKey key
  | AAnyKey => SConst CAnyKey
  | AAnyArray => SConst CAnyArray
  | AAny a b => SAny a b
  | AIndex ss => SIndex (map sub_chain ss)
  end.

Definition apath_chain (c : list astep) : chain := map astep_step c.

(* array lengths bounded by B, everywhere inside the value *)
Definition small_here (B : Z) (v : json) : bool :=
  match v with JArr _ l => Z.of_nat (List.length l) <=? B | _ => true end.
Definition small (B : Z) (v : json) : bool := allj (small_here B) v.

Lemma select_false_fail skip es bounds :
  snd (select_trace false skip es bounds) <> None <->
  List.Exists (fun ft => SubscriptProofs.oob (Z.of_nat (List.length es)) (fst ft) (snd ft) = true) bounds.
Proof.
  induction bounds as [|[from to] r IH]; cbn [select_trace].
  - split; [intros H; now elim H | intros H; inversion H].
  - unfold select_one. cbn [negb andb]. destruct (SubscriptProofs.oob _ from to) eqn:E.
    + split; [intros _; now left | intros _; discriminate].
    + rewrite snd_tapp. cbn [snd]. rewrite IH. split; [intros H; now right|].
      intros H. inversion H as [? ? H1|? ? H1]; subst; [cbn [fst snd] in H1; congruence | exact H1].
Qed.

Lemma select_false_noob skip es bounds :
  ~ List.Exists (fun ft => SubscriptProofs.oob (Z.of_nat (List.length es)) (fst ft) (snd ft) = true) bounds ->
  select_trace false skip es bounds = select_trace true skip es bounds.
Proof.
  induction bounds as [|[from to] r IH]; intros H; [reflexivity|].
  cbn [select_trace]. unfold select_one. cbn [negb andb].
  destruct (SubscriptProofs.oob _ from to) eqn:E; [elim H; now left|].
  rewrite IH; [reflexivity|]. intros H'. apply H. now right.
Qed.

Section Mismatch.
Variable L : ExecLib.
Variable C : cenv.
Variable Q : quirks.
Variable B : Z.
Hypothesis B_pos : 1 <= B.
Hypothesis B_le : B <= max_int32 + 1.
Hypothesis Hlaw : to_int64_law L.
Hypothesis Hstrict : c_lax C = false.

Notation sem_chain := (sem_chain L C Q).

Definition is_obj (v : json) : bool := match v with JObj _ _ => true | _ => false end.

(* [mismatch c ig cur v]: evaluating c on v, some reached step meets
   - a missing key or a non-object, for member access and the member wildcard
     (unless ig: below a recursive descent)
   - a non-array, for the element wildcard (unless ig)
   - a non-array or an out-of-range subscript, for a subscript
     (non-array: always; range: unless ig)
   The recursion follows the evaluation: all members / elements / selected nodes are visited. *)
Fixpoint mismatch (c : list astep) (ig : bool) (cur v : json) {struct c} : Prop :=
  match c with
  | [] => False
  | ARoot :: rest => mismatch rest ig cur (c_root C)
  | ACurrent :: rest => mismatch rest ig cur cur
  | AKey key :: rest =>
      match v with
      | JObj _ m => match lookup key m with
                    | Some y => mismatch rest ig cur y
                    | None => ig = false                       (* missing key *)
                    end
      | _ => ig = false                                        (* not an object *)
      end
  | AAnyKey :: rest =>
      match v with
      | JObj _ m => List.Exists (mismatch rest ig cur) (map snd m)
      | _ => ig = false
      end
  | AAnyArray :: rest =>
      match v with
      | JArr _ es => List.Exists (mismatch rest ig cur) es
      | _ => ig = false
      end
  | AAny a b :: rest => List.Exists (mismatch rest true cur) (nodes_at_depth a b v)
  | AIndex ss :: rest =>
      match v with
      | JArr _ es =>
          match subs_val (Z.of_nat (List.length es)) ss with
          | Some bounds =>
              (ig = false /\ List.Exists (fun ft => SubscriptProofs.oob (Z.of_nat (List.length es)) (fst ft) (snd ft) = true) bounds)
              \/ List.Exists (mismatch rest ig cur) (fst (select_trace true (q_skip_null Q) es bounds))
          | None => True
          end
      | _ => True                                              (* not an array *)
      end
  end.

Definition astep_ok (a : astep) : bool :=
  match a with
  | AAny a b => any_ok a b
  | AIndex ss => forallb (fun s => bform_ok B (fst s) && match snd s with Some b => bform_ok B b | None => true end) ss
  | _ => true
  end.

Lemma subs_val_some ss n :
  forallb (fun s => bform_ok B (fst s) && match snd s with Some b => bform_ok B b | None => true end) ss = true ->
  0 <= n <= B -> exists bounds, subs_val n ss = Some bounds.
Proof.
  intros H Hn. induction ss as [|[a b] r IH]; [exists []; reflexivity|].
  cbn [forallb fst snd] in H. apply andb_true_iff in H. destruct H as [H Hr].
  apply andb_true_iff in H. destruct H as [Ha Hb]. destruct (IH Hr) as [bounds Hbounds].
  destruct (bform_ok_val B B_le a n Ha Hn) as [from Hfrom].
  cbn [subs_val]. unfold sub_val. cbn [fst snd]. rewrite Hfrom.
  destruct b as [b|].
  - destruct (bform_ok_val B B_le b n Hb Hn) as [to Hto]. rewrite Hto, Hbounds. eauto.
  - rewrite Hbounds. eauto.
Qed.

Lemma Exists_fail_iff (l : list json) (k : json -> trace) (P : json -> Prop) :
  (forall x, In x l -> (snd (k x) <> None <-> P x)) ->
  (snd (tbind_list l k) <> None <-> List.Exists P l).
Proof.
  intros H. rewrite tbind_fail_iff, Exists_exists. split; intros [x [Hx Hk]]; exists x; split; try exact Hx;
    now apply (H x Hx).
Qed.

Lemma sel_true_sub skip es bounds x :
  In x (fst (select_trace true skip es bounds)) -> In x es.
Proof.
  induction bounds as [|[from to] r IH]; [intros []|].
  cbn [select_trace]. unfold select_one. cbn [negb andb]. rewrite fst_tapp. cbn [snd fst].
  rewrite in_app_iff. intros [H|H]; [|now apply IH].
  assert (Hr : In x (range_elems es (Z.max 0 from) (Z.min (Z.of_nat (List.length es) - 1) to))).
  { destruct skip; [apply filter_In in H; tauto | exact H]. }
  unfold range_elems in Hr. now apply In_firstn', In_skipn' in Hr.
Qed.

Theorem C07_strict_exactly_when c : forall ig cur l v,
  forallb astep_ok c = true ->
  small B (c_root C) = true -> small B cur = true -> small B v = true ->
  (snd (sem_chain (apath_chain c) cur l ig false v) <> None <-> mismatch c ig cur v).
Proof.
  induction c as [|a rest IH]; intros ig cur l v Hok Hroot Hcur Hv.
  - cbn [apath_chain map mismatch]. rewrite sem_chain_nil. split; [intros H; now elim H | intros []].
  - cbn [forallb] in Hok. apply andb_true_iff in Hok. destruct Hok as [Ha Hok].
    assert (Hlx : laxm C = false) by exact Hstrict.
    change (apath_chain (a :: rest)) with (astep_step a :: apath_chain rest).
    rewrite sem_chain_cons, Hlx.
    destruct a as [| |key| | |a b|ss]; cbn [astep_step mismatch].
    + rewrite sem_step_root. now apply IH.
    + rewrite sem_step_current. now apply IH.
    + rewrite sem_step_key.
      assert (Eu : forall one, unwrap_over false v one = one v) by (intros; destruct v; reflexivity).
      rewrite Eu. destruct v; cbn [key_one];
        try (destruct ig; cbn [structural]; split; intros H; try reflexivity; try discriminate; now elim H).
      destruct (lookup key l0) as [y|] eqn:E.
      * apply IH; try assumption. now apply (allj_lookup (small_here B) tag l0 key).
      * destruct ig; cbn [structural]; split; intros H; try reflexivity; try discriminate; now elim H.
    + rewrite sem_step_anykey.
      assert (Eu : forall one, unwrap_over false v one = one v) by (intros; destruct v; reflexivity).
      rewrite Eu. destruct v; cbn [anykey_one];
        try (destruct ig; cbn [structural]; split; intros H; try reflexivity; try discriminate; now elim H).
      apply Exists_fail_iff. intros y Hy. apply IH; try assumption.
      now apply (allj_child (small_here B) (JObj tag l0)).
    + rewrite sem_step_anyarray, Hlx. destruct v;
        try (destruct ig; cbn [structural]; split; intros H; try reflexivity; try discriminate; now elim H).
      apply Exists_fail_iff. intros y Hy. apply IH; try assumption.
      now apply (allj_child (small_here B) (JArr tag l0)).
    + cbn [astep_ok] in Ha. unfold any_ok in Ha. apply andb_true_iff in Ha. destruct Ha as [Ha Hn].
      apply andb_true_iff in Ha. destruct Ha as [Ha Hb]. rewrite Z.leb_le in Ha, Hb.
      assert (Hnl : ~ (a = max_uint32 /\ b = max_uint32)).
      { intros [-> ->]. rewrite !Z.eqb_refl in Hn. discriminate Hn. }
      rewrite (any_bind L C Q a b _ cur l ig false v Ha Hb Hnl).
      apply Exists_fail_iff. intros y Hy. apply IH; try assumption.
      unfold nodes_at_depth, nodes_from in Hy. eapply (allj_sel_gen (small_here B)); [exact Hv | exact Hy].
    + destruct v; try (rewrite subscript_strict_non_array by (assumption || reflexivity);
                       split; [intros _; exact I | intros _; discriminate]).
      cbn [astep_ok] in Ha.
      assert (Hn : 0 <= Z.of_nat (List.length l0) <= B).
      { split; [lia|]. apply allj_here in Hv. simpl in Hv. now apply Z.leb_le. }
      destruct (subs_val_some ss _ Ha Hn) as [bounds Hbounds]. rewrite Hbounds.
      rewrite (subscript_forms L C Q ss bounds l0 _ cur l ig false (JArr tag l0) Hlaw eq_refl Hbounds).
      assert (Hk : forall x, In x l0 ->
                 (snd (sem_chain (apath_chain rest) cur (Z.of_nat (List.length l0)) ig false x) <> None <->
                  mismatch rest ig cur x)).
      { intros x Hx. apply IH; try assumption. now apply (allj_child (small_here B) (JArr tag l0)). }
      destruct ig.
      * (* ig = true: no bounds error, clipped selection *)
        split.
        -- intros H. right. apply Exists_exists.
           destruct (snd (tbind_trace _ _)) eqn:E; [|now elim H].
           assert (Hne : snd (tbind_trace (select_trace true (q_skip_null Q) l0 bounds)
                                (fun x => sem_chain (apath_chain rest) cur (Z.of_nat (List.length l0)) true false x)) <> None)
             by congruence.
           rewrite snd_tbind_trace_None in Hne.
           assert (Hex : exists x, In x (fst (select_trace true (q_skip_null Q) l0 bounds)) /\
                                   snd (sem_chain (apath_chain rest) cur (Z.of_nat (List.length l0)) true false x) <> None).
           { apply tbind_fail_iff. intros Hnone. apply Hne. split; [apply select_trace_ig|].
             now apply tbind_None_iff. }
           destruct Hex as [x [Hx Hf]]. exists x. split; [exact Hx|].
           apply Hk; [now apply (sel_true_sub _ _ _ _ Hx) | exact Hf].
        -- intros [[Hc _]|H]; [discriminate Hc|]. apply Exists_exists in H. destruct H as [x [Hx Hm]].
           intros Hnone. apply snd_tbind_trace_None in Hnone. destruct Hnone as [_ Hall].
           apply (proj2 (Hk x (sel_true_sub _ _ _ _ Hx)) Hm). now apply Hall.
      * destruct (Exists_dec (fun ft => SubscriptProofs.oob (Z.of_nat (List.length l0)) (fst ft) (snd ft) = true) bounds
                    (fun ft => bool_dec _ true)) as [Hoob|Hnoob].
        -- split; [intros _; left; now split|]. intros _ Hnone.
           apply snd_tbind_trace_None in Hnone. destruct Hnone as [Hs _].
           now apply (proj2 (select_false_fail (q_skip_null Q) l0 bounds) Hoob).
        -- rewrite (select_false_noob _ _ _ Hnoob). split.
           ++ intros H. right. apply Exists_exists.
              assert (Hex : exists x, In x (fst (select_trace true (q_skip_null Q) l0 bounds)) /\
                                      snd (sem_chain (apath_chain rest) cur (Z.of_nat (List.length l0)) false false x) <> None).
              { apply tbind_fail_iff. intros Hnone. apply H. apply snd_tbind_trace_None.
                split; [apply select_trace_ig | now apply tbind_None_iff]. }
              destruct Hex as [x [Hx Hf]]. exists x. split; [exact Hx|].
              apply Hk; [now apply (sel_true_sub _ _ _ _ Hx) | exact Hf].
           ++ intros [[_ Hc]|H]; [contradiction|]. apply Exists_exists in H. destruct H as [x [Hx Hm]].
              intros Hnone. apply snd_tbind_trace_None in Hnone. destruct Hnone as [_ Hall].
              apply (proj2 (Hk x (sel_true_sub _ _ _ _ Hx)) Hm). now apply Hall.
Qed.

(* on whole paths *)
Corollary C07_strict_path_exactly_when c :
  forallb astep_ok c = true -> small B (c_root C) = true ->
  (snd (sem_path L C Q (apath_chain c)) <> None <-> mismatch c false (c_root C) (c_root C)).
Proof.
  intros Hok Hr. rewrite sem_path_eq. unfold laxm. rewrite Hstrict. now apply C07_strict_exactly_when.
Qed.

End Mismatch.

(* ------------------------------------------------------------------ *)
(* "whatever the position of the offending element" *)

From Coq Require Import Sorting.Permutation.

Theorem position_independent L C Q rest cur l ig u t es es' :
  Permutation es es' ->
  (snd (sem_chain L C Q (SConst CAnyArray :: rest) cur l ig u (JArr t es)) <> None <->
   snd (sem_chain L C Q (SConst CAnyArray :: rest) cur l ig u (JArr t es')) <> None).
Proof.
  intros Hp. rewrite !sem_chain_cons, !sem_step_anyarray, !tbind_fail_iff.
  split; intros [x [Hx Hf]]; exists x; split; try exact Hf.
  - now apply (Permutation_in x Hp).
  - now apply (Permutation_in x (Permutation_sym Hp)).
Qed.

Theorem offending_element_anywhere L C Q rest cur l ig u t l1 x l2 :
  snd (sem_chain L C Q rest cur l ig (laxm C) x) <> None ->
  snd (sem_chain L C Q (SConst CAnyArray :: rest) cur l ig u (JArr t (l1 ++ x :: l2))) <> None.
Proof.
  intros H. rewrite sem_chain_cons, sem_step_anyarray. apply tbind_fail_iff_app. right; left. exact H.
Qed.

(* ------------------------------------------------------------------ *)
(* the tightened class lies inside [accessor_chain] of spec/Proj.v *)

Definition proj_bound (c : chain) : bool :=
  match c with
  | [SInteger _] | [SNumeric _] | [SConst CLast] => true
  | [SBin BSub [SConst CLast] [SInteger _]] | [SBin BAdd [SConst CLast] [SInteger _]] => true
  | _ => false
  end.

Definition proj_operand (c : chain) : bool :=
  match c with
  | [SInteger _] | [SNumeric _] | [SStr _] | [SConst CNull] | [SConst CTrue] | [SConst CFalse] => true
  | _ => accessor_chain c
  end.

Lemma accessor_index subs :
  accessor_step (SIndex subs) =
  forallb (fun ab => proj_bound (fst ab) && match snd ab with Some c => proj_bound c | None => true end) subs.
Proof.
  cbn [accessor_step]. induction subs as [|[a b] r IH]; [reflexivity|].
  cbn [forallb fst snd]. rewrite <- IH. reflexivity.
Qed.

Lemma accessor_filter_cmp op l r :
  accessor_step (SUn UFilter [SBin op l r]) = is_cmp op && proj_operand l && proj_operand r.
Proof. destruct op; reflexivity. Qed.

Lemma accessor_filter_exists a : accessor_step (SUn UFilter [SUn UExists a]) = accessor_chain a.
Proof. reflexivity. Qed.

Lemma proj_operand_of_acc c : accessor_chain c = true -> proj_operand c = true.
Proof.
  intros H. destruct c as [|s [|s' c']]; [exact H | |];
    destruct s as [[]| | | | | | | | | | | | |]; try exact H; reflexivity.
Qed.

Lemma proj_operand_of_lit c : lit_operand c = true -> proj_operand c = true.
Proof.
  destruct c as [|s [|s' c']]; try discriminate.
  - destruct s as [[]| | | | | | | | | | | | |]; try discriminate; reflexivity.
  - destruct s as [[]| | | | | | | | | | | | |]; discriminate.
Qed.

Section Link.
Variable B : Z.

Lemma proj_bound_of_ok c : bound_ok B c = true -> proj_bound c = true.
Proof.
  unfold bound_ok. destruct (bound_form c) as [b|] eqn:E; [|discriminate].
  intros _. apply bound_form_inv in E. subst c. destruct b; reflexivity.
Qed.

Definition Pl (s : step) : Prop :=
  (tight B s = true -> accessor_step s = true) /\
  (cond_ok B s = true -> accessor_step (SUn UFilter [s]) = true).
Definition Ql (c : chain) : Prop :=
  (tight_chain B c = true -> accessor_chain c = true) /\
  match c with [q] => cond_ok B q = true -> accessor_step (SUn UFilter [q]) = true | _ => True end.

Lemma operand_link c : Ql c -> operand_ok B c = true -> proj_operand c = true.
Proof.
  intros [Hq _] H. unfold operand_ok in H. apply orb_true_iff in H.
  destruct H as [H|H]; [now apply proj_operand_of_lit | apply proj_operand_of_acc; now apply Hq].
Qed.

Theorem tight_is_accessor_step s : Pl s.
Proof.
  induction s as [| s c IHs IHc | k | | | | | key | op lc rc IHl IHr | op a IHa | a p f IHa | | | | a b | subs Hsubs]
    using step_ind' with (Q := Ql); try (split; intros H; discriminate H).
  - split; [reflexivity | exact I].
  - split.
    + rewrite tight_chain_cons. intros H. apply andb_true_iff in H. destruct H as [H1 H2].
      cbn [accessor_chain]. now rewrite (proj1 IHs H1), (proj1 IHc H2).
    + destruct c; [exact (proj2 IHs) | exact I].
  - split; [destruct k; intros H; try discriminate H; reflexivity | intros H; discriminate H].
  - split; [reflexivity | intros H; discriminate H].
  - split; [intros H; discriminate H|].
    cbn [cond_ok]. intros H. apply andb_true_iff in H. destruct H as [H H3].
    apply andb_true_iff in H. destruct H as [H1 H2].
    rewrite accessor_filter_cmp, H1, (operand_link lc IHl H2), (operand_link rc IHr H3). reflexivity.
  - split.
    + intros H. destruct op; try discriminate H.
      destruct (tight_filter_inv B a H) as [c [-> Hc]]. exact (proj2 IHa Hc).
    + destruct op; try (intros H; discriminate H). cbn [cond_ok]. intros H.
      rewrite accessor_filter_exists. now apply (proj1 IHa).
  - split; [reflexivity | intros H; discriminate H].
  - split; [|intros H; discriminate H].
    rewrite tight_index, accessor_index. clear Hsubs. induction subs as [|[a b] r IH]; [reflexivity|].
    cbn [forallb fst snd]. intros H. apply andb_true_iff in H. destruct H as [H Hr].
    apply andb_true_iff in H. destruct H as [Ha Hb].
    rewrite (proj_bound_of_ok a Ha), (IH Hr). destruct b as [b|]; [now rewrite (proj_bound_of_ok b Hb) | reflexivity].
Qed.

Theorem tight_is_accessor c : tight_chain B c = true -> accessor_chain c = true.
Proof.
  induction c as [|s r IH]; [reflexivity|]. rewrite tight_chain_cons. intros H.
  apply andb_true_iff in H. destruct H as [H1 H2]. cbn [accessor_chain].
  now rewrite (proj1 (tight_is_accessor_step s) H1), (IH H2).
Qed.

End Link.

(* ------------------------------------------------------------------ *)
(* examples: the hypotheses are satisfiable, and the side conditions are needed *)

Definition sL : ExecLib := SubscriptProofs.exL.
Definition sB : Z := 1000.
Definition sdoc : json :=
  JObj 0 [("a", JArr 1 [JObj 2 [("b", SubscriptProofs.num 1)]; JArr 3 [JObj 4 [("b", SubscriptProofs.num 2)]]; SubscriptProofs.num 7])]%string.
Definition spath : chain :=
  [SConst CRoot; SKey "a"; SKey "b";
   SUn UFilter [SBin BGt [SConst CCurrent] [SInteger 0]]].
Definition spath2 : chain :=
  [SConst CRoot; SKey "a"; SIndex [([SInteger 0], Some [SBin BSub [SConst CLast] [SInteger 1]]); ([SInteger 9], None)];
   SAny 0 max_uint32; SKey "b"].

Example ex_hyps :
  wf_vals sL (mkcenv true sdoc [] false) sB /\ tight_chain sB spath = true /\ tight_chain sB spath2 = true
  /\ accessor_chain spath = true /\ 1 <= sB <= max_int32 + 1.
Proof. vm_compute. repeat split; discriminate. Qed.

(* lax: $.a.b ? (@ > 0): the array under "a" is unwrapped one level — the inner
   array [{"b":2}] is not looked into, the number 7 yields nothing, no error *)
Example ex_lax :
  sem_path sL (mkcenv true sdoc [] false) quirks_ideal spath = ([SubscriptProofs.num 1], None).
Proof. vm_compute. reflexivity. Qed.

(* strict: the same path fails with a suppressible error (a is an array, not an object) *)
Example ex_strict :
  sem_path sL (mkcenv false sdoc [] false) quirks_ideal spath
  = ([], Some (EVerbose "jsonpath member accessor can only be applied to an object")).
Proof. vm_compute. reflexivity. Qed.

Example ex_lax2 :
  sem_path sL (mkcenv true sdoc [] false) quirks_ideal spath2
  = ([SubscriptProofs.num 1; SubscriptProofs.num 2; SubscriptProofs.num 2], None).
Proof. vm_compute. reflexivity. Qed.

(* mismatch, computed: $.a[*].b in strict mode fails because of the elements that are not objects *)
Example ex_mismatch :
  mismatch (mkcenv false sdoc [] false) quirks_ideal [ARoot; AKey "a"; AAnyArray; AKey "b"] false sdoc sdoc.
Proof.
  cbn. right. left. reflexivity.
Qed.

Example ex_no_mismatch :
  ~ mismatch (mkcenv false sdoc [] false) quirks_ideal [ARoot; AKey "a"; AIndex [(BInt 0, None)]; AKey "b"] false sdoc sdoc.
Proof.
  cbn. intros [[_ H]|H].
  - inversion H as [? ? H1|? ? H1]; [discriminate H1 | inversion H1].
  - inversion H as [? ? H1|? ? H1]; [exact H1 | inversion H1].
Qed.

(* COUNTEREXAMPLES to the unrestricted statement (every accessor_chain):
   1. an integer literal outside int32 is an error in lax mode too *)
Example cex_literal_out_of_int32 :
  accessor_chain [SConst CRoot; SIndex [([SInteger 3000000000], None)]] = true /\
  sem_path sL (mkcenv true sdoc [] false) quirks_ideal [SConst CRoot; SIndex [([SInteger 3000000000], None)]]
  = ([], Some (EVerbose "array subscript is out of integer range")).
Proof. vm_compute. split; reflexivity. Qed.

(* 2. last + k can leave int32 although k and the array length are both below 2^31 *)
Example cex_last_plus_overflow :
  accessor_chain [SConst CRoot; SIndex [([SBin BAdd [SConst CLast] [SInteger 2147483647]], None)]] = true /\
  sem_path sL (mkcenv true (JArr 0 [JNull; JNull]) [] false) quirks_ideal
    [SConst CRoot; SIndex [([SBin BAdd [SConst CLast] [SInteger 2147483647]], None)]]
  = ([], Some (EVerbose "array subscript is out of integer range")).
Proof. vm_compute. split; reflexivity. Qed.

(* 3. wf_vals is needed: a json.Number whose text does not parse makes a filter
   comparison fail with a non-suppressible error *)
Example cex_bad_number :
  sem_path sL (mkcenv true (JNum (NJs "x")) [] false) quirks_ideal
    [SConst CRoot; SUn UFilter [SBin BEq [SConst CCurrent] [SInteger 1]]]
  = ([], Some (EInvalid "panic")).
Proof. vm_compute. reflexivity. Qed.

(* 4. ... and so does a datetime value compared with a non-datetime *)
Example cex_datetime :
  sem_path sL (mkcenv true (JDt (mkdt KDate 0 0 0)) [] false) quirks_ideal
    [SConst CRoot; SUn UFilter [SBin BEq [SConst CCurrent] [SInteger 1]]]
  = ([], Some (EInvalid "unknownDateTime")).
Proof. vm_compute. reflexivity. Qed.

(* the hypotheses of C07_strict_exactly_when are satisfiable *)
Example ex_exactly_when_hyps :
  forallb (astep_ok sB) [ARoot; AKey "a"; AIndex [(BInt 0, Some (BLastMinus 1))]; AAny 0 max_uint32; AKey "b"] = true
  /\ small sB sdoc = true /\ to_int64_law sL /\ c_lax (mkcenv false sdoc [] false) = false.
Proof. repeat split; try reflexivity. exact SubscriptProofs.exL_law. Qed.
