(* RefineDefs.v — vocabulary of the refinement proof "the executor model
   (model/Exec.v) refines the trace specification (spec/Sem.v)":

   - the syntactic side conditions (no_kv, exists_ok, unary_tail_free, ne_ops),
   - the refinement relation R between a trace and a model response,
   - the algebra of traces,
   - characterising equations of the specification, one per node kind, proved
     by reflexivity; afterwards [ev], [sem_step], [sem_pred], [sem_chain] are
     made opaque so that goals stay small.

   Stdlib only, no axioms. *)
From Coq Require Import Floats.SpecFloat.
From SJ Require Import lib.Base model.Json model.Ast model.ExecLib model.Leaf model.Exec spec.Sem.

(* ------------------------------------------------------------------ *)
(* Syntactic side conditions                                           *)
(* ------------------------------------------------------------------ *)

(* [all_steps P s]: the shallow test P holds of s and of every step nested in s. *)
Section AllSteps.
Variable P : step -> bool.
Fixpoint all_steps (s : step) {struct s} : bool :=
  let ac := fix ac (c : list step) : bool :=
    match c with [] => true | x :: r => all_steps x && ac r end in
  P s &&
  match s with
  | SBin _ l r => ac l && ac r
  | SUn _ a => ac a
  | SRegex a _ _ => ac a
  | SIndex subs =>
      (fix go (l : list (list step * option (list step))) : bool :=
         match l with
         | [] => true
         | (a, b) :: r => ac a && match b with Some c => ac c | None => true end && go r
         end) subs
  | _ => true
  end.

Fixpoint all_chain (c : chain) : bool :=
  match c with [] => true | x :: r => all_steps x && all_chain r end.

Definition all_sub (ab : chain * option chain) : bool :=
  all_chain (fst ab) && match snd ab with Some c => all_chain c | None => true end.

Fixpoint all_subs (l : list (chain * option chain)) : bool :=
  match l with [] => true | ab :: r => all_sub ab && all_subs r end.
End AllSteps.

Lemma all_steps_eq P s :
  all_steps P s =
  P s && match s with
         | SBin _ l r => all_chain P l && all_chain P r
         | SUn _ a => all_chain P a
         | SRegex a _ _ => all_chain P a
         | SIndex subs => all_subs P subs
         | _ => true
         end.
Proof.
  destruct s; try reflexivity.
  cbn [all_steps]. f_equal.
  match goal with |- _ = all_subs _ ?l => induction l as [|[a b] r IH] end; [reflexivity|].
  cbn [all_subs]. unfold all_sub. cbn [fst snd]. rewrite <- IH. reflexivity.
Qed.

Lemma all_chain_cons P s c : all_chain P (s :: c) = all_steps P s && all_chain P c.
Proof. reflexivity. Qed.

(* is the last step of the chain a unary plus / minus? *)
Definition is_unary_pm (s : step) : bool :=
  match s with SUn UPlus _ | SUn UMinus _ => true | _ => false end.
Fixpoint tail_unary (c : chain) : bool :=
  match c with
  | [] => false
  | s :: r => match r with [] => is_unary_pm s | _ => tail_unary r end
  end.
Definition unary_tail_free (c : chain) : bool := negb (tail_unary c).

(* shallow tests *)
Definition nokv1 (s : step) : bool := match s with SMeth MKeyValue => false | _ => true end.
Definition exok1 (s : step) : bool :=
  match s with SUn UExists a => unary_tail_free a | _ => true end.
(* operand chains that are evaluated as paths (not as predicates) are not empty:
   the grammar cannot build an empty operand, and on an empty chain the executor
   answers "Unknown node type" where the specification says "the item itself". *)
Definition ne_sub (ab : chain * option chain) : bool :=
  negb (cnil (fst ab)) && match snd ab with Some c => negb (cnil c) | None => true end.
Definition ne1 (s : step) : bool :=
  match s with
  | SBin op l r => match op with BAnd | BOr => true | _ => negb (cnil l) && negb (cnil r) end
  | SUn op a => match op with UExists | UPlus | UMinus => negb (cnil a) | _ => true end
  | SRegex a _ _ => negb (cnil a)
  | SIndex subs => forallb ne_sub subs
  | _ => true
  end.

Definition no_kv (c : chain) : bool := all_chain nokv1 c.
Definition exists_ok (c : chain) : bool := all_chain exok1 c.
Definition ne_ops (c : chain) : bool := all_chain ne1 c.

(* the three together, as the main induction threads them *)
Definition side1 (s : step) : bool := nokv1 s && exok1 s && ne1 s.
Definition ok (c : chain) : bool := all_chain side1 c.

Lemma all_and P Q' :
  forall c, all_chain (fun x => P x && Q' x) c = all_chain P c && all_chain Q' c.
Proof.
  apply (chain_ind'
           (fun s => all_steps (fun x => P x && Q' x) s = all_steps P s && all_steps Q' s)
           (fun c => all_chain (fun x => P x && Q' x) c = all_chain P c && all_chain Q' c));
    intros; [reflexivity| |rewrite !all_steps_eq ..].
  - rewrite !all_chain_cons, H, H0.
    destruct (all_steps P s), (all_steps Q' s), (all_chain P c), (all_chain Q' c); reflexivity.
  - destruct (P (SConst k)), (Q' (SConst k)); reflexivity.
  - destruct (P (SStr s)), (Q' (SStr s)); reflexivity.
  - destruct (P (SInteger z)), (Q' (SInteger z)); reflexivity.
  - destruct (P (SNumeric f)), (Q' (SNumeric f)); reflexivity.
  - destruct (P (SVar s)), (Q' (SVar s)); reflexivity.
  - destruct (P (SKey s)), (Q' (SKey s)); reflexivity.
  - rewrite H, H0.
    destruct (P (SBin op l r)), (Q' (SBin op l r)), (all_chain P l), (all_chain Q' l), (all_chain P r), (all_chain Q' r); reflexivity.
  - rewrite H. destruct (P (SUn op a)), (Q' (SUn op a)), (all_chain P a), (all_chain Q' a); reflexivity.
  - rewrite H. destruct (P (SRegex a p f)), (Q' (SRegex a p f)), (all_chain P a), (all_chain Q' a); reflexivity.
  - destruct (P (SMeth m)), (Q' (SMeth m)); reflexivity.
  - destruct (P (SDecimal p s)), (Q' (SDecimal p s)); reflexivity.
  - destruct (P (SDt op t p)), (Q' (SDt op t p)); reflexivity.
  - destruct (P (SAny f l)), (Q' (SAny f l)); reflexivity.
  - assert (Hs : all_subs (fun x => P x && Q' x) subs = all_subs P subs && all_subs Q' subs).
    { induction H as [|[a b] r [Ha Hb] _ IH]; [reflexivity|].
      cbn [all_subs fst snd] in *. unfold all_sub. cbn [fst snd]. rewrite Ha, IH.
      destruct b as [c|].
      - rewrite Hb.
        destruct (all_chain P a), (all_chain Q' a), (all_chain P c), (all_chain Q' c),
          (all_subs P r), (all_subs Q' r); reflexivity.
      - destruct (all_chain P a), (all_chain Q' a), (all_subs P r), (all_subs Q' r); reflexivity. }
    rewrite Hs.
    destruct (P (SIndex subs)), (Q' (SIndex subs)), (all_subs P subs), (all_subs Q' subs); reflexivity.
Qed.

Lemma ok_split c : ok c = no_kv c && exists_ok c && ne_ops c.
Proof.
  unfold ok, no_kv, exists_ok, ne_ops, side1.
  rewrite (all_and (fun x => nokv1 x && exok1 x) ne1 c).
  rewrite (all_and nokv1 exok1 c). reflexivity.
Qed.

Lemma ok_intro c : no_kv c = true -> exists_ok c = true -> ne_ops c = true -> ok c = true.
Proof. intros H1 H2 H3. rewrite ok_split, H1, H2, H3. reflexivity. Qed.

Lemma ok_cons s c : ok (s :: c) = true -> all_steps side1 s = true /\ ok c = true.
Proof. unfold ok. rewrite all_chain_cons. apply andb_true_iff. Qed.

Lemma utf_tail s c : unary_tail_free (s :: c) = true -> c <> [] -> unary_tail_free c = true.
Proof. unfold unary_tail_free. cbn [tail_unary]. destruct c; [congruence|auto]. Qed.

Lemma utf_nil : unary_tail_free [] = true.
Proof. reflexivity. Qed.

(* ------------------------------------------------------------------ *)
(* The refinement relation                                             *)
(* ------------------------------------------------------------------ *)

Definition eclass (e : err) : nat :=
  match e with EVerbose _ => 0 | EExec _ => 1 | EInvalid _ => 2 | ECancel => 3 end%nat.

(* the class of the error object that leaves a call running with verbose = vb *)
Definition vis (vb : bool) (e : err) : option nat :=
  if is_verbose e && negb vb then None else Some (eclass e).

Definition R (found : found_t) (t : trace) (vb : bool) (r : resp) : Prop :=
  match found with
  | Some acc => r_found r = Some (acc ++ fst t) /\
      match snd t with
      | Some e => r_st r = SFailed /\ option_map eclass (r_err r) = vis vb e
      | None => r_st r <> SFailed /\ r_err r = None
      end
  | None => r_found r = None /\
      match fst t, snd t with
      | _ :: _, _ => r_st r = SOK /\ r_err r = None
      | [], Some e => r_st r = SFailed /\ option_map eclass (r_err r) = vis vb e
      | [], None => r_st r = SNotFound /\ r_err r = None
      end
  end.

(* predicates: outcome and class of the error *)
Definition PR (p : presp) (x : pout * option err) : Prop :=
  p_out p = fst x /\ option_map eclass (p_err p) = option_map eclass (snd x).

Lemma is_verbose_class e e' : eclass e = eclass e' -> is_verbose e = is_verbose e'.
Proof. destruct e, e'; cbn; congruence. Qed.

Lemma vis_class vb e e' : eclass e = eclass e' -> vis vb e = vis vb e'.
Proof. intros H. unfold vis. rewrite (is_verbose_class _ _ H), H. reflexivity. Qed.

Lemma vis_hard vb e : is_verbose e = false -> vis vb e = Some (eclass e).
Proof. unfold vis. intros ->. reflexivity. Qed.

Lemma vis_true e : vis true e = Some (eclass e).
Proof. unfold vis. rewrite andb_false_r. reflexivity. Qed.

Lemma vis_false e : vis false e = option_map eclass (hard e).
Proof. unfold vis, hard. rewrite andb_true_r. destruct (is_verbose e); reflexivity. Qed.

Lemma hard_nv e e' : hard e = Some e' -> is_verbose e' = false.
Proof. unfold hard. destruct (is_verbose e) eqn:V; intros H; [discriminate|]. congruence. Qed.

(* ------------------------------------------------------------------ *)
(* Trace algebra                                                       *)
(* ------------------------------------------------------------------ *)

Lemma tapp_nil_r t : tapp t tnil = t.
Proof. destruct t as [a [e|]]; unfold tapp; cbn; [reflexivity|rewrite app_nil_r; reflexivity]. Qed.
Lemma tapp_nil_l t : tapp tnil t = t.
Proof. unfold tapp; cbn. destruct t; reflexivity. Qed.
Lemma tapp_assoc a b c : tapp (tapp a b) c = tapp a (tapp b c).
Proof.
  destruct a as [xa [ea|]], b as [xb [eb|]], c as [xc ec]; unfold tapp; cbn; try reflexivity.
  rewrite app_assoc; reflexivity.
Qed.
Lemma tapp_fail_l e t : tapp (tfail e) t = tfail e.
Proof. reflexivity. Qed.

Lemma tbind_ext l k k' : (forall x, k x = k' x) -> tbind_list l k = tbind_list l k'.
Proof. intro H; induction l as [|x r IH]; cbn [tbind_list]; [reflexivity|rewrite H, IH; reflexivity]. Qed.

Lemma tbind_app l1 l2 k : tbind_list (l1 ++ l2) k = tapp (tbind_list l1 k) (tbind_list l2 k).
Proof.
  induction l1 as [|x r IH]; cbn [tbind_list app]; [rewrite tapp_nil_l; reflexivity|].
  rewrite IH, tapp_assoc. reflexivity.
Qed.

Lemma tbind_one x k : tbind_list [x] k = k x.
Proof. cbn [tbind_list]. apply tapp_nil_r. Qed.

Lemma tbind_filter_null l k :
  tbind_list (filter (fun x => negb (is_null x)) l) k =
  tbind_list l (fun x => if is_null x then tnil else k x).
Proof.
  induction l as [|x r IH]; [reflexivity|].
  cbn [filter tbind_list]. destruct (is_null x); cbn [negb tbind_list]; rewrite IH; [rewrite tapp_nil_l|]; reflexivity.
Qed.

Lemma desc_v_unfold k first last level v :
  desc_v k first last level v =
  tapp (if (level >=? first) || ((first =? max_uint32) && (last =? max_uint32) && negb (Sem.isCollection v))
        then k v else tnil)
       (if level <? last then tbind_list (children v) (desc_v k first last (level + 1)) else tnil).
Proof.
  destruct v; cbn [desc_v children]; try (destruct (level <? last); reflexivity).
  - f_equal. destruct (level <? last); [|reflexivity].
    induction l as [|x r IH]; cbn [tbind_list]; [reflexivity|]. rewrite IH; reflexivity.
  - f_equal. destruct (level <? last); [|reflexivity].
    induction l as [|x r IH]; cbn [tbind_list map]; [reflexivity|]. rewrite IH; reflexivity.
Qed.

Lemma descend_flat k vs : descend k vs 1 1 1 = tbind_list vs k.
Proof.
  unfold descend. change (1 >? 1) with false. cbn iota.
  induction vs as [|v r IH]; cbn [tbind_list]; [reflexivity|].
  rewrite IH, desc_v_unfold. change (1 >=? 1) with true. change (1 <? 1) with false.
  cbn [orb]. rewrite tapp_nil_r. reflexivity.
Qed.

Lemma unwrapSeq_app a b : unwrapSeq (a ++ b) = unwrapSeq a ++ unwrapSeq b.
Proof. unfold unwrapSeq. apply flat_map_app. Qed.

Lemma fold_unwrapInto seq acc : fold_left unwrapInto seq acc = acc ++ unwrapSeq seq.
Proof.
  revert acc. induction seq as [|x r IH]; intros acc; cbn [fold_left unwrapSeq flat_map].
  - rewrite app_nil_r. reflexivity.
  - rewrite IH. unfold unwrapInto. fold (unwrapSeq r).
    destruct x; rewrite <- app_assoc; reflexivity.
Qed.

Lemma unwrap_over_false v one : unwrap_over false v one = one v.
Proof. destruct v; reflexivity. Qed.

Lemma unwrap_over_nonarr u v one : is_array v = false -> unwrap_over u v one = one v.
Proof. destruct v; try reflexivity. discriminate. Qed.

Lemma unwrap_over_arr t l one : unwrap_over true (JArr t l) one = tbind_list l one.
Proof. reflexivity. Qed.

(* ------------------------------------------------------------------ *)
(* Characterising equations of the specification                       *)
(* ------------------------------------------------------------------ *)
Section SemEq.
Variables (L : ExecLib) (C : cenv) (Q : quirks).

Notation lx := (laxm C).
Notation SC := (sem_chain L C Q).
Notation SS := (sem_step L C Q).
Notation SP := (sem_pred L C Q).

Definition kont (rest : chain) (cur : json) : Z -> bool -> json -> trace :=
  fun z ig x => SC rest cur z ig lx x.

Lemma sem_chain_nil c z ig u v : SC [] c z ig u v = tone v.
Proof. reflexivity. Qed.
Lemma sem_chain_cons s rest c z ig u v :
  SC (s :: rest) c z ig u v = SS s (kont rest c) c z ig u v.
Proof. reflexivity. Qed.

(* a chain used as a predicate operand: exactly one step *)
Definition pred_chain (n : chain) (c : json) (z : Z) (ig : bool) (v : json) : pout * option err :=
  match n with
  | [q] => SP q c z ig v
  | _ => (PUnknown, Some (EInvalid "boolean jsonpath item"))
  end.

Definition operand (n : chain) (unwrap : bool) (c : json) (z : Z) (ig : bool) (v : json)
  : list json + option err :=
  let t := SC n c z ig lx v in
  match snd t with
  | Some e => inr (hard e)
  | None => inl (if unwrap && lx then unwrapSeq (fst t) else fst t)
  end.

Definition predicate (l : chain) (r : option chain) (unwrapRight : bool)
           (cb : json -> json -> pout * option err) (c : json) (z : Z) (ig : bool) (v : json)
  : pout * option err :=
  match operand l true c z ig v with
  | inr e => (PUnknown, e)
  | inl lseq =>
      match (match r with Some rn => operand rn unwrapRight c z ig v | None => inl [JNull] end) with
      | inr e => (PUnknown, e)
      | inl rseq => spairs (negb lx) cb lseq rseq false false
      end
  end.

Definition bool_sem (p : pout * option err) (k : json -> trace) : trace :=
  match p with
  | (_, Some e) => tfail e
  | (p, None) => k (bool_item p)
  end.

(* --- steps --- *)
Lemma sem_step_root k c z ig u v : SS (SConst CRoot) k c z ig u v = k z ig (c_root C).
Proof. reflexivity. Qed.
Lemma sem_step_current k c z ig u v : SS (SConst CCurrent) k c z ig u v = k z ig c.
Proof. reflexivity. Qed.
Lemma sem_step_null k c z ig u v : SS (SConst CNull) k c z ig u v = k z ig JNull.
Proof. reflexivity. Qed.
Lemma sem_step_true k c z ig u v : SS (SConst CTrue) k c z ig u v = k z ig (JBool true).
Proof. reflexivity. Qed.
Lemma sem_step_false k c z ig u v : SS (SConst CFalse) k c z ig u v = k z ig (JBool false).
Proof. reflexivity. Qed.
Lemma sem_step_last k c z ig u v :
  SS (SConst CLast) k c z ig u v =
  if z <? 0 then tfail (EExec "evaluating jsonpath LAST outside of array subscript")
  else k z ig (JNum (NInt (z - 1))).
Proof. reflexivity. Qed.

Definition anykey_one (ig : bool) (k : json -> trace) (x : json) : trace :=
  match x with
  | JObj _ l => tbind_list (map snd l) k
  | _ => structural ig "jsonpath wildcard member accessor can only be applied to an object"
  end.
Lemma sem_step_anykey k c z ig u v :
  SS (SConst CAnyKey) k c z ig u v = unwrap_over u v (anykey_one ig (k z ig)).
Proof. reflexivity. Qed.

Lemma sem_step_anyarray k c z ig u v :
  SS (SConst CAnyArray) k c z ig u v =
  match v with
  | JArr _ l => tbind_list l (k z ig)
  | _ => if lx then k z ig v
         else structural ig "jsonpath wildcard array accessor can only be applied to an array"
  end.
Proof. reflexivity. Qed.

Lemma sem_step_str x k c z ig u v : SS (SStr x) k c z ig u v = k z ig (JStr x).
Proof. reflexivity. Qed.
Lemma sem_step_integer x k c z ig u v : SS (SInteger x) k c z ig u v = k z ig (JNum (NInt x)).
Proof. reflexivity. Qed.
Lemma sem_step_numeric x k c z ig u v : SS (SNumeric x) k c z ig u v = k z ig (JNum (NFlt x)).
Proof. reflexivity. Qed.
Lemma sem_step_var name k c z ig u v :
  SS (SVar name) k c z ig u v =
  match lookup name (c_vars C) with
  | Some val => k z ig val
  | None => tfail (EExec "could not find jsonpath variable")
  end.
Proof. reflexivity. Qed.

Definition key_one (key : string) (ig : bool) (k : json -> trace) (x : json) : trace :=
  match x with
  | JObj _ l => match lookup key l with
                | Some y => k y
                | None => structural ig "JSON object does not contain key"
                end
  | _ => structural ig "jsonpath member accessor can only be applied to an object"
  end.
Lemma sem_step_key key k c z ig u v :
  SS (SKey key) k c z ig u v = unwrap_over u v (key_one key ig (k z ig)).
Proof. reflexivity. Qed.

Lemma sem_step_any first last k c z ig u v :
  SS (SAny first last) k c z ig u v =
  tapp (if first =? 0 then k z true v else tnil)
       (if Sem.isCollection v then descend (k z true) (children v) 1 first last else tnil).
Proof. reflexivity. Qed.

(* subscripts *)
Section Subs.
  Variables (k : Z -> bool -> json -> trace) (c : json) (ig : bool) (v : json) (es : list json) (size : Z).
  Fixpoint sem_subs (subs : list (chain * option chain)) : trace :=
    match subs with
    | [] => tnil
    | (a, b) :: rest =>
        match index_of L (SC a c size ig lx v) with
        | inr e => tfail e
        | inl from =>
            match (match b with
                   | Some bn => index_of L (SC bn c size ig lx v)
                   | None => inl from
                   end) with
            | inr e => tfail e
            | inl to =>
                if negb ig && ((from <? 0) || (from >? to) || (to >=? size))
                then tfail (EVerbose "jsonpath array subscript is out of bounds")
                else
                  let f := if from <? 0 then 0 else from in
                  let t := if to >=? size then size - 1 else to in
                  let sel := Sem.slice es f t in
                  let sel' := if q_skip_null Q then filter (fun x => negb (is_null x)) sel else sel in
                  tapp (tbind_list sel' (k size ig)) (sem_subs rest)
            end
        end
    end.
End Subs.

Lemma sem_step_index subs k c z ig u v :
  SS (SIndex subs) k c z ig u v =
  match (match v with JArr _ es => Some es | _ => if lx then Some [v] else None end) with
  | None => tfail (EVerbose "jsonpath array accessor can only be applied to an array")
  | Some es => sem_subs k c ig v es (Z.of_nat (List.length es)) subs
  end.
Proof. reflexivity. Qed.

Definition filter_one (a : chain) (z : Z) (ig : bool) (k : json -> trace) (x : json) : trace :=
  match pred_chain a x z ig x with
  | (_, Some e) => tfail e
  | (PTrue, None) => k x
  | (_, None) => tnil
  end.
Lemma sem_step_filter a k c z ig u v :
  SS (SUn UFilter a) k c z ig u v = unwrap_over u v (filter_one a z ig (k z ig)).
Proof. reflexivity. Qed.

Definition unary_one (minus : bool) (k : json -> trace) (x : json) : trace :=
  match x with
  | JNum (NInt z) => k (JNum (NInt (if minus then intUMinus z else z)))
  | JNum (NFlt f) => k (JNum (NFlt (if minus then fneg f else f)))
  | JNum (NJs t') =>
      match castJSONNumber L t' (if minus then intUMinus else fun z => z) (if minus then fneg else fun f => f) with
      | Some n => k (JNum n)
      | None => tfail (EVerbose "operand of unary jsonpath operator is not a numeric value")
      end
  | _ => tfail (EVerbose "operand of unary jsonpath operator is not a numeric value")
  end.
Lemma sem_step_unary (minus : bool) a k c z ig u v :
  SS (SUn (if minus then UMinus else UPlus) a) k c z ig u v =
  let t := SC a c z ig lx v in
  match snd t with
  | Some e => tfail e
  | None => tbind_list (if lx then unwrapSeq (fst t) else fst t) (unary_one minus (k z ig))
  end.
Proof. destruct minus; reflexivity. Qed.

Definition arith_sem (op : binop) (l r : chain) (k : json -> trace) (c : json) (z : Z) (ig : bool) (v : json) : trace :=
  let tl := SC l c z ig lx v in
  match snd tl with
  | Some e => tfail e
  | None =>
      match (if lx then unwrapSeq (fst tl) else fst tl) with
      | [lv] =>
          let tr := SC r c z ig lx v in
          match snd tr with
          | Some e => tfail e
          | None =>
              match (if lx then unwrapSeq (fst tr) else fst tr) with
              | [rv] => match execMathOp L lv rv op with
                        | MErr e => tfail e
                        | MOk n => k (JNum n)
                        end
              | _ => tfail (mathOperandErr "right")
              end
          end
      | _ => tfail (mathOperandErr "left")
      end
  end.
Lemma sem_step_arith op l r k c z ig u v :
  Sem.is_bool_binop op = false ->
  SS (SBin op l r) k c z ig u v = arith_sem op l r (k z ig) c z ig v.
Proof. destruct op; intros H; try discriminate H; reflexivity. Qed.

Lemma sem_step_boolbin op l r k c z ig u v :
  Sem.is_bool_binop op = true ->
  SS (SBin op l r) k c z ig u v = bool_sem (SP (SBin op l r) c z ig v) (k z ig).
Proof. destruct op; intros H; try discriminate H; reflexivity. Qed.

Lemma sem_step_boolun op a k c z ig u v :
  match op with UNot | UIsUnknown | UExists => true | _ => false end = true ->
  SS (SUn op a) k c z ig u v = bool_sem (SP (SUn op a) c z ig v) (k z ig).
Proof. destruct op; intros H; try discriminate H; reflexivity. Qed.

Lemma sem_step_regex a pat flags k c z ig u v :
  SS (SRegex a pat flags) k c z ig u v = bool_sem (SP (SRegex a pat flags) c z ig v) (k z ig).
Proof. reflexivity. Qed.

Lemma sem_step_meth m k c z ig u v unwraps lf :
  method_leaf L lx ig m = Some (unwraps, lf) ->
  SS (SMeth m) k c z ig u v =
  if unwraps then unwrap_over u v (leaf_k lf (k z ig)) else leaf_k lf (k z ig) v.
Proof.
  destruct m; cbn [method_leaf]; intros H; try discriminate H;
    injection H as <- <-; reflexivity.
Qed.

Lemma sem_step_decimal p sc k c z ig u v :
  SS (SDecimal p sc) k c z ig u v = unwrap_over u v (leaf_k (leaf_number L (Some (p, sc))) (k z ig)).
Proof. reflexivity. Qed.
Lemma sem_step_dt op tmpl prec k c z ig u v :
  SS (SDt op tmpl prec) k c z ig u v =
  unwrap_over u v (leaf_k (leaf_datetime L (c_useTZ C) op tmpl prec) (k z ig)).
Proof. reflexivity. Qed.

(* --- predicates --- *)
Lemma sem_pred_and l r c z ig v :
  SP (SBin BAnd l r) c z ig v =
  match pred_chain l c z ig v with
  | (PFalse, e) => (PFalse, e)
  | (pl, Some e) => (pl, Some e)
  | (pl, None) => match pred_chain r c z ig v with
                  | (PTrue, e2) => (pl, e2)
                  | x => x
                  end
  end.
Proof. reflexivity. Qed.

Lemma sem_pred_or l r c z ig v :
  SP (SBin BOr l r) c z ig v =
  match pred_chain l c z ig v with
  | (PTrue, e) => (PTrue, e)
  | (pl, Some e) => (pl, Some e)
  | (pl, None) => match pred_chain r c z ig v with
                  | (PFalse, _) => (pl, None)
                  | x => x
                  end
  end.
Proof. reflexivity. Qed.

Definition is_cmp (op : binop) : bool :=
  match op with BEq | BNe | BLt | BGt | BLe | BGe => true | _ => false end.

Lemma sem_pred_cmp op l r c z ig v :
  is_cmp op = true ->
  SP (SBin op l r) c z ig v =
  predicate l (Some r) true (fun a b => total_cb (compareItems L (c_useTZ C) op a b)) c z ig v.
Proof. destruct op; intros H; try discriminate H; reflexivity. Qed.

Lemma sem_pred_startswith l r c z ig v :
  SP (SBin BStartsWith l r) c z ig v = predicate l (Some r) false executeStartsWith c z ig v.
Proof. reflexivity. Qed.

Lemma sem_pred_arith op l r c z ig v :
  Sem.is_bool_binop op = false ->
  SP (SBin op l r) c z ig v = (PUnknown, Some (EInvalid "invalid jsonpath boolean operator")).
Proof. destruct op; intros H; try discriminate H; reflexivity. Qed.

Lemma sem_pred_regex a pat flags c z ig v :
  SP (SRegex a pat flags) c z ig v =
  predicate a None false (fun x _ => executeLikeRegex L pat flags x) c z ig v.
Proof. reflexivity. Qed.

Lemma sem_pred_not a c z ig v :
  SP (SUn UNot a) c z ig v =
  match pred_chain a c z ig v with
  | (PUnknown, e) => (PUnknown, e)
  | (PTrue, _) => (PFalse, None)
  | (PFalse, _) => (PTrue, None)
  end.
Proof. reflexivity. Qed.

Lemma sem_pred_isunknown a c z ig v :
  SP (SUn UIsUnknown a) c z ig v =
  match pred_chain a c z ig v with
  | (q, Some e) => if q_iu_swallow Q
                   then (predFrom (match q with PUnknown => true | _ => false end), None)
                   else (PUnknown, Some e)
  | (q, None) => (predFrom (match q with PUnknown => true | _ => false end), None)
  end.
Proof. reflexivity. Qed.

Lemma sem_pred_exists a c z ig v :
  SP (SUn UExists a) c z ig v =
  let t := SC a c z ig lx v in
  if lx then
    match fst t, snd t with
    | _ :: _, _ => (PTrue, None)
    | [], Some e => (PUnknown, hard e)
    | [], None => (PFalse, None)
    end
  else
    match snd t, fst t with
    | Some e, _ => (PUnknown, hard e)
    | None, [] => (PFalse, None)
    | None, _ => (PTrue, None)
    end.
Proof. reflexivity. Qed.

Definition is_pred_step (s : step) : bool :=
  match s with
  | SBin _ _ _ | SRegex _ _ _ => true
  | SUn op _ => match op with UNot | UIsUnknown | UExists => true | _ => false end
  | _ => false
  end.

Lemma sem_pred_other s c z ig v :
  is_pred_step s = false ->
  SP s c z ig v = (PUnknown, Some (EInvalid "invalid boolean jsonpath item type")).
Proof. destruct s as [k| | | | | | | op a | | | | | | ]; try destruct k; try destruct op; intros H; try discriminate H; reflexivity. Qed.

End SemEq.

Global Opaque ev sem_step sem_pred sem_chain.
