(* ParsePrint.v — C02, parser half: the parser maps the token-level print of a
   tree (proofs/Tokens.v) back to the tree.
     parse_tokens L (tok_path L p) = POk p
   for every wf_path p outside the excluded classes, for every L with Laws. *)
From Coq Require Import Floats.SpecFloat.
From SJ Require Import lib.Base lib.Utf8 lib.GoLib model.Json model.Ast model.Lexer model.Parser
  model.Printer proofs.LexProofs proofs.ParseProofs proofs.ParseMono proofs.ParseWf proofs.RoundTrip proofs.Tokens.
From Coq Require Import Btauto.
Local Open Scope list_scope.
Local Open Scope parse_scope.
Notation length := List.length (only parsing).

(* "for all large enough fuel, g returns v" *)
Definition ev {A} (g : nat -> A) (v : A) : Prop := exists n, forall f, (n <= f)%nat -> g f = v.

Lemma ev_const {A} (v : A) : ev (fun _ => v) v.
Proof. exists 0%nat. reflexivity. Qed.

(* head-of-continuation predicates *)
Definition hdk (ts : list token) : option tkind :=
  match ts with t :: _ => Some (tk t) | [] => None end.

(* what may follow the print of a chain: not an accessor start, not '{', '(',
   and not IS (which would extend "( predicate )") *)
Definition follow_ok (ts : list token) : bool :=
  match hdk ts with
  | Some (TChar c) => negb ((c =? 46) || (c =? 91) || (c =? 63) || (c =? 123) || (c =? 40))
  | Some (TKw KIs) | Some (TKw KFlag) | Some (TErr _) => false
  | _ => true
  end.

Definition nobrace (ts : list token) : bool :=
  match hdk ts with Some (TChar c) => negb (c =? 123) | _ => true end.

Lemma follow_nobrace ts : follow_ok ts = true -> nobrace ts = true.
Proof.
  unfold follow_ok, nobrace. destruct (hdk ts) as [[]|]; auto.
  destruct (c =? 46), (c =? 91), (c =? 63), (c =? 123), (c =? 40); cbn; congruence.
Qed.

Lemma follow_noacc ts : follow_ok ts = true -> starts_accessor ts = false.
Proof.
  unfold follow_ok, starts_accessor, hdk, is_char. destruct ts as [|[k txt] r]; [reflexivity|].
  cbn [tk]. destruct k; try reflexivity. intros H.
  destruct (c =? 46); [discriminate|]. destruct (c =? 91); [discriminate|].
  destruct (c =? 63); [discriminate|]. reflexivity.
Qed.

Ltac lnorm := repeat (progress (rewrite <- ?app_assoc; cbn [app])).

Section L.
Variable L : GoLib.
Hypothesis HL : Laws L.

(* p_accs stops at a token that starts no accessor *)
Lemma p_accs_stop f ts : starts_accessor ts = false -> p_accs L (S f) ts = ROk ([], ts).
Proof.
  intros H. rewrite p_accs_S. destruct ts as [|[k txt] r]; [reflexivity|].
  unfold starts_accessor, is_char in H. cbn [tk] in H.
  destruct k; try reflexivity.
  destruct (c =? 46) eqn:E1; [discriminate|]. destruct (c =? 91) eqn:E2; [discriminate|].
  destruct (c =? 63) eqn:E3; [discriminate|].
  destruct c as [|p|p]; try reflexivity.
  do 7 (destruct p as [p|p|]; try reflexivity; try (cbn in E1, E2, E3; discriminate)).
Qed.

(* integers printed by FormatInt are read back by ParseInt *)
Lemma new_integer_format z : 0 <= z <= max_int64 -> new_integer L (format_int L z) = ROk z.
Proof.
  intros R. unfold new_integer.
  destruct (format_int_nonneg L HL z ltac:(lia)) as [C V].
  pose proof (parse_int0_dec L HL _ C) as P. rewrite str_of_bytes_of in P. rewrite P, V.
  replace (z <=? max_int64) with true by lia. reflexivity.
Qed.

Lemma parse_int0_format z : 0 <= z <= max_int64 -> parse_int0 L (format_int L z) = Some z.
Proof.
  intros R. pose proof (new_integer_format z R) as H. unfold new_integer in H.
  destruct (parse_int0 L (format_int L z)); inversion H; reflexivity.
Qed.

(* ---- leaf accessors through p_dot ---- *)
Lemma p_dot_key t ts : p_dot L (mktok TString t :: ts) = ROk (SKey t, ts).
Proof. reflexivity. Qed.

Lemma p_dot_anykey ts : p_dot L (ctok 42 :: ts) = ROk (SConst CAnyKey, ts).
Proof. reflexivity. Qed.

Lemma p_dot_meth m ts :
  p_dot L (kwt (fst (meth_kw m)) (snd (meth_kw m)) :: ctok 40 :: ctok 41 :: ts) = ROk (SMeth m, ts).
Proof. destruct m; reflexivity. Qed.

Lemma p_any_level_last ts : p_any_level L (kwt KLast "last" :: ts) = ROk (-1, ts).
Proof. reflexivity. Qed.

Lemma p_any_level_int x ts :
  0 <= x <= max_int64 -> p_any_level L (mktok TInt (format_int L x) :: ts) = ROk (x, ts).
Proof. intros R. cbn [p_any_level]. rewrite parse_int0_format by exact R. reflexivity. Qed.

Lemma any_level_toks x ts :
  0 <= x <= max_uint32 ->
  exists v, p_any_level L (level_toks L x ++ ts) = ROk (v, ts) /\ any_bound v = x.
Proof.
  intros R. unfold level_toks, max_uint32 in *. destruct (x =? 4294967295) eqn:E.
  - exists (-1). cbn [app]. rewrite p_any_level_last. split; [reflexivity|].
    unfold any_bound, max_uint32. cbn. lia.
  - exists x. cbn [app]. rewrite p_any_level_int by (unfold max_int64; lia). split; [reflexivity|].
    unfold any_bound, max_uint32. replace ((0 <=? x) && (x <? 4294967295)) with true by lia. reflexivity.
Qed.

Lemma p_any_nobrace ts : nobrace ts = true -> p_any L ts = ROk (new_any 0 (-1), ts).
Proof.
  unfold nobrace, hdk, p_any. destruct ts as [|[k txt] r]; [reflexivity|]. cbn [tk].
  destruct k; try reflexivity. intros H.
  destruct c as [|p|p]; try reflexivity.
  do 7 (destruct p as [p|p|]; try reflexivity; try (cbn in H; discriminate)).
Qed.

Lemma p_dot_any a b ts :
  0 <= a <= max_uint32 -> 0 <= b <= max_uint32 -> nobrace ts = true ->
  p_dot L (any_toks L a b ++ ts) = ROk (SAny a b, ts).
Proof.
  intros Ra Rb Hb. unfold any_toks.
  destruct ((a =? 0) && (b =? max_uint32)) eqn:E0.
  { cbn [app p_dot]. rewrite p_any_nobrace by exact Hb. unfold new_any.
    assert (a = 0 /\ b = max_uint32) as [-> ->] by lia. reflexivity. }
  destruct (a =? b) eqn:E1.
  { assert (b = a) by lia. subst b.
    destruct (any_level_toks a (ctok 125 :: ts) Ra) as [v [P B]].
    lnorm. cbn [p_dot p_any ctok kwt]. rewrite P. cbn [rbind].
    unfold new_any. rewrite B. reflexivity. }
  destruct (any_level_toks a (kwt KTo "to" :: level_toks L b ++ ctok 125 :: ts) Ra) as [v [P B]].
  destruct (any_level_toks b (ctok 125 :: ts) Rb) as [w [P2 B2]].
  lnorm. cbn [p_dot p_any ctok kwt]. rewrite P. cbn [rbind].
  rewrite P2. cbn [rbind]. unfold new_any. rewrite B, B2. reflexivity.
Qed.

(* ---- .decimal() / datetime arguments ---- *)
Lemma lit_int_ok_range z : lit_int_ok z = true -> - max_int64 <= z <= max_int64.
Proof. unfold lit_int_ok. lia. Qed.

Lemma p_csv_elem_int z ts :
  lit_int_ok z = true -> p_csv_elem L (int_toks L z ++ ts) = ROk (z, ts).
Proof.
  intros R. apply lit_int_ok_range in R. unfold int_toks. destruct (z <? 0) eqn:E.
  - cbn [app p_csv_elem ctok]. rewrite new_integer_format by lia. cbn [rbind]. f_equal. f_equal. lia.
  - cbn [app p_csv_elem]. rewrite new_integer_format by lia. reflexivity.
Qed.

Lemma p_csv_rest_close acc ts : p_csv_rest L acc (ctok 41 :: ts) = ROk (acc, ts).
Proof. reflexivity. Qed.

Lemma p_csv_rest_one acc z ts :
  lit_int_ok z = true ->
  p_csv_rest L acc (ctok 44 :: int_toks L z ++ ctok 41 :: ts) = ROk (acc ++ [z], ts).
Proof.
  intros R. apply lit_int_ok_range in R. unfold int_toks. destruct (z <? 0) eqn:E.
  - cbn [app p_csv_rest ctok]. rewrite new_integer_format by lia. cbn [rbind].
    replace (- - z) with z by lia. reflexivity.
  - cbn [app p_csv_rest ctok]. rewrite new_integer_format by lia. reflexivity.
Qed.

Lemma int_toks_not_close z : exists t r, int_toks L z = t :: r /\ (tk t = TInt \/ tk t = TChar 45).
Proof. unfold int_toks. destruct (z <? 0); eexists; eexists; split; try reflexivity; cbn; auto. Qed.

Lemma p_decimal_args_some p ts rest_args args_v :
  lit_int_ok p = true ->
  p_csv_rest L [p] rest_args = ROk (args_v, ts) ->
  p_decimal_args L (int_toks L p ++ rest_args) =
    match args_v with
    | [] => ROk (SDecimal None None, ts)
    | [a] => ROk (SDecimal (Some a) None, ts)
    | [a; b] => ROk (SDecimal (Some a) (Some b), ts)
    | _ => RErr EDecimalArgs
    end.
Proof.
  intros R H. unfold p_decimal_args.
  pose proof (p_csv_elem_int p rest_args R) as E.
  destruct (int_toks_not_close p) as [t [r [Et Hk]]]. rewrite Et in *.
  destruct t as [k txt]. cbn [tk] in Hk.
  destruct Hk as [-> | ->]; cbn [app] in *; rewrite E; cbn [rbind]; rewrite H; reflexivity.
Qed.

Lemma p_dot_decimal p sc ts :
  step_ok L (SDecimal p sc) = true ->
  p_dot L (kwt KDecimal "decimal" :: ctok 40 ::
           (match p with Some z => int_toks L z | None => [] end) ++
           (match sc with Some z => ctok 44 :: int_toks L z | None => [] end) ++ ctok 41 :: ts)
  = ROk (SDecimal p sc, ts).
Proof.
  intros Hs. cbn [step_ok] in Hs.
  destruct p as [p|]; destruct sc as [sc|]; try discriminate.
  - apply andb_prop in Hs as [Hp Hsc].
    cbn [p_dot kwt ctok tk meth_of_kw]. lnorm.
    rewrite (p_decimal_args_some p ts (ctok 44 :: int_toks L sc ++ ctok 41 :: ts) [p; sc]);
      [reflexivity|exact Hp|]. rewrite p_csv_rest_one by exact Hsc. reflexivity.
  - rewrite andb_true_r in Hs.
    cbn [p_dot kwt ctok tk meth_of_kw]. lnorm.
    rewrite (p_decimal_args_some p ts (ctok 41 :: ts) [p]); [reflexivity|exact Hs|reflexivity].
  - reflexivity.
Qed.

Lemma p_dot_dt op tmpl prec ts :
  step_ok L (SDt op tmpl prec) = true ->
  p_dot L (kwt (fst (dtop_kw op)) (snd (dtop_kw op)) :: ctok 40 ::
           (match tmpl, prec with
            | Some t, _ => [mktok TString t]
            | None, Some z => int_toks L z
            | None, None => []
            end) ++ ctok 41 :: ts)
  = ROk (SDt op tmpl prec, ts).
Proof.
  intros Hs. cbn [step_ok] in Hs.
  destruct op; destruct tmpl as [t|]; destruct prec as [z|]; try discriminate; try reflexivity.
  all: unfold int_toks; replace (z <? 0) with false by lia;
       cbn [app p_dot kwt ctok tk meth_of_kw dtprec_of_kw dtop_kw fst snd];
       rewrite new_integer_format by lia; reflexivity.
Qed.

(* ---- accessor steps, one at a time ---- *)
Definition acc_ev (s : step) : Prop :=
  forall hn ts' v r', nobrace ts' = true ->
    ev (fun f => p_accs L f ts') (ROk (v, r')) ->
    ev (fun f => p_accs L f (tok_step L s hn true true ++ ts')) (ROk (s :: v, r')).

Lemma acc_ev_dot s X :
  (forall hn, tok_step L s hn true true = ctok 46 :: X) ->
  (forall ts', nobrace ts' = true -> p_dot L (X ++ ts') = ROk (s, ts')) ->
  acc_ev s.
Proof.
  intros HX HD hn ts' v r' Hb [n Hn]. exists (S n). intros [|f] Hf; [lia|].
  rewrite HX. cbn [app]. rewrite p_accs_S. cbn [ctok]. rewrite HD by exact Hb. cbn [rbind].
  rewrite Hn by lia. reflexivity.
Qed.

Lemma acc_ev_key t : acc_ev (SKey t).
Proof. apply (acc_ev_dot (SKey t) [mktok TString t]); intros; reflexivity. Qed.

Lemma acc_ev_anykey : acc_ev (SConst CAnyKey).
Proof. apply (acc_ev_dot (SConst CAnyKey) [ctok 42]); intros; reflexivity. Qed.

Lemma acc_ev_meth m : acc_ev (SMeth m).
Proof.
  apply (acc_ev_dot (SMeth m) [kwt (fst (meth_kw m)) (snd (meth_kw m)); ctok 40; ctok 41]);
    intros; [reflexivity|]. cbn [app]. apply p_dot_meth.
Qed.

Lemma acc_ev_any a b : step_ok L (SAny a b) = true -> acc_ev (SAny a b).
Proof.
  intros Hs. cbn [step_ok] in Hs.
  apply (acc_ev_dot (SAny a b) (any_toks L a b)); intros; [reflexivity|].
  apply p_dot_any; [lia|lia|assumption].
Qed.

Lemma acc_ev_decimal p sc : step_ok L (SDecimal p sc) = true -> acc_ev (SDecimal p sc).
Proof.
  intros Hs.
  apply (acc_ev_dot (SDecimal p sc)
           ([kwt KDecimal "decimal"; ctok 40] ++
            (match p with Some z => int_toks L z | None => [] end) ++
            (match sc with Some z => ctok 44 :: int_toks L z | None => [] end) ++ [ctok 41])).
  - intros. reflexivity.
  - intros ts' _. lnorm. apply p_dot_decimal. exact Hs.
Qed.

Lemma acc_ev_dt op tmpl prec : step_ok L (SDt op tmpl prec) = true -> acc_ev (SDt op tmpl prec).
Proof.
  intros Hs.
  apply (acc_ev_dot (SDt op tmpl prec)
           ([kwt (fst (dtop_kw op)) (snd (dtop_kw op)); ctok 40] ++
            (match tmpl, prec with
             | Some t, _ => [mktok TString t]
             | None, Some z => int_toks L z
             | None, None => []
             end) ++ [ctok 41])).
  - intros. reflexivity.
  - intros ts' _. lnorm. apply p_dot_dt. exact Hs.
Qed.

Lemma acc_ev_anyarray : acc_ev (SConst CAnyArray).
Proof.
  intros hn ts' v r' Hb [n Hn]. exists (S n). intros [|f] Hf; [lia|].
  cbn [tok_step const_toks app]. rewrite p_accs_S. cbn [ctok rbind]. rewrite Hn by lia. reflexivity.
Qed.

(* ------------------------------------------------------------------ *)
(* the hypotheses wf_chain + not excluded, as one recursive predicate *)
Definition gP (s : step) : bool := step_ok L s && negb (integral_numeric s).
Definition gQ (c : chain) : bool := chain_shape c && negb (op_with_tail c).
Definition good (c : chain) : bool := gQ c && ch_all gP gQ c.

Lemma st_all_and (P1 P2 : step -> bool) (Q1 Q2 : chain -> bool) s :
  st_all (fun s => P1 s && P2 s) (fun c => Q1 c && Q2 c) s = st_all P1 Q1 s && st_all P2 Q2 s.
Proof.
  induction s using step_ind' with
    (Q := fun c => ch_all (fun s => P1 s && P2 s) (fun c => Q1 c && Q2 c) c
                   = ch_all P1 Q1 c && ch_all P2 Q2 c);
    try (cbn [st_all]; btauto).
  - reflexivity.
  - cbn [ch_all]. rewrite IHs, IHs0. btauto.
  - rewrite !st_all_bin. rewrite IHs, IHs0. btauto.
  - rewrite !st_all_un. rewrite IHs. btauto.
  - rewrite !st_all_regex. rewrite IHs. btauto.
  - rewrite !st_all_index.
    assert (E: forallb (fun ab : list step * option (list step) => (Q1 (fst ab) && Q2 (fst ab)) &&
                  ch_all (fun s => P1 s && P2 s) (fun c => Q1 c && Q2 c) (fst ab) &&
                  match snd ab with
                  | Some c => (Q1 c && Q2 c) && ch_all (fun s => P1 s && P2 s) (fun c => Q1 c && Q2 c) c
                  | None => true end) subs =
               forallb (fun ab : list step * option (list step) => Q1 (fst ab) && ch_all P1 Q1 (fst ab) &&
                  match snd ab with Some c => Q1 c && ch_all P1 Q1 c | None => true end) subs &&
               forallb (fun ab : list step * option (list step) => Q2 (fst ab) && ch_all P2 Q2 (fst ab) &&
                  match snd ab with Some c => Q2 c && ch_all P2 Q2 c | None => true end) subs).
    { induction H as [|[a b] subs [Ha Hb] _ IHf]; [reflexivity|].
      cbn [forallb fst snd] in *. rewrite IHf, Ha. destruct b as [c|]; [rewrite Hb|]; btauto. }
    cbv beta in *. rewrite E. btauto.
Qed.

Lemma ch_all_and (P1 P2 : step -> bool) (Q1 Q2 : chain -> bool) c :
  ch_all (fun s => P1 s && P2 s) (fun c => Q1 c && Q2 c) c = ch_all P1 Q1 c && ch_all P2 Q2 c.
Proof.
  induction c as [|x r IH]; [reflexivity|]. cbn [ch_all]. rewrite st_all_and, IH. btauto.
Qed.

Lemma good_of_wf c : wf_chain L c = true -> excl_chain c = false -> good c = true.
Proof.
  unfold wf_chain, excl_chain, good, gQ. intros W E.
  apply andb_prop in W as [W1 W2]. apply orb_false_elim in E as [E1 E2].
  apply negb_false_iff in E1.
  unfold gP. rewrite ch_all_and. rewrite W1, W2, E1, E2. reflexivity.
Qed.

(* ---- sorts, levels, shapes ---- *)
Definition psort (c : chain) : sort := if is_pred_chain c then SP else SE.
Definition blevel (op : binop) : nat := S (binop_prio op).

Definition tlevel (ts : list token) : nat :=
  match hdk ts with
  | Some k =>
      match arith_of_tok k with
      | Some (_, q) => q
      | None =>
          match cmp_of_tok k with
          | Some _ => 3
          | None => match k with
                    | TKw KStarts | TKw KLikeRegex => 3
                    | TAnd => 2 | TOr => 1 | _ => 0
                    end
          end
      end
  | None => 0
  end%nat.

Lemma arith_level k op q : arith_of_tok k = Some (op, q) -> (4 <= q)%nat.
Proof.
  destruct k; try discriminate. cbn.
  destruct c as [|pp|pp]; try discriminate.
  repeat match goal with q0 : positive |- _ => destruct q0; try discriminate end.
  all: intros H; inversion H; lia.
Qed.

Lemma p_loop_stop f minp s c ts :
  (tlevel ts = 0 \/ tlevel ts < minp)%nat -> p_loop L (S f) minp s c ts = ROk (s, c, ts).
Proof.
  intros H. rewrite p_loop_S. destruct ts as [|t r]; [reflexivity|].
  unfold tlevel, hdk in H.
  destruct (arith_of_tok (tk t)) as [[op q]|] eqn:Ea.
  { pose proof (arith_level _ _ _ Ea). destruct s; [|reflexivity].
    replace (minp <=? q)%nat with false by (symmetry; apply Nat.leb_gt; lia). reflexivity. }
  destruct (cmp_of_tok (tk t)) as [op|] eqn:Ec.
  { replace (minp <=? 3)%nat with false by (symmetry; apply Nat.leb_gt; lia). reflexivity. }
  destruct (tk t) eqn:K; try reflexivity.
  all: try (match goal with k0 : kw |- _ => destruct k0; try reflexivity end).
  all: cbn in H.
  all: repeat match goal with
              | |- context [(?m <=? ?n)%nat] =>
                  replace (m <=? n)%nat with false by (symmetry; apply Nat.leb_gt; lia)
              end.
  all: reflexivity.
Qed.

(* the print is consumed entirely by p_unary *)
Definition unary_shaped (c : chain) (wp : bool) : bool :=
  match c with
  | [SBin _ _ _] | [SRegex _ _ _] => wp
  | _ => true
  end.

Definition binlike (c : chain) : option nat :=
  match c with
  | [SBin op _ _] => Some (blevel op)
  | [SRegex _ _ _] => Some 3%nat
  | _ => None
  end.

Definition eshape (c : chain) (wp : bool) (minp : nat) (rest : list token) : Prop :=
  unary_shaped c wp = true \/
  (wp = false /\ exists lvl, binlike c = Some lvl /\ (minp <= lvl)%nat /\ (tlevel rest <= lvl)%nat).

(* ---- the statements proved by induction on the tree ---- *)
Definition accs_ev (accs : chain) : Prop :=
  forall rest, follow_ok rest = true ->
    ev (fun f => p_accs L f (tok_chain L accs true true ++ rest)) (ROk (accs, rest)).

Definition U_spec (c : chain) : Prop :=
  forall wp po rest,
    unary_shaped c wp = true -> (is_pred_chain c = true -> po = true) -> follow_ok rest = true ->
    ev (fun f => p_unary L f po (tok_chain L c false wp ++ rest)) (ROk (psort c, c, rest)).

Definition E_spec (c : chain) : Prop :=
  forall wp minp po rest k,
    (is_pred_chain c = true -> po = true) -> follow_ok rest = true -> eshape c wp minp rest ->
    ev (fun f => p_loop L f minp (psort c) c rest) k ->
    ev (fun f => p_eop L f minp po (tok_chain L c false wp ++ rest)) k.

Lemma E_of_U c wp minp po rest k :
  U_spec c -> unary_shaped c wp = true -> (is_pred_chain c = true -> po = true) ->
  follow_ok rest = true ->
  ev (fun f => p_loop L f minp (psort c) c rest) k ->
  ev (fun f => p_eop L f minp po (tok_chain L c false wp ++ rest)) k.
Proof.
  intros HU Sh Hp Hf [n2 H2]. destruct (HU wp po rest Sh Hp Hf) as [n1 H1].
  exists (S (n1 + n2)). intros [|f] Hle; [lia|].
  rewrite p_eop_S. rewrite H1 by lia. cbn [rbind]. apply H2. lia.
Qed.

(* ---- facts extracted from [good] ---- *)
Lemma good_cons h t :
  gQ (h :: t) = true ->
  is_accessor_step h = false /\ forallb is_accessor_step t = true /\ op_with_tail (h :: t) = false.
Proof.
  unfold gQ. cbn [chain_shape]. intros H. apply andb_prop in H as [H1 H2].
  apply andb_prop in H1 as [A B]. apply negb_true_iff in A. apply negb_true_iff in H2. auto.
Qed.

Lemma acc_tok_head s hn wp :
  is_accessor_step s = true ->
  exists t r, tok_step L s hn true wp = t :: r /\ (tk t = TChar 46 \/ tk t = TChar 91 \/ tk t = TChar 63).
Proof.
  intros H. destruct s; try discriminate H.
  all: try (destruct k; try discriminate H).
  all: try (destruct op; try discriminate H).
  all: cbn [tok_step const_toks app]; eexists; eexists; (split; [reflexivity|cbn; auto]).
Qed.

Lemma accs_tok_head accs rest :
  forallb is_accessor_step accs = true -> follow_ok rest = true ->
  nobrace (tok_chain L accs true true ++ rest) = true.
Proof.
  destruct accs as [|s accs]; intros A F; [apply follow_nobrace; exact F|].
  cbn [forallb] in A. apply andb_prop in A as [As _].
  destruct (acc_tok_head s (match accs with [] => false | _ => true end) true As) as [t [r [E K]]].
  cbn [tok_chain]. rewrite E. cbn [app]. unfold nobrace, hdk.
  destruct K as [K|[K|K]]; rewrite K; reflexivity.
Qed.

Lemma accs_starts accs rest :
  forallb is_accessor_step accs = true -> accs <> [] ->
  starts_accessor (tok_chain L accs true true ++ rest) = true.
Proof.
  destruct accs as [|s accs]; intros A N; [congruence|].
  cbn [forallb] in A. apply andb_prop in A as [As _].
  destruct (acc_tok_head s (match accs with [] => false | _ => true end) true As) as [t [r [E K]]].
  cbn [tok_chain]. rewrite E. cbn [app]. unfold starts_accessor, is_char.
  destruct K as [K|[K|K]]; rewrite K; reflexivity.
Qed.

(* ---- numbers ---- *)
Lemma new_numeric_format f :
  f64_finite f = true -> f64_sign f = false -> new_numeric L (format_float_json L f) = ROk f.
Proof. intros F S. unfold new_numeric. rewrite (parse_format_float L HL) by assumption. reflexivity. Qed.

Definition num_step_ok (s : step) : Prop :=
  match s with
  | SInteger z => lit_int_ok z = true
  | SNumeric f => f64_finite f = true /\ f64_integral f = false
  | _ => False
  end.

Definition num_toks_of (s : step) : list token :=
  match s with SInteger z => int_toks L z | SNumeric f => num_toks L f | _ => [] end.

Lemma sfopp_facts f :
  f64_finite f = true -> f64_integral f = false ->
  f64_finite (SFopp f) = true /\ f64_sign (SFopp f) = negb (f64_sign f) /\ SFopp (SFopp f) = f.
Proof.
  destruct f as [s| s| |s m e]; cbn; intros F I; try discriminate.
  rewrite negb_involutive. auto.
Qed.

(* a bare number, whatever the (non-accessor) continuation *)
Lemma num_unary s po rest :
  num_step_ok s -> follow_ok rest = true ->
  ev (fun f => p_unary L f po (num_toks_of s ++ rest)) (ROk (SE, [s], rest)).
Proof.
  intros Hs Hf. pose proof (follow_noacc rest Hf) as Na.
  destruct s; try (exfalso; exact Hs).
  - (* integer *)
    cbn [num_step_ok] in Hs. apply lit_int_ok_range in Hs. cbn [num_toks_of]. unfold int_toks.
    destruct (z <? 0) eqn:E.
    + exists 3%nat. intros [|[|[|f]]] Hle; try lia.
      cbn [app]. rewrite p_unary_S. cbn [p_primary ctok tk].
      rewrite p_unary_S. cbn [p_primary tk]. rewrite new_integer_format by lia. cbn [rbind].
      rewrite p_accs_stop by exact Na. cbn [rbind new_unary_or_number].
      replace (- - z) with z by lia. reflexivity.
    + exists 2%nat. intros [|[|f]] Hle; try lia.
      cbn [app]. rewrite p_unary_S. cbn [p_primary tk]. rewrite new_integer_format by lia. cbn [rbind].
      rewrite p_accs_stop by exact Na. reflexivity.
  - (* numeric *)
    cbn [num_step_ok] in Hs. destruct Hs as [Fi Ni]. cbn [num_toks_of]. unfold num_toks.
    destruct (sfopp_facts f Fi Ni) as [F2 [S2 I2]].
    destruct (f64_sign f) eqn:E.
    + exists 3%nat. intros [|[|[|fu]]] Hle; try lia.
      cbn [app]. rewrite p_unary_S. cbn [p_primary ctok tk].
      rewrite p_unary_S. cbn [p_primary tk].
      rewrite (f64_neg_spec L HL). rewrite new_numeric_format by (rewrite ?S2; auto). cbn [rbind].
      rewrite p_accs_stop by exact Na. cbn [rbind new_unary_or_number].
      rewrite (f64_neg_spec L HL), I2. reflexivity.
    + exists 2%nat. intros [|[|fu]] Hle; try lia.
      cbn [app]. rewrite p_unary_S. cbn [p_primary tk]. rewrite new_numeric_format by assumption.
      cbn [rbind]. rewrite p_accs_stop by exact Na. reflexivity.
Qed.

Lemma num_toks_head s :
  num_step_ok s -> exists t r, num_toks_of s = t :: r /\ (tk t = TInt \/ tk t = TNumeric \/ tk t = TChar 45).
Proof.
  destruct s; intros H; try (exfalso; exact H); cbn [num_toks_of]; unfold int_toks, num_toks.
  - destruct (z <? 0); cbn; eauto 10.
  - destruct (f64_sign f); cbn; eauto 10.
Qed.

(* ---- primary-headed chains ---- *)
Definition leaf_prim (s : step) : bool :=
  match s with
  | SConst (CRoot | CCurrent | CLast | CTrue | CFalse | CNull) | SStr _ | SVar _ => true
  | _ => false
  end.

Lemma leaf_prim_tok s hn wp ts :
  leaf_prim s = true ->
  exists t, tok_step L s hn false wp = [t] /\ p_primary L (t :: ts) = Some (ROk (s, ts)).
Proof.
  intros H. destruct s; try discriminate H.
  - destruct k; try discriminate H; eexists; split; reflexivity.
  - eexists; split; reflexivity.
  - eexists; split; reflexivity.
Qed.

Lemma psort_prim s accs : is_pred_step s = false -> psort (s :: accs) = SE.
Proof. intros H. unfold psort. rewrite is_pred_chain_prim by exact H. reflexivity. Qed.

Lemma U_leaf_prim s accs :
  leaf_prim s = true -> accs_ev accs -> U_spec (s :: accs).
Proof.
  intros Hl Ha wp po rest _ _ Hf.
  destruct (Ha rest Hf) as [n Hn].
  destruct (leaf_prim_tok s (match accs with [] => false | _ => true end) wp
              (tok_chain L accs true true ++ rest) Hl) as [t [Et Ep]].
  exists (S n). intros [|f] Hle; [lia|].
  cbn [tok_chain]. rewrite Et. cbn [app]. rewrite p_unary_S, Ep. cbn [rbind].
  rewrite Hn by lia. cbn [rbind]. rewrite psort_prim; [reflexivity|].
  destruct s; try discriminate; try reflexivity.
Qed.

Lemma follow_close ts : follow_ok (ctok 41 :: ts) = true.
Proof. reflexivity. Qed.

Lemma tlevel_close ts : tlevel (ctok 41 :: ts) = 0%nat.
Proof. reflexivity. Qed.

Lemma U_num s accs :
  num_step_ok s -> forallb is_accessor_step accs = true -> accs_ev accs -> U_spec (s :: accs).
Proof.
  intros Hs Hacc Ha wp po rest _ _ Hf.
  assert (Ps: is_pred_step s = false) by (destruct s; try reflexivity; destruct Hs).
  assert (Ts: forall hn, tok_step L s hn false wp = tparen hn (num_toks_of s))
    by (intros hn; destruct s; try reflexivity; destruct Hs).
  cbn [tok_chain]. rewrite Ts. rewrite psort_prim by exact Ps.
  destruct accs as [|a accs].
  - cbn [tparen tok_chain app]. rewrite app_nil_r. apply num_unary; assumption.
  - set (acs := a :: accs) in *. cbn [tparen].
    set (X := tok_chain L acs true true ++ rest).
    destruct (Ha rest Hf) as [n1 H1].
    destruct (num_unary s true (ctok 41 :: X) Hs (follow_close X)) as [n2 H2].
    assert (SA: starts_accessor X = true) by (apply accs_starts; [exact Hacc|discriminate]).
    exists (S (S (S (n1 + n2)))). intros [|[|[|f]]] Hle; try lia.
    lnorm. fold X.
    rewrite p_unary_S. cbn [p_primary ctok tk].
    rewrite p_eop_S. rewrite H2 by lia. cbn [rbind].
    rewrite p_loop_stop by (left; apply tlevel_close). cbn [rbind ctok].
    rewrite SA. fold X in H1. rewrite H1 by lia. reflexivity.
Qed.

(* ---- unfolding tok_step on operator nodes ---- *)
Lemma tc_eq c ik wp :
  (fix tc (c : list step) (inKey withParens : bool) {struct c} : list token :=
     match c with
     | [] => []
     | x :: r =>
         tok_step L x (match r with [] => false | _ => true end) inKey withParens ++ tc r true true
     end) c ik wp = tok_chain L c ik wp.
Proof.
  revert ik wp. induction c as [|x r IH]; intros; [reflexivity|]. cbn [tok_chain]. rewrite <- (IH true true). reflexivity.
Qed.

Lemma tok_step_bin op l r hn ik wp :
  tok_step L (SBin op l r) hn ik wp =
  tparen wp (tok_chain L l false (Nat.leb (chain_prio l) (binop_prio op)) ++ binop_toks op ++
             tok_chain L r false (Nat.leb (chain_prio r) (binop_prio op))).
Proof. cbn [tok_step]. rewrite !tc_eq. reflexivity. Qed.

Lemma tok_step_un op a hn ik wp :
  tok_step L (SUn op a) hn ik wp =
  match op with
  | UExists => [kwt KExists "exists"; ctok 40] ++ tok_chain L a false false ++ [ctok 41]
  | UNot => [mktok TNot "!"; ctok 40] ++ tok_chain L a false false ++ [ctok 41]
  | UFilter => [ctok 63; ctok 40] ++ tok_chain L a false false ++ [ctok 41]
  | UIsUnknown => [ctok 40] ++ tok_chain L a false false ++ [ctok 41; kwt KIs "is"; kwt KUnknown "unknown"]
  | UPlus => tparen wp (ctok 43 :: tok_chain L a false (Nat.leb (chain_prio a) 5%nat))
  | UMinus => tparen wp (ctok 45 :: tok_chain L a false (Nat.leb (chain_prio a) 5%nat))
  end.
Proof. destruct op; cbn [tok_step]; rewrite !tc_eq; reflexivity. Qed.

Lemma tok_step_regex a pat fl hn ik wp :
  tok_step L (SRegex a pat fl) hn ik wp =
  tparen wp (tok_chain L a false true ++ [kwt KLikeRegex "like_regex"; mktok TString pat] ++
             (if fl =? 0 then [] else [kwt KFlag "flag"; mktok TString (regex_flag_text fl)])).
Proof. cbn [tok_step]. rewrite !tc_eq. reflexivity. Qed.

Lemma unary_shaped_true c : unary_shaped c true = true.
Proof. destruct c as [|[] [|? ?]]; reflexivity. Qed.

Lemma not_is_match {A} (ts : list token) (X : list token -> A) (Y : A) :
  follow_ok ts = true ->
  match ts with mktok (TKw KIs) _ :: r3 => X r3 | _ => Y end = Y.
Proof.
  unfold follow_ok, hdk. destruct ts as [|[k txt] r]; [reflexivity|]. cbn [tk].
  destruct k; try reflexivity. destruct k; try reflexivity. discriminate.
Qed.

(* "(" body ")" through p_unary *)
Lemma U_paren body s c po rest :
  ev (fun f => p_eop L f 0 true (body ++ ctok 41 :: rest)) (ROk (s, c, ctok 41 :: rest)) ->
  follow_ok rest = true -> (s = SP -> po = true) ->
  ev (fun f => p_unary L f po (ctok 40 :: body ++ ctok 41 :: rest)) (ROk (s, c, rest)).
Proof.
  intros [n Hn] Hf Hp. exists (S n). intros [|f] Hle; [lia|].
  rewrite p_unary_S. cbn [p_primary ctok tk]. rewrite Hn by lia. cbn [rbind ctok].
  rewrite (follow_noacc rest Hf).
  destruct s; [reflexivity|]. rewrite Hp by reflexivity.
  rewrite not_is_match by exact Hf. reflexivity.
Qed.

(* children of an operator: parenthesised, or of strictly higher level *)
Lemma eshape_child c pp m rest' :
  (forall lvl, binlike c = Some lvl -> Nat.leb (chain_prio c) pp = false ->
               (m <= lvl)%nat /\ (tlevel rest' <= lvl)%nat) ->
  eshape c (Nat.leb (chain_prio c) pp) m rest'.
Proof.
  intros H. unfold eshape. destruct (Nat.leb (chain_prio c) pp) eqn:E.
  - left. apply unary_shaped_true.
  - destruct (binlike c) as [lvl|] eqn:B.
    + right. split; [reflexivity|]. exists lvl. split; [reflexivity|]. apply H; reflexivity.
    + left. destruct c as [|[] [|? ?]]; try reflexivity; discriminate.
Qed.

Lemma binlike_cases c lvl :
  binlike c = Some lvl ->
  (exists op l r, c = [SBin op l r] /\ lvl = S (chain_prio c)) \/
  (exists a p f, c = [SRegex a p f] /\ lvl = 3%nat /\ is_pred_chain c = true /\ chain_prio c = 6%nat).
Proof.
  destruct c as [|[] [|? ?]]; try discriminate; cbn; intros H; inversion H; subst.
  - left. eauto.
  - right. eexists; eexists; eexists; repeat split.
Qed.

Lemma tlevel_binop op ts : tlevel (binop_toks op ++ ts) = blevel op.
Proof. destruct op; reflexivity. Qed.

Lemma follow_binop op ts : follow_ok (binop_toks op ++ ts) = true.
Proof. destruct op; reflexivity. Qed.

Definition is_arith (op : binop) : bool :=
  match op with BAdd | BSub | BMul | BDiv | BMod => true | _ => false end.
Definition is_cmp (op : binop) : bool :=
  match op with BEq | BNe | BLt | BGt | BLe | BGe => true | _ => false end.

Lemma psort_single_bin op l r :
  psort [SBin op l r] = if is_arith op then SE else SP.
Proof. destruct op; reflexivity. Qed.

(* the binary case of E, from the specifications of the operands *)
Lemma E_bin op l r :
  step_ok L (SBin op l r) = true ->
  E_spec l -> E_spec r ->
  forall minp po rest k,
    (is_pred_chain [SBin op l r] = true -> po = true) -> follow_ok rest = true ->
    (minp <= blevel op)%nat -> (tlevel rest <= blevel op)%nat ->
    ev (fun f => p_loop L f minp (psort [SBin op l r]) [SBin op l r] rest) k ->
    ev (fun f => p_eop L f minp po
                   ((tok_chain L l false (Nat.leb (chain_prio l) (binop_prio op)) ++ binop_toks op ++
                     tok_chain L r false (Nat.leb (chain_prio r) (binop_prio op))) ++ rest)) k.
Proof.
  intros Hs El Er minp po rest k Hp Hf Hm Ht Hk.
  set (c := [SBin op l r]) in *.
  rewrite <- !app_assoc.
  set (trest := tok_chain L r false (Nat.leb (chain_prio r) (binop_prio op)) ++ rest).
  (* sorts of the operands *)
  assert (Sorts: (is_pred_chain l = true -> (op = BAnd \/ op = BOr)) /\
                 (is_pred_chain r = true -> (op = BAnd \/ op = BOr)) /\
                 ((op = BAnd \/ op = BOr) -> is_pred_chain l = true /\ is_pred_chain r = true)).
  { cbn [step_ok] in Hs. unfold is_expr_chain in Hs.
    destruct op; try (apply andb_prop in Hs as [A B]);
      try (apply negb_true_iff in A); try (apply negb_true_iff in B);
      repeat split; intros; try congruence; auto;
      try (match goal with H : _ \/ _ |- _ => destruct H; discriminate end).
    - destruct r as [|[] [|? ?]]; try discriminate; reflexivity || discriminate. }
  destruct Sorts as [Sl [Sr Sand]].
  (* the right operand, parsed at level blevel op + 1 *)
  assert (Rstep: forall por, (is_pred_chain r = true -> por = true) ->
            ev (fun f => p_eop L f (S (blevel op)) por trest) (ROk (psort r, r, rest))).
  { intros por Hpor. apply Er; [exact Hpor|exact Hf| |].
    - apply eshape_child. intros lvl B E.
      destruct (binlike_cases r lvl B) as [[op' [l' [r' [Ec El']]]]|[a' [p' [f' [Ec [El' [Pr Pc]]]]]]].
      + subst lvl. apply Nat.leb_gt in E. unfold blevel in *. lia.
      + subst lvl. destruct (Sr Pr) as [->| ->]; unfold blevel in *; cbn in *; lia.
    - exists 1%nat. intros [|f] Hle; [lia|]. apply p_loop_stop. right. lia. }
  apply El.
  - intros Pl. apply Hp. destruct (Sl Pl) as [->| ->]; reflexivity.
  - apply follow_binop.
  - apply eshape_child. intros lvl B E. rewrite tlevel_binop.
    destruct (binlike_cases l lvl B) as [[op' [l' [r' [Ec El']]]]|[a' [p' [f' [Ec [El' [Pl Pc]]]]]]].
    + subst lvl. apply Nat.leb_gt in E. unfold blevel in *. lia.
    + subst lvl. destruct (Sl Pl) as [->| ->]; unfold blevel in *; cbn in *; lia.
  - (* the loop sees the operator *)
    destruct Hk as [n2 H2].
    destruct op.
    1: { (* && *)
      destruct (Sand (or_introl eq_refl)) as [Pl Pr].
      destruct (Rstep true (fun _ => eq_refl)) as [n1 H1].
      exists (S (n1 + n2)). intros [|f] Hle; [lia|].
      unfold psort at 1. rewrite Pl. rewrite p_loop_S. cbn [binop_toks app arith_of_tok cmp_of_tok tk].
      replace (minp <=? 2)%nat with true by (symmetry; apply Nat.leb_le; unfold blevel in Hm; cbn in Hm; lia).
      change 3%nat with (S (blevel BAnd)). rewrite H1 by lia. cbn [rbind].
      unfold psort at 1. rewrite Pr. apply H2. lia. }
    1: { (* || *)
      destruct (Sand (or_intror eq_refl)) as [Pl Pr].
      destruct (Rstep true (fun _ => eq_refl)) as [n1 H1].
      exists (S (n1 + n2)). intros [|f] Hle; [lia|].
      unfold psort at 1. rewrite Pl. rewrite p_loop_S. cbn [binop_toks app arith_of_tok cmp_of_tok tk].
      replace (minp <=? 1)%nat with true by (symmetry; apply Nat.leb_le; unfold blevel in Hm; cbn in Hm; lia).
      change 2%nat with (S (blevel BOr)). rewrite H1 by lia. cbn [rbind].
      unfold psort at 1. rewrite Pr. apply H2. lia. }
    all: assert (Pl: is_pred_chain l = false)
           by (destruct (is_pred_chain l) eqn:X; [destruct (Sl eq_refl); discriminate|reflexivity]).
    all: assert (Pr: is_pred_chain r = false)
           by (destruct (is_pred_chain r) eqn:X; [destruct (Sr eq_refl); discriminate|reflexivity]).
    all: try (
      (* comparison and arithmetic operators *)
      destruct (Rstep false ltac:(intros X; rewrite Pr in X; discriminate)) as [n1 H1];
      unfold blevel in H1, Hm; cbn [binop_prio] in H1, Hm;
      exists (S (n1 + n2)); intros [|f] Hle; [lia|];
      unfold psort at 1; rewrite Pl; rewrite p_loop_S;
      cbn [binop_toks app arith_of_tok cmp_of_tok tk ctok];
      match goal with
      | |- context [(?mm <=? ?q)%nat] =>
          replace (mm <=? q)%nat with true by (symmetry; apply Nat.leb_le; lia)
      end;
      rewrite H1 by lia; cbn [rbind]; apply H2; lia).
    (* starts with *)
    cbn [step_ok] in Hs. apply andb_prop in Hs as [_ Hr].
    exists (S n2). intros [|f] Hle; [lia|].
    unfold psort at 1. rewrite Pl. rewrite p_loop_S.
    cbn [binop_toks app arith_of_tok cmp_of_tok tk kwt].
    replace (minp <=? 3)%nat with true by (symmetry; apply Nat.leb_le; unfold blevel in Hm; cbn [binop_prio] in Hm; lia).
    subst trest.
    destruct r as [|[] [|? ?]]; try discriminate Hr; cbn [tok_chain tok_step app]; apply H2; lia.
Qed.

Lemma tparen_app body rest : tparen true body ++ rest = ctok 40 :: body ++ ctok 41 :: rest.
Proof. cbn [tparen app]. rewrite <- app_assoc. reflexivity. Qed.

Lemma psort_SP c : psort c = SP -> is_pred_chain c = true.
Proof. unfold psort. destruct (is_pred_chain c); [reflexivity|discriminate]. Qed.

Lemma E_from c :
  U_spec c ->
  (forall minp po rest k lvl,
      binlike c = Some lvl -> (is_pred_chain c = true -> po = true) -> follow_ok rest = true ->
      (minp <= lvl)%nat -> (tlevel rest <= lvl)%nat ->
      ev (fun f => p_loop L f minp (psort c) c rest) k ->
      ev (fun f => p_eop L f minp po (tok_chain L c false false ++ rest)) k) ->
  E_spec c.
Proof.
  intros HU HB wp minp po rest k Hp Hf [Sh|[-> [lvl [B [Hm Ht]]]]] Hk.
  - eapply E_of_U; eassumption.
  - eapply HB; eassumption.
Qed.

(* p_eop at level 0 inside brackets: the body, then a closing token *)
Lemma eop_closed c close rest :
  E_spec c -> follow_ok (close :: rest) = true -> tlevel (close :: rest) = 0%nat ->
  forall minp po, (is_pred_chain c = true -> po = true) ->
    (forall lvl, binlike c = Some lvl -> (minp <= lvl)%nat) ->
    ev (fun f => p_eop L f minp po (tok_chain L c false false ++ close :: rest))
       (ROk (psort c, c, close :: rest)).
Proof.
  intros HE Hf Ht minp po Hp Hl.
  apply HE; [exact Hp|exact Hf| |].
  - unfold eshape. destruct (binlike c) as [lvl|] eqn:B.
    + right. split; [reflexivity|]. exists lvl. repeat split; [apply Hl; reflexivity|lia].
    + left. destruct c as [|[] [|? ?]]; try reflexivity; discriminate.
  - exists 1%nat. intros [|f] Hle; [lia|]. apply p_loop_stop. left. exact Ht.
Qed.

Lemma chain_bin op l r :
  step_ok L (SBin op l r) = true -> E_spec l -> E_spec r ->
  U_spec [SBin op l r] /\ E_spec [SBin op l r].
Proof.
  intros Hs El Er.
  assert (EB: forall minp po rest k lvl,
      binlike [SBin op l r] = Some lvl ->
      (is_pred_chain [SBin op l r] = true -> po = true) -> follow_ok rest = true ->
      (minp <= lvl)%nat -> (tlevel rest <= lvl)%nat ->
      ev (fun f => p_loop L f minp (psort [SBin op l r]) [SBin op l r] rest) k ->
      ev (fun f => p_eop L f minp po (tok_chain L [SBin op l r] false false ++ rest)) k).
  { intros minp po rest k lvl B Hp Hf Hm Ht Hk. cbn in B. inversion B; subst lvl.
    cbn [tok_chain]. rewrite tok_step_bin, app_nil_r. cbn [tparen].
    apply E_bin; assumption. }
  assert (HU: U_spec [SBin op l r]).
  { intros wp po rest Sh Hp Hf. cbn [unary_shaped] in Sh. subst wp.
    cbn [tok_chain]. rewrite tok_step_bin, app_nil_r. rewrite tparen_app.
    apply U_paren; [|exact Hf|intros E; apply Hp, psort_SP, E].
    pose proof (EB 0%nat true (ctok 41 :: rest) (ROk (psort [SBin op l r], [SBin op l r], ctok 41 :: rest))
                  (blevel op) eq_refl (fun _ => eq_refl) (follow_close rest)
                  (Nat.le_0_l _) (Nat.le_0_l _)) as H.
    cbn [tok_chain] in H. rewrite tok_step_bin, app_nil_r in H. cbn [tparen] in H.
    apply H.
    exists 1%nat. intros [|f] Hle; [lia|]. apply p_loop_stop. left. apply tlevel_close. }
  split; [exact HU|]. apply E_from; assumption.
Qed.

(* ---- unary operators ---- *)
Lemma expr_binlike_level a lvl :
  is_expr_chain a = true -> binlike a = Some lvl -> (4 <= lvl)%nat.
Proof.
  destruct a as [|[] [|? ?]]; try discriminate; cbn; intros E B; inversion B; subst.
  destruct op; cbn in E; try discriminate E; unfold blevel; cbn; lia.
Qed.

Lemma chain_un op a :
  op <> UFilter -> step_ok L (SUn op a) = true -> U_spec a -> E_spec a ->
  U_spec [SUn op a] /\ E_spec [SUn op a].
Proof.
  intros Nf Hs Ua Ea.
  assert (HU: U_spec [SUn op a]).
  { intros wp po rest _ Hp Hf. cbn [tok_chain]. rewrite tok_step_un, app_nil_r.
    destruct op; try congruence; cbn [step_ok] in Hs.
    - (* exists *)
      assert (Pa: is_pred_chain a = false) by (unfold is_expr_chain in Hs; apply negb_true_iff in Hs; exact Hs).
      destruct (eop_closed a (ctok 41) rest Ea (follow_close rest) (tlevel_close rest) 4%nat false
                  ltac:(rewrite Pa; discriminate)
                  ltac:(intros lvl B; eapply expr_binlike_level; eauto)) as [n Hn].
      exists (S n). intros [|f] Hle; [lia|]. lnorm.
      rewrite p_unary_S. cbn [p_primary kwt tk]. rewrite Hp by reflexivity. cbn [ctok tk].
      rewrite Hn by lia. cbn [rbind ctok]. reflexivity.
    - (* ! *)
      destruct (eop_closed a (ctok 41) rest Ea (follow_close rest) (tlevel_close rest) 0%nat true
                  ltac:(auto) ltac:(intros; lia)) as [n Hn].
      exists (S n). intros [|f] Hle; [lia|]. lnorm.
      rewrite p_unary_S. cbn [p_primary tk]. rewrite Hp by reflexivity. cbn [ctok tk].
      rewrite Hn by lia. cbn [rbind ctok]. unfold psort. rewrite Hs. reflexivity.
    - (* is unknown *)
      set (rest' := kwt KIs "is" :: kwt KUnknown "unknown" :: rest).
      destruct (eop_closed a (ctok 41) rest' Ea (follow_close rest') (tlevel_close rest') 0%nat true
                  ltac:(auto) ltac:(intros; lia)) as [n Hn].
      exists (S n). intros [|f] Hle; [lia|]. lnorm. fold rest'.
      rewrite p_unary_S. cbn [p_primary ctok tk].
      rewrite Hn by lia. cbn [rbind ctok]. unfold psort at 1. rewrite Hs.
      subst rest'. cbn [starts_accessor is_char kwt tk orb]. rewrite Hp by reflexivity. reflexivity.
    - (* + *)
      apply andb_prop in Hs as [He Hn]. apply negb_true_iff in Hn.
      assert (Pa: is_pred_chain a = false) by (unfold is_expr_chain in He; apply negb_true_iff in He; exact He).
      assert (Sh: unary_shaped a (Nat.leb (chain_prio a) 5) = true).
      { destruct a as [|[] [|? ?]]; try reflexivity; try discriminate.
        destruct op; reflexivity || discriminate. }
      assert (Core: forall po' rest', follow_ok rest' = true ->
                ev (fun f => p_unary L f po' (ctok 43 :: tok_chain L a false (Nat.leb (chain_prio a) 5) ++ rest'))
                   (ROk (SE, [SUn UPlus a], rest'))).
      { intros po' rest' Hf'.
        destruct (Ua _ false rest' Sh ltac:(rewrite Pa; discriminate) Hf') as [n Hn'].
        exists (S n). intros [|f] Hle; [lia|].
        rewrite p_unary_S. cbn [p_primary ctok tk]. rewrite Hn' by lia. cbn [rbind].
        destruct a as [|[] [|? ?]]; try reflexivity; discriminate. }
      destruct wp; [rewrite tparen_app|cbn [tparen]].
      + apply U_paren; [|exact Hf|discriminate].
        destruct (Core true (ctok 41 :: rest) (follow_close rest)) as [n Hn'].
        exists (S (S n)). intros [|[|f]] Hle; try lia.
        rewrite p_eop_S. rewrite Hn' by lia. cbn [rbind].
        apply p_loop_stop. left. apply tlevel_close.
      + cbn [app]. apply Core. exact Hf.
    - (* - *)
      apply andb_prop in Hs as [He Hn]. apply negb_true_iff in Hn.
      assert (Pa: is_pred_chain a = false) by (unfold is_expr_chain in He; apply negb_true_iff in He; exact He).
      assert (Sh: unary_shaped a (Nat.leb (chain_prio a) 5) = true).
      { destruct a as [|[] [|? ?]]; try reflexivity; try discriminate.
        destruct op; reflexivity || discriminate. }
      assert (Core: forall po' rest', follow_ok rest' = true ->
                ev (fun f => p_unary L f po' (ctok 45 :: tok_chain L a false (Nat.leb (chain_prio a) 5) ++ rest'))
                   (ROk (SE, [SUn UMinus a], rest'))).
      { intros po' rest' Hf'.
        destruct (Ua _ false rest' Sh ltac:(rewrite Pa; discriminate) Hf') as [n Hn'].
        exists (S n). intros [|f] Hle; [lia|].
        rewrite p_unary_S. cbn [p_primary ctok tk]. rewrite Hn' by lia. cbn [rbind].
        destruct a as [|[] [|? ?]]; try reflexivity; discriminate. }
      destruct wp; [rewrite tparen_app|cbn [tparen]].
      + apply U_paren; [|exact Hf|discriminate].
        destruct (Core true (ctok 41 :: rest) (follow_close rest)) as [n Hn'].
        exists (S (S n)). intros [|[|f]] Hle; try lia.
        rewrite p_eop_S. rewrite Hn' by lia. cbn [rbind].
        apply p_loop_stop. left. apply tlevel_close.
      + cbn [app]. apply Core. exact Hf. }
  split; [exact HU|]. apply E_from; [exact HU|].
  intros minp po rest k lvl B. destruct op; discriminate B.
Qed.

(* ---- like_regex ---- *)
Lemma regex_flags_text fl :
  0 <= fl < 32 -> regex_flags_loop (bytes_of (regex_flag_text fl)) 0 = Some fl.
Proof.
  intros R. assert (E: fl = Z.of_nat (Z.to_nat fl)) by lia. rewrite E.
  assert (B: (Z.to_nat fl < 32)%nat) by lia. clear E R.
  generalize dependent (Z.to_nat fl). intros n B.
  do 32 (destruct n as [|n]; [vm_compute; reflexivity|]). lia.
Qed.

Lemma new_regex_print a pat fl :
  step_ok L (SRegex a pat fl) = true ->
  new_regex L a pat (if fl =? 0 then EmptyString else regex_flag_text fl) = ROk (SRegex a pat fl).
Proof.
  cbn [step_ok]. intros H.
  repeat (apply andb_prop in H as [H ?]).
  unfold new_regex. destruct (fl =? 0) eqn:E0.
  - assert (fl = 0) by lia. subst fl. cbn [bytes_of list_of_str map regex_flags_loop].
    cbn. rewrite H0. reflexivity.
  - rewrite regex_flags_text by lia.
    match goal with |- (if ?c then _ else _) = _ => replace c with false end.
    + rewrite H0. reflexivity.
    + symmetry. unfold reQuote, reWSpace in *. destruct (Z.land fl 8 =? 0); destruct (Z.land fl 16 =? 0); try reflexivity; discriminate.
Qed.

Lemma regex_noflag_match {A} pat (rest : list token) (X1 : string -> list token -> A)
      (X2 : list token -> A) (X3 : lex_err -> A) (X4 : list token -> A) (X5 : A) :
  follow_ok rest = true ->
  match mktok TString pat :: rest with
  | mktok TString p :: mktok (TKw KFlag) _ :: mktok TString fl :: r1 => X1 fl r1
  | mktok TString p :: mktok (TKw KFlag) _ :: r1 => X2 r1
  | mktok TString p :: mktok (TErr e) _ :: _ => X3 e
  | mktok TString p :: r1 => X4 r1
  | _ => X5
  end = X4 rest.
Proof.
  unfold follow_ok, hdk. destruct rest as [|[k txt] r]; [reflexivity|]. cbn [tk].
  destruct k; try reflexivity; try discriminate.
  destruct k; try reflexivity; discriminate.
Qed.

Lemma chain_regex a pat fl :
  step_ok L (SRegex a pat fl) = true -> U_spec a -> E_spec a ->
  U_spec [SRegex a pat fl] /\ E_spec [SRegex a pat fl].
Proof.
  intros Hs Ua Ea. set (c := [SRegex a pat fl]).
  pose proof (new_regex_print a pat fl Hs) as NR.
  assert (Pa: is_pred_chain a = false).
  { cbn [step_ok] in Hs. repeat (apply andb_prop in Hs as [Hs ?]).
    unfold is_expr_chain in Hs. apply negb_true_iff in Hs. exact Hs. }
  assert (EB: forall minp po rest k lvl,
      binlike c = Some lvl -> (is_pred_chain c = true -> po = true) -> follow_ok rest = true ->
      (minp <= lvl)%nat -> (tlevel rest <= lvl)%nat ->
      ev (fun f => p_loop L f minp (psort c) c rest) k ->
      ev (fun f => p_eop L f minp po (tok_chain L c false false ++ rest)) k).
  { intros minp po rest k lvl B Hp Hf Hm Ht [n2 H2]. cbn in B. inversion B; subst lvl.
    subst c. cbn [tok_chain]. rewrite tok_step_regex, app_nil_r. cbn [tparen].
    rewrite <- !app_assoc.
    apply Ea; [rewrite Pa; discriminate|reflexivity|left; apply unary_shaped_true|].
    exists (S n2). intros [|f] Hle; [lia|].
    unfold psort at 1. rewrite Pa. rewrite p_loop_S.
    cbn [app arith_of_tok cmp_of_tok tk kwt].
    replace (minp <=? 3)%nat with true by (symmetry; apply Nat.leb_le; lia).
    destruct (fl =? 0) eqn:E0.
    - cbn [app]. destruct rest as [|[k0 t0] r0]; [rewrite NR; cbn [rbind]; apply H2; lia|].
      destruct k0; try (match goal with kk : kw |- _ => destruct kk end);
        try (cbn in Hf; discriminate Hf); rewrite NR; cbn [rbind]; apply H2; lia.
    - cbn [app]. rewrite NR. cbn [rbind]. apply H2. lia. }
  assert (HU: U_spec c).
  { intros wp po rest Sh Hp Hf. cbn [unary_shaped c] in Sh. subst wp.
    subst c. cbn [tok_chain]. rewrite tok_step_regex, app_nil_r. rewrite tparen_app.
    apply U_paren; [|exact Hf|intros E; apply Hp, psort_SP, E].
    pose proof (EB 0%nat true (ctok 41 :: rest)
                  (ROk (psort [SRegex a pat fl], [SRegex a pat fl], ctok 41 :: rest))
                  3%nat eq_refl (fun _ => eq_refl) (follow_close rest)
                  (Nat.le_0_l _) (Nat.le_0_l _)) as H.
    cbn [tok_chain] in H. rewrite tok_step_regex, app_nil_r in H. cbn [tparen] in H.
    apply H.
    exists 1%nat. intros [|f] Hle; [lia|]. apply p_loop_stop. left. apply tlevel_close. }
  split; [exact HU|]. apply E_from; assumption.
Qed.

(* ---- filter and subscripts (accessor steps with sub-chains) ---- *)
Lemma acc_ev_filter a :
  step_ok L (SUn UFilter a) = true -> E_spec a -> acc_ev (SUn UFilter a).
Proof.
  intros Hs Ea hn ts' v r' Hb [n2 H2]. cbn [step_ok] in Hs.
  destruct (eop_closed a (ctok 41) ts' Ea (follow_close ts') (tlevel_close ts') 0%nat true
              ltac:(auto) ltac:(intros; lia)) as [n1 H1].
  exists (S (n1 + n2)). intros [|f] Hle; [lia|].
  rewrite tok_step_un. lnorm. rewrite p_accs_S. cbn [ctok tk].
  rewrite H1 by lia. cbn [rbind]. unfold psort. rewrite Hs. cbn [ctok].
  rewrite H2 by lia. reflexivity.
Qed.

(* ---- subscripts ---- *)
Fixpoint tok_subs (l : list (chain * option chain)) (first : bool) : list token :=
  match l with
  | [] => []
  | (a, b) :: r =>
      (if first then [] else [ctok 44]) ++ tok_chain L a false false ++
      (match b with Some c => kwt KTo "to" :: tok_chain L c false false | None => [] end) ++
      tok_subs r false
  end.

Lemma tok_step_index subs hn ik wp :
  tok_step L (SIndex subs) hn ik wp = [ctok 91] ++ tok_subs subs true ++ [ctok 93].
Proof.
  reflexivity.
Qed.

Lemma tok_subs_false x r : tok_subs (x :: r) false = ctok 44 :: tok_subs (x :: r) true.
Proof. destruct x as [a b]. reflexivity. Qed.

Definition sub_spec (ab : chain * option chain) : Prop :=
  E_spec (fst ab) /\ is_expr_chain (fst ab) = true /\
  match snd ab with Some c => E_spec c /\ is_expr_chain c = true | None => True end.

Lemma expr_eop a close rest :
  E_spec a -> is_expr_chain a = true ->
  follow_ok (close :: rest) = true -> tlevel (close :: rest) = 0%nat ->
  ev (fun f => p_eop L f 4 false (tok_chain L a false false ++ close :: rest))
     (ROk (SE, a, close :: rest)).
Proof.
  intros Ea He Hf Ht.
  assert (Pa: is_pred_chain a = false) by (unfold is_expr_chain in He; apply negb_true_iff in He; exact He).
  replace SE with (psort a) by (unfold psort; rewrite Pa; reflexivity).
  apply eop_closed; try assumption.
  - rewrite Pa. discriminate.
  - intros lvl B. eapply expr_binlike_level; eauto.
Qed.

Lemma index_ev subs : subs <> [] -> Forall sub_spec subs ->
  forall ts', ev (fun f => p_index L f (tok_subs subs true ++ ctok 93 :: ts')) (ROk (subs, ts')).
Proof.
  induction subs as [|[a b] r IH]; intros N F ts'; [congruence|].
  inversion F as [|? ? [Ea [Xa Hb]] Fr]; subst. cbn [fst snd] in *.
  set (tail := tok_subs r false ++ ctok 93 :: ts').
  assert (Tail: (r = [] /\ tail = ctok 93 :: ts') \/
                (r <> [] /\ tail = ctok 44 :: tok_subs r true ++ ctok 93 :: ts')).
  { subst tail. destruct r as [|x r']; [left; split; reflexivity|right].
    split; [discriminate|]. rewrite tok_subs_false. reflexivity. }
  cbn [tok_subs app]. rewrite <- !app_assoc. fold tail.
  destruct Tail as [[Er Et]|[Nr Et]]; rewrite Et; clear Et tail.
  - (* last subscript *)
    subst r.
    destruct b as [c|].
    + destruct Hb as [Ec Xc].
      destruct (expr_eop a (kwt KTo "to") (tok_chain L c false false ++ ctok 93 :: ts') Ea Xa eq_refl eq_refl) as [n1 H1].
      destruct (expr_eop c (ctok 93) ts' Ec Xc eq_refl eq_refl) as [n2 H2].
      exists (S (n1 + n2)). intros [|f] Hle; [lia|].
      cbn [app]. rewrite p_index_S. rewrite H1 by lia. cbn [rbind kwt].
      rewrite H2 by lia. reflexivity.
    + destruct (expr_eop a (ctok 93) ts' Ea Xa eq_refl eq_refl) as [n1 H1].
      exists (S n1). intros [|f] Hle; [lia|].
      cbn [app]. rewrite p_index_S. rewrite H1 by lia. reflexivity.
  - destruct (IH Nr Fr ts') as [nk HK].
    set (more := tok_subs r true ++ ctok 93 :: ts') in *.
    destruct b as [c|].
    + destruct Hb as [Ec Xc].
      destruct (expr_eop a (kwt KTo "to") (tok_chain L c false false ++ ctok 44 :: more) Ea Xa eq_refl eq_refl) as [n1 H1].
      destruct (expr_eop c (ctok 44) more Ec Xc eq_refl eq_refl) as [n2 H2].
      exists (S (n1 + n2 + nk)). intros [|f] Hle; [lia|].
      cbn [app]. rewrite p_index_S. rewrite H1 by lia. cbn [rbind kwt].
      rewrite H2 by lia. cbn [rbind ctok]. rewrite HK by lia. reflexivity.
    + destruct (expr_eop a (ctok 44) more Ea Xa eq_refl eq_refl) as [n1 H1].
      exists (S (n1 + nk)). intros [|f] Hle; [lia|].
      cbn [app]. rewrite p_index_S. rewrite H1 by lia. cbn [rbind ctok]. rewrite HK by lia. reflexivity.
Qed.

Lemma eop_not_star m po ts v :
  ev (fun f => p_eop L f m po ts) (ROk v) -> hdk ts <> Some (TChar 42).
Proof.
  intros [n Hn] E. destruct ts as [|[k t] r]; [discriminate|]. cbn in E. inversion E; subst k.
  specialize (Hn (S (S n)) ltac:(lia)). rewrite p_eop_S, p_unary_S in Hn. cbn in Hn. discriminate.
Qed.

Lemma index_not_star ts v :
  ev (fun f => p_index L f ts) (ROk v) -> hdk ts <> Some (TChar 42).
Proof.
  intros [n Hn] E. destruct ts as [|[k t] r]; [discriminate|]. cbn in E. inversion E; subst k.
  specialize (Hn (S (S (S n))) ltac:(lia)). rewrite p_index_S, p_eop_S, p_unary_S in Hn. cbn in Hn. discriminate.
Qed.

Lemma acc_ev_index subs :
  subs <> [] -> Forall sub_spec subs -> acc_ev (SIndex subs).
Proof.
  intros N F hn ts' v r' Hb [n2 H2].
  pose proof (index_ev subs N F ts') as EI.
  pose proof (index_not_star _ _ EI) as NS.
  destruct EI as [n1 H1].
  exists (S (n1 + n2)). intros [|f] Hle; [lia|].
  rewrite tok_step_index. lnorm. rewrite p_accs_S. cbn [ctok tk].
  set (toks := tok_subs subs true ++ ctok 93 :: ts') in *.
  assert (M: forall (X : list token -> pres (step * list token)) Y,
             match toks with mktok (TChar 42) _ :: r0 => X r0 | _ => Y end = Y).
  { intros X Y. destruct toks as [|[k t] r]; [reflexivity|].
    destruct k; try reflexivity.
    destruct (c =? 42) eqn:E42.
    - exfalso. apply NS. cbn. f_equal. f_equal. lia.
    - destruct c as [|pp|pp]; try reflexivity.
      repeat (match goal with q0 : positive |- _ => destruct q0; try reflexivity end); discriminate E42. }
  rewrite M. rewrite H1 by lia. cbn [rbind]. rewrite H2 by lia. reflexivity.
Qed.

(* ------------------------------------------------------------------ *)
(* the induction over the tree *)
Definition P_step (s : step) : Prop :=
  st_all gP gQ s = true ->
  (is_accessor_step s = true -> acc_ev s) /\
  (is_accessor_step s = false ->
   forall accs, forallb is_accessor_step accs = true -> accs_ev accs ->
                op_with_tail (s :: accs) = false ->
                U_spec (s :: accs) /\ E_spec (s :: accs)).

Definition Q_chain (c : chain) : Prop :=
  ch_all gP gQ c = true ->
  (forallb is_accessor_step c = true -> accs_ev c) /\
  (gQ c = true -> U_spec c /\ E_spec c).

Lemma E_nonbin c : U_spec c -> binlike c = None -> E_spec c.
Proof. intros HU B. apply E_from; [exact HU|]. intros. congruence. Qed.

Lemma Q_nil : Q_chain [].
Proof.
  intros _. split; [|discriminate].
  intros _ rest Hf. exists 1%nat. intros [|f] Hle; [lia|]. cbn [tok_chain app].
  apply p_accs_stop. apply follow_noacc. exact Hf.
Qed.

Lemma Q_cons s c : P_step s -> Q_chain c -> Q_chain (s :: c).
Proof.
  intros Ps Qc H. cbn [ch_all] in H. apply andb_prop in H as [Hs Hc].
  destruct (Ps Hs) as [PA PH]. destruct (Qc Hc) as [QA _].
  split.
  - intros A. cbn [forallb] in A. apply andb_prop in A as [As Ac].
    intros rest Hf. cbn [tok_chain]. rewrite <- app_assoc.
    apply (PA As); [apply accs_tok_head; assumption|]. apply QA; assumption.
  - intros G. destruct (good_cons s c G) as [Ns [Ac Ot]].
    apply (PH Ns c Ac (QA Ac) Ot).
Qed.

Lemma prim_pack s accs :
  U_spec (s :: accs) -> (forall op l r, s <> SBin op l r) -> (forall a p f, s <> SRegex a p f) ->
  U_spec (s :: accs) /\ E_spec (s :: accs).
Proof.
  intros HU N1 N2. split; [exact HU|]. apply E_nonbin; [exact HU|].
  destruct s; try reflexivity; destruct accs; try reflexivity.
  - exfalso. eapply N1. reflexivity.
  - exfalso. eapply N2. reflexivity.
Qed.

Lemma op_tail_nil s accs :
  is_operator_step s = true -> op_with_tail (s :: accs) = false -> accs = [].
Proof. intros Ho H. destruct accs; [reflexivity|]. cbn in H. congruence. Qed.

Lemma gP_ok s : gP s = true -> step_ok L s = true /\ integral_numeric s = false.
Proof. unfold gP. intros H. apply andb_prop in H as [A B]. apply negb_true_iff in B. auto. Qed.

Lemma all_steps : forall s, P_step s.
Proof.
  induction s using step_ind' with (Q := Q_chain).
  - apply Q_nil.
  - apply Q_cons; assumption.
  - (* SConst *)
    intros H. cbn [st_all] in H. rewrite andb_true_r in H.
    split.
    + intros A. destruct k; try discriminate A; [apply acc_ev_anyarray|apply acc_ev_anykey].
    + intros A accs Ha Hev _. apply prim_pack; try discriminate.
      apply U_leaf_prim; [|exact Hev]. destruct k; try discriminate A; reflexivity.
  - (* SStr *)
    intros _. split; [discriminate|]. intros _ accs Ha Hev _. apply prim_pack; try discriminate.
    apply U_leaf_prim; [reflexivity|exact Hev].
  - (* SInteger *)
    intros H. cbn [st_all] in H. rewrite andb_true_r in H. destruct (gP_ok _ H) as [Hs _].
    split; [discriminate|]. intros _ accs Ha Hev _. apply prim_pack; try discriminate.
    apply U_num; [exact Hs|exact Ha|exact Hev].
  - (* SNumeric *)
    intros H. cbn [st_all] in H. rewrite andb_true_r in H. destruct (gP_ok _ H) as [Hs Hi].
    split; [discriminate|]. intros _ accs Ha Hev _. apply prim_pack; try discriminate.
    apply U_num; [split; [exact Hs|exact Hi]|exact Ha|exact Hev].
  - (* SVar *)
    intros _. split; [discriminate|]. intros _ accs Ha Hev _. apply prim_pack; try discriminate.
    apply U_leaf_prim; [reflexivity|exact Hev].
  - (* SKey *)
    intros _. split; [intros _; apply acc_ev_key|discriminate].
  - (* SBin *)
    intros H. rewrite st_all_bin in H.
    apply andb_prop in H as [Hp H]. apply andb_prop in H as [Hl Hr].
    apply andb_prop in Hl as [Gl Cl]. apply andb_prop in Hr as [Gr Cr].
    destruct (gP_ok _ Hp) as [Hs _].
    destruct (IHs Cl) as [_ Sl]. destruct (Sl Gl) as [_ El].
    destruct (IHs0 Cr) as [_ Sr]. destruct (Sr Gr) as [_ Er].
    split; [discriminate|]. intros _ accs _ _ Ot.
    rewrite (op_tail_nil (SBin op l r) accs eq_refl Ot). apply chain_bin; assumption.
  - (* SUn *)
    intros H. rewrite st_all_un in H.
    apply andb_prop in H as [Hp H]. apply andb_prop in H as [Ga Ca].
    destruct (gP_ok _ Hp) as [Hs _].
    destruct (IHs Ca) as [_ Sa]. destruct (Sa Ga) as [Ua Ea].
    split.
    + intros A. destruct op; try discriminate A. apply acc_ev_filter; assumption.
    + intros A accs _ _ Ot.
      assert (Nf: op <> UFilter) by (intro; subst; discriminate A).
      assert (Ho: is_operator_step (SUn op a) = true) by (destruct op; try reflexivity; congruence).
      rewrite (op_tail_nil _ accs Ho Ot). apply chain_un; assumption.
  - (* SRegex *)
    intros H. rewrite st_all_regex in H.
    apply andb_prop in H as [Hp H]. apply andb_prop in H as [Ga Ca].
    destruct (gP_ok _ Hp) as [Hs _].
    destruct (IHs Ca) as [_ Sa]. destruct (Sa Ga) as [Ua Ea].
    split; [discriminate|]. intros _ accs _ _ Ot.
    rewrite (op_tail_nil (SRegex a p f) accs eq_refl Ot). apply chain_regex; assumption.
  - (* SMeth *)
    intros _. split; [intros _; apply acc_ev_meth|discriminate].
  - (* SDecimal *)
    intros H. cbn [st_all] in H. rewrite andb_true_r in H. destruct (gP_ok _ H) as [Hs _].
    split; [intros _; apply acc_ev_decimal; exact Hs|discriminate].
  - (* SDt *)
    intros H. cbn [st_all] in H. rewrite andb_true_r in H. destruct (gP_ok _ H) as [Hs _].
    split; [intros _; apply acc_ev_dt; exact Hs|discriminate].
  - (* SAny *)
    intros H. cbn [st_all] in H. rewrite andb_true_r in H. destruct (gP_ok _ H) as [Hs _].
    split; [intros _; apply acc_ev_any; exact Hs|discriminate].
  - (* SIndex *)
    intros Hall. rewrite st_all_index in Hall.
    apply andb_prop in Hall as [Hp Hsubs]. destruct (gP_ok _ Hp) as [Hs _].
    cbn [step_ok] in Hs. apply andb_prop in Hs as [Hne Hex]. apply negb_true_iff in Hne.
    split; [intros _|discriminate].
    apply acc_ev_index; [destruct subs; [discriminate|discriminate]|].
    rewrite forallb_forall in Hsubs, Hex. rewrite Forall_forall in H |- *.
    intros [a b] Hin. specialize (H _ Hin). specialize (Hsubs _ Hin). specialize (Hex _ Hin).
    cbn [fst snd] in *. destruct H as [Qa Qb].
    apply andb_prop in Hsubs as [Ha Hb]. apply andb_prop in Ha as [Ga Ca].
    apply andb_prop in Hex as [Xa Xb].
    destruct (Qa Ca) as [_ Sa]. destruct (Sa Ga) as [_ Ea].
    unfold sub_spec. cbn [fst snd]. repeat split; try assumption.
    destruct b as [c|]; [|exact I].
    apply andb_prop in Hb as [Gc Cc]. destruct (Qb Cc) as [_ Sc]. destruct (Sc Gc) as [_ Ec].
    split; assumption.
Qed.

Lemma all_chains : forall c, Q_chain c.
Proof. induction c as [|s c IH]; [apply Q_nil|apply Q_cons; [apply all_steps|exact IH]]. Qed.

(* ------------------------------------------------------------------ *)
(* C02, parser half *)
Theorem parse_tokens_print p :
  wf_path L p -> excl_C02 p = false -> parse_tokens L (tok_path L p) = POk p.
Proof.
  intros [W [V Pp]] X. destruct p as [lax pred root]. cbn [p_root p_lax p_pred] in *.
  unfold excl_C02 in X. cbn [p_root] in X.
  pose proof (good_of_wf root W X) as G. unfold good in G. apply andb_prop in G as [GQ GC].
  destruct (all_chains root GC) as [_ HS]. destruct (HS GQ) as [HU _].
  assert (Hp: is_pred_chain root = true -> true = true) by auto.
  destruct (HU true true [] (unary_shaped_true root) Hp eq_refl) as [n Hn].
  rewrite app_nil_r in Hn.
  set (ts1 := tok_chain L root false true) in *.
  (* large fuel *)
  assert (EopF: forall F, (S (S n) <= F)%nat ->
            p_eop L F 0 true ts1 = ROk (psort root, root, [])).
  { intros [|[|F]] HF; try lia. rewrite p_eop_S. rewrite Hn by lia. cbn [rbind].
    rewrite p_loop_S. reflexivity. }
  (* the parser's own fuel gives the same answer *)
  assert (Core: p_eop L (parser_fuel ts1) 0 true ts1 = ROk (psort root, root, [])).
  { destruct (core_good L (parser_fuel ts1)) as [_ [He _]].
    specialize (He 0%nat true ts1 ltac:(unfold parser_fuel; lia)).
    set (F := Nat.max (parser_fuel ts1) (S (S n))).
    pose proof (EopF F ltac:(unfold F; lia)) as E2.
    destruct (p_eop L (parser_fuel ts1) 0 true ts1) as [v|e] eqn:E.
    - assert (E1: p_eop L F 0 true ts1 = ROk v)
        by (eapply p_eop_mono; [apply Nat.le_max_l|exact E|discriminate]).
      congruence.
    - exfalso. cbn in He.
      assert (E1: p_eop L F 0 true ts1 = RErr e)
        by (eapply p_eop_mono; [apply Nat.le_max_l|exact E|congruence]).
      congruence. }
  (* the mode prefix *)
  assert (Mode: (match tok_path L (mkpath lax pred root) with
                 | mktok (TKw KStrict) _ :: r => (false, r)
                 | mktok (TKw KLax) _ :: r => (true, r)
                 | _ => (true, tok_path L (mkpath lax pred root))
                 end) = (lax, ts1)).
  { unfold tok_path. cbn [p_lax p_root]. fold ts1. destruct lax; [|reflexivity].
    cbn [app].
    pose proof (Hn (S n) ltac:(lia)) as H1. rewrite p_unary_S in H1.
    destruct ts1 as [|[k t] r]; [reflexivity|].
    destruct k; try reflexivity.
    destruct k; try reflexivity; cbn in H1; discriminate H1. }
  unfold parse_tokens. rewrite Mode. rewrite Core.
  rewrite V. f_equal. f_equal. unfold psort. rewrite <- Pp. destruct pred; reflexivity.
Qed.

(* ------------------------------------------------------------------ *)
(* C03: precedence / redundant parentheses, on tokens *)
Lemma parse_tokens_of_eop (lax pred : bool) (root : chain) (ts1 : list token) :
  ev (fun f => p_eop L f 0 true ts1) (ROk (psort root, root, [])) ->
  validate_chain root 0 false = None -> pred = is_pred_chain root ->
  parse_tokens L ((if lax then [] else [kwt KStrict "strict"]) ++ ts1) = POk (mkpath lax pred root).
Proof.
  intros [n Hn] V Pp.
  assert (Core: p_eop L (parser_fuel ts1) 0 true ts1 = ROk (psort root, root, [])).
  { destruct (core_good L (parser_fuel ts1)) as [_ [He _]].
    specialize (He 0%nat true ts1 ltac:(unfold parser_fuel; lia)).
    set (F := Nat.max (parser_fuel ts1) n).
    pose proof (Hn F ltac:(unfold F; lia)) as E2.
    destruct (p_eop L (parser_fuel ts1) 0 true ts1) as [v|e] eqn:E.
    - assert (E1: p_eop L F 0 true ts1 = ROk v)
        by (eapply p_eop_mono; [apply Nat.le_max_l|exact E|discriminate]).
      congruence.
    - exfalso. cbn in He.
      assert (E1: p_eop L F 0 true ts1 = RErr e)
        by (eapply p_eop_mono; [apply Nat.le_max_l|exact E|congruence]).
      congruence. }
  assert (Mode: (match (if lax then [] else [kwt KStrict "strict"]) ++ ts1 with
                 | mktok (TKw KStrict) _ :: r => (false, r)
                 | mktok (TKw KLax) _ :: r => (true, r)
                 | _ => (true, (if lax then [] else [kwt KStrict "strict"]) ++ ts1)
                 end) = (lax, ts1)).
  { destruct lax; [|reflexivity]. cbn [app].
    pose proof (Hn (S (S n)) ltac:(lia)) as H1. rewrite p_eop_S, p_unary_S in H1.
    destruct ts1 as [|[k t] r]; [reflexivity|].
    destruct k; try reflexivity.
    destruct k; try reflexivity; cbn in H1; discriminate H1. }
  unfold parse_tokens. rewrite Mode. rewrite Core.
  rewrite V. f_equal. f_equal. unfold psort. rewrite <- Pp. destruct pred; reflexivity.
Qed.

Lemma good_root p :
  wf_path L p -> excl_C02 p = false -> U_spec (p_root p) /\ E_spec (p_root p).
Proof.
  intros [W _] X. unfold excl_C02 in X.
  pose proof (good_of_wf _ W X) as G. unfold good in G. apply andb_prop in G as [GQ GC].
  destruct (all_chains (p_root p) GC) as [_ HS]. exact (HS GQ).
Qed.

Lemma eshape_top c : eshape c false 0 [].
Proof.
  unfold eshape. destruct (binlike c) as [lvl|] eqn:B.
  - right. split; [reflexivity|]. exists lvl. repeat split; [lia|cbn; lia].
  - left. destruct c as [|[] [|? ?]]; try reflexivity; discriminate.
Qed.

(* the rendering WITHOUT the outer parentheses the printer puts around a
   top-level operator: precedence and associativity alone rebuild the tree *)
Theorem parse_tokens_noparen p :
  wf_path L p -> excl_C02 p = false ->
  parse_tokens L ((if p_lax p then [] else [kwt KStrict "strict"]) ++ tok_chain L (p_root p) false false)
  = POk p.
Proof.
  intros W X. destruct (good_root p W X) as [_ HE]. destruct W as [_ [V Pp]].
  destruct p as [lax pred root]. cbn [p_root p_lax p_pred] in *.
  apply parse_tokens_of_eop; [|exact V|exact Pp].
  rewrite <- (app_nil_r (tok_chain L root false false)).
  apply HE; [auto|reflexivity|apply eshape_top|].
  exists 1%nat. intros [|f] Hle; [lia|]. rewrite p_loop_S. reflexivity.
Qed.

(* redundant parentheses around the whole expression are ignored *)
Theorem parse_tokens_extra_paren p wp :
  wf_path L p -> excl_C02 p = false ->
  parse_tokens L ((if p_lax p then [] else [kwt KStrict "strict"]) ++
                  ctok 40 :: tok_chain L (p_root p) false wp ++ [ctok 41])
  = POk p.
Proof.
  intros W X. destruct (good_root p W X) as [HU HE]. destruct W as [_ [V Pp]].
  destruct p as [lax pred root]. cbn [p_root p_lax p_pred] in *.
  apply parse_tokens_of_eop; [|exact V|exact Pp].
  (* inside the parentheses *)
  assert (In: ev (fun f => p_eop L f 0 true (tok_chain L root false wp ++ ctok 41 :: []))
                 (ROk (psort root, root, ctok 41 :: []))).
  { destruct wp.
    - eapply E_of_U; [exact HU|apply unary_shaped_true|auto|reflexivity|].
      exists 1%nat. intros [|f] Hle; [lia|]. apply p_loop_stop. left. reflexivity.
    - apply HE; [auto|reflexivity| |].
      + unfold eshape. destruct (binlike root) as [lvl|] eqn:B.
        * right. split; [reflexivity|]. exists lvl. repeat split; [lia|cbn; lia].
        * left. destruct root as [|[] [|? ?]]; try reflexivity; discriminate.
      + exists 1%nat. intros [|f] Hle; [lia|]. apply p_loop_stop. left. reflexivity. }
  pose proof (U_paren (tok_chain L root false wp) (psort root) root true [] In eq_refl (fun _ => eq_refl))
    as [n Hn].
  exists (S (S n)). intros [|[|f]] Hle; try lia.
  rewrite p_eop_S. rewrite Hn by lia. cbn [rbind]. rewrite p_loop_S. reflexivity.
Qed.
End L.

Print Assumptions parse_tokens_print.
Print Assumptions parse_tokens_noparen.
Print Assumptions parse_tokens_extra_paren.
