(* ParserMain.v — the property-level theorems of the parser side, assembled
   from LexText/ParseWf (C04), LexPrint/ParsePrint (C02), LexFuel (C03). *)
From SJ Require Import lib.Base lib.Utf8 lib.GoLib model.Json model.Ast model.Lexer model.Parser
  model.Printer model.PathAPI proofs.LexProofs proofs.ParseProofs proofs.ParseWf proofs.LexText
  proofs.QuoteProofs proofs.RoundTrip proofs.Tokens proofs.LexFuel proofs.LexPrint proofs.ParsePrint.
Local Open Scope string_scope.
Local Open Scope list_scope.

Section Main.
Variable L : GoLib.
Hypothesis HL : Laws L.

(* ---- C04 ---- *)
Theorem parse_ok_wf s p : parse L s = POk p -> wf_path L p.
Proof. intros H. exact (parse_ok_wf_from_lexer L HL s p (lex_tok_ok L s) H). Qed.

Theorem parse_pred_flag s p : parse L s = POk p -> p_pred p = is_pred_chain (p_root p).
Proof. intros H. destruct (parse_ok_wf s p H) as [_ [_ E]]. exact E. Qed.

(* ---- C02 ---- *)
Theorem C02 p : wf_path L p -> excl_C02 p = false -> parse L (print_path L p) = POk p.
Proof.
  intros W X. unfold parse. rewrite (lex_print L HL p W X). apply parse_tokens_print; assumption.
Qed.

Corollary C02_reparse s p :
  parse L s = POk p -> excl_C02 p = false -> parse L (print_path L p) = POk p.
Proof. intros H X. apply C02; [eapply parse_ok_wf; exact H|exact X]. Qed.

(* String() is a fixed point of parse-then-print *)
Corollary C02_print_fixpoint s p p' :
  parse L s = POk p -> excl_C02 p = false -> parse L (print_path L p) = POk p' ->
  p' = p /\ print_path L p' = print_path L p.
Proof.
  intros H X H'. rewrite (C02_reparse s p H X) in H'. inversion H'. split; reflexivity.
Qed.

Lemma parse_empty : parse L "" = PErr ESyntax.
Proof. reflexivity. Qed.

Lemma print_nonempty p : wf_path L p -> excl_C02 p = false -> print_path L p <> "".
Proof. intros W X E. pose proof (C02 p W X) as H. rewrite E, parse_empty in H. discriminate. Qed.

(* ... and through the wrappers of path.go *)
Corollary C02_api p :
  wf_path L p -> excl_C02 p = false ->
  parse_api L (path_string L p) = inl p /\
  must_parse L (path_string L p) = Ret p /\
  unmarshal_text L (marshal_text L p) = inl p /\
  unmarshal_binary L (marshal_binary L p) = inl p /\
  (forall cur, scan L cur (SrcString (value L p)) = inl (Some p)) /\
  (forall cur, scan L cur (SrcBytes (value L p)) = inl (Some p)).
Proof.
  intros W X. pose proof (C02 p W X) as H. pose proof (print_nonempty p W X) as N.
  unfold parse_api, must_parse, unmarshal_text, marshal_text, unmarshal_binary, marshal_binary,
    value, path_string, scan.
  rewrite H. repeat split; try reflexivity; intros cur; destruct (print_path L p); congruence.
Qed.

(* ---- C03: precedence, associativity, redundant parentheses (strings) ---- *)
Lemma lex_of_LxS s toks F : LxS L s toks F -> lex L s = toks.
Proof.
  intros [_ C]. unfold lex, lex_runes_of. specialize (C [] eq_refl). rewrite app_nil_r in C.
  unfold LB in C. rewrite C. change (lex_runes_of_bytes []) with (@nil Z).
  rewrite lex_runes_nil. apply app_nil_r.
Qed.

Lemma lex_strict_LxS s toks F :
  LxS L s toks F -> lex L ("strict " ++ s) = kwt KStrict "strict" :: toks.
Proof.
  intros H. pose proof (lex_of_LxS s toks F H) as E. unfold lex, lex_runes_of in *.
  change ("strict " ++ s)%string with ("strict" ++ " " ++ s)%string.
  rewrite !bytes_of_app. change (bytes_of " ") with [32].
  destruct (Lk_strict L HL) as [_ S].
  change (lex_runes L (lex_runes_of_bytes (bytes_of "strict" ++ [32] ++ bytes_of s)))
    with (LB L (bytes_of "strict" ++ 32 :: bytes_of s)).
  rewrite S by reflexivity. rewrite LB_ws. unfold LB. rewrite E. reflexivity.
Qed.

Lemma okc_of p : wf_path L p -> excl_C02 p = false -> okc L (p_root p) = true.
Proof.
  intros [Hwf _] Hex.
  unfold excl_C02 in Hex. rewrite excl_chain_eq in Hex. apply orb_false_elim in Hex as [E1 E2].
  apply negb_false_iff in E1. unfold wf_chain in Hwf. apply andb_prop in Hwf as [W1 W2].
  unfold okc. rewrite W1, W2, E1. unfold exB. rewrite E2. reflexivity.
Qed.

Definition mode_string (p : path) : string := if p_lax p then "" else "strict ".

(* without the outer parentheses the printer adds: the levels
   OR < AND < comparison < + - < * / % < unary and left associativity rebuild
   the same tree *)
Theorem parse_noparen p :
  wf_path L p -> excl_C02 p = false ->
  parse L (mode_string p ++ print_chain L (p_root p) false false) = POk p.
Proof.
  intros W X. pose proof (Q_ok L _ (LexPrint.all_chains L HL (p_root p)) (okc_of p W X) false false) as C.
  unfold parse, mode_string.
  replace (lex L ((if p_lax p then "" else "strict ") ++ print_chain L (p_root p) false false))
    with ((if p_lax p then [] else [kwt KStrict "strict"]) ++ tok_chain L (p_root p) false false).
  - apply parse_tokens_noparen; assumption.
  - destruct (p_lax p); cbn [app]; symmetry; [eapply lex_of_LxS|eapply lex_strict_LxS]; exact C.
Qed.

(* redundant parentheses around the whole expression are ignored *)
Theorem parse_extra_paren p wp :
  wf_path L p -> excl_C02 p = false ->
  parse L (mode_string p ++ "(" ++ print_chain L (p_root p) false wp ++ ")") = POk p.
Proof.
  intros W X. pose proof (Q_ok L _ (LexPrint.all_chains L HL (p_root p)) (okc_of p W X) false wp) as C.
  assert (P: LxS L ("(" ++ print_chain L (p_root p) false wp ++ ")")
               ([ctok 40] ++ tok_chain L (p_root p) false wp ++ [ctok 41]) any).
  { apply LxS_app_any; [exact (L_lp L HL)|].
    apply LxS_app with (Fa := dstrict); [exact C|exact (L_rp L HL)|reflexivity]. }
  unfold parse, mode_string.
  replace (lex L ((if p_lax p then "" else "strict ") ++ "(" ++ print_chain L (p_root p) false wp ++ ")"))
    with ((if p_lax p then [] else [kwt KStrict "strict"]) ++
          ctok 40 :: tok_chain L (p_root p) false wp ++ [ctok 41]).
  - apply parse_tokens_extra_paren; assumption.
  - destruct (p_lax p); cbn [app]; symmetry; [eapply lex_of_LxS|eapply lex_strict_LxS]; exact P.
Qed.
End Main.

Print Assumptions parse_ok_wf.
Print Assumptions C02.
Print Assumptions C02_api.
Print Assumptions parse_noparen.
Print Assumptions parse_extra_paren.
