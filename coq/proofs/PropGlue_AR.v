(* PropGlue_AR.v — the few corollaries and witnesses props/C13.v cites that are
   not already in proofs/ArithProofs.v:
   1. the independent arithmetic oracle spec/ArithSpec.v [arith_spec] (the one the
      correspondence check runs against the implementation) against the model's
      Leaf.execMathOp: they AGREE on every exact-integer answer, on division by
      zero, and DISAGREE exactly on the int64 overflows (the oracle answers with a
      double where the model wraps: known finding KF-C13-int64-wrap); the same
      for [neg_spec] / [abs_spec] against intUMinus / intAbs;
   2. vm_compute witnesses on the extracted instance lib0, through the entry
      point Query of the model M and the projection p_query of the specification S;
   3. the transfer of the statements of ArithProofs section 5 (about the
      specification S) to the executor model M through RefineClosed.query_is_trace,
      for the paths  l op r  and  +a / -a;
   4. the two NumLaws fields the C13 proofs use, proved of lib0 without hypothesis.
   Stdlib only, no axioms. *)
From Coq Require Import ZArith Bool List Lia ZifyBool String.
From Coq Require Import Floats.SpecFloat.
From SJ Require Import lib.Base lib.F64 lib.Strconv model.Json model.Ast model.ExecLib model.Leaf model.Exec
  spec.Sem spec.Proj spec.ArithSpec extract.Instance proofs.LeafLaws proofs.ArithProofs
  proofs.SemBasics proofs.RefineDefs proofs.Refine proofs.RefineClosed proofs.RefineWitness.
Import ListNotations.

Local Open Scope Z_scope.

(* ================================================================== *)
(* 1. arith_spec against execMathOp                                     *)
(* ================================================================== *)
Section Oracle.
Variable L : ExecLib.

(* the oracle and the model read an operand as an integer in the same cases *)
Lemma as_int_iff_view v z : as_int L v = Some z <-> mview_of L v = MVI z.
Proof.
  destruct v as [| |[a|a|s]| | | |]; cbn; try (split; discriminate).
  - split; intros H; injection H as <-; reflexivity.
  - destruct (js_int64 L s) as [y|].
    + split; intros H; injection H as <-; reflexivity.
    + split; [discriminate|]. destruct (js_float64 L s) as [[f []]|]; discriminate.
Qed.

Lemma exact_int_fits op a b r :
  exact_int op a b = Some r -> in_int64 r = true -> executeIntegerMath a b op = MOk (NInt r).
Proof.
  destruct op; cbn; intros H Hf; try discriminate H;
    try (destruct (b =? 0); [discriminate H|]); injection H as <-;
    try rewrite wrap64_id by exact Hf; reflexivity.
Qed.

(* soundness of the oracle's integer answers: whenever arith_spec answers with
   an integer, the model returns exactly that integer *)
Theorem arith_spec_int_is_model op l r z :
  arith_spec L op l r = AInt z -> execMathOp L l r op = MOk (NInt z).
Proof.
  unfold arith_spec.
  destruct (as_int L l) as [a|] eqn:Ea.
  - destruct (as_int L r) as [b|] eqn:Eb.
    + apply as_int_iff_view in Ea. apply as_int_iff_view in Eb.
      rewrite (C13_both_int L l r op a b Ea Eb).
      destruct (exact_int op a b) as [x|] eqn:Ex; [|discriminate].
      destruct (in_int64 x) eqn:Ef.
      * intros H. injection H as <-. apply exact_int_fits; assumption.
      * destruct (float_op L op _ _); discriminate.
    + destruct (as_float L l), (as_float L r); try discriminate; destruct (float_op L op _ _); discriminate.
  - destruct (as_float L l), (as_float L r); try discriminate; destruct (float_op L op _ _); discriminate.
Qed.

(* both operands integers (int64, or a json.Number with an integer text), the
   divisor not zero, the exact result an int64: the oracle and the model both
   answer with that exact integer *)
Theorem arith_spec_agrees_when_fits op l r a b :
  mview_of L l = MVI a -> mview_of L r = MVI b ->
  is_arith op = true -> (op = BDiv \/ op = BMod -> b <> 0) ->
  in_int64 (int_exact op a b) = true ->
  arith_spec L op l r = AInt (int_exact op a b) /\
  execMathOp L l r op = MOk (NInt (int_exact op a b)).
Proof.
  intros Hl Hr Hop Hb Hf.
  assert (A : arith_spec L op l r = AInt (int_exact op a b)).
  { unfold arith_spec. rewrite (proj2 (as_int_iff_view l a) Hl), (proj2 (as_int_iff_view r b) Hr).
    destruct op; try discriminate Hop; cbn [exact_int int_exact] in *;
      try (replace (b =? 0) with false by (specialize (Hb ltac:(auto)); lia));
      rewrite Hf; reflexivity. }
  split; [exact A|]. apply arith_spec_int_is_model. exact A.
Qed.

(* the special case of two int64 items, without the vocabulary of ArithProofs *)
Corollary arith_spec_agrees_int64 op a b :
  op = BAdd \/ op = BSub \/ op = BMul \/ ((op = BDiv \/ op = BMod) /\ b <> 0) ->
  in_int64 (int_exact op a b) = true ->
  arith_spec L op (JNum (NInt a)) (JNum (NInt b)) = AInt (int_exact op a b) /\
  execMathOp L (JNum (NInt a)) (JNum (NInt b)) op = MOk (NInt (int_exact op a b)).
Proof.
  intros Hop Hf. apply arith_spec_agrees_when_fits; try reflexivity; try exact Hf.
  - destruct Hop as [->|[->|[->|[[->| ->] _]]]]; reflexivity.
  - intros Hd. destruct Hop as [->|[->|[->|[_ Hb]]]];
      try (destruct Hd as [Hd|Hd]; discriminate Hd). exact Hb.
Qed.

(* division and modulo of two integers by zero: both say "suppressible error" *)
Theorem arith_spec_agrees_int_by_zero op l r a :
  mview_of L l = MVI a -> mview_of L r = MVI 0 -> op = BDiv \/ op = BMod ->
  arith_spec L op l r = AErrVerbose /\
  execMathOp L l r op = MErr (EVerbose "division by zero").
Proof.
  intros Hl Hr Hop. split.
  - unfold arith_spec. rewrite (proj2 (as_int_iff_view l a) Hl), (proj2 (as_int_iff_view r 0) Hr).
    destruct Hop as [-> | ->]; reflexivity.
  - rewrite (C13_both_int L l r op a 0 Hl Hr). apply C13_int_by_zero. exact Hop.
Qed.

(* the disagreement is exactly the recorded finding: when the exact result of
   + - * does not fit, the model answers with the wrapped integer - which is
   NOT the exact result - and the oracle with a double *)
Theorem arith_spec_flags_wrap op l r a b :
  mview_of L l = MVI a -> mview_of L r = MVI b ->
  op = BAdd \/ op = BSub \/ op = BMul ->
  in_int64 (int_exact op a b) = false ->
  execMathOp L l r op = MOk (NInt (wrap64 (int_exact op a b))) /\
  wrap64 (int_exact op a b) <> int_exact op a b /\
  exists f, arith_spec L op l r = AFloat f.
Proof.
  intros Hl Hr Hop Hf. split; [|split].
  - rewrite (C13_both_int L l r op a b Hl Hr). destruct Hop as [->|[->| ->]]; reflexivity.
  - intros E. pose proof (wrap64_range (int_exact op a b)) as W. rewrite E, Hf in W. discriminate W.
  - unfold arith_spec. rewrite (proj2 (as_int_iff_view l a) Hl), (proj2 (as_int_iff_view r b) Hr).
    destruct Hop as [->|[->| ->]]; cbn [exact_int int_exact float_op] in *; rewrite Hf; eexists; reflexivity.
Qed.

(* unary minus and .abs() on an int64 other than MinInt64 *)
Theorem neg_spec_agrees x :
  in_int64 x = true -> x <> min_int64 -> neg_spec L (JNum (NInt x)) = AInt (intUMinus x).
Proof.
  intros Hx Hm. rewrite (C13_intUMinus_exact x Hx Hm). unfold neg_spec. cbn [as_int].
  replace (in_int64 (- x)) with true; [reflexivity|].
  unfold in_int64, min_int64, max_int64 in *. lia.
Qed.

Theorem abs_spec_agrees x :
  in_int64 x = true -> x <> min_int64 -> abs_spec L (JNum (NInt x)) = AInt (intAbs x).
Proof.
  intros Hx Hm. rewrite (C13_intAbs_exact x Hx Hm). unfold abs_spec. cbn [as_int].
  replace (in_int64 (Z.abs x)) with true; [reflexivity|].
  unfold in_int64, min_int64, max_int64 in *. lia.
Qed.

End Oracle.

(* -(-x) = x on items and on operand sequences of int64 / float64 items
   (an int64 item holds an int64: invariant of every json value of the model) *)
Lemma neg_num_involutive x :
  (forall z, x = JNum (NInt z) -> in_int64 z = true) -> neg_num (neg_num x) = x.
Proof.
  intros H. destruct x as [| |[z|f|t]| | | |]; try reflexivity; cbn [neg_num].
  - rewrite C13_intUMinus_involutive by (apply H; reflexivity). reflexivity.
  - rewrite C13_fneg_involutive. reflexivity.
Qed.

Theorem unary_minus_twice (L : ExecLib) l :
  Forall plain_num l -> Forall (fun x => forall z, x = JNum (NInt z) -> in_int64 z = true) l ->
  map_unary L true l = (map neg_num l, None) /\ map_unary L true (map neg_num l) = (l, None).
Proof.
  intros Hp Hi. split; [apply C13_unary_minus_all; exact Hp|].
  rewrite C13_unary_minus_all.
  - f_equal. rewrite map_map. induction Hi as [|x l Hx _ IH]; [reflexivity|].
    inversion Hp; subst. cbn [map]. rewrite neg_num_involutive by exact Hx. rewrite IH by assumption. reflexivity.
  - clear Hi. induction Hp as [|x l Hx _ IH]; constructor; [|exact IH].
    destruct x as [| |[z|f|t]| | | |]; try contradiction; exact I.
Qed.

(* ================================================================== *)
(* 2. Witnesses on the extracted instance                               *)
(* ================================================================== *)

(* the oracle against the model at the int64 boundary: the model wraps, the
   oracle answers 2^63 as a double (4503599627370496 * 2^11) *)
Example arith_spec_wrap_witness :
  let two63 := S754_finite false 4503599627370496 11 in
  execMathOp lib0 (JNum (NInt 9223372036854775807)) (JNum (NInt 1)) BAdd = MOk (NInt (-9223372036854775808)) /\
  arith_spec lib0 BAdd (JNum (NInt 9223372036854775807)) (JNum (NInt 1)) = AFloat two63 /\
  execMathOp lib0 (JNum (NInt 9223372036854775807)) (JNum (NJs "1")) BAdd = MOk (NInt (-9223372036854775808)) /\
  arith_spec lib0 BAdd (JNum (NInt 9223372036854775807)) (JNum (NJs "1")) = AFloat two63 /\
  execMathOp lib0 (JNum (NInt (-9223372036854775808))) (JNum (NInt (-1))) BDiv = MOk (NInt (-9223372036854775808)) /\
  arith_spec lib0 BDiv (JNum (NInt (-9223372036854775808))) (JNum (NInt (-1))) = AFloat two63 /\
  intUMinus (-9223372036854775808) = -9223372036854775808 /\
  neg_spec lib0 (JNum (NInt (-9223372036854775808))) = AFloat two63 /\
  intAbs (-9223372036854775808) = -9223372036854775808 /\
  abs_spec lib0 (JNum (NInt (-9223372036854775808))) = AFloat two63.
Proof. vm_compute. repeat split. Qed.

(* where they agree: in range, and on zero divisors of every representation *)
Example arith_spec_agree_witness :
  execMathOp lib0 (JNum (NInt 9223372036854775806)) (JNum (NInt 1)) BAdd = MOk (NInt 9223372036854775807) /\
  arith_spec lib0 BAdd (JNum (NInt 9223372036854775806)) (JNum (NInt 1)) = AInt 9223372036854775807 /\
  execMathOp lib0 (JNum (NInt (-7))) (JNum (NJs "2")) BDiv = MOk (NInt (-3)) /\
  arith_spec lib0 BDiv (JNum (NInt (-7))) (JNum (NJs "2")) = AInt (-3) /\
  execMathOp lib0 (JNum (NInt 1)) (JNum (NJs "0")) BDiv = MErr (EVerbose "division by zero") /\
  arith_spec lib0 BDiv (JNum (NInt 1)) (JNum (NJs "0")) = AErrVerbose /\
  execMathOp lib0 (JNum (NInt 1)) (JNum (NJs "0.0")) BMod = MErr (EVerbose "division by zero") /\
  arith_spec lib0 BMod (JNum (NInt 1)) (JNum (NJs "0.0")) = AErrVerbose.
Proof. vm_compute. repeat split. Qed.

(* through the entry point: the model M (Query) and the specification S
   (p_query of the trace) on concrete paths; o0 true is WithSilent *)
Definition q_lit (op : binop) (a b : Z) : path := mkpath true false [SBin op [SInteger a] [SInteger b]].
Definition q_root_op (laxmode : bool) (op : binop) (b : Z) : path :=
  mkpath laxmode false [SBin op [SConst CRoot] [SInteger b]].
Definition q_op_root (op : binop) (a : Z) : path := mkpath true false [SBin op [SInteger a] [SConst CRoot]].
Definition q_neg (laxmode : bool) : path := mkpath laxmode false [SUn UMinus [SConst CRoot]].
Definition arr12 : json := JArr 1 [JNum (NInt 1); JNum (NInt (-2))].

(* 9223372036854775807 + 1 (known finding KF-C13-int64-wrap, on M and on S) *)
Example query_wrap_witness :
  Query lib0 30 (q_lit BAdd 9223372036854775807 1) JNull (o0 false) = Ret (QItems [JNum (NInt (-9223372036854775808))]) /\
  p_query false (sem_of lib0 quirks_code (q_lit BAdd 9223372036854775807 1) JNull (o0 false)) =
    QItems [JNum (NInt (-9223372036854775808))].
Proof. vm_compute. split; reflexivity. Qed.

(* 1 / 0 and -0.0 % -0.0: a suppressible error - an error without WithSilent,
   the empty result with it; never an item *)
Example query_div_by_zero_witness :
  Query lib0 30 (q_lit BDiv 1 0) JNull (o0 false) = Ret (QErr (AErr (EVerbose "division by zero"))) /\
  p_query false (sem_of lib0 quirks_code (q_lit BDiv 1 0) JNull (o0 false)) = QErr (AErr (EVerbose "division by zero")) /\
  Query lib0 30 (q_lit BDiv 1 0) JNull (o0 true) = Ret (QItems []) /\
  Query lib0 30 (mkpath true false [SBin BMod [SConst CRoot] [SConst CRoot]]) (JNum (NFlt (S754_zero true))) (o0 false) =
    Ret (QErr (AErr (EVerbose "division by zero"))).
Proof. vm_compute. repeat split. Qed.

(* -$ on [1, -2]: lax mode negates every element, strict mode sees one
   non-numeric item; $ + 1 and 1 + $ on [1, -2] in lax mode: two items on one
   side; $ + 1 on [1]: the lax unwrapping leaves exactly one *)
Example query_operand_sequences_witness :
  Query lib0 30 (q_neg true) arr12 (o0 false) = Ret (QItems [JNum (NInt (-1)); JNum (NInt 2)]) /\
  p_query false (sem_of lib0 quirks_code (q_neg true) arr12 (o0 false)) = QItems [JNum (NInt (-1)); JNum (NInt 2)] /\
  Query lib0 30 (q_neg false) arr12 (o0 false) =
    Ret (QErr (AErr (EVerbose "operand of unary jsonpath operator is not a numeric value"))) /\
  Query lib0 30 (q_neg false) arr12 (o0 true) = Ret (QItems []) /\
  Query lib0 30 (q_root_op true BAdd 1) arr12 (o0 false) =
    Ret (QErr (AErr (EVerbose "operand is not a single numeric value: left"))) /\
  Query lib0 30 (q_op_root BAdd 1) arr12 (o0 false) =
    Ret (QErr (AErr (EVerbose "operand is not a single numeric value: right"))) /\
  Query lib0 30 (q_root_op true BAdd 1) arr12 (o0 true) = Ret (QItems []) /\
  Query lib0 30 (q_root_op true BAdd 1) (JArr 1 [JNum (NInt 1)]) (o0 false) = Ret (QItems [JNum (NInt 2)]) /\
  Query lib0 30 (q_root_op false BAdd 1) (JArr 1 [JNum (NInt 1)]) (o0 false) =
    Ret (QErr (AErr (EVerbose "operand is not a single numeric value: left"))).
Proof. vm_compute. repeat split. Qed.

(* ================================================================== *)
(* 3. On the model M: Query of  l op r  and of  +a / -a                 *)
(* ================================================================== *)
Section Model.
Variables (L : ExecLib) (p : path) (doc : json) (o : opts).
Hypothesis Hnc : o_cancel_at o = None.
Hypothesis Hmc : members_canon L.
Hypothesis Hkv : no_kv (p_root p) = true.
Hypothesis Hex : exists_ok (p_root p) = true.
Hypothesis Hno : ne_ops (p_root p) = true.
Notation C := (mkcenv (p_lax p) doc (o_vars o) (o_useTZ o)).
Notation SC := (fun a => sem_chain L C quirks_code a doc (-1) (p_lax p) (p_lax p) doc).

Lemma sem_of_one_step s :
  p_root p = [s] ->
  sem_of L quirks_code p doc o =
  sem_step L C quirks_code s (fun l' ig' x => sem_chain L C quirks_code [] doc l' ig' (laxm C) x)
           doc (-1) (p_lax p) (p_lax p) doc.
Proof. intros Hr. unfold sem_of. rewrite Hr. reflexivity. Qed.

Lemma query_one_step s t :
  p_root p = [s] ->
  sem_step L C quirks_code s (fun l' ig' x => sem_chain L C quirks_code [] doc l' ig' (laxm C) x)
           doc (-1) (p_lax p) (p_lax p) doc = t ->
  forall fuel q, Query L fuel p doc o = Ret q -> qres_sim q (p_query (o_silent o) t).
Proof.
  intros Hr Ht fuel q H.
  assert (Hne : p_root p <> []) by (rewrite Hr; discriminate).
  pose proof (query_is_trace L p doc o Hnc Hmc Hne Hkv Hex Hno fuel q H) as S.
  now rewrite (sem_of_one_step s Hr), Ht in S.
Qed.

(* one item on each side: Query answers with what execMathOp says *)
Theorem query_binary_singletons op l r litems ritems lv rv :
  p_root p = [SBin op l r] -> is_bool_binop op = false ->
  SC l = (litems, None) -> (if p_lax p then unwrapSeq litems else litems) = [lv] ->
  SC r = (ritems, None) -> (if p_lax p then unwrapSeq ritems else ritems) = [rv] ->
  forall fuel q, Query L fuel p doc o = Ret q ->
  qres_sim q (p_query (o_silent o)
                (match execMathOp L lv rv op with MErr e => tfail e | MOk n => tone (JNum n) end)).
Proof.
  intros Hr Hop Hl Hlv Hrr Hrv. apply (query_one_step _ _ Hr).
  exact (C13_binary_singletons L C quirks_code op l r _ doc (-1) (p_lax p) (p_lax p) doc lv rv litems ritems
           Hop Hl Hlv Hrr Hrv).
Qed.

(* not exactly one item on the left / on the right: the suppressible error *)
Theorem query_binary_left_not_single op l r litems :
  p_root p = [SBin op l r] -> is_bool_binop op = false ->
  SC l = (litems, None) -> ~ singleton (if p_lax p then unwrapSeq litems else litems) ->
  forall fuel q, Query L fuel p doc o = Ret q ->
  qres_sim q (if o_silent o then QItems [] else QErr (AErr (mathOperandErr "left"))).
Proof.
  intros Hr Hop Hl Hn fuel q H.
  pose proof (query_one_step _ _ Hr
    (C13_binary_left_not_single L C quirks_code op l r _ doc (-1) (p_lax p) (p_lax p) doc litems Hop Hl Hn) fuel q H) as S.
  destruct (o_silent o); exact S.
Qed.

Theorem query_binary_right_not_single op l r litems lv ritems :
  p_root p = [SBin op l r] -> is_bool_binop op = false ->
  SC l = (litems, None) -> (if p_lax p then unwrapSeq litems else litems) = [lv] ->
  SC r = (ritems, None) -> ~ singleton (if p_lax p then unwrapSeq ritems else ritems) ->
  forall fuel q, Query L fuel p doc o = Ret q ->
  qres_sim q (if o_silent o then QItems [] else QErr (AErr (mathOperandErr "right"))).
Proof.
  intros Hr Hop Hl Hlv Hrr Hn fuel q H.
  pose proof (query_one_step _ _ Hr
    (C13_binary_right_not_single L C quirks_code op l r _ doc (-1) (p_lax p) (p_lax p) doc lv ritems litems
       Hop Hl Hlv Hrr Hn) fuel q H) as S.
  destruct (o_silent o); exact S.
Qed.

(* unary + and -: every item of the operand sequence, in order *)
Theorem query_unary_maps_over op a items :
  p_root p = [SUn op a] -> op = UPlus \/ op = UMinus ->
  SC a = (items, None) ->
  forall fuel q, Query L fuel p doc o = Ret q ->
  qres_sim q (p_query (o_silent o) (map_unary L (is_minus op) (if p_lax p then unwrapSeq items else items))).
Proof.
  intros Hr Hop Ha. apply (query_one_step _ _ Hr).
  exact (C13_unary_result L C quirks_code op a doc (-1) (p_lax p) (p_lax p) doc items Hop Ha).
Qed.

End Model.

(* the hypotheses of the four theorems above are satisfiable: $ + 1 on [1], lax *)
Lemma lib0_canon : members_canon lib0.
Proof. intros l. reflexivity. Qed.

Example query_model_hypotheses_witness :
  let p := mkpath true false [SBin BAdd [SConst CRoot] [SInteger 1]] in
  let doc := JArr 1 [JNum (NInt 1)] in
  let C := mkcenv true doc [] false in
  members_canon lib0 /\ o_cancel_at (o0 false) = None /\
  no_kv (p_root p) = true /\ exists_ok (p_root p) = true /\ ne_ops (p_root p) = true /\
  is_bool_binop BAdd = false /\
  sem_chain lib0 C quirks_code [SConst CRoot] doc (-1) true true doc = ([doc], None) /\
  unwrapSeq [doc] = [JNum (NInt 1)] /\
  sem_chain lib0 C quirks_code [SInteger 1] doc (-1) true true doc = ([JNum (NInt 1)], None) /\
  unwrapSeq [JNum (NInt 1)] = [JNum (NInt 1)] /\
  execMathOp lib0 (JNum (NInt 1)) (JNum (NInt 1)) BAdd = MOk (NInt 2) /\
  Query lib0 30 p doc (o0 false) = Ret (QItems [JNum (NInt 2)]).
Proof. cbv zeta. split; [exact lib0_canon|]. vm_compute. repeat split. Qed.

(* ================================================================== *)
(* 4. The NumLaws fields C13 uses, of the extracted instance            *)
(* ================================================================== *)
(* ArithProofs uses nl_ofZ_0 and nl_js_int_float only; both are proved of lib0
   (the eighth field of NumLaws, the float formatting round trip, is the
   hypothesis StrconvTrusted of numlaws_concrete and is not used here) *)
Theorem numlaws_fields_used_by_arith :
  xl_of_Z lib0 0 = S754_zero false /\
  (forall s z, js_int64 lib0 s = Some z ->
     js_float64 lib0 s = Some (xl_of_Z lib0 z, false) \/ (z = 0 /\ js_float64 lib0 s = Some (S754_zero true, false))).
Proof.
  pose proof (numlaws_concrete_proved (ctx_fixed 0 0) (fun _ _ _ => false) members_in_order) as H.
  cbv zeta in H. destruct H as (H1 & _ & H3 & _). split; [exact H1 | exact H3].
Qed.

Theorem numlaws_lib0 : StrconvTrusted -> NumLaws lib0.
Proof. exact (numlaws_concrete (ctx_fixed 0 0) (fun _ _ _ => false) members_in_order). Qed.

Print Assumptions arith_spec_int_is_model.
Print Assumptions arith_spec_agrees_when_fits.
Print Assumptions arith_spec_agrees_int64.
Print Assumptions arith_spec_agrees_int_by_zero.
Print Assumptions arith_spec_flags_wrap.
Print Assumptions neg_spec_agrees.
Print Assumptions abs_spec_agrees.
Print Assumptions neg_num_involutive.
Print Assumptions unary_minus_twice.
Print Assumptions arith_spec_wrap_witness.
Print Assumptions arith_spec_agree_witness.
Print Assumptions query_wrap_witness.
Print Assumptions query_div_by_zero_witness.
Print Assumptions query_operand_sequences_witness.
Print Assumptions query_binary_singletons.
Print Assumptions query_binary_left_not_single.
Print Assumptions query_binary_right_not_single.
Print Assumptions query_unary_maps_over.
Print Assumptions query_model_hypotheses_witness.
Print Assumptions numlaws_fields_used_by_arith.
Print Assumptions numlaws_lib0.
