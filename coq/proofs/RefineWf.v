(* RefineWf.v — the two side conditions of the refinement theorems that only
   exclude trees the grammar cannot build (an empty path, an empty operand
   chain) hold of every path in the image of the parser (model/Parser.v,
   wf_chain).  Stdlib only, no axioms. *)
From SJ Require Import lib.Base model.Json model.Ast model.ExecLib model.Leaf model.Exec
  lib.GoLib model.Parser proofs.RefineDefs.

Lemma ca_eq P Q c :
  (fix ca (c : list step) {struct c} : bool :=
     match c with [] => true | x :: r => st_all P Q x && ca r end) c = ch_all P Q c.
Proof. induction c as [|x r IH]; [reflexivity|]. cbn [ch_all]. rewrite <- IH. reflexivity. Qed.

Lemma chain_shape_ne c : chain_shape c = true -> negb (cnil c) = true.
Proof. destruct c; [discriminate|reflexivity]. Qed.

Ltac bools :=
  repeat match goal with H : _ && _ = true |- _ => apply andb_true_iff in H; destruct H end.

Lemma wf_ne_ops_all G :
  forall c, ch_all (step_ok G) chain_shape c = true -> all_chain ne1 c = true.
Proof.
  apply (chain_ind'
           (fun s => st_all (step_ok G) chain_shape s = true -> all_steps ne1 s = true)
           (fun c => ch_all (step_ok G) chain_shape c = true -> all_chain ne1 c = true));
    try (intros; reflexivity).
  - intros s c Hs Hc H. cbn [ch_all] in H. bools. rewrite all_chain_cons, Hs, Hc by assumption. reflexivity.
  - intros op l r Hl Hr H. cbn [st_all] in H. rewrite !ca_eq in H. bools.
    rewrite all_steps_eq, Hl, Hr by assumption.
    cbn [ne1]. rewrite !chain_shape_ne by assumption. destruct op; reflexivity.
  - intros op a Ha H. cbn [st_all] in H. rewrite !ca_eq in H. bools.
    rewrite all_steps_eq, Ha by assumption.
    cbn [ne1]. rewrite !chain_shape_ne by assumption. destruct op; reflexivity.
  - intros a p f Ha H. cbn [st_all] in H. rewrite !ca_eq in H. bools.
    rewrite all_steps_eq, Ha by assumption.
    cbn [ne1]. rewrite !chain_shape_ne by assumption. reflexivity.
  - intros subs HF H. cbn [st_all] in H. apply andb_true_iff in H. destruct H as [_ H].
    rewrite all_steps_eq.
    assert (A : forallb ne_sub subs = true /\ all_subs ne1 subs = true).
    { induction HF as [|[a b] r [Ha Hb] _ IH]; [split; reflexivity|].
      cbn [fst snd] in Ha, Hb. rewrite !ca_eq in H. bools.
      destruct (IH ltac:(assumption)) as [I1 I2].
      cbn [forallb all_subs]. rewrite I1, I2. unfold ne_sub, all_sub. cbn [fst snd].
      rewrite Ha, chain_shape_ne by assumption.
      destruct b as [c|]; [|split; reflexivity].
      rewrite ca_eq in *. bools. rewrite Hb, chain_shape_ne by assumption. split; reflexivity. }
    destruct A as [A1 A2]. cbn [ne1]. rewrite A1, A2. reflexivity.
Qed.

Theorem wf_chain_ne_ops G c : wf_chain G c = true -> ne_ops c = true /\ c <> [].
Proof.
  unfold wf_chain. intros H. apply andb_true_iff in H. destruct H as [H1 H2]. split.
  - apply (wf_ne_ops_all G). exact H2.
  - destruct c; [discriminate|discriminate].
Qed.

Corollary wf_path_side G p : wf_path G p -> ne_ops (p_root p) = true /\ p_root p <> [].
Proof. intros [H _]. apply (wf_chain_ne_ops G). exact H. Qed.

Print Assumptions wf_path_side.
