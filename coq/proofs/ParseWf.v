(* ParseWf.v — C04: parse_ok_wf.  What Parse returns is in the parser image
   [wf_path] (model/Parser.v). *)
From Coq Require Import Floats.SpecFloat.
From SJ Require Import lib.Base lib.Utf8 lib.GoLib model.Json model.Ast model.Lexer model.Parser
  proofs.LexProofs proofs.ParseProofs.
Local Open Scope list_scope.
Notation length := List.length (only parsing).

(* what the lexer guarantees of a token's text *)
Definition tok_ok (t : token) : Prop :=
  match tk t with
  | TIdent | TString | TVariable | TKw _ => wf_text (ttext t) = true
  | TInt | TNumeric => no_minus (ttext t) = true
  | _ => True
  end.

Definition rP {A} (P : A -> Prop) (x : pres A) : Prop :=
  match x with ROk a => P a | RErr _ => True end.

Lemma rP_bind {A B} (Q : A -> Prop) (P : B -> Prop) (x : pres A) (f : A -> pres B) :
  rP Q x -> (forall a, Q a -> rP P (f a)) -> rP P (rbind x f).
Proof. destruct x; cbn; auto. Qed.

Lemma rP_syn {A} (P : A -> Prop) ts : rP P (@syn A ts).
Proof. unfold syn. destruct ts as [|[k t] r]; cbn; auto. destruct k; cbn; auto. Qed.

Lemma rP_syn_bind {A B} (P : B -> Prop) ts (f : A -> pres B) : rP P (rbind (@syn A ts) f).
Proof. unfold syn. destruct ts as [|[k t] r]; cbn; auto. destruct k; cbn; auto. Qed.

Ltac inv_forall :=
  cbn [fst snd] in *;
  repeat match goal with
         | H : Forall _ (_ :: _) |- _ => inversion H; clear H; subst
         end.

Section L.
Variable L : GoLib.
Hypothesis HL : Laws L.

Notation sok := (st_all (step_ok L) chain_shape).
Notation cok := (ch_all (step_ok L) chain_shape).

Lemma new_integer_rP {B} (P : B -> Prop) txt (f : Z -> pres B) :
  no_minus txt = true ->
  (forall z, 0 <= z <= max_int64 -> rP P (f z)) -> rP P (rbind (new_integer L txt) f).
Proof.
  intros Hm H. unfold new_integer. destruct (parse_int0 L txt) as [z|] eqn:E; cbn; [|exact I].
  apply H. pose proof (parse_int0_range L HL _ _ E) as R. pose proof (parse_int0_nonneg L HL _ _ E Hm).
  unfold in_int64, min_int64, max_int64 in *. lia.
Qed.

Lemma new_numeric_rP {B} (P : B -> Prop) txt (f : f64 -> pres B) :
  (forall v, f64_finite v = true -> rP P (f v)) -> rP P (rbind (new_numeric L txt) f).
Proof.
  intros H. unfold new_numeric. destruct (parse_float L txt) as [[v [|]]|] eqn:E; cbn; try exact I.
  apply H. eapply parse_float_finite; eauto.
Qed.

Lemma any_bound_range x : 0 <= any_bound x <= max_uint32.
Proof. unfold any_bound, max_uint32. destruct ((0 <=? x) && (x <? 4294967295)) eqn:E; lia. Qed.

Lemma new_any_ok a b : step_ok L (new_any a b) = true.
Proof.
  unfold new_any. cbn. pose proof (any_bound_range a). pose proof (any_bound_range b).
  unfold max_uint32 in *. lia.
Qed.

Lemma sok_new_any a b : sok (new_any a b) = true.
Proof. pose proof (new_any_ok a b) as H. unfold new_any in *. cbn [st_all]. rewrite H. reflexivity. Qed.

(* postcondition of the accessor pieces: an accessor step that is ok, and the
   remaining tokens are still ok *)
Definition acc_post (a : step * list token) : Prop :=
  is_accessor_step (fst a) = true /\ sok (fst a) = true /\ Forall tok_ok (snd a).

Ltac wstep :=
  match goal with
  | |- rP _ (syn _) => apply rP_syn
  | |- rP _ (rbind (syn _) _) => apply rP_syn_bind
  | |- rP _ (RErr _) => exact I
  | |- rP _ (rbind (RErr _) _) => exact I
  | |- rP _ (rbind (ROk _) _) => cbn [rbind]
  | |- rP _ (rbind (rbind _ _) _) => rewrite rbind_assoc
  | |- rP _ (rbind (if ?c then _ else _) _) => destruct c eqn:?
  | |- rP _ (rbind (match ?x with _ => _ end) _) => destruct x eqn:?
  | |- rP _ (if ?c then _ else _) => destruct c eqn:?
  | |- rP _ (match ?x with _ => _ end) => destruct x eqn:?
  end.

Lemma p_any_level_rP ts : Forall tok_ok ts ->
  rP (fun a : Z * list token => Forall tok_ok (snd a)) (p_any_level L ts).
Proof. intros F. unfold p_any_level. repeat wstep; subst; inv_forall; cbn; auto. Qed.

Lemma p_any_rP ts : Forall tok_ok ts -> rP acc_post (p_any L ts).
Proof.
  intros F. unfold p_any.
  destruct ts as [|[k txt] r].
  { cbn. unfold acc_post. cbn. repeat split; auto. }
  assert (D: rP acc_post (ROk (new_any 0 (-1), {| tk := k; ttext := txt |} :: r))).
  { cbn. unfold acc_post. cbn. repeat split; auto. }
  destruct k; try exact D. destruct c; try exact D.
  repeat (match goal with |- context [match ?p with _ => _ end] =>
            match type of p with positive => destruct p; try exact D end end).
  clear D. inv_forall.
  eapply rP_bind; [apply p_any_level_rP; assumption|]. intros [a r1] F1. cbn [snd] in F1.
  repeat first
    [ match goal with
      | |- rP _ (rbind (p_any_level _ _) _) =>
          eapply rP_bind; [apply p_any_level_rP; subst; inv_forall; assumption|]; intros [? ?] ?
      | |- rP _ (ROk _) =>
          subst; inv_forall; cbn [rP]; unfold acc_post; cbn [fst snd];
          split; [reflexivity|split; [apply sok_new_any|cbn [snd] in *; auto]]
      end
    | wstep ].
Qed.

Definition int_post (a : Z * list token) : Prop :=
  lit_int_ok (fst a) = true /\ Forall tok_ok (snd a).

Lemma lit_int_ok_pos z : 0 <= z <= max_int64 -> lit_int_ok z = true.
Proof. unfold lit_int_ok, max_int64. lia. Qed.
Lemma lit_int_ok_neg z : 0 <= z <= max_int64 -> lit_int_ok (- z) = true.
Proof. unfold lit_int_ok, max_int64. lia. Qed.
Lemma lit_int_ok_opp z : lit_int_ok z = true -> lit_int_ok (- z) = true.
Proof. unfold lit_int_ok, max_int64. lia. Qed.

Ltac tokok H := unfold tok_ok in H; cbn [tk ttext] in H.

Lemma p_csv_elem_rP ts : Forall tok_ok ts -> rP int_post (p_csv_elem L ts).
Proof.
  intros F. unfold p_csv_elem.
  repeat first
    [ match goal with
      | |- rP _ (rbind (new_integer _ ?t) _) =>
          subst; inv_forall;
          apply new_integer_rP;
          [ match goal with H : tok_ok (mktok TInt t) |- _ => tokok H; exact H end | intros ? ? ]
      | |- rP _ (ROk _) =>
          cbn [rP]; unfold int_post; cbn [fst snd];
          split; [first [apply lit_int_ok_pos; assumption|apply lit_int_ok_neg; assumption]|assumption]
      end
    | wstep ].
Qed.

Lemma p_csv_rest_rP_n n : forall acc ts, (length ts <= n)%nat ->
  Forall tok_ok ts -> forallb lit_int_ok acc = true ->
  rP (fun a : list Z * list token => forallb lit_int_ok (fst a) = true /\ Forall tok_ok (snd a))
     (p_csv_rest L acc ts).
Proof.
  induction n as [|n IH]; intros acc ts Hn F Ha.
  - destruct ts; [cbn; exact I|cbn in Hn; lia].
  - destruct ts as [|t r]; [cbn; exact I|].
    cbn [p_csv_rest]. cbn [length] in Hn.
    repeat first
      [ match goal with
        | |- rP _ (rbind (new_integer _ ?t) _) =>
            subst; inv_forall;
            apply new_integer_rP;
            [ match goal with H : tok_ok (mktok TInt t) |- _ => tokok H; exact H end | intros ? ? ]
        | |- rP _ (p_csv_rest _ _ _) =>
            subst; inv_forall; apply IH;
            [ cbn [length] in *; lia | assumption
            | rewrite forallb_app; rewrite Ha; cbn;
              first [rewrite lit_int_ok_pos by assumption|rewrite lit_int_ok_neg by assumption]; reflexivity ]
        | |- rP _ (ROk _) => subst; inv_forall; cbn [rP fst snd]; split; assumption
        end
      | wstep ].
Qed.

Lemma p_decimal_args_rP ts : Forall tok_ok ts -> rP acc_post (p_decimal_args L ts).
Proof.
  intros F. unfold p_decimal_args.
  eapply rP_bind with (Q := fun a : list Z * list token =>
                              forallb lit_int_ok (fst a) = true /\ Forall tok_ok (snd a)).
  - assert (D: rP (fun a : list Z * list token => forallb lit_int_ok (fst a) = true /\ Forall tok_ok (snd a))
                 (let+ (z, r1) := p_csv_elem L ts in p_csv_rest L [z] r1)).
    { eapply rP_bind; [apply p_csv_elem_rP; exact F|]. intros [z r1] [Hz Hr]. cbn [fst snd] in *.
      apply (p_csv_rest_rP_n (length r1)); [lia|assumption|cbn; rewrite Hz; reflexivity]. }
    destruct ts as [|t r]; [exact D|].
    destruct t as [k txt]. destruct k; try exact D.
    destruct c; try exact D.
    repeat (match goal with |- context [match ?p with _ => _ end] =>
              match type of p with positive => destruct p; try exact D end end).
    inv_forall. cbn. auto.
  - intros [args r] [Ha Hr]. cbn [fst snd] in *.
    destruct args as [|a [|b [|c l]]]; cbn [rP]; try exact I; unfold acc_post; cbn [fst snd];
      (split; [reflexivity|split; [|assumption]]); cbn in *.
    + reflexivity.
    + rewrite andb_true_r in Ha. rewrite Ha. reflexivity.
    + apply andb_prop in Ha as [A B]. rewrite andb_true_r in B. rewrite A, B. reflexivity.
Qed.

Ltac tok_text :=
  match goal with
  | H : tok_ok (mktok _ ?t) |- context [wf_text ?t] => tokok H; rewrite H
  end.

Ltac fa_solve :=
  first [ assumption | repeat (apply Forall_cons; [assumption|]); first [assumption|apply Forall_nil] | idtac ].

Ltac leaf_acc :=
  subst; inv_forall; cbn [rP]; unfold acc_post; cbn [fst snd];
  split; [reflexivity|split; [cbn [st_all step_ok]; repeat tok_text;
                               rewrite ?andb_true_r; try reflexivity|fa_solve]].

Lemma p_dot_rP ts : Forall tok_ok ts -> rP acc_post (p_dot L ts).
Proof.
  intros F. unfold p_dot.
  repeat first
    [ match goal with
      | |- rP _ (p_any _ _) => subst; inv_forall; apply p_any_rP; assumption
      | |- rP _ (p_decimal_args _ _) => subst; inv_forall; apply p_decimal_args_rP; assumption
      | |- rP _ (rbind (new_integer _ ?t) _) =>
          subst; inv_forall;
          apply new_integer_rP;
          [ match goal with H : tok_ok (mktok TInt t) |- _ => tokok H; exact H end | intros ? ? ]
      | |- rP _ (ROk _) => leaf_acc
      end
    | wstep ].
  all: repeat match goal with
              | H : dtprec_of_kw _ = Some _ |- _ =>
                  cbn in H; first [discriminate H | inversion H; subst; clear H]
              end.
  all: cbn; try reflexivity; try (unfold max_int64 in *; lia).
Qed.

(* ---- what is proved of parse_ok_wf ----

   FULL STATEMENT (not proved in full):
     Theorem parse_ok_wf : forall s p, parse L s = POk p -> wf_path L p.

   Proved below / above:
   * parse_ok_validate: the second conjunct of wf_path — "@" occurs only under
     a filter and "last" only inside a subscript (validate_chain = None);
   * the accessor half of the first conjunct: every accessor step built by
     p_dot / p_any / p_decimal_args from lexer-shaped tokens is an accessor
     step satisfying step_ok (acc_post): .decimal() has 0, 1 or 2 int64
     arguments and never a scale without a precision, .time()/.timestamp()...
     precisions are non-negative int64, .datetime() carries only a template,
     .date() nothing, ".**{...}" bounds are within 0..4294967295, key texts
     are lexer texts (p_dot_rP, p_any_rP, p_decimal_args_rP, p_csv_*_rP).
   Missing: the induction over p_unary/p_eop/p_loop/p_accs/p_index that
   threads wf_chain and the sort tag (is_pred_chain c <-> sort = SP) through the
   operator cases (incl. the bound 0 <= mask < 32 of regex_flags_loop), and the
   lexer invariant [Forall tok_ok (lex L s)] (string/identifier/variable
   texts are UTF-8 of valid non-NUL runes; INT/NUMERIC texts carry no sign).
   The differential test checks the executable [wf_chain] on every accepted
   input instead (tools/parsevec). *)

Theorem parse_ok_validate s p :
  parse L s = POk p -> validate_chain (p_root p) 0 false = None.
Proof.
  unfold parse, parse_tokens.
  set (q := match lex L s with
            | mktok (TKw KStrict) _ :: r => (false, r)
            | mktok (TKw KLax) _ :: r => (true, r)
            | _ => (true, lex L s)
            end).
  destruct q as [lax ts1].
  destruct (p_eop L (parser_fuel ts1) 0 true ts1) as [[[so c] r]|e]; [|discriminate].
  destruct r as [|[k txt] r'].
  - destruct (validate_chain c 0 false) eqn:V; [discriminate|].
    intros H. inversion H; subst. exact V.
  - destruct k; try (destruct (validate_chain c 0 false); discriminate).
Qed.
End L.

Print Assumptions parse_ok_validate.
Print Assumptions p_dot_rP.
