(* ParseWf.v — C04: parse_ok_wf.  What Parse returns is in the parser image
   [wf_path] (model/Parser.v). *)
From Coq Require Import Floats.SpecFloat.
From SJ Require Import lib.Base lib.Utf8 lib.GoLib model.Json model.Ast model.Lexer model.Parser
  proofs.LexProofs proofs.ParseProofs.
Local Open Scope list_scope.
Notation length := List.length (only parsing).

(* what the lexer guarantees of a token's text *)
Definition tok_ok (t : token) : Prop :=
  match tk t with
  | TIdent | TString | TVariable | TKw _ => wf_text (ttext t) = true
  | TInt | TNumeric => no_minus (ttext t) = true
  | _ => True
  end.

Definition rP {A} (P : A -> Prop) (x : pres A) : Prop :=
  match x with ROk a => P a | RErr _ => True end.

Lemma rP_bind {A B} (Q : A -> Prop) (P : B -> Prop) (x : pres A) (f : A -> pres B) :
  rP Q x -> (forall a, Q a -> rP P (f a)) -> rP P (rbind x f).
Proof. destruct x; cbn; auto. Qed.

Lemma rP_syn {A} (P : A -> Prop) ts : rP P (@syn A ts).
Proof. unfold syn. destruct ts as [|[k t] r]; cbn; auto. destruct k; cbn; auto. Qed.

Lemma rP_syn_bind {A B} (P : B -> Prop) ts (f : A -> pres B) : rP P (rbind (@syn A ts) f).
Proof. unfold syn. destruct ts as [|[k t] r]; cbn; auto. destruct k; cbn; auto. Qed.

Ltac inv_forall :=
  cbn [fst snd] in *;
  repeat match goal with
         | H : Forall _ (_ :: _) |- _ => inversion H; clear H; subst
         end.

Section L.
Variable L : GoLib.
Hypothesis HL : Laws L.

Notation sok := (st_all (step_ok L) chain_shape).
Notation cok := (ch_all (step_ok L) chain_shape).

Lemma new_integer_rP {B} (P : B -> Prop) txt (f : Z -> pres B) :
  no_minus txt = true ->
  (forall z, 0 <= z <= max_int64 -> rP P (f z)) -> rP P (rbind (new_integer L txt) f).
Proof.
  intros Hm H. unfold new_integer. destruct (parse_int0 L txt) as [z|] eqn:E; cbn; [|exact I].
  apply H. pose proof (parse_int0_range L HL _ _ E) as R. pose proof (parse_int0_nonneg L HL _ _ E Hm).
  unfold in_int64, min_int64, max_int64 in *. lia.
Qed.

Lemma new_numeric_rP {B} (P : B -> Prop) txt (f : f64 -> pres B) :
  (forall v, f64_finite v = true -> rP P (f v)) -> rP P (rbind (new_numeric L txt) f).
Proof.
  intros H. unfold new_numeric. destruct (parse_float L txt) as [[v [|]]|] eqn:E; cbn; try exact I.
  apply H. eapply parse_float_finite; eauto.
Qed.

Lemma any_bound_range x : 0 <= any_bound x <= max_uint32.
Proof. unfold any_bound, max_uint32. destruct ((0 <=? x) && (x <? 4294967295)) eqn:E; lia. Qed.

Lemma new_any_ok a b : step_ok L (new_any a b) = true.
Proof.
  unfold new_any. cbn. pose proof (any_bound_range a). pose proof (any_bound_range b).
  unfold max_uint32 in *. lia.
Qed.

Lemma sok_new_any a b : sok (new_any a b) = true.
Proof. pose proof (new_any_ok a b) as H. unfold new_any in *. cbn [st_all]. rewrite H. reflexivity. Qed.

(* postcondition of the accessor pieces: an accessor step that is ok, and the
   remaining tokens are still ok *)
Definition acc_post (a : step * list token) : Prop :=
  is_accessor_step (fst a) = true /\ sok (fst a) = true /\ Forall tok_ok (snd a).

Ltac wstep :=
  match goal with
  | |- rP _ (syn _) => apply rP_syn
  | |- rP _ (rbind (syn _) _) => apply rP_syn_bind
  | |- rP _ (RErr _) => exact I
  | |- rP _ (rbind (RErr _) _) => exact I
  | |- rP _ (rbind (ROk _) _) => cbn [rbind]
  | |- rP _ (rbind (rbind _ _) _) => rewrite rbind_assoc
  | |- rP _ (rbind (if ?c then _ else _) _) => destruct c eqn:?
  | |- rP _ (rbind (match ?x with _ => _ end) _) => destruct x eqn:?
  | |- rP _ (if ?c then _ else _) => destruct c eqn:?
  | |- rP _ (match ?x with _ => _ end) => destruct x eqn:?
  end.

Lemma p_any_level_rP ts : Forall tok_ok ts ->
  rP (fun a : Z * list token => Forall tok_ok (snd a)) (p_any_level L ts).
Proof. intros F. unfold p_any_level. repeat wstep; subst; inv_forall; cbn; auto. Qed.

Lemma p_any_rP ts : Forall tok_ok ts -> rP acc_post (p_any L ts).
Proof.
  intros F. unfold p_any.
  destruct ts as [|[k txt] r].
  { cbn. unfold acc_post. cbn. repeat split; auto. }
  assert (D: rP acc_post (ROk (new_any 0 (-1), {| tk := k; ttext := txt |} :: r))).
  { cbn. unfold acc_post. cbn. repeat split; auto. }
  destruct k; try exact D. destruct c; try exact D.
  repeat (match goal with |- context [match ?p with _ => _ end] =>
            match type of p with positive => destruct p; try exact D end end).
  clear D. inv_forall.
  eapply rP_bind; [apply p_any_level_rP; assumption|]. intros [a r1] F1. cbn [snd] in F1.
  repeat first
    [ match goal with
      | |- rP _ (rbind (p_any_level _ _) _) =>
          eapply rP_bind; [apply p_any_level_rP; subst; inv_forall; assumption|]; intros [? ?] ?
      | |- rP _ (ROk _) =>
          subst; inv_forall; cbn [rP]; unfold acc_post; cbn [fst snd];
          split; [reflexivity|split; [apply sok_new_any|cbn [snd] in *; auto]]
      end
    | wstep ].
Qed.

Definition int_post (a : Z * list token) : Prop :=
  lit_int_ok (fst a) = true /\ Forall tok_ok (snd a).

Lemma lit_int_ok_pos z : 0 <= z <= max_int64 -> lit_int_ok z = true.
Proof. unfold lit_int_ok, max_int64. lia. Qed.
Lemma lit_int_ok_neg z : 0 <= z <= max_int64 -> lit_int_ok (- z) = true.
Proof. unfold lit_int_ok, max_int64. lia. Qed.
Lemma lit_int_ok_opp z : lit_int_ok z = true -> lit_int_ok (- z) = true.
Proof. unfold lit_int_ok, max_int64. lia. Qed.

Ltac tokok H := unfold tok_ok in H; cbn [tk ttext] in H.

Lemma p_csv_elem_rP ts : Forall tok_ok ts -> rP int_post (p_csv_elem L ts).
Proof.
  intros F. unfold p_csv_elem.
  repeat first
    [ match goal with
      | |- rP _ (rbind (new_integer _ ?t) _) =>
          subst; inv_forall;
          apply new_integer_rP;
          [ match goal with H : tok_ok (mktok TInt t) |- _ => tokok H; exact H end | intros ? ? ]
      | |- rP _ (ROk _) =>
          cbn [rP]; unfold int_post; cbn [fst snd];
          split; [first [apply lit_int_ok_pos; assumption|apply lit_int_ok_neg; assumption]|assumption]
      end
    | wstep ].
Qed.

Lemma p_csv_rest_rP_n n : forall acc ts, (length ts <= n)%nat ->
  Forall tok_ok ts -> forallb lit_int_ok acc = true ->
  rP (fun a : list Z * list token => forallb lit_int_ok (fst a) = true /\ Forall tok_ok (snd a))
     (p_csv_rest L acc ts).
Proof.
  induction n as [|n IH]; intros acc ts Hn F Ha.
  - destruct ts; [cbn; exact I|cbn in Hn; lia].
  - destruct ts as [|t r]; [cbn; exact I|].
    cbn [p_csv_rest]. cbn [length] in Hn.
    repeat first
      [ match goal with
        | |- rP _ (rbind (new_integer _ ?t) _) =>
            subst; inv_forall;
            apply new_integer_rP;
            [ match goal with H : tok_ok (mktok TInt t) |- _ => tokok H; exact H end | intros ? ? ]
        | |- rP _ (p_csv_rest _ _ _) =>
            subst; inv_forall; apply IH;
            [ cbn [length] in *; lia | assumption
            | rewrite forallb_app; rewrite Ha; cbn;
              first [rewrite lit_int_ok_pos by assumption|rewrite lit_int_ok_neg by assumption]; reflexivity ]
        | |- rP _ (ROk _) => subst; inv_forall; cbn [rP fst snd]; split; assumption
        end
      | wstep ].
Qed.

Lemma p_decimal_args_rP ts : Forall tok_ok ts -> rP acc_post (p_decimal_args L ts).
Proof.
  intros F. unfold p_decimal_args.
  eapply rP_bind with (Q := fun a : list Z * list token =>
                              forallb lit_int_ok (fst a) = true /\ Forall tok_ok (snd a)).
  - assert (D: rP (fun a : list Z * list token => forallb lit_int_ok (fst a) = true /\ Forall tok_ok (snd a))
                 (let+ (z, r1) := p_csv_elem L ts in p_csv_rest L [z] r1)).
    { eapply rP_bind; [apply p_csv_elem_rP; exact F|]. intros [z r1] [Hz Hr]. cbn [fst snd] in *.
      apply (p_csv_rest_rP_n (length r1)); [lia|assumption|cbn; rewrite Hz; reflexivity]. }
    destruct ts as [|t r]; [exact D|].
    destruct t as [k txt]. destruct k; try exact D.
    destruct c; try exact D.
    repeat (match goal with |- context [match ?p with _ => _ end] =>
              match type of p with positive => destruct p; try exact D end end).
    inv_forall. cbn. auto.
  - intros [args r] [Ha Hr]. cbn [fst snd] in *.
    destruct args as [|a [|b [|c l]]]; cbn [rP]; try exact I; unfold acc_post; cbn [fst snd];
      (split; [reflexivity|split; [|assumption]]); cbn in *.
    + reflexivity.
    + rewrite andb_true_r in Ha. rewrite Ha. reflexivity.
    + apply andb_prop in Ha as [A B]. rewrite andb_true_r in B. rewrite A, B. reflexivity.
Qed.

Ltac tok_text :=
  match goal with
  | H : tok_ok (mktok _ ?t) |- context [wf_text ?t] => tokok H; rewrite H
  end.

Ltac fa_solve :=
  first [ assumption | repeat (apply Forall_cons; [assumption|]); first [assumption|apply Forall_nil] | idtac ].

Ltac leaf_acc :=
  subst; inv_forall; cbn [rP]; unfold acc_post; cbn [fst snd];
  split; [reflexivity|split; [cbn [st_all step_ok]; repeat tok_text;
                               rewrite ?andb_true_r; try reflexivity|fa_solve]].

Lemma p_dot_rP ts : Forall tok_ok ts -> rP acc_post (p_dot L ts).
Proof.
  intros F. unfold p_dot.
  repeat first
    [ match goal with
      | |- rP _ (p_any _ _) => subst; inv_forall; apply p_any_rP; assumption
      | |- rP _ (p_decimal_args _ _) => subst; inv_forall; apply p_decimal_args_rP; assumption
      | |- rP _ (rbind (new_integer _ ?t) _) =>
          subst; inv_forall;
          apply new_integer_rP;
          [ match goal with H : tok_ok (mktok TInt t) |- _ => tokok H; exact H end | intros ? ? ]
      | |- rP _ (ROk _) => leaf_acc
      end
    | wstep ].
  all: repeat match goal with
              | H : dtprec_of_kw _ = Some _ |- _ =>
                  cbn in H; first [discriminate H | inversion H; subst; clear H]
              end.
  all: cbn; try reflexivity; try (unfold max_int64 in *; lia).
Qed.

(* ------------------------------------------------------------------ *)
(* st_all / ch_all: one-step unfoldings with the local fix folded *)

Lemma ca_eq (P : step -> bool) (Q : list step -> bool) c :
  (fix ca (c : list step) {struct c} : bool :=
     match c with [] => true | x :: r => st_all P Q x && ca r end) c = ch_all P Q c.
Proof. induction c as [|x r IH]; [reflexivity|]. cbn [ch_all]. rewrite <- IH. reflexivity. Qed.

Lemma st_all_un P Q op a : st_all P Q (SUn op a) = P (SUn op a) && (Q a && ch_all P Q a).
Proof. cbn [st_all]. rewrite ca_eq. reflexivity. Qed.

Lemma st_all_bin P Q op l r :
  st_all P Q (SBin op l r) = P (SBin op l r) && (Q l && ch_all P Q l && (Q r && ch_all P Q r)).
Proof. cbn [st_all]. rewrite !ca_eq. reflexivity. Qed.

Lemma st_all_regex P Q a pat m :
  st_all P Q (SRegex a pat m) = P (SRegex a pat m) && (Q a && ch_all P Q a).
Proof. cbn [st_all]. rewrite ca_eq. reflexivity. Qed.

Lemma st_all_index P Q subs :
  st_all P Q (SIndex subs) =
  P (SIndex subs) &&
  forallb (fun ab => Q (fst ab) && ch_all P Q (fst ab) &&
                     match snd ab with Some c => Q c && ch_all P Q c | None => true end) subs.
Proof.
  cbn [st_all]. f_equal.
  induction subs as [|[a b] r IH]; [reflexivity|].
  cbn [forallb fst snd]. rewrite <- IH. rewrite !ca_eq.
  destruct b; rewrite ?ca_eq; reflexivity.
Qed.

Lemma ch_all_app P Q a b : ch_all P Q (a ++ b) = ch_all P Q a && ch_all P Q b.
Proof.
  induction a as [|x a IH]; [reflexivity|]. cbn [app ch_all]. rewrite IH, andb_assoc. reflexivity.
Qed.

(* ------------------------------------------------------------------ *)
(* chain-building lemmas *)

Lemma wf_chain_nonnil c : wf_chain L c = true -> c <> [].
Proof. destruct c; [discriminate|discriminate]. Qed.

Lemma wf_chain_prim st accs :
  is_accessor_step st = false -> sok st = true ->
  forallb is_accessor_step accs = true -> cok accs = true -> wf_chain L (st :: accs) = true.
Proof.
  intros A B C D. unfold wf_chain. cbn [chain_shape ch_all]. rewrite A, B, C, D. reflexivity.
Qed.

Lemma is_pred_chain_prim st accs : is_pred_step st = false -> is_pred_chain (st :: accs) = false.
Proof. intros H. destruct accs; cbn; auto. Qed.

Lemma wf_chain_app c accs :
  wf_chain L c = true -> forallb is_accessor_step accs = true -> cok accs = true ->
  wf_chain L (c ++ accs) = true.
Proof.
  unfold wf_chain. destruct c as [|h t]; [discriminate|].
  intros H A B. apply andb_prop in H as [H1 H2]. cbn [chain_shape] in H1. apply andb_prop in H1 as [H0 H1].
  change ((h :: t) ++ accs) with (h :: (t ++ accs)) at 1.
  cbn [chain_shape]. rewrite forallb_app, ch_all_app, H0, H1, H2, A, B. reflexivity.
Qed.

Lemma is_pred_chain_app c accs : c <> [] -> accs <> [] -> is_pred_chain (c ++ accs) = false.
Proof. destruct c as [|h [|h' t]]; destruct accs; cbn; congruence. Qed.

Lemma sok_un op a : step_ok L (SUn op a) = true -> wf_chain L a = true -> sok (SUn op a) = true.
Proof. rewrite st_all_un. unfold wf_chain. intros -> ->. reflexivity. Qed.

Lemma sok_bin op l r :
  step_ok L (SBin op l r) = true -> wf_chain L l = true -> wf_chain L r = true ->
  sok (SBin op l r) = true.
Proof. rewrite st_all_bin. unfold wf_chain. intros -> -> ->. reflexivity. Qed.

Lemma sok_regex a pat m :
  step_ok L (SRegex a pat m) = true -> wf_chain L a = true -> sok (SRegex a pat m) = true.
Proof. rewrite st_all_regex. unfold wf_chain. intros -> ->. reflexivity. Qed.

Lemma wf_single st : is_accessor_step st = false -> sok st = true -> wf_chain L [st] = true.
Proof. intros A B. apply wf_chain_prim; auto. Qed.

Lemma wf_un op a :
  is_accessor_step (SUn op a) = false -> step_ok L (SUn op a) = true -> wf_chain L a = true ->
  wf_chain L [SUn op a] = true.
Proof. intros A B C. apply wf_single; [exact A|apply sok_un; assumption]. Qed.

Lemma wf_bin op l r :
  step_ok L (SBin op l r) = true -> wf_chain L l = true -> wf_chain L r = true ->
  wf_chain L [SBin op l r] = true.
Proof. intros B C D. apply wf_single; [reflexivity|apply sok_bin; assumption]. Qed.

Lemma wf_regex a pat m :
  step_ok L (SRegex a pat m) = true -> wf_chain L a = true -> wf_chain L [SRegex a pat m] = true.
Proof. intros B C. apply wf_single; [reflexivity|apply sok_regex; assumption]. Qed.

Lemma wf_str t : wf_text t = true -> wf_chain L [SStr t] = true.
Proof. intros H. apply wf_single; [reflexivity|]. cbn. rewrite H. reflexivity. Qed.

Lemma wf_var t : wf_text t = true -> wf_chain L [SVar t] = true.
Proof. intros H. apply wf_single; [reflexivity|]. cbn. rewrite H. reflexivity. Qed.

(* ------------------------------------------------------------------ *)
(* new_regex *)

Lemma lor_bound32 a b : 0 <= a < 32 -> 0 <= b < 32 -> 0 <= Z.lor a b < 32.
Proof.
  intros Ha Hb. assert (N: 0 <= Z.lor a b) by (apply Z.lor_nonneg; lia).
  split; [exact N|].
  destruct (Z.eq_dec (Z.lor a b) 0) as [E|E]; [lia|].
  change 32 with (2 ^ 5). apply Z.log2_lt_pow2; [lia|].
  rewrite Z.log2_lor by lia. apply Z.max_lub_lt.
  - destruct (Z.eq_dec a 0) as [->|]; [cbn; lia|]. apply Z.log2_lt_pow2; [lia|]. change (2 ^ 5) with 32. lia.
  - destruct (Z.eq_dec b 0) as [->|]; [cbn; lia|]. apply Z.log2_lt_pow2; [lia|]. change (2 ^ 5) with 32. lia.
Qed.

Lemma regex_flags_loop_bound l : forall m m',
  0 <= m < 32 -> regex_flags_loop l m = Some m' -> 0 <= m' < 32.
Proof.
  induction l as [|c r IH]; intros m m' Hm H; cbn [regex_flags_loop] in H.
  - inversion H; subst; exact Hm.
  - repeat match type of H with
           | (if ?c then _ else _) = _ => destruct c
           end; try discriminate;
      (eapply IH; [|exact H]; apply lor_bound32; [exact Hm|];
       unfold reICase, reDotAll, reMLine, reWSpace, reQuote; lia).
Qed.

Lemma new_regex_rP {B} (P : B -> Prop) a pat fl (f : step -> pres B) :
  (forall m, 0 <= m < 32 ->
             (Z.land m reWSpace =? 0) || negb (Z.land m reQuote =? 0) = true ->
             regex_ok L pat m = true -> rP P (f (SRegex a pat m))) ->
  rP P (rbind (new_regex L a pat fl) f).
Proof.
  intros H. unfold new_regex.
  destruct (regex_flags_loop (bytes_of fl) 0) as [m|] eqn:E; [|exact I].
  apply regex_flags_loop_bound in E; [|lia].
  destruct ((Z.land m reQuote =? 0) && negb (Z.land m reWSpace =? 0)) eqn:X; [exact I|].
  destruct (regex_ok L pat m) eqn:R; [|exact I].
  cbn [rbind]. apply H; [exact E| |exact R].
  destruct (Z.land m reQuote =? 0), (Z.land m reWSpace =? 0); cbn in *; congruence.
Qed.

Lemma step_ok_regex a pat m :
  is_pred_chain a = false -> wf_text pat = true -> 0 <= m < 32 ->
  (Z.land m reWSpace =? 0) || negb (Z.land m reQuote =? 0) = true ->
  regex_ok L pat m = true -> step_ok L (SRegex a pat m) = true.
Proof.
  intros A B C D E. cbn [step_ok]. unfold is_expr_chain. rewrite A, B, D, E.
  destruct C as [C1 C2]. apply Z.leb_le in C1. apply Z.ltb_lt in C2. rewrite C1, C2. reflexivity.
Qed.

(* ------------------------------------------------------------------ *)
(* new_unary_or_number *)

Lemma nuon_cases op c :
  (exists z, c = [SInteger z]) \/ (exists v, c = [SNumeric v]) \/
  (is_number_chain c = false /\ new_unary_or_number L op c = [SUn op c]).
Proof.
  destruct c as [|s [|s' t]].
  - right; right; split; reflexivity.
  - destruct s; try (right; right; split; reflexivity); eauto.
  - right; right; split; destruct s; reflexivity.
Qed.

Lemma f64_neg_finite v : f64_finite v = true -> f64_finite (f64_neg L v) = true.
Proof. intros H. rewrite (f64_neg_spec L HL). destruct v; cbn in *; congruence. Qed.

Lemma new_unary_wf op c :
  op = UPlus \/ op = UMinus -> wf_chain L c = true -> is_pred_chain c = false ->
  wf_chain L (new_unary_or_number L op c) = true /\
  is_pred_chain (new_unary_or_number L op c) = false.
Proof.
  intros Hop Hw Hp.
  destruct (nuon_cases op c) as [[z ->]|[[v ->]|[Hn ->]]].
  - assert (Z: lit_int_ok z = true).
    { unfold wf_chain in Hw. cbn in Hw. rewrite !andb_true_r in Hw. exact Hw. }
    destruct Hop as [-> | ->]; cbn [new_unary_or_number]; (split; [|reflexivity]); [exact Hw|].
    apply wf_single; [reflexivity|]. cbn. rewrite lit_int_ok_opp by exact Z. reflexivity.
  - assert (Z: f64_finite v = true).
    { unfold wf_chain in Hw. cbn in Hw. rewrite !andb_true_r in Hw. exact Hw. }
    destruct Hop as [-> | ->]; cbn [new_unary_or_number]; (split; [|reflexivity]); [exact Hw|].
    apply wf_single; [reflexivity|]. cbn. rewrite f64_neg_finite by exact Z. reflexivity.
  - split; [|destruct Hop as [-> | ->]; reflexivity].
    apply wf_un; [destruct Hop as [-> | ->]; reflexivity| |exact Hw].
    cbn [step_ok]. unfold is_expr_chain. rewrite Hp, Hn. destruct Hop as [-> | ->]; reflexivity.
Qed.

(* ------------------------------------------------------------------ *)
(* p_primary *)

Definition prim_post (a : step * list token) : Prop :=
  is_accessor_step (fst a) = false /\ is_pred_step (fst a) = false /\
  sok (fst a) = true /\ Forall tok_ok (snd a).

Lemma p_primary_rP ts res : Forall tok_ok ts -> p_primary L ts = Some res -> rP prim_post res.
Proof.
  unfold p_primary. intros F H.
  repeat match type of H with
         | match ?x with _ => _ end = _ => destruct x; try discriminate
         end.
  all: inversion H; subst; clear H; inv_forall.
  all: try match goal with
           | |- rP _ (rbind (new_integer _ ?t) _) =>
               apply new_integer_rP;
               [ match goal with H : tok_ok (mktok TInt t) |- _ => tokok H; exact H end | intros ? ? ]
           | |- rP _ (rbind (new_numeric _ ?t) _) => apply new_numeric_rP; intros ? ?
           end.
  all: cbn [rP]; unfold prim_post; cbn [fst snd];
    (split; [reflexivity|split; [reflexivity|split; [|assumption]]]).
  all: cbn [st_all step_ok]; repeat tok_text; rewrite ?andb_true_r; try reflexivity.
  all: try assumption.
  all: apply lit_int_ok_pos; assumption.
Qed.

(* ------------------------------------------------------------------ *)
(* the recursive core *)

Definition sortb (s : sort) : bool := match s with SP => true | SE => false end.

Definition post3 (g : Prop) (a : sort * chain * list token) : Prop :=
  wf_chain L (snd (fst a)) = true /\ is_pred_chain (snd (fst a)) = sortb (fst (fst a)) /\
  Forall tok_ok (snd a) /\ (g -> fst (fst a) = SE).

Lemma rP_post3_weaken (g1 g2 : Prop) x : rP (post3 g1) x -> (g2 -> g1) -> rP (post3 g2) x.
Proof.
  destruct x as [[[s c] r]|e]; cbn [rP]; [|auto]. unfold post3; cbn [fst snd].
  intros (A & B & C & D) G. repeat split; auto.
Qed.

Definition accs_post (ts : list token) (a : chain * list token) : Prop :=
  forallb is_accessor_step (fst a) = true /\ cok (fst a) = true /\ Forall tok_ok (snd a) /\
  (starts_accessor ts = true -> fst a <> []).

Definition sub_ok (ab : chain * option chain) : bool :=
  wf_chain L (fst ab) && is_expr_chain (fst ab) &&
  match snd ab with Some c => wf_chain L c && is_expr_chain c | None => true end.

Definition index_post (a : list (chain * option chain) * list token) : Prop :=
  fst a <> [] /\ forallb sub_ok (fst a) = true /\ Forall tok_ok (snd a).

Ltac bools :=
  repeat match goal with
         | H : _ && _ = true |- _ => apply andb_prop in H; destruct H as [? ?]
         end.

Lemma sok_index subs : subs <> [] -> forallb sub_ok subs = true -> sok (SIndex subs) = true.
Proof.
  intros N H. rewrite st_all_index. cbn [step_ok].
  destruct subs as [|x r]; [congruence|]. cbn [negb andb].
  assert (A: forall (g : chain * option chain -> bool),
             (forall ab, sub_ok ab = true -> g ab = true) -> forallb g (x :: r) = true).
  { intros g Hg. rewrite forallb_forall in *. intros ab Hab. apply Hg, H, Hab. }
  rewrite !A; [reflexivity| |].
  - intros [a [b|]] Hab; unfold sub_ok, wf_chain in Hab; cbn [fst snd] in *; bools;
      repeat match goal with H : _ = true |- _ => rewrite H; clear H end; reflexivity.
  - intros [a [b|]] Hab; unfold sub_ok, wf_chain in Hab; cbn [fst snd] in *; bools;
      repeat match goal with H : _ = true |- _ => rewrite H; clear H end; reflexivity.
Qed.

Lemma arith_of_tok_spec k op q : arith_of_tok k = Some (op, q) ->
  (4 <= q)%nat /\
  (forall l r, step_ok L (SBin op l r) = is_expr_chain l && is_expr_chain r) /\
  (forall l r, is_pred_step (SBin op l r) = false).
Proof.
  unfold arith_of_tok. intros H.
  repeat match type of H with
         | match ?x with _ => _ end = _ => destruct x; try discriminate
         end.
  all: inversion H; subst; (split; [lia|split; reflexivity]).
Qed.

Lemma cmp_of_tok_spec k op : cmp_of_tok k = Some op ->
  (forall l r, step_ok L (SBin op l r) = is_expr_chain l && is_expr_chain r) /\
  (forall l r, is_pred_step (SBin op l r) = true).
Proof.
  unfold cmp_of_tok. intros H. destruct k; try discriminate; inversion H; subst; split; reflexivity.
Qed.


Lemma rP_top {A} (x : pres A) : rP (fun _ => True) x.
Proof. destruct x; exact I. Qed.

Lemma rP_ok {A} (P : A -> Prop) x a : rP P x -> x = ROk a -> P a.
Proof. intros H ->. exact H. Qed.

(* an accessor list that starts with ".", "[" or "?" is not empty *)
Lemma p_accs_nonnil f ts accs r :
  starts_accessor ts = true -> p_accs L f ts = ROk (accs, r) -> accs <> [].
Proof.
  intros SA E.
  assert (H: rP (fun a : chain * list token => fst a <> []) (p_accs L f ts)).
  { clear E. destruct f as [|f]; [exact I|].
    destruct ts as [|[k txt] r0]; [discriminate|].
    cbn [starts_accessor] in SA. unfold is_char in SA. cbn [tk] in SA. destruct k; try discriminate.
    assert (C: c = 46 \/ c = 91 \/ c = 63).
    { destruct (Z.eqb_spec c 46); [auto|]. destruct (Z.eqb_spec c 91); [auto|].
      destruct (Z.eqb_spec c 63); [auto|]. discriminate SA. }
    clear SA. rewrite p_accs_S.
    destruct C as [-> | [-> | ->]]; cbv beta iota.
    all: repeat first
      [ match goal with
        | |- rP _ (rbind (p_eop _ _ _ _ _) _) => eapply rP_bind; [apply rP_top|]; intros [[? ?] ?] _
        | |- rP _ (rbind (p_accs _ _ _) _) => eapply rP_bind; [apply rP_top|]; intros [? ?] _
        | |- rP _ (rbind (p_index _ _ _) _) => eapply rP_bind; [apply rP_top|]; intros [? ?] _
        | |- rP _ (rbind (p_dot _ _) _) => eapply rP_bind; [apply rP_top|]; intros [? ?] _
        | |- rP _ (ROk _) => cbn [rP fst]; discriminate
        end
      | wstep ]. }
  exact (rP_ok _ _ _ H E).
Qed.

Definition core_wf (f : nat) : Prop :=
  (forall po ts, Forall tok_ok ts -> rP (post3 (po = false)) (p_unary L f po ts)) /\
  (forall minp po ts, Forall tok_ok ts ->
     rP (post3 (po = false /\ (4 <= minp)%nat)) (p_eop L f minp po ts)) /\
  (forall minp s lhs ts, Forall tok_ok ts -> wf_chain L lhs = true -> is_pred_chain lhs = sortb s ->
     rP (post3 (s = SE /\ (4 <= minp)%nat)) (p_loop L f minp s lhs ts)) /\
  (forall ts, Forall tok_ok ts -> rP (accs_post ts) (p_accs L f ts)) /\
  (forall ts, Forall tok_ok ts -> rP index_post (p_index L f ts)).

Ltac fa := first [assumption | apply Forall_cons; [assumption|fa] | apply Forall_nil].

Ltac norm := subst; inv_forall; cbn [sortb] in *.

Ltac lebs :=
  repeat match goal with
         | H : (_ <=? _)%nat = true |- _ => apply Nat.leb_le in H
         | H : (_ <=? _)%nat = false |- _ => apply Nat.leb_gt in H
         end.

(* use the "sort is expr" part of a post3 when its guard is provable *)
Ltac use_se :=
  match goal with
  | H : ?G -> ?s = SE |- _ =>
      try (let E := fresh "E" in
           assert (E : s = SE) by (apply H; first [reflexivity | split; [reflexivity|lia]]);
           clear H; subst s; cbn [sortb] in *)
  | _ => idtac
  end.

Ltac spec_tok :=
  repeat match goal with
         | H : arith_of_tok _ = Some (_, _) |- _ =>
             apply arith_of_tok_spec in H; destruct H as (? & ? & ?)
         | H : cmp_of_tok _ = Some _ |- _ =>
             apply cmp_of_tok_spec in H; destruct H as (? & ?)
         end.

Ltac kstep IHu IHe IHa IHi :=
  first
    [ match goal with
      | |- rP _ (rbind (p_unary _ _ _ _) _) =>
          norm; eapply rP_bind; [apply IHu; fa|];
          intros [[?s ?c] ?r] (?Hw & ?Hp & ?Hr & ?Hs); norm; use_se
      | |- rP _ (rbind (p_eop _ _ _ _ _) _) =>
          norm; spec_tok; eapply rP_bind; [apply IHe; fa|];
          intros [[?s ?c] ?r] (?Hw & ?Hp & ?Hr & ?Hs); norm; use_se
      | |- rP _ (rbind (p_accs _ _ _) _) =>
          norm; eapply rP_bind; [apply IHa; fa|];
          intros [?more ?r] (?Hm & ?Hn & ?Hr & ?Hnn); norm
      | |- rP _ (rbind (p_index _ _ _) _) =>
          norm; eapply rP_bind; [apply IHi; fa|];
          intros [?subs ?r] (?Hm & ?Hn & ?Hr); norm
      | |- rP _ (rbind (p_dot _ _) _) =>
          norm; eapply rP_bind; [apply p_dot_rP; fa|];
          intros [?st ?r] (?Ha & ?Hb & ?Hr); norm
      | |- rP _ (rbind (new_regex _ _ _ _) _) =>
          norm; apply new_regex_rP; intros ?m ?Hm1 ?Hm2 ?Hm3
      | |- rP _ (ROk _) => fail 2
      | |- rP _ (p_loop _ _ _ _ _ _) => fail 2
      end
    | wstep ].

Ltac is_pred_rw :=
  repeat match goal with
         | H : is_pred_chain ?c = _ |- context [is_pred_chain ?c] => rewrite H
         end.

Ltac txtg :=
  match goal with
  | H : tok_ok (mktok _ ?t) |- wf_text ?t = true => tokok H; exact H
  end.

Ltac sk :=
  repeat match goal with
         | H : forall l r, step_ok L (SBin _ l r) = _ |- _ => rewrite H
         end;
  cbn [step_ok]; unfold is_expr_chain; is_pred_rw; cbn [negb andb]; reflexivity.

Ltac wfg :=
  first
    [ assumption
    | apply wf_str; txtg
    | apply wf_var; txtg
    | apply wf_un; [reflexivity | sk | wfg]
    | apply wf_bin; [sk | wfg | wfg]
    | apply wf_regex; [apply step_ok_regex; first [assumption | txtg] | wfg]
    | apply wf_chain_app; assumption ].

Ltac predg :=
  cbn [sortb is_pred_chain];
  first [ assumption | reflexivity
        | match goal with H : forall l r, is_pred_step (SBin _ l r) = _ |- _ => apply H end ].

Ltac gg :=
  let G := fresh "G" in
  intros G;
  first [ reflexivity | discriminate G
        | destruct G as [? ?]; first [assumption | discriminate | exfalso; lebs; lia] ].

Ltac leaf3 :=
  cbn [rP]; unfold post3; cbn [fst snd];
  split; [wfg|split; [predg|split; [fa|gg]]].

Ltac loopg IHl :=
  eapply rP_post3_weaken;
  [ apply IHl; [fa | wfg | predg]
  | let G := fresh "G" in
    intros G; destruct G as [? ?];
    first [ split; [reflexivity|assumption] | discriminate | exfalso; lebs; lia ] ].

Ltac accleaf :=
  cbn [rP fst snd];
  split; [ cbn [forallb is_accessor_step];
           repeat match goal with H : _ = true |- _ => rewrite H end; reflexivity
         | split; [|fa] ];
  cbn [ch_all];
  first [ reflexivity
        | apply andb_true_intro; split;
          [ first [ assumption | reflexivity | apply sok_index; assumption
                  | apply sok_un; [sk|assumption] ]
          | assumption ] ].

Lemma core_wf_all : forall f, core_wf f.
Proof.
  induction f as [|f [IHu [IHe [IHl [IHa IHi]]]]].
  { unfold core_wf. repeat split; intros; cbn; exact I. }
  unfold core_wf. repeat split.
  - (* p_unary *)
    intros po ts F. rewrite p_unary_S.
    destruct (p_primary L ts) as [res|] eqn:Ep.
    + pose proof (p_primary_rP ts res F Ep) as Hp.
      eapply rP_bind; [exact Hp|]. intros [st r] (A & B & C & D). norm.
      repeat kstep IHu IHe IHa IHi.
      cbn [rP]; unfold post3; cbn [fst snd].
      split; [apply wf_chain_prim; assumption|].
      split; [apply is_pred_chain_prim; assumption|]. split; [assumption|reflexivity].
    + clear Ep. repeat kstep IHu IHe IHa IHi.
      all: norm.
      all: try solve [leaf3].
      * destruct (new_unary_wf UPlus c (or_introl eq_refl) Hw Hp) as [X Y].
        cbn [rP]; unfold post3; cbn [fst snd]. repeat split; auto.
      * destruct (new_unary_wf UMinus c (or_intror eq_refl) Hw Hp) as [X Y].
        cbn [rP]; unfold post3; cbn [fst snd]. repeat split; auto.
      * cbn [rP]; unfold post3; cbn [fst snd].
        split; [wfg|split; [|split; [fa|reflexivity]]].
        apply is_pred_chain_app; [eapply wf_chain_nonnil; eassumption|auto].
  - (* p_eop *)
    intros minp po ts F. rewrite p_eop_S. repeat kstep IHu IHe IHa IHi.
    eapply rP_post3_weaken; [apply IHl; [fa|assumption|assumption]|].
    intros [G1 G2]. split; [|exact G2].
    match goal with H : _ -> ?s = SE |- ?s = SE => apply H; exact G1 end.
  - (* p_loop *)
    intros minp s lhs ts F W Q. rewrite p_loop_S. repeat kstep IHu IHe IHa IHi.
    all: norm; spec_tok.
    all: try solve [leaf3].
    all: solve [loopg IHl].
  - (* p_accs *)
    intros ts F.
    assert (W: rP (fun a : chain * list token =>
                     forallb is_accessor_step (fst a) = true /\ cok (fst a) = true /\
                     Forall tok_ok (snd a)) (p_accs L (S f) ts)).
    { rewrite p_accs_S. repeat kstep IHu IHe IHa IHi.
      all: norm.
      all: solve [accleaf]. }
    destruct (p_accs L (S f) ts) as [[accs r]|] eqn:E; [|exact I].
    cbn [rP fst snd] in *. destruct W as (A & B & C). unfold accs_post; cbn [fst snd].
    repeat split; auto. intros SA. eapply p_accs_nonnil; eauto.
  - (* p_index *)
    intros ts F. rewrite p_index_S. repeat kstep IHu IHe IHa IHi.
    all: norm.
    all: cbn [rP]; unfold index_post; cbn [fst snd]; (split; [discriminate|split; [|fa]]).
    all: cbn [forallb]; unfold sub_ok at 1; cbn [fst snd]; unfold is_expr_chain.
    all: repeat match goal with
                | H : _ = true |- _ => rewrite H
                | H : _ = false |- _ => rewrite H
                end; reflexivity.
Qed.

(* ---- what is proved of parse_ok_wf ----

   FULL STATEMENT:
     Theorem parse_ok_wf : forall s p, parse L s = POk p -> wf_path L p.

   Proved here (under [Laws L]): the token-level theorem
     parse_tokens_wf : Forall tok_ok ts -> parse_tokens L ts = POk p -> wf_path L p
   and its corollary
     parse_ok_wf_from_lexer : Forall tok_ok (lex L s) -> parse L s = POk p -> wf_path L p.
   The remaining premise, the lexer invariant [Forall tok_ok (lex L s)]
   (string/identifier/variable/keyword texts are UTF-8 of valid non-NUL runes;
   INT/NUMERIC texts carry no sign), is proved separately.

   Pieces:
   * parse_ok_validate: the second conjunct of wf_path — "@" occurs only under
     a filter and "last" only inside a subscript (validate_chain = None);
   * accessor steps (p_dot_rP, p_any_rP, p_decimal_args_rP, p_csv_*_rP): every
     accessor step built from lexer-shaped tokens is an accessor step
     satisfying step_ok (acc_post): .decimal() has 0, 1 or 2 int64 arguments
     and never a scale without a precision, .time()/.timestamp()...
     precisions are non-negative int64, .datetime() carries only a template,
     .date() nothing, ".**{...}" bounds are within 0..4294967295, key texts
     are lexer texts;
   * primaries (p_primary_rP): literals are in range / finite, texts are lexer
     texts; new_regex_rP: the flag mask is within 0..31 (regex_flags_loop_bound),
     never "x" without "q", and the pattern compiles; new_unary_wf: folding a
     sign into a numeric literal keeps it in range / finite, otherwise the
     operand of unary + - is an expr chain that is not a bare number;
   * core_wf_all: induction on the fuel over p_unary/p_eop/p_loop/p_accs/
     p_index, threading wf_chain and the sort tag (is_pred_chain c <-> sort =
     SP), plus "no predicate where po = false" (for p_eop: when minp >= 4)
     and "a non-empty accessor list after a token that starts an accessor"
     (p_accs_nonnil). *)

Theorem parse_ok_validate s p :
  parse L s = POk p -> validate_chain (p_root p) 0 false = None.
Proof.
  unfold parse, parse_tokens.
  set (q := match lex L s with
            | mktok (TKw KStrict) _ :: r => (false, r)
            | mktok (TKw KLax) _ :: r => (true, r)
            | _ => (true, lex L s)
            end).
  destruct q as [lax ts1].
  destruct (p_eop L (parser_fuel ts1) 0 true ts1) as [[[so c] r]|e]; [|discriminate].
  destruct r as [|[k txt] r'].
  - destruct (validate_chain c 0 false) eqn:V; [discriminate|].
    intros H. inversion H; subst. exact V.
  - destruct k; try (destruct (validate_chain c 0 false); discriminate).
Qed.

(* C04: what the parser returns on lexer-shaped tokens is in the parser image *)
Theorem parse_tokens_wf ts p :
  Forall tok_ok ts -> parse_tokens L ts = POk p -> wf_path L p.
Proof.
  intros F. unfold parse_tokens.
  set (q := match ts with
            | mktok (TKw KStrict) _ :: r => (false, r)
            | mktok (TKw KLax) _ :: r => (true, r)
            | _ => (true, ts)
            end).
  assert (Hq: Forall tok_ok (snd q)).
  { subst q. destruct ts as [|[k txt] r]; [exact F|]. destruct k; try exact F.
    destruct k; try exact F; inv_forall; assumption. }
  destruct q as [lax ts1]. cbn [snd] in Hq.
  destruct (core_wf_all (parser_fuel ts1)) as [_ [He _]].
  specialize (He 0%nat true ts1 Hq).
  destruct (p_eop L (parser_fuel ts1) 0 true ts1) as [[[so c] r]|e]; [|discriminate].
  cbn [rP] in He. destruct He as (A & B & C & D). cbn [fst snd] in A, B, C, D.
  destruct r as [|[k txt] r'].
  - destruct (validate_chain c 0 false) eqn:V; [discriminate|].
    intros H. inversion H; subst. unfold wf_path. cbn [p_root p_pred].
    split; [exact A|split; [exact V|]]. rewrite B. destruct so; reflexivity.
  - destruct k; try (destruct (validate_chain c 0 false); discriminate).
Qed.

Corollary parse_ok_wf_from_lexer s p :
  Forall tok_ok (lex L s) -> parse L s = POk p -> wf_path L p.
Proof. unfold parse. apply parse_tokens_wf. Qed.
End L.

Print Assumptions parse_ok_validate.
Print Assumptions p_dot_rP.
Print Assumptions parse_tokens_wf.
Print Assumptions parse_ok_wf_from_lexer.
