(* Invariants2.v — invariants of the values a call returns:
   - coherence: an error object always comes with a failure (items) / with
     Unknown (predicates);
   - quiet: a suppressible (ErrVerbose) error object leaves a call only when
     [verbose] was set on entry; a predicate never returns one;
   - found discipline: the collecting list only grows by appending and its
     option-ness (collecting / existence-only mode) never changes.
   Stdlib only, no axioms. *)
From SJ Require Import lib.Base model.Json model.Ast model.ExecLib model.Leaf model.Exec
     proofs.RunBasics proofs.InvTac.

Definition fext (f f' : found_t) : Prop :=
  match f, f' with
  | Some l, Some l' => exists more, l' = l ++ more
  | None, None => True
  | _, _ => False
  end.

Lemma fext_refl f : fext f f.
Proof. destruct f; cbn; auto. exists []. rewrite app_nil_r; reflexivity. Qed.
Lemma fext_trans a b c : fext a b -> fext b c -> fext a c.
Proof.
  destruct a, b, c; cbn; try tauto. intros [m1 ->] [m2 ->]. exists (m1 ++ m2). rewrite app_assoc; reflexivity.
Qed.
Lemma fext_fappend f v : fext f (fappend f v).
Proof. destruct f; cbn; auto. eexists; reflexivity. Qed.
Lemma fold_unwrapInto seq : forall acc, exists more, fold_left unwrapInto seq acc = acc ++ more.
Proof.
  induction seq as [|x seq IH]; intros acc; cbn [fold_left].
  - exists []. rewrite app_nil_r; reflexivity.
  - destruct (IH (unwrapInto acc x)) as [m Hm]. rewrite Hm.
    unfold unwrapInto. destruct x; rewrite <- app_assoc; eexists; reflexivity.
Qed.
Lemma fext_unwrap f seq : fext f (option_map (fun acc => fold_left unwrapInto seq acc) f).
Proof. destruct f; cbn; auto. apply fold_unwrapInto. Qed.
Lemma fext_fnil a b : fext a b -> fnil b = fnil a.
Proof. destruct a, b; cbn; tauto. Qed.

Ltac fext_tac :=
  first [ assumption | apply fext_refl | apply fext_fappend | apply fext_unwrap
        | match goal with H : fext ?b ?c |- fext _ ?c => apply (fext_trans _ b c); [fext_tac | exact H] end
        | match goal with |- fext _ (fappend ?b _) => apply (fext_trans _ b); [fext_tac | apply fext_fappend] end
        | match goal with |- fext _ (option_map _ ?b) => apply (fext_trans _ b); [fext_tac | apply fext_unwrap] end ].

(* what an item call guarantees / what a predicate call guarantees *)
Definition ipost (found : found_t) (s : st) (x : resp) (s' : st) : Prop :=
  verbose s' = verbose s /\
  (forall e, r_err x = Some e -> r_st x = SFailed /\ (is_verbose e = true -> verbose s = true)) /\
  fext found (r_found x).

Definition bpost (s : st) (p : presp) (s' : st) : Prop :=
  verbose s' = verbose s /\
  (forall e, p_err p = Some e -> p_out p = PUnknown /\ is_verbose e = false).

(* stronger: no suppressible error at all (operands evaluated with verbose off) *)
Definition spost (found : found_t) (s : st) (x : resp) (s' : st) : Prop :=
  verbose s' = verbose s /\
  (forall e, r_err x = Some e -> r_st x = SFailed /\ is_verbose e = false) /\
  fext found (r_found x).

Definition pgood (p : presp) : Prop :=
  forall e, p_err p = Some e -> p_out p = PUnknown /\ is_verbose e = false.

Definition vpost (r : req) (s : st) (a : ans) (s' : st) : Prop :=
  match r, a with
  | RItem _ _ found _, AItem x | RAny _ _ found _ _ _ _ _, AItem x => ipost found s x s'
  | RBool _ _ _, ABool p => bpost s p s'
  | _, _ => True
  end.

Definition vals (self : req -> st -> outcome (ans * st)) : Prop :=
  forall r s a s', self r s = Ret (a, s') -> vpost r s a s'.

(* a result that is not failed carries no error *)
Lemma ipost_nofail f s x s' : ipost f s x s' -> st_failed (r_st x) = false -> r_err x = None.
Proof.
  intros (_ & Hc & _) Hf. destruct (r_err x) as [e|] eqn:He; [|reflexivity].
  destruct (Hc e eq_refl) as [Hs _]. rewrite Hs in Hf. discriminate Hf.
Qed.
Lemma ipost_noexit f s x s' g : ipost f s x s' -> exit_now x g = false -> r_err x = None.
Proof.
  intros Hp Hx. unfold exit_now in Hx. apply orb_false_iff in Hx. eapply ipost_nofail; [exact Hp|tauto].
Qed.

(* the error clause of a postcondition: the error object under consideration is He *)
Ltac err_spec :=
  repeat match goal with
         | Hq : forall e, ?X = Some e -> @?P e, He' : ?X = Some _ |- _ => specialize (Hq _ He')
         end.

Ltac err_finish :=
  repeat match goal with H : _ /\ _ |- _ => destruct H end;
  bool_norm;
  first
  [ solve [exfalso; congruence]
  | split;
    [ first [ reflexivity | assumption | congruence ]
    | try (let Hv := fresh "Hv" in intros Hv; cbn [is_verbose] in Hv; try discriminate Hv;
           repeat match goal with Hi : ?a = true -> _, Ha : ?a = true |- _ => specialize (Hi Ha) end;
           try rewrite Hv in * );
      try (match goal with |- is_verbose ?e = false => destruct (is_verbose e) eqn:?; [exfalso|reflexivity] end;
           repeat match goal with Hi : ?a = true -> _, Ha : ?a = true |- _ => specialize (Hi Ha) end);
      repeat match goal with Hi : ?a = ?a -> _ |- _ => specialize (Hi eq_refl) end;
      bool_norm;
      first [ reflexivity | assumption | discriminate | congruence ] ] ].

Ltac err_clause :=
  let e0 := fresh "e0" in let He := fresh "He" in
  intros e0 He;
  cbn [r_st r_err r_found p_out p_err] in He;
  first [ discriminate He
        | injection He as He; subst e0; err_finish
        | err_spec; try rewrite He in *; err_finish ].

Ltac vtac :=
  unfold ipost, spost, bpost, pgood in *;
  cbn [cur last_size ign verbose base_addr base_id last_id polls next_tag
       set_cur set_last_size set_ign set_verbose set_base set_last_id set_next_tag tick
       r_st r_err r_found p_out p_err] in *;
  repeat match goal with H : _ /\ _ |- _ => destruct H end;
  repeat match goal with
         | |- _ /\ _ => split
         | |- verbose _ = verbose _ => congruence
         | |- fext _ _ => fext_tac
         | |- forall e : err, @?P e => solve [err_clause]
         end.

Section ValBody.
Variable L : ExecLib.
Variable E : env.
Variable self : req -> st -> outcome (ans * st).
Hypothesis Hself : vals self.

Lemma v_callItem n v found u s x s' : callItem self n v found u s = Ret (x, s') -> ipost found s x s'.
Proof using Hself. intros H. apply callItem_Ret in H. apply Hself in H. exact H. Qed.
Lemma v_callAny n vs found lv f l ig un s x s' :
  callAny self n vs found lv f l ig un s = Ret (x, s') -> ipost found s x s'.
Proof using Hself. intros H. apply callAny_Ret in H. apply Hself in H. exact H. Qed.
Lemma v_callBool n v c s x s' : callBool self n v c s = Ret (x, s') -> bpost s x s'.
Proof using Hself. intros H. apply callBool_Ret in H. apply Hself in H. exact H. Qed.

Ltac k0 H := first [ apply v_callItem in H | apply v_callAny in H | apply v_callBool in H ].

Lemma v_returnVerboseError e found s x s' : returnVerboseError e found s = Ret (x, s') -> ipost found s x s'.
Proof. unfold returnVerboseError; intros H; steps H; vtac. Qed.
Lemma v_returnError e found s x s' : returnError e found s = Ret (x, s') -> ipost found s x s'.
Proof. unfold returnError; intros H; steps H; vtac. Qed.

Lemma v_executeItem n v found s x s' : executeItem E self n v found s = Ret (x, s') -> ipost found s x s'.
Proof using Hself. unfold executeItem; apply v_callItem. Qed.

Ltac k1 H := first [ k0 H | apply v_returnVerboseError in H | apply v_returnError in H | apply v_executeItem in H ].
Ltac calls1 := repeat match goal with H : _ = Ret _ |- _ => k1 H end.

Lemma v_executeNextItem next v found s x s' : executeNextItem E self next v found s = Ret (x, s') -> ipost found s x s'.
Proof using Hself. unfold executeNextItem; intros H; steps H; calls1; vtac. Qed.

Lemma v_executeItemOptUnwrapResult n v u found s x s' :
  executeItemOptUnwrapResult E self n v u found s = Ret (x, s') -> ipost found s x s'.
Proof using Hself. unfold executeItemOptUnwrapResult; intros H; steps H; calls1; vtac. Qed.


Lemma v_executeItemOptUnwrapResultSilent n v u found s x s' :
  executeItemOptUnwrapResultSilent E self n v u found s = Ret (x, s') -> spost found s x s'.
Proof using Hself.
  unfold executeItemOptUnwrapResultSilent; intros H; steps H.
  apply v_executeItemOptUnwrapResult in H0. vtac.
Qed.

Ltac k2 H := first [ k1 H | apply v_executeNextItem in H | apply v_executeItemOptUnwrapResult in H
                   | apply v_executeItemOptUnwrapResultSilent in H ].
Ltac calls2 := repeat match goal with H : _ = Ret _ |- _ => k2 H end.

Section Pairs.
Variable cb : json -> json -> outcome (pout * option err).
Hypothesis Hcb : forall a b res e, cb a b = Ret (res, Some e) -> is_verbose e = false.

Lemma v_pairs_inner l : forall rs h f p h' f',
  pairs_inner E cb l rs h f = Ret (Some p, h', f') -> pgood p.
Proof using Hcb.
  induction rs as [|r rs IH]; intros h f p h' f' H; cbn [pairs_inner] in H; steps H.
  all: try (eapply IH; eassumption).
  all: try match goal with H : cb _ _ = Ret (_, Some _) |- _ => apply Hcb in H end.
  all: vtac.
Qed.

Lemma v_pairs_outer rs : forall ls h f p, pairs_outer E cb ls rs h f = Ret p -> pgood p.
Proof using Hcb.
  induction ls as [|l ls IH]; intros h f p H; cbn [pairs_outer] in H; steps H.
  - destruct f; [|destruct h]; vtac.
  - eapply v_pairs_inner; eassumption.
  - eapply IH; eassumption.
Qed.

Lemma v_executePredicate l r v u s x s' :
  executePredicate E self l r v u cb s = Ret (x, s') -> bpost s x s'.
Proof using Hself Hcb.
  unfold executePredicate; intros H; steps H.
  all: try match goal with H : pairs_outer _ _ _ _ _ _ = Ret _ |- _ => apply v_pairs_outer in H end.
  all: calls2; vtac.
Qed.
End Pairs.

Lemma applyCompare_err op c res e : applyCompare op c = (res, Some e) -> is_verbose e = false.
Proof. unfold applyCompare; destruct op; intros H; inversion H; reflexivity. Qed.

Lemma compareItems_err tz op l r res e : compareItems L tz op l r = Ret (res, Some e) -> is_verbose e = false.
Proof.
  unfold compareItems; intros H; steps H.
  all: try (eapply applyCompare_err; eassumption).
  all: reflexivity.
Qed.

Lemma executeStartsWith_err a b res e : Ret (executeStartsWith a b) = Ret (res, Some e) -> is_verbose e = false.
Proof. unfold executeStartsWith; intros H; destruct a, b; discriminate H. Qed.

Lemma executeLikeRegex_err pat flags x res e : Ret (executeLikeRegex L pat flags x) = Ret (res, Some e) -> is_verbose e = false.
Proof. unfold executeLikeRegex; intros H; destruct x; discriminate H. Qed.

Lemma v_executeBinaryBoolItem op l r v s x s' :
  executeBinaryBoolItem L E self op l r v s = Ret (x, s') -> bpost s x s'.
Proof using Hself.
  unfold executeBinaryBoolItem; intros H; steps H.
  all: try match goal with H : executePredicate _ _ _ _ _ _ _ _ = Ret _ |- _ =>
         apply v_executePredicate in H;
         [| intros ? ? ? ?; first [apply compareItems_err | apply executeStartsWith_err] ] end.
  all: calls2; vtac.
Qed.


Lemma v_executeUnaryBoolItem op a v s x s' :
  executeUnaryBoolItem E self op a v s = Ret (x, s') -> bpost s x s'.
Proof using Hself. unfold executeUnaryBoolItem; intros H; steps H; calls2; vtac. Qed.

Ltac k4 H := first [ k2 H | apply v_executeBinaryBoolItem in H | apply v_executeUnaryBoolItem in H ].
Ltac calls4 := repeat match goal with H : _ = Ret _ |- _ => k4 H end.

Lemma v_executeBoolItem n v c s x s' :
  executeBoolItem L E self n v c s = Ret (x, s') -> bpost s x s'.
Proof using Hself.
  unfold executeBoolItem; intros H; steps H.
  all: try match goal with H : executePredicate _ _ _ _ _ _ _ _ = Ret _ |- _ =>
         apply v_executePredicate in H; [| intros ? ? ? ?; apply executeLikeRegex_err ] end.
  all: calls4; vtac.
Qed.

Lemma v_appendBoolResult next found p s x s' :
  pgood p -> appendBoolResult E self next found p s = Ret (x, s') -> ipost found s x s'.
Proof using Hself. unfold appendBoolResult; intros Hp H; steps H; calls4; vtac. Qed.

Lemma v_executeNestedBoolItem n v s x s' :
  executeNestedBoolItem self n v s = Ret (x, s') -> bpost s x s'.
Proof using Hself. unfold executeNestedBoolItem; intros H; steps H; calls4; vtac. Qed.

Ltac k5 H := first [ k4 H | apply v_executeBoolItem in H | apply v_executeNestedBoolItem in H ].
Ltac calls5 := repeat match goal with H : _ = Ret _ |- _ => k5 H end.

Lemma v_anyLoop n level first last ignFlag un : forall vs res dirty s r dirty' s',
  r_err res = None ->
  anyLoop L self n vs level first last ignFlag un res dirty s = Ret (r, dirty', s') ->
  ipost (r_found res) s r s'.
Proof using Hself.
  induction vs as [|v rest IH]; intros res dirty s r dirty' s' Hn H; cbn [anyLoop] in H; steps H.
  all: calls5.
  all: try match goal with H : anyLoop _ _ _ _ _ _ _ _ _ _ _ _ = Ret _ |- _ =>
         apply IH in H; [| cbn [r_err]; first [assumption | eapply ipost_noexit; eassumption] ] end.
  all: split_ifs; vtac.
Qed.


Lemma v_executeAnyItem n vs found level first last ignFlag un s x s' :
  executeAnyItem L self n vs found level first last ignFlag un s = Ret (x, s') -> ipost found s x s'.
Proof using Hself.
  unfold executeAnyItem; intros H; steps H.
  all: try match goal with H : anyLoop _ _ _ _ _ _ _ _ _ _ _ _ = Ret _ |- _ =>
         apply v_anyLoop in H; [cbn [r_found] in H | reflexivity] end.
  all: split_ifs; vtac.
Qed.

Lemma v_executeItemUnwrapTargetArray n v found s x s' :
  executeItemUnwrapTargetArray self n v found s = Ret (x, s') -> ipost found s x s'.
Proof using Hself. unfold executeItemUnwrapTargetArray; intros H; steps H; calls5; vtac. Qed.

Ltac k6 H := first [ k5 H | apply v_executeAnyItem in H | apply v_executeItemUnwrapTargetArray in H ].
Ltac calls6 := repeat match goal with H : _ = Ret _ |- _ => k6 H end.

Lemma v_execLiteral next v found s x s' : execLiteral E self next v found s = Ret (x, s') -> ipost found s x s'.
Proof using Hself. unfold execLiteral; intros H; steps H; calls6; vtac. Qed.

Lemma v_execVariable name next found s x s' : execVariable E self name next found s = Ret (x, s') -> ipost found s x s'.
Proof using Hself. unfold execVariable; intros H; steps H; calls6; vtac. Qed.

Lemma v_execKeyNode key n next v found u s x s' :
  execKeyNode E self key n next v found u s = Ret (x, s') -> ipost found s x s'.
Proof using Hself. unfold execKeyNode; intros H; steps H; calls6; vtac. Qed.

Lemma v_execAnyKey n next v found u s x s' :
  execAnyKey L E self n next v found u s = Ret (x, s') -> ipost found s x s'.
Proof using Hself. unfold execAnyKey; intros H; steps H; calls6; vtac. Qed.

Lemma v_execAnyArray next v found s x s' :
  execAnyArray E self next v found s = Ret (x, s') -> ipost found s x s'.
Proof using Hself. unfold execAnyArray; intros H; steps H; calls6; vtac. Qed.

Lemma v_execLastConst next found s x s' :
  execLastConst E self next found s = Ret (x, s') -> ipost found s x s'.
Proof using Hself. unfold execLastConst; intros H; steps H; calls6; vtac. Qed.

Ltac k7 H := first [ k6 H | apply v_execLiteral in H | apply v_execVariable in H | apply v_execKeyNode in H
                   | apply v_execAnyKey in H | apply v_execAnyArray in H | apply v_execLastConst in H ].
Ltac calls7 := repeat match goal with H : _ = Ret _ |- _ => k7 H end.

Lemma v_execConstNode k n next v found u s x s' :
  execConstNode L E self k n next v found u s = Ret (x, s') -> ipost found s x s'.
Proof using Hself. unfold execConstNode; intros H; steps H; calls7; vtac. Qed.

Lemma v_execAnyNode first last next v found s x s' :
  execAnyNode L E self first last next v found s = Ret (x, s') -> ipost found s x s'.
Proof using Hself. unfold execAnyNode; intros H; steps H; calls7; split_ifs; vtac. Qed.

Lemma v_getArrayIndex n v s x s' : getArrayIndex L E self n v s = Ret (x, s') -> verbose s' = verbose s.
Proof using Hself. unfold getArrayIndex; intros H; steps H; calls7; vtac. Qed.

Ltac k8 H := first [ k7 H | apply v_execConstNode in H | apply v_execAnyNode in H | apply v_getArrayIndex in H ].
Ltac calls8 := repeat match goal with H : _ = Ret _ |- _ => k8 H end.

Lemma v_execSubscript sub v size s x s' : execSubscript L E self sub v size s = Ret (x, s') -> verbose s' = verbose s.
Proof using Hself. unfold execSubscript; intros H; steps H; calls8; vtac. Qed.

Lemma v_indexLoop next : forall els res s r stop s',
  r_err res = None ->
  indexLoop E self next els res s = Ret (r, stop, s') ->
  ipost (r_found res) s r s' /\ (stop = false -> r_err r = None).
Proof using Hself.
  induction els as [|v rest IH]; intros res s r stop s' Hn H; cbn [indexLoop] in H; steps H.
  all: calls8.
  all: try match goal with H : indexLoop _ _ _ _ _ _ = Ret _ |- _ =>
         apply IH in H; [destruct H as [H Hst] | first [assumption | eapply ipost_noexit; eassumption] ] end.
  all: split; [vtac | first [assumption | discriminate | auto] ].
Qed.

Ltac k9 H := first [ k8 H | apply v_execSubscript in H ].
Ltac calls9 := repeat match goal with H : _ = Ret _ |- _ => k9 H end.

Lemma v_subsLoop next v arr size : forall subs res s r s',
  r_err res = None ->
  subsLoop L E self subs next v arr size res s = Ret (r, s') -> ipost (r_found res) s r s'.
Proof using Hself.
  induction subs as [|sub rest IH]; intros res s r s' Hn H; cbn [subsLoop] in H; steps H.
  all: calls9.
  all: try match goal with H : indexLoop _ _ _ _ _ _ = Ret _ |- _ =>
         apply v_indexLoop in H; [destruct H as [H Hst] | assumption ] end.
  all: try match goal with H : subsLoop _ _ _ _ _ _ _ _ _ _ = Ret _ |- _ =>
         apply IH in H; [| auto ] end.
  all: vtac.
Qed.

Lemma v_execArrayIndex subs next v found s x s' :
  execArrayIndex L E self subs next v found s = Ret (x, s') -> ipost found s x s'.
Proof using Hself.
  unfold execArrayIndex; intros H; steps H.
  all: try match goal with H : subsLoop _ _ _ _ _ _ _ _ _ _ = Ret _ |- _ =>
         apply v_subsLoop in H; [cbn [r_found] in H | reflexivity] end.
  all: calls9; vtac.
Qed.

Lemma v_unaryLoop minus next : forall seq found res s r s',
  unaryLoop L E self minus next seq found res s = Ret (r, s') -> ipost found s r s'.
Proof using Hself.
  induction seq as [|v rest IH]; intros found res s r s' H; cbn [unaryLoop] in H; steps H.
  all: try match goal with H : unaryLoop _ _ _ _ _ _ _ _ _ = Ret _ |- _ => apply IH in H end.
  all: calls9; vtac.
Qed.

Ltac k10 H := first [ k9 H | apply v_execArrayIndex in H | apply v_unaryLoop in H ].
Ltac calls10 := repeat match goal with H : _ = Ret _ |- _ => k10 H end.

Lemma v_execUnaryMathExpr minus a next v found s x s' :
  execUnaryMathExpr L E self minus a next v found s = Ret (x, s') -> ipost found s x s'.
Proof using Hself. unfold execUnaryMathExpr; intros H; steps H; calls10; vtac. Qed.

Lemma v_execBinaryMathExpr op l r next v found s x s' :
  execBinaryMathExpr L E self op l r next v found s = Ret (x, s') -> ipost found s x s'.
Proof using Hself. unfold execBinaryMathExpr; intros H; steps H; calls10; vtac. Qed.

Lemma v_execLeaf unwraps lf n next v found u s x s' :
  execLeaf E self unwraps lf n next v found u s = Ret (x, s') -> ipost found s x s'.
Proof using Hself. unfold execLeaf; intros H; steps H; calls10; vtac. Qed.

Lemma v_kvLoop members id next : forall keys res s r s',
  kvLoop E self keys members id next res s = Ret (r, s') -> ipost (r_found res) s r s'.
Proof using Hself.
  induction keys as [|k rest IH]; intros res s r s' H; cbn [kvLoop] in H; steps H.
  all: try match goal with H : kvLoop _ _ _ _ _ _ _ _ = Ret _ |- _ => apply IH in H end.
  all: calls10; vtac.
Qed.

Lemma v_executeKeyValueMethod n next v found u s x s' :
  executeKeyValueMethod E self n next v found u s = Ret (x, s') -> ipost found s x s'.
Proof using Hself.
  unfold executeKeyValueMethod; intros H; steps H.
  all: try match goal with H : kvLoop _ _ _ _ _ _ _ _ = Ret _ |- _ => apply v_kvLoop in H; cbn [r_found] in H end.
  all: calls10; vtac.
Qed.

Ltac k11 H := first [ k10 H | apply v_execUnaryMathExpr in H | apply v_execBinaryMathExpr in H
                    | apply v_execLeaf in H | apply v_executeKeyValueMethod in H ].
Ltac calls11 := repeat match goal with H : _ = Ret _ |- _ => k11 H end.

Lemma v_execMethodNode m n next v found u s x s' :
  execMethodNode L E self m n next v found u s = Ret (x, s') -> ipost found s x s'.
Proof using Hself. unfold execMethodNode; intros H; steps H; calls11; vtac. Qed.

Lemma v_execBoolNode n next v found s x s' :
  execBoolNode E self n next v found s = Ret (x, s') -> ipost found s x s'.
Proof using Hself.
  unfold execBoolNode; intros H; steps H. calls11.
  apply v_appendBoolResult in H; [|exact (proj2 H0)]. vtac.
Qed.

Ltac k12 H := first [ k11 H | apply v_execMethodNode in H | apply v_execBoolNode in H ].
Ltac calls12 := repeat match goal with H : _ = Ret _ |- _ => k12 H end.

Lemma v_execBinaryNode op l r n next v found s x s' :
  execBinaryNode L E self op l r n next v found s = Ret (x, s') -> ipost found s x s'.
Proof using Hself. unfold execBinaryNode; intros H; steps H; calls12; vtac. Qed.

Lemma v_execUnaryNode op a n next v found u s x s' :
  execUnaryNode L E self op a n next v found u s = Ret (x, s') -> ipost found s x s'.
Proof using Hself. unfold execUnaryNode; intros H; steps H; calls12; vtac. Qed.

Ltac k13 H := first [ k12 H | apply v_execBinaryNode in H | apply v_execUnaryNode in H ].
Ltac calls13 := repeat match goal with H : _ = Ret _ |- _ => k13 H end.

Lemma v_executeItemOptUnwrapTarget n v found u s x s' :
  executeItemOptUnwrapTarget L E self n v found u s = Ret (x, s') -> ipost found s x s'.
Proof using Hself. unfold executeItemOptUnwrapTarget; intros H; steps H; calls13; vtac. Qed.

Lemma v_body : vals (body L E self).
Proof using Hself.
  intros r s a s' H. destruct r; cbn [body] in H; steps H; cbn [vpost].
  - apply v_executeItemOptUnwrapTarget in H0; exact H0.
  - apply v_executeAnyItem in H0; exact H0.
  - apply v_executeBoolItem in H0; exact H0.
Qed.

End ValBody.

Theorem vals_run : forall L E fuel, vals (run L E fuel).
Proof.
  intros L E fuel r s a s'. revert fuel r s a s'. apply (run_inv L E vpost).
  intros self Hself. apply (v_body L E self). exact Hself.
Qed.
Print Assumptions vals_run.
