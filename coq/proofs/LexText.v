(* LexText.v — what the lexer guarantees of the text of the tokens it returns
   (the hypothesis of the parser's well-formedness theorem, ParseWf.v):
   the text of an identifier / keyword / string / variable token is valid
   UTF-8 of non-NUL runes, and the text of a number token does not start with
   a minus sign.  For every GoLib, every byte string; no Laws needed. *)
From SJ Require Import lib.Base lib.Utf8 lib.GoLib model.Json model.Ast model.Lexer model.Parser
  proofs.LexProofs.
Local Open Scope list_scope.
Notation length := List.length (only parsing).

(* identical to ParseWf.tok_ok (restated: ParseWf is downstream of this file) *)
Definition tok_ok (t : token) : Prop :=
  match tk t with
  | TIdent | TString | TVariable | TKw _ => wf_text (ttext t) = true
  | TInt | TNumeric => no_minus (ttext t) = true
  | _ => True
  end.

(* ------------------------------------------------------------------ *)
(* runes *)

(* a rune that may be written to a token text *)
Definition goodr (r : Z) : bool := valid_rune r && negb (r =? 0).
(* what next() may find in the input: a decoded rune (0 = NUL), or -2 *)
Definition rune_in (r : Z) : Prop := valid_rune r = true \/ r = -2.
(* a look-ahead: stopTok or a rune that passed check *)
Definition ch_ok (ch : Z) : Prop := ch = -1 \/ goodr ch = true.

Lemma goodr_spec r : goodr r = true <-> (0 < r <= 1114111 /\ ~ (55296 <= r <= 57343)).
Proof. unfold goodr, valid_rune, is_surrogate, max_rune. lia. Qed.

Lemma rune_in_pos c : rune_in c -> 0 < c -> goodr c = true.
Proof. intros [H|H] P; [|lia]. unfold goodr. rewrite H. lia. Qed.

Lemma ch_ok_eof : ch_ok (-1).
Proof. left; reflexivity. Qed.

Lemma ch_ok_nonneg ch : ch_ok ch -> 0 <= ch -> goodr ch = true.
Proof. intros [H|H] P; [lia|exact H]. Qed.

Lemma ch_ok_good ch : goodr ch = true -> ch_ok ch.
Proof. intros H; right; exact H. Qed.

Lemma ch_ok_in c : rune_in c -> 0 < c -> ch_ok c.
Proof. intros H P. right. apply rune_in_pos; assumption. Qed.

Lemma buf_snoc buf x : forallb goodr buf = true -> goodr x = true -> forallb goodr (buf ++ [x]) = true.
Proof. intros Hb Hx. rewrite forallb_app, Hb. cbn [forallb]. rewrite Hx. reflexivity. Qed.

(* ------------------------------------------------------------------ *)
(* the input *)

Lemma is_bytes_tail b r : is_bytes (b :: r) -> is_bytes r.
Proof. intros H. inversion H; assumption. Qed.

Lemma decode_events_valid s : forall k, is_bytes s ->
  Forall (fun ev => valid_rune (fst ev) = true) (decode_events k s).
Proof.
  induction s as [|b r IH]; intros k B; [constructor|].
  pose proof (is_bytes_tail _ _ B) as Br.
  destruct k as [|k]; cbn [decode_events].
  - constructor; [apply decode_rune_valid; exact B|apply IH; exact Br].
  - apply IH; exact Br.
Qed.

Lemma lex_event_in ev : valid_rune (fst ev) = true -> rune_in (lex_event ev).
Proof.
  intros V. unfold lex_event.
  destruct ((fst ev =? rune_error) && Nat.eqb (snd ev) 1); [right; reflexivity|left; exact V].
Qed.

Lemma lex_runes_of_in s : Forall rune_in (lex_runes_of s).
Proof.
  unfold lex_runes_of, lex_runes_of_bytes.
  pose proof (decode_events_valid (bytes_of s) 0%nat (bytes_of_is_bytes s)) as H.
  induction H as [|ev l Hev _ IH]; cbn [map]; constructor; [apply lex_event_in; exact Hev|exact IH].
Qed.

(* ------------------------------------------------------------------ *)
(* texts *)

Lemma goodr_valid b : forallb goodr b = true -> forallb valid_rune b = true.
Proof.
  induction b as [|r b IH]; [reflexivity|]. cbn [forallb]. intros H.
  apply andb_prop in H as [Hr Hb]. unfold goodr in Hr. apply andb_prop in Hr as [Hr _].
  rewrite Hr, (IH Hb). reflexivity.
Qed.

Lemma encode_runes_bytes b : Forall (fun x => 0 <= x < 256) (encode_runes b).
Proof.
  induction b as [|r b IH]; cbn [encode_runes flat_map]; [constructor|].
  apply Forall_app. split; [apply encode_rune_bytes|exact IH].
Qed.

Lemma runes_of_string_of_runes b :
  forallb valid_rune b = true -> runes_of (string_of_runes b) = b.
Proof.
  intros H. unfold runes_of, string_of_runes.
  rewrite bytes_of_str_of by apply encode_runes_bytes.
  apply runes_of_bytes_encode_runes. exact H.
Qed.

Lemma wf_text_runes b : forallb goodr b = true -> wf_text (string_of_runes b) = true.
Proof.
  intros H. unfold wf_text. cbv zeta.
  rewrite runes_of_string_of_runes by (apply goodr_valid; exact H).
  change (forallb goodr b && String.eqb (string_of_runes b) (string_of_runes b) = true).
  rewrite H, String.eqb_refl. reflexivity.
Qed.

(* number texts: the first byte is not '-' *)
Definition hdnm (acc : list Z) : Prop :=
  match acc with [] => False | c :: _ => Ascii.eqb (ascii_of_Z c) "-"%char = false end.

Lemma hdnm_app acc t : hdnm acc -> hdnm (acc ++ t).
Proof. destruct acc; [intros []|exact (fun H => H)]. Qed.

Lemma hdnm_no_minus acc : hdnm acc -> no_minus (str_of_bytes acc) = true.
Proof.
  destruct acc as [|c t]; [intros []|]. cbn [hdnm]. intros H.
  unfold str_of_bytes. cbn [map str_of_list no_minus]. rewrite H. reflexivity.
Qed.

Lemma not_minus c : 0 <= c < 256 -> c <> 45 -> Ascii.eqb (ascii_of_Z c) "-"%char = false.
Proof.
  intros R N. destruct (Ascii.eqb (ascii_of_Z c) "-"%char) eqn:E; [|reflexivity].
  apply Ascii.eqb_eq in E. exfalso. apply N.
  rewrite <- (Z_of_ascii_of_Z c R). rewrite E. reflexivity.
Qed.

Lemma hdnm_46 : hdnm [46].
Proof. apply not_minus; lia. Qed.
Lemma hdnm_48 : hdnm [48].
Proof. apply not_minus; lia. Qed.
Lemma hdnm_dec ch t : is_decimal ch = true -> hdnm (ch :: t).
Proof. intros H. unfold is_decimal in H. apply not_minus; lia. Qed.

(* ------------------------------------------------------------------ *)
(* next and the structural loops *)

Lemma resP_impl {A} (P Q : A -> Prop) (x : lres A) :
  (forall a, P a -> Q a) -> resP P x -> resP Q x.
Proof. destruct x; cbn; auto. Qed.

Definition s2 (a : Z * list Z) : Prop := ch_ok (fst a) /\ Forall rune_in (snd a).
Definition s3 (a : Z * list Z * list Z) : Prop :=
  (ch_ok (fst (fst a)) /\ Forall rune_in (snd (fst a))) /\ forallb goodr (snd a) = true.

Lemma next_ok rest : Forall rune_in rest -> resP s2 (next rest).
Proof.
  intros H. destruct rest as [|c r]; cbn [next].
  - cbn [resP]. split; [apply ch_ok_eof|constructor].
  - inversion H as [|? ? Hc Hr]; subst.
    destruct (check_cases c) as [[E P]|[e [E N]]]; rewrite E; cbn [lbind resP]; [|exact I].
    split; cbn [fst snd]; [apply ch_ok_in; assumption|exact Hr].
Qed.

Ltac wnext :=
  let Hc := fresh "Hc" in let Hr := fresh "Hr" in
  eapply resP_bind; [apply next_ok; eassumption|]; intros [? ?] [Hc Hr]; cbn [fst snd] in Hc, Hr.

Ltac wstep :=
  match goal with
  | |- resP _ (lbind (next _) _) => wnext
  | |- resP _ (lbind (if ?c then _ else _) _) => destruct c eqn:?
  | |- resP _ (lbind (LOk _) _) => cbn [lbind]
  | |- resP _ (lbind (LErr _) _) => exact I
  | |- resP _ (lbind (lbind _ _) _) => rewrite lbind_assoc
  | |- resP _ (lbind (let (_, _) := ?p in _) _) => destruct p
  | |- resP _ (if ?c then _ else _) => destruct c eqn:?
  | |- resP _ (let (_, _) := ?p in _) => destruct p
  | |- resP _ (LErr _) => exact I
  end.

Lemma skip_ws_ok : forall rest ch, ch_ok ch -> Forall rune_in rest -> resP s2 (skip_ws ch rest).
Proof.
  induction rest as [|c r IH]; intros ch Hch Hr; cbn [skip_ws].
  - destruct (is_ws ch); cbn [resP]; (split; [|constructor]); [apply ch_ok_eof|exact Hch].
  - destruct (is_ws ch); [|cbn [resP]; split; assumption].
    inversion Hr as [|? ? Hc Hr']; subst.
    destruct (check_cases c) as [[E P]|[e [E N]]]; rewrite E; cbn [lbind]; [|exact I].
    apply IH; [apply ch_ok_in; assumption|exact Hr'].
Qed.

(* digits: (ch, rest, acc', ds, inv) with acc' extending acc *)
Definition d5 (acc : list Z) (a : Z * list Z * list Z * Z * Z) : Prop :=
  s2 (fst (fst (fst a))) /\ exists t, snd (fst (fst a)) = acc ++ t.

Lemma d5_snoc acc ch a : d5 (acc ++ [ch]) a -> d5 acc a.
Proof.
  intros [H [t Ht]]. split; [exact H|]. exists ([ch] ++ t). rewrite Ht, app_assoc. reflexivity.
Qed.

Lemma digits_ok base : forall rest ch acc ds inv, ch_ok ch -> Forall rune_in rest ->
  resP (d5 acc) (digits base ch rest acc ds inv).
Proof.
  induction rest as [|c r IH]; intros ch acc ds inv Hch Hr; cbn [digits].
  - match goal with |- resP _ (if ?c then _ else _) => destruct c end;
      cbn [resP]; unfold d5, s2; cbn [fst snd].
    + split; [split; [apply ch_ok_eof|constructor]|exists [ch]; reflexivity].
    + split; [split; assumption|exists []; symmetry; apply app_nil_r].
  - match goal with |- resP _ (if ?c then _ else _) => destruct c end.
    + inversion Hr as [|? ? Hc Hr']; subst.
      destruct (check_cases c) as [[E P]|[e [E N]]]; rewrite E; cbn [lbind]; [|exact I].
      eapply resP_impl; [apply d5_snoc|].
      apply IH; [apply ch_ok_in; assumption|exact Hr'].
    + cbn [resP]; unfold d5, s2; cbn [fst snd].
      split; [split; assumption|exists []; symmetry; apply app_nil_r].
Qed.

(* (ch, rest, acc', ds, inv) with acc' a number text *)
Definition n5 (a : Z * list Z * list Z * Z * Z) : Prop :=
  s2 (fst (fst (fst a))) /\ hdnm (snd (fst (fst a))).

Lemma digits_nm base rest ch acc ds inv :
  hdnm acc -> ch_ok ch -> Forall rune_in rest -> resP n5 (digits base ch rest acc ds inv).
Proof.
  intros Hn Hch Hr. eapply resP_impl; [|apply digits_ok; assumption].
  intros a [H [t Ht]]. split; [exact H|]. rewrite Ht. apply hdnm_app. exact Hn.
Qed.

Lemma digits_first base rest ch ds inv :
  is_decimal ch = true -> ch_ok ch -> Forall rune_in rest ->
  resP n5 (digits base ch rest [] ds inv).
Proof.
  intros Hd Hch Hr.
  assert (W: (if base <=? 10 then is_decimal ch else is_hex ch) || (ch =? 95) = true).
  { unfold is_hex, is_decimal in *. rewrite Hd. destruct (base <=? 10); reflexivity. }
  destruct rest as [|c r]; cbn [digits]; rewrite W.
  - cbn [resP]. unfold n5, s2; cbn [fst snd app].
    split; [split; [apply ch_ok_eof|constructor]|apply hdnm_dec; exact Hd].
  - inversion Hr as [|? ? Hc Hr']; subst.
    destruct (check_cases c) as [[E P]|[e [E N]]]; rewrite E; cbn [lbind]; [|exact I].
    apply digits_nm; [apply hdnm_dec; exact Hd|apply ch_ok_in; assumption|exact Hr'].
Qed.

(* ------------------------------------------------------------------ *)
Section L.
Variable L : GoLib.

(* numbers: (kind, text, ch, rest) *)
Definition numk (k : tkind) : Prop := match k with TInt | TNumeric => True | _ => False end.
Definition n4 (a : tkind * list Z * Z * list Z) : Prop :=
  (numk (fst (fst (fst a))) /\ hdnm (snd (fst (fst a)))) /\
  ch_ok (snd (fst a)) /\ Forall rune_in (snd a).

Local Hint Resolve hdnm_app hdnm_46 hdnm_48 ch_ok_eof : lt.

Ltac wdigits :=
  let Hc := fresh "Hc" in let Hr := fresh "Hr" in let Hn := fresh "Hn" in
  eapply resP_bind;
  [ first [ apply digits_nm; [solve [eauto with lt] | eassumption | eassumption]
          | apply digits_first; [eassumption | eassumption | eassumption] ] |];
  intros [[[[? ?] ?] ?] ?] [[Hc Hr] Hn]; cbn [fst snd] in Hc, Hr, Hn.

Ltac nstep :=
  match goal with
  | |- resP _ (lbind (digits _ _ _ _ _ _) _) => wdigits
  | _ => wstep
  end.

Ltac n4_close :=
  cbn [resP]; unfold n4; cbn [fst snd numk]; repeat split; eauto with lt.

Lemma scan_number_tail_ok tok base prefix ch rest acc digSep inv sd :
  numk tok -> hdnm acc -> ch_ok ch -> Forall rune_in rest ->
  resP n4 (scan_number_tail L tok base prefix ch rest acc digSep inv sd).
Proof.
  intros K Hn Hch Hr. unfold scan_number_tail. repeat nstep. all: n4_close.
Qed.

Lemma ch_ok_46 : ch_ok 46.
Proof. apply ch_ok_good. apply goodr_spec. lia. Qed.
Local Hint Resolve ch_ok_46 : lt.

Lemma scan_number_ok ch rest sd :
  (sd = false -> is_decimal ch = true) -> ch_ok ch -> Forall rune_in rest ->
  resP n4 (scan_number L ch rest sd).
Proof.
  intros Hd Hch Hr. unfold scan_number.
  destruct sd; [apply scan_number_tail_ok; [exact I|apply hdnm_46|exact Hch|exact Hr]|].
  specialize (Hd eq_refl).
  repeat first
    [ match goal with
      | |- resP _ (scan_number_tail _ _ _ _ _ _ _ _ _ _) =>
          apply scan_number_tail_ok; [exact I|solve [eauto with lt]|eassumption|eassumption]
      end
    | nstep ].
  all: n4_close.
Qed.

(* ---- escapes ---- *)
Lemma hex_char_range c : -1 <= hex_char c <= 15.
Proof.
  unfold hex_char.
  repeat match goal with |- context [if ?c then _ else _] => destruct c eqn:? end; lia.
Qed.

Ltac hex_facts :=
  repeat match goal with
  | H : (hex_char ?a <? 0) = false |- _ =>
      let F := fresh "HX" in pose proof (hex_char_range a) as F; apply Z.ltb_ge in H
  end.

Ltac s3_close :=
  cbn [resP]; unfold s3; cbn [fst snd]; repeat split; eauto with lt.

Lemma scan_hex_ok rest buf :
  Forall rune_in rest -> forallb goodr buf = true -> resP s3 (scan_hex rest buf).
Proof.
  intros Hr Hb. unfold scan_hex. repeat wstep. s3_close.
  apply buf_snoc; [exact Hb|]. apply goodr_spec. hex_facts. lia.
Qed.

Definition b2 (a : Z * list Z) : Prop := 0 <= fst a /\ Forall rune_in (snd a).

Lemma braces_ok : forall n rr c rest, 0 <= rr -> Forall rune_in rest ->
  resP b2 (braces n rr c rest).
Proof.
  induction n as [|n IH]; intros rr c rest Hrr Hr; cbn [braces].
  - destruct (c =? 125); [cbn [resP]; split; assumption|exact I].
  - destruct (c =? 125); [cbn [resP]; split; assumption|].
    destruct (hex_char c <? 0) eqn:E; [exact I|].
    wnext. apply IH; [lia|assumption].
Qed.

(* a decoded \u escape: a non-zero code point, possibly a surrogate *)
Definition u2 (a : Z * list Z) : Prop := 0 < fst a <= max_rune /\ Forall rune_in (snd a).

Lemma decode_unicode_ok rest : Forall rune_in rest -> resP u2 (decode_unicode rest).
Proof.
  intros Hr. unfold decode_unicode. wnext.
  match goal with |- resP _ (lbind (if ?c then _ else _) _) => destruct c end.
  - rewrite lbind_assoc. wnext. rewrite lbind_assoc.
    eapply resP_bind; [apply braces_ok; [lia|eassumption]|].
    intros [rr r2] [H1 H2]. cbn [fst snd] in H1, H2.
    repeat wstep. cbn [resP]. unfold u2. cbn [fst snd]. split; [lia|assumption].
  - repeat wstep. cbn [resP]. unfold u2, max_rune. cbn [fst snd]. hex_facts.
    split; [lia|assumption].
Qed.

Lemma scan_unicode_ok rest buf :
  Forall rune_in rest -> forallb goodr buf = true -> resP s3 (scan_unicode rest buf).
Proof.
  intros Hr Hb. unfold scan_unicode.
  eapply resP_bind; [apply decode_unicode_ok; exact Hr|].
  intros [rr r1] [H1 H2]. cbn [fst snd] in H1, H2. unfold max_rune in H1.
  destruct (is_surrogate rr) eqn:Es.
  - wnext. destruct (negb (_ =? 92)); [exact I|].
    wnext. destruct (negb (_ =? 117)); [exact I|].
    eapply resP_bind; [apply decode_unicode_ok; eassumption|].
    intros [rr1 r3] [H3 H4]. cbn [fst snd] in H3, H4. unfold max_rune in H3.
    destruct (utf16_pair rr rr1) as [dec|] eqn:Eu; [|exact I].
    wnext. s3_close. apply buf_snoc; [exact Hb|]. apply goodr_spec.
    unfold utf16_pair in Eu.
    destruct ((55296 <=? rr) && (rr <? 56320) && (56320 <=? rr1) && (rr1 <? 57344)) eqn:Ec;
      [|discriminate].
    inversion Eu; subst dec. lia.
  - wnext. s3_close. apply buf_snoc; [exact Hb|]. apply goodr_spec.
    unfold is_surrogate in Es. lia.
Qed.

Lemma scan_escape_ok rest buf :
  Forall rune_in rest -> forallb goodr buf = true -> resP s3 (scan_escape rest buf).
Proof.
  intros Hr Hb. unfold scan_escape. wnext. cbv zeta.
  repeat first
    [ match goal with
      | |- resP _ (scan_hex _ _) => apply scan_hex_ok; assumption
      | |- resP _ (scan_unicode _ _) => apply scan_unicode_ok; assumption
      end
    | wstep ].
  all: s3_close.
  all: apply buf_snoc; [exact Hb|].
  all: try (apply goodr_spec; lia).
  apply ch_ok_nonneg; [assumption|lia].
Qed.

(* ---- strings, identifiers, variables ---- *)
Lemma string_loop_ok : forall fuel ch rest buf,
  ch_ok ch -> Forall rune_in rest -> forallb goodr buf = true ->
  resP s3 (string_loop fuel ch rest buf).
Proof.
  induction fuel as [|f IH]; intros ch rest buf Hch Hr Hb; [exact I|].
  cbn [string_loop].
  destruct (ch =? 34) eqn:E1.
  { wnext. s3_close. }
  destruct ((ch =? 10) || (ch <? 0)) eqn:E2; [exact I|].
  destruct (ch =? 92) eqn:E3.
  - eapply resP_bind; [apply scan_escape_ok; assumption|].
    intros [[c r] b] [[H1 H2] H3]. cbn [fst snd] in H1, H2, H3. apply IH; assumption.
  - wnext. apply IH; [assumption|assumption|].
    apply buf_snoc; [exact Hb|]. apply ch_ok_nonneg; [exact Hch|lia].
Qed.

Lemma scan_string_ok rest : Forall rune_in rest -> resP s3 (scan_string rest).
Proof.
  intros Hr. unfold scan_string. wnext. apply string_loop_ok; [assumption|assumption|reflexivity].
Qed.

Lemma ident_loop_ok : forall fuel ch rest buf,
  ch_ok ch -> Forall rune_in rest -> forallb goodr buf = true ->
  resP s3 (ident_loop L fuel ch rest buf).
Proof.
  induction fuel as [|f IH]; intros ch rest buf Hch Hr Hb; [exact I|].
  cbn [ident_loop].
  destruct (is_ident_rune L ch false) eqn:E1; [|s3_close].
  pose proof (is_ident_rune_nonneg L _ _ E1) as Hnn.
  destruct (ch =? 92) eqn:E3.
  - eapply resP_bind; [apply scan_escape_ok; assumption|].
    intros [[c r] b] [[H1 H2] H3]. cbn [fst snd] in H1, H2, H3. apply IH; assumption.
  - wnext. apply IH; [assumption|assumption|].
    apply buf_snoc; [exact Hb|]. apply ch_ok_nonneg; [exact Hch|exact Hnn].
Qed.

Lemma ident_token_ok s : wf_text s = true -> tok_ok (mktok (ident_token L s) s).
Proof.
  intros H. unfold tok_ok, ident_token. cbn [tk ttext].
  repeat match goal with |- context [if ?c then _ else _] => destruct c end; try exact H.
  destruct (assoc_str _ _); exact H.
Qed.

(* (token, ch, rest) *)
Definition t3 (a : token * Z * list Z) : Prop :=
  tok_ok (fst (fst a)) /\ ch_ok (snd (fst a)) /\ Forall rune_in (snd a).

Lemma scan_ident_ok ch rest :
  is_ident_rune L ch true = true -> ch_ok ch -> Forall rune_in rest ->
  resP t3 (scan_ident L ch rest).
Proof.
  intros Hi Hch Hr. unfold scan_ident.
  pose proof (is_ident_rune_nonneg L _ _ Hi) as Hnn.
  eapply resP_bind with (Q := s3).
  { destruct (ch =? 92); [apply scan_escape_ok; [exact Hr|reflexivity]|].
    wnext. s3_close. cbn [forallb]. rewrite (ch_ok_nonneg ch Hch Hnn). reflexivity. }
  intros [[c r] b] [[H1 H2] H3]. cbn [fst snd] in H1, H2, H3.
  eapply resP_bind; [apply ident_loop_ok; eassumption|].
  intros [[c' r'] b'] [[H4 H5] H6]. cbn [fst snd] in H4, H5, H6.
  cbn [resP]. unfold t3. cbn [fst snd].
  split; [apply ident_token_ok; apply wf_text_runes; exact H6|split; assumption].
Qed.

Lemma var_loop_ok : forall rest ch buf,
  ch_ok ch -> Forall rune_in rest -> forallb goodr buf = true ->
  resP s3 (var_loop L ch rest buf).
Proof.
  induction rest as [|c r IH]; intros ch buf Hch Hr Hb; cbn [var_loop].
  - destruct (is_variable_rune L ch) eqn:W; [|s3_close].
    assert (0 <= ch) by (unfold is_variable_rune in W; lia).
    s3_close. apply buf_snoc; [exact Hb|apply ch_ok_nonneg; assumption].
  - destruct (is_variable_rune L ch) eqn:W; [|s3_close].
    assert (0 <= ch) by (unfold is_variable_rune in W; lia).
    inversion Hr as [|? ? Hc Hr']; subst.
    destruct (check_cases c) as [[E P]|[e [E N]]]; rewrite E; cbn [lbind]; [|exact I].
    apply IH; [apply ch_ok_in; assumption|exact Hr'|].
    apply buf_snoc; [exact Hb|apply ch_ok_nonneg; assumption].
Qed.

Lemma scan_variable_ok rest : Forall rune_in rest -> resP t3 (scan_variable L rest).
Proof.
  intros Hr. unfold scan_variable. wnext.
  destruct (_ =? 34).
  - eapply resP_bind; [apply scan_string_ok; assumption|].
    intros [[c r] b] [[H1 H2] H3]. cbn [fst snd] in H1, H2, H3.
    cbn [resP]. unfold t3, tok_ok. cbn [fst snd tk ttext].
    split; [apply wf_text_runes; exact H3|split; assumption].
  - destruct (is_variable_rune L _).
    + eapply resP_bind; [apply var_loop_ok; [assumption|assumption|reflexivity]|].
      intros [[c r] b] [[H1 H2] H3]. cbn [fst snd] in H1, H2, H3.
      cbn [resP]. unfold t3, tok_ok. cbn [fst snd tk ttext].
      split; [apply wf_text_runes; exact H3|split; assumption].
    + cbn [resP]. unfold t3, tok_ok. cbn [fst snd tk ttext]. split; [exact I|split; assumption].
Qed.

(* ---- comments, operators ---- *)
Lemma comment_loop_ok : forall rest ch, Forall rune_in rest -> resP s2 (comment_loop ch rest).
Proof.
  induction rest as [|c r IH]; intros ch Hr; cbn [comment_loop].
  - destruct (ch <? 0); exact I.
  - destruct (ch <? 0); [exact I|].
    inversion Hr as [|? ? Hc Hr']; subst.
    destruct (check_cases c) as [[E P]|[e [E N]]]; rewrite E; cbn [lbind]; [|exact I].
    destruct ((ch =? 42) && (c =? 47)); [apply next_ok; exact Hr'|apply IH; exact Hr'].
Qed.

Lemma scan_comment_ok rest : Forall rune_in rest -> resP s2 (scan_comment rest).
Proof. intros Hr. unfold scan_comment. wnext. apply comment_loop_ok. assumption. Qed.

Lemma scan_operator_ok ch rest : Forall rune_in rest -> resP t3 (scan_operator ch rest).
Proof.
  intros Hr. unfold scan_operator. wnext. cbv zeta.
  repeat wstep.
  all: cbn [resP]; unfold t3, tok_ok; cbn [fst snd tk ttext]; split; [exact I|split; assumption].
Qed.

(* ---- Lex ---- *)
Definition o3 (a : option token * Z * list Z) : Prop :=
  (match fst (fst a) with Some t => tok_ok t | None => True end) /\
  ch_ok (snd (fst a)) /\ Forall rune_in (snd a).

Lemma num_tok_ok k txt : numk k -> hdnm txt -> tok_ok (mktok k (str_of_bytes txt)).
Proof.
  intros K H. unfold tok_ok. cbn [tk ttext].
  destruct k; try exact I; try (exfalso; exact K); apply hdnm_no_minus; exact H.
Qed.

Lemma lex_tok_ok1 : forall fuel ch rest, ch_ok ch -> Forall rune_in rest ->
  resP o3 (lex_tok L fuel ch rest).
Proof.
  induction fuel as [|f IH]; intros ch rest Hch Hr; [exact I|].
  cbn [lex_tok].
  eapply resP_bind; [apply skip_ws_ok; assumption|].
  clear ch rest Hch Hr. intros [ch rest] [Hch Hr]. cbn [fst snd] in Hch, Hr.
  destruct (is_ident_rune L ch true) eqn:E1.
  { eapply resP_bind; [apply scan_ident_ok; assumption|].
    intros [[t c] r] K. exact K. }
  destruct (is_decimal ch) eqn:E2.
  { eapply resP_bind; [apply (scan_number_ok ch rest false); [intros _; exact E2|assumption|assumption]|].
    intros [[[k txt] c] r] [[K1 K2] K3]. cbn [fst snd] in K1, K2, K3.
    cbn [resP]. unfold o3. cbn [fst snd]. split; [apply num_tok_ok; assumption|exact K3]. }
  destruct (ch <? 0); [cbn [resP]; unfold o3; cbn [fst snd]; split; [exact I|split; assumption]|].
  destruct (ch =? 34).
  { eapply resP_bind; [apply scan_string_ok; assumption|].
    intros [[c r] b] [K1 K2]. cbn [fst snd] in K1, K2.
    cbn [resP]. unfold o3, tok_ok. cbn [fst snd tk ttext].
    split; [apply wf_text_runes; exact K2|exact K1]. }
  destruct (ch =? 36).
  { eapply resP_bind; [apply scan_variable_ok; assumption|].
    intros [[t c] r] K. exact K. }
  destruct (ch =? 47).
  { wnext. destruct (_ =? 42).
    - eapply resP_bind; [apply scan_comment_ok; assumption|].
      intros [c' r'] [K1 K2]. cbn [fst snd] in K1, K2. apply IH; assumption.
    - cbn [resP]. unfold o3, tok_ok. cbn [fst snd tk ttext]. split; [exact I|split; assumption]. }
  destruct (ch =? 46).
  { wnext.
    match goal with |- resP _ (if is_decimal ?c then _ else _) => destruct (is_decimal c) eqn:Ed end.
    - eapply resP_bind;
        [eapply (scan_number_ok _ _ true); [intros; discriminate|eassumption|eassumption]|].
      intros [[[k txt] c'] r'] [[K1 K2] K3]. cbn [fst snd] in K1, K2, K3.
      cbn [resP]. unfold o3. cbn [fst snd]. split; [apply num_tok_ok; assumption|exact K3].
    - cbn [resP]. unfold o3, tok_ok. cbn [fst snd tk ttext]. split; [exact I|split; assumption]. }
  destruct (57344 <=? ch); [exact I|].
  eapply resP_bind; [apply scan_operator_ok; assumption|]. intros [[t c] r] K. exact K.
Qed.

Lemma err_tok_ok e : tok_ok (err_tok e).
Proof. exact I. Qed.

Lemma lex_all_ok : forall fuel ch rest, ch_ok ch -> Forall rune_in rest ->
  Forall tok_ok (lex_all L fuel ch rest).
Proof.
  induction fuel as [|f IH]; intros ch rest Hch Hr; cbn [lex_all].
  - constructor; [apply err_tok_ok|constructor].
  - pose proof (lex_tok_ok1 (S (length rest)) ch rest Hch Hr) as H.
    destruct (lex_tok L (S (length rest)) ch rest) as [[[[t|] c] r]|e].
    + cbn [resP] in H. destruct H as [H1 [H2 H3]]. cbn [fst snd] in H1, H2, H3.
      constructor; [exact H1|apply IH; assumption].
    + constructor.
    + constructor; [apply err_tok_ok|constructor].
Qed.

Lemma lex_runes_ok l : Forall rune_in l -> Forall tok_ok (lex_runes L l).
Proof.
  intros Hl. unfold lex_runes. pose proof (next_ok l Hl) as H.
  destruct (next l) as [[ch rest]|e].
  - destruct H as [H1 H2]. apply lex_all_ok; assumption.
  - constructor; [apply err_tok_ok|constructor].
Qed.

Theorem lex_tok_ok s : Forall tok_ok (lex L s).
Proof. unfold lex. apply lex_runes_ok. apply lex_runes_of_in. Qed.

End L.

Print Assumptions lex_tok_ok.
