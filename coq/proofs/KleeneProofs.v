(* KleeneProofs.v — C11: the boolean connectives of the specification
   (spec/Sem.v, [sem_pred]) follow three-valued (Kleene) logic.

   A predicate result is a pair (pout * option err).  [sem_pred_wf] shows that
   an error is always paired with PUnknown, so a result is one of FOUR
   outcomes: true, false, unknown, or a non-suppressible ("hard") error e.
   The connectives are explicit tables over these four outcomes ([k_and],
   [k_or], [k_not], [k_isunknown]); the general lemmas ([sem_and] ...) hold for
   ARBITRARY operand predicates p, q, any document, any variables, any library
   instance and both quirk settings; the algebraic laws are then finite sweeps
   over the outcome domain.

   Stdlib only.  Every theorem is closed under the global context. *)
From Coq Require Import Floats.SpecFloat.
From SJ Require Import lib.Base model.Json model.Ast model.ExecLib model.Leaf spec.Sem.

Definition pres := (pout * option err)%type.

(* ------------------------------------------------------------------ *)
(* The outcome domain                                                   *)
(* ------------------------------------------------------------------ *)
Inductive kout := KT | KF | KU | KE (e : err).

Definition kout_of (r : pres) : kout :=
  match r with
  | (_, Some e) => KE e
  | (PTrue, None) => KT
  | (PFalse, None) => KF
  | (PUnknown, None) => KU
  end.

Definition pres_of (k : kout) : pres :=
  match k with
  | KT => (PTrue, None)
  | KF => (PFalse, None)
  | KU => (PUnknown, None)
  | KE e => (PUnknown, Some e)
  end.

(* an error always comes with PUnknown *)
Definition wf_pres (r : pres) : Prop := forall e, snd r = Some e -> fst r = PUnknown.

Lemma kout_of_pres_of k : kout_of (pres_of k) = k.
Proof. destruct k; reflexivity. Qed.

Lemma pres_of_kout_of r : wf_pres r -> pres_of (kout_of r) = r.
Proof.
  destruct r as [p [e|]]; intros Hwf.
  - specialize (Hwf e eq_refl). cbn in Hwf. subst p. reflexivity.
  - destruct p; reflexivity.
Qed.

Lemma wf_pres_of k : wf_pres (pres_of k).
Proof. destruct k; intros e' H; cbn in *; try discriminate; reflexivity. Qed.

Definition no_err (k : kout) : Prop := match k with KE _ => False | _ => True end.

(* ------------------------------------------------------------------ *)
(* The tables.  Evaluation is left to right: a hard error on the left    *)
(* propagates; on the right it propagates unless the left decides.       *)
(* ------------------------------------------------------------------ *)
Definition k_and (a b : kout) : kout :=
  match a, b with
  | KF, _ => KF
  | KE e, _ => KE e
  | KT, x => x
  | KU, KT => KU
  | KU, KF => KF
  | KU, KU => KU
  | KU, KE e => KE e
  end.

Definition k_or (a b : kout) : kout :=
  match a, b with
  | KT, _ => KT
  | KE e, _ => KE e
  | KF, x => x
  | KU, KT => KT
  | KU, KF => KU
  | KU, KU => KU
  | KU, KE e => KE e
  end.

Definition k_not (a : kout) : kout :=
  match a with KT => KF | KF => KT | KU => KU | KE e => KE e end.

(* [swallow] = quirk q_iu_swallow: the code turns a hard error into "true" *)
Definition k_isunknown (swallow : bool) (a : kout) : kout :=
  match a with
  | KU => KT
  | KT | KF => KF
  | KE e => if swallow then KT else KE e
  end.

(* the emptiness test of exists(e) on the operand trace *)
Definition k_exists (lax : bool) (t : trace) : kout :=
  let fail e := if is_verbose e then KU else KE e in
  if lax then
    match fst t, snd t with
    | _ :: _, _ => KT                  (* lax: the first item decides *)
    | [], Some e => fail e
    | [], None => KF
    end
  else
    match snd t, fst t with
    | Some e, _ => fail e              (* strict: any failure of e decides *)
    | None, [] => KF
    | None, _ :: _ => KT
    end.

(* ------------------------------------------------------------------ *)
(* Characterising equations of sem_pred (all by computation)             *)
(* ------------------------------------------------------------------ *)
Section Kleene.
Variables (L : ExecLib) (C : cenv) (Q : quirks).

Notation SP := (sem_pred L C Q).
Notation SC := (sem_chain L C Q).
Notation SS := (sem_step L C Q).

Definition pred_chain (n : chain) (c : json) (z : Z) (ig : bool) (v : json) : pres :=
  match n with
  | [q] => SP q c z ig v
  | _ => (PUnknown, Some (EInvalid "boolean jsonpath item"))
  end.

Lemma sp_and l r c z ig v :
  SP (SBin BAnd l r) c z ig v =
  match pred_chain l c z ig v with
  | (PFalse, e) => (PFalse, e)
  | (pl, Some e) => (pl, Some e)
  | (pl, None) => match pred_chain r c z ig v with
                  | (PTrue, e2) => (pl, e2)
                  | x => x
                  end
  end.
Proof. reflexivity. Qed.

Lemma sp_or l r c z ig v :
  SP (SBin BOr l r) c z ig v =
  match pred_chain l c z ig v with
  | (PTrue, e) => (PTrue, e)
  | (pl, Some e) => (pl, Some e)
  | (pl, None) => match pred_chain r c z ig v with
                  | (PFalse, _) => (pl, None)
                  | x => x
                  end
  end.
Proof. reflexivity. Qed.

Lemma sp_not a c z ig v :
  SP (SUn UNot a) c z ig v =
  match pred_chain a c z ig v with
  | (PUnknown, e) => (PUnknown, e)
  | (PTrue, _) => (PFalse, None)
  | (PFalse, _) => (PTrue, None)
  end.
Proof. reflexivity. Qed.

Lemma sp_isunknown a c z ig v :
  SP (SUn UIsUnknown a) c z ig v =
  match pred_chain a c z ig v with
  | (q, Some e) => if q_iu_swallow Q
                   then (predFrom (match q with PUnknown => true | _ => false end), None)
                   else (PUnknown, Some e)
  | (q, None) => (predFrom (match q with PUnknown => true | _ => false end), None)
  end.
Proof. reflexivity. Qed.

Lemma sp_exists a c z ig v :
  SP (SUn UExists a) c z ig v =
  let t := SC a c z ig (laxm C) v in
  if laxm C then
    match fst t, snd t with
    | _ :: _, _ => (PTrue, None)
    | [], Some e => (PUnknown, hard e)
    | [], None => (PFalse, None)
    end
  else
    match snd t, fst t with
    | Some e, _ => (PUnknown, hard e)
    | None, [] => (PFalse, None)
    | None, _ => (PTrue, None)
    end.
Proof. reflexivity. Qed.

(* the operand sequence of a comparison-like predicate *)
Definition operand (n : chain) (unwrap : bool) (c : json) (z : Z) (ig : bool) (v : json)
  : list json + option err :=
  let t := SC n c z ig (laxm C) v in
  match snd t with
  | Some e => inr (hard e)
  | None => inl (if unwrap && laxm C then unwrapSeq (fst t) else fst t)
  end.

Definition predicate (l : chain) (r : option chain) (unwrapRight : bool)
           (cb : json -> json -> pres) (c : json) (z : Z) (ig : bool) (v : json) : pres :=
  match operand l true c z ig v with
  | inr e => (PUnknown, e)
  | inl lseq =>
      match (match r with Some rn => operand rn unwrapRight c z ig v | None => inl [JNull] end) with
      | inr e => (PUnknown, e)
      | inl rseq => spairs (negb (laxm C)) cb lseq rseq false false
      end
  end.

Definition is_cmp (op : binop) : bool :=
  match op with BEq | BNe | BLt | BGt | BLe | BGe => true | _ => false end.

Lemma sp_cmp op l r c z ig v :
  is_cmp op = true ->
  SP (SBin op l r) c z ig v =
  predicate l (Some r) true (fun a b => total_cb (compareItems L (c_useTZ C) op a b)) c z ig v.
Proof. destruct op; intros H; try discriminate H; reflexivity. Qed.

Lemma sp_startswith l r c z ig v :
  SP (SBin BStartsWith l r) c z ig v = predicate l (Some r) false executeStartsWith c z ig v.
Proof. reflexivity. Qed.

Lemma sp_regex a pat flags c z ig v :
  SP (SRegex a pat flags) c z ig v =
  predicate a None false (fun x _ => executeLikeRegex L pat flags x) c z ig v.
Proof. reflexivity. Qed.

Lemma sp_arith op l r c z ig v :
  is_bool_binop op = false ->
  SP (SBin op l r) c z ig v = (PUnknown, Some (EInvalid "invalid jsonpath boolean operator")).
Proof. destruct op; intros H; try discriminate H; reflexivity. Qed.

Definition is_pred_step (s : step) : bool :=
  match s with
  | SBin op _ _ => is_bool_binop op
  | SRegex _ _ _ => true
  | SUn op _ => match op with UNot | UIsUnknown | UExists => true | _ => false end
  | _ => false
  end.

Lemma sp_other s c z ig v :
  match s with SBin _ _ _ | SRegex _ _ _ => false
          | SUn op _ => match op with UNot | UIsUnknown | UExists => false | _ => true end
          | _ => true end = true ->
  SP s c z ig v = (PUnknown, Some (EInvalid "invalid boolean jsonpath item type")).
Proof.
  destruct s as [k| | | | | | | op a | | | | | | ]; try destruct k; try destruct op;
    intros H; try discriminate H; reflexivity.
Qed.

(* ------------------------------------------------------------------ *)
(* Every predicate result is one of the four outcomes                    *)
(* ------------------------------------------------------------------ *)
Lemma spairs_inner_wf strictm cb l rs h f p h' f' :
  spairs_inner strictm cb l rs h f = (Some p, h', f') -> wf_pres p.
Proof.
  revert h f. induction rs as [|r rs IH]; intros h f H; cbn [spairs_inner] in H.
  - discriminate H.
  - destruct (cb l r) as [[| |] [e|]].
    1,3,5: injection H as <- _ _; intros e' _; reflexivity.
    + destruct (negb strictm).
      * injection H as <- _ _. intros e' He; discriminate He.
      * eapply IH; exact H.
    + eapply IH; exact H.
    + destruct strictm.
      * injection H as <- _ _. intros e' _; reflexivity.
      * eapply IH; exact H.
Qed.

Lemma spairs_wf strictm cb ls rs h f : wf_pres (spairs strictm cb ls rs h f).
Proof.
  revert h f. induction ls as [|l ls IH]; intros h f; cbn [spairs].
  - destruct f; [|destruct h]; intros e H; discriminate H.
  - destruct (spairs_inner strictm cb l rs h f) as [[[p|] h'] f'] eqn:E.
    + eapply spairs_inner_wf; exact E.
    + apply IH.
Qed.

Lemma predicate_wf l r ur cb c z ig v : wf_pres (predicate l r ur cb c z ig v).
Proof.
  unfold predicate.
  destruct (operand l true c z ig v) as [ls|e]; [|intros e' _; reflexivity].
  destruct (match r with Some rn => operand rn ur c z ig v | None => inl [JNull] end) as [rs|e];
    [apply spairs_wf | intros e' _; reflexivity].
Qed.

Lemma wf_unknown e : wf_pres (PUnknown, e).
Proof. intros e' _; reflexivity. Qed.
Lemma wf_noerr p : wf_pres (p, None).
Proof. intros e' H; discriminate H. Qed.

Theorem sem_pred_wf : forall s c z ig v, wf_pres (SP s c z ig v).
Proof.
  apply (step_ind' (fun s => forall c z ig v, wf_pres (SP s c z ig v))
                   (fun n => forall c z ig v, wf_pres (pred_chain n c z ig v)));
    try (intros; rewrite sp_other by reflexivity; apply wf_unknown).
  - (* chain [] *) intros; apply wf_unknown.
  - (* chain cons *) intros s n IHs _ c z ig v. destruct n as [|s' r]; [apply IHs | apply wf_unknown].
  - (* SBin *)
    intros op l r IHs IHs0 c z ig v.
    destruct op;
      try (rewrite sp_cmp by reflexivity; apply predicate_wf);
      try (rewrite sp_arith by reflexivity; apply wf_unknown).
    + rewrite sp_and. specialize (IHs c z ig v). specialize (IHs0 c z ig v).
      destruct (pred_chain l c z ig v) as [[| |] [e|]];
        try (specialize (IHs e eq_refl); discriminate IHs);
        try apply wf_unknown; try apply wf_noerr.
      * destruct (pred_chain r c z ig v) as [[| |] [e|]];
          try (specialize (IHs0 e eq_refl); discriminate IHs0);
          try apply wf_unknown; try apply wf_noerr.
      * destruct (pred_chain r c z ig v) as [[| |] [e|]];
          try (specialize (IHs0 e eq_refl); discriminate IHs0);
          try apply wf_unknown; try apply wf_noerr.
    + rewrite sp_or. specialize (IHs c z ig v). specialize (IHs0 c z ig v).
      destruct (pred_chain l c z ig v) as [[| |] [e|]];
        try (specialize (IHs e eq_refl); discriminate IHs);
        try apply wf_unknown; try apply wf_noerr.
      * destruct (pred_chain r c z ig v) as [[| |] [e|]];
          try (specialize (IHs0 e eq_refl); discriminate IHs0);
          try apply wf_unknown; try apply wf_noerr.
      * destruct (pred_chain r c z ig v) as [[| |] [e|]];
          try (specialize (IHs0 e eq_refl); discriminate IHs0);
          try apply wf_unknown; try apply wf_noerr.
    + rewrite sp_startswith; apply predicate_wf.
  - (* SUn *)
    intros op a IHa c z ig v.
    destruct op; try (rewrite sp_other by reflexivity; apply wf_unknown).
    + rewrite sp_exists. cbv zeta.
      destruct (laxm C).
      * destruct (fst (SC a c z ig true v)); [destruct (snd (SC a c z ig true v))|];
          try apply wf_unknown; apply wf_noerr.
      * destruct (snd (SC a c z ig false v)); [apply wf_unknown|].
        destruct (fst (SC a c z ig false v)); apply wf_noerr.
    + rewrite sp_not.
      destruct (pred_chain a c z ig v) as [[| |] e]; try apply wf_unknown; apply wf_noerr.
    + rewrite sp_isunknown.
      destruct (pred_chain a c z ig v) as [q [e|]]; [destruct (q_iu_swallow Q)|];
        try apply wf_unknown; apply wf_noerr.
  - (* SRegex *) intros; rewrite sp_regex; apply predicate_wf.
Qed.

Corollary sem_pred_four_outcomes s c z ig v :
  pres_of (kout_of (SP s c z ig v)) = SP s c z ig v.
Proof. apply pres_of_kout_of, sem_pred_wf. Qed.

(* ------------------------------------------------------------------ *)
(* The general lemmas: arbitrary operands p, q                          *)
(* ------------------------------------------------------------------ *)
Theorem sem_and_k p q c z ig v :
  kout_of (SP (SBin BAnd [p] [q]) c z ig v) = k_and (kout_of (SP p c z ig v)) (kout_of (SP q c z ig v)).
Proof.
  rewrite sp_and. cbn [pred_chain].
  destruct (SP p c z ig v) as [[| |] [e|]], (SP q c z ig v) as [[| |] [e'|]]; reflexivity.
Qed.

Theorem sem_or_k p q c z ig v :
  kout_of (SP (SBin BOr [p] [q]) c z ig v) = k_or (kout_of (SP p c z ig v)) (kout_of (SP q c z ig v)).
Proof.
  rewrite sp_or. cbn [pred_chain].
  pose proof (sem_pred_wf q c z ig v) as Hwf.
  destruct (SP p c z ig v) as [[| |] [e|]], (SP q c z ig v) as [[| |] [e'|]]; try reflexivity;
    specialize (Hwf e' eq_refl); discriminate Hwf.
Qed.

Theorem sem_not_k p c z ig v :
  kout_of (SP (SUn UNot [p]) c z ig v) = k_not (kout_of (SP p c z ig v)).
Proof.
  rewrite sp_not. cbn [pred_chain].
  pose proof (sem_pred_wf p c z ig v) as Hwf.
  destruct (SP p c z ig v) as [[| |] [e|]]; try reflexivity;
    specialize (Hwf e eq_refl); discriminate Hwf.
Qed.

Theorem sem_isunknown_k p c z ig v :
  kout_of (SP (SUn UIsUnknown [p]) c z ig v) = k_isunknown (q_iu_swallow Q) (kout_of (SP p c z ig v)).
Proof.
  rewrite sp_isunknown. cbn [pred_chain].
  pose proof (sem_pred_wf p c z ig v) as Hwf.
  destruct (SP p c z ig v) as [[| |] [e|]]; try (destruct (q_iu_swallow Q); reflexivity);
    specialize (Hwf e eq_refl); discriminate Hwf.
Qed.

Theorem sem_exists_k a c z ig v :
  kout_of (SP (SUn UExists a) c z ig v) = k_exists (laxm C) (SC a c z ig (laxm C) v).
Proof.
  rewrite sp_exists. cbv zeta. unfold k_exists.
  destruct (laxm C).
  - destruct (fst (SC a c z ig true v)); [|reflexivity].
    destruct (snd (SC a c z ig true v)) as [e|]; [|reflexivity].
    unfold hard. destruct (is_verbose e); reflexivity.
  - destruct (snd (SC a c z ig false v)) as [e|].
    + unfold hard. destruct (is_verbose e); reflexivity.
    + destruct (fst (SC a c z ig false v)); reflexivity.
Qed.

(* the same at the level of results: nothing is lost by the outcome view *)
Theorem sem_and p q c z ig v :
  SP (SBin BAnd [p] [q]) c z ig v = pres_of (k_and (kout_of (SP p c z ig v)) (kout_of (SP q c z ig v))).
Proof. rewrite <- sem_and_k. symmetry. apply sem_pred_four_outcomes. Qed.

Theorem sem_or p q c z ig v :
  SP (SBin BOr [p] [q]) c z ig v = pres_of (k_or (kout_of (SP p c z ig v)) (kout_of (SP q c z ig v))).
Proof. rewrite <- sem_or_k. symmetry. apply sem_pred_four_outcomes. Qed.

Theorem sem_not p c z ig v :
  SP (SUn UNot [p]) c z ig v = pres_of (k_not (kout_of (SP p c z ig v))).
Proof. rewrite <- sem_not_k. symmetry. apply sem_pred_four_outcomes. Qed.

Theorem sem_isunknown p c z ig v :
  SP (SUn UIsUnknown [p]) c z ig v = pres_of (k_isunknown (q_iu_swallow Q) (kout_of (SP p c z ig v))).
Proof. rewrite <- sem_isunknown_k. symmetry. apply sem_pred_four_outcomes. Qed.

Theorem sem_exists a c z ig v :
  SP (SUn UExists a) c z ig v = pres_of (k_exists (laxm C) (SC a c z ig (laxm C) v)).
Proof. rewrite <- sem_exists_k. symmetry. apply sem_pred_four_outcomes. Qed.

(* an operand that is not a single predicate is an internal error *)
Lemma sem_and_malformed l r c z ig v :
  (forall p, l <> [p]) -> SP (SBin BAnd l r) c z ig v = (PUnknown, Some (EInvalid "boolean jsonpath item")).
Proof.
  intros H. rewrite sp_and. destruct l as [|p [|p' l']]; try reflexivity.
  exfalso; apply (H p); reflexivity.
Qed.

End Kleene.

(* ------------------------------------------------------------------ *)
(* The truth tables (finite sweeps over the outcome domain)              *)
(* ------------------------------------------------------------------ *)

(* the nine error-free rows are Kleene's strong connectives *)
Definition kleene_and (a b : kout) : kout :=
  match a, b with
  | KF, _ | _, KF => KF
  | KT, KT => KT
  | _, _ => KU
  end.
Definition kleene_or (a b : kout) : kout :=
  match a, b with
  | KT, _ | _, KT => KT
  | KF, KF => KF
  | _, _ => KU
  end.

Theorem k_and_kleene a b : no_err a -> no_err b -> k_and a b = kleene_and a b.
Proof. destruct a, b; cbn; intros; try reflexivity; contradiction. Qed.
Theorem k_or_kleene a b : no_err a -> no_err b -> k_or a b = kleene_or a b.
Proof. destruct a, b; cbn; intros; try reflexivity; contradiction. Qed.

(* the seven rows with a hard error *)
Theorem k_and_error_rows e e' :
  k_and (KE e) KT = KE e /\ k_and (KE e) KF = KE e /\ k_and (KE e) KU = KE e /\
  k_and (KE e) (KE e') = KE e /\
  k_and KT (KE e) = KE e /\ k_and KU (KE e) = KE e /\
  k_and KF (KE e) = KF.           (* the left operand decides *)
Proof. repeat split. Qed.
Theorem k_or_error_rows e e' :
  k_or (KE e) KT = KE e /\ k_or (KE e) KF = KE e /\ k_or (KE e) KU = KE e /\
  k_or (KE e) (KE e') = KE e /\
  k_or KF (KE e) = KE e /\ k_or KU (KE e) = KE e /\
  k_or KT (KE e) = KT.            (* the left operand decides *)
Proof. repeat split. Qed.

Theorem k_and_comm a b : no_err a -> no_err b -> k_and a b = k_and b a.
Proof. destruct a, b; cbn; intros; try reflexivity; contradiction. Qed.
Theorem k_or_comm a b : no_err a -> no_err b -> k_or a b = k_or b a.
Proof. destruct a, b; cbn; intros; try reflexivity; contradiction. Qed.

(* with a hard error commutativity fails: evaluation is left to right *)
Example k_and_comm_refuted_with_error e : k_and KF (KE e) <> k_and (KE e) KF.
Proof. cbn; discriminate. Qed.

(* these hold for all sixteen rows, errors included *)
Theorem k_not_involutive a : k_not (k_not a) = a.
Proof. destruct a; reflexivity. Qed.
Theorem k_de_morgan_and a b : k_not (k_and a b) = k_or (k_not a) (k_not b).
Proof. destruct a, b; reflexivity. Qed.
Theorem k_de_morgan_or a b : k_not (k_or a b) = k_and (k_not a) (k_not b).
Proof. destruct a, b; reflexivity. Qed.

Theorem k_isunknown_table sw :
  k_isunknown sw KT = KF /\ k_isunknown sw KF = KF /\ k_isunknown sw KU = KT.
Proof. repeat split. Qed.
Theorem k_isunknown_never_unknown sw a : k_isunknown sw a <> KU.
Proof. destruct a, sw; cbn; discriminate. Qed.
Theorem k_isunknown_true_iff a : no_err a -> forall sw, k_isunknown sw a = KT <-> a = KU.
Proof. destruct a; cbn; intros H sw; try contradiction; split; intros E; try discriminate; reflexivity. Qed.

(* ------------------------------------------------------------------ *)
(* C11: the laws on arbitrary conditions                                *)
(* ------------------------------------------------------------------ *)
Section C11.
Variables (L : ExecLib) (C : cenv) (Q : quirks).
Notation SP := (sem_pred L C Q).
Notation SC := (sem_chain L C Q).

Definition err_free (p : step) c z ig v : Prop := snd (SP p c z ig v) = None.

Lemma err_free_no_err p c z ig v : err_free p c z ig v -> no_err (kout_of (SP p c z ig v)).
Proof. unfold err_free. destruct (SP p c z ig v) as [[| |] [e|]]; cbn; intros H; try discriminate; exact I. Qed.

Theorem C11_and_comm p q c z ig v :
  err_free p c z ig v -> err_free q c z ig v ->
  SP (SBin BAnd [p] [q]) c z ig v = SP (SBin BAnd [q] [p]) c z ig v.
Proof.
  intros Hp Hq. rewrite !sem_and. f_equal.
  apply k_and_comm; apply err_free_no_err; assumption.
Qed.

Theorem C11_or_comm p q c z ig v :
  err_free p c z ig v -> err_free q c z ig v ->
  SP (SBin BOr [p] [q]) c z ig v = SP (SBin BOr [q] [p]) c z ig v.
Proof.
  intros Hp Hq. rewrite !sem_or. f_equal.
  apply k_or_comm; apply err_free_no_err; assumption.
Qed.

(* errors included *)
Theorem C11_double_negation p c z ig v :
  SP (SUn UNot [SUn UNot [p]]) c z ig v = SP p c z ig v.
Proof.
  rewrite sem_not, sem_not_k, k_not_involutive. apply sem_pred_four_outcomes.
Qed.

Theorem C11_de_morgan_and p q c z ig v :
  SP (SUn UNot [SBin BAnd [p] [q]]) c z ig v = SP (SBin BOr [SUn UNot [p]] [SUn UNot [q]]) c z ig v.
Proof.
  rewrite sem_not, sem_and_k, sem_or, !sem_not_k, k_de_morgan_and. reflexivity.
Qed.

Theorem C11_de_morgan_or p q c z ig v :
  SP (SUn UNot [SBin BOr [p] [q]]) c z ig v = SP (SBin BAnd [SUn UNot [p]] [SUn UNot [q]]) c z ig v.
Proof.
  rewrite sem_not, sem_or_k, sem_and, !sem_not_k, k_de_morgan_or. reflexivity.
Qed.

(* (p) is unknown is never itself unknown — whatever p does, in both quirk settings *)
Theorem C11_isunknown_never_unknown p c z ig v :
  SP (SUn UIsUnknown [p]) c z ig v <> (PUnknown, None).
Proof.
  rewrite sem_isunknown. intros H.
  apply (f_equal kout_of) in H. rewrite kout_of_pres_of in H.
  exact (k_isunknown_never_unknown _ _ H).
Qed.

(* ... it is true exactly when p is unknown *)
Theorem C11_isunknown_true_iff p c z ig v :
  err_free p c z ig v ->
  (SP (SUn UIsUnknown [p]) c z ig v = (PTrue, None) <-> SP p c z ig v = (PUnknown, None)) /\
  (SP (SUn UIsUnknown [p]) c z ig v = (PFalse, None) <-> SP p c z ig v <> (PUnknown, None)).
Proof.
  intros Hp. rewrite sem_isunknown. unfold err_free in Hp.
  destruct (SP p c z ig v) as [[| |] [e|]]; cbn in Hp; try discriminate Hp; cbn;
    split; split; intros H; try discriminate H; try reflexivity; try congruence;
    exfalso; apply H; reflexivity.
Qed.

(* exists(e): true/false by emptiness; unknown only when e fails *)
Theorem C11_exists_by_emptiness a c z ig v :
  snd (SC a c z ig (laxm C) v) = None ->
  SP (SUn UExists a) c z ig v =
  (match fst (SC a c z ig (laxm C) v) with [] => PFalse | _ :: _ => PTrue end, None).
Proof.
  intros H. rewrite sem_exists. unfold k_exists. rewrite H.
  destruct (laxm C), (fst (SC a c z ig _ v)); reflexivity.
Qed.

Theorem C11_exists_unknown_only_if_fails a c z ig v :
  fst (SP (SUn UExists a) c z ig v) = PUnknown ->
  exists e, snd (SC a c z ig (laxm C) v) = Some e.
Proof.
  rewrite sem_exists. unfold k_exists.
  destruct (laxm C).
  - destruct (fst (SC a c z ig true v)); [|cbn; discriminate].
    destruct (snd (SC a c z ig true v)) as [e|]; [eauto | cbn; discriminate].
  - destruct (snd (SC a c z ig false v)) as [e|]; [eauto|].
    destruct (fst (SC a c z ig false v)); cbn; discriminate.
Qed.

(* lax: the first item decides even if e fails later; strict: a failure decides *)
Theorem C11_exists_lax_first_item a c z ig v x xs e :
  laxm C = true -> SC a c z ig true v = (x :: xs, e) -> SP (SUn UExists a) c z ig v = (PTrue, None).
Proof. intros Hl H. rewrite sem_exists, Hl, H. reflexivity. Qed.

Theorem C11_exists_strict_failure a c z ig v xs e :
  laxm C = false -> SC a c z ig false v = (xs, Some e) ->
  SP (SUn UExists a) c z ig v = (PUnknown, hard e).
Proof.
  intros Hl H. rewrite sem_exists, Hl, H. unfold k_exists, hard. cbn.
  destruct (is_verbose e); reflexivity.
Qed.

(* ---- a predicate used as a path item yields [true] | [false] | [null] ---- *)
Theorem C11_pred_as_item s k c z ig u v :
  is_pred_step s = true ->
  sem_step L C Q s k c z ig u v =
  match SP s c z ig v with
  | (_, Some e) => tfail e
  | (p, None) => k z ig (bool_item p)
  end.
Proof.
  destruct s as [ | | | | | |op l r|op a|a pat fl| | | | | ]; cbn [is_pred_step]; intros H; try discriminate H.
  - destruct op; try discriminate H; reflexivity.
  - destruct op; try discriminate H; reflexivity.
  - reflexivity.
Qed.

Corollary C11_pred_path_result s c z ig u v :
  is_pred_step s = true ->
  match SC [s] c z ig u v with
  | ([x], None) => x = JBool true \/ x = JBool false \/ x = JNull
  | ([], Some e) => SP s c z ig v = (PUnknown, Some e)
  | _ => False
  end.
Proof.
  intros H.
  change (SC [s] c z ig u v) with
    (sem_step L C Q s (fun lsz' ig' x => SC [] c lsz' ig' (laxm C) x) c z ig u v).
  rewrite C11_pred_as_item by exact H.
  pose proof (sem_pred_wf L C Q s c z ig v) as Hwf.
  destruct (SP s c z ig v) as [p [e|]].
  - specialize (Hwf e eq_refl). cbn in Hwf. subst p. reflexivity.
  - destruct p; cbn; auto.
Qed.

End C11.

(* ------------------------------------------------------------------ *)
(* is unknown and hard errors: the documented rule and the code          *)
(* ------------------------------------------------------------------ *)
Theorem C11_isunknown_ideal L C p c z ig v e :
  sem_pred L C quirks_ideal p c z ig v = (PUnknown, Some e) ->
  sem_pred L C quirks_ideal (SUn UIsUnknown [p]) c z ig v = (PUnknown, Some e).
Proof. intros H. rewrite sem_isunknown, H. reflexivity. Qed.

Theorem C11_isunknown_code L C p c z ig v e :
  sem_pred L C quirks_code p c z ig v = (PUnknown, Some e) ->
  sem_pred L C quirks_code (SUn UIsUnknown [p]) c z ig v = (PTrue, None).
Proof. intros H. rewrite sem_isunknown, H. reflexivity. Qed.

(* Known finding (pinned by boolean_test.go): under the code's behaviour
   "(exists($missing)) is unknown" is TRUE although its operand raised the
   non-suppressible "could not find jsonpath variable"; the documented rule
   propagates the error. *)
Definition c11_env : cenv := mkcenv true JNull [] false.
Definition c11_hard : step := SUn UExists [SVar "x"].

Example C11_hard_operand L Q :
  sem_pred L c11_env Q c11_hard JNull (-1) true JNull
  = (PUnknown, Some (EExec "could not find jsonpath variable")).
Proof. reflexivity. Qed.

Theorem C11_refuted_isunknown L :
  sem_pred L c11_env quirks_code (SUn UIsUnknown [c11_hard]) JNull (-1) true JNull = (PTrue, None) /\
  sem_pred L c11_env quirks_ideal (SUn UIsUnknown [c11_hard]) JNull (-1) true JNull
  = (PUnknown, Some (EExec "could not find jsonpath variable")).
Proof. split; reflexivity. Qed.

(* non-vacuity of the error-free hypotheses: true, false and unknown operands exist *)
Example C11_operands_exist L Q :
  let c := c11_env in
  sem_pred L c Q (SUn UExists [SConst CRoot]) JNull (-1) true JNull = (PTrue, None) /\
  sem_pred L c Q (SUn UNot [SUn UExists [SConst CRoot]]) JNull (-1) true JNull = (PFalse, None) /\
  sem_pred L c Q (SBin BEq [SConst CTrue] [SInteger 1]) JNull (-1) true JNull = (PUnknown, None).
Proof. repeat split. Qed.

Print Assumptions sem_pred_wf.
Print Assumptions sem_and.
Print Assumptions sem_or.
Print Assumptions sem_not.
Print Assumptions sem_isunknown.
Print Assumptions sem_exists.
Print Assumptions C11_and_comm.
Print Assumptions C11_or_comm.
Print Assumptions C11_double_negation.
Print Assumptions C11_de_morgan_and.
Print Assumptions C11_de_morgan_or.
Print Assumptions C11_isunknown_never_unknown.
Print Assumptions C11_isunknown_true_iff.
Print Assumptions C11_exists_by_emptiness.
Print Assumptions C11_exists_unknown_only_if_fails.
Print Assumptions C11_pred_as_item.
Print Assumptions C11_pred_path_result.
Print Assumptions C11_refuted_isunknown.
