(* TotalWalk.v — one walk over [Exec.body], function by function, establishing a
   Hoare-style triple that is instantiated three times in Total.v:

     fN  fT   meaning of [W x Q]
     --  --   ----------------------------------------------------------------
     F   F    x is not OutOfFuel (it may panic); values stay within depth D
     T   F    x is neither OutOfFuel nor Panic; json.Number texts stay parseable
     T   T    as above, no datetime value, the chains are [wf_chainb], and no
              error is ErrInvalid

   The measure condition [m D q < B] is always on; results for arbitrary fuel
   are obtained in Total.v through monotonicity (Mono.v).
   Stdlib only, no axioms. *)
From Coq Require Import Floats.SpecFloat.
From SJ Require Import lib.Base model.Json model.Ast model.ExecLib model.Leaf model.Exec
  proofs.RunBasics proofs.TotalBase.
Local Open Scope nat_scope.

Section Inv.
Variable L : ExecLib.
Hypothesis HL : members_ok L.
Variables fN fT : bool.
Hypothesis HNT : fT = true -> fN = true.
Variable D : nat.

(* ---------- invariant of every value in play ---------- *)
Definition leafP (v : json) : Prop :=
  match v with
  | JNum (NJs s) => fN = true -> xl_parse_float L s <> None
  | JDt _ => fT = false
  | _ => True
  end.
Definition VI (v : json) : Prop := json_depth v <= D /\ jall leafP v.

Lemma VI_null : VI JNull. Proof. split; cbn; [lia|exact I]. Qed.
Lemma VI_bool b : VI (JBool b). Proof. split; cbn; [lia|exact I]. Qed.
Lemma VI_str x : VI (JStr x). Proof. split; cbn; [lia|exact I]. Qed.
Lemma VI_int z : VI (JNum (NInt z)). Proof. split; cbn; [lia|exact I]. Qed.
Lemma VI_flt f : VI (JNum (NFlt f)). Proof. split; cbn; [lia|exact I]. Qed.
Lemma VI_dt d : fT = false -> VI (JDt d). Proof. split; cbn; [lia|assumption]. Qed.

Lemma VI_arr t l : VI (JArr t l) -> Forall VI l.
Proof.
  intros [Hd Hj]. rewrite depth_arr in Hd. apply jall_arr in Hj. rewrite Forall_forall in *.
  intros x Hx. split; [pose proof (maxd_in _ _ Hx); lia|auto].
Qed.

Lemma VI_objv t l : VI (JObj t l) -> Forall VI (map snd l).
Proof.
  intros [Hd Hj]. rewrite depth_obj in Hd. apply jall_obj in Hj. rewrite Forall_forall in *.
  intros x Hx. split; [pose proof (maxd_in _ _ Hx); lia|auto].
Qed.

Lemma VI_lookup t l k x : VI (JObj t l) -> lookup k l = Some x -> VI x.
Proof.
  intros H Hk. apply VI_objv in H. rewrite Forall_forall in H. apply H. eapply lookup_in; eauto.
Qed.

Lemma VI_members t l : VI (JObj t l) -> Forall VI (xl_members L l).
Proof.
  intros H. apply VI_objv in H. rewrite Forall_forall in *. intros x Hx. apply H. apply HL. exact Hx.
Qed.

Lemma VI_collection v : VI v -> Forall VI (collection L v).
Proof.
  destruct v; cbn [collection]; intros H; try constructor.
  - eapply VI_arr; eauto.
  - eapply VI_members; eauto.
Qed.

Lemma ld_members t l : ld (xl_members L l) <= json_depth (JObj t l).
Proof.
  destruct (xl_members L l) as [|y r] eqn:Em; [cbn; lia|]. rewrite <- Em.
  apply ld_le; [|rewrite Em; discriminate].
  intros x Hx. apply HL in Hx. rewrite depth_obj. pose proof (maxd_in _ _ Hx). lia.
Qed.

Lemma ld_collection v : ld (collection L v) <= json_depth v.
Proof.
  destruct v; cbn [collection]; try (cbn; lia).
  - apply ld_le_arr.
  - apply ld_members.
Qed.

Lemma VI_ld_arr t l : VI (JArr t l) -> ld l <= D.
Proof. intros [H _]. pose proof (ld_le_arr t l). lia. Qed.
Lemma VI_ld_members t l : VI (JObj t l) -> ld (xl_members L l) <= D.
Proof. intros [H _]. pose proof (ld_members t l). lia. Qed.
Lemma VI_ld_collection v : VI v -> ld (collection L v) <= D.
Proof. intros [H _]. pose proof (ld_collection v). lia. Qed.

Lemma VI_kv t l tag id k :
  VI (JObj t l) ->
  VI (JObj tag [("id", JNum (NInt id)); ("key", JStr k);
                ("value", match lookup k l with Some x => x | None => JNull end)]%string).
Proof.
  intros H.
  assert (Hv: json_depth (match lookup k l with Some x => x | None => JNull end) < json_depth (JObj t l)
              /\ jall leafP (match lookup k l with Some x => x | None => JNull end)).
  { destruct (lookup k l) as [x|] eqn:Ek.
    - split; [|eapply VI_lookup; eauto].
      apply lookup_in in Ek. rewrite depth_obj. pose proof (maxd_in _ _ Ek). lia.
    - split; [rewrite depth_obj; cbn; lia|exact I]. }
  destruct Hv as [Hd Hj]. destruct H as [HD _].
  split.
  - cbn [json_depth fold_right snd]. cbn [json_depth] in *. lia.
  - cbn [jall fold_right snd]. repeat split; auto.
Qed.

(* ---------- found lists, errors, states ---------- *)
Definition FO (found : found_t) : Prop :=
  match found with Some l => Forall VI l | None => True end.

Lemma FO_nil : FO (Some []). Proof. constructor. Qed.
Lemma FO_none : FO None. Proof. exact I. Qed.
Lemma FO_one v : VI v -> FO (Some [v]). Proof. intros H. constructor; [exact H|constructor]. Qed.
Lemma FO_append found v : FO found -> VI v -> FO (fappend found v).
Proof.
  destruct found; cbn [FO fappend]; auto. intros H Hv. apply Forall_app. split; auto.
Qed.
Lemma FO_seq (f : found_t) : FO f -> Forall VI (match f with Some l => l | None => [] end).
Proof. destruct f; cbn; auto. Qed.

Lemma unwrap_fold seq : forall acc, Forall VI acc -> Forall VI seq -> Forall VI (fold_left unwrapInto seq acc).
Proof.
  induction seq as [|x r IH]; intros acc Ha Hs; cbn [fold_left]; [exact Ha|].
  inversion Hs; subst. apply IH; [|assumption].
  unfold unwrapInto. destruct x; try (apply Forall_app; split; [assumption|constructor; [assumption|constructor]]).
  apply Forall_app; split; [assumption|]. eapply VI_arr; eauto.
Qed.

Definition EO (e : err) : Prop := fT = true -> forall s, e <> EInvalid s.
Definition EOo (e : option err) : Prop := match e with Some e' => EO e' | None => True end.

Lemma EO_verbose x : EO (EVerbose x). Proof. intros _ s; discriminate. Qed.
Lemma EO_exec x : EO (EExec x). Proof. intros _ s; discriminate. Qed.
Lemma EO_cancel : EO ECancel. Proof. intros _ s; discriminate. Qed.
Lemma EO_any e : fT = false -> EO e. Proof. intros H H'; congruence. Qed.
Lemma EOo_none : EOo None. Proof. exact I. Qed.

Definition SO (s : st) : Prop := VI (cur s).

(* ---------- the triple ---------- *)
Definition W {A} (x : outcome A) (Q : A -> Prop) : Prop :=
  match x with
  | Ret a => Q a
  | Panic _ => fN = false
  | OutOfFuel => False
  end.

Lemma W_ret {A} (a : A) (Q : A -> Prop) : Q a -> W (Ret a) Q.
Proof. exact (fun H => H). Qed.

Lemma W_bind {A B} (x : outcome A) (k : A -> outcome B) (Q : A -> Prop) (R : B -> Prop) :
  W x Q -> (forall a, Q a -> W (k a) R) -> W (bindo x k) R.
Proof. destruct x; cbn [W bindo]; auto. Qed.

Lemma W_conseq {A} (x : outcome A) (Q R : A -> Prop) :
  W x Q -> (forall a, Q a -> R a) -> W x R.
Proof. destruct x; cbn [W]; auto. Qed.

Definition POSTI (x : resp * st) : Prop :=
  SO (snd x) /\ FO (r_found (fst x)) /\ EOo (r_err (fst x)).
Definition POSTB (x : presp * st) : Prop :=
  SO (snd x) /\ EOo (p_err (fst x)).
Definition POST (q : req) (x : ans * st) : Prop :=
  SO (snd x) /\
  match q, fst x with
  | RItem _ _ _ _, AItem r | RAny _ _ _ _ _ _ _ _, AItem r => FO (r_found r) /\ EOo (r_err r)
  | RBool _ _ _, ABool p => EOo (p_err p)
  | _, _ => False
  end.

(* ---------- well-formedness of the chain of a request, gated by fT ---------- *)
Definition WFI (n : chain) : Prop := fT = true -> nonempty n = true /\ wf_chainb n = true.
Definition WFA (n : chain) : Prop := fT = true -> wf_chainb n = true.
Definition WFB (n : chain) (c : bool) : Prop := fT = true -> wfb n c = true.

Definition RQ (B : nat) (q : req) : Prop :=
  m D q < B /\
  match q with
  | RItem n v found _ => VI v /\ FO found /\ WFI n
  | RAny n vs found _ _ _ _ _ => Forall VI vs /\ FO found /\ WFA n
  | RBool n v c => VI v /\ WFB n c
  end.

Lemma andb3 a b : a && b = true -> a = true /\ b = true.
Proof. apply andb_true_iff. Qed.

Ltac bools :=
  repeat match goal with
         | H : _ && _ = true |- _ => apply andb3 in H; destruct H
         | H : negb _ = true |- _ => apply negb_true_iff in H
         | H : negb _ = false |- _ => apply negb_false_iff in H
         end.

Lemma WFI_tail stp next : WFI (stp :: next) -> WFA next.
Proof. intros H HT. destruct (H HT) as [_ H2]. cbn [wf_chainb] in H2. bools. assumption. Qed.

Lemma WFA_WFI n : WFA n -> n <> [] -> WFI n.
Proof. intros H Hn HT. split; [destruct n; [congruence|reflexivity]|auto]. Qed.

Lemma WFI_WFA n : WFI n -> WFA n.
Proof. intros H HT. apply H; assumption. Qed.

Lemma WFI_head stp next : WFI (stp :: next) -> fT = true -> wf_step stp = true.
Proof. intros H HT. destruct (H HT) as [_ H2]. cbn [wf_chainb] in H2. bools. assumption. Qed.

Lemma WFB_head stp next c : WFB (stp :: next) c -> fT = true ->
  is_pred_step stp = true /\ (c = false -> next = []) /\ wf_step stp = true.
Proof.
  intros H HT. specialize (H HT). unfold wfb in H. cbn [wf_chainb] in H. bools.
  repeat split; auto. intros ->. destruct next; [reflexivity|discriminate].
Qed.

Lemma nonempty_ne a : nonempty a = true -> a <> [].
Proof. destruct a; [discriminate|discriminate]. Qed.

(* operands *)
Lemma wf_operand_chain a : fT = true -> is_pred_chain a = true -> wf_chainb a = true -> WFB a false.
Proof. intros _ H1 H2 _. apply is_pred_chain_wfb; assumption. Qed.

(* ---------- arithmetic of the measure ---------- *)
Lemma K_eq : K D = 2 * D + 6. Proof. reflexivity. Qed.

(* m-facts, stated on raw sizes so that [nia] sees small problems *)
Lemma m_next p c (u ux : bool) B :
  1 <= p -> (p + c) * K D + (if u then D + 3 else 1) < S B ->
  c * K D + (if ux then D + 3 else 1) < B.
Proof. rewrite K_eq. intros Hp H. destruct u, ux; nia. Qed.

Lemma m_any_next p c (u un : bool) l B :
  1 <= p -> l <= D -> (p + c) * K D + (if u then D + 3 else 1) < S B ->
  c * K D + (if un then D + 4 else 2) + l < B.
Proof. rewrite K_eq. intros Hp Hl H. destruct u, un; nia. Qed.

Lemma m_sub_item a p c (u ux : bool) B :
  a < p -> (p + c) * K D + (if u then D + 3 else 1) < S B ->
  a * K D + (if ux then D + 3 else 1) < B.
Proof. rewrite K_eq. intros Hp H. destruct u, ux; nia. Qed.

Lemma m_sub_bool a p c (u : bool) B :
  a < p -> (p + c) * K D + (if u then D + 3 else 1) < S B -> a * K D < B.
Proof. rewrite K_eq. intros Hp H. destruct u; nia. Qed.

Lemma m_bool_sub_item a p c (ux : bool) B :
  a < p -> (p + c) * K D < S B -> a * K D + (if ux then D + 3 else 1) < B.
Proof. rewrite K_eq. intros Hp H. destruct ux; nia. Qed.

Lemma m_bool_sub_bool a p c B :
  a < p -> (p + c) * K D < S B -> a * K D < B.
Proof. rewrite K_eq. intros Hp H. nia. Qed.

(* ---------- derivations of the request condition ---------- *)
Section Derive.
Variable B : nat.

Lemma rq_found n v f f' u : RQ B (RItem n v f u) -> FO f' -> RQ B (RItem n v f' u).
Proof. intros (Hm & Hv & _ & Hw) Hf. split; [|split; [|split]]; auto. Qed.

Lemma rq_next stp next v found u val found' ux :
  RQ (S B) (RItem (stp :: next) v found u) -> VI val -> FO found' -> next <> [] ->
  RQ B (RItem next val found' ux).
Proof.
  intros (Hm & Hv & Hf & Hw) Hval Hf' Hn. cbn [m] in *. rewrite chain_size_cons in Hm.
  split; [eapply m_next; [apply (step_size_pos stp)|exact Hm]|].
  split; [|split]; auto. apply WFA_WFI; [eapply WFI_tail; eauto|assumption].
Qed.

Lemma rq_any_next stp next v found u vs found' lv fi la ig un :
  RQ (S B) (RItem (stp :: next) v found u) -> Forall VI vs -> ld vs <= D -> FO found' ->
  RQ B (RAny next vs found' lv fi la ig un).
Proof.
  intros (Hm & Hv & Hf & Hw) Hvs Hl Hf'. cbn [m] in *. rewrite chain_size_cons in Hm.
  split; [eapply m_any_next; [apply (step_size_pos stp)|exact Hl|exact Hm]|].
  split; [|split]; auto. eapply WFI_tail; eauto.
Qed.

Lemma rq_unwrap n t es found found' lv fi la ig :
  RQ (S B) (RItem n (JArr t es) found true) -> FO found' ->
  RQ B (RAny n es found' lv fi la ig false).
Proof.
  intros (Hm & Hv & Hf & Hw) Hf'. cbn [m] in *.
  pose proof (VI_ld_arr _ _ Hv).
  split; [cbn [m]; lia|]. split; [|split]; auto; [eapply VI_arr; eauto|apply WFI_WFA; assumption].
Qed.

Lemma rq_bool_same stp next v found u :
  RQ (S B) (RItem (stp :: next) v found u) -> is_pred_step stp = true ->
  RQ B (RBool (stp :: next) v true).
Proof.
  intros (Hm & Hv & Hf & Hw) Hp. cbn [m] in *.
  split; [cbn [m]; destruct u; lia|]. split; [assumption|].
  intros HT. destruct (Hw HT) as [_ H2]. unfold wfb. rewrite Hp, H2. reflexivity.
Qed.

(* a strictly smaller chain, evaluated as an item on a value in play *)
Lemma rq_sub_item a stp next v found u v' found' ux :
  RQ (S B) (RItem (stp :: next) v found u) -> chain_size a < step_size stp ->
  WFI a -> VI v' -> FO found' -> RQ B (RItem a v' found' ux).
Proof.
  intros (Hm & Hv & Hf & Hw) Ha Hwa Hv' Hf'. cbn [m] in *. rewrite chain_size_cons in Hm.
  split; [eapply m_sub_item; [exact Ha|exact Hm]|]. split; [|split]; auto.
Qed.

Lemma rq_sub_bool a stp next v found u v' :
  RQ (S B) (RItem (stp :: next) v found u) -> chain_size a < step_size stp ->
  WFB a false -> VI v' -> RQ B (RBool a v' false).
Proof.
  intros (Hm & Hv & Hf & Hw) Ha Hwa Hv'. cbn [m] in *. rewrite chain_size_cons in Hm.
  split; [eapply m_sub_bool; [exact Ha|exact Hm]|]. split; auto.
Qed.

Lemma rq_bool_sub_item a stp next v c found' ux :
  RQ (S B) (RBool (stp :: next) v c) -> chain_size a < step_size stp ->
  WFI a -> FO found' -> RQ B (RItem a v found' ux).
Proof.
  intros (Hm & Hv & Hw) Ha Hwa Hf'. cbn [m] in *. rewrite chain_size_cons in Hm.
  split; [eapply m_bool_sub_item; [exact Ha|exact Hm]|]. split; [|split]; auto.
Qed.

Lemma rq_bool_sub_bool a stp next v c :
  RQ (S B) (RBool (stp :: next) v c) -> chain_size a < step_size stp ->
  WFB a false -> RQ B (RBool a v false).
Proof.
  intros (Hm & Hv & Hw) Ha Hwa. cbn [m] in *. rewrite chain_size_cons in Hm.
  split; [eapply m_bool_sub_bool; [exact Ha|exact Hm]|]. split; auto.
Qed.

End Derive.


(* ---------- leaf functions keep the invariant ---------- *)
Lemma W_resolve_cmp n : VI (JNum n) -> W (resolve_cmp L n) (fun _ => True).
Proof.
  intros [_ H]. cbn [jall] in H. unfold resolve_cmp. destruct n as [z|f|t]; try exact I.
  destruct (js_int64 L t); [exact I|].
  destruct (js_float64 L t) as [[f b]|] eqn:Ef; [exact I|].
  cbn [W]. unfold leafP in H. destruct fN; [exfalso; apply H; [reflexivity|exact Ef]|reflexivity].
Qed.

Lemma W_compareNumeric a b : VI (JNum a) -> VI (JNum b) -> W (compareNumeric L a b) (fun _ => True).
Proof.
  intros Ha Hb. unfold compareNumeric.
  eapply W_bind; [apply W_resolve_cmp; exact Ha|]. intros lv _.
  destruct lv.
  - eapply W_bind; [apply W_resolve_cmp; exact Hb|]. intros rv _. destruct rv; exact I.
  - destruct b as [z|f'|t]; try exact I.
    destruct Hb as [_ H]. cbn [jall] in H. unfold leafP in H.
    destruct (js_float64 L t) as [[f' b']|] eqn:Ef; [exact I|].
    cbn [W]. destruct fN; [exfalso; apply H; [reflexivity|exact Ef]|reflexivity].
Qed.

Definition CBO (cb : json -> json -> outcome (pout * option err)) : Prop :=
  forall a b, VI a -> VI b -> W (cb a b) (fun x => EOo (snd x)).

Definition is_cmp_op (op : binop) : bool :=
  match op with BEq | BNe | BLt | BGt | BLe | BGe => true | _ => false end.

Lemma applyCompare_ok op c : is_cmp_op op = true -> EOo (snd (applyCompare op c)).
Proof. destruct op; try discriminate; intros _; exact I. Qed.

Lemma VI_dt_inv d : VI (JDt d) -> fT = false.
Proof. intros [_ H]. exact H. Qed.

Lemma compareItems_ok useTZ op : is_cmp_op op = true -> CBO (compareItems L useTZ op).
Proof.
  intros Hop a b Ha Hb. unfold compareItems.
  destruct (_ || _); [apply W_ret; exact I|].
  destruct a.
  - apply W_ret. apply applyCompare_ok; assumption.
  - destruct b; apply W_ret; try exact I. apply applyCompare_ok; assumption.
  - destruct b; try (apply W_ret; exact I).
    eapply W_bind; [apply W_compareNumeric; assumption|]. intros c _. apply W_ret. apply applyCompare_ok; assumption.
  - destruct b; apply W_ret; try exact I. apply applyCompare_ok; assumption.
  - apply W_ret; exact I.
  - apply W_ret; exact I.
  - pose proof (VI_dt_inv _ Ha) as HT.
    destruct b; try (apply W_ret; cbn [snd EOo]; apply EO_any; exact HT).
    destruct (xl_dt_compare L useTZ d d0); apply W_ret; cbn [snd EOo]; try exact I; try (apply EO_any; exact HT).
    apply applyCompare_ok; assumption.
Qed.

Lemma startsWith_ok : CBO (fun a b => Ret (executeStartsWith a b)).
Proof. intros a b _ _. apply W_ret. unfold executeStartsWith. destruct a; try exact I. destruct b; exact I. Qed.

Lemma likeRegex_ok pat flags : CBO (fun x _ => Ret (executeLikeRegex L pat flags x)).
Proof. intros a b _ _. apply W_ret. unfold executeLikeRegex. destruct a; exact I. Qed.

Definition MOK (r : mathres) : Prop :=
  match r with MOk n => VI (JNum n) | MErr e => EO e end.

Definition is_math_op (op : binop) : bool := negb (is_bool_binop op).

Lemma executeIntegerMath_ok a b op : is_math_op op = true -> MOK (executeIntegerMath a b op).
Proof.
  destruct op; try discriminate; intros _; unfold executeIntegerMath;
    try (match goal with |- MOK (if ?c then _ else _) => destruct c end); cbn [MOK];
    first [apply VI_int|apply EO_verbose].
Qed.

Lemma executeFloatMath_ok a b op : is_math_op op = true -> MOK (executeFloatMath L a b op).
Proof.
  destruct op; try discriminate; intros _; unfold executeFloatMath;
    try (match goal with |- MOK (if ?c then _ else _) => destruct c end); cbn [MOK];
    first [apply VI_flt|apply EO_verbose].
Qed.

Lemma mathOperandErr_ok pos : EO (mathOperandErr pos).
Proof. apply EO_verbose. Qed.

Lemma execMathOp_ok a b op : is_math_op op = true -> MOK (execMathOp L a b op).
Proof.
  intros Hop. unfold execMathOp.
  assert (Hint: forall x, MOK (match b with
    | JNum (NInt b0) => executeIntegerMath x b0 op
    | JNum (NFlt b0) => executeFloatMath L (xl_of_Z L x) b0 op
    | JNum (NJs s) =>
        match js_int64 L s with
        | Some b0 => executeIntegerMath x b0 op
        | None => match js_float64 L s with
                  | Some (b0, false) => executeFloatMath L (xl_of_Z L x) b0 op
                  | _ => MErr (mathOperandErr "right")
                  end
        end
    | _ => MErr (mathOperandErr "right")
    end)).
  { intros x. destruct b as [| |[z|f|t]| | | |]; try apply mathOperandErr_ok.
    - apply executeIntegerMath_ok; assumption.
    - apply executeFloatMath_ok; assumption.
    - destruct (js_int64 L t); [apply executeIntegerMath_ok; assumption|].
      destruct (js_float64 L t) as [[f [|]]|]; try apply mathOperandErr_ok.
      apply executeFloatMath_ok; assumption. }
  assert (Hflt: forall x, MOK (match b with
    | JNum (NFlt b0) => executeFloatMath L x b0 op
    | JNum (NInt b0) => executeFloatMath L x (xl_of_Z L b0) op
    | JNum (NJs s) => match js_float64 L s with
                      | Some (b0, false) => executeFloatMath L x b0 op
                      | _ => MErr (mathOperandErr "right")
                      end
    | _ => MErr (mathOperandErr "right")
    end)).
  { intros x. destruct b as [| |[z|f|t]| | | |]; try apply mathOperandErr_ok.
    - apply executeFloatMath_ok; assumption.
    - apply executeFloatMath_ok; assumption.
    - destruct (js_float64 L t) as [[f [|]]|]; try apply mathOperandErr_ok.
      apply executeFloatMath_ok; assumption. }
  destruct a as [| |[z|f|t]| | | |]; try apply mathOperandErr_ok.
  - apply Hint.
  - apply Hflt.
  - destruct (js_int64 L t); [apply Hint|].
    destruct (js_float64 L t) as [[f [|]]|]; try apply mathOperandErr_ok. apply Hflt.
Qed.

Lemma castJSONNumber_ok t icb fcb n : castJSONNumber L t icb fcb = Some n -> VI (JNum n).
Proof.
  unfold castJSONNumber. destruct (js_int64 L t); [intros H; injection H as <-; apply VI_int|].
  destruct (js_float64 L t) as [[f [|]]|]; try discriminate. intros H; injection H as <-; apply VI_flt.
Qed.

Definition XOK {A} (r : A + err) : Prop := match r with inr e => EO e | inl _ => True end.

Lemma getJSONInt32_ok x : VI x -> XOK (getJSONInt32 L x).
Proof.
  intros Hx. unfold getJSONInt32.
  assert (Hc: forall z, XOK (if in_int32 z then inl z else inr (EVerbose "array subscript is out of integer range"))).
  { intros z. destruct (in_int32 z); cbn; [exact I|apply EO_verbose]. }
  assert (Hf: forall f, XOK (if f_is_inf f || f_is_nan f
                             then inr (EVerbose "NaN or Infinity is not allowed for array subscript")
                             else if in_int32 (xl_to_int64 L f) then inl (xl_to_int64 L f)
                                  else inr (EVerbose "array subscript is out of integer range"))).
  { intros f. destruct (_ || _); [apply EO_verbose|apply Hc]. }
  destruct x as [| |[z|f|t]| | | |]; try apply EO_verbose.
  - apply Hc.
  - apply Hf.
  - destruct (js_int64 L t); [apply Hc|].
    destruct (js_float64 L t) as [[f b]|] eqn:Ef; [apply Hf|].
    cbn [XOK]. intros HT s. exfalso. destruct Hx as [_ Hx]. cbn [jall leafP] in Hx.
    apply Hx; [apply HNT; exact HT|exact Ef].
Qed.

Definition LOK (r : leaf) : Prop := match r with LItem x => VI x | LErr e => EO e end.
Definition LEAFOK (lf : json -> leaf) : Prop := forall v, VI v -> LOK (lf v).

Ltac leaf_fin := cbn [LOK]; first [apply VI_int|apply VI_flt|apply VI_str|apply VI_bool|apply EO_verbose|apply EO_exec].

Lemma leaf_type_ok : LEAFOK leaf_type.
Proof. intros v _. apply VI_str. Qed.

Lemma leaf_size_ok lx ig : LEAFOK (leaf_size lx ig).
Proof. intros v _. unfold leaf_size. destruct v; try (destruct (_ && _)); leaf_fin. Qed.

Lemma leaf_double_ok : LEAFOK (leaf_double L).
Proof.
  intros v _. unfold leaf_double.
  assert (Hf: forall d, LOK (if nan_or_inf d then LErr (EVerbose "NaN or Infinity is not allowed for .double()")
                             else LItem (JNum (NFlt d)))).
  { intros d. destruct (nan_or_inf d); leaf_fin. }
  destruct v as [| |[z|f|t]|t| | |]; try leaf_fin; try apply Hf.
  - destruct (js_float64 L t) as [[f [|]]|]; try leaf_fin; apply Hf.
  - destruct (xl_parse_float L t) as [[f [|]]|]; try leaf_fin; apply Hf.
Qed.

Lemma leaf_integer_ok : LEAFOK (leaf_integer L).
Proof.
  intros v _. unfold leaf_integer.
  assert (Hf: forall z, LOK (if in_int32 z then LItem (JNum (NInt z))
                             else LErr (EVerbose ".integer(): invalid for type integer"))).
  { intros z. destruct (in_int32 z); leaf_fin. }
  destruct v as [| |[z|f|t]|t| | |]; try leaf_fin; try apply Hf.
  - destruct (js_int64 L t); [apply Hf|].
    destruct (js_float64 L t) as [[f [|]]|]; try leaf_fin; apply Hf.
  - destruct (xl_parse_int L 10 32 t); [apply Hf|leaf_fin].
Qed.

Lemma leaf_bigint_ok : LEAFOK (leaf_bigint L).
Proof.
  intros v _. unfold leaf_bigint.
  assert (Hf: forall f, LOK (if bigint_out_of_range f then LErr (EVerbose ".bigint(): invalid for type bigint")
                             else LItem (JNum (NInt (xl_to_int64 L (xl_round L f)))))).
  { intros f. destruct (bigint_out_of_range f); leaf_fin. }
  destruct v as [| |[z|f|t]|t| | |]; try leaf_fin; try apply Hf.
  - destruct (js_int64 L t); [leaf_fin|].
    destruct (js_float64 L t) as [[f [|]]|]; try leaf_fin; apply Hf.
  - destruct (xl_parse_int L 10 64 t); leaf_fin.
Qed.

Lemma leaf_string_ok : LEAFOK (leaf_string L).
Proof. intros v _. unfold leaf_string. destruct v as [| |[z|f|t]|t| | |]; leaf_fin. Qed.

Lemma leaf_boolean_ok : LEAFOK (leaf_boolean L).
Proof.
  intros v _. unfold leaf_boolean.
  assert (Hf: forall f, LOK (if negb (f_eqb f (xl_trunc L f)) then LErr (EVerbose ".boolean(): invalid for type boolean")
                             else LItem (JBool (negb (f_eqb f (S754_zero false)))))).
  { intros f. destruct (negb _); leaf_fin. }
  destruct v as [| |[z|f|t]|t| | |]; try leaf_fin; try apply Hf.
  - destruct (js_float64 L t) as [[f [|]]|]; try leaf_fin; apply Hf.
  - destruct (execBooleanString t); leaf_fin.
Qed.

Lemma executeDecimalMethod_ok p sc num : XOK (executeDecimalMethod L p sc num).
Proof.
  unfold executeDecimalMethod, getNodeInt32.
  destruct p as [pz|]; [|exact I].
  destruct (in_int32 pz); [|apply EO_verbose].
  destruct (_ || _); [apply EO_exec|].
  destruct sc as [sz|].
  - destruct (in_int32 sz); [|apply EO_verbose].
    destruct (_ || _); [apply EO_exec|].
    destruct (_ && _); [apply EO_verbose|exact I].
  - destruct (_ && _); [apply EO_verbose|exact I].
Qed.

Lemma leaf_number_ok dec : LEAFOK (leaf_number L dec).
Proof.
  intros v _. unfold leaf_number.
  assert (Hf: forall num, LOK (if nan_or_inf num then LErr (EVerbose "NaN or Infinity is not allowed for .number()")
      else match dec with
           | None => LItem (JNum (NFlt num))
           | Some (p, sc) => match executeDecimalMethod L p sc num with
                             | inr e => LErr e
                             | inl num' => LItem (JNum (NFlt num'))
                             end
           end)).
  { intros num. destruct (nan_or_inf num); [leaf_fin|]. destruct dec as [[p sc]|]; [|leaf_fin].
    pose proof (executeDecimalMethod_ok p sc num) as H.
    destruct (executeDecimalMethod L p sc num); [leaf_fin|exact H]. }
  destruct v as [| |[z|f|t]|t| | |]; try leaf_fin; try apply Hf.
  - destruct (js_float64 L t) as [[f [|]]|]; try leaf_fin; apply Hf.
  - destruct (xl_parse_float L t) as [[f [|]]|]; try leaf_fin; apply Hf.
Qed.

Lemma leaf_numeric_ok icb fcb : LEAFOK (leaf_numeric L icb fcb).
Proof.
  intros v _. unfold leaf_numeric. destruct v as [| |[z|f|t]|t| | |]; try leaf_fin.
  destruct (castJSONNumber L t icb fcb) eqn:Ec; [|leaf_fin].
  cbn [LOK]. eapply castJSONNumber_ok; eauto.
Qed.

Lemma method_leaf_ok lx ig mt uw lf : method_leaf L lx ig mt = Some (uw, lf) -> LEAFOK lf.
Proof.
  destruct mt; cbn [method_leaf]; intros H; try discriminate; injection H as <- <-.
  - apply leaf_numeric_ok.
  - apply leaf_size_ok.
  - apply leaf_type_ok.
  - apply leaf_numeric_ok.
  - apply leaf_numeric_ok.
  - apply leaf_double_ok.
  - apply leaf_bigint_ok.
  - apply leaf_boolean_ok.
  - apply leaf_integer_ok.
  - apply leaf_number_ok.
  - apply leaf_string_ok.
Qed.

(* datetime methods create JDt values and may answer ErrInvalid: only when fT is off *)
Lemma leaf_datetime_ok useTZ op tmpl prec : fT = false -> LEAFOK (leaf_datetime L useTZ op tmpl prec).
Proof.
  intros HT v _. unfold leaf_datetime. cbv zeta.
  repeat match goal with |- LOK (match ?x with _ => _ end) => destruct x end;
    cbn [LOK]; first [apply VI_dt; exact HT|apply EO_any; exact HT].
Qed.


(* ====================================================================== *)
(* The walk over [body].                                                   *)
Section Body.
Variable E : env.
Variable self : req -> st -> outcome (ans * st).
Variable B : nat.
Hypothesis HEroot : VI (e_root E).
Hypothesis HEvars : Forall VI (map snd (e_vars E)).
Hypothesis Hself : forall q s, RQ B q -> SO s -> W (self q s) (POST q).

Definition POSTL (x : resp * bool * st) : Prop :=
  SO (snd x) /\ FO (r_found (fst (fst x))) /\ EOo (r_err (fst (fst x))).

Local Hint Resolve VI_null VI_bool VI_str VI_int VI_flt FO_nil FO_none FO_one FO_append
  EO_verbose EO_exec EO_cancel EOo_none I : w.

Ltac so :=
  repeat match goal with |- context [if ?c then _ else _] => destruct c end;
  unfold SO;
  cbn [cur set_cur set_ign set_verbose set_base set_last_size set_last_id set_next_tag tick];
  match goal with
  | H : SO ?s0 |- _ => exact H
  | H : VI ?v |- VI ?v => exact H
  end.

Ltac post :=
  apply W_ret; unfold POSTI, POSTB, POSTL;
  cbn [fst snd r_st r_err r_found p_out p_err EOo];
  split; [so|first [split; [|cbn [EOo]]; auto with w|auto with w]].

Ltac after_bind := cbv beta iota; cbn [fst snd] in *.

Lemma callItem_w n v found u s :
  RQ B (RItem n v found u) -> SO s -> W (callItem self n v found u s) POSTI.
Proof.
  intros Hq Hs. unfold callItem. eapply W_bind; [apply Hself; eassumption|].
  intros [a s1] [H1 H2]. after_bind. destruct a; [|contradiction].
  apply W_ret. split; assumption.
Qed.

Lemma callAny_w n vs found lv fi la ig un s :
  RQ B (RAny n vs found lv fi la ig un) -> SO s -> W (callAny self n vs found lv fi la ig un s) POSTI.
Proof.
  intros Hq Hs. unfold callAny. eapply W_bind; [apply Hself; eassumption|].
  intros [a s1] [H1 H2]. after_bind. destruct a; [|contradiction].
  apply W_ret. split; assumption.
Qed.

Lemma callBool_w n v c s :
  RQ B (RBool n v c) -> SO s -> W (callBool self n v c s) POSTB.
Proof.
  intros Hq Hs. unfold callBool. eapply W_bind; [apply Hself; eassumption|].
  intros [a s1] [H1 H2]. after_bind. destruct a; [contradiction|].
  apply W_ret. split; assumption.
Qed.

Lemma returnVerboseError_w e found s : EO e -> FO found -> SO s -> W (returnVerboseError e found s) POSTI.
Proof. intros He Hf Hs. unfold returnVerboseError. destruct (verbose s); post. Qed.

Lemma returnError_w e found s : EO e -> FO found -> SO s -> W (returnError e found s) POSTI.
Proof. intros He Hf Hs. unfold returnError. destruct (_ || _); post. Qed.

Lemma executeItem_w n v found s :
  RQ B (RItem n v found (lax E)) -> SO s -> W (executeItem E self n v found s) POSTI.
Proof. intros. unfold executeItem. apply callItem_w; assumption. Qed.

(* the context of all the node functions: the request being served *)
Section Node.
Variables (stp : step) (next : chain) (v0 : json) (found0 : found_t) (u0 : bool).
Hypothesis Hq : RQ (S B) (RItem (stp :: next) v0 found0 u0).

Lemma next_w val found s :
  VI val -> FO found -> SO s -> W (executeNextItem E self next val found s) POSTI.
Proof.
  intros Hv Hf Hs. unfold executeNextItem. destruct next as [|x nx] eqn:En.
  - post.
  - apply executeItem_w; [|assumption].
    eapply rq_next; [exact Hq|assumption|assumption|discriminate].
Qed.

Lemma appendBoolResult_w found p s :
  FO found -> EOo (p_err p) -> SO s -> W (appendBoolResult E self next found p s) POSTI.
Proof.
  intros Hf Hp Hs. unfold appendBoolResult. destruct (p_err p); [post|].
  destruct (_ && _); [post|]. apply next_w; auto. destruct (p_out p); auto with w.
Qed.
End Node.

Lemma eiour_w n v unwrap found s :
  RQ B (RItem n v found (lax E)) -> SO s ->
  W (executeItemOptUnwrapResult E self n v unwrap found s) POSTI.
Proof.
  intros Hq Hs. pose proof Hq as (_ & _ & Hf & _). unfold executeItemOptUnwrapResult.
  destruct (unwrap && lax E).
  - eapply W_bind; [apply executeItem_w; [eapply rq_found; [exact Hq|apply FO_nil]|exact Hs]|].
    intros [r s1] (H1 & H2 & H3). after_bind. destruct (st_failed (r_st r)).
    + post.
    + post. destruct found; cbn [option_map FO]; [|exact I].
      apply unwrap_fold; [assumption|apply FO_seq; assumption].
  - apply executeItem_w; assumption.
Qed.

Lemma eiours_w n v unwrap found s :
  RQ B (RItem n v found (lax E)) -> SO s ->
  W (executeItemOptUnwrapResultSilent E self n v unwrap found s) POSTI.
Proof.
  intros Hq Hs. unfold executeItemOptUnwrapResultSilent.
  eapply W_bind; [apply eiour_w; [exact Hq|so]|].
  intros [r s1] (H1 & H2 & H3). after_bind. post.
Qed.

Lemma pairs_inner_w cb l rs : CBO cb -> VI l -> Forall VI rs -> forall hasErr fnd,
  W (pairs_inner E cb l rs hasErr fnd)
    (fun x => match fst (fst x) with Some p => EOo (p_err p) | None => True end).
Proof.
  intros Hcb Hl Hrs. induction Hrs as [|r rs Hr Hrs IH]; intros hasErr fnd; cbn [pairs_inner].
  - apply W_ret. exact I.
  - eapply W_bind; [apply Hcb; assumption|]. intros [res e] He. after_bind.
    destruct e as [e'|]; [apply W_ret; exact He|].
    destruct res; repeat match goal with |- W (if ?c then _ else _) _ => destruct c end;
      first [apply IH|apply W_ret; exact I].
Qed.

Lemma pairs_outer_w cb ls rs : CBO cb -> Forall VI ls -> Forall VI rs -> forall hasErr fnd,
  W (pairs_outer E cb ls rs hasErr fnd) (fun p => EOo (p_err p)).
Proof.
  intros Hcb Hls Hrs. induction Hls as [|l ls Hl Hls IH]; intros hasErr fnd; cbn [pairs_outer].
  - apply W_ret. destruct fnd; [|destruct hasErr]; exact I.
  - eapply W_bind; [apply pairs_inner_w; assumption|].
    intros [[early hasErr'] fnd'] He. after_bind.
    destruct early; [apply W_ret; exact He|apply IH].
Qed.

Lemma executePredicate_w left right v ur cb s :
  RQ B (RItem left v (Some []) (lax E)) ->
  match right with Some rn => RQ B (RItem rn v (Some []) (lax E)) | None => True end ->
  CBO cb -> SO s -> W (executePredicate E self left right v ur cb s) POSTB.
Proof.
  intros Hl Hr Hcb Hs. unfold executePredicate.
  eapply W_bind; [apply eiours_w; eassumption|]. intros [rl s1] (H1 & H2 & H3). after_bind.
  destruct (st_failed (r_st rl)); [post|].
  eapply W_bind with (Q := POSTI).
  - destruct right as [rn|]; [apply eiours_w; assumption|]. post.
  - intros [rr s2] (H4 & H5 & H6). after_bind. destruct (st_failed (r_st rr)); [post|].
    eapply W_bind; [apply pairs_outer_w; [assumption|apply FO_seq; assumption|apply FO_seq; assumption]|].
    intros p Hp. after_bind. post.
Qed.

Lemma EO_absurd e : (fT = true -> False) -> EO e.
Proof. intros H HT. contradiction (H HT). Qed.

Lemma WFI_mk a : (fT = true -> nonempty a = true /\ wf_chainb a = true) -> WFI a.
Proof. exact (fun H => H). Qed.

Section BoolNode.
Variables (stp : step) (next : chain) (v : json) (c : bool).
Hypothesis Hq : RQ (S B) (RBool (stp :: next) v c).

Lemma bool_sub_bool a s :
  chain_size a < step_size stp ->
  (fT = true -> wf_step stp = true -> is_pred_chain a = true /\ wf_chainb a = true) ->
  SO s -> W (callBool self a v false s) POSTB.
Proof.
  intros Ha Hw Hs. apply callBool_w; [|assumption].
  eapply rq_bool_sub_bool; eauto. intros HT.
  destruct Hq as (_ & _ & Hwq). destruct (WFB_head _ _ _ Hwq HT) as (_ & _ & H3).
  destruct (Hw HT H3). apply is_pred_chain_wfb; assumption.
Qed.

Lemma bool_sub_item_rq a found ux :
  chain_size a < step_size stp ->
  (fT = true -> wf_step stp = true -> nonempty a = true /\ wf_chainb a = true) ->
  FO found -> RQ B (RItem a v found ux).
Proof.
  intros Ha Hw Hf. eapply rq_bool_sub_item; eauto. intros HT.
  destruct Hq as (_ & _ & Hwq). destruct (WFB_head _ _ _ Hwq HT) as (_ & _ & H3). auto.
Qed.

Lemma bool_not_pred e : is_pred_step stp = false -> EO e.
Proof.
  intros Hp. apply EO_absurd. intros HT. destruct Hq as (_ & _ & Hwq).
  destruct (WFB_head _ _ _ Hwq HT) as (H1 & _). congruence.
Qed.
End BoolNode.

Lemma executeBinaryBoolItem_w op l r next v c s :
  RQ (S B) (RBool (SBin op l r :: next) v c) -> SO s ->
  W (executeBinaryBoolItem L E self op l r v s) POSTB.
Proof.
  intros Hq Hs.
  assert (Hl: chain_size l < step_size (SBin op l r)) by (rewrite step_size_bin; lia).
  assert (Hr: chain_size r < step_size (SBin op l r)) by (rewrite step_size_bin; lia).
  assert (Hlog: op = BAnd \/ op = BOr -> forall s', SO s' ->
            W (callBool self l v false s') POSTB /\ W (callBool self r v false s') POSTB).
  { intros Hop s' Hs'. split; eapply bool_sub_bool; eauto; intros HT Hw; rewrite wf_step_bin in Hw;
      destruct Hop as [-> | ->]; bools; auto. }
  assert (Hcmp: op <> BAnd -> op <> BOr ->
            RQ B (RItem l v (Some []) (lax E)) /\ RQ B (RItem r v (Some []) (lax E))).
  { intros H1 H2. split; eapply bool_sub_item_rq; eauto using FO_nil; intros HT Hw; rewrite wf_step_bin in Hw;
      destruct op; try congruence; bools; auto. }
  unfold executeBinaryBoolItem.
  destruct op;
    try (apply W_ret; split; [exact Hs|]; eapply bool_not_pred; [exact Hq|reflexivity]);
    try (destruct Hcmp as [Hcl Hcr]; [discriminate|discriminate|];
         apply executePredicate_w; auto using startsWith_ok; apply compareItems_ok; reflexivity).
  - (* BAnd *)
    eapply W_bind; [apply Hlog; auto|]. intros [p1 s1] (H1 & H2). after_bind.
    destruct (_ || _); [post|].
    eapply W_bind; [apply Hlog; auto|]. intros [p2 s2] (H3 & H4). after_bind.
    destruct (p_out p2); post.
  - (* BOr *)
    eapply W_bind; [apply Hlog; auto|]. intros [p1 s1] (H1 & H2). after_bind.
    destruct (_ || _); [post|].
    eapply W_bind; [apply Hlog; auto|]. intros [p2 s2] (H3 & H4). after_bind.
    destruct (p_out p2); post.
Qed.

Lemma executeUnaryBoolItem_w op a next v c s :
  RQ (S B) (RBool (SUn op a :: next) v c) -> SO s ->
  W (executeUnaryBoolItem E self op a v s) POSTB.
Proof.
  intros Hq Hs.
  assert (Ha: chain_size a < step_size (SUn op a)) by (rewrite step_size_un; lia).
  assert (Hlog: op = UNot \/ op = UIsUnknown -> W (callBool self a v false s) POSTB).
  { intros Hop. eapply bool_sub_bool; eauto; intros HT Hw; rewrite wf_step_un in Hw;
      destruct Hop as [-> | ->]; bools; auto. }
  assert (Hex: forall found, op = UExists -> FO found -> RQ B (RItem a v found (lax E))).
  { intros found -> Hf. eapply bool_sub_item_rq; eauto; intros HT Hw; rewrite wf_step_un in Hw; bools; auto. }
  unfold executeUnaryBoolItem.
  destruct op;
    try (apply W_ret; split; [exact Hs|]; eapply bool_not_pred; [exact Hq|reflexivity]).
  - (* UExists *)
    destruct (strict E).
    + eapply W_bind; [apply eiours_w; [apply Hex; auto with w|exact Hs]|].
      intros [r s1] (H1 & H2 & H3). after_bind.
      destruct (st_failed (r_st r)); [post|]. destruct (r_found r) as [[|x l]|]; post.
    + eapply W_bind; [apply eiours_w; [apply Hex; auto with w|exact Hs]|].
      intros [r s1] (H1 & H2 & H3). after_bind. destruct (r_st r); post.
  - (* UNot *)
    eapply W_bind; [apply Hlog; auto|]. intros [p s1] (H1 & H2). after_bind.
    destruct (p_out p); post.
  - (* UIsUnknown *)
    eapply W_bind; [apply Hlog; auto|]. intros [p s1] (H1 & H2). after_bind.
    destruct (_ && _); post.
Qed.

Lemma executeBoolItem_w n v c s :
  RQ (S B) (RBool n v c) -> SO s -> W (executeBoolItem L E self n v c s) POSTB.
Proof.
  intros Hq Hs. unfold executeBoolItem. destruct n as [|stp next].
  - apply W_ret. split; [exact Hs|]. apply EO_absurd. intros HT.
    destruct Hq as (_ & _ & Hw). specialize (Hw HT). discriminate Hw.
  - destruct (negb c && negb (cnil next)) eqn:Ec.
    + apply W_ret. split; [exact Hs|]. apply EO_absurd. intros HT.
      destruct Hq as (_ & _ & Hw). destruct (WFB_head _ _ _ Hw HT) as (_ & H2 & _).
      bools. rewrite (H2 H) in H0. discriminate.
    + destruct stp;
        try (apply W_ret; split; [exact Hs|]; eapply bool_not_pred; [exact Hq|reflexivity]).
      * eapply executeBinaryBoolItem_w; eauto.
      * eapply executeUnaryBoolItem_w; eauto.
      * apply executePredicate_w; auto using likeRegex_ok.
        eapply bool_sub_item_rq; [exact Hq|rewrite step_size_regex; lia| |apply FO_nil].
        intros HT Hw. rewrite wf_step_regex in Hw. bools. auto.
Qed.

Lemma executeNestedBoolItem_w n v s :
  RQ B (RBool n v false) -> SO s -> W (executeNestedBoolItem self n v s) POSTB.
Proof.
  intros Hq Hs. unfold executeNestedBoolItem. pose proof Hq as (_ & Hv & _).
  eapply W_bind; [apply callBool_w; [exact Hq|so]|].
  intros [p s1] (H1 & H2). after_bind. post.
Qed.

(* ---------- executeAnyItem ---------- *)
Lemma anyLoop_w n lv fi la ig (un : bool) : WFA n ->
  forall vs, Forall VI vs -> chain_size n * K D + (if un then D + 4 else 2) + ld vs <= B ->
  forall res dirty s, FO (r_found res) -> EOo (r_err res) -> SO s ->
  W (anyLoop L self n vs lv fi la ig un res dirty s) POSTL.
Proof.
  intros Hw vs Hvs. induction Hvs as [|v rest Hv Hrest IH]; intros Hm res dirty s Hf He Hs; cbn [anyLoop].
  - post.
  - pose proof (ld_cons_tail v rest) as Ht. pose proof (ld_cons_head v rest) as Hh.
    eapply W_bind with
      (Q := fun x => SO (snd x) /\ FO (r_found (fst (fst (fst x)))) /\ EOo (r_err (fst (fst (fst x))))).
    + destruct (_ || _).
      * destruct n as [|x n'] eqn:En.
        -- destruct (r_found res) eqn:Ef; apply W_ret; cbn [fst snd r_found r_err];
             (split; [exact Hs|split; auto with w]).
        -- rewrite <- En in *. eapply W_bind.
           ++ apply callItem_w.
              ** split; [cbn [m]; destruct un; lia|]. split; [exact Hv|split; [exact Hf|]].
                 apply WFA_WFI; [exact Hw|rewrite En; discriminate].
              ** destruct ig; so.
           ++ intros [r1 s1] (H1 & H2 & H3). after_bind. post.
      * post.
    + intros [[[r1 dirty1] stop1] s1] (H1 & H2 & H3). after_bind.
      destruct stop1; [post|].
      eapply W_bind with
        (Q := fun x => SO (snd x) /\ FO (r_found (fst (fst x))) /\ EOo (r_err (fst (fst x)))).
      * destruct (lv <? la)%Z; [|post].
        eapply W_bind.
        -- apply callAny_w; [|exact H1].
           pose proof (ld_collection v).
           split; [cbn [m]; destruct un; lia|].
           split; [apply VI_collection; exact Hv|split; [exact H2|exact Hw]].
        -- intros [r2 s2] (H4 & H5 & H6). after_bind. post.
      * intros [[r2 stop2] s2] (H4 & H5 & H6). after_bind.
        destruct stop2; [post|]. apply IH; auto. lia.
Qed.

Lemma executeAnyItem_w n vs found lv fi la ig un s :
  RQ (S B) (RAny n vs found lv fi la ig un) -> SO s ->
  W (executeAnyItem L self n vs found lv fi la ig un s) POSTI.
Proof.
  intros (Hm & Hvs & Hf & Hw) Hs. unfold executeAnyItem. cbn [m] in Hm.
  destruct (lv >? la)%Z; [post|].
  eapply W_bind; [apply anyLoop_w; auto with w; lia|].
  intros [[res dirty] s1] (H1 & H2 & H3). after_bind.
  destruct (_ && _); post.
Qed.

Lemma eiuta_w n v found s :
  RQ (S B) (RItem n v found true) -> is_array v = true -> SO s ->
  W (executeItemUnwrapTargetArray self n v found s) POSTI.
Proof.
  intros Hq Ha Hs. destruct v; try discriminate. cbn [executeItemUnwrapTargetArray].
  apply callAny_w; [|exact Hs]. pose proof Hq as (_ & _ & Hf & _). eapply rq_unwrap; eauto.
Qed.

(* ---------- node functions ---------- *)
(* In this part every lemma is about serving the request
   [RItem (stp :: next) v found u]; CTX abbreviates that hypothesis. *)
Notation CTX stp next v found u := (RQ (S B) (RItem (stp :: next) v found u)).

Lemma ctx_v stp next v found u : CTX stp next v found u -> VI v.
Proof. intros (_ & H & _). exact H. Qed.
Lemma ctx_f stp next v found u : CTX stp next v found u -> FO found.
Proof. intros (_ & _ & H & _). exact H. Qed.
Lemma ctx_w stp next v found u : CTX stp next v found u -> WFI (stp :: next).
Proof. intros (_ & _ & _ & H). exact H. Qed.

Ltac ctx Hq := pose proof (ctx_v _ _ _ _ _ Hq) as Hv; pose proof (ctx_f _ _ _ _ _ Hq) as Hf.

Lemma unwrap_w stp next v found u s : CTX stp next v found u ->
  u = true -> is_array v = true -> SO s ->
  W (executeItemUnwrapTargetArray self (stp :: next) v found s) POSTI.
Proof. intros Hq -> Ha Hs. apply eiuta_w; assumption. Qed.

Lemma execLiteral_w stp next v found u val s : CTX stp next v found u ->
  VI val -> SO s -> W (execLiteral E self next val found s) POSTI.
Proof.
  intros Hq Hval Hs. ctx Hq. unfold execLiteral. destruct (_ && _); [post|].
  eapply next_w; [exact Hq|exact Hval|exact Hf|exact Hs].
Qed.

Lemma execVariable_w stp next v found u name s : CTX stp next v found u ->
  SO s -> W (execVariable E self name next found s) POSTI.
Proof.
  intros Hq Hs. ctx Hq. unfold execVariable. destruct (lookup name (e_vars E)) as [val|] eqn:El; [|post].
  eapply W_bind.
  - eapply next_w; [exact Hq| |exact Hf|so]. apply lookup_in in El. rewrite Forall_forall in HEvars. auto.
  - intros [r s1] (H1 & H2 & H3). after_bind. post.
Qed.

Lemma structural_w found e s : FO found -> SO s ->
  W (if negb (ign s) then returnVerboseError (EVerbose e) found s else Ret (mkr SNotFound None found, s)) POSTI.
Proof. intros Hf Hs. destruct (negb (ign s)); [apply returnVerboseError_w; auto with w|post]. Qed.

Lemma execKeyNode_w stp next v found u key s : CTX stp next v found u ->
  SO s -> W (execKeyNode E self key (stp :: next) next v found u s) POSTI.
Proof.
  intros Hq Hs. ctx Hq. unfold execKeyNode. cbv zeta.
  destruct v as [| | | |t es|t l|]; try (apply structural_w; assumption).
  - destruct u; [|apply structural_w; assumption].
    apply callAny_w; [|exact Hs]. eapply rq_unwrap; eauto.
  - destruct (lookup key l) as [val|] eqn:El.
    + eapply next_w; [exact Hq| |exact Hf|exact Hs]. eapply VI_lookup; eauto.
    + destruct (negb (ign s)); [|post].
      destruct (negb (verbose s)); post.
Qed.

Lemma execAnyKey_w stp next v found u s : CTX stp next v found u ->
  SO s -> W (execAnyKey L E self (stp :: next) next v found u s) POSTI.
Proof.
  intros Hq Hs. ctx Hq. unfold execAnyKey. cbv zeta.
  destruct v as [| | | |t es|t l|]; try (apply structural_w; assumption).
  - destruct u; [|apply structural_w; assumption].
    apply eiuta_w; auto.
  - apply callAny_w; [|exact Hs].
    eapply rq_any_next; [exact Hq|eapply VI_members; eauto|eapply VI_ld_members; eauto|exact Hf].
Qed.

Lemma execAnyArray_w stp next v found u s : CTX stp next v found u ->
  SO s -> W (execAnyArray E self next v found s) POSTI.
Proof.
  intros Hq Hs. ctx Hq. unfold execAnyArray.
  assert (Hother: W (if lax E then executeNextItem E self next v found s
                     else if negb (ign s)
                          then returnVerboseError (EVerbose "jsonpath wildcard array accessor can only be applied to an array") found s
                          else Ret (mkr SNotFound None found, s)) POSTI).
  { destruct (lax E); [eapply next_w; [exact Hq|exact Hv|exact Hf|exact Hs]|apply structural_w; assumption]. }
  destruct v as [| | | |t es|t l|]; try exact Hother.
  apply callAny_w; [|exact Hs].
  eapply rq_any_next; [exact Hq|eapply VI_arr; eauto|eapply VI_ld_arr; eauto|exact Hf].
Qed.

Lemma execLastConst_w stp next v found u s : CTX stp next v found u ->
  SO s -> W (execLastConst E self next found s) POSTI.
Proof.
  intros Hq Hs. ctx Hq. unfold execLastConst. destruct (_ <? _)%Z; [post|].
  destruct (_ && _); [post|]. eapply next_w; [exact Hq|apply VI_int|exact Hf|exact Hs].
Qed.

Lemma execConstNode_w stp next v found u k s : CTX stp next v found u ->
  SO s -> W (execConstNode L E self k (stp :: next) next v found u s) POSTI.
Proof.
  intros Hq Hs. ctx Hq. unfold execConstNode. destruct k.
  - eapply W_bind; [eapply next_w; [exact Hq|exact HEroot|exact Hf|so]|].
    intros [r s1] (H1 & H2 & H3). after_bind. post.
  - eapply next_w; [exact Hq|exact Hs|exact Hf|exact Hs].
  - eapply execLastConst_w; eauto.
  - eapply execAnyArray_w; eauto.
  - eapply execAnyKey_w; eauto.
  - eapply execLiteral_w; eauto with w.
  - eapply execLiteral_w; eauto with w.
  - eapply execLiteral_w; eauto with w.
Qed.

Lemma execAnyNode_w stp next v found u fi la s : CTX stp next v found u ->
  SO s -> W (execAnyNode L E self fi la next v found s) POSTI.
Proof.
  intros Hq Hs. ctx Hq. unfold execAnyNode. cbv zeta.
  eapply W_bind with
    (Q := fun x => SO (snd x) /\ FO (r_found (fst (fst x))) /\ EOo (r_err (fst (fst x)))).
  - destruct (fi =? 0)%Z; [|post].
    eapply W_bind; [eapply next_w; [exact Hq|exact Hv|exact Hf|so]|].
    intros [r0 s1] (H1 & H2 & H3). after_bind. post.
  - intros [[r0 stop] s1] (H1 & H2 & H3). after_bind.
    destruct stop; [post|].
    assert (Hcoll: W (do (r, s2) <- callAny self next (collection L v) (r_found r0) 1 fi la true (lax E) s1;
                      Ret (r, if (fi =? 0)%Z then set_ign s2 (ign s) else s2)) POSTI).
    { eapply W_bind.
      - apply callAny_w; [|exact H1].
        eapply rq_any_next; [exact Hq|apply VI_collection; exact Hv|apply VI_ld_collection; exact Hv|exact H2].
      - intros [r s2] (H4 & H5 & H6). after_bind. post. }
    destruct v; try exact Hcoll; post.
Qed.

(* ---------- array subscripts ---------- *)
Definition POSTX {A} (x : (A + err) * st) : Prop := SO (snd x) /\ XOK (fst x).

Lemma getArrayIndex_w n val s :
  RQ B (RItem n val (Some []) (lax E)) -> SO s -> W (getArrayIndex L E self n val s) POSTX.
Proof.
  intros Hqn Hs. unfold getArrayIndex.
  eapply W_bind; [apply executeItem_w; eassumption|]. intros [r s1] (H1 & H2 & H3). after_bind.
  destruct (st_failed (r_st r)).
  - destruct (r_err r); apply W_ret; (split; [exact H1|]); cbn [fst XOK]; auto with w.
  - destruct (r_found r) as [[|x [|y l]]|]; apply W_ret; (split; [exact H1|]); cbn [fst XOK]; auto with w.
    apply getJSONInt32_ok. inversion H2; assumption.
Qed.

Lemma execSubscript_w sub val size s :
  RQ B (RItem (fst sub) val (Some []) (lax E)) ->
  match snd sub with Some rn => RQ B (RItem rn val (Some []) (lax E)) | None => True end ->
  SO s -> W (execSubscript L E self sub val size s) POSTX.
Proof.
  intros H1 H2 Hs. unfold execSubscript.
  eapply W_bind; [apply getArrayIndex_w; eassumption|]. intros [fr s1] (H3 & H4). after_bind.
  destruct fr as [indexFrom|e]; [|apply W_ret; split; assumption].
  eapply W_bind with (Q := POSTX).
  - destruct (snd sub); [apply getArrayIndex_w; assumption|apply W_ret; split; [assumption|exact I]].
  - intros [tr s2] (H5 & H6). after_bind.
    destruct tr as [indexTo|e]; [|apply W_ret; split; assumption].
    destruct (_ && _); apply W_ret; (split; [assumption|]); cbn [fst XOK]; auto with w.
Qed.

Lemma indexLoop_w stp next v found u els : CTX stp next v found u ->
  Forall VI els -> forall res s,
  FO (r_found res) -> EOo (r_err res) -> SO s -> W (indexLoop E self next els res s) POSTL.
Proof.
  intros Hq Hels. induction Hels as [|x rest Hx Hrest IH]; intros res s Hfr He Hs; cbn [indexLoop].
  - post.
  - assert (Hstep: W (if cnil next && fnil (r_found res) then Ret (mkr SOK None (r_found res), true, s)
                      else do (r, s1) <- executeNextItem E self next x (r_found res) s;
                           if exit_now r (r_found res) then Ret (r, true, s1)
                           else indexLoop E self next rest r s1) POSTL).
    { destruct (_ && _); [post|].
      eapply W_bind; [eapply next_w; [exact Hq|exact Hx|exact Hfr|exact Hs]|].
      intros [r s1] (H1 & H2 & H3). after_bind.
      destruct (exit_now r (r_found res)); [post|apply IH; assumption]. }
    destruct x; try exact Hstep. apply IH; assumption.
Qed.

Lemma firstn_in {A} (x : A) : forall n l, In x (firstn n l) -> In x l.
Proof. induction n as [|n IH]; intros [|y l]; cbn [firstn In]; try tauto. intros [->|H]; auto. Qed.
Lemma skipn_in {A} (x : A) : forall n l, In x (skipn n l) -> In x l.
Proof. induction n as [|n IH]; intros [|y l]; cbn [skipn In]; try tauto. intros H; auto. Qed.

Lemma slice_in arr from to x : In x (slice arr from to) -> In x arr.
Proof.
  unfold slice. destruct (to <? from)%Z; [intros []|].
  intros H. apply firstn_in in H. eapply skipn_in; eauto.
Qed.

Lemma subs_size_in sub subs : In sub subs ->
  chain_size (fst sub) + match snd sub with Some c => chain_size c | None => O end < subs_size subs.
Proof.
  induction subs as [|x r IH]; [intros []|]. intros [->|H]; rewrite subs_size_cons; [lia|].
  specialize (IH H). lia.
Qed.

Lemma subsLoop_w subs0 next v found u arr size : CTX (SIndex subs0) next v found u ->
  Forall VI arr ->
  forall subs, incl subs subs0 -> forall res s,
  FO (r_found res) -> EOo (r_err res) -> SO s ->
  W (subsLoop L E self subs next v arr size res s) POSTI.
Proof.
  intros Hq Harr subs. ctx Hq.
  induction subs as [|sub rest IH]; intros Hin res s Hfr He Hs; cbn [subsLoop].
  - post.
  - assert (Hsub: In sub subs0) by (apply Hin; left; reflexivity).
    assert (Hwf: fT = true -> wf_sub sub = true).
    { intros HT. pose proof (WFI_head _ _ (ctx_w _ _ _ _ _ Hq) HT) as H.
      rewrite wf_step_index in H. rewrite forallb_forall in H. auto. }
    pose proof (subs_size_in _ _ Hsub) as Hsz.
    destruct sub as [sa sb]. unfold wf_sub in Hwf. cbn [fst snd] in *.
    eapply W_bind.
    + apply execSubscript_w; cbn [fst snd]; [| |exact Hs].
      * eapply rq_sub_item; [exact Hq| | |exact Hv|apply FO_nil].
        -- rewrite step_size_index. lia.
        -- intros HT. specialize (Hwf HT). bools. auto.
      * destruct sb as [rn|]; [|exact I].
        eapply rq_sub_item; [exact Hq| | |exact Hv|apply FO_nil].
        -- rewrite step_size_index. lia.
        -- intros HT. specialize (Hwf HT). bools. auto.
    + intros [b s1] (H1 & H2). after_bind. destruct b as [[from to]|e].
      * eapply W_bind.
        -- eapply indexLoop_w; [exact Hq| |exact Hfr|exact He|exact H1].
           rewrite Forall_forall in *. intros x Hx. apply Harr. eapply slice_in; eauto.
        -- intros [[r stop] s2] (H3 & H4 & H5). after_bind. destruct stop; [post|].
           apply IH; auto. intros y Hy. apply Hin. right. exact Hy.
      * apply returnError_w; auto.
Qed.

Lemma execArrayIndex_w subs next v found u s : CTX (SIndex subs) next v found u ->
  SO s -> W (execArrayIndex L E self subs next v found s) POSTI.
Proof.
  intros Hq Hs. ctx Hq. unfold execArrayIndex. cbv zeta.
  assert (Hgo: forall arr, Forall VI arr ->
     W (do (r, s1) <- subsLoop L E self subs next v arr (Z.of_nat (List.length arr))
                               (mkr SNotFound None found) (set_last_size s (Z.of_nat (List.length arr)));
        Ret (r, set_last_size s1 (last_size s))) POSTI).
  { intros arr Harr. eapply W_bind.
    - eapply subsLoop_w; [exact Hq|exact Harr|apply incl_refl|exact Hf|exact I|so].
    - intros [r s1] (H1 & H2 & H3). after_bind. post. }
  assert (Hother: W (if lax E then
      do (r, s1) <- subsLoop L E self subs next v [v] (Z.of_nat (List.length [v]))
                               (mkr SNotFound None found) (set_last_size s (Z.of_nat (List.length [v])));
      Ret (r, set_last_size s1 (last_size s))
    else returnVerboseError (EVerbose "jsonpath array accessor can only be applied to an array") found s) POSTI).
  { destruct (lax E); [apply Hgo; constructor; auto|apply returnVerboseError_w; auto with w]. }
  destruct v as [| | | |t es|t l|] eqn:Ev; try exact Hother.
  apply Hgo. eapply VI_arr; eauto.
Qed.

(* ---------- arithmetic ---------- *)
Lemma unaryLoop_w stp next v found u minus seq : CTX stp next v found u ->
  Forall VI seq -> forall fnd res s,
  FO fnd -> SO s -> W (unaryLoop L E self minus next seq fnd res s) POSTI.
Proof.
  intros Hq Hseq. induction Hseq as [|x rest Hx Hrest IH]; intros fnd res s Hfd Hs; cbn [unaryLoop].
  - post.
  - cbv zeta.
    assert (Hstep: forall val, VI val ->
      W (do (r, s1) <- executeNextItem E self next val fnd s;
         if st_failed (r_st r) then Ret (r, s1)
         else if st_ok (r_st r) then
                if fnil fnd then Ret (mkr SOK None (r_found r), s1)
                else unaryLoop L E self minus next rest (r_found r) SOK s1
              else unaryLoop L E self minus next rest (r_found r) res s1) POSTI).
    { intros val Hval. eapply W_bind; [eapply next_w; [exact Hq|exact Hval|exact Hfd|exact Hs]|].
      intros [r s1] (H1 & H2 & H3). after_bind.
      destruct (st_failed (r_st r)); [post|].
      destruct (st_ok (r_st r)); [destruct (fnil fnd); [post|]|]; apply IH; assumption. }
    assert (Herr: forall e, W (returnVerboseError (EVerbose e) fnd s) POSTI).
    { intros e. apply returnVerboseError_w; auto with w. }
    destruct x as [| |[z|f|t]| | | |];
      try (destruct (fnil fnd && cnil next); [apply Hstep; assumption|apply Herr]);
      try (destruct (fnil fnd && cnil next); [post|apply Hstep; auto with w]).
    destruct (fnil fnd && cnil next); [post|].
    destruct (castJSONNumber L t _ _) eqn:Ec; [|apply Herr].
    apply Hstep. eapply castJSONNumber_ok; eauto.
Qed.

Lemma sub_item_rq stp next v found u a fnd : CTX stp next v found u ->
  chain_size a < step_size stp ->
  (fT = true -> wf_step stp = true -> nonempty a = true /\ wf_chainb a = true) ->
  FO fnd -> RQ B (RItem a v fnd (lax E)).
Proof.
  intros Hq Ha Hw Hfd. ctx Hq. eapply rq_sub_item; eauto. intros HT.
  pose proof (WFI_head _ _ (ctx_w _ _ _ _ _ Hq) HT). auto.
Qed.

Lemma execUnaryMathExpr_w op a next v found u minus s : CTX (SUn op a) next v found u ->
  op = UPlus \/ op = UMinus -> SO s ->
  W (execUnaryMathExpr L E self minus a next v found s) POSTI.
Proof.
  intros Hq Hop Hs. ctx Hq. unfold execUnaryMathExpr.
  eapply W_bind.
  - apply eiour_w; [|exact Hs]. eapply sub_item_rq; [exact Hq| | |apply FO_nil].
    + rewrite step_size_un. lia.
    + intros HT Hw. rewrite wf_step_un in Hw. destruct Hop as [-> | ->]; bools; auto.
  - intros [r s1] (H1 & H2 & H3). after_bind.
    destruct (st_failed (r_st r)); [post|].
    eapply unaryLoop_w; [exact Hq|apply FO_seq; assumption|exact Hf|exact H1].
Qed.

Lemma execBinaryMathExpr_w op l r next v found u s : CTX (SBin op l r) next v found u ->
  is_math_op op = true -> SO s ->
  W (execBinaryMathExpr L E self op l r next v found s) POSTI.
Proof.
  intros Hq Hop Hs. ctx Hq. unfold execBinaryMathExpr.
  assert (Hrq: RQ B (RItem l v (Some []) (lax E)) /\ RQ B (RItem r v (Some []) (lax E))).
  { split; (eapply sub_item_rq; [exact Hq|rewrite step_size_bin; lia| |apply FO_nil]);
      intros HT Hw; rewrite wf_step_bin in Hw; destruct op; try discriminate; bools; auto. }
  destruct Hrq as [Hl Hr].
  assert (Herr: forall pos s', SO s' -> W (returnVerboseError (mathOperandErr pos) found s') POSTI).
  { intros pos s' Hs'. apply returnVerboseError_w; auto. apply mathOperandErr_ok. }
  eapply W_bind; [apply eiour_w; eassumption|].
  intros [rl s1] (H1 & H2 & H3). after_bind.
  destruct (st_failed (r_st rl)); [post|].
  destruct (r_found rl) as [[|lv [|y ys]]|] eqn:Efl; try (apply Herr; exact H1).
  eapply W_bind; [apply eiour_w; eassumption|].
  intros [rr s2] (H4 & H5 & H6). after_bind.
  destruct (st_failed (r_st rr)); [post|].
  destruct (r_found rr) as [[|rv [|y ys]]|] eqn:Efr; try (apply Herr; exact H4).
  pose proof (execMathOp_ok lv rv op Hop) as Hm.
  destruct (execMathOp L lv rv op) as [val|e]; cbn [MOK] in Hm.
  - destruct (_ && _); [post|]. eapply next_w; [exact Hq|exact Hm|exact Hf|exact H4].
  - apply returnVerboseError_w; auto.
Qed.

(* ---------- item methods ---------- *)
Lemma execLeaf_w stp next v found u uw lf s : CTX stp next v found u ->
  LEAFOK lf -> SO s ->
  W (execLeaf E self uw lf (stp :: next) next v found u s) POSTI.
Proof.
  intros Hq Hlf Hs. ctx Hq. unfold execLeaf. destruct (uw && u && is_array v) eqn:Ec.
  - bools. eapply unwrap_w; eauto.
  - pose proof (Hlf v Hv) as H. destruct (lf v); cbn [LOK] in H.
    + eapply next_w; [exact Hq|exact H|exact Hf|exact Hs].
    + apply returnError_w; auto.
Qed.

Lemma kvLoop_w stp next t members found u id keys : CTX stp next (JObj t members) found u ->
  forall res s,
  FO (r_found res) -> SO s -> W (kvLoop E self keys members id next res s) POSTI.
Proof.
  intros Hq. ctx Hq. induction keys as [|k rest IH]; intros res s Hfr Hs; cbn [kvLoop].
  - post.
  - cbv zeta. eapply W_bind.
    + eapply next_w; [exact Hq| |exact Hfr|so]. eapply VI_kv. exact Hv.
    + intros [r s1] (H1 & H2 & H3). after_bind.
      destruct (st_failed (r_st r)); [post|]. destruct (_ && _); [post|]. apply IH; assumption.
Qed.

Lemma executeKeyValueMethod_w stp next v found u s : CTX stp next v found u ->
  SO s -> W (executeKeyValueMethod E self (stp :: next) next v found u s) POSTI.
Proof.
  intros Hq Hs. ctx Hq. unfold executeKeyValueMethod. cbv zeta.
  assert (Hbad: W (returnVerboseError (EVerbose ".keyvalue() can only be applied to an object") found s) POSTI).
  { apply returnVerboseError_w; auto with w. }
  destruct v as [| | | |t es|t l|]; try exact Hbad.
  - destruct u; [|exact Hbad]. apply eiuta_w; auto.
  - destruct l as [|kv l'] eqn:El; [post|]. destruct (_ && _); [post|]. rewrite <- El in *.
    eapply W_bind; [eapply kvLoop_w; [exact Hq|exact Hf|exact Hs]|].
    intros [r s1] (H1 & H2 & H3). after_bind. post.
Qed.

Lemma execMethodNode_w stp next v found u mt s : CTX stp next v found u ->
  SO s -> W (execMethodNode L E self mt (stp :: next) next v found u s) POSTI.
Proof.
  intros Hq Hs. unfold execMethodNode.
  destruct (method_leaf L (lax E) (ign s) mt) as [[uw lf]|] eqn:Em.
  - eapply execLeaf_w; [exact Hq| |exact Hs]. eapply method_leaf_ok; eauto.
  - eapply executeKeyValueMethod_w; eauto.
Qed.

(* ---------- dispatch ---------- *)
Lemma execBoolNode_w stp next v found u s : CTX stp next v found u ->
  is_pred_step stp = true -> SO s ->
  W (execBoolNode E self (stp :: next) next v found s) POSTI.
Proof.
  intros Hq Hp Hs. ctx Hq. unfold execBoolNode.
  eapply W_bind; [apply callBool_w; [eapply rq_bool_same; eauto|exact Hs]|].
  intros [p s1] (H1 & H2). after_bind. eapply appendBoolResult_w; eauto.
Qed.

Lemma execBinaryNode_w op l r next v found u s : CTX (SBin op l r) next v found u ->
  SO s -> W (execBinaryNode L E self op l r (SBin op l r :: next) next v found s) POSTI.
Proof.
  intros Hq Hs. unfold execBinaryNode. destruct (is_bool_binop op) eqn:Eb.
  - eapply execBoolNode_w; [exact Hq|exact Eb|exact Hs].
  - eapply execBinaryMathExpr_w; eauto. unfold is_math_op. rewrite Eb. reflexivity.
Qed.

Lemma execUnaryNode_w op a next v found u s : CTX (SUn op a) next v found u ->
  SO s -> W (execUnaryNode L E self op a (SUn op a :: next) next v found u s) POSTI.
Proof.
  intros Hq Hs. ctx Hq. unfold execUnaryNode. destruct op.
  - eapply execBoolNode_w; [exact Hq|reflexivity|exact Hs].
  - eapply execBoolNode_w; [exact Hq|reflexivity|exact Hs].
  - eapply execBoolNode_w; [exact Hq|reflexivity|exact Hs].
  - eapply execUnaryMathExpr_w; eauto.
  - eapply execUnaryMathExpr_w; eauto.
  - destruct (u && is_array v) eqn:Ec.
    + bools. eapply unwrap_w; eauto.
    + eapply W_bind.
      * apply executeNestedBoolItem_w; [|exact Hs].
        eapply rq_sub_bool; [exact Hq| | |exact Hv].
        -- rewrite step_size_un. lia.
        -- intros HT. pose proof (WFI_head _ _ (ctx_w _ _ _ _ _ Hq) HT) as H.
           rewrite wf_step_un in H. bools. apply is_pred_chain_wfb; assumption.
      * intros [p s1] (H1 & H2). after_bind.
        destruct (p_err p); [post|]. destruct (p_out p); try post.
        eapply next_w; [exact Hq|exact Hv|exact Hf|exact H1].
Qed.


Lemma executeItemOptUnwrapTarget_w n v found u s :
  RQ (S B) (RItem n v found u) -> SO s ->
  W (executeItemOptUnwrapTarget L E self n v found u s) POSTI.
Proof.
  intros Hq Hs. unfold executeItemOptUnwrapTarget. cbv zeta.
  pose proof Hq as (_ & Hv & Hf & Hw).
  destruct (done_now E s); [post|].
  assert (Hs': SO (tick s)) by so.
  destruct n as [|stp next].
  - apply W_ret. split; [exact Hs'|split; [exact Hf|]]. apply EO_absurd. intros HT.
    destruct (Hw HT) as [H _]. discriminate H.
  - destruct stp.
    + eapply execConstNode_w; [exact Hq|exact Hs'].
    + eapply execLiteral_w; [exact Hq|apply VI_str|exact Hs'].
    + eapply execLiteral_w; [exact Hq|apply VI_int|exact Hs'].
    + eapply execLiteral_w; [exact Hq|apply VI_flt|exact Hs'].
    + eapply execVariable_w; [exact Hq|exact Hs'].
    + eapply execKeyNode_w; [exact Hq|exact Hs'].
    + eapply execBinaryNode_w; [exact Hq|exact Hs'].
    + eapply execUnaryNode_w; [exact Hq|exact Hs'].
    + eapply execBoolNode_w; [exact Hq|reflexivity|exact Hs'].
    + eapply execMethodNode_w; [exact Hq|exact Hs'].
    + eapply execLeaf_w; [exact Hq|apply leaf_number_ok|exact Hs'].
    + eapply execLeaf_w; [exact Hq| |exact Hs']. apply leaf_datetime_ok.
      apply not_true_is_false. intros HT. pose proof (WFI_head _ _ Hw HT) as H. discriminate H.
    + eapply execAnyNode_w; [exact Hq|exact Hs'].
    + eapply execArrayIndex_w; [exact Hq|exact Hs'].
Qed.

Theorem body_w q s : RQ (S B) q -> SO s -> W (body L E self q s) (POST q).
Proof.
  intros Hq Hs. unfold body. destruct q.
  - eapply W_bind; [apply executeItemOptUnwrapTarget_w; eassumption|].
    intros [x s'] (H1 & H2 & H3). after_bind. apply W_ret. split; [exact H1|split; assumption].
  - eapply W_bind; [apply executeAnyItem_w; eassumption|].
    intros [x s'] (H1 & H2 & H3). after_bind. apply W_ret. split; [exact H1|split; assumption].
  - eapply W_bind; [apply executeBoolItem_w; eassumption|].
    intros [x s'] (H1 & H2). after_bind. apply W_ret. split; assumption.
Qed.

End Body.

Theorem run_w E : VI (e_root E) -> Forall VI (map snd (e_vars E)) ->
  forall fuel q s, RQ fuel q -> SO s -> W (run L E fuel q s) (POST q).
Proof.
  intros H1 H2. induction fuel as [|k IH]; intros q s Hq Hs.
  - destruct Hq as [Hm _]. lia.
  - rewrite run_S. apply (body_w E (run L E k) k); auto.
Qed.

End Inv.
