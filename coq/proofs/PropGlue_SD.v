(* PropGlue_SD.v — the few corollaries props/C14.v and props/C15.v cite that
   combine a lemma of proofs/SubscriptProofs.v or proofs/DescendProofs.v with
   the refinement theorem proofs/RefineClosed.v [query_is_trace] (transfer of
   the statement about the specification S to the executor model M), and a
   few vm_compute witnesses.  Stdlib only, no axioms. *)
From Coq Require Import Floats.SpecFloat String List.
From SJ Require Import lib.Base lib.F64 model.Json model.Ast model.ExecLib model.Leaf model.Exec
     spec.Sem spec.Proj proofs.SemBasics proofs.RefineDefs proofs.Refine proofs.RefineClosed
     proofs.RefineWitness proofs.SubscriptProofs proofs.DescendProofs.
Import ListNotations.

(* ---------- C14 ---------- *)

(* the only failure of a selection is the out-of-bounds error *)
Lemma select_one_err_is_oob ig skip es from to e :
  select_one ig skip es from to = inr e -> e = EVerbose "jsonpath array subscript is out of bounds".
Proof.
  unfold select_one. destruct (negb ig && oob _ from to); intros H; [now injection H as <- | discriminate H].
Qed.

(* the trace of the path $[subs] *)
Lemma sem_of_root_index (L : ExecLib) Q (p : path) (doc : json) (o : opts) subs bounds es :
  p_root p = [SConst CRoot; SIndex subs] ->
  index_target (mkcenv (p_lax p) doc (o_vars o) (o_useTZ o)) doc = Some es ->
  Forall2 (sub_evals L (mkcenv (p_lax p) doc (o_vars o) (o_useTZ o)) Q doc
             (Z.of_nat (List.length es)) (p_lax p) doc) subs bounds ->
  sem_of L Q p doc o = select_trace (p_lax p) (q_skip_null Q) es bounds.
Proof.
  intros Hr Ht Hb. unfold sem_of. rewrite Hr, sem_path_eq, SemBasics.sem_chain_cons, sem_step_root. cbv beta. rewrite SemBasics.sem_chain_cons.
  cbn [c_root]. unfold laxm at 1 2. cbn [c_lax].
  rewrite (subscript_general _ _ _ subs bounds es) by assumption. apply tbind_trace_tone_r.
Qed.

(* C14 on the model: Query of $[subs] is the projection of the position-wise
   selection (with the code's treatment of null elements, KF-C14-null-subscript) *)
Theorem C14_query_model (L : ExecLib) (p : path) (doc : json) (o : opts) subs bounds es :
  o_cancel_at o = None -> members_canon L ->
  p_root p = [SConst CRoot; SIndex subs] ->
  no_kv (p_root p) = true -> exists_ok (p_root p) = true -> ne_ops (p_root p) = true ->
  index_target (mkcenv (p_lax p) doc (o_vars o) (o_useTZ o)) doc = Some es ->
  Forall2 (sub_evals L (mkcenv (p_lax p) doc (o_vars o) (o_useTZ o)) quirks_code doc
             (Z.of_nat (List.length es)) (p_lax p) doc) subs bounds ->
  forall fuel q, Query L fuel p doc o = Ret q ->
  qres_sim q (p_query (o_silent o) (select_trace (p_lax p) true es bounds)).
Proof.
  intros Hnc Hmc Hr Hkv Hex Hno Ht Hb fuel q H.
  assert (Hne : p_root p <> []) by (rewrite Hr; discriminate).
  pose proof (query_is_trace L p doc o Hnc Hmc Hne Hkv Hex Hno fuel q H) as S.
  now rewrite (sem_of_root_index L quirks_code p doc o subs bounds es Hr Ht Hb) in S.
Qed.

(* the side conditions hold for every list of literal / last-relative subscripts *)
Lemma forms_side ss :
  no_kv [SConst CRoot; SIndex (map sub_chain ss)] = true /\
  exists_ok [SConst CRoot; SIndex (map sub_chain ss)] = true /\
  ne_ops [SConst CRoot; SIndex (map sub_chain ss)] = true.
Proof.
  assert (A : forall P, P = nokv1 \/ P = exok1 \/ P = ne1 -> all_subs P (map sub_chain ss) = true).
  { intros P HP. induction ss as [|[a [b|]] r IH]; [reflexivity|..]; cbn [map all_subs]; rewrite IH, andb_true_r;
      destruct HP as [->|[->| ->]]; destruct a; try destruct b; reflexivity. }
  assert (B : forallb ne_sub (map sub_chain ss) = true).
  { clear A. induction ss as [|[a [b|]] r IH]; [reflexivity|..]; cbn [map forallb]; rewrite IH, andb_true_r;
      destruct a; try destruct b; reflexivity. }
  unfold no_kv, exists_ok, ne_ops. rewrite !all_chain_cons, !all_steps_eq. cbn [all_chain nokv1 exok1 ne1 andb].
  rewrite !A, B by auto. repeat split; reflexivity.
Qed.

Theorem C14_query_model_forms (L : ExecLib) (p : path) (doc : json) (o : opts) ss bounds es :
  to_int64_law L -> o_cancel_at o = None -> members_canon L ->
  p_root p = [SConst CRoot; SIndex (map sub_chain ss)] ->
  index_target (mkcenv (p_lax p) doc (o_vars o) (o_useTZ o)) doc = Some es ->
  subs_val (Z.of_nat (List.length es)) ss = Some bounds ->
  forall fuel q, Query L fuel p doc o = Ret q ->
  qres_sim q (p_query (o_silent o) (select_trace (p_lax p) true es bounds)).
Proof.
  intros Hlaw Hnc Hmc Hr Ht Hv. destruct (forms_side ss) as [Hkv [Hex Hno]].
  apply (C14_query_model L p doc o (map sub_chain ss) bounds es); rewrite ?Hr; auto.
  apply subs_val_evals; [exact Hlaw | lia | exact Hv].
Qed.

(* the model on the witness of KF-C14-null-subscript: strict $[0] on [null, 1] *)
Example C14_null_model :
  Query L0 10 (mkpath false false [SConst CRoot; SIndex [([SInteger 0], None)]])
        (JArr 0 [JNull; JNum (NInt 1)]) (o0 false) = Ret (QItems []) /\
  p_query false (sem_of L0 quirks_ideal (mkpath false false [SConst CRoot; SIndex [([SInteger 0], None)]])
                        (JArr 0 [JNull; JNum (NInt 1)]) (o0 false)) = QItems [JNull].
Proof. vm_compute. split; reflexivity. Qed.

(* ---------- C15 ---------- *)

Lemma sem_of_root_any (L : ExecLib) Q (p : path) (doc : json) (o : opts) a b :
  p_root p = [SConst CRoot; SAny a b] ->
  0 <= a -> 0 <= b -> ~ (a = max_uint32 /\ b = max_uint32) ->
  sem_of L Q p doc o = (nodes_at_depth a b doc, None).
Proof.
  intros Hr Ha Hb Hn. unfold sem_of. rewrite Hr, sem_path_eq, SemBasics.sem_chain_cons, sem_step_root. cbv beta.
  cbn [c_root]. rewrite any_chain by assumption. apply tbind_tone.
Qed.

(* C15 on the model: Query of $.**{a to b} returns the nodes at depth a..b, in
   either mode, with or without WithSilent *)
Theorem C15_query_model (L : ExecLib) (p : path) (doc : json) (o : opts) a b :
  o_cancel_at o = None -> members_canon L ->
  p_root p = [SConst CRoot; SAny a b] ->
  0 <= a -> 0 <= b -> ~ (a = max_uint32 /\ b = max_uint32) ->
  forall fuel q, Query L fuel p doc o = Ret q -> q = QItems (nodes_at_depth a b doc).
Proof.
  intros Hnc Hmc Hr Ha Hb Hn fuel q H.
  assert (S : qres_sim q (p_query (o_silent o) (sem_of L quirks_code p doc o)))
    by (apply (query_is_trace L p doc o Hnc Hmc) with (fuel := fuel); rewrite ?Hr; [discriminate | reflexivity .. | exact H]).
  rewrite (sem_of_root_any L quirks_code p doc o a b Hr Ha Hb Hn) in S.
  destruct q as [l|e]; [cbn in S; now subst l | contradiction S].
Qed.

(* .**{last} treats empty arrays and empty objects alike (repaired finding fb184ca):
   neither is a leaf *)
Example leaves_empty_collections :
  leaves_below (JArr 0 [JArr 1 []; JObj 2 []; JNull; JArr 3 [JStr "x"]]) = [JNull; JStr "x"] /\
  sem_step dummyL (mkcenv false JNull [] false) quirks_code (SAny max_uint32 max_uint32) (fun _ _ x => tone x)
           JNull (-1) false false (JArr 0 [JArr 1 []; JObj 2 []; JNull; JArr 3 [JStr "x"]])
  = ([JNull; JStr "x"], None).
Proof. vm_compute. split; reflexivity. Qed.

Print Assumptions select_one_err_is_oob.
Print Assumptions C14_query_model.
Print Assumptions C14_query_model_forms.
Print Assumptions C14_null_model.
Print Assumptions C15_query_model.
Print Assumptions leaves_empty_collections.
