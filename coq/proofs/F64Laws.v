(* F64Laws.v — facts about the executable float64/strconv model (lib/F64.v,
   lib/Strconv.v) needed to show that the concrete library satisfies NumLaws.
   Pure integer reasoning on Coq's SpecFloat definitions: no reals, no axioms.

   I.   Zfast_div_eucl = Z.div_eucl
   II.  binary_round_aux does not see appended zero bits
   III. the decimal conversion of an integer text (f64_of_dec m 0) is the
        integer conversion (binary_round m 0), for every m < 2^64
   IV.  that conversion is finite
   V.   ParseInt(s,10,64) = z  implies  ParseFloat(s,64) = float64(z)
        (except that a negative zero text gives -0) *)
From Coq Require Import ZArith Bool List Lia ZifyBool String Ascii.
From Coq Require Import Floats.SpecFloat.
From SJ Require Import lib.Base lib.F64 lib.Strconv.
Local Open Scope Z_scope.

(* ---- Part I: Zfast_div_eucl is Z.div_eucl ---- *)
Lemma shiftr_step a i : 0 <= i ->
  Z.shiftr a i = 2 * Z.shiftr a (i + 1) + (if Z.testbit a i then 1 else 0).
Proof.
  intros Hi.
  replace (Z.shiftr a (i + 1)) with (Z.shiftr (Z.shiftr a i) 1) by (rewrite Z.shiftr_shiftr by lia; reflexivity).
  rewrite (Z.shiftr_div_pow2 (Z.shiftr a i) 1) by lia. change (2 ^ 1) with 2.
  assert (Hb : Z.testbit a i = Z.odd (Z.shiftr a i)).
  { rewrite <- Z.bit0_odd, Z.shiftr_spec by lia. reflexivity. }
  rewrite Hb. set (x := Z.shiftr a i).
  rewrite (Z.div_mod x 2) at 1 by lia. rewrite Zmod_odd. reflexivity.
Qed.

Lemma fde_loop_spec a b : 0 < b ->
  forall fuel i q r, i = Z.of_nat fuel - 1 ->
    Z.shiftr a (i + 1) = q * b + r -> 0 <= r < b ->
    let '(q', r') := fde_loop fuel i a b q r in a = q' * b + r' /\ 0 <= r' < b.
Proof.
  intros Hb. induction fuel as [|f IH]; intros i q r Hi Hinv Hr.
  - cbn [fde_loop]. replace (i + 1) with 0 in Hinv by lia. rewrite Z.shiftr_0_r in Hinv. auto.
  - cbn [fde_loop].
    assert (Hi0 : 0 <= i) by lia.
    pose proof (shiftr_step a i Hi0) as Hs. rewrite Hinv in Hs.
    set (bit := if Z.testbit a i then 1 else 0) in *.
    assert (Hbit : 0 <= bit <= 1) by (subst bit; destruct (Z.testbit a i); lia).
    destruct (b <=? 2 * r + bit) eqn:E.
    + apply IH; [lia| |lia]. replace (i - 1 + 1) with i by lia. rewrite Hs. ring.
    + apply IH; [lia| |lia]. replace (i - 1 + 1) with i by lia. rewrite Hs. ring.
Qed.

Lemma div_eucl_unique a b q r : 0 < b -> a = q * b + r -> 0 <= r < b -> Z.div_eucl a b = (q, r).
Proof.
  intros Hb Ha Hr.
  assert (Hq : a / b = q) by (symmetry; apply (Z.div_unique a b q r); [left; exact Hr|lia]).
  assert (Hm : a mod b = r) by (symmetry; apply (Z.mod_unique a b q r); [left; exact Hr|lia]).
  unfold Z.div, Z.modulo in Hq, Hm. destruct (Z.div_eucl a b) as [q0 r0]. cbn in *. congruence.
Qed.

Theorem Zfast_div_eucl_correct a b : Zfast_div_eucl a b = Z.div_eucl a b.
Proof.
  unfold Zfast_div_eucl.
  destruct ((a <=? 0) || (b <=? 0)) eqn:E0; [reflexivity|].
  assert (Ha : 0 < a) by lia. assert (Hb : 0 < b) by lia.
  set (s := Z.log2 a - Z.log2 b + 1).
  destruct (s <=? 0) eqn:E1.
  - symmetry. apply div_eucl_unique; [exact Hb|lia|].
    split; [lia|].
    pose proof (Z.log2_spec a Ha) as [_ Hua]. pose proof (Z.log2_spec b Hb) as [Hlb _].
    assert (Z.log2 a + 1 <= Z.log2 b) by lia.
    assert (2 ^ (Z.succ (Z.log2 a)) <= 2 ^ Z.log2 b) by (apply Z.pow_le_mono_r; lia). lia.
  - destruct (160 <? s); [reflexivity|].
    assert (Hs : 0 < s) by lia.
    assert (Hr0 : 0 <= Z.shiftr a s < b).
    { split; [apply Z.shiftr_nonneg; lia|].
      rewrite Z.shiftr_div_pow2 by lia.
      pose proof (Z.log2_spec a Ha) as [_ Hua]. pose proof (Z.log2_spec b Hb) as [Hlb _].
      apply Z.div_lt_upper_bound; [apply Z.pow_pos_nonneg; lia|].
      assert (Hp : 2 ^ Z.succ (Z.log2 a) = 2 ^ s * 2 ^ Z.log2 b).
      { rewrite <- Z.pow_add_r by (subst s; pose proof (Z.log2_nonneg b); lia). f_equal. subst s. lia. }
      assert (0 < 2 ^ s) by (apply Z.pow_pos_nonneg; lia).
      nia. }
    assert (Hi : s - 1 = Z.of_nat (Z.to_nat s) - 1) by (rewrite Z2Nat.id by lia; reflexivity).
    assert (Hinv : Z.shiftr a (s - 1 + 1) = 0 * b + Z.shiftr a s) by (replace (s - 1 + 1) with s by lia; ring).
    pose proof (fde_loop_spec a b Hb (Z.to_nat s) (s - 1) 0 (Z.shiftr a s) Hi Hinv Hr0) as H.
    destruct (fde_loop (Z.to_nat s) (s - 1) a b 0 (Z.shiftr a s)) as [q' r'].
    destruct H as [H1 H2]. symmetry. apply div_eucl_unique; assumption.
Qed.


(* ---- canonical inputs of binary_round_aux; left shifts ---- *)
Lemma binary_round_aux_canonical s m e :
  Zpos (digits2_pos m) = 53 -> -1074 <= e <= 971 ->
  binary_round_aux 53 1024 s (Zpos m) e loc_Exact = S754_finite s m e.
Proof.
  intros Hd He. unfold binary_round_aux, shr_fexp. cbn [Zdigits2]. rewrite Hd.
  assert (E : fexp 53 1024 (53 + e) - e = 0) by (unfold fexp, emin; lia).
  rewrite E. cbn [shr shr_record_of_loc shr_m loc_of_shr_record round_nearest_even Zdigits2].
  rewrite Hd, E. cbn [shr shr_m].
  replace (Zle_bool e (1024 - 53)) with true; [reflexivity|].
  symmetry. apply Zle_imp_le_bool. lia.
Qed.

Lemma digits2_shift_pos k p :
  Zpos (digits2_pos (shift_pos k p)) = Zpos (digits2_pos p) + Zpos k.
Proof.
  unfold shift_pos. induction k as [|k IH] using Pos.peano_ind.
  - cbn. lia.
  - rewrite Pos.iter_succ. cbn [digits2_pos]. lia.
Qed.

Lemma shift_pos_pow k p : Zpos (shift_pos k p) = Zpos p * 2 ^ Zpos k.
Proof. rewrite shift_pos_correct. rewrite Zpower_pos_correct || idtac. unfold Z.pow. lia. Qed.

(* ---- Part II: shifting out zero bits; shift-invariance of binary_round_aux ---- *)
Lemma iter_pos_Pos_iter {A} (f : A -> A) p x : @SpecFloat.iter_pos A f p x = Pos.iter f x p.
Proof.
  revert x. induction p as [p IH|p IH|]; intros x; cbn [SpecFloat.iter_pos Pos.iter].
  - rewrite !IH. rewrite <- !Pos.iter_swap. reflexivity.
  - rewrite !IH. reflexivity.
  - reflexivity.
Qed.

Definition rec0 (m : Z) : shr_record := {| shr_m := m; shr_r := false; shr_s := false |}.

Lemma iter_shr_zero_bits j x : Pos.iter shr_1 (rec0 (Zpos (shift_pos j x))) j = rec0 (Zpos x).
Proof.
  unfold shift_pos. induction j as [|j IH] using Pos.peano_ind.
  - reflexivity.
  - rewrite (Pos.iter_succ j _ xO), (Pos.iter_succ_r j _ shr_1). cbn [shr_1 rec0 orb]. exact IH.
Qed.

Lemma shift_pos_add a b x : shift_pos (a + b) x = shift_pos a (shift_pos b x).
Proof. unfold shift_pos. apply Pos.iter_add. Qed.

(* one call of shr by a positive amount *)
Lemma shr_pos mrs e p : shr mrs e (Zpos p) = (Pos.iter shr_1 mrs p, e + Zpos p).
Proof. cbn [shr]. rewrite iter_pos_Pos_iter. reflexivity. Qed.

(* the first rounding step sees the same thing whether or not j zero bits were appended *)
Lemma shr_fexp_shift j x e :
  0 <= fexp 53 1024 (Zpos (digits2_pos x) + e) - e ->
  shr_fexp 53 1024 (Zpos (shift_pos j x)) (e - Zpos j) loc_Exact = shr_fexp 53 1024 (Zpos x) e loc_Exact.
Proof.
  intros Hn. unfold shr_fexp. cbn [Zdigits2]. rewrite digits2_shift_pos.
  replace (Zpos (digits2_pos x) + Zpos j + (e - Zpos j)) with (Zpos (digits2_pos x) + e) by lia.
  set (F := fexp 53 1024 (Zpos (digits2_pos x) + e)) in *.
  change (shr_record_of_loc (Zpos (shift_pos j x)) loc_Exact) with (rec0 (Zpos (shift_pos j x))).
  change (shr_record_of_loc (Zpos x) loc_Exact) with (rec0 (Zpos x)).
  destruct (F - e) as [|n|n] eqn:En; try lia.
  - replace (F - (e - Zpos j)) with (Zpos j) by lia.
    rewrite shr_pos, iter_shr_zero_bits. cbn [shr]. f_equal. lia.
  - replace (F - (e - Zpos j)) with (Zpos (n + j)) by lia.
    rewrite !shr_pos, Pos.iter_add, iter_shr_zero_bits. f_equal. lia.
Qed.

Lemma binary_round_aux_shift s j x e :
  0 <= fexp 53 1024 (Zpos (digits2_pos x) + e) - e ->
  binary_round_aux 53 1024 s (Zpos (shift_pos j x)) (e - Zpos j) loc_Exact
  = binary_round_aux 53 1024 s (Zpos x) e loc_Exact.
Proof. intros Hn. unfold binary_round_aux. rewrite (shr_fexp_shift j x e Hn). reflexivity. Qed.


(* ---- Part III: the decimal path and the integer path round the same way ---- *)
Lemma dd_loop_bounds fuel m : forall k, k <= dd_loop fuel m k <= k + Z.of_nat fuel.
Proof.
  induction fuel as [|f IH]; intros k; cbn [dd_loop]; [lia|].
  destruct (10 ^ k <=? m); [specialize (IH (k + 1))|]; lia.
Qed.

Lemma log2_digits p : Z.log2 (Zpos p) = Zpos (digits2_pos p) - 1.
Proof.
  pose proof (digits2_bounds p) as Hd.
  apply Z.log2_unique; [lia|]. replace (Z.succ (Zpos (digits2_pos p) - 1)) with (Zpos (digits2_pos p)) by lia. exact Hd.
Qed.

Lemma digits_lt_pow p n : 0 <= n -> Zpos p < 2 ^ n -> Zpos (digits2_pos p) <= n.
Proof.
  intros Hn Hp. pose proof (digits2_bounds p) as Hd.
  destruct (Z_le_gt_dec (Zpos (digits2_pos p)) n) as [H|H]; [exact H|exfalso].
  assert (2 ^ n <= 2 ^ (Zpos (digits2_pos p) - 1)) by (apply Z.pow_le_mono_r; lia). lia.
Qed.

Theorem f64_of_dec_int s p :
  Zpos p < 18446744073709551616 -> f64_of_dec s (Zpos p) 0 = binary_round 53 1024 s p 0.
Proof.
  intros Hp.
  assert (Hd64 : Zpos (digits2_pos p) <= 64) by (apply digits_lt_pow; [lia|exact Hp]).
  set (d := Zpos (digits2_pos p)) in *. assert (Hd1 : 1 <= d) by (subst d; lia).
  unfold f64_of_dec. change (Zpos p <=? 0) with false. cbv iota.
  assert (Hdd : 0 <= dec_digits (Zpos p) <= 310).
  { unfold dec_digits.
    pose proof (dd_loop_bounds 8 (Zpos p) (Z.max 0 (Z.log2 (Zpos p) * 30103 / 100000 - 1))) as H.
    rewrite log2_digits in *. fold d in H |- *.
    assert ((d - 1) * 30103 / 100000 <= 63) by (apply Z.div_le_upper_bound; lia).
    change (Z.of_nat 8) with 8 in H. lia. }
  rewrite Z.add_0_r.
  replace (310 <? dec_digits (Zpos p)) with false by lia.
  replace (dec_digits (Zpos p) <? -330) with false by lia.
  change (0 <=? 0) with true. cbv iota. change (10 ^ 0) with 1. rewrite Z.mul_1_r.
  unfold f64_of_ratio. change (Zpos p <=? 0) with false. cbv iota.
  change (Z.log2 1) with 0. rewrite log2_digits. fold d.
  replace (Z.max 0 (66 + 0 - (d - 1))) with (67 - d) by lia.
  destruct (67 - d) as [|kp|kp] eqn:Ek; try lia.
  rewrite Zfast_div_eucl_correct.
  rewrite (div_eucl_unique (Zpos p * 2 ^ Zpos kp) 1 (Zpos p * 2 ^ Zpos kp) 0) by lia.
  change (loc_of_rem 0 1) with loc_Exact.
  rewrite <- shift_pos_pow.
  (* the integer path *)
  unfold binary_round. fold d. rewrite Z.add_0_r.
  assert (Ef : fexp 53 1024 d = d - 53) by (unfold fexp, emin; lia).
  rewrite Ef. unfold shl_align.
  destruct (d - 53 - 0) as [|n|n] eqn:En.
  - (* d = 53 *)
    replace (- Zpos kp) with (0 - Zpos kp) by lia.
    apply binary_round_aux_shift. fold d. rewrite Z.add_0_r, Ef. lia.
  - (* d > 53: the integer is rounded *)
    replace (- Zpos kp) with (0 - Zpos kp) by lia.
    apply binary_round_aux_shift. fold d. rewrite Z.add_0_r, Ef. lia.
  - (* d < 53: the integer path first shifts left to 53 digits *)
    assert (Hk : (kp = 14 + n)%positive) by lia. subst kp.
    rewrite shift_pos_add.
    replace (- Zpos (14 + n)) with (d - 53 - 14) by lia.
    apply binary_round_aux_shift. rewrite digits2_shift_pos. fold d. unfold fexp, emin. lia.
Qed.


(* ---- Part IV: float64(z) is finite for every 64-bit magnitude ---- *)
Lemma shr_1_m mrs : 0 <= shr_m mrs -> shr_m (shr_1 mrs) = shr_m mrs / 2.
Proof.
  destruct mrs as [m r s]. cbn [shr_m]. intros Hm.
  destruct m as [|[q|q|]|q]; cbn [shr_1 shr_m]; try lia; try reflexivity.
  - apply (Z.div_unique (Zpos q~1) 2 (Zpos q) 1); lia.
  - apply (Z.div_unique (Zpos q~0) 2 (Zpos q) 0); lia.
Qed.

Lemma iter_shr_m n : forall mrs, 0 <= shr_m mrs ->
  shr_m (Pos.iter shr_1 mrs n) = shr_m mrs / 2 ^ Zpos n.
Proof.
  induction n as [|n IH] using Pos.peano_ind; intros mrs Hm.
  - cbn [Pos.iter]. rewrite shr_1_m by exact Hm. reflexivity.
  - rewrite Pos.iter_succ_r. rewrite IH.
    + rewrite shr_1_m by exact Hm. rewrite Z.div_div by (try apply Z.pow_pos_nonneg; lia).
      f_equal. rewrite Pos2Z.inj_succ, Z.pow_succ_r by lia. reflexivity.
    + rewrite shr_1_m by exact Hm. apply Z.div_pos; lia.
Qed.

Lemma round_nearest_even_bounds m l : m <= round_nearest_even m l <= m + 1.
Proof. destruct l as [|[| |]]; cbn; try lia. destruct (Z.even m); lia. Qed.

Lemma second_stage_finite s q e' :
  4503599627370496 <= Zpos q <= 9007199254740992 -> -1074 <= e' <= 900 ->
  exists m e,
    (let '(mrs'', e'') := shr_fexp 53 1024 (Zpos q) e' loc_Exact in
     match shr_m mrs'' with
     | Z0 => S754_zero s
     | Zpos m => if Zle_bool e'' (1024 - 53) then S754_finite s m e'' else S754_infinity s
     | Zneg _ => S754_nan
     end) = S754_finite s m e.
Proof.
  intros Hq He.
  destruct (Z.eq_dec (Zpos q) 9007199254740992) as [E|E].
  - injection E as ->. unfold shr_fexp. cbn [Zdigits2 digits2_pos Pos.succ].
    assert (Ef : fexp 53 1024 (54 + e') - e' = 1) by (unfold fexp, emin; lia).
    change (Zpos (digits2_pos 9007199254740992)) with 54. rewrite Ef.
    cbn [shr shr_record_of_loc SpecFloat.iter_pos shr_1 shr_m orb].
    replace (Zle_bool (e' + 1) (1024 - 53)) with true by (symmetry; apply Zle_imp_le_bool; lia).
    eauto.
  - assert (Hd : Zpos (digits2_pos q) = 53).
    { pose proof (digits2_bounds q) as Hb.
      assert (Zpos (digits2_pos q) <= 53) by (apply digits_lt_pow; [lia|change (2 ^ 53) with 9007199254740992; lia]).
      destruct (Z_le_gt_dec (Zpos (digits2_pos q)) 52) as [H52|H52]; [exfalso|lia].
      assert (2 ^ Zpos (digits2_pos q) <= 2 ^ 52) by (apply Z.pow_le_mono_r; lia).
      change (2 ^ 52) with 4503599627370496 in H0. lia. }
    unfold shr_fexp. cbn [Zdigits2]. rewrite Hd.
    assert (Ef : fexp 53 1024 (53 + e') - e' = 0) by (unfold fexp, emin; lia).
    rewrite Ef. cbn [shr shr_record_of_loc shr_m].
    replace (Zle_bool e' (1024 - 53)) with true by (symmetry; apply Zle_imp_le_bool; lia).
    eauto.
Qed.

Theorem binary_round_int_finite s p :
  Zpos p < 18446744073709551616 -> exists m e, binary_round 53 1024 s p 0 = S754_finite s m e.
Proof.
  intros Hp.
  assert (Hd64 : Zpos (digits2_pos p) <= 64) by (apply digits_lt_pow; [lia|exact Hp]).
  pose proof (digits2_bounds p) as Hb.
  set (d := Zpos (digits2_pos p)) in *. assert (Hd1 : 1 <= d) by (subst d; lia).
  unfold binary_round. fold d. rewrite Z.add_0_r.
  assert (Ef : fexp 53 1024 d = Z.max (d - 53) (-1074)) by reflexivity.
  destruct (Z_le_gt_dec d 53) as [Hle|Hgt].
  - (* at most 53 digits: exact *)
    rewrite Ef. replace (Z.max (d - 53) (-1074)) with (d - 53) by lia. unfold shl_align.
    destruct (d - 53 - 0) as [|n|n] eqn:En; try lia.
    + rewrite binary_round_aux_canonical by (fold d; lia). eauto.
    + rewrite binary_round_aux_canonical; [eauto| |lia]. rewrite digits2_shift_pos. fold d. lia.
  - (* 54..64 digits: rounded *)
    rewrite Ef. replace (Z.max (d - 53) (-1074)) with (d - 53) by lia. unfold shl_align.
    destruct (d - 53 - 0) as [|n|n] eqn:En; try lia.
    unfold binary_round_aux. unfold shr_fexp at 1. cbn [Zdigits2]. fold d. rewrite Z.add_0_r, Ef.
    replace (Z.max (d - 53) (-1074) - 0) with (Zpos n) by lia.
    change (shr_record_of_loc (Zpos p) loc_Exact) with (rec0 (Zpos p)). rewrite shr_pos.
    set (mrs' := Pos.iter shr_1 (rec0 (Zpos p)) n).
    assert (Hm' : shr_m mrs' = Zpos p / 2 ^ Zpos n) by (subst mrs'; apply iter_shr_m; cbn; lia).
    assert (Hpow : 2 ^ d = 9007199254740992 * 2 ^ Zpos n).
    { change 9007199254740992 with (2 ^ 53). rewrite <- Z.pow_add_r by lia. f_equal. lia. }
    assert (Hpow1 : 2 ^ (d - 1) = 4503599627370496 * 2 ^ Zpos n).
    { change 4503599627370496 with (2 ^ 52). rewrite <- Z.pow_add_r by lia. f_equal. lia. }
    assert (H2n : 0 < 2 ^ Zpos n) by (apply Z.pow_pos_nonneg; lia).
    assert (Hrange : 4503599627370496 <= shr_m mrs' < 9007199254740992).
    { rewrite Hm'. split.
      - apply Z.div_le_lower_bound; lia.
      - apply Z.div_lt_upper_bound; lia. }
    pose proof (round_nearest_even_bounds (shr_m mrs') (loc_of_shr_record mrs')) as Hr.
    destruct (round_nearest_even (shr_m mrs') (loc_of_shr_record mrs')) as [|q|q] eqn:Eq; try lia.
    apply second_stage_finite; lia.
Qed.


(* ---- Part V: ParseInt(s,10,64) and ParseFloat(s,64) agree on integer texts ---- *)
Local Open Scope string_scope.
Local Open Scope Z_scope.

Fixpoint all_digits (s : string) : bool :=
  match s with EmptyString => true | String c r => is_digit c && all_digits r end.
Fixpoint dval (s : string) (n : Z) : Z :=
  match s with EmptyString => n | String c r => dval r (n * 10 + (cz c - 48)) end.

Lemma digit_facts c : is_digit c = true ->
  lowerz c <> 120 /\ cz c <> 95 /\ cz c <> 46 /\ is_sign c = false /\ lower_ascii c = c /\
  Ascii.eqb c "i" = false /\ Ascii.eqb c "n" = false /\ 0 <= cz c - 48 <= 9 /\
  ((97 <=? lowerz c) && (lowerz c <=? 122)) = false.
Proof.
  destruct c as [[] [] [] [] [] [] [] []]; vm_compute; intros H; try discriminate H;
    repeat split; try discriminate; try reflexivity; intros E; discriminate E.
Qed.

Lemma sign_cases c : is_sign c = true -> c = "+"%char \/ c = "-"%char.
Proof.
  destruct c as [[] [] [] [] [] [] [] []]; vm_compute; intros H; try discriminate H; auto.
Qed.

Lemma nondigit_rejected c : is_digit c = false ->
  (let d := if (97 <=? lowerz c) && (lowerz c <=? 122) then lowerz c - 97 + 10 else 255 in d <? 10) = false.
Proof.
  intros _. cbv zeta. destruct ((97 <=? lowerz c) && (lowerz c <=? 122)) eqn:E; lia.
Qed.

Lemma pu_loop_10 s : forall n n' us',
  pu_loop 10 false s n false = Some (n', us') -> all_digits s = true /\ n' = dval s n /\ us' = false.
Proof.
  induction s as [|c r IH]; intros n n' us' H; cbn [pu_loop all_digits dval] in *.
  - injection H as <- <-. auto.
  - rewrite andb_false_r in H.
    destruct (is_digit c) eqn:Ed.
    + destruct (cz c - 48 <? 10); [|discriminate H].
      destruct (IH _ _ _ H) as (Ha & Hn & Hu). auto.
    + pose proof (nondigit_rejected c Ed) as Hr. cbv zeta in Hr. rewrite Hr in H. discriminate H.
Qed.

Lemma parse_uint_raw_10 body un :
  parse_uint_raw 10 body = Some un ->
  (exists c r, body = String c r) /\ all_digits body = true /\ un = dval body 0.
Proof.
  unfold parse_uint_raw. destruct body as [|c0 r0]; [discriminate|].
  change (10 =? 0) with false. cbv iota beta. change ((2 <=? 10) && (10 <=? 36)) with true. cbv iota.
  destruct (pu_loop 10 false (String c0 r0) 0 false) as [[n us]|] eqn:E; [|discriminate].
  destruct (pu_loop_10 _ _ _ _ E) as (Ha & Hn & Hu). subst us. cbn [andb].
  intros H. injection H as <-. eauto.
Qed.

Lemma dval_nonneg s : all_digits s = true -> forall n, 0 <= n -> 0 <= dval s n.
Proof.
  induction s as [|c r IH]; cbn [all_digits dval]; intros Ha n Hn; [exact Hn|].
  apply andb_true_iff in Ha. destruct Ha as [Hc Hr].
  destruct (digit_facts c Hc) as (_ & _ & _ & _ & _ & _ & _ & Hd & _).
  apply IH; [exact Hr|lia].
Qed.

Lemma str_lower_digits s : all_digits s = true -> str_lower s = s.
Proof.
  induction s as [|c r IH]; cbn [all_digits str_lower]; intros Ha; [reflexivity|].
  apply andb_true_iff in Ha. destruct Ha as [Hc Hr].
  destruct (digit_facts c Hc) as (_ & _ & _ & _ & Hl & _). rewrite Hl, (IH Hr). reflexivity.
Qed.

(* the mantissa loop of readFloat on a digit string *)
Lemma rf_mant_digits body : all_digits body = true ->
  forall sd nd dp mant, 0 <= nd -> (nd = 0 -> mant = 0) ->
  exists nd' dp',
    rf_mant_loop false body (mk_rf false sd false nd dp mant)
    = (mk_rf false (match body with EmptyString => sd | _ => true end) false nd' dp' (dval body mant), EmptyString).
Proof.
  induction body as [|c r IH]; cbn [all_digits]; intros Ha sd nd dp mant Hnd Hm.
  - cbn. eauto.
  - apply andb_true_iff in Ha. destruct Ha as [Hc Hr].
    destruct (digit_facts c Hc) as (_ & H95 & H46 & _ & _ & _ & _ & Hd & _).
    cbn [rf_mant_loop dval].
    replace (cz c =? 95) with false by lia. replace (cz c =? 46) with false by lia. rewrite Hc.
    destruct ((cz c =? 48) && (nd =? 0)) eqn:Ez.
    + destruct (IH Hr true nd (dp - 1) mant Hnd Hm) as (nd' & dp' & E). rewrite E.
      assert (mant = 0) by (apply Hm; lia). assert (cz c = 48) by lia.
      replace (mant * 10 + (cz c - 48)) with mant by lia.
      destruct r; eauto.
    + destruct (IH Hr true (nd + 1) dp (mant * 10 + (cz c - 48)) ltac:(lia) ltac:(lia)) as (nd' & dp' & E).
      rewrite E. destruct r; eauto.
Qed.

Lemma hex_check_digits body : all_digits body = true ->
  match body with
  | String c0 (String c1 (String c2 r)) =>
      if (cz c0 =? 48) && (lowerz c1 =? 120) then (true, String c2 r) else (false, body)
  | _ => (false, body)
  end = (false, body).
Proof.
  destruct body as [|c0 [|c1 [|c2 r]]]; try reflexivity. cbn [all_digits]. intros Ha.
  apply andb_true_iff in Ha. destruct Ha as [_ Ha]. apply andb_true_iff in Ha. destruct Ha as [Hc1 _].
  destruct (digit_facts c1 Hc1) as (Hx & _). replace (lowerz c1 =? 120) with false by lia.
  rewrite andb_false_r. reflexivity.
Qed.

(* readFloat + conversion on  [sign] digits *)
Lemma parse_float_num_digits neg s body :
  (exists c r, body = String c r) -> all_digits body = true ->
  match s with
  | String c r => if cz c =? 43 then (false, r) else if cz c =? 45 then (true, r) else (false, s)
  | EmptyString => (false, s)
  end = (neg, body) ->
  let mant := dval body 0 in
  let v := if mant =? 0 then S754_zero neg else f64_of_dec neg mant 0 in
  parse_float_num s = Some (v, f64_is_inf v).
Proof.
  intros Hne Ha Hs. cbv zeta. unfold parse_float_num. rewrite Hs.
  rewrite (hex_check_digits body Ha).
  destruct (rf_mant_digits body Ha false 0 0 0 ltac:(lia) ltac:(lia)) as (nd' & dp' & E). rewrite E.
  destruct Hne as (c & r & ->). cbn [negb].
  change (rf_exponent 101 EmptyString) with (Some (false, 0, false, EmptyString)).
  cbv iota beta. cbn [andb orb].
  replace (nd' + 0 - nd') with 0 by lia. reflexivity.
Qed.

Lemma eqb_digit_first d r w0 w : is_digit d = true -> Ascii.eqb d w0 = false -> String.eqb (String d r) (String w0 w) = false.
Proof. intros _ H. cbn [String.eqb]. rewrite H. reflexivity. Qed.

(* ParseFloat on  [sign] digits *)
Lemma parse_float_digits (sgn : option bool) body :
  (exists c r, body = String c r) -> all_digits body = true ->
  let s := match sgn with Some true => String "-" body | Some false => String "+" body | None => body end in
  let neg := match sgn with Some true => true | _ => false end in
  let mant := dval body 0 in
  let v := if mant =? 0 then S754_zero neg else f64_of_dec neg mant 0 in
  parse_float s = Some (v, f64_is_inf v).
Proof.
  intros Hne Ha. cbv zeta. destruct Hne as (d & r & ->).
  pose proof Ha as Ha'. cbn [all_digits] in Ha'. apply andb_true_iff in Ha'. destruct Ha' as [Hd Hr].
  destruct (digit_facts d Hd) as (_ & _ & _ & Hsg & Hl & Hi & Hn & _).
  assert (Hsg' := Hsg). unfold is_sign in Hsg'. apply orb_false_iff in Hsg'. destruct Hsg' as [H43 H45].
  unfold parse_float.
  destruct sgn as [[|]|]; cbn [str_lower]; rewrite ?(str_lower_digits _ Hr), ?Hl.
  - (* "-" digits *)
    change (lower_ascii "-") with "-"%char. change (is_sign "-") with true. cbv iota.
    change (cz "-" =? 45) with true.
    rewrite (eqb_digit_first d r "i" "nf" Hd Hi), (eqb_digit_first d r "i" "nfinity" Hd Hi). cbn [orb].
    change (String.eqb (String "-" (String d r)) "nan") with false. cbv iota.
    apply (parse_float_num_digits true (String "-" (String d r)) (String d r)); eauto.
  - (* "+" digits *)
    change (lower_ascii "+") with "+"%char. change (is_sign "+") with true. cbv iota.
    change (cz "+" =? 45) with false.
    rewrite (eqb_digit_first d r "i" "nf" Hd Hi), (eqb_digit_first d r "i" "nfinity" Hd Hi). cbn [orb].
    change (String.eqb (String "+" (String d r)) "nan") with false. cbv iota.
    apply (parse_float_num_digits false (String "+" (String d r)) (String d r)); eauto.
  - (* digits *)
    rewrite Hsg. rewrite H45.
    rewrite (eqb_digit_first d r "i" "nf" Hd Hi), (eqb_digit_first d r "i" "nfinity" Hd Hi). cbn [orb].
    rewrite (eqb_digit_first d r "n" "an" Hd Hn).
    apply (parse_float_num_digits false (String d r) (String d r)); eauto.
    rewrite H43, H45. reflexivity.
Qed.

Theorem parse_int_parse_float s z :
  parse_int 10 64 s = Some z ->
  parse_float s = Some (f64_of_Z z, false) \/ (z = 0 /\ parse_float s = Some (S754_zero true, false)).
Proof.
  unfold parse_int. destruct s as [|c r]; [discriminate|].
  destruct (parse_uint_raw 10 (if is_sign c then r else String c r)) as [un|] eqn:E; [|discriminate].
  destruct (parse_uint_raw_10 _ _ E) as (Hne & Ha & Hun).
  change (2 ^ (64 - 1)) with 9223372036854775808.
  assert (Hnn : 0 <= un) by (rewrite Hun; apply dval_nonneg; [exact Ha|lia]).
  (* the value ParseFloat computes *)
  assert (Hv : forall neg, un <= 9223372036854775808 ->
            let v := if un =? 0 then S754_zero neg else f64_of_dec neg un 0 in
            f64_is_inf v = false /\ v = f64_mk neg un 0).
  { intros neg Hle. cbv zeta. destruct un as [|p|p]; try lia.
    - split; reflexivity.
    - change (Zpos p =? 0) with false. cbv iota.
      rewrite f64_of_dec_int by lia. cbn [f64_mk].
      destruct (binary_round_int_finite neg p ltac:(lia)) as (m & e & ->). split; reflexivity. }
  destruct (is_sign c) eqn:Es.
  - destruct (sign_cases c Es) as [-> | ->].
    + (* "+" *)
      change (cz "+" =? 45) with false. cbv iota.
      destruct (un <? 9223372036854775808) eqn:Elt; intros H; [|discriminate H]. injection H as <-.
      pose proof (parse_float_digits (Some false) r Hne Ha) as Hp. cbv zeta in Hp. rewrite <- Hun in Hp.
      destruct (Hv false ltac:(lia)) as [Hinf Hval]. cbv zeta in Hinf, Hval.
      rewrite Hinf, Hval in Hp. left. exact Hp.
    + (* "-" *)
      change (cz "-" =? 45) with true. cbv iota.
      destruct (un <=? 9223372036854775808) eqn:Ele; intros H; [|discriminate H]. injection H as <-.
      pose proof (parse_float_digits (Some true) r Hne Ha) as Hp. cbv zeta in Hp. rewrite <- Hun in Hp.
      destruct (Hv true ltac:(lia)) as [Hinf Hval]. cbv zeta in Hinf, Hval.
      rewrite Hinf, Hval in Hp.
      destruct un as [|p|p]; try lia.
      * right. split; [reflexivity|exact Hp].
      * left. exact Hp.
  - assert (H45 : (cz c =? 45) = false) by (unfold is_sign in Es; lia). rewrite H45.
    destruct (un <? 9223372036854775808) eqn:Elt; intros H; [|discriminate H]. injection H as <-.
    pose proof (parse_float_digits None (String c r) Hne Ha) as Hp. cbv zeta in Hp. rewrite <- Hun in Hp.
    destruct (Hv false ltac:(lia)) as [Hinf Hval]. cbv zeta in Hinf, Hval.
    rewrite Hinf, Hval in Hp. left. exact Hp.
Qed.

Print Assumptions Zfast_div_eucl_correct.
Print Assumptions f64_of_dec_int.
Print Assumptions binary_round_int_finite.
Print Assumptions parse_int_parse_float.
