(* RunBasics.v — small shared lemmas about the fuelled executor [run]:
   unfolding, the generic invariant rule, inversion of binds and of the three
   [call*] wrappers.  Stdlib only, no axioms. *)
From SJ Require Import lib.Base model.Json model.Ast model.ExecLib model.Leaf model.Exec.

Lemma run_S L E k r s : run L E (S k) r s = body L E (run L E k) r s.
Proof.
  cbn [run]. f_equal.
Qed.

Lemma run_O L E r s : run L E O r s = OutOfFuel.
Proof. reflexivity. Qed.

(* If every result of [body self] satisfies P whenever every result of [self]
   does, then every result of [run] satisfies P — whatever the fuel. *)
Lemma run_inv (L : ExecLib) (E : env) (P : req -> st -> ans -> st -> Prop) :
  (forall self,
      (forall r s a s', self r s = Ret (a, s') -> P r s a s') ->
      forall r s a s', body L E self r s = Ret (a, s') -> P r s a s') ->
  forall fuel r s a s', run L E fuel r s = Ret (a, s') -> P r s a s'.
Proof.
  intros Hbody fuel. induction fuel as [|k IH]; intros r s a s' H.
  - discriminate H.
  - rewrite run_S in H. eapply Hbody; [|exact H]. exact IH.
Qed.

(* the same for Panic: if body never panics given a self that never panics ... *)
Lemma run_inv_out (L : ExecLib) (E : env) (P : req -> st -> outcome (ans * st) -> Prop) :
  (forall r s, P r s OutOfFuel) ->
  (forall self, (forall r s, P r s (self r s)) -> forall r s, P r s (body L E self r s)) ->
  forall fuel r s, P r s (run L E fuel r s).
Proof.
  intros H0 Hbody fuel. induction fuel as [|k IH]; intros r s.
  - apply H0.
  - rewrite run_S. apply Hbody. exact IH.
Qed.

Lemma bindo_Ret {A B} (x : outcome A) (f : A -> outcome B) (b : B) :
  bindo x f = Ret b -> exists a, x = Ret a /\ f a = Ret b.
Proof. destruct x; cbn; intros H; try discriminate; eauto. Qed.

Section Calls.
Variables (E : env) (self : req -> st -> outcome (ans * st)).

Lemma callItem_Ret n v found u s r s' :
  callItem self n v found u s = Ret (r, s') -> self (RItem n v found u) s = Ret (AItem r, s').
Proof.
  unfold callItem. intros H. apply bindo_Ret in H. destruct H as [[a s1] [H1 H2]].
  destruct a; [|discriminate]. injection H2 as -> ->. exact H1.
Qed.

Lemma callAny_Ret n vs found level first last ignFlag un s r s' :
  callAny self n vs found level first last ignFlag un s = Ret (r, s') ->
  self (RAny n vs found level first last ignFlag un) s = Ret (AItem r, s').
Proof.
  unfold callAny. intros H. apply bindo_Ret in H. destruct H as [[a s1] [H1 H2]].
  destruct a; [|discriminate]. injection H2 as -> ->. exact H1.
Qed.

Lemma callBool_Ret n v c s p s' :
  callBool self n v c s = Ret (p, s') -> self (RBool n v c) s = Ret (ABool p, s').
Proof.
  unfold callBool. intros H. apply bindo_Ret in H. destruct H as [[a s1] [H1 H2]].
  destruct a; [discriminate|]. injection H2 as -> ->. exact H1.
Qed.
End Calls.

(* [body] answers an item request with an item and a bool request with a bool *)
Lemma body_kind L E self r s a s' :
  body L E self r s = Ret (a, s') ->
  match r, a with
  | RItem _ _ _ _, AItem _ | RAny _ _ _ _ _ _ _ _, AItem _ | RBool _ _ _, ABool _ => True
  | _, _ => False
  end.
Proof.
  unfold body. destruct r; intros H; apply bindo_Ret in H; destruct H as [[x s1] [_ H2]];
    injection H2 as <- _; exact I.
Qed.

(* take apart one [do (x, s1) <- m s; k] in hypothesis H *)
Ltac bind_inv H x s1 H1 :=
  apply bindo_Ret in H; destruct H as [[x s1] [H1 H]].
