(* RefineWitness.v — the side conditions of the refinement theorems are needed:
   concrete inputs on which model and specification disagree when one of them
   is dropped; and one input on which all hypotheses hold (non-vacuity).
   Stdlib only, no axioms. *)
From Coq Require Import Floats.SpecFloat.
From SJ Require Import lib.Base model.Json model.Ast model.ExecLib model.Leaf model.Exec
  spec.Sem spec.Proj proofs.RunBasics proofs.RefineDefs proofs.Refine.

Definition L0 : ExecLib :=
  mkExecLib (fun _ => None) (fun _ _ _ => None) (fun _ => EmptyString) (fun _ => EmptyString)
            (fun _ => S754_zero false) (fun _ => 0)
            (fun a _ => a) (fun a => a) (fun a => a) (fun a => a) (fun a => a)
            (fun _ => S754_zero false)
            (fun _ _ _ => false) (fun _ _ => None) (fun _ _ _ => CastInvalid)
            (fun _ _ _ => CmpInvalid) (fun _ => EmptyString) (fun l => map snd l).

Lemma L0_canon : members_canon L0.
Proof. intros l. reflexivity. Qed.

Definition o0 (silent : bool) : opts := mkopts [] 0 silent false None 100.

(* 1. ne_ops: an operand chain that is empty (the grammar cannot build one).
      The executor answers "Unknown node type" (ErrInvalid) for the empty chain,
      the specification reads the empty chain as "the item itself". *)
Definition p_ne : path := mkpath true true [SUn UExists []].
Example ne_ops_needed :
  ne_ops (p_root p_ne) = false /\
  Query L0 10 p_ne JNull (o0 false) = Ret (QErr (AErr (EInvalid "Unknown node type"))) /\
  p_query false (sem_of L0 quirks_code p_ne JNull (o0 false)) = QItems [JBool true].
Proof. vm_compute. repeat split; reflexivity. Qed.

(* the same at the level of [run]: an item request for the empty chain *)
Example nonempty_needed :
  exists r s',
    run L0 (mkEnv p_ne JNull (o0 false)) 1 (RItem [] JNull (Some []) true) (newExec p_ne JNull (o0 false))
      = Ret (AItem r, s') /\
    r_st r = SFailed /\
    sem_chain L0 (cenv_of (mkEnv p_ne JNull (o0 false))) quirks_code [] JNull (-1) true true JNull = tone JNull.
Proof. eexists. eexists. vm_compute. repeat split; reflexivity. Qed.

(* 2. unary_tail_free (known finding C06-unary-exists): lax Exists of a path
      ending in a unary minus whose operand is not numeric.  The executor says
      "true" (the non-numeric operand is handed on as if it were a result), the
      trace has no item and fails. *)
Definition p_um : path := mkpath true false [SUn UMinus [SStr "a"]].
Example unary_tail_free_needed :
  unary_tail_free (p_root p_um) = false /\
  no_kv (p_root p_um) = true /\ exists_ok (p_root p_um) = true /\ ne_ops (p_root p_um) = true /\
  Exists L0 10 p_um JNull (o0 false) = Ret (BVal true) /\
  p_exists true false (sem_of L0 quirks_code p_um JNull (o0 false)) =
    BErr (AErr (EVerbose "operand of unary jsonpath operator is not a numeric value")) /\
  (* while Query agrees with the specification on the same input *)
  Query L0 10 p_um JNull (o0 false) =
    Ret (QErr (AErr (EVerbose "operand of unary jsonpath operator is not a numeric value"))).
Proof. vm_compute. repeat split; reflexivity. Qed.

(* 3. exists_ok: the same inside exists() *)
Definition p_ex : path := mkpath true true [SUn UExists [SUn UMinus [SStr "a"]]].
Example exists_ok_needed :
  exists_ok (p_root p_ex) = false /\
  no_kv (p_root p_ex) = true /\ ne_ops (p_root p_ex) = true /\
  Query L0 10 p_ex JNull (o0 false) = Ret (QItems [JBool true]) /\
  p_query false (sem_of L0 quirks_code p_ex JNull (o0 false)) = QItems [JNull].
Proof. vm_compute. repeat split; reflexivity. Qed.

(* 4. non-vacuity: all hypotheses hold, model and specification agree *)
Definition p_wit : path :=
  mkpath true false [SConst CRoot; SKey "a"; SUn UFilter [SBin BGt [SConst CCurrent] [SInteger 1]]].
Definition doc_wit : json := JObj 1 [("a"%string, JArr 2 [JNum (NInt 1); JNum (NInt 2); JNum (NInt 3)])].
Example refinement_witness :
  no_kv (p_root p_wit) = true /\ exists_ok (p_root p_wit) = true /\ ne_ops (p_root p_wit) = true /\
  unary_tail_free (p_root p_wit) = true /\
  Query L0 20 p_wit doc_wit (o0 false) = Ret (QItems [JNum (NInt 2); JNum (NInt 3)]) /\
  p_query false (sem_of L0 quirks_code p_wit doc_wit (o0 false)) = QItems [JNum (NInt 2); JNum (NInt 3)] /\
  Exists L0 20 p_wit doc_wit (o0 false) = Ret (BVal true) /\
  p_exists true false (sem_of L0 quirks_code p_wit doc_wit (o0 false)) = BVal true.
Proof. vm_compute. repeat split; reflexivity. Qed.
