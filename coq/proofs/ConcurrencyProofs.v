(* C19 -- proofs about the abstract machine of model/Concurrency.v.

   interleaving_irrelevant   under any schedule, every call of a read-only program returns
                             what it returns when run alone on the same shared store; the
                             shared store is unchanged
   complete_schedule_exists  (non-vacuity) every program has a complete schedule
   history_independent       on one thread, the result of a call does not depend on the
                             read-only calls executed before it
   private_writes_read_only  a step all of whose primitive writes land in PerCall / Fresh
                             regions is read-only
   allowed_store_private     an allowed store effect does not land in the Shared region
   shared_write_*            a machine with a cache cell falsifies both conclusions *)

Require Import Coq.Lists.List Coq.Strings.String Coq.Bool.Bool Coq.Arith.PeanoNat Coq.micromega.Lia.
Require Import SJ.model.Concurrency.
Import ListNotations.

Set Implicit Arguments.

Section Proofs.
  Variables sh priv result : Type.

  Notation stepT := (stepT sh priv).
  Notation call := (call sh priv result).
  Notation tstate := (tstate sh priv result).
  Notation config := (config sh priv result).
  Notation RO := (@read_only sh priv).
  Notation CRO := (@call_read_only sh priv result).

  (* ----------------------------------------------------------------------- *)
  (* read-only steps leave the shared store alone                             *)
  (* ----------------------------------------------------------------------- *)

  Lemma run_steps_ro : forall (sts : list stepT) s p,
      Forall RO sts -> fst (run_steps s p sts) = s.
  Proof.
    induction sts as [|st sts IH]; simpl; intros s p H.
    - reflexivity.
    - inversion H as [|? ? Hst Hsts]; subst.
      pose proof (Hst s p) as E. destruct (st s p) as [s' p']. simpl in E. subst s'.
      apply IH. assumption.
  Qed.

  (* what a thread is going to have returned once it has finished, every call being
     evaluated alone on the store s *)
  Definition cur_expected (s : sh) (t : tstate) : list result :=
    match cur t with
    | Some (p, sts, o) => [o (snd (run_steps s p sts))]
    | None => []
    end.

  Definition expected (s : sh) (t : tstate) : list result :=
    results t ++ cur_expected s t ++ map (run_alone s) (pending t).

  Definition t_ro (t : tstate) : Prop :=
    Forall CRO (pending t) /\
    match cur t with
    | Some (_, sts, _) => Forall RO sts
    | None => True
    end.

  Lemma tick_ro : forall s (t : tstate),
      t_ro t ->
      fst (tick s t) = s /\ t_ro (snd (tick s t)) /\ expected s (snd (tick s t)) = expected s t.
  Proof.
    intros s [pend c res] [Hp Hc]. unfold tick, expected, cur_expected; simpl in *.
    destruct c as [[[p sts] o]|].
    - destruct sts as [|st sts].
      + simpl. repeat split; try assumption.
        rewrite <- app_assoc. reflexivity.
      + inversion Hc as [|? ? Hst Hsts]; subst.
        pose proof (Hst s p) as E.
        simpl. destruct (st s p) as [s' p'] eqn:Est. simpl in E. subst s'.
        simpl. repeat split; assumption.
    - destruct pend as [|c cs]; simpl.
      + repeat split; assumption.
      + inversion Hp as [|? ? Hc1 Hcs]; subst.
        repeat split; try assumption.
    Qed.

  Lemma upd_ro : forall (cfg : config) i s,
      Forall t_ro cfg ->
      fst (upd i cfg s) = s /\ Forall t_ro (snd (upd i cfg s)) /\
      map (expected s) (snd (upd i cfg s)) = map (expected s) cfg.
  Proof.
    induction cfg as [|t r IH]; intros i s H; simpl.
    - destruct i; simpl; auto.
    - inversion H as [|? ? Ht Hr]; subst.
      destruct i as [|j]; simpl.
      + destruct (tick_ro s Ht) as (E1 & E2 & E3).
        destruct (tick s t) as [s' t']. simpl in *. subst s'.
        repeat split; [constructor; assumption | rewrite E3; reflexivity].
      + destruct (IH j s Hr) as (E1 & E2 & E3).
        destruct (upd j r s) as [s' r']. simpl in *. subst s'.
        repeat split; [constructor; assumption | rewrite E3; reflexivity].
  Qed.

  Lemma exec_ro : forall sched (cfg : config) s,
      Forall t_ro cfg ->
      fst (exec s cfg sched) = s /\ Forall t_ro (snd (exec s cfg sched)) /\
      map (expected s) (snd (exec s cfg sched)) = map (expected s) cfg.
  Proof.
    induction sched as [|i r IH]; intros cfg s H; simpl.
    - auto.
    - destruct (upd_ro i s H) as (E1 & E2 & E3).
      destruct (upd i cfg s) as [s' cfg']. simpl in *. subst s'.
      destruct (IH cfg' s E2) as (F1 & F2 & F3).
      repeat split; try assumption. rewrite F3. exact E3.
  Qed.

  Lemma start_ro : forall prog : list (list call),
      Forall (Forall CRO) prog -> Forall t_ro (start prog).
  Proof.
    induction prog as [|cs r IH]; simpl; intros H; constructor; inversion H; subst.
    - split; simpl; auto.
    - apply IH; assumption.
  Qed.

  Lemma start_expected : forall s (prog : list (list call)),
      map (expected s) (start prog) = map (map (run_alone s)) prog.
  Proof.
    intros s prog. unfold start. rewrite map_map. apply map_ext. intros cs.
    unfold expected, cur_expected. simpl. reflexivity.
  Qed.

  Lemma done_expected : forall s (t : tstate), t_done t -> expected s t = results t.
  Proof.
    intros s [pend c res] [H1 H2]. simpl in *. subst. unfold expected, cur_expected. simpl.
    apply app_nil_r.
  Qed.

  (* THE THEOREM.  For every schedule whatsoever: the shared store is unchanged, what a
     thread has returned so far is a prefix of the results of its calls run alone, and a
     thread that has finished has returned exactly those. *)
  Theorem interleaving_irrelevant :
    forall (s : sh) (prog : list (list call)) (sched : list nat),
      Forall (Forall CRO) prog ->
      fst (exec s (start prog) sched) = s /\
      forall i t, nth_error (snd (exec s (start prog) sched)) i = Some t ->
        (exists rest, results t ++ rest = map (run_alone s) (nth i prog [])) /\
        (t_done t -> results t = map (run_alone s) (nth i prog [])).
  Proof.
    intros s prog sched H.
    destruct (exec_ro sched s (start_ro H)) as (E1 & _ & E3).
    split; [exact E1|].
    intros i t Hn.
    rewrite start_expected in E3.
    assert (Hx : nth_error (map (map (run_alone s)) prog) i = Some (expected s t)).
    { rewrite <- E3. apply map_nth_error. exact Hn. }
    assert (Hy : map (run_alone s) (nth i prog []) = expected s t).
    { rewrite nth_error_map in Hx.
      destruct (nth_error prog i) as [cs|] eqn:En; simpl in Hx; [|discriminate].
      injection Hx as Hx. rewrite (nth_error_nth prog i [] En). exact Hx. }
    split.
    - exists (cur_expected s t ++ map (run_alone s) (pending t)). rewrite Hy. reflexivity.
    - intros Hd. rewrite Hy. symmetry. apply done_expected. exact Hd.
  Qed.

  (* the complete-schedule form asked for: every call's result under the schedule is its
     result when run alone *)
  Theorem interleaving_irrelevant_complete :
    forall (s : sh) (prog : list (list call)) (sched : list nat),
      Forall (Forall CRO) prog ->
      complete s prog sched ->
      map (@results sh priv result) (snd (exec s (start prog) sched)) = map (map (run_alone s)) prog.
  Proof.
    intros s prog sched H Hc. unfold complete in Hc.
    destruct (exec_ro sched s (start_ro H)) as (_ & _ & E3).
    rewrite start_expected in E3. rewrite <- E3.
    apply map_ext_in. intros t Ht. symmetry. apply done_expected.
    rewrite Forall_forall in Hc. apply Hc. exact Ht.
  Qed.

  (* two complete schedules of the same read-only program return the same results *)
  Corollary schedules_agree :
    forall (s : sh) (prog : list (list call)) (sched1 sched2 : list nat),
      Forall (Forall CRO) prog ->
      complete s prog sched1 -> complete s prog sched2 ->
      map (@results sh priv result) (snd (exec s (start prog) sched1)) =
      map (@results sh priv result) (snd (exec s (start prog) sched2)).
  Proof.
    intros. rewrite !interleaving_irrelevant_complete; auto.
  Qed.

  (* ----------------------------------------------------------------------- *)
  (* non-vacuity: complete schedules exist (for any machine, read-only or not) *)
  (* ----------------------------------------------------------------------- *)

  Fixpoint dec_at (i : nat) (l : list nat) : list nat :=
    match l, i with
    | [], _ => []
    | c :: r, 0 => pred c :: r
    | c :: r, S j => c :: dec_at j r
    end.

  Lemma tick_cost : forall s (t : tstate), cost (snd (tick s t)) = pred (cost t).
  Proof.
    intros s [pend c res]. unfold tick, cost; simpl.
    destruct c as [[[p sts] o]|].
    - destruct sts as [|st sts]; simpl.
      + reflexivity.
      + destruct (st s p) as [s' p']. simpl. reflexivity.
    - destruct pend as [|c cs]; simpl; reflexivity.
  Qed.

  Lemma cost_zero_done : forall t : tstate, cost t = 0 -> t_done t.
  Proof.
    intros [pend c res]. unfold cost, t_done; simpl.
    destruct c as [[[p sts] o]|]; simpl; intros H.
    - discriminate.
    - destruct pend as [|c cs]; simpl in *; [auto | discriminate].
  Qed.

  Lemma upd_cost : forall (cfg : config) i s,
      map (@cost sh priv result) (snd (upd i cfg s)) = dec_at i (map (@cost sh priv result) cfg).
  Proof.
    induction cfg as [|t r IH]; intros i s; simpl.
    - destruct i; reflexivity.
    - destruct i as [|j]; cbn [upd].
      + pose proof (tick_cost s t) as E. destruct (tick s t) as [s' t']. cbn [snd map] in *.
        rewrite E. reflexivity.
      + pose proof (IH j s) as E. destruct (upd j r s) as [s' r']. cbn [snd map] in *.
        rewrite E. reflexivity.
  Qed.

  Lemma exec_cost : forall sched (cfg : config) s,
      map (@cost sh priv result) (snd (exec s cfg sched)) =
      fold_left (fun l i => dec_at i l) sched (map (@cost sh priv result) cfg).
  Proof.
    induction sched as [|i r IH]; intros cfg s; simpl.
    - reflexivity.
    - pose proof (upd_cost cfg i s) as E. destruct (upd i cfg s) as [s' cfg']. cbn [snd] in E.
      rewrite IH, E. reflexivity.
  Qed.

  Lemma dec_at_app : forall pre c r, dec_at (List.length pre) (pre ++ c :: r) = pre ++ pred c :: r.
  Proof. induction pre as [|x pre IH]; simpl; intros; [reflexivity | rewrite IH; reflexivity]. Qed.

  Lemma dec_repeat : forall c pre r,
      fold_left (fun l i => dec_at i l) (repeat (List.length pre) c) (pre ++ c :: r) = pre ++ 0 :: r.
  Proof.
    induction c as [|c IH]; intros pre r; simpl.
    - reflexivity.
    - rewrite dec_at_app. simpl. apply IH.
  Qed.

  Lemma sched_for_zero : forall costs pre,
      Forall (eq 0) pre ->
      Forall (eq 0) (fold_left (fun l i => dec_at i l) (sched_for costs (List.length pre)) (pre ++ costs)).
  Proof.
    induction costs as [|c r IH]; intros pre H; simpl.
    - rewrite app_nil_r. exact H.
    - rewrite fold_left_app, dec_repeat.
      replace (pre ++ 0 :: r) with ((pre ++ [0]) ++ r) by (rewrite <- app_assoc; reflexivity).
      replace (S (List.length pre)) with (List.length (pre ++ [0])) by (rewrite app_length; simpl; lia).
      apply IH. apply Forall_app. split; [exact H | constructor; [reflexivity | constructor]].
  Qed.

  Theorem complete_schedule_exists :
    forall (s : sh) (prog : list (list call)), complete s prog (sequential_schedule prog).
  Proof.
    intros s prog. unfold complete, sequential_schedule.
    pose proof (exec_cost (sched_for (map (@cost sh priv result) (start prog)) 0) (start prog) s) as E.
    pose proof (@sched_for_zero (map (@cost sh priv result) (start prog)) [] (Forall_nil _)) as Z.
    simpl in Z. rewrite <- E in Z.
    rewrite Forall_forall. intros t Ht. apply cost_zero_done.
    rewrite Forall_forall in Z. symmetry. apply Z. apply in_map. exact Ht.
  Qed.

  (* ----------------------------------------------------------------------- *)
  (* history independence on one thread                                       *)
  (* ----------------------------------------------------------------------- *)

  Lemma run_seq_ro : forall (h : list call) s,
      Forall CRO h -> run_seq s h = (s, map (run_alone s) h).
  Proof.
    induction h as [|c r IH]; simpl; intros s H.
    - reflexivity.
    - inversion H as [|? ? Hc Hr]; subst.
      pose proof (run_steps_ro s (c_init c) Hc) as E. unfold run_alone.
      destruct (run_steps s (c_init c) (c_steps c)) as [s1 p]. simpl in *. subst s1.
      rewrite (IH s Hr). reflexivity.
  Qed.

  Lemma run_seq_app : forall (h h' : list call) s,
      run_seq s (h ++ h') =
      (fst (run_seq (fst (run_seq s h)) h'), snd (run_seq s h) ++ snd (run_seq (fst (run_seq s h)) h')).
  Proof.
    induction h as [|c r IH]; simpl; intros h' s.
    - destruct (run_seq s h'); reflexivity.
    - destruct (run_steps s (c_init c) (c_steps c)) as [s1 p].
      rewrite IH. destruct (run_seq s1 r) as [s2 rs]. simpl. reflexivity.
  Qed.

  Lemma run_seq_single : forall s (c : call), snd (run_seq s [c]) = [run_alone s c].
  Proof.
    intros s c. simpl. unfold run_alone.
    destruct (run_steps s (c_init c) (c_steps c)) as [s1 p]. reflexivity.
  Qed.

  (* THE THEOREM.  The state machine whose only persistent state is the shared store:
     after any read-only history, the call c (read-only or not) returns what it returns
     on a fresh machine. *)
  Theorem history_independent :
    forall (s : sh) (history : list call) (c : call) (d : result),
      Forall CRO history ->
      last (snd (run_seq s (history ++ [c]))) d = last (snd (run_seq s [c])) d.
  Proof.
    intros s history c d H.
    rewrite run_seq_app, (run_seq_ro s H). cbn [fst snd].
    rewrite !run_seq_single, last_last. reflexivity.
  Qed.

  (* every call of a read-only history returns its isolated result; in particular
     repeating a query returns the same result *)
  Theorem history_all_alone :
    forall (s : sh) (history : list call),
      Forall CRO history -> snd (run_seq s history) = map (run_alone s) history.
  Proof. intros s h H. rewrite (run_seq_ro s H). reflexivity. Qed.

  Corollary repeat_same :
    forall (s : sh) (c : call) (n : nat),
      CRO c -> snd (run_seq s (repeat c n)) = repeat (run_alone s c) n.
  Proof.
    intros s c n H. rewrite history_all_alone.
    - induction n; simpl; [reflexivity | rewrite IHn; reflexivity].
    - apply Forall_forall. intros x Hx. apply repeat_spec in Hx. subst. exact H.
  Qed.
End Proofs.

(* ------------------------------------------------------------------------- *)
(* the bridge: effect classes -> regions -> read-only steps                    *)
(* ------------------------------------------------------------------------- *)

Section Bridge.
  Variables addr val : Type.
  Variable addr_eqb : addr -> addr -> bool.

  Lemma private_writes_read_only :
    forall ws : list (prim addr val),
      writes_private ws = true ->
      read_only (fun s p => step_of addr_eqb ws s p).
  Proof.
    unfold read_only. induction ws as [|w r IH]; simpl; intros H s p.
    - reflexivity.
    - apply andb_prop in H. destruct H as [Hw Hr].
      unfold do_prim. destruct (p_region w); simpl in Hw; try discriminate; apply IH; exact Hr.
  Qed.
End Bridge.

Lemma allowed_store_private :
  forall e : effect,
    allowed e = true -> e_kind e = "store"%string -> region_of_class (e_class e) <> Shared.
Proof.
  intros e H K. unfold allowed in H. rewrite K in H. simpl in H.
  intros C. rewrite C in H. discriminate.
Qed.

Lemma allowed_globalread_immutable :
  forall e : effect,
    allowed e = true -> e_kind e = "globalread"%string -> immutable_global_class (e_class e) = true.
Proof.
  intros e H K. unfold allowed in H. rewrite K in H. simpl in H. exact H.
Qed.

(* the predicate is not trivially true: the violation classes are rejected *)
Section Rejects.
Local Open Scope string_scope.
Lemma allowed_rejects_violations :
  allowed ("(*P/ast.RegexNode).Regexp", "store", "global", "store global P/ast.lastRe") = false /\
  allowed ("(*P/ast.RegexNode).Regexp", "store", "ast-write-at-exec", "store .re param n:*P/ast.RegexNode") = false /\
  allowed ("P/exec.f", "store", "input", "mapupdate load _:P/exec.Vars") = false /\
  allowed ("P/exec.f", "store", "unknown:[]byte", "store [i] param b:[]byte") = false /\
  allowed ("(*P/ast.RegexNode).Regexp", "globalread", "mutable", "P/ast.lastRe : written in (*P/ast.RegexNode).Regexp") = false /\
  allowed ("P/exec.f", "globalread", "stdlib-unknown", "time.Local : *time.Location") = false /\
  allowed ("P/exec.f", "sync", "sync", "call (*sync.Pool).Get") = false /\
  allowed ("P/exec.f", "nondet", "time.Now", "call time.Now") = false /\
  allowed ("P/exec.f", "nondet", "rand", "call math/rand.Int") = false /\
  allowed ("P/exec.f", "somethingelse", "local", "") = false.
Proof. vm_compute. repeat split. Qed.
End Rejects.

(* ------------------------------------------------------------------------- *)
(* the contrapositive: with a shared write the conclusions fail                *)
(* ------------------------------------------------------------------------- *)

Definition cache_prog : list (list (call nat nat nat)) := [[cached_call 1]; [cached_call 2]].
(* thread 0 begins and fills the cell; thread 1 runs to completion; thread 0 finishes *)
Definition cache_sched : list nat := [0; 0; 1; 1; 1; 1; 0; 0].

Lemma cached_call_not_read_only : ~ call_read_only (cached_call 1).
Proof.
  intros H. inversion H as [|? ? H1 _]; subst.
  specialize (H1 0 0). vm_compute in H1. discriminate.
Qed.

(* interleaving_irrelevant's conclusion fails: the schedule is complete, yet thread 1's
   call returns 1 although alone (on the same initial store) it returns 2 *)
Lemma shared_write_breaks_interleaving :
  complete 0 cache_prog cache_sched /\
  map (@results nat nat nat) (snd (exec 0 (start cache_prog) cache_sched)) = [[1]; [1]] /\
  map (map (run_alone 0)) cache_prog = [[1]; [2]] /\
  fst (exec 0 (start cache_prog) cache_sched) <> 0.
Proof.
  split; [|split; [|split]].
  - unfold complete. vm_compute. repeat constructor.
  - vm_compute. reflexivity.
  - vm_compute. reflexivity.
  - vm_compute. discriminate.
Qed.

(* ... and under the sequential schedule the same program returns something else again:
   schedules of a machine with a shared write do not agree *)
Lemma shared_write_schedules_disagree :
  exists sched1 sched2,
    complete 0 cache_prog sched1 /\ complete 0 cache_prog sched2 /\
    map (@results nat nat nat) (snd (exec 0 (start cache_prog) sched1)) <>
    map (@results nat nat nat) (snd (exec 0 (start cache_prog) sched2)).
Proof.
  exists [1; 1; 1; 1; 0; 0; 0; 0], cache_sched.
  split; [|split].
  - unfold complete. vm_compute. repeat constructor.
  - unfold complete. vm_compute. repeat constructor.
  - vm_compute. discriminate.
Qed.

(* history_independent's conclusion fails: after the history [cached_call 1] the call
   cached_call 2 returns 1; on a fresh machine it returns 2 *)
Lemma shared_write_breaks_history :
  last (snd (run_seq 0 ([cached_call 1] ++ [cached_call 2]))) 0 = 1 /\
  last (snd (run_seq 0 [cached_call 2])) 0 = 2.
Proof. vm_compute. split; reflexivity. Qed.

(* the same program without the cache: an instance of the theorem *)
Definition pure_prog : list (list (call nat nat nat)) := [[pure_call 1]; [pure_call 2]].

Lemma pure_prog_read_only : Forall (Forall (@call_read_only nat nat nat)) pure_prog.
Proof.
  repeat constructor; intros s p; reflexivity.
Qed.

Lemma pure_prog_any_schedule :
  forall sched, complete 0 pure_prog sched ->
    map (@results nat nat nat) (snd (exec 0 (start pure_prog) sched)) = [[1]; [2]].
Proof.
  intros sched H.
  rewrite (interleaving_irrelevant_complete pure_prog_read_only H). reflexivity.
Qed.
