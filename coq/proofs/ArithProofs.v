(* ArithProofs.v — C13: arithmetic is exact or fails loudly.

   1. executeIntegerMath: exact when the exact result fits in int64; otherwise
      the two's-complement wrap (recorded finding, refuted witnesses below);
      quotients truncate toward zero, remainders have the sign of the dividend.
   2. Division and modulo by zero: a suppressible error for ints, floats (±0)
      and every pairing of representations through execMathOp.
   3. execMathOp: which path is taken for which representations; the only
      integers it returns are wrap64 of the exact result; a float operand gives
      a float result (the IEEE-754 operation of Coq's SpecFloat).
   4. Commutativity of + and * over all nine representation pairings;
      involutivity of unary minus.
   5. The specification level (spec/Sem.v): unary operators map over every
      item of the (lax-unwrapped) operand sequence; binary operators need
      exactly one item on each side.
   6. Refuted witnesses on the concrete instance.

   No reals.  Theorems are closed under the global context. *)
From Coq Require Import ZArith Bool List Lia ZifyBool String Ascii.
From Coq Require Import Floats.SpecFloat.
From SJ Require Import lib.Base lib.F64 lib.Strconv model.Json model.Ast model.ExecLib model.Leaf
  spec.Sem extract.Instance proofs.LeafLaws.

Local Open Scope Z_scope.

(* ================================================================== *)
(* 1. Integer arithmetic                                                *)
(* ================================================================== *)

Definition is_arith (op : binop) : bool :=
  match op with BAdd | BSub | BMul | BDiv | BMod => true | _ => false end.

(* the exact mathematical result (division truncates toward zero) *)
Definition int_exact (op : binop) (a b : Z) : Z :=
  match op with
  | BAdd => a + b
  | BSub => a - b
  | BMul => a * b
  | BDiv => Z.quot a b
  | BMod => Z.rem a b
  | _ => 0
  end.

(* + - * : exact whenever the exact result is an int64 *)
Theorem C13_int_exact op a b :
  op = BAdd \/ op = BSub \/ op = BMul ->
  in_int64 (int_exact op a b) = true ->
  executeIntegerMath a b op = MOk (NInt (int_exact op a b)).
Proof.
  intros [-> | [-> | ->]] H; cbn in *; rewrite wrap64_id by exact H; reflexivity.
Qed.

(* / : truncated quotient; % : remainder with the sign of the dividend *)
Theorem C13_int_div a b :
  b <> 0 -> in_int64 (Z.quot a b) = true -> executeIntegerMath a b BDiv = MOk (NInt (Z.quot a b)).
Proof.
  intros Hb H. cbn. replace (b =? 0) with false by lia. rewrite wrap64_id by exact H. reflexivity.
Qed.

Theorem C13_int_mod a b : b <> 0 -> executeIntegerMath a b BMod = MOk (NInt (Z.rem a b)).
Proof. intros Hb. cbn. replace (b =? 0) with false by lia. reflexivity. Qed.

(* the quotient of two int64 fits unless it is MinInt64 / -1; the remainder always fits *)
Lemma quot_in_int64 a b :
  in_int64 a = true -> in_int64 b = true -> b <> 0 -> ~ (a = min_int64 /\ b = -1) ->
  in_int64 (Z.quot a b) = true.
Proof.
  unfold in_int64, min_int64, max_int64. intros Ha Hb Hz Hx.
  assert (Hq : Z.abs (Z.quot a b) <= Z.abs a).
  { rewrite <- Z.quot_abs by exact Hz. apply Z.quot_le_upper_bound; [lia|]. nia. }
  destruct (Z.eq_dec a (-9223372036854775808)) as [->|Hn]; [|lia].
  destruct (Z.eq_dec b 1) as [->|H1]; [rewrite Z.quot_1_r; lia|].
  assert (b <> -1) by (intros ->; apply Hx; split; reflexivity).
  assert (Hq2 : Z.abs (Z.quot (-9223372036854775808) b) < 9223372036854775808).
  { rewrite <- Z.quot_abs by lia. change (Z.abs (-9223372036854775808)) with 9223372036854775808.
    apply Z.quot_lt; lia. }
  lia.
Qed.
Lemma rem_in_int64 a b : in_int64 a = true -> b <> 0 -> in_int64 (Z.rem a b) = true.
Proof.
  unfold in_int64, min_int64, max_int64. intros Ha Hb.
  assert (Z.abs (Z.rem a b) <= Z.abs a).
  { rewrite <- Z.rem_abs by exact Hb.
    destruct (Z_lt_le_dec (Z.abs a) (Z.abs b)).
    - rewrite Z.rem_small by lia. lia.
    - pose proof (Z.rem_bound_pos (Z.abs a) (Z.abs b) ltac:(lia) ltac:(lia)). lia. }
  destruct (Z_le_gt_dec 0 a) as [Hp|Hn].
  - pose proof (Z.rem_nonneg a b Hb Hp). lia.
  - pose proof (Z.rem_nonpos a b Hb ltac:(lia)). lia.
Qed.

Theorem C13_int_div_int64 a b :
  in_int64 a = true -> in_int64 b = true -> b <> 0 -> ~ (a = min_int64 /\ b = -1) ->
  executeIntegerMath a b BDiv = MOk (NInt (Z.quot a b)).
Proof. intros. apply C13_int_div; [assumption|apply quot_in_int64; assumption]. Qed.

(* division and modulo by zero: a suppressible error, not a value *)
Theorem C13_int_by_zero a op :
  op = BDiv \/ op = BMod -> executeIntegerMath a 0 op = MErr (EVerbose "division by zero").
Proof. intros [-> | ->]; reflexivity. Qed.

Theorem C13_int_divisor_nonzero a b op n :
  op = BDiv \/ op = BMod -> executeIntegerMath a b op = MOk n -> b <> 0.
Proof.
  intros [-> | ->]; cbn; destruct (Z.eqb_spec b 0); intros H; try discriminate H; assumption.
Qed.

(* Whatever happens, an integer result is wrap64 of the exact result (the
   remainder is not even wrapped).  So the ONLY wrong integers are overflows. *)
Theorem C13_int_result_shape a b op n :
  executeIntegerMath a b op = MOk n ->
  is_arith op = true /\
  n = NInt (if binop_eqb op BMod then Z.rem a b else wrap64 (int_exact op a b)).
Proof.
  destruct op; cbn; intros H; try discriminate H;
    try (destruct (b =? 0); try discriminate H); injection H as <-; split; reflexivity.
Qed.

Theorem C13_int_errors_verbose a b op e :
  is_arith op = true -> executeIntegerMath a b op = MErr e -> e = EVerbose "division by zero".
Proof.
  destruct op; cbn; intros Hop H; try discriminate Hop; try discriminate H;
    destruct (b =? 0); try discriminate H; injection H as <-; reflexivity.
Qed.

(* ================================================================== *)
(* 2. Float arithmetic                                                  *)
(* ================================================================== *)
Section Float.
Variable L : ExecLib.

Theorem C13_float_by_zero a s op :
  op = BDiv \/ op = BMod ->
  executeFloatMath L a (S754_zero s) op = MErr (EVerbose "division by zero").
Proof. intros [-> | ->]; reflexivity. Qed.

Theorem C13_float_divisor_nonzero a b op n :
  op = BDiv \/ op = BMod -> executeFloatMath L a b op = MOk n -> f_is_zero b = false.
Proof.
  intros [-> | ->]; cbn; destruct b as [s|s| |s m e]; cbn; intros H; try discriminate H; reflexivity.
Qed.

(* the float path returns the SpecFloat (IEEE-754 binary64, nearest-even) operation *)
Theorem C13_float_result a b op n :
  executeFloatMath L a b op = MOk n ->
  n = NFlt (match op with
            | BAdd => SFadd 53 1024 a b
            | BSub => SFsub 53 1024 a b
            | BMul => SFmul 53 1024 a b
            | BDiv => SFdiv 53 1024 a b
            | _ => xl_mod L a b
            end).
Proof.
  destruct op; cbn; intros H; try discriminate H;
    try (destruct (f_eqb b (S754_zero false)); try discriminate H); injection H as <-; reflexivity.
Qed.

Theorem C13_float_errors_verbose a b op e :
  is_arith op = true -> executeFloatMath L a b op = MErr e -> e = EVerbose "division by zero".
Proof.
  destruct op; cbn; intros Hop H; try discriminate Hop; try discriminate H;
    destruct (f_eqb b (S754_zero false)); try discriminate H; injection H as <-; reflexivity.
Qed.

Lemma f_eqb_zero_iff b : f_eqb b (S754_zero false) = true <-> f_is_zero b = true.
Proof.
  destruct b as [s|s| |s m e]; cbn; split; intros H; try discriminate H; try reflexivity; destruct s; discriminate H.
Qed.

(* ================================================================== *)
(* 3. execMathOp: the paths                                             *)
(* ================================================================== *)

(* how execMathOp reads an operand *)
Inductive mview := MVI (z : Z) | MVF (f : f64) | MVBad.
Definition mview_of (v : json) : mview :=
  match v with
  | JNum (NInt z) => MVI z
  | JNum (NFlt f) => MVF f
  | JNum (NJs s) =>
      match js_int64 L s with
      | Some z => MVI z
      | None => match js_float64 L s with Some (f, false) => MVF f | _ => MVBad end
      end
  | _ => MVBad
  end.

(* the float a RIGHT operand contributes when the left one is a float: a
   json.Number is read with Float64() only *)
Definition rfloat (v : json) : option f64 :=
  match v with
  | JNum (NInt z) => Some (xl_of_Z L z)
  | JNum (NFlt f) => Some f
  | JNum (NJs s) => match js_float64 L s with Some (f, false) => Some f | _ => None end
  | _ => None
  end.

Theorem execMathOp_paths l r op :
  execMathOp L l r op =
  match mview_of l with
  | MVBad => MErr (mathOperandErr "left")
  | MVI a => match mview_of r with
             | MVI b => executeIntegerMath a b op
             | MVF b => executeFloatMath L (xl_of_Z L a) b op
             | MVBad => MErr (mathOperandErr "right")
             end
  | MVF a => match rfloat r with
             | Some b => executeFloatMath L a b op
             | None => MErr (mathOperandErr "right")
             end
  end.
Proof.
  unfold execMathOp, mview_of, rfloat.
  destruct l as [|?|[x|x|s]|?|? ?|? ?|?], r as [|?|[y|y|t]|?|? ?|? ?|?]; try reflexivity;
    repeat first
      [ reflexivity
      | match goal with
        | |- context [match js_int64 L ?x with _ => _ end] => destruct (js_int64 L x)
        | |- context [match js_float64 L ?x with _ => _ end] => destruct (js_float64 L x) as [[? []]|]
        end ].
Qed.

Definition math_ok (v : json) : Prop := mview_of v <> MVBad.

(* an operand that is not a (valid, in-range) number: suppressible error *)
Theorem C13_non_numeric_left l r op :
  mview_of l = MVBad -> execMathOp L l r op = MErr (mathOperandErr "left").
Proof. intros H. rewrite execMathOp_paths, H. reflexivity. Qed.

Theorem C13_non_numeric_right l r op :
  math_ok l -> mview_of r = MVBad -> rfloat r = None ->
  execMathOp L l r op = MErr (mathOperandErr "right").
Proof.
  intros Hl Hr Hf. unfold math_ok in Hl. rewrite execMathOp_paths, Hr, Hf.
  destruct (mview_of l); try reflexivity. exfalso; apply Hl; reflexivity.
Qed.

Lemma mathOperandErr_verbose pos : is_verbose (mathOperandErr pos) = true.
Proof. reflexivity. Qed.

(* every error of a binary arithmetic operator is suppressible *)
Theorem C13_errors_verbose l r op e :
  is_arith op = true -> execMathOp L l r op = MErr e -> is_verbose e = true.
Proof.
  intros Hop. rewrite execMathOp_paths.
  destruct (mview_of l) as [a|a|].
  - destruct (mview_of r) as [b|b|]; intros H.
    + rewrite (C13_int_errors_verbose _ _ _ _ Hop H). reflexivity.
    + rewrite (C13_float_errors_verbose _ _ _ _ Hop H). reflexivity.
    + injection H as <-. reflexivity.
  - destruct (rfloat r) as [b|]; intros H.
    + rewrite (C13_float_errors_verbose _ _ _ _ Hop H). reflexivity.
    + injection H as <-. reflexivity.
  - intros H. injection H as <-. reflexivity.
Qed.

(* both operands integers: the integer operation *)
Theorem C13_both_int l r op a b :
  mview_of l = MVI a -> mview_of r = MVI b -> execMathOp L l r op = executeIntegerMath a b op.
Proof. intros Hl Hr. rewrite execMathOp_paths, Hl, Hr. reflexivity. Qed.

Corollary C13_both_int_exact l r op a b :
  mview_of l = MVI a -> mview_of r = MVI b ->
  op = BAdd \/ op = BSub \/ op = BMul ->
  in_int64 (int_exact op a b) = true ->
  execMathOp L l r op = MOk (NInt (int_exact op a b)).
Proof. intros Hl Hr Hop H. rewrite (C13_both_int l r op a b Hl Hr). apply C13_int_exact; assumption. Qed.

(* An integer result comes from two integer operands and is wrap64 of the
   exact result: execMathOp never invents another integer. *)
Theorem C13_int_exact_or_overflow l r op z :
  execMathOp L l r op = MOk (NInt z) ->
  exists a b, mview_of l = MVI a /\ mview_of r = MVI b /\ is_arith op = true /\
              z = (if binop_eqb op BMod then Z.rem a b else wrap64 (int_exact op a b)).
Proof.
  rewrite execMathOp_paths.
  destruct (mview_of l) as [a|a|]; [| |discriminate].
  - destruct (mview_of r) as [b|b|]; [| |discriminate]; intros H.
    + destruct (C13_int_result_shape _ _ _ _ H) as [Hop Hn]. injection Hn as ->.
      exists a, b. auto.
    + apply C13_float_result in H. discriminate H.
  - destruct (rfloat r) as [b|]; [|discriminate]. intros H.
    apply C13_float_result in H. discriminate H.
Qed.

Corollary C13_int_result_exact_when_fits l r op z a b :
  execMathOp L l r op = MOk (NInt z) -> mview_of l = MVI a -> mview_of r = MVI b ->
  in_int64 (int_exact op a b) = true -> z = int_exact op a b.
Proof.
  intros H Hl Hr Hfit.
  destruct (C13_int_exact_or_overflow _ _ _ _ H) as (a' & b' & Hl' & Hr' & Hop & ->).
  rewrite Hl in Hl'. rewrite Hr in Hr'. injection Hl' as <-. injection Hr' as <-.
  destruct op; try discriminate Hop; cbn [binop_eqb]; try (apply wrap64_id; exact Hfit). reflexivity.
Qed.

(* a float operand (float64, or a json.Number that is not an integer text)
   gives a float result *)
Theorem C13_float_operand_float_result l r op n :
  (exists f, mview_of l = MVF f) \/ (exists f, mview_of r = MVF f) ->
  execMathOp L l r op = MOk n -> exists g, n = NFlt g.
Proof.
  rewrite execMathOp_paths. intros [[f Hf]|[f Hf]].
  - rewrite Hf. destruct (rfloat r) as [b|]; [|discriminate]. intros H.
    apply C13_float_result in H. eauto.
  - rewrite Hf. destruct (mview_of l) as [a|a|]; [| |discriminate].
    + intros H. apply C13_float_result in H. eauto.
    + destruct (rfloat r) as [b|]; [|discriminate]. intros H. apply C13_float_result in H. eauto.
Qed.

(* ---- division by zero through execMathOp, every pairing ---- *)
Definition zero_divisor (r : json) : Prop :=
  match r with
  | JNum (NInt z) => z = 0
  | JNum (NFlt f) => f_is_zero f = true
  | JNum (NJs s) => js_int64 L s = Some 0 \/
                    (js_int64 L s = None /\ exists f, js_float64 L s = Some (f, false) /\ f_is_zero f = true)
  | _ => False
  end.

Hypothesis NL : NumLaws L.

Lemma js_int_float_flag s z : js_int64 L s = Some z -> exists f, js_float64 L s = Some (f, false) /\
  (f = xl_of_Z L z \/ (z = 0 /\ f = S754_zero true)).
Proof.
  intros H. destruct (nl_js_int_float L NL s z H) as [E|[-> E]]; rewrite E; eexists; split; eauto.
Qed.

Theorem C13_div_by_zero l r op :
  op = BDiv \/ op = BMod -> zero_divisor r ->
  execMathOp L l r op = MErr (if match mview_of l with MVBad => true | _ => false end
                              then mathOperandErr "left" else EVerbose "division by zero").
Proof.
  intros Hop Hz. rewrite execMathOp_paths.
  destruct (mview_of l) as [a|a|]; [| |reflexivity].
  - (* integer on the left *)
    destruct r as [| |[b|b|t]| | | |]; cbn in Hz; try contradiction; cbn [mview_of].
    + subst b. apply C13_int_by_zero; exact Hop.
    + destruct b; try discriminate Hz. apply C13_float_by_zero; exact Hop.
    + destruct Hz as [Hz|[Hz (f & Hf & Hf0)]]; rewrite Hz.
      * apply C13_int_by_zero; exact Hop.
      * rewrite Hf. destruct f; try discriminate Hf0. apply C13_float_by_zero; exact Hop.
  - (* float on the left *)
    destruct r as [| |[b|b|t]| | | |]; cbn in Hz; try contradiction; cbn [rfloat].
    + subst b. rewrite (nl_ofZ_0 L NL). apply C13_float_by_zero; exact Hop.
    + destruct b; try discriminate Hz. apply C13_float_by_zero; exact Hop.
    + destruct Hz as [Hz|[Hz (f & Hf & Hf0)]].
      * destruct (js_int_float_flag t 0 Hz) as (f & -> & [->|[_ ->]]).
        -- rewrite (nl_ofZ_0 L NL). apply C13_float_by_zero; exact Hop.
        -- apply C13_float_by_zero; exact Hop.
      * rewrite Hf. destruct f; try discriminate Hf0. apply C13_float_by_zero; exact Hop.
Qed.

Corollary C13_div_by_zero_verbose l r op :
  op = BDiv \/ op = BMod -> zero_divisor r -> exists m, execMathOp L l r op = MErr (EVerbose m).
Proof.
  intros Hop Hz. rewrite (C13_div_by_zero l r op Hop Hz).
  destruct (mview_of l); eexists; reflexivity.
Qed.

(* conversely a quotient or remainder is only ever returned for a divisor that is not zero *)
Theorem C13_quotient_divisor_nonzero l r op n :
  op = BDiv \/ op = BMod -> execMathOp L l r op = MOk n -> ~ zero_divisor r.
Proof.
  intros Hop H Hz. destruct (C13_div_by_zero_verbose l r op Hop Hz) as [m E]. rewrite E in H. discriminate H.
Qed.

End Float.

(* ================================================================== *)
(* 4. Commutativity, involution                                         *)
(* ================================================================== *)
Section Comm.
Variable L : ExecLib.

Lemma intmath_comm a b op : op = BAdd \/ op = BMul -> executeIntegerMath a b op = executeIntegerMath b a op.
Proof. intros [-> | ->]; cbn; [rewrite Z.add_comm|rewrite Z.mul_comm]; reflexivity. Qed.

Lemma fadd_comm a b : fadd a b = fadd b a.
Proof. exact (f64_add_comm a b). Qed.
Lemma fmul_comm a b : fmul a b = fmul b a.
Proof. exact (f64_mul_comm a b). Qed.

Lemma floatmath_comm a b op : op = BAdd \/ op = BMul -> executeFloatMath L a b op = executeFloatMath L b a op.
Proof. intros [-> | ->]; cbn; [rewrite fadd_comm|rewrite fmul_comm]; reflexivity. Qed.

(* Int64() and Float64() of a json.Number text agree *)
Definition js_consistent (v : json) : Prop :=
  forall s z, v = JNum (NJs s) -> js_int64 L s = Some z -> js_float64 L s = Some (xl_of_Z L z, false).

(* the exception: the text of a negative integer zero, "-0" *)
Definition negzero_js (v : json) : Prop :=
  exists s, v = JNum (NJs s) /\ js_int64 L s = Some 0 /\ js_float64 L s = Some (S754_zero true, false).

Lemma js_consistent_from_laws v : NumLaws L -> ~ negzero_js v -> js_consistent v.
Proof.
  intros NL Hn s z -> Hz. destruct (nl_js_int_float L NL s z Hz) as [E|[-> E]]; [exact E|].
  exfalso. apply Hn. exists s. auto.
Qed.

Lemma rfloat_of_view v :
  js_consistent v ->
  rfloat L v = match mview_of L v with MVI z => Some (xl_of_Z L z) | MVF f => Some f | MVBad => None end.
Proof.
  intros Hc. destruct v as [| |[a|a|s]| | | |]; try reflexivity. cbn.
  destruct (js_int64 L s) as [z|] eqn:E.
  - rewrite (Hc s z eq_refl E). reflexivity.
  - destruct (js_float64 L s) as [[f []]|]; reflexivity.
Qed.

(* x + y = y + x and x * y = y * x, all nine pairings of int64 / float64 / json.Number *)
Theorem C13_comm op l r :
  op = BAdd \/ op = BMul ->
  math_ok L l -> math_ok L r -> js_consistent l -> js_consistent r ->
  execMathOp L l r op = execMathOp L r l op.
Proof.
  intros Hop Hl Hr Cl Cr. rewrite !execMathOp_paths, (rfloat_of_view l Cl), (rfloat_of_view r Cr).
  unfold math_ok in *.
  destruct (mview_of L l) as [a|a|], (mview_of L r) as [b|b|];
    try (exfalso; apply Hl; reflexivity); try (exfalso; apply Hr; reflexivity).
  - apply intmath_comm; exact Hop.
  - apply floatmath_comm; exact Hop.
  - apply floatmath_comm; exact Hop.
  - apply floatmath_comm; exact Hop.
Qed.

Corollary C13_add_comm l r :
  math_ok L l -> math_ok L r -> js_consistent l -> js_consistent r ->
  execMathOp L l r BAdd = execMathOp L r l BAdd.
Proof. apply C13_comm; auto. Qed.
Corollary C13_mul_comm l r :
  math_ok L l -> math_ok L r -> js_consistent l -> js_consistent r ->
  execMathOp L l r BMul = execMathOp L r l BMul.
Proof. apply C13_comm; auto. Qed.

Corollary C13_comm_under_laws op l r :
  NumLaws L -> op = BAdd \/ op = BMul ->
  math_ok L l -> math_ok L r -> ~ negzero_js l -> ~ negzero_js r ->
  execMathOp L l r op = execMathOp L r l op.
Proof. intros NL Hop Hl Hr Nl Nr. apply C13_comm; auto using js_consistent_from_laws. Qed.

(* when an operand is not numeric both orders fail with a suppressible error
   (the message names the side, so the two errors differ) *)
Theorem C13_comm_errors op l r :
  mview_of L l = MVBad \/ (mview_of L r = MVBad /\ rfloat L r = None) ->
  (exists e, execMathOp L l r op = MErr e /\ is_verbose e = true) /\
  (exists e, execMathOp L r l op = MErr e /\ is_verbose e = true).
Proof.
  intros [Hl|[Hr Hf]].
  - split.
    + rewrite execMathOp_paths, Hl. eexists; split; reflexivity.
    + rewrite execMathOp_paths. destruct (mview_of L r).
      * rewrite Hl. eexists; split; reflexivity.
      * assert (rfloat L l = None) as ->.
        { destruct l as [| |[a|a|s]| | | |]; try reflexivity; try discriminate Hl. cbn in *.
          destruct (js_int64 L s); [discriminate Hl|]. destruct (js_float64 L s) as [[? []]|]; try reflexivity; discriminate Hl. }
        eexists; split; reflexivity.
      * eexists; split; reflexivity.
  - split.
    + rewrite execMathOp_paths, Hr, Hf. destruct (mview_of L l); eexists; split; reflexivity.
    + rewrite execMathOp_paths, Hr. eexists; split; reflexivity.
Qed.

End Comm.

(* ---- unary minus ---- *)
Theorem C13_intUMinus_exact x : in_int64 x = true -> x <> min_int64 -> intUMinus x = - x.
Proof.
  unfold intUMinus, in_int64, min_int64, max_int64. intros Hx Hm. apply wrap64_id.
  unfold in_int64, min_int64, max_int64. lia.
Qed.

Theorem C13_intUMinus_involutive x : in_int64 x = true -> intUMinus (intUMinus x) = x.
Proof.
  intros Hx. destruct (Z.eq_dec x min_int64) as [->|Hm]; [reflexivity|].
  rewrite (C13_intUMinus_exact x Hx Hm).
  rewrite C13_intUMinus_exact; [lia| |].
  - unfold in_int64, min_int64, max_int64 in *. lia.
  - unfold in_int64, min_int64, max_int64 in *. lia.
Qed.

Theorem C13_fneg_involutive f : fneg (fneg f) = f.
Proof. exact (f64_neg_involutive f). Qed.

Theorem C13_intAbs_exact x : in_int64 x = true -> x <> min_int64 -> intAbs x = Z.abs x.
Proof.
  intros Hx Hm. unfold intAbs. destruct (Z.ltb_spec x 0).
  - fold (intUMinus x). rewrite C13_intUMinus_exact by assumption. lia.
  - lia.
Qed.

(* ================================================================== *)
(* 5. The specification level: operand sequences                        *)
(* ================================================================== *)
Section SemArith.
Variables (L : ExecLib) (C : cenv) (Q : quirks).
Notation SS := (sem_step L C Q).
Notation SC := (sem_chain L C Q).

Lemma tbind_list_ext (f g : json -> trace) l : (forall x, f x = g x) -> tbind_list l f = tbind_list l g.
Proof. intros H. induction l as [|x l IH]; cbn; [reflexivity|]. rewrite H, IH. reflexivity. Qed.

(* what a unary operator does to ONE item of its operand *)
Definition unary_item (minus : bool) (x : json) : json + err :=
  let bad := inr (EVerbose "operand of unary jsonpath operator is not a numeric value") in
  match x with
  | JNum (NInt z) => inl (JNum (NInt (if minus then intUMinus z else z)))
  | JNum (NFlt f) => inl (JNum (NFlt (if minus then fneg f else f)))
  | JNum (NJs t) =>
      match castJSONNumber L t (if minus then intUMinus else fun z => z) (if minus then fneg else fun f => f) with
      | Some n => inl (JNum n)
      | None => bad
      end
  | _ => bad
  end.

Definition is_minus (op : unop) : bool := match op with UMinus => true | _ => false end.

(* unary + and - apply to EVERY item of the operand sequence (unwrapped in lax
   mode), in order; the first non-numeric item is a suppressible error *)
Theorem C13_unary_maps_over op a k c z ig u v :
  op = UPlus \/ op = UMinus ->
  SS (SUn op a) k c z ig u v =
  let t := SC a c z ig (laxm C) v in
  match snd t with
  | Some e => tfail e
  | None =>
      tbind_list (if laxm C then unwrapSeq (fst t) else fst t)
        (fun x => match unary_item (is_minus op) x with
                  | inl y => k z ig y
                  | inr e => tfail e
                  end)
  end.
Proof.
  intros [-> | ->]; cbv zeta;
    change (SS (SUn ?o a) k c z ig u v) with
      (let t := SC a c z ig (laxm C) v in
       match snd t with
       | Some e => tfail e
       | None =>
           tbind_list (if laxm C then unwrapSeq (fst t) else fst t)
             (fun x =>
                match x with
                | JNum (NInt z0) => k z ig (JNum (NInt (if is_minus o then intUMinus z0 else z0)))
                | JNum (NFlt f) => k z ig (JNum (NFlt (if is_minus o then fneg f else f)))
                | JNum (NJs t') =>
                    match castJSONNumber L t' (if is_minus o then intUMinus else fun z => z)
                            (if is_minus o then fneg else fun f => f) with
                    | Some n => k z ig (JNum n)
                    | None => tfail (EVerbose "operand of unary jsonpath operator is not a numeric value")
                    end
                | _ => tfail (EVerbose "operand of unary jsonpath operator is not a numeric value")
                end)
       end);
    cbv zeta; destruct (snd (SC a c z ig (laxm C) v)); try reflexivity;
    apply tbind_list_ext; intros x; destruct x as [| |[n|f|t]| | | |]; try reflexivity;
    cbn [unary_item is_minus]; destruct (castJSONNumber L t _ _); reflexivity.
Qed.

Lemma unary_item_error_verbose m x e : unary_item m x = inr e -> is_verbose e = true.
Proof.
  destruct x as [| |[n|f|t]| | | |]; cbn; intros H; try discriminate H; try (injection H as <-; reflexivity).
  destruct (castJSONNumber L t _ _); [discriminate H|injection H as <-; reflexivity].
Qed.

(* at the end of a path: all items numeric => the result is the mapped sequence *)
Fixpoint map_unary (m : bool) (l : list json) : list json * option err :=
  match l with
  | [] => ([], None)
  | x :: r => match unary_item m x with
              | inl y => let '(ys, e) := map_unary m r in (y :: ys, e)
              | inr e => ([], Some e)
              end
  end.

Lemma tbind_map_unary m l :
  tbind_list l (fun x => match unary_item m x with inl y => tone y | inr e => tfail e end) = map_unary m l.
Proof.
  induction l as [|x l IH]; cbn [tbind_list map_unary]; [reflexivity|].
  rewrite IH. destruct (unary_item m x) as [y|e]; [|reflexivity].
  destruct (map_unary m l) as [ys e']. reflexivity.
Qed.

Corollary C13_unary_result op a c z ig u v items :
  op = UPlus \/ op = UMinus ->
  SC a c z ig (laxm C) v = (items, None) ->
  SC [SUn op a] c z ig u v = map_unary (is_minus op) (if laxm C then unwrapSeq items else items).
Proof.
  intros Hop Ha.
  change (SC [SUn op a] c z ig u v) with
    (SS (SUn op a) (fun lsz' ig' x => SC [] c lsz' ig' (laxm C) x) c z ig u v).
  rewrite C13_unary_maps_over by exact Hop. cbv zeta. rewrite Ha. cbn [fst snd].
  apply tbind_map_unary.
Qed.

(* every numeric item is negated: for a sequence of int64/float64 items *)
Definition neg_num (x : json) : json :=
  match x with
  | JNum (NInt z) => JNum (NInt (intUMinus z))
  | JNum (NFlt f) => JNum (NFlt (fneg f))
  | y => y
  end.
Definition plain_num (x : json) : Prop :=
  match x with JNum (NInt _) | JNum (NFlt _) => True | _ => False end.

Theorem C13_unary_minus_all l : Forall plain_num l -> map_unary true l = (map neg_num l, None).
Proof.
  induction 1 as [|x l Hx _ IH]; [reflexivity|]. cbn [map_unary map].
  destruct x as [| |[n|f|t]| | | |]; try contradiction; cbn [unary_item]; rewrite IH; reflexivity.
Qed.
Theorem C13_unary_plus_all l : Forall plain_num l -> map_unary false l = (l, None).
Proof.
  induction 1 as [|x l Hx _ IH]; [reflexivity|]. cbn [map_unary].
  destruct x as [| |[n|f|t]| | | |]; try contradiction; cbn [unary_item]; rewrite IH; reflexivity.
Qed.

(* binary operators: exactly one item on each side *)
Theorem C13_binary_operands op l r k c z ig u v :
  is_bool_binop op = false ->
  SS (SBin op l r) k c z ig u v =
  let tl := SC l c z ig (laxm C) v in
  match snd tl with
  | Some e => tfail e
  | None =>
      match (if laxm C then unwrapSeq (fst tl) else fst tl) with
      | [lv] =>
          let tr := SC r c z ig (laxm C) v in
          match snd tr with
          | Some e => tfail e
          | None =>
              match (if laxm C then unwrapSeq (fst tr) else fst tr) with
              | [rv] => match execMathOp L lv rv op with
                        | MErr e => tfail e
                        | MOk n => k z ig (JNum n)
                        end
              | _ => tfail (mathOperandErr "right")
              end
          end
      | _ => tfail (mathOperandErr "left")
      end
  end.
Proof. destruct op; intros H; try discriminate H; reflexivity. Qed.

Definition singleton {A} (l : list A) : Prop := exists x, l = [x].

Theorem C13_binary_left_not_single op l r k c z ig u v items :
  is_bool_binop op = false ->
  SC l c z ig (laxm C) v = (items, None) ->
  ~ singleton (if laxm C then unwrapSeq items else items) ->
  SS (SBin op l r) k c z ig u v = tfail (mathOperandErr "left").
Proof.
  intros Hop Hl Hn. rewrite C13_binary_operands by exact Hop. cbv zeta. rewrite Hl. cbn [fst snd].
  destruct (if laxm C then unwrapSeq items else items) as [|x [|y rest]]; try reflexivity.
  exfalso. apply Hn. exists x. reflexivity.
Qed.

Theorem C13_binary_right_not_single op l r k c z ig u v lv ritems litems :
  is_bool_binop op = false ->
  SC l c z ig (laxm C) v = (litems, None) ->
  (if laxm C then unwrapSeq litems else litems) = [lv] ->
  SC r c z ig (laxm C) v = (ritems, None) ->
  ~ singleton (if laxm C then unwrapSeq ritems else ritems) ->
  SS (SBin op l r) k c z ig u v = tfail (mathOperandErr "right").
Proof.
  intros Hop Hl Hlv Hr Hn. rewrite C13_binary_operands by exact Hop. cbv zeta.
  rewrite Hl. cbn [fst snd]. rewrite Hlv, Hr. cbn [fst snd].
  destruct (if laxm C then unwrapSeq ritems else ritems) as [|x [|y rest]]; try reflexivity.
  exfalso. apply Hn. exists x. reflexivity.
Qed.

Theorem C13_binary_singletons op l r k c z ig u v lv rv litems ritems :
  is_bool_binop op = false ->
  SC l c z ig (laxm C) v = (litems, None) ->
  (if laxm C then unwrapSeq litems else litems) = [lv] ->
  SC r c z ig (laxm C) v = (ritems, None) ->
  (if laxm C then unwrapSeq ritems else ritems) = [rv] ->
  SS (SBin op l r) k c z ig u v =
  match execMathOp L lv rv op with MErr e => tfail e | MOk n => k z ig (JNum n) end.
Proof.
  intros Hop Hl Hlv Hr Hrv. rewrite C13_binary_operands by exact Hop. cbv zeta.
  rewrite Hl. cbn [fst snd]. rewrite Hlv, Hr. cbn [fst snd]. rewrite Hrv. reflexivity.
Qed.

End SemArith.

(* ================================================================== *)
(* 6. The concrete instance: non-vacuity and refuted witnesses          *)
(* ================================================================== *)

(* hypotheses of the theorems above are satisfiable *)
Example C13_examples :
  execMathOp lib0 (JNum (NInt 7)) (JNum (NInt (-2))) BDiv = MOk (NInt (-3)) /\
  execMathOp lib0 (JNum (NInt (-7))) (JNum (NInt 2)) BMod = MOk (NInt (-1)) /\
  execMathOp lib0 (JNum (NJs "7")) (JNum (NJs "2.5")) BAdd = execMathOp lib0 (JNum (NJs "2.5")) (JNum (NJs "7")) BAdd /\
  math_ok lib0 (JNum (NJs "2.5")) /\ js_consistent lib0 (JNum (NJs "7")) /\
  zero_divisor lib0 (JNum (NJs "0.0")) /\
  execMathOp lib0 (JNum (NFlt (S754_zero false))) (JNum (NJs "0.0")) BDiv = MErr (EVerbose "division by zero").
Proof.
  split; [vm_compute; reflexivity|]. split; [vm_compute; reflexivity|].
  split; [vm_compute; reflexivity|].
  split; [unfold math_ok; vm_compute; discriminate|].
  split.
  { intros s z E. injection E as <-. intros H. vm_compute in H. injection H as <-. vm_compute. reflexivity. }
  split.
  { right. split; [vm_compute; reflexivity|]. exists (S754_zero false). split; vm_compute; reflexivity. }
  vm_compute; reflexivity.
Qed.

(* Known finding: + - * / and unary minus wrap at the int64 boundary instead of
   switching to float64 or failing *)
Theorem C13_refuted_wrap :
  executeIntegerMath 9223372036854775807 1 BAdd = MOk (NInt (-9223372036854775808)) /\
  executeIntegerMath (-9223372036854775808) 1 BSub = MOk (NInt 9223372036854775807) /\
  executeIntegerMath 4611686018427387904 2 BMul = MOk (NInt (-9223372036854775808)) /\
  executeIntegerMath (-9223372036854775808) (-1) BDiv = MOk (NInt (-9223372036854775808)) /\
  intUMinus (-9223372036854775808) = -9223372036854775808 /\
  intAbs (-9223372036854775808) = -9223372036854775808 /\
  execMathOp lib0 (JNum (NInt 9223372036854775807)) (JNum (NJs "1")) BAdd = MOk (NInt (-9223372036854775808)).
Proof. vm_compute. repeat split. Qed.

(* Known finding: a float result may be ±Inf (and then NaN) — not an error today *)
Theorem C13_refuted_float_overflow :
  match parse_float "1e300" with
  | Some (f, _) =>
      execMathOp lib0 (JNum (NFlt f)) (JNum (NFlt f)) BMul = MOk (NFlt (S754_infinity false)) /\
      execMathOp lib0 (JNum (NFlt (S754_infinity false))) (JNum (NFlt (S754_infinity false))) BSub = MOk (NFlt S754_nan)
  | None => False
  end.
Proof. vm_compute. split; reflexivity. Qed.

(* Finding: the json.Number "-0" is +0 as a left operand (Int64() succeeds) but
   -0 as the right operand of a float (Float64() only), so * and + do not
   commute on it — the results differ in the sign of zero *)
Theorem C13_refuted_comm_negzero :
  let two := S754_finite false 4503599627370496 (-51) in
  negzero_js lib0 (JNum (NJs "-0")) /\
  execMathOp lib0 (JNum (NJs "-0")) (JNum (NFlt two)) BMul = MOk (NFlt (S754_zero false)) /\
  execMathOp lib0 (JNum (NFlt two)) (JNum (NJs "-0")) BMul = MOk (NFlt (S754_zero true)) /\
  execMathOp lib0 (JNum (NJs "-0")) (JNum (NFlt (S754_zero true))) BAdd = MOk (NFlt (S754_zero false)) /\
  execMathOp lib0 (JNum (NFlt (S754_zero true))) (JNum (NJs "-0")) BAdd = MOk (NFlt (S754_zero true)).
Proof.
  cbv zeta. split; [exists "-0"%string; repeat split|]; vm_compute; repeat split.
Qed.

Print Assumptions C13_int_exact.
Print Assumptions C13_int_div_int64.
Print Assumptions C13_int_mod.
Print Assumptions rem_in_int64.
Print Assumptions C13_int_by_zero.
Print Assumptions C13_int_result_shape.
Print Assumptions C13_float_by_zero.
Print Assumptions C13_float_result.
Print Assumptions execMathOp_paths.
Print Assumptions C13_errors_verbose.
Print Assumptions C13_both_int_exact.
Print Assumptions C13_int_exact_or_overflow.
Print Assumptions C13_int_result_exact_when_fits.
Print Assumptions C13_float_operand_float_result.
Print Assumptions C13_div_by_zero.
Print Assumptions C13_quotient_divisor_nonzero.
Print Assumptions C13_comm.
Print Assumptions C13_comm_under_laws.
Print Assumptions C13_comm_errors.
Print Assumptions C13_intUMinus_involutive.
Print Assumptions C13_fneg_involutive.
Print Assumptions C13_intAbs_exact.
Print Assumptions C13_unary_maps_over.
Print Assumptions C13_unary_result.
Print Assumptions C13_unary_minus_all.
Print Assumptions C13_binary_operands.
Print Assumptions C13_binary_left_not_single.
Print Assumptions C13_binary_right_not_single.
Print Assumptions C13_binary_singletons.
Print Assumptions C13_refuted_wrap.
Print Assumptions C13_refuted_float_overflow.
Print Assumptions C13_refuted_comm_negzero.
