(* PropGlue_CMP.v — the few corollaries props/C12.v cites that combine lemmas of
   proofs/CompareProofs.v with each other or with the refinement theorem
   proofs/RefineClosed.v [refine_run] (transfer to the executor model M), and two
   vm_compute witnesses on the model.  No new mathematics: [class_all] glues the
   per-type order classes of CompareProofs into one class of all items, and
   the [all_*] theorems are the generic order theorems at that class.
   Stdlib only, no axioms. *)
From Coq Require Import ZArith Bool List String Floats.SpecFloat.
From SJ Require Import lib.Base lib.F64 model.Json model.Ast model.ExecLib model.Leaf model.Exec
     model.GoTime model.DateTime
     spec.Sem spec.Proj proofs.LeafLaws proofs.KleeneProofs proofs.DateTimeProofs proofs.CompareProofs
     proofs.RefineDefs proofs.Refine proofs.RefineClosed proofs.RefineWitness.
Import ListNotations.
Local Open Scope Z_scope.

(* ---------- the vocabulary of CompareProofs, spelled out ---------- *)

Theorem holds_fails_def L useTZ op a b :
  (holds L useTZ op a b <-> compareItems L useTZ op a b = Ret (PTrue, None)) /\
  (fails L useTZ op a b <-> compareItems L useTZ op a b = Ret (PFalse, None)).
Proof. split; apply iff_refl. Qed.

(* the six operators read one integer sign; flip mirrors an operator *)
Theorem truth_flip_def :
  (forall c, truth BEq c = (c =? 0) /\ truth BNe c = negb (c =? 0) /\ truth BLt c = (c <? 0) /\
             truth BGt c = (c >? 0) /\ truth BLe c = (c <=? 0) /\ truth BGe c = (c >=? 0)) /\
  flip BLt = BGt /\ flip BGt = BLt /\ flip BLe = BGe /\ flip BGe = BLe /\ flip BEq = BEq /\ flip BNe = BNe.
Proof. repeat split. Qed.

(* the partial three-way comparison behind compareItems *)
Theorem item_cmp_def L useTZ a b :
  item_cmp L useTZ a b =
  match a, b with
  | JNull, JNull => Some 0
  | JBool x, JBool y => Some (compareBool x y)
  | JStr x, JStr y => Some (cmp_of_comparison (str_compare x y))
  | JNum x, JNum y => match compareNumeric L x y with Ret c => Some c | _ => None end
  | JDt x, JDt y => match xl_dt_compare L useTZ x y with ExecLib.CmpOk c => Some c | _ => None end
  | _, _ => None
  end.
Proof. reflexivity. Qed.

Theorem ordclass_def L useTZ (D : json -> Prop) :
  OrdClass L useTZ D <->
  (forall a b c, D a -> D b -> item_cmp L useTZ a b = Some c -> item_cmp L useTZ b a = Some (- c)) /\
  (forall a b c x y, D a -> D b -> D c ->
     item_cmp L useTZ a b = Some x -> item_cmp L useTZ b c = Some y -> x <= 0 -> y <= 0 ->
     exists z, item_cmp L useTZ a c = Some z /\ z <= 0 /\ (x < 0 \/ y < 0 -> z < 0)).
Proof. split; [intros [H1 H2]; split; assumption|intros [H1 H2]; split; assumption]. Qed.

(* how compareNumeric reads an operand: as an integer, as a float, or not at all *)
Theorem num_vocabulary L :
  (forall z, good_num L (NInt z) = (Z.abs z <= two53) /\ nkey L (NInt z) = xl_of_Z L z /\ int_like L (NInt z) z) /\
  (forall f, good_num L (NFlt f) = notnan f /\ nkey L (NFlt f) = f /\ forall z, ~ int_like L (NFlt f) z) /\
  (forall s z, js_int64 L s = Some z ->
     good_num L (NJs s) = (Z.abs z <= two53) /\ nkey L (NJs s) = xl_of_Z L z /\ int_like L (NJs s) z) /\
  (forall s f fl, js_int64 L s = None -> js_float64 L s = Some (f, fl) ->
     good_num L (NJs s) = notnan f /\ nkey L (NJs s) = f /\ forall z, ~ int_like L (NJs s) z) /\
  (forall s, js_int64 L s = None -> js_float64 L s = None -> good_num L (NJs s) = False) /\
  (forall f, notnan f <-> f_is_nan f = false) /\ two53 = 9007199254740992.
Proof.
  unfold good_num, nkey, int_like, nview_of, notnan. repeat split; intros;
    repeat match goal with
           | H : js_int64 _ _ = _ |- _ => rewrite H in *; clear H
           | H : js_float64 _ _ = _ |- _ => rewrite H in *; clear H
           end;
    try reflexivity; try discriminate; try assumption.
Qed.

(* ---------- one order class for all items ---------- *)
Section All.
Variables (L : ExecLib) (useTZ : bool) (Dd : datetime -> Prop).
Hypothesis NL : NumLaws L.
Hypothesis DL : DtLaws L Dd.

(* the items the order theorems speak about: numbers outside the recorded
   exclusions, datetimes of the domain of the datetime laws, anything else *)
Definition cmp_dom (v : json) : Prop :=
  match v with JNum n => good_num L n | JDt d => Dd d | _ => True end.

Theorem class_all : OrdClass L useTZ cmp_dom.
Proof.
  split.
  - intros a b c Da Db H.
    destruct a, b; try (cbn in H; discriminate H).
    + apply (oc_antisym _ _ _ (class_null L useTZ)); [reflexivity|reflexivity|exact H].
    + apply (oc_antisym _ _ _ (class_bool L useTZ)); [eexists; reflexivity|eexists; reflexivity|exact H].
    + apply (oc_antisym _ _ _ (class_num L useTZ NL));
        [eexists; split; [reflexivity|exact Da]|eexists; split; [reflexivity|exact Db]|exact H].
    + apply (oc_antisym _ _ _ (class_str L useTZ)); [eexists; reflexivity|eexists; reflexivity|exact H].
    + apply (oc_antisym _ _ _ (class_dt L useTZ Dd DL));
        [eexists; split; [reflexivity|exact Da]|eexists; split; [reflexivity|exact Db]|exact H].
  - intros a b c x y Da Db Dc H1 H2 Hx Hy.
    destruct a, b; try (cbn in H1; discriminate H1); destruct c; try (cbn in H2; discriminate H2).
    + apply (oc_trans _ _ _ (class_null L useTZ) JNull JNull JNull x y); try reflexivity; assumption.
    + apply (oc_trans _ _ _ (class_bool L useTZ) (JBool b0) (JBool b) (JBool b1) x y);
        try (eexists; reflexivity); assumption.
    + apply (oc_trans _ _ _ (class_num L useTZ NL) (JNum n) (JNum n0) (JNum n1) x y);
        try (eexists; split; [reflexivity|assumption]); assumption.
    + apply (oc_trans _ _ _ (class_str L useTZ) (JStr s) (JStr s0) (JStr s1) x y);
        try (eexists; reflexivity); assumption.
    + apply (oc_trans _ _ _ (class_dt L useTZ Dd DL) (JDt d) (JDt d0) (JDt d1) x y);
        try (eexists; split; [reflexivity|assumption]); assumption.
Qed.

Theorem all_duality_eq op a b c :
  cmp_dom a -> cmp_dom b -> KleeneProofs.is_cmp op = true -> item_cmp L useTZ a b = Some c ->
  compareItems L useTZ op a b = compareItems L useTZ (flip op) b a.
Proof. exact (C12_duality_eq L useTZ cmp_dom class_all op a b c). Qed.

Theorem all_duality op a b :
  cmp_dom a -> cmp_dom b -> KleeneProofs.is_cmp op = true ->
  (holds L useTZ op a b <-> holds L useTZ (flip op) b a).
Proof. exact (C12_duality L useTZ cmp_dom class_all op a b). Qed.

Theorem all_lt_gt_le_ge_eq a b :
  cmp_dom a -> cmp_dom b ->
  (holds L useTZ BLt a b <-> holds L useTZ BGt b a) /\
  (holds L useTZ BLe a b <-> holds L useTZ BGe b a) /\
  (holds L useTZ BEq a b <-> holds L useTZ BEq b a) /\
  (holds L useTZ BNe a b <-> holds L useTZ BNe b a).
Proof.
  intros Da Db. repeat split;
    first [ apply (C12_lt_gt L useTZ cmp_dom class_all a b Da Db)
          | apply (C12_le_ge L useTZ cmp_dom class_all a b Da Db)
          | apply (C12_eq_sym L useTZ cmp_dom class_all a b Da Db)
          | apply (C12_duality L useTZ cmp_dom class_all BNe a b Da Db eq_refl) ].
Qed.

Theorem all_refl a c :
  cmp_dom a -> item_cmp L useTZ a a = Some c ->
  holds L useTZ BEq a a /\ holds L useTZ BLe a a /\ holds L useTZ BGe a a.
Proof. exact (C12_refl L useTZ cmp_dom class_all a c). Qed.

Theorem all_le_trans a b c :
  cmp_dom a -> cmp_dom b -> cmp_dom c -> holds L useTZ BLe a b -> holds L useTZ BLe b c ->
  holds L useTZ BLe a c /\ (holds L useTZ BLt a b \/ holds L useTZ BLt b c -> holds L useTZ BLt a c).
Proof. exact (C12_le_trans L useTZ cmp_dom class_all a b c). Qed.

Theorem all_trans a b c :
  cmp_dom a -> cmp_dom b -> cmp_dom c ->
  (holds L useTZ BLt a b -> holds L useTZ BLt b c -> holds L useTZ BLt a c) /\
  (holds L useTZ BEq a b -> holds L useTZ BEq b c -> holds L useTZ BEq a c) /\
  (holds L useTZ BGt a b -> holds L useTZ BGt b c -> holds L useTZ BGt a c) /\
  (holds L useTZ BGe a b -> holds L useTZ BGe b c -> holds L useTZ BGe a c).
Proof.
  intros Da Db Dc. split; [|split; [|split]].
  - exact (C12_lt_trans L useTZ cmp_dom class_all a b c Da Db Dc).
  - exact (C12_eq_trans L useTZ cmp_dom class_all a b c Da Db Dc).
  - exact (C12_gt_trans L useTZ cmp_dom class_all a b c Da Db Dc).
  - intros H1 H2.
    apply (C12_le_ge L useTZ cmp_dom class_all c a Dc Da).
    apply (C12_le_trans L useTZ cmp_dom class_all c b a Dc Db Da).
    + apply (C12_le_ge L useTZ cmp_dom class_all c b Dc Db). exact H2.
    + apply (C12_le_ge L useTZ cmp_dom class_all b a Db Da). exact H1.
Qed.
End All.

(* which pairs are comparable (item_cmp is defined), per type *)
Theorem comparable_pairs L useTZ :
  item_cmp L useTZ JNull JNull = Some 0 /\
  (forall x y, item_cmp L useTZ (JBool x) (JBool y) = Some (compareBool x y)) /\
  (forall x y, item_cmp L useTZ (JStr x) (JStr y) = Some (cmp_of_comparison (str_compare x y))) /\
  (NumLaws L -> forall a b, good_num L a -> good_num L b ->
     exists c, fcmp (nkey L a) (nkey L b) = Some c /\
               item_cmp L useTZ (JNum a) (JNum b) = Some (cmp_of_comparison c)) /\
  (forall a b c, xl_dt_compare L useTZ a b = ExecLib.CmpOk c -> item_cmp L useTZ (JDt a) (JDt b) = Some c) /\
  (forall a b c, item_cmp L useTZ a b = Some c -> kind_of a = kind_of b /\ is_container a = false).
Proof.
  split; [reflexivity|]. split; [reflexivity|]. split; [reflexivity|].
  split; [intros NL a b; exact (num_comparable L useTZ NL a b)|].
  split.
  - intros a b c H. cbn. rewrite H. reflexivity.
  - intros a b c H. destruct a, b; try (cbn in H; discriminate H); split; reflexivity.
Qed.

(* the order of the datetime keys (DateTimeProofs.lex3_le / lex3_lt on explicit triples) *)
Theorem lex3_triples s1 n1 p1 s2 n2 p2 :
  (lex3 (s1, n1, p1) (s2, n2, p2) <= 0 <-> s1 < s2 \/ (s1 = s2 /\ (n1 < n2 \/ (n1 = n2 /\ p1 <= p2)))) /\
  (lex3 (s1, n1, p1) (s2, n2, p2) < 0 <-> s1 < s2 \/ (s1 = s2 /\ (n1 < n2 \/ (n1 = n2 /\ p1 < p2)))).
Proof. split; [exact (lex3_le (s1, n1, p1) (s2, n2, p2))|exact (lex3_lt (s1, n1, p1) (s2, n2, p2))]. Qed.

(* the key of a datetime value under WithTZ *)
Theorem cmp_key_def ctx d :
  cmp_key ctx d =
  match dt_kind d with
  | KTimestampTZ => (dt_sec d, dt_nsec d, 0)
  | KDate | KTimestamp => (dt_sec (dt_to_timestamptz ctx d), dt_nsec (dt_to_timestamptz ctx d), 0)
  | KTimeTZ => (dt_sec d, dt_nsec d, - dt_off d)
  | KTime => (dt_sec (dt_to_timetz ctx d), dt_nsec (dt_to_timetz ctx d), - dt_off (dt_to_timetz ctx d))
  end.
Proof. unfold cmp_key. destruct (dt_kind d); reflexivity. Qed.

(* ---------- the specification's predicates on operand sequences ---------- *)

(* the operand sequence of a comparison-like predicate: the items of the
   operand's trace (arrays unwrapped in lax mode when [unwrap]); a trace that
   ends in an error gives no sequence *)
Theorem operand_def L C Q n unwrap c z ig v :
  KleeneProofs.operand L C Q n unwrap c z ig v =
  let t := sem_chain L C Q n c z ig (laxm C) v in
  match snd t with
  | Some e => inr (hard e)
  | None => inl (if unwrap && laxm C then unwrapSeq (fst t) else fst t)
  end.
Proof. reflexivity. Qed.

Theorem operand_error L C Q op l r c z ig v e :
  KleeneProofs.is_cmp op = true ->
  KleeneProofs.operand L C Q l true c z ig v = inr e \/
  (exists ls, KleeneProofs.operand L C Q l true c z ig v = inl ls /\ KleeneProofs.operand L C Q r true c z ig v = inr e) ->
  sem_pred L C Q (SBin op l r) c z ig v = (PUnknown, e).
Proof.
  intros Hop H. rewrite sp_cmp by exact Hop. unfold KleeneProofs.predicate.
  destruct H as [H|(ls & H1 & H2)].
  - rewrite H. reflexivity.
  - rewrite H1, H2. reflexivity.
Qed.

Theorem sem_startswith L C Q l r c z ig v ls rs :
  KleeneProofs.operand L C Q l true c z ig v = inl ls -> KleeneProofs.operand L C Q r false c z ig v = inl rs ->
  sem_pred L C Q (SBin BStartsWith l r) c z ig v =
  spairs (negb (laxm C)) executeStartsWith ls rs false false.
Proof. intros Hl Hr. rewrite sp_startswith. unfold KleeneProofs.predicate. rewrite Hl, Hr. reflexivity. Qed.

Theorem sem_like_regex L C Q a pat flags c z ig v ls :
  KleeneProofs.operand L C Q a true c z ig v = inl ls ->
  sem_pred L C Q (SRegex a pat flags) c z ig v =
  spairs (negb (laxm C)) (fun x _ => executeLikeRegex L pat flags x) ls [JNull] false false.
Proof. intros Hl. rewrite sp_regex. unfold KleeneProofs.predicate. rewrite Hl. reflexivity. Qed.

(* ---------- transfer to the model M ---------- *)

(* What M's predicate evaluation answers for [l op r] (any of the six operators)
   is the lax/strict pair loop over the operand sequences of the specification,
   with compareItems as the callback. *)
Theorem model_cmp (L : ExecLib) (E : env) (C : cenv) :
  agrees E C -> e_cancel_at E = None -> members_canon L ->
  forall fuel op l r next v c s p s' ls rs,
    KleeneProofs.is_cmp op = true ->
    run L E fuel (RBool (SBin op l r :: next) v c) s = Ret (ABool p, s') ->
    no_kv (SBin op l r :: next) = true -> exists_ok (SBin op l r :: next) = true ->
    ne_ops (SBin op l r :: next) = true -> (c = false -> next = []) ->
    KleeneProofs.operand L C quirks_code l true (cur s) (last_size s) (ign s) v = inl ls ->
    KleeneProofs.operand L C quirks_code r true (cur s) (last_size s) (ign s) v = inl rs ->
    (p_out p, option_map eclass (p_err p)) =
    (fst (spairs (negb (laxm C)) (fun a b => total_cb (compareItems L (c_useTZ C) op a b)) ls rs false false),
     option_map eclass
       (snd (spairs (negb (laxm C)) (fun a b => total_cb (compareItems L (c_useTZ C) op a b)) ls rs false false))).
Proof.
  intros Hag Hc Hm fuel op l r next v c s p s' ls rs Hop Hrun Hkv Hex Hne Hnext Hl Hr.
  destruct (refine_run L E C Hag Hc Hm fuel) as (_ & _ & R3).
  rewrite <- (C12_sem_cmp L C quirks_code op l r (cur s) (last_size s) (ign s) v ls rs Hop Hl Hr).
  exact (R3 (SBin op l r) next v c s p s' Hrun Hkv Hex Hne Hnext).
Qed.

(* the two modes on the model: the predicate check  $[*] == 1  on [1, "a"] *)
Definition p_modes (laxm : bool) : path :=
  mkpath laxm true [SBin BEq [SConst CRoot; SConst CAnyArray] [SInteger 1]].
Definition doc_modes : json := JArr 1 [JNum (NInt 1); JStr "a"].

Example model_modes_differ :
  Query L0 20 (p_modes true) doc_modes (o0 false) = Ret (QItems [JBool true]) /\
  Query L0 20 (p_modes false) doc_modes (o0 false) = Ret (QItems [JNull]) /\
  p_query false (sem_of L0 quirks_code (p_modes true) doc_modes (o0 false)) = QItems [JBool true] /\
  p_query false (sem_of L0 quirks_code (p_modes false) doc_modes (o0 false)) = QItems [JNull].
Proof. vm_compute. repeat split. Qed.

Print Assumptions holds_fails_def.
Print Assumptions truth_flip_def.
Print Assumptions item_cmp_def.
Print Assumptions ordclass_def.
Print Assumptions num_vocabulary.
Print Assumptions class_all.
Print Assumptions all_trans.
Print Assumptions comparable_pairs.
Print Assumptions lex3_triples.
Print Assumptions cmp_key_def.
Print Assumptions operand_def.
Print Assumptions operand_error.
Print Assumptions sem_startswith.
Print Assumptions sem_like_regex.
Print Assumptions model_cmp.
Print Assumptions model_modes_differ.
