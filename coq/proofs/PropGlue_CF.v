(* PropGlue_CF.v — the few corollaries props/C09.v (composition) and props/C10.v
   (filters) cite that combine lemmas of different proof files:

     - the transfer of the composition laws of ComposeProofs.v and of the filter
       laws of FilterProofs.v to the executor model M, through
       RefineClosed.query_is_trace;
     - a filter after an arbitrary prefix path, in terms of the prefix's items
       (FilterProofs states the filter step on the candidates of ONE value);
     - the defining equation of FilterProofs.filter_item;
     - vm_compute witnesses that the hypotheses of the transfer theorems hold of
       a concrete library, path and document.
   Stdlib only, no axioms. *)
From Coq Require Import Floats.SpecFloat.
From SJ Require Import lib.Base model.Json model.Ast model.ExecLib model.Leaf model.Exec
     spec.Sem spec.Proj proofs.SemBasics proofs.RefineDefs proofs.Refine proofs.RefineClosed
     proofs.RefineWitness proofs.DescendProofs proofs.ComposeProofs proofs.FilterProofs.

(* two answers of the model that project the same trace are the same answer
   (items equal; errors of the same class) *)
Lemma qres_sim_join a b t : qres_sim a t -> qres_sim b t -> qres_sim a b.
Proof.
  destruct a as [l|[e|]], b as [l'|[e'|]], t as [l''|[e''|]]; cbn [qres_sim apierr_sim];
    try contradiction; try congruence; auto.
Qed.

(* the bind of the statements below (the definition of SemBasics.tbind_trace):
   k on the items in order, concatenating until the first failure, then the
   trace's own failure *)
Lemma tbind_trace_eq t k : tbind_trace t k = tapp (tbind_list (fst t) k) ([], snd t).
Proof. reflexivity. Qed.

(* ------------------------------------------------------------------ *)
(* C09 on the model *)

(* Query of the model on P S returns the projection of: the trace of P, bound
   to the trace of $ S on each item *)
Theorem compose_model (L : ExecLib) (lax pred : bool) (P S : chain) (doc : json) (o : opts) :
  o_cancel_at o = None -> members_canon L -> P <> [] ->
  no_kv (P ++ S) = true -> exists_ok (P ++ S) = true -> ne_ops (P ++ S) = true ->
  root_free S = true -> cur_free S = true -> last_closed S = true ->
  (lax = true \/ any_free P = true) ->
  forall fuel q, Query L fuel (mkpath lax pred (P ++ S)) doc o = Ret q ->
  qres_sim q (p_query (o_silent o)
                (tbind_trace (sem_of L quirks_code (mkpath lax pred P) doc o)
                   (fun x => sem_of L quirks_code (mkpath lax pred (SConst CRoot :: S)) x o))).
Proof.
  intros Hnc Hmc HP K1 K2 K3 Hr Hc Hl Hm fuel q H.
  assert (Hne : p_root (mkpath lax pred (P ++ S)) <> []) by (destruct P; [congruence | discriminate]).
  pose proof (query_is_trace L (mkpath lax pred (P ++ S)) doc o Hnc Hmc Hne K1 K2 K3 fuel q H) as T.
  unfold sem_of in *. cbn [p_root p_lax] in *.
  rewrite (ComposeProofs.C09_compose L (mkcenv lax doc (o_vars o) (o_useTZ o)) quirks_code P S HP Hr Hc Hl Hm) in T. exact T.
Qed.

(* a path that starts from a variable: the model's Query on (x S, doc) and on
   ($ S, value of x) give the same answer *)
Theorem variable_start_model (L : ExecLib) (lax pred : bool) (x : string) (val : json) (S : chain)
        (doc : json) (o : opts) :
  o_cancel_at o = None -> members_canon L ->
  no_kv S = true -> exists_ok S = true -> ne_ops S = true ->
  lookup x (o_vars o) = Some val ->
  root_free S = true -> cur_free S = true -> last_closed S = true ->
  forall fuel fuel' q q',
    Query L fuel (mkpath lax pred (SVar x :: S)) doc o = Ret q ->
    Query L fuel' (mkpath lax pred (SConst CRoot :: S)) val o = Ret q' ->
    qres_sim q q'.
Proof.
  intros Hnc Hmc K1 K2 K3 Hx Hr Hc Hl fuel fuel' q q' H H'.
  pose proof (query_is_trace L (mkpath lax pred (SVar x :: S)) doc o Hnc Hmc
                ltac:(discriminate) K1 K2 K3 fuel q H) as T.
  pose proof (query_is_trace L (mkpath lax pred (SConst CRoot :: S)) val o Hnc Hmc
                ltac:(discriminate) K1 K2 K3 fuel' q' H') as T'.
  unfold sem_of in *. cbn [p_root p_lax] in *.
  rewrite (ComposeProofs.C09_variable_start L (mkcenv lax doc (o_vars o) (o_useTZ o)) quirks_code x val S Hx Hr Hc Hl) in T.
  exact (qres_sim_join _ _ _ T T').
Qed.

(* ... or from a literal *)
Theorem literal_start_model (L : ExecLib) (lax pred : bool) (s : step) (val : json) (S : chain)
        (doc : json) (o : opts) :
  o_cancel_at o = None -> members_canon L ->
  no_kv S = true -> exists_ok S = true -> ne_ops S = true ->
  literal_value s = Some val ->
  root_free S = true -> cur_free S = true -> last_closed S = true ->
  forall fuel fuel' q q',
    Query L fuel (mkpath lax pred (s :: S)) doc o = Ret q ->
    Query L fuel' (mkpath lax pred (SConst CRoot :: S)) val o = Ret q' ->
    qres_sim q q'.
Proof.
  intros Hnc Hmc K1 K2 K3 Hs Hr Hc Hl fuel fuel' q q' H H'.
  assert (K : no_kv (s :: S) = true /\ exists_ok (s :: S) = true /\ ne_ops (s :: S) = true).
  { destruct s as [[]| | | | | | | | | | | | |]; try discriminate Hs; repeat split; assumption. }
  destruct K as (K1' & K2' & K3').
  pose proof (query_is_trace L (mkpath lax pred (s :: S)) doc o Hnc Hmc
                ltac:(discriminate) K1' K2' K3' fuel q H) as T.
  pose proof (query_is_trace L (mkpath lax pred (SConst CRoot :: S)) val o Hnc Hmc
                ltac:(discriminate) K1 K2 K3 fuel' q' H') as T'.
  unfold sem_of in *. cbn [p_root p_lax] in *.
  rewrite (ComposeProofs.C09_literal_start L (mkcenv lax doc (o_vars o) (o_useTZ o)) quirks_code s val S Hs Hr Hc Hl) in T.
  exact (qres_sim_join _ _ _ T T').
Qed.

(* non-vacuity of compose_model: strict $.a[*] and .b on the document of
   ComposeProofs; the model returns the failure the bind predicts (1, 2, then .b
   on the number 7) *)
Example compose_model_witness :
  members_canon L0 /\ o_cancel_at (o0 false) = None /\ cP <> [] /\
  no_kv (cP ++ cS) = true /\ exists_ok (cP ++ cS) = true /\ ne_ops (cP ++ cS) = true /\
  root_free cS = true /\ cur_free cS = true /\ last_closed cS = true /\ any_free cP = true /\
  Query L0 40 (mkpath false false (cP ++ cS)) cdoc (o0 false) =
    Ret (QErr (AErr (EVerbose "jsonpath member accessor can only be applied to an object"))) /\
  Query L0 40 (mkpath false false (cP ++ cS)) cdoc (o0 true) = Ret (QItems [n_ 1; n_ 2]) /\
  Query L0 40 (mkpath false false cP) cdoc (o0 false) =
    Ret (QItems [JObj 2 [("b", n_ 1)]; JObj 3 [("b", n_ 2)]; n_ 7]%string) /\
  Query L0 40 (mkpath false false (SConst CRoot :: cS)) (JObj 2 [("b", n_ 1)]%string) (o0 false) =
    Ret (QItems [n_ 1]) /\
  Query L0 40 (mkpath false false (SConst CRoot :: cS)) (n_ 7) (o0 false) =
    Ret (QErr (AErr (EVerbose "jsonpath member accessor can only be applied to an object"))).
Proof.
  split; [exact L0_canon|]. split; [reflexivity|]. split; [discriminate|].
  vm_compute. repeat split; reflexivity.
Qed.

(* ------------------------------------------------------------------ *)
(* C10 *)

(* what the filter does with one candidate (the definition of filter_item) *)
Lemma filter_item_eq L C Q c l ig k x :
  filter_item L C Q c l ig k x =
  match sem_pred L C Q c x l ig x with
  | (_, Some e) => tfail e
  | (PTrue, None) => k x
  | (_, None) => tnil
  end.
Proof. reflexivity. Qed.

(* P ? (c): the filter applied to the items of P, in order, each after one
   level of unwrapping in lax mode; P's own failure comes last *)
Theorem filter_of_prefix L C Q P c :
  last_closed [SUn UFilter [c]] = true ->
  (c_lax C = true \/ any_free P = true) ->
  sem_path L C Q (P ++ [SUn UFilter [c]]) =
  tbind_trace (sem_path L C Q P)
    (fun v => tbind_list (candidates (c_lax C) v) (filter_item L C Q c (-1) (c_lax C) tone)).
Proof.
  intros Hl Hig. rewrite !sem_path_eq, chain_app.
  rewrite (chain_k_bind L C Q P _
             (fun x => sem_chain L C Q [SUn UFilter [c]] (c_root C) (-1) (laxm C) (laxm C) x)).
  - apply tbind_trace_ext. intros v _. rewrite sem_chain_cons, filter_spec.
    change (laxm C) with (c_lax C). apply tbind_ext_all. intros x. rewrite !filter_item_eq.
    destruct (sem_pred L C Q c x (-1) (c_lax C) x) as [[] [e|]]; rewrite ?sem_chain_nil; reflexivity.
  - intros l' x. now apply last_closed_independent.
  - exact Hig.
Qed.

Lemma tbind_list_pure (f : json -> list json) xs :
  tbind_list xs (fun v => (f v, None)) = (flat_map f xs, None).
Proof.
  induction xs as [|x r IH]; [reflexivity|]. cbn [tbind_list flat_map]. now rewrite IH, tapp_ok_l.
Qed.

Lemma flat_map_filter {A B} (p : B -> bool) (f : A -> list B) xs :
  flat_map (fun v => filter p (f v)) xs = filter p (flat_map f xs).
Proof. induction xs as [|x r IH]; [reflexivity|]. cbn [flat_map]. now rewrite filter_app, IH. Qed.

(* P succeeded and the condition raises no non-suppressible error on any
   candidate: P ? (c) returns exactly the candidates on which c is true *)
Theorem filter_of_prefix_items L C Q P c xs :
  last_closed [SUn UFilter [c]] = true ->
  (c_lax C = true \/ any_free P = true) ->
  sem_path L C Q P = (xs, None) ->
  (forall v x, In v xs -> In x (candidates (c_lax C) v) -> snd (sem_pred L C Q c x (-1) (c_lax C) x) = None) ->
  sem_path L C Q (P ++ [SUn UFilter [c]]) =
  (filter (keeps L C Q c (-1) (c_lax C)) (flat_map (candidates (c_lax C)) xs), None).
Proof.
  intros Hl Hig HP Hh. rewrite (filter_of_prefix L C Q P c Hl Hig), HP, tbind_trace_ok.
  rewrite (SemBasics.tbind_ext xs _ (fun v => (filter (keeps L C Q c (-1) (c_lax C)) (candidates (c_lax C) v), None))).
  - rewrite tbind_list_pure. f_equal. apply flat_map_filter.
  - intros v Hv.
    pose proof (filter_no_hard_error L C Q c (fun _ _ x => tone x) (c_root C) (-1) (c_lax C) (c_lax C) v
                  (fun x Hx => Hh v x Hv Hx)) as E.
    rewrite filter_spec in E. exact (eq_trans E (tbind_tone _)).
Qed.

Lemma sublist_app {A} (a b c d : list A) : sublist a b -> sublist c d -> sublist (a ++ c) (b ++ d).
Proof.
  intros H K. induction H as [l|x l1 l2 H IH|x l1 l2 H IH]; cbn [app].
  - induction l; cbn [app]; [exact K | now constructor].
  - now constructor.
  - now constructor.
Qed.

(* always — whatever fails, in P or in the condition: what P ? (c) returns is an
   order-preserving subsequence of the candidates of P's items, and every
   returned item made the condition true *)
Theorem filter_of_prefix_sublist L C Q P c :
  last_closed [SUn UFilter [c]] = true ->
  (c_lax C = true \/ any_free P = true) ->
  sublist (fst (sem_path L C Q (P ++ [SUn UFilter [c]])))
          (flat_map (candidates (c_lax C)) (fst (sem_path L C Q P))) /\
  Forall (fun x => sem_pred L C Q c x (-1) (c_lax C) x = (PTrue, None) \/
                   exists e, sem_pred L C Q c x (-1) (c_lax C) x = (PTrue, Some e))
         (fst (sem_path L C Q (P ++ [SUn UFilter [c]]))).
Proof.
  intros Hl Hig. rewrite (filter_of_prefix L C Q P c Hl Hig).
  set (k := fun v => tbind_list (candidates (c_lax C) v) (filter_item L C Q c (-1) (c_lax C) tone)).
  assert (K : forall v, sublist (fst (k v)) (candidates (c_lax C) v) /\
                        Forall (fun x => keeps L C Q c (-1) (c_lax C) x = true) (fst (k v))).
  { intros v. pose proof (filter_sublist_always L C Q c (c_root C) (-1) (c_lax C) (c_lax C) v) as E.
    rewrite filter_spec in E. exact E. }
  assert (G : forall xs, sublist (fst (tbind_list xs k)) (flat_map (candidates (c_lax C)) xs) /\
                         Forall (fun x => keeps L C Q c (-1) (c_lax C) x = true) (fst (tbind_list xs k))).
  { induction xs as [|x r [IH1 IH2]]; [split; constructor|].
    cbn [tbind_list flat_map]. rewrite fst_tapp. destruct (K x) as [K1 K2].
    destruct (snd (k x)); split; try assumption.
    - now apply sublist_app_l.
    - now apply sublist_app.
    - apply Forall_app. now split. }
  unfold tbind_trace. rewrite fst_tapp. cbn [fst]. rewrite app_nil_r.
  destruct (G (fst (sem_path L C Q P))) as [G1 G2].
  assert (W : Forall (fun x => sem_pred L C Q c x (-1) (c_lax C) x = (PTrue, None) \/
                               exists e, sem_pred L C Q c x (-1) (c_lax C) x = (PTrue, Some e))
                     (fst (tbind_list (fst (sem_path L C Q P)) k))).
  { eapply Forall_impl; [|exact G2]. intros x Hx. unfold keeps in Hx.
    destruct (sem_pred L C Q c x (-1) (c_lax C) x) as [[] [e|]]; try discriminate Hx; [right; now exists e | now left]. }
  destruct (snd (tbind_list (fst (sem_path L C Q P)) k)); split; assumption.
Qed.

(* transfer to the model: Query on P ? (c) returns the projection of that trace *)
Theorem filter_model (L : ExecLib) (lax pred : bool) (P : chain) (c : step) (doc : json) (o : opts) :
  o_cancel_at o = None -> members_canon L ->
  no_kv (P ++ [SUn UFilter [c]]) = true -> exists_ok (P ++ [SUn UFilter [c]]) = true ->
  ne_ops (P ++ [SUn UFilter [c]]) = true ->
  last_closed [SUn UFilter [c]] = true ->
  (lax = true \/ any_free P = true) ->
  forall fuel q, Query L fuel (mkpath lax pred (P ++ [SUn UFilter [c]])) doc o = Ret q ->
  qres_sim q (p_query (o_silent o)
                (tbind_trace (sem_of L quirks_code (mkpath lax pred P) doc o)
                   (fun v => tbind_list (candidates lax v)
                      (filter_item L (mkcenv lax doc (o_vars o) (o_useTZ o)) quirks_code c (-1) lax tone)))).
Proof.
  intros Hnc Hmc K1 K2 K3 Hl Hm fuel q H.
  assert (Hne : p_root (mkpath lax pred (P ++ [SUn UFilter [c]])) <> []) by (destruct P; discriminate).
  pose proof (query_is_trace L _ doc o Hnc Hmc Hne K1 K2 K3 fuel q H) as T.
  unfold sem_of in *. cbn [p_root p_lax] in *.
  rewrite (filter_of_prefix L (mkcenv lax doc (o_vars o) (o_useTZ o)) quirks_code P c Hl Hm) in T. exact T.
Qed.

(* the model's Query on the predicate check expression c[@:=$], run on the item,
   answers [true] exactly when the filter keeps the item *)
Theorem predicate_check_model (L : ExecLib) (lax : bool) (c : step) (doc x : json) (l : Z) (o : opts) :
  o_cancel_at o = None -> members_canon L ->
  no_kv [subst_step c] = true -> exists_ok [subst_step c] = true -> ne_ops [subst_step c] = true ->
  SemBasics.is_pred_step c = true -> indep c true false true = true ->
  forall fuel q, Query L fuel (mkpath lax true [subst_step c]) x o = Ret q ->
  (q = QItems [JBool true] <->
   sem_pred L (mkcenv lax doc (o_vars o) (o_useTZ o)) quirks_code c x l lax x = (PTrue, None)).
Proof.
  intros Hnc Hmc K1 K2 K3 Hp Hi fuel q H.
  pose proof (query_is_trace L (mkpath lax true [subst_step c]) x o Hnc Hmc
                ltac:(discriminate) K1 K2 K3 fuel q H) as T.
  unfold sem_of in T. cbn [p_root p_lax] in T.
  rewrite (kept_iff_predicate_check L (mkcenv lax doc (o_vars o) (o_useTZ o)) quirks_code c x l Hp Hi).
  unfold set_root. cbn [c_lax c_vars c_useTZ].
  set (C' := mkcenv lax x (o_vars o) (o_useTZ o)) in *.
  assert (Et : sem_path L C' quirks_code [subst_step c] =
               pred_item (sem_pred L C' quirks_code (subst_step c) x (-1) lax x) tone).
  { rewrite sem_path_eq, sem_chain_cons, sem_step_of_pred by (now apply subst_pred_step).
    change (c_root C') with x. change (laxm C') with lax.
    destruct (sem_pred L C' quirks_code (subst_step c) x (-1) lax x) as [p [e|]];
      cbn [pred_item]; rewrite ?sem_chain_nil; reflexivity. }
  rewrite Et in *. destruct (sem_pred L C' quirks_code (subst_step c) x (-1) lax x) as [p [e|]]; cbn [pred_item] in *.
  - unfold p_query, tfail in T. cbn [fst snd] in T.
    split; intros E; [|discriminate E]. subst q. destruct (Proj.vis (o_silent o) e); simpl in T;
      [contradiction | discriminate T].
  - unfold p_query, tone in T. cbn [fst snd] in T. destruct q as [l0|a]; cbn [qres_sim] in T; [|contradiction].
    subst l0. split; intros E.
    + injection E as E. unfold tone. now rewrite E.
    + unfold tone in E. injection E as E. now rewrite E.
Qed.

(* non-vacuity of filter_model and predicate_check_model: strict $[*] ? (@ > 0)
   on [0,1,2,3,2] with the library of RefineWitness *)
Example filter_model_witness :
  members_canon L0 /\ o_cancel_at (o0 false) = None /\
  no_kv ([SConst CRoot; SConst CAnyArray] ++ [SUn UFilter [gt0]]) = true /\
  exists_ok ([SConst CRoot; SConst CAnyArray] ++ [SUn UFilter [gt0]]) = true /\
  ne_ops ([SConst CRoot; SConst CAnyArray] ++ [SUn UFilter [gt0]]) = true /\
  last_closed [SUn UFilter [gt0]] = true /\ any_free [SConst CRoot; SConst CAnyArray] = true /\
  SemBasics.is_pred_step gt0 = true /\ indep gt0 true false true = true /\
  subst_step gt0 = SBin BGt [SConst CRoot] [SInteger 0] /\
  Query L0 40 (mkpath false false ([SConst CRoot; SConst CAnyArray] ++ [SUn UFilter [gt0]])) fdoc (o0 false) =
    Ret (QItems [fn_ 1; fn_ 2; fn_ 3; fn_ 2]) /\
  Query L0 40 (mkpath false false [SConst CRoot; SConst CAnyArray]) fdoc (o0 false) =
    Ret (QItems [fn_ 0; fn_ 1; fn_ 2; fn_ 3; fn_ 2]) /\
  Query L0 40 (mkpath false true [subst_step gt0]) (fn_ 0) (o0 false) = Ret (QItems [JBool false]) /\
  Query L0 40 (mkpath false true [subst_step gt0]) (fn_ 1) (o0 false) = Ret (QItems [JBool true]).
Proof.
  split; [exact L0_canon|]. split; [reflexivity|].
  vm_compute. repeat split; reflexivity.
Qed.

(* the repaired defect (c714021): a non-suppressible error inside a filter
   condition aborts the query in the model — also with WithSilent, also for
   Exists in strict mode; a suppressible one ("a" of a number, strict) drops the
   item.  odoc = [1, {"a":5}, 2], boom = (@ == $x) with x unbound, unk = (@.a == 5) *)
Example filter_hard_error_model_witness :
  Query L0 40 (mkpath false false [SConst CRoot; SConst CAnyArray; SUn UFilter [boom]]) odoc (o0 false) =
    Ret (QErr (AErr (EExec "could not find jsonpath variable"))) /\
  Query L0 40 (mkpath false false [SConst CRoot; SConst CAnyArray; SUn UFilter [boom]]) odoc (o0 true) =
    Ret (QErr (AErr (EExec "could not find jsonpath variable"))) /\
  Exists L0 40 (mkpath false false [SConst CRoot; SUn UFilter [boom]]) (fn_ 1) (o0 false) =
    Ret (BErr (AErr (EExec "could not find jsonpath variable"))) /\
  Query L0 40 (mkpath false false [SConst CRoot; SConst CAnyArray; SUn UFilter [unk]]) odoc (o0 false) =
    Ret (QItems [JObj 1 [("a", fn_ 5)]%string]).
Proof. vm_compute. repeat split; reflexivity. Qed.

(* known finding KF-C11-isunknown-hard-error inside a filter: under "is unknown"
   the hard error of the condition becomes true, so the code (and the
   specification with quirks_code) keeps every item where the documented rule
   (quirks_ideal) aborts the query *)
Example filter_isunknown_quirk_witness :
  Query L0 40 (mkpath false false [SConst CRoot; SConst CAnyArray; SUn UFilter [SUn UIsUnknown [boom]]])
        odoc (o0 false) = Ret (QItems [fn_ 1; JObj 1 [("a", fn_ 5)]%string; fn_ 2]) /\
  sem_path L0 (mkcenv false odoc [] false) quirks_code
           [SConst CRoot; SConst CAnyArray; SUn UFilter [SUn UIsUnknown [boom]]] =
    ([fn_ 1; JObj 1 [("a", fn_ 5)]%string; fn_ 2], None) /\
  sem_path L0 (mkcenv false odoc [] false) quirks_ideal
           [SConst CRoot; SConst CAnyArray; SUn UFilter [SUn UIsUnknown [boom]]] =
    ([], Some (EExec "could not find jsonpath variable")).
Proof. vm_compute. repeat split; reflexivity. Qed.

Print Assumptions compose_model.
Print Assumptions variable_start_model.
Print Assumptions literal_start_model.
Print Assumptions compose_model_witness.
Print Assumptions filter_of_prefix.
Print Assumptions filter_of_prefix_items.
Print Assumptions filter_of_prefix_sublist.
Print Assumptions filter_model.
Print Assumptions predicate_check_model.
Print Assumptions filter_model_witness.
Print Assumptions filter_hard_error_model_witness.
Print Assumptions filter_isunknown_quirk_witness.
