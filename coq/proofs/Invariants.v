(* Invariants.v — state invariants of the executor model (model/Exec.v), for every
   fuel, library instance, environment, request and initial state:

     frame_run      (Invariants1)  a call restores the mutable context (C09, C08)
     coherent_run   an error object always comes with a failure
     quiet_run      no suppressible error object leaves a call made with
                    verbose = false; predicates never return one (C08)
     found_run      the collecting list only grows by appending; its mode is fixed
     cancel_run     cancellation is never mistaken for a result (C20)

   and their consequences for the five entry points (Query, First, Exists, Match,
   ExistsOrMatch): *_cancel and *_silent_never_verbose.

   The proofs are in Invariants1.v (frame), Invariants2.v (result values) and
   Invariants3.v (cancellation); each proves "body preserves the invariant"
   function by function, in the order of Exec.v, and closes with
   RunBasics.run_inv.  Stdlib only, no axioms. *)
From SJ Require Import lib.Base model.Json model.Ast model.ExecLib model.Leaf model.Exec
     proofs.RunBasics proofs.InvTac.
From SJ Require Export proofs.Invariants1 proofs.Invariants2 proofs.Invariants3.

(* ---------- 1. Frame: Invariants1.frame_run ---------- *)
Check frame_run :
  forall L E fuel r s a s', run L E fuel r s = Ret (a, s') -> frame s s'.

(* [run] answers an item request with an item and a bool request with a bool *)
Lemma run_kind L E fuel r s a s' :
  run L E fuel r s = Ret (a, s') ->
  match r, a with
  | RItem _ _ _ _, AItem _ | RAny _ _ _ _ _ _ _ _, AItem _ | RBool _ _ _, ABool _ => True
  | _, _ => False
  end.
Proof.
  destruct fuel as [|k]; intros H; [discriminate H|].
  rewrite run_S in H. eapply body_kind; exact H.
Qed.

(* ---------- 2. Result coherence ---------- *)
Theorem coherent_run : forall L E fuel r s a s', run L E fuel r s = Ret (a, s') ->
  match a with
  | AItem x => forall e, r_err x = Some e -> r_st x = SFailed
  | ABool p => forall e, p_err p = Some e -> p_out p = PUnknown
  end.
Proof.
  intros L E fuel r s a s' H.
  pose proof (run_kind _ _ _ _ _ _ _ H) as K. pose proof (vals_run _ _ _ _ _ _ _ H) as V.
  unfold vpost in V. destruct r, a; try contradiction; intros e He.
  - destruct V as (_ & Hc & _). apply (Hc e He).
  - destruct V as (_ & Hc & _). apply (Hc e He).
  - destruct V as (_ & Hc). apply (Hc e He).
Qed.

(* ---------- 3. Quiet ---------- *)
Theorem quiet_run : forall L E fuel r s a s', run L E fuel r s = Ret (a, s') ->
  match a with
  | AItem x => forall e, r_err x = Some e -> is_verbose e = true -> verbose s = true
  | ABool p => forall e, p_err p = Some e -> is_verbose e = false
  end.
Proof.
  intros L E fuel r s a s' H.
  pose proof (run_kind _ _ _ _ _ _ _ H) as K. pose proof (vals_run _ _ _ _ _ _ _ H) as V.
  unfold vpost in V. destruct r, a; try contradiction; intros e He.
  - destruct V as (_ & Hc & _). apply (Hc e He).
  - destruct V as (_ & Hc & _). apply (Hc e He).
  - destruct V as (_ & Hc). apply (Hc e He).
Qed.

(* ---------- 4. Found discipline ---------- *)
Theorem found_run : forall L E fuel r s a s', run L E fuel r s = Ret (a, s') ->
  match r, a with
  | RItem _ _ found _, AItem x | RAny _ _ found _ _ _ _ _, AItem x =>
      match found, r_found x with
      | Some l, Some l' => exists more, l' = l ++ more
      | None, None => True
      | _, _ => False
      end
  | _, _ => True
  end.
Proof.
  intros L E fuel r s a s' H. pose proof (vals_run _ _ _ _ _ _ _ H) as V.
  unfold vpost in V. destruct r, a; try exact I; destruct V as (_ & _ & Hf); exact Hf.
Qed.

(* ---------- 5. Cancellation ---------- *)
Theorem cancel_run : forall L E fuel r s a s', run L E fuel r s = Ret (a, s') -> ctx_err E s' = true ->
  polls s' = polls s \/
  match a with
  | AItem x => r_st x = SFailed /\ r_err x = Some ECancel
  | ABool p => p_out p = PUnknown /\ p_err p = Some ECancel
  end.
Proof.
  intros L E fuel r s a s' H Hh. pose proof (cancels_run _ _ _ _ _ _ _ H) as C.
  unfold cpost in C. destruct a; apply (C Hh).
Qed.

(* ---------- entry points ---------- *)

(* what [query] (the common part of all five entry points) guarantees *)
Lemma query_inv L fuel p doc o vals r s' :
  query L fuel p doc o vals = Ret (r, s') ->
  cpost_i (mkEnv p doc o) (newExec p doc o) r s' /\
  (forall e, r_err r = Some e -> r_st r = SFailed /\ (is_verbose e = true -> o_silent o = false)).
Proof.
  unfold query; intros H; steps H.
  all: match goal with
       | H : executeItem ?E ?self _ _ _ _ = Ret _ |- _ =>
           pose proof (c_executeItem E self (cancels_run L E fuel) _ _ _ _ _ _ H) as C;
           pose proof (v_executeItem E self (vals_run L E fuel) _ _ _ _ _ _ H) as V
       end.
  all: destruct V as (_ & V & _); cbn [verbose newExec] in V.
  all: split;
    [ unfold cpost_i, canc_i in *; cbn [r_st r_err] in *; intros Hh; destruct (C Hh) as [P|[P1 P2]];
      [left; exact P| right; first [split; assumption | rewrite P1 in *; discriminate] ]
    | cbn [r_st r_err]; intros e He;
      first [ discriminate He
            | destruct (V e He) as [V1 V2]; split; [exact V1|];
              intros Hv; specialize (V2 Hv); destruct (o_silent o); [discriminate V2|reflexivity] ] ].
Qed.

Lemma query_cancelled L fuel p doc o vals k r s' :
  o_cancel_at o = Some k -> query L fuel p doc o vals = Ret (r, s') -> (k < polls s')%nat ->
  r_st r = SFailed /\ r_err r = Some ECancel.
Proof.
  intros Hk H Hlt. destruct (query_inv _ _ _ _ _ _ _ _ H) as [C _].
  assert (Hh : ctx_err (mkEnv p doc o) s' = true).
  { unfold ctx_err, mkEnv; cbn [e_cancel_at]. rewrite Hk. apply Nat.ltb_lt. exact Hlt. }
  destruct (C Hh) as [P|P]; [|exact P].
  cbn [polls newExec] in P. lia.
Qed.

Lemma query_silent L fuel p doc o vals r s' :
  o_silent o = true -> query L fuel p doc o vals = Ret (r, s') ->
  forall e, r_err r = Some e -> is_verbose e = false.
Proof.
  intros Hs H e He. destruct (query_inv _ _ _ _ _ _ _ _ H) as [_ V].
  destruct (V e He) as [_ V2]. destruct (is_verbose e); [|reflexivity].
  specialize (V2 eq_refl). congruence.
Qed.

(* take the shared [query] call of an entry point and of [polls_of] apart *)
Ltac entry Hq H Hn :=
  match type of H with
  | bindo (query ?L ?fuel ?p ?doc ?o ?vals) _ = Ret _ =>
      destruct (query L fuel p doc o vals) as [[?r ?s']| |] eqn:Hq;
      cbn [bindo] in H; try discriminate H;
      try (unfold polls_of in Hn; rewrite Hq in Hn; cbn [bindo] in Hn)
  end.

Theorem query_cancel : forall L fuel p doc o k q, o_cancel_at o = Some k -> Query L fuel p doc o = Ret q ->
  (exists n, polls_of L fuel p doc o (Some []) = Ret n /\ (k < n)%nat) -> q = QErr (AErr ECancel).
Proof.
  intros L fuel p doc o k q Hk H (n & Hn & Hlt). unfold Query in H. entry Hq H Hn.
  injection Hn as <-. destruct (query_cancelled _ _ _ _ _ _ _ _ _ Hk Hq Hlt) as [_ He].
  rewrite He in H. injection H as <-. reflexivity.
Qed.

Theorem first_cancel : forall L fuel p doc o k q, o_cancel_at o = Some k -> First L fuel p doc o = Ret q ->
  (exists n, polls_of L fuel p doc o (Some []) = Ret n /\ (k < n)%nat) -> q = FErr (AErr ECancel).
Proof.
  intros L fuel p doc o k q Hk H (n & Hn & Hlt). unfold First in H. entry Hq H Hn.
  injection Hn as <-. destruct (query_cancelled _ _ _ _ _ _ _ _ _ Hk Hq Hlt) as [_ He].
  rewrite He in H. injection H as <-. reflexivity.
Qed.

Theorem exists_cancel : forall L fuel p doc o k q, o_cancel_at o = Some k -> Exists L fuel p doc o = Ret q ->
  (exists n, polls_of L fuel p doc o None = Ret n /\ (k < n)%nat) -> q = BErr (AErr ECancel).
Proof.
  intros L fuel p doc o k q Hk H (n & Hn & Hlt). unfold Exists in H. entry Hq H Hn.
  injection Hn as <-. destruct (query_cancelled _ _ _ _ _ _ _ _ _ Hk Hq Hlt) as [_ He].
  rewrite He in H. injection H as <-. reflexivity.
Qed.

Theorem match_cancel : forall L fuel p doc o k q, o_cancel_at o = Some k -> Match L fuel p doc o = Ret q ->
  (exists n, polls_of L fuel p doc o (Some []) = Ret n /\ (k < n)%nat) -> q = BErr (AErr ECancel).
Proof.
  intros L fuel p doc o k q Hk H (n & Hn & Hlt). unfold Match in H. entry Hq H Hn.
  injection Hn as <-. destruct (query_cancelled _ _ _ _ _ _ _ _ _ Hk Hq Hlt) as [_ He].
  rewrite He in H. injection H as <-. reflexivity.
Qed.

Theorem eom_cancel : forall L fuel p doc o k q, o_cancel_at o = Some k -> ExistsOrMatch L fuel p doc o = Ret q ->
  (exists n, polls_of L fuel p doc o (if p_pred p then Some [] else None) = Ret n /\ (k < n)%nat) ->
  q = BErr (AErr ECancel).
Proof.
  intros L fuel p doc o k q Hk H Hn. unfold ExistsOrMatch in H. destruct (p_pred p).
  - eapply match_cancel; eassumption.
  - eapply exists_cancel; eassumption.
Qed.

(* the same, stated on the final state of the entry point's own [query] call *)
Corollary query_cancel_state : forall L fuel p doc o vals k r s',
  o_cancel_at o = Some k -> query L fuel p doc o vals = Ret (r, s') -> (k < polls s')%nat ->
  r_st r = SFailed /\ r_err r = Some ECancel.
Proof. exact query_cancelled. Qed.

(* every entry point polls at least once *)
Lemma run_item_polls L E fuel n v f u s a s' :
  run L E fuel (RItem n v f u) s = Ret (a, s') -> (S (polls s) <= polls s')%nat.
Proof.
  destruct fuel as [|k]; intros H; [discriminate H|]. rewrite run_S in H. cbn [body] in H.
  apply bindo_Ret in H. destruct H as [[x s1] [H H2]]. injection H2 as _ <-.
  eapply fr_target_polls; [|exact H]. intros r0 s0 a0 s0'. apply frame_run.
Qed.

Lemma query_polls L fuel p doc o vals r s' :
  query L fuel p doc o vals = Ret (r, s') -> (1 <= polls s')%nat.
Proof.
  unfold query; intros H; steps H.
  all: match goal with H : executeItem _ _ _ _ _ _ = Ret _ |- _ =>
         unfold executeItem in H; apply callItem_Ret in H; apply run_item_polls in H;
         cbn [polls newExec] in H; lia end.
Qed.

(* ---------- silent mode never lets a suppressible error out ---------- *)
Theorem silent_never_verbose : forall L fuel p doc o q, o_silent o = true -> Query L fuel p doc o = Ret q ->
  forall s, q <> QErr (AErr (EVerbose s)).
Proof.
  intros L fuel p doc o q Hs H s Hq'. unfold Query in H. entry Hq H H.
  destruct (r_err r) as [e|] eqn:He; injection H as <-; [|discriminate Hq'].
  injection Hq' as ->. pose proof (query_silent _ _ _ _ _ _ _ _ Hs Hq _ He) as V. discriminate V.
Qed.

Theorem first_silent_never_verbose : forall L fuel p doc o q, o_silent o = true -> First L fuel p doc o = Ret q ->
  forall s, q <> FErr (AErr (EVerbose s)).
Proof.
  intros L fuel p doc o q Hs H s Hq'. unfold First in H. entry Hq H H.
  destruct (r_err r) as [e|] eqn:He; injection H as <-; [|discriminate Hq'].
  injection Hq' as ->. pose proof (query_silent _ _ _ _ _ _ _ _ Hs Hq _ He) as V. discriminate V.
Qed.

Theorem exists_silent_never_verbose : forall L fuel p doc o q, o_silent o = true -> Exists L fuel p doc o = Ret q ->
  forall s, q <> BErr (AErr (EVerbose s)).
Proof.
  intros L fuel p doc o q Hs H s Hq'. unfold Exists in H. entry Hq H H.
  destruct (r_err r) as [e|] eqn:He.
  - injection H as <-. injection Hq' as ->.
    pose proof (query_silent _ _ _ _ _ _ _ _ Hs Hq _ He) as V. discriminate V.
  - destruct (st_failed (r_st r)); injection H as <-; discriminate Hq'.
Qed.

Theorem match_silent_never_verbose : forall L fuel p doc o q, o_silent o = true -> Match L fuel p doc o = Ret q ->
  forall s, q <> BErr (AErr (EVerbose s)).
Proof.
  intros L fuel p doc o q Hs H s Hq'. unfold Match in H. entry Hq H H.
  destruct (r_err r) as [e|] eqn:He.
  - injection H as <-. injection Hq' as ->.
    pose proof (query_silent _ _ _ _ _ _ _ _ Hs Hq _ He) as V. discriminate V.
  - rewrite Hs in H. cbn [negb] in H.
    destruct (r_found r) as [[|[] []]|]; injection H as <-; discriminate Hq'.
Qed.

Theorem eom_silent_never_verbose : forall L fuel p doc o q, o_silent o = true -> ExistsOrMatch L fuel p doc o = Ret q ->
  forall s, q <> BErr (AErr (EVerbose s)).
Proof.
  intros L fuel p doc o q Hs H. unfold ExistsOrMatch in H. destruct (p_pred p).
  - eapply match_silent_never_verbose; eassumption.
  - eapply exists_silent_never_verbose; eassumption.
Qed.

(* ---------- the hypotheses are satisfiable (non-vacuity witnesses) ----------
   A library whose oracles are all trivial is enough for paths that do not use them. *)
Definition L_triv : ExecLib :=
  mkExecLib (fun _ => None) (fun _ _ _ => None) (fun _ => EmptyString) (fun _ => EmptyString)
            (fun _ => SpecFloat.S754_zero false) (fun _ => 0)
            (fun a _ => a) (fun a => a) (fun a => a) (fun a => a) (fun a => a)
            (fun _ => SpecFloat.S754_zero false)
            (fun _ _ _ => false) (fun _ _ => None) (fun _ _ _ => CastInvalid)
            (fun _ _ _ => CmpInvalid) (fun _ => EmptyString) (fun l => map snd l).

Definition p_wit : path := mkpath true false [SConst CRoot; SKey "a"].
Definition doc_wit : json := JObj 1 [("a"%string, JNum (NInt 7))].
Definition o_wit (c : option nat) (silent : bool) : opts := mkopts [] 0 silent false c 100.

(* not cancelled: a result; cancelled at the second poll: two polls are made,
   1 < 2, and the outcome is the cancellation — in both modes *)
Example cancel_witness :
  Query L_triv 10 p_wit doc_wit (o_wit None false) = Ret (QItems [JNum (NInt 7)]) /\
  polls_of L_triv 10 p_wit doc_wit (o_wit (Some 1%nat) false) (Some []) = Ret 2%nat /\
  Query L_triv 10 p_wit doc_wit (o_wit (Some 1%nat) false) = Ret (QErr (AErr ECancel)) /\
  Query L_triv 10 p_wit doc_wit (o_wit (Some 1%nat) true) = Ret (QErr (AErr ECancel)).
Proof. vm_compute. repeat split; reflexivity. Qed.

(* a suppressible error: reported when verbose, absent when silent *)
Example silent_witness :
  Query L_triv 10 (mkpath false false [SConst CRoot; SKey "b"]) doc_wit (o_wit None false)
    = Ret (QErr (AErr (EVerbose "JSON object does not contain key"))) /\
  Query L_triv 10 (mkpath false false [SConst CRoot; SKey "b"]) doc_wit (o_wit None true)
    = Ret (QItems []).
Proof. vm_compute. repeat split; reflexivity. Qed.

Print Assumptions frame_run.
Print Assumptions coherent_run.
Print Assumptions quiet_run.
Print Assumptions found_run.
Print Assumptions cancel_run.
Print Assumptions query_cancel.
Print Assumptions first_cancel.
Print Assumptions exists_cancel.
Print Assumptions match_cancel.
Print Assumptions eom_cancel.
Print Assumptions silent_never_verbose.
Print Assumptions first_silent_never_verbose.
Print Assumptions exists_silent_never_verbose.
Print Assumptions match_silent_never_verbose.
Print Assumptions eom_silent_never_verbose.
