(* InvTac.v — the stepping tactic shared by the invariant proofs
   (Invariants1.v frame, Invariants2.v result values, Invariants3.v cancellation).
   [steps H] takes a hypothesis  H : <code> = Ret (x, s')  apart along the
   control flow of <code>: binds are inverted, the scrutinee of the head
   [if]/[match] is destructed (with an equation), [Ret _ = Ret _] is inverted
   and only the result variables are substituted.  Calls of named functions
   are left alone; each proof turns them into facts with its own lemmas. *)
From SJ Require Import lib.Base model.Json model.Ast model.ExecLib model.Leaf model.Exec proofs.RunBasics.

Lemma Ret_inj {A} (a b : A) : @Ret A a = Ret b -> a = b.
Proof. intros H; injection H as H; exact H. Qed.

Lemma pair_inj {A B} (a c : A) (b d : B) : (a, b) = (c, d) -> a = c /\ b = d.
Proof. intros H; injection H as H1 H2; auto. Qed.

(* an equation produced by inverting [Ret _ = Ret _]: split pairs, substitute
   a variable on the right, discriminate/inject constructors, else keep *)
Ltac eq_simpl Q :=
  lazymatch type of Q with
  | (_, _) = (_, _) =>
      let Q1 := fresh "Q" in let Q2 := fresh "Q" in
      apply pair_inj in Q; destruct Q as [Q1 Q2]; eq_simpl Q1; eq_simpl Q2
  | ?t = ?v =>
      first [ is_var v; subst v
            | discriminate Q
            | injection Q as Q; eq_simpl Q
            | idtac ]
  end.

Ltac ret_inv H := apply Ret_inj in H; eq_simpl H.

Ltac destr x := tryif is_var x then destruct x else destruct x eqn:?.

Ltac norm H :=
  cbv beta zeta delta [ret] in H;
  cbn [bindo st_failed st_ok fnil cnil negb andb orb is_some fst snd
       r_st r_err r_found p_out p_err] in H.

Ltac steps H :=
  norm H;
  lazymatch type of H with
  | Ret _ = Ret _ => ret_inv H
  | Panic _ = Ret _ => discriminate H
  | OutOfFuel = Ret _ => discriminate H
  | bindo _ _ = Ret _ =>
      let a := fresh "a" in let H1 := fresh "H" in
      apply bindo_Ret in H; destruct H as [a [H1 H]];
      steps H1; steps H
  | (if ?c then _ else _) = Ret _ => destr c; steps H
  | (if ?c then _ else _) _ = Ret _ => destr c; steps H
  | (match ?x with _ => _ end) = Ret _ => destr x; steps H
  | (match ?x with _ => _ end) _ = Ret _ => destr x; steps H
  | _ => idtac
  end.

(* get rid of [if b then s1 else s2] states / flags left in the context *)
Ltac split_ifs :=
  repeat match goal with
         | H : context[if ?b then _ else _] |- _ => destr b
         | |- context[if ?b then _ else _] => destr b
         end.

(* normalise boolean path conditions in the whole context *)
Ltac bool_norm :=
  repeat (progress (cbn [is_verbose is_some negb orb andb st_failed st_ok] in *;
                    rewrite ?orb_true_r, ?orb_false_r, ?andb_true_r, ?andb_false_r, ?negb_true_iff, ?negb_false_iff in * )).

