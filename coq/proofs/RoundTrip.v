(* RoundTrip.v — C02 (printer/parser round trip): the exclusion predicate
   [excl_C02], the refutations of the round trip inside each excluded class,
   concrete positive instances on the concrete library CL; and the C03 keyword
   case-insensitivity sweep (for every GoLib satisfying the Laws).

   The general theorem
     C02 : forall L, Laws L -> forall p,
       wf_path L p -> excl_C02 p = false -> parse L (print_path L p) = POk p
   is proved in proofs/ParserMain.v from proofs/LexPrint.v (lexing the print gives
   proofs/Tokens.tok_path) and proofs/ParsePrint.v (parsing tok_path gives p); the
   property-level statements are in props/C02.v. *)
From Coq Require Import Floats.SpecFloat.
From SJ Require Import lib.Base lib.Utf8 lib.GoLib lib.F64 lib.Strconv gen.Unicode
  model.Json model.Ast model.Lexer model.Parser model.Printer model.PathAPI.
Local Open Scope string_scope.
Local Open Scope list_scope.
Local Open Scope Z_scope.

(* ------------------------------------------------------------------ *)
(* the excluded classes *)

(* (a) an operator node that carries an accessor chain *)
Definition is_operator_step (s : step) : bool :=
  match s with
  | SBin _ _ _ | SRegex _ _ _ => true
  | SUn (UExists | UNot | UIsUnknown | UPlus | UMinus) _ => true
  | _ => false
  end.

Definition op_with_tail (c : chain) : bool :=
  match c with
  | h :: _ :: _ => is_operator_step h
  | _ => false
  end.

(* (b) an integral-valued numeric literal *)
Definition integral_numeric (s : step) : bool :=
  match s with SNumeric f => f64_integral f | _ => false end.

(* anywhere in the tree *)
Definition excl_chain (c : chain) : bool :=
  negb (ch_all (fun s => negb (integral_numeric s)) (fun c => negb (op_with_tail c)) c)
  || op_with_tail c.

Definition excl_C02 (p : path) : bool := excl_chain (p_root p).

(* ------------------------------------------------------------------ *)
(* a concrete library: the generated Unicode tables, lib/Strconv.v, every
   regular expression accepted (regex_ok is not exercised below) *)
Definition CL : GoLib :=
  mkGoLib xid_start xid_continue is_print to_lower
          (Strconv.parse_int 0 64) Strconv.parse_float Strconv.format_int
          Strconv.format_float_json F64.f64_neg (fun _ _ => true).

Definition rt (p : path) : parse_result := parse CL (print_path CL p).

(* ---- refutations: inside each excluded class the round trip fails ---- *)

(* (a)  (1 * 2).abs() + 3  prints as  (1 * 2.abs() + 3)  : not even lexable *)
Definition pa : path :=
  mkpath true false [SBin BAdd [SBin BMul [SInteger 1] [SInteger 2]; SMeth MAbs] [SInteger 3]].
Example C02_refuted_a :
  excl_C02 pa = true /\ print_path CL pa = "(1 * 2.abs() + 3)"%string /\
  rt pa = PErr (ELex ENumJunk).
Proof. vm_compute. repeat split. Qed.

(* (a')  (-$.a).b + 1  prints as  (-$."a"."b" + 1)  : parses, to another tree *)
Definition pa' : path :=
  mkpath true false [SBin BAdd [SUn UMinus [SConst CRoot; SKey "a"]; SKey "b"] [SInteger 1]].
Example C02_refuted_a' :
  excl_C02 pa' = true /\
  rt pa' = POk (mkpath true false [SBin BAdd [SUn UMinus [SConst CRoot; SKey "a"; SKey "b"]] [SInteger 1]]).
Proof. vm_compute. repeat split. Qed.

(* (a'')  (!($.a == 1)).b  prints as  !($."a" == 1)."b"  : a syntax error.
   (Not every tree of class (a) fails: at the top level, and wherever the
   priority rule happens to add parentheses, the text re-parses.) *)
Definition pa'' : path :=
  mkpath true false [SUn UNot [SBin BEq [SConst CRoot; SKey "a"] [SInteger 1]]; SKey "b"].
Example C02_refuted_a'' : excl_C02 pa'' = true /\ rt pa'' = PErr ESyntax.
Proof. vm_compute. repeat split. Qed.

(* (b)  4.0  prints as  4  : an IntegerNode *)
Definition four : f64 := S754_finite false 4503599627370496 (-50).
Definition pb : path := mkpath true false [SNumeric four].
Example C02_refuted_b :
  excl_C02 pb = true /\ print_path CL pb = "4"%string /\ rt pb = POk (mkpath true false [SInteger 4]).
Proof. vm_compute. repeat split. Qed.

(* (b')  1e20  prints as 100000000000000000000 : out of int64 range *)
Definition e20 : f64 := S754_finite false 6103515625000000 14.
Definition pb' : path := mkpath true false [SNumeric e20].
Example C02_refuted_b' :
  excl_C02 pb' = true /\ print_path CL pb' = "100000000000000000000"%string /\
  rt pb' = PErr EIntParse.
Proof. vm_compute. repeat split. Qed.

(* ---- positive instances (every node kind) ---- *)
Definition half : f64 := S754_finite false 4503599627370496 (-53).
Definition sample_paths : list path :=
  [ mkpath true false [SConst CRoot; SKey "a"; SIndex [([SInteger 1], Some [SConst CLast]); ([SInteger (-2)], None)];
                       SUn UFilter [SRegex [SConst CCurrent; SKey "b"] "^a" 17]];
    mkpath false false [SConst CRoot; SAny 2 4294967295; SMeth MKeyValue; SDecimal (Some 5) (Some (-2));
                        SDt DDateTime (Some "HH24") None; SDt DTime None (Some 3); SConst CAnyKey; SConst CAnyArray];
    mkpath true true [SBin BOr [SBin BAnd [SBin BGt [SConst CRoot; SKey "x"] [SNumeric half]]
                                        [SUn UNot [SBin BEq [SVar "v"] [SStr (String (Ascii.ascii_of_nat 7) (String (Ascii.ascii_of_nat 10) "q""\z"))]]]]
                             [SUn UIsUnknown [SUn UExists [SConst CRoot; SKey "c"]]]];
    mkpath true false [SBin BMul [SBin BAdd [SInteger 1] [SInteger 2]] [SUn UMinus [SConst CRoot; SKey "x"]]];
    mkpath true false [SInteger (-1); SMeth MAbs];
    mkpath true true [SBin BStartsWith [SConst CRoot] [SVar "p"]];
    mkpath true false [SBin BSub [SInteger (-3)] [SBin BSub [SInteger 1; SKey "x"] [SUn UMinus [SUn UMinus [SConst CRoot]]]]] ].

Fixpoint all_rt (l : list path) : bool :=
  match l with
  | [] => true
  | p :: r =>
      match rt p with
      | POk p' => String.eqb (print_path CL p') (print_path CL p) && negb (excl_C02 p) && all_rt r
      | PErr _ => false
      end
  end.

Example C02_samples : all_rt sample_paths = true.
Proof. vm_compute. reflexivity. Qed.

Example C02_sample_trees :
  map rt sample_paths = map POk sample_paths.
Proof. vm_compute. reflexivity. Qed.

(* ------------------------------------------------------------------ *)
(* C03: keyword case-insensitivity, for every library satisfying the Laws.
   Every entry of the keyword table, written in ANY mix of ASCII letter case,
   lexes to that keyword (true / false / null are case-sensitive in lex.go and
   are not in this table). *)

Definition all_ascii (s : string) : bool := forallb (fun b => b <? 128) (bytes_of s).

Lemma bytes_of_String c s : bytes_of (String c s) = Z_of_ascii c :: bytes_of s.
Proof. reflexivity. Qed.

Lemma runes_of_ascii_cons c s :
  Z_of_ascii c < 128 -> runes_of (String c s) = Z_of_ascii c :: runes_of s.
Proof.
  intros H. unfold runes_of, runes_of_bytes. rewrite bytes_of_String. cbn [decode_events].
  unfold decode_rune. replace (Z_of_ascii c <? 128) with true by lia.
  cbn [snd Nat.pred map fst]. reflexivity.
Qed.

Scheme Equality for kw.

Section KW.
Variable L : GoLib.
Hypothesis HL : Laws L.

Lemma str_to_lower_ascii s : all_ascii s = true -> str_to_lower L s = str_lower s.
Proof.
  induction s as [|c s IH]; intros A; [reflexivity|].
  unfold all_ascii in A. rewrite bytes_of_String in A. cbn [forallb] in A.
  apply andb_prop in A as [Ac As].
  unfold str_to_lower. rewrite runes_of_ascii_cons by lia.
  cbn [map]. unfold string_of_runes. cbn [encode_runes flat_map].
  pose proof (Z_of_ascii_range c) as R.
  rewrite (to_lower_ascii L HL) by lia.
  rewrite str_of_bytes_app.
  change (str_of_bytes (flat_map encode_rune (map (GoLib.to_lower L) (runes_of s)))) with (str_to_lower L s).
  rewrite IH by exact As. cbn [str_lower]. unfold lower_ascii.
  destruct ((65 <=? Z_of_ascii c) && (Z_of_ascii c <=? 90)) eqn:U.
  - rewrite encode_rune_ascii by lia. reflexivity.
  - rewrite encode_rune_ascii by lia. cbn. rewrite ascii_of_Z_of_ascii. reflexivity.
Qed.

(* the finite sweep over the table: each entry is found under its own
   spelling, and no entry is one of the three case-sensitive words *)
Definition kw_entry_ok (e : string * kw) : bool :=
  negb (String.eqb (fst e) "null") && negb (String.eqb (fst e) "true") &&
  negb (String.eqb (fst e) "false") &&
  match assoc_str (fst e) kw_table with Some k => kw_beq k (snd e) | None => false end.

Lemma kw_table_sweep : forallb kw_entry_ok kw_table = true.
Proof. vm_compute. reflexivity. Qed.

Lemma str_lower_idem s : str_lower (str_lower s) = str_lower s.
Proof.
  induction s as [|c s IH]; [reflexivity|]. cbn [str_lower]. rewrite IH. f_equal.
  unfold lower_ascii at 1. unfold lower_ascii.
  pose proof (Z_of_ascii_range c).
  destruct ((65 <=? Z_of_ascii c) && (Z_of_ascii c <=? 90)) eqn:U.
  - rewrite Z_of_ascii_of_Z by lia.
    replace ((65 <=? Z_of_ascii c + 32) && (Z_of_ascii c + 32 <=? 90)) with false by lia. reflexivity.
  - rewrite U. reflexivity.
Qed.

Theorem kw_case_insensitive v w k :
  In (w, k) kw_table -> all_ascii v = true -> str_lower v = w -> ident_token L v = TKw k.
Proof.
  intros Hin Ha Hl.
  pose proof kw_table_sweep as Sw. rewrite forallb_forall in Sw. specialize (Sw _ Hin).
  unfold kw_entry_ok in Sw. cbn [fst snd] in Sw.
  apply andb_prop in Sw as [Sw S4]. apply andb_prop in Sw as [Sw S3]. apply andb_prop in Sw as [S1 S2].
  unfold ident_token.
  assert (N: forall x, str_lower x = x -> String.eqb w x = false -> String.eqb v x = false).
  { intros x Hx Hw. destruct (String.eqb v x) eqn:E; [|reflexivity].
    apply String.eqb_eq in E. subst v. rewrite Hx in Hl. subst w. rewrite String.eqb_refl in Hw. discriminate. }
  rewrite (N "null"%string eq_refl) by (apply negb_true_iff; exact S1).
  rewrite (N "true"%string eq_refl) by (apply negb_true_iff; exact S2).
  rewrite (N "false"%string eq_refl) by (apply negb_true_iff; exact S3).
  rewrite str_to_lower_ascii by exact Ha. rewrite Hl.
  destruct (assoc_str w kw_table) as [k'|]; [|discriminate].
  apply internal_kw_dec_bl in S4. subst. reflexivity.
Qed.
End KW.

Print Assumptions kw_case_insensitive.

(* the Unicode-aware part of strings.ToLower, finding (d): with the real
   tables, U+212A KELVIN SIGN and U+0130 also fold onto ASCII letters *)
Example kelvin_keyvalue :
  ident_token CL (string_of_runes [8490; 101; 121; 118; 97; 108; 117; 101]) = TKw KKeyvalue.
Proof. vm_compute. reflexivity. Qed.
Example dotted_I_is :
  ident_token CL (string_of_runes [304; 115]) = TKw KIs.
Proof. vm_compute. reflexivity. Qed.
