(* ParserTables.v — the model's keyword / priority / name tables in the
   vocabulary of the tables generated from /repo (gen/Keywords.v,
   gen/Priorities.v, gen/OpNames.v), so that props/C0x.v can pin them. *)
From SJ Require Import lib.Base lib.GoLib model.Json model.Ast model.Lexer model.Parser model.Printer.
Local Open Scope string_scope.
Local Open Scope list_scope.

(* the goyacc token constant of a keyword *)
Definition kw_token_name (k : kw) : string :=
  match k with
  | KTo => "TO_P" | KNull => "NULL_P" | KTrue => "TRUE_P" | KFalse => "FALSE_P" | KIs => "IS_P"
  | KUnknown => "UNKNOWN_P" | KExists => "EXISTS_P" | KStrict => "STRICT_P" | KLax => "LAX_P"
  | KLast => "LAST_P" | KStarts => "STARTS_P" | KWith => "WITH_P" | KLikeRegex => "LIKE_REGEX_P"
  | KFlag => "FLAG_P" | KAbs => "ABS_P" | KSize => "SIZE_P" | KType => "TYPE_P"
  | KFloor => "FLOOR_P" | KDouble => "DOUBLE_P" | KCeiling => "CEILING_P"
  | KKeyvalue => "KEYVALUE_P" | KDatetime => "DATETIME_P" | KBigint => "BIGINT_P"
  | KBoolean => "BOOLEAN_P" | KDate => "DATE_P" | KDecimal => "DECIMAL_P"
  | KInteger => "INTEGER_P" | KNumber => "NUMBER_P" | KStringfunc => "STRINGFUNC_P"
  | KTime => "TIME_P" | KTimeTz => "TIME_TZ_P" | KTimestamp => "TIMESTAMP_P"
  | KTimestampTz => "TIMESTAMP_TZ_P"
  end.

(* the model's case-insensitive keyword table, as (spelling, token constant) *)
Definition model_keywords_ci : list (string * string) :=
  map (fun e => (fst e, kw_token_name (snd e))) kw_table.

(* the three case-sensitive words, read off ident_token (which tests them
   before lower-casing); L-independent *)
Definition model_keywords_cs (L : GoLib) : list (string * string) :=
  map (fun w => (w, match ident_token L w with TKw k => kw_token_name k | _ => "IDENT_P" end))
      ["null"; "true"; "false"].

Definition binop_go_name (op : binop) : string :=
  match op with
  | BAnd => "BinaryAnd" | BOr => "BinaryOr" | BEq => "BinaryEqual" | BNe => "BinaryNotEqual"
  | BLt => "BinaryLess" | BGt => "BinaryGreater" | BLe => "BinaryLessOrEqual"
  | BGe => "BinaryGreaterOrEqual" | BStartsWith => "BinaryStartsWith" | BAdd => "BinaryAdd"
  | BSub => "BinarySub" | BMul => "BinaryMul" | BDiv => "BinaryDiv" | BMod => "BinaryMod"
  end.

Definition all_binops_by_priority : list binop :=
  [BOr; BAnd; BEq; BNe; BLt; BGt; BLe; BGe; BStartsWith; BAdd; BSub; BMul; BDiv; BMod].

(* BinaryOperator.priority() as the printer uses it *)
Definition model_binary_priority : list (string * Z) :=
  map (fun op => (binop_go_name op, Z.of_nat (binop_prio op))) all_binops_by_priority.

(* UnaryOperator.priority() for the two operators that are not lowestPriority *)
Definition model_unary_priority : list (string * Z) :=
  [("UnaryPlus", Z.of_nat (step_prio (SUn UPlus []))); ("UnaryMinus", Z.of_nat (step_prio (SUn UMinus [])))].

(* the %left/%right/%nonassoc lines of grammar.y, lowest first, with the
   level the reference parser gives each token (comparisons, starts with and
   like_regex have no declared precedence in grammar.y; the parser puts them
   at level 3, between AND_P and '+' '-') *)
Definition model_precedence : list (string * list (string * nat)) :=
  [ ("left", [("OR_P", 1%nat)]);
    ("left", [("AND_P", 2%nat)]);
    ("right", [("NOT_P", 3%nat)]);
    ("left", [("+", 4%nat); ("-", 4%nat)]);
    ("left", [("*", 5%nat); ("/", 5%nat); ("%", 5%nat)]);
    ("left", [("UMINUS", 6%nat)]);
    ("nonassoc", [("(", 7%nat); (")", 7%nat)]) ].

Definition model_grammar_precedence : list (string * list string) :=
  map (fun e => (fst e, map fst (snd e))) model_precedence.

(* ... and those levels are the ones p_loop uses *)
Definition parser_levels_ok : bool :=
  match arith_of_tok (TChar 43), arith_of_tok (TChar 45), arith_of_tok (TChar 42),
        arith_of_tok (TChar 47), arith_of_tok (TChar 37) with
  | Some (BAdd, 4%nat), Some (BSub, 4%nat), Some (BMul, 5%nat), Some (BDiv, 5%nat), Some (BMod, 5%nat) => true
  | _, _, _, _, _ => false
  end.

(* printed names (stringer -linecomment) *)
Definition const_go_name (k : constk) : string :=
  match k with
  | CRoot => "ConstRoot" | CCurrent => "ConstCurrent" | CLast => "ConstLast"
  | CAnyArray => "ConstAnyArray" | CAnyKey => "ConstAnyKey" | CTrue => "ConstTrue"
  | CFalse => "ConstFalse" | CNull => "ConstNull"
  end.
Definition meth_go_name (m : meth) : string :=
  match m with
  | MAbs => "MethodAbs" | MSize => "MethodSize" | MType => "MethodType" | MFloor => "MethodFloor"
  | MCeiling => "MethodCeiling" | MDouble => "MethodDouble" | MKeyValue => "MethodKeyValue"
  | MBigInt => "MethodBigInt" | MBoolean => "MethodBoolean" | MInteger => "MethodInteger"
  | MNumber => "MethodNumber" | MString => "MethodString"
  end.
Definition dtop_go_name (op : dtop) : string :=
  match op with
  | DDateTime => "UnaryDateTime" | DDate => "UnaryDate" | DTime => "UnaryTime"
  | DTimeTZ => "UnaryTimeTZ" | DTimestamp => "UnaryTimestamp" | DTimestampTZ => "UnaryTimestampTZ"
  end.

Definition model_op_names : list (string * string) :=
  map (fun k => (const_go_name k, const_name k))
      [CRoot; CCurrent; CLast; CAnyArray; CAnyKey; CTrue; CFalse; CNull] ++
  map (fun op => (binop_go_name op, binop_name op))
      [BAnd; BOr; BEq; BNe; BLt; BGt; BLe; BGe; BStartsWith; BAdd; BSub; BMul; BDiv; BMod] ++
  [("BinarySubscript", "to"); ("BinaryDecimal", ".decimal()");
   ("UnaryExists", "exists"); ("UnaryNot", "!"); ("UnaryIsUnknown", "is unknown");
   ("UnaryPlus", "+"); ("UnaryMinus", "-"); ("UnaryFilter", "?")] ++
  map (fun op => (dtop_go_name op, dtop_name op))
      [DDateTime; DDate; DTime; DTimeTZ; DTimestamp; DTimestampTZ] ++
  map (fun m => (meth_go_name m, meth_name m))
      [MAbs; MSize; MType; MFloor; MCeiling; MDouble; MKeyValue; MBigInt; MBoolean; MInteger;
       MNumber; MString].
